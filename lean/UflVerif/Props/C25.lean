/-
C25  Sobolev space comparisons form a consistent partial order.

Model: `UflVerif.Sobolev` (Model/Sobolev.lean), a transcription of the comparison operators of
ufl/sobolevspace.py; the table of predefined spaces (`Gen.Sobolev.spaces`) is regenerated from the
live objects on every run, and the model is run against the implementation on every ordered pair
of a finite domain (Drivers/C25.lean).

Spec ("a is a subspace of b"), section `Spec`: the declared inclusion lattice of the predefined
spaces, written out by hand as cover relations, and for a fixed spatial dimension n the
componentwise order on n-tuples of spaces, a directional space D(o₁..oₙ) being the tuple
(H^{o₁}, …, H^{oₙ}) and a predefined space S the constant tuple (S, …, S).

All theorems hold for directional spaces of *every* length n ≥ 1.
-/
import UflVerif.Model.Sobolev

namespace UflVerif.C25
open UflVerif.Sobolev UflVerif.Gen.Sobolev

/-! ## Spec -/

/-- the inclusion lattice as mathematics declares it: `(a, b)` means a ⊂ b with nothing between -/
def covers : List (String × String) :=
  [("HDiv", "L2"), ("HCurl", "L2"), ("H1", "HDiv"), ("H1", "HCurl"), ("H1Div", "H1"), ("H1Curl", "H1"),
   ("H2", "H1Div"), ("H2", "H1Curl"), ("H3", "H2"), ("HInf", "H3"),
   ("HEin", "L2"), ("HDivDiv", "L2"), ("HCurlDiv", "L2")]

/-- reflexive-transitive closure of `covers` (fuel = number of spaces) -/
def reach : Nat → String → String → Bool
  | 0, a, b => a == b
  | f + 1, a, b => a == b || covers.any (fun (x, y) => x == a && reach f y b)

def specSub (a b : String) : Bool := reach 12 a b

/-- tuple of named spaces a space denotes in spatial dimension n -/
def emb (n : Nat) : Space → List String
  | .named s => List.replicate n s
  | .dir os => os.map Ord.space

/-- componentwise inclusion of tuples of equal length -/
def leL : List String → List String → Bool
  | [], [] => true
  | a :: as, b :: bs => isSub a b && leL as bs
  | _, _ => false

/-- `a` is a space of spatial dimension `n` -/
def InDim (n : Nat) : Space → Prop
  | .named s => s ∈ names
  | .dir os => os.length = n

def specLe (n : Nat) (a b : Space) : Bool := leL (emb n a) (emb n b)
/-- a is a *proper* subspace of b -/
def specLt (n : Nat) (a b : Space) : Bool := specLe n a b && !specLe n b a

/-! ## Facts about the regenerated table (finite, by `decide`) -/

theorem C25_table_is_declared_lattice : ∀ a ∈ names, ∀ b ∈ names, isSub a b = specSub a b := by decide +kernel

theorem sub_refl : ∀ a ∈ names, isSub a a = true := by decide +kernel
theorem sub_trans : ∀ a ∈ names, ∀ b ∈ names, ∀ c ∈ names,
    isSub a b = true → isSub b c = true → isSub a c = true := by decide +kernel
theorem sub_antisymm : ∀ a ∈ names, ∀ b ∈ names, isSub a b = true → isSub b a = true → a = b := by decide +kernel
theorem parents_strict : ∀ a ∈ names, ∀ b ∈ names,
    (parentsOf a).contains b = (isSub a b && !isSub b a) := by decide +kernel
theorem ord_mono : ∀ x y : Ord, isSub x.space y.space = decide (y.toNat ≤ x.toNat) := by
  intro x y; cases x <;> cases y <;> decide +kernel
theorem ord_named : ∀ x : Ord, x.space ∈ names := by intro x; cases x <;> decide +kernel

/-! ## Lifting to tuples -/

theorem leL_refl : ∀ l : List String, (∀ x ∈ l, x ∈ names) → leL l l = true
  | [], _ => rfl
  | a :: as, h => by
    simp only [leL, Bool.and_eq_true]
    exact ⟨sub_refl a (h a (by simp)), leL_refl as (fun x hx => h x (by simp [hx]))⟩

theorem leL_trans : ∀ l₁ l₂ l₃ : List String, (∀ x ∈ l₁, x ∈ names) → (∀ x ∈ l₂, x ∈ names) → (∀ x ∈ l₃, x ∈ names) →
    leL l₁ l₂ = true → leL l₂ l₃ = true → leL l₁ l₃ = true
  | [], [], [], _, _, _, _, _ => rfl
  | a :: as, b :: bs, c :: cs, h1, h2, h3, h12, h23 => by
    simp only [leL, Bool.and_eq_true] at *
    exact ⟨sub_trans a (h1 a (by simp)) b (h2 b (by simp)) c (h3 c (by simp)) h12.1 h23.1,
           leL_trans as bs cs (fun x hx => h1 x (by simp [hx])) (fun x hx => h2 x (by simp [hx]))
             (fun x hx => h3 x (by simp [hx])) h12.2 h23.2⟩
  | [], [], _ :: _, _, _, _, _, h => by simp [leL] at h
  | [], _ :: _, _, _, _, _, h, _ => by simp [leL] at h
  | _ :: _, [], _, _, _, _, h, _ => by simp [leL] at h
  | _ :: _, _ :: _, [], _, _, _, _, h => by simp [leL] at h

theorem leL_antisymm : ∀ l₁ l₂ : List String, (∀ x ∈ l₁, x ∈ names) → (∀ x ∈ l₂, x ∈ names) →
    leL l₁ l₂ = true → leL l₂ l₁ = true → l₁ = l₂
  | [], [], _, _, _, _ => rfl
  | a :: as, b :: bs, h1, h2, h12, h21 => by
    simp only [leL, Bool.and_eq_true] at *
    have hab := sub_antisymm a (h1 a (by simp)) b (h2 b (by simp)) h12.1 h21.1
    have := leL_antisymm as bs (fun x hx => h1 x (by simp [hx])) (fun x hx => h2 x (by simp [hx])) h12.2 h21.2
    rw [hab, this]
  | [], _ :: _, _, _, h, _ => by simp [leL] at h
  | _ :: _, [], _, _, h, _ => by simp [leL] at h

theorem emb_names (n : Nat) : ∀ a : Space, InDim n a → ∀ x ∈ emb n a, x ∈ names
  | .named s, h, x, hx => by
    simp only [emb, List.mem_replicate] at hx; rw [hx.2]; exact h
  | .dir os, _, x, hx => by
    simp only [emb, List.mem_map] at hx
    obtain ⟨o, _, rfl⟩ := hx; exact ord_named o

/-! ### the model's case analysis equals the componentwise order -/

theorem leL_replicate (n : Nat) (hn : 1 ≤ n) (a b : String) (_ha : a ∈ names) :
    leL (List.replicate n a) (List.replicate n b) = isSub a b := by
  induction n with
  | zero => omega
  | succ k ih =>
    cases k with
    | zero => simp [List.replicate, leL]
    | succ j =>
      have := ih (by omega)
      simp only [List.replicate_succ, leL] at *
      rw [this]; simp

theorem leL_dir_dir : ∀ a b : List Ord, a.length = b.length →
    leL (a.map Ord.space) (b.map Ord.space) = allGe a b
  | [], [], _ => rfl
  | x :: xs, y :: ys, h => by
    simp only [List.map, leL, allGe, ord_mono]
    rw [leL_dir_dir xs ys (by simpa using h)]
  | [], _ :: _, h => by simp at h
  | _ :: _, [], h => by simp at h

theorem anyGt_eq : ∀ a b : List Ord, a.length = b.length → allGe a b = true →
    anyGt a b = !allGe b a
  | [], [], _, _ => rfl
  | x :: xs, y :: ys, h, hg => by
    simp only [allGe, Bool.and_eq_true, decide_eq_true_eq] at hg
    have ih := anyGt_eq xs ys (by simpa using h) hg.2
    simp only [anyGt, allGe, ih]
    by_cases hlt : y.toNat < x.toNat
    · have : ¬ x.toNat ≤ y.toNat := by omega
      simp [hlt, this]
    · have : x.toNat ≤ y.toNat := by omega
      simp [hlt, this]
  | [], _ :: _, h, _ => by simp at h
  | _ :: _, [], h, _ => by simp at h

theorem leL_dir_named : ∀ (a : List Ord) (b : String),
    leL (a.map Ord.space) (List.replicate a.length b) = a.all (fun o => isSub o.space b)
  | [], _ => rfl
  | x :: xs, b => by
    simp only [List.map, List.length_cons, List.replicate_succ, leL, List.all_cons]
    rw [leL_dir_named xs b]

theorem leL_named_dir : ∀ (a : List Ord) (b : String),
    leL (List.replicate a.length b) (a.map Ord.space) = a.all (fun o => isSub b o.space)
  | [], _ => rfl
  | x :: xs, b => by
    simp only [List.map, List.length_cons, List.replicate_succ, leL, List.all_cons]
    rw [leL_named_dir xs b]

theorem and_not_true {x y : Bool} (h : true = (x && !y)) : x = true ∧ y = false := by
  cases x <;> cases y <;> simp_all

theorem beq_eq_sub (a b : String) (ha : a ∈ names) (hb : b ∈ names) : (a == b) = (isSub a b && isSub b a) := by
  by_cases h : a = b
  · subst h; simp [sub_refl a ha]
  · have hne : (a == b) = false := by simp [h]
    rw [hne]
    cases h1 : isSub a b <;> cases h2 : isSub b a <;> simp
    exact h (sub_antisymm a ha b hb h1 h2)

/-- `D(o) == S` (all components equal S) is inclusion in both directions -/
theorem eq_dir_named : ∀ (a : List Ord) (b : String), b ∈ names →
    a.all (fun o => o.space == b) = (a.all (fun o => isSub o.space b) && a.all (fun o => isSub b o.space))
  | [], _, _ => rfl
  | x :: xs, b, hb => by
    simp only [List.all_cons]
    rw [eq_dir_named xs b hb]
    have h1 := beq_eq_sub x.space b (ord_named x) hb
    rw [h1]
    cases isSub x.space b <;> cases isSub b x.space <;> simp

/-- **a < b holds exactly when a is a proper subspace of b** (whenever the comparison is defined):
    the operator's answer is the strict part of the componentwise inclusion order. -/
theorem C25_lt_iff_proper_subspace (n : Nat) (hn : 1 ≤ n) (a b : Space) (ha : InDim n a) (hb : InDim n b)
    (r : Bool) (h : lt a b = some r) : r = specLt n a b := by
  unfold lt at h
  cases a with
  | named s =>
    cases b with
    | named t =>
      simp only [properSub, Option.some.injEq] at h
      simp only [specLt, specLe, emb]
      rw [leL_replicate n hn s t ha, leL_replicate n hn t s hb, ← h]
      exact parents_strict s ha t hb
    | dir os =>
      simp only [InDim] at hb
      simp only [properSub] at h
      split at h
      · simp at h
      · simp only [Option.some.injEq] at h
        simp only [specLt, specLe, emb, ← hb, leL_named_dir, leL_dir_named, ← h, eqS, eq_dir_named os s ha]
        cases List.all os (fun o => isSub s o.space) <;> cases List.all os (fun o => isSub o.space s) <;> rfl
  | dir os =>
    cases b with
    | named t =>
      simp only [InDim] at ha
      simp only [properSub] at h
      split at h
      · simp at h
      · simp only [Option.some.injEq] at h
        simp only [specLt, specLe, emb, ← ha, leL_named_dir, leL_dir_named, ← h, eqS, eq_dir_named os t hb]
        cases List.all os (fun o => isSub t o.space) <;> cases List.all os (fun o => isSub o.space t) <;> rfl
    | dir ps =>
      simp only [InDim] at ha hb
      have hl : os.length = ps.length := by omega
      simp only [properSub, hl, bne_self_eq_false, Bool.false_eq_true, ↓reduceIte, Option.some.injEq] at h
      simp only [specLt, specLe, emb, leL_dir_dir os ps hl, leL_dir_dir ps os hl.symm, ← h]
      cases hg : allGe os ps
      · rfl
      · rw [anyGt_eq os ps hl hg]

/-- `==` is inclusion in both directions (so equal spaces are the same point of the order). -/
theorem C25_eq_iff (n : Nat) (hn : 1 ≤ n) (a b : Space) (ha : InDim n a) (hb : InDim n b) :
    eqS a b = (specLe n a b && specLe n b a) := by
  cases a with
  | named s =>
    cases b with
    | named t =>
      simp only [eqS, specLe, emb, leL_replicate n hn s t ha, leL_replicate n hn t s hb]
      exact beq_eq_sub s t ha hb
    | dir os =>
      simp only [InDim] at hb
      simp only [eqS, specLe, emb, ← hb, leL_named_dir, leL_dir_named, eq_dir_named os s ha]
      cases List.all os (fun o => isSub s o.space) <;> cases List.all os (fun o => isSub o.space s) <;> rfl
  | dir os =>
    cases b with
    | named t =>
      simp only [InDim] at ha
      simp only [eqS, specLe, emb, ← ha, leL_named_dir, leL_dir_named, eq_dir_named os t hb]
    | dir ps =>
      simp only [InDim] at ha hb
      simp only [eqS, specLe, emb]
      by_cases h : os = ps
      · subst h
        have := leL_refl _ (emb_names n (.dir os) ha)
        simp only [emb] at this
        simp [this]
      · have hne : (os == ps) = false := by simp [h]
        rw [hne]
        cases h1 : leL (os.map Ord.space) (ps.map Ord.space) <;> cases h2 : leL (ps.map Ord.space) (os.map Ord.space) <;> simp
        have h3 := leL_antisymm _ _ (emb_names n (.dir os) ha) (emb_names n (.dir ps) hb) h1 h2
        have inj : ∀ x y : Ord, x.space = y.space → x = y := by
          intro x y; cases x <;> cases y <;> simp [Ord.space]
        exact h ((List.map_inj_right inj).mp h3)

/-! ## The order axioms -/

/-- irreflexive -/
theorem C25_irreflexive (n : Nat) (hn : 1 ≤ n) (a : Space) (ha : InDim n a) : lt a a ≠ some true := by
  intro h
  have := C25_lt_iff_proper_subspace n hn a a ha ha true h
  simp [specLt] at this

/-- transitive (within one spatial dimension) -/
theorem C25_transitive (n : Nat) (hn : 1 ≤ n) (a b c : Space) (ha : InDim n a) (hb : InDim n b) (hc : InDim n c)
    (hab : lt a b = some true) (hbc : lt b c = some true) (r : Bool) (hac : lt a c = some r) : r = true := by
  have h1 := C25_lt_iff_proper_subspace n hn a b ha hb true hab
  have h2 := C25_lt_iff_proper_subspace n hn b c hb hc true hbc
  have h3 := C25_lt_iff_proper_subspace n hn a c ha hc r hac
  simp only [specLt, specLe] at h1 h2 h3
  have na := emb_names n a ha; have nb := emb_names n b hb; have nc := emb_names n c hc
  obtain ⟨e1, e1'⟩ := and_not_true h1
  obtain ⟨e2, _⟩ := and_not_true h2
  have t := leL_trans _ _ _ na nb nc e1 e2
  have t' : leL (emb n c) (emb n a) = false := by
    cases h : leL (emb n c) (emb n a)
    · rfl
    · have := leL_trans _ _ _ nb nc na e2 h
      rw [this] at e1'; cases e1'
  rw [h3, t, t']; rfl

/-- asymmetric: never both a < b and b < a -/
theorem C25_asymmetric (n : Nat) (hn : 1 ≤ n) (a b : Space) (ha : InDim n a) (hb : InDim n b)
    (hab : lt a b = some true) : lt b a ≠ some true := by
  intro hba
  have h1 := C25_lt_iff_proper_subspace n hn a b ha hb true hab
  have h2 := C25_lt_iff_proper_subspace n hn b a hb ha true hba
  simp only [specLt] at h1 h2
  cases specLe n a b <;> cases specLe n b a <;> simp_all

/-- a > b is b < a;  a <= b is (a < b or a == b);  a >= b is (b < a or a == b);
    membership of an element is <= on its space. -/
theorem C25_derived_operators (a b : Space) :
    gt a b = lt b a ∧
    (le a b = some true ↔ (eqS a b = true ∨ lt a b = some true)) ∧
    (ge a b = some true ↔ (eqS a b = true ∨ lt b a = some true)) ∧
    mem a b = le a b := by
  refine ⟨rfl, ?_, ?_, rfl⟩
  · unfold le lt; cases h : eqS a b <;> simp
  · unfold ge lt; cases h : eqS a b <;> simp

/-- `<=` is inclusion: whenever defined, its answer is the componentwise order. -/
theorem C25_le_iff_subspace (n : Nat) (hn : 1 ≤ n) (a b : Space) (ha : InDim n a) (hb : InDim n b)
    (r : Bool) (h : le a b = some r) : r = specLe n a b := by
  unfold le at h
  have he := C25_eq_iff n hn a b ha hb
  split at h
  · rename_i heq
    rw [heq] at he
    cases h1 : specLe n a b <;> simp_all
  · rename_i hne
    have := C25_lt_iff_proper_subspace n hn a b ha hb r h
    rw [this]; simp only [specLt]
    cases h1 : specLe n a b <;> cases h2 : specLe n b a <;> simp_all

/-- The comparison is defined (does not raise) except between a directional space and one of
    HDivDiv / HEin / HCurlDiv. -/
theorem C25_defined (a b : Space) :
    lt a b = none ↔ ((∃ os s, a = .dir os ∧ b = .named s ∧ s ∈ unknown) ∨ (∃ os s, a = .named s ∧ b = .dir os ∧ s ∈ unknown)) := by
  unfold lt
  cases a <;> cases b <;> simp [properSub]

/-! ## Non-vacuity and the defect that was repaired -/

example : InDim 2 (.dir [.o1, .o0]) ∧ InDim 2 (.named "H1") ∧ lt (.named "H1") (.dir [.o1, .o0]) = some true :=
  ⟨rfl, by show "H1" ∈ names; decide +kernel, by decide +kernel⟩
example : lt (.dir [.o2, .o2, .o1]) (.named "H1") = some true ∧ lt (.dir [.o2, .o0]) (.named "H1") = some false := by decide

/-- the rule the unrepaired code used for two directional spaces -/
def oldDirLt (a b : List Ord) : Bool := if a.length != b.length then false else anyGt a b
/-- ... made D(1,0) and D(0,1) proper subspaces of each other (so it was not a strict order) -/
theorem C25_old_rule_counterexample : oldDirLt [.o1, .o0] [.o0, .o1] = true ∧ oldDirLt [.o0, .o1] [.o1, .o0] = true := by decide

end UflVerif.C25
