/-
C07  Geometry lowering computes the geometric quantities of the actual cell — index.

Gen/Geometry_<cell><gdim>.lean are regenerated on every run (harness/translate/geometry.py runs the real
apply_geometry_lowering on every geometric quantity).  Props/C07/Env.lean says what the symbols that remain mean
on the simplex with vertices v₀..v_d ∈ ℝ^gdim; the theorems below hold for EVERY choice of real vertices
(non-degenerate where stated):

  Interval.lean      C07_int1_*  C07_int2_*  C07_int3_*   detJ, K·J = 1, x = x₀ + J X, length, circumradius (+ centre),
                                                           facet normal (unit, outward), cell normal of a plane curve
  Triangle2.lean     C07_tri2_*   detJ, K·J = 1, X, area, circumradius (∃ centre equidistant from the vertices),
                                  min/max edge, diameter, facet Jacobian, facet area, facet normal
  Triangle3.lean     C07_tri3_*   pseudo-determinant = co·|a×b|, pseudo-inverse K·J = 1, area, cell normal
                                  (unit, ⟂ tangents, oriented), circumradius of the immersed triangle
  Tetrahedron3.lean  C07_tet3_*   detJ, K·J = 1, X, volume, circumradius (Heron-type formula on opposite-edge products:
                                  ∃ centre equidistant from the four vertices), min/max edge, diameter, facet edge
                                  lengths, facet Jacobian, facet area, facet normal
  Combined.lean      C07_combined_*   all scalar quantities lowered in one pass = sum of the single lowerings
-/
import UflVerif.Props.C07.Interval
import UflVerif.Props.C07.Triangle2
import UflVerif.Props.C07.Triangle3
import UflVerif.Props.C07.Tetrahedron3
import UflVerif.Props.C07.Combined
