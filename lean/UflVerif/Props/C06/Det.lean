import Mathlib.LinearAlgebra.Matrix.Determinant.Basic
import UflVerif.Sem.CompoundSpec
import UflVerif.Sem.Sum
import UflVerif.Gen.Compound_det
import UflVerif.Gen.Compound_pdet

/-! C06: determinant (n ≤ 4, against Mathlib's `Matrix.det`) and pseudo-determinant of m×n matrices. -/
namespace UflVerif.C06
open UflVerif Expr Gen.Compound

variable {K : Type} [Field K]

/-- the operand as a Mathlib matrix -/
def matA (ρ : Env K) (s : Side) (m n : Nat) : Matrix (Fin m) (Fin n) K := Matrix.of fun i j => ρ.term s "A" [i.val, j.val]

theorem det_fin_four (M : Matrix (Fin 4) (Fin 4) K) :
    M.det = M 0 0 * (M 1 1 * (M 2 2 * M 3 3 - M 2 3 * M 3 2) - M 1 2 * (M 2 1 * M 3 3 - M 2 3 * M 3 1) + M 1 3 * (M 2 1 * M 3 2 - M 2 2 * M 3 1))
          - M 0 1 * (M 1 0 * (M 2 2 * M 3 3 - M 2 3 * M 3 2) - M 1 2 * (M 2 0 * M 3 3 - M 2 3 * M 3 0) + M 1 3 * (M 2 0 * M 3 2 - M 2 2 * M 3 0))
          + M 0 2 * (M 1 0 * (M 2 1 * M 3 3 - M 2 3 * M 3 1) - M 1 1 * (M 2 0 * M 3 3 - M 2 3 * M 3 0) + M 1 3 * (M 2 0 * M 3 1 - M 2 1 * M 3 0))
          - M 0 3 * (M 1 0 * (M 2 1 * M 3 2 - M 2 2 * M 3 1) - M 1 1 * (M 2 0 * M 3 2 - M 2 2 * M 3 0) + M 1 2 * (M 2 0 * M 3 1 - M 2 1 * M 3 0)) := by
  rw [Matrix.det_succ_row_zero]
  simp [Fin.sum_univ_succ, Matrix.det_fin_three, Fin.succAbove, Matrix.submatrix]
  ring

set_option maxRecDepth 4000

/-- Mathlib's determinant of the n×n matrix with entries `a [i, j]` (n ≤ 4; the dimension is data, so the
    dependent type `Fin n` is chosen by cases) -/
def detSpec (a : List Nat → K) : Nat → K
  | 1 => (Matrix.of fun (i j : Fin 1) => a [i.val, j.val]).det
  | 2 => (Matrix.of fun (i j : Fin 2) => a [i.val, j.val]).det
  | 3 => (Matrix.of fun (i j : Fin 3) => a [i.val, j.val]).det
  | 4 => (Matrix.of fun (i j : Fin 4) => a [i.val, j.val]).det
  | _ => 0

theorem sum_fin_eq_S (m : Nat) (f : Nat → K) : (∑ i : Fin m, f i.val) = S m f := by
  unfold S
  rw [sumRange_eq_sum, Finset.sum_range]

/-- entries of the Gram matrix AᵀA of an m×n matrix -/
def gram (a : List Nat → K) (m : Nat) : List Nat → K
  | [i, j] => S m (fun k => a [k, i] * a [k, j])
  | _ => 0

/-- `gram` is Mathlib's `Aᵀ * A`, for every m and n -/
theorem gram_eq_transpose_mul (a : List Nat → K) (m n : Nat) (i j : Fin n) :
    ((Matrix.of fun (r : Fin m) (c : Fin n) => a [r.val, c.val]).transpose * (Matrix.of fun (r : Fin m) (c : Fin n) => a [r.val, c.val])) i j
      = gram a m [i.val, j.val] := by
  simp only [Matrix.mul_apply, Matrix.transpose_apply, Matrix.of_apply, gram]
  exact sum_fin_eq_S m (fun k => a [k, i.val] * a [k, j.val])

/-- det(AᵀA) for an m×n matrix, n ≤ 4 -/
def gramDetSpec (a : List Nat → K) (m n : Nat) : K := detSpec (gram a m) n

/-- det: the lowered expression is the determinant of the operand matrix (n = 1, 2, 3, 4) -/
theorem C06_det (ρ : Env K) (s : Side) (ι : IdxEnv) :
    ForAll detCases fun t => eval ρ s ι t.out [] = detSpec (ρ.term s "A") (t.shA.headD 0) ∧ t.shA.headD 0 ∈ [1, 2, 3, 4] := by
  simp only [detCases]; c06_cases
  all_goals (c06_eval [detSpec, Matrix.det_fin_one, Matrix.det_fin_two, Matrix.det_fin_three, det_fin_four, Matrix.of_apply]; try ring)

/-- pseudo-determinant of an m×n matrix (n < m): sqrt(det(AᵀA)) -/
theorem C06_pdet (ρ : Env K) (s : Side) (ι : IdxEnv) :
    ForAll pdetCases fun t =>
      eval ρ s ι t.out [] = ρ.fn "Sqrt" (gramDetSpec (ρ.term s "A") (t.shA.headD 0) (t.shA.getD 1 0)) ∧ t.shA.getD 1 0 ∈ [1, 2, 3] := by
  simp only [pdetCases]; c06_cases
  all_goals (c06_eval [gramDetSpec, detSpec, gram, Matrix.det_fin_one, Matrix.det_fin_two, Matrix.det_fin_three, Matrix.of_apply]; try (congr 1; ring))

end UflVerif.C06
