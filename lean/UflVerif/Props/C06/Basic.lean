import UflVerif.Sem.CompoundSpec
import UflVerif.Gen.Compound_trace
import UflVerif.Gen.Compound_sym
import UflVerif.Gen.Compound_skew
import UflVerif.Gen.Compound_dev
import UflVerif.Gen.Compound_transposed
import UflVerif.Gen.Compound_perp
import UflVerif.Gen.Compound_cross
import UflVerif.Gen.Compound_inner
import UflVerif.Gen.Compound_outer
import UflVerif.Gen.Compound_innerswap

/-! C06: trace, sym, skew, dev, transposed, perp, cross, inner, outer.
`A c` / `B c` are the values of the operands at component `c` (any valuation `ρ`, any field `K`,
conjugation an arbitrary function, so the statements cover real and complex mode alike). -/
namespace UflVerif.C06
open UflVerif Expr Gen.Compound

variable {K : Type} [Field K]

local notation "A⟦" ρ "," s "⟧" => Env.term ρ s "A"
local notation "B⟦" ρ "," s "⟧" => Env.term ρ s "B"

set_option maxRecDepth 4000

/-- tr A = Σ_k A[k,k] -/
theorem C06_trace (ρ : Env K) (s : Side) (ι : IdxEnv) :
    ForAll traceCases fun t => eval ρ s ι t.out [] = S (t.shA.headD 0) (fun k => ρ.term s "A" [k, k]) := by
  simp only [traceCases]; c06_cases
  all_goals (c06_eval []; try ring)

/-- (Aᵀ)[i,j] = A[j,i] -/
theorem C06_transposed (ρ : Env K) (s : Side) (ι : IdxEnv) :
    ForAll transposedCases fun t => ForAll (allComps (shape t.out)) fun c =>
      eval ρ s ι t.out c = ρ.term s "A" c.reverse := by
  simp only [transposedCases]; c06_cases
  all_goals (c06_eval [])

/-- sym A = (A + Aᵀ)/2 -/
theorem C06_sym (ρ : Env K) (s : Side) (ι : IdxEnv) :
    ForAll symCases fun t => ForAll (allComps (shape t.out)) fun c =>
      eval ρ s ι t.out c = (ρ.term s "A" c + ρ.term s "A" c.reverse) / 2 := by
  simp only [symCases]; c06_cases
  all_goals (c06_eval []; try ((repeat' constructor) <;> ring))

/-- skew A = (A − Aᵀ)/2 -/
theorem C06_skew (ρ : Env K) (s : Side) (ι : IdxEnv) :
    ForAll skewCases fun t => ForAll (allComps (shape t.out)) fun c =>
      eval ρ s ι t.out c = (ρ.term s "A" c - ρ.term s "A" c.reverse) / 2 := by
  simp only [skewCases]; c06_cases
  all_goals (c06_eval []; try ((repeat' constructor) <;> ring))

/-- rounding of the literal 1/n to a double in `deviatoric_expr`: 1/n − fl(1/n) (0.5 is exact; the
    double nearest to 1/3 is 1/3 − 1/(3·2^54)) -/
def devEps : Nat → ℚ
  | 3 => 1 / (3 * 2 ^ 54)
  | _ => 0

/-- dev A = A − (tr A / n) I, exactly for n = 2 and up to the rounding of the literals 1/3, 2/3 to
    double precision for n = 3: the difference is δᵢⱼ · ε · (tr A − 3 Aᵢᵢ) with ε = 2⁻⁵⁴/3. -/
theorem C06_dev (ρ : Env K) (s : Side) (ι : IdxEnv) [CharZero K] :
    ForAll devCases fun t => ForAll (allComps (shape t.out)) fun c =>
      let n := t.shA.headD 0
      let tr := S n (fun k => ρ.term s "A" [k, k])
      eval ρ s ι t.out c = ρ.term s "A" c - kron (c.getD 0 0) (c.getD 1 0) * tr / (n : K)
        + kron (c.getD 0 0) (c.getD 1 0) * ((devEps n : ℚ) : K) * (tr - n * ρ.term s "A" c) := by
  simp only [devCases]; c06_cases
  all_goals (c06_eval [devEps]; try ((repeat' constructor) <;> (first | ring | (field_simp; ring))))

/-- perp a = (−a₁, a₀) -/
theorem C06_perp (ρ : Env K) (s : Side) (ι : IdxEnv) :
    ForAll perpCases fun t =>
      eval ρ s ι t.out [0] = - ρ.term s "A" [1] ∧ eval ρ s ι t.out [1] = ρ.term s "A" [0] := by
  simp only [perpCases]; c06_cases
  all_goals (c06_eval []; try ring)

/-- (a × b)ᵢ = a_{i+1} b_{i+2} − a_{i+2} b_{i+1}  (indices mod 3) -/
theorem C06_cross (ρ : Env K) (s : Side) (ι : IdxEnv) :
    ForAll crossCases fun t => ForAll [0, 1, 2] fun i =>
      eval ρ s ι t.out [i] = ρ.term s "A" [(i + 1) % 3] * ρ.term s "B" [(i + 2) % 3] - ρ.term s "A" [(i + 2) % 3] * ρ.term s "B" [(i + 1) % 3] := by
  simp only [crossCases]; c06_cases
  all_goals (c06_eval []; try ((repeat' constructor) <;> ring))

/-- inner(a, b) = Σ_c a_c · conj(b_c): the second operand is conjugated -/
theorem C06_inner (ρ : Env K) (s : Side) (ι : IdxEnv) :
    ForAll innerCases fun t =>
      eval ρ s ι t.out [] = ((allComps t.shA).map fun c => ρ.term s "A" c * ρ.conj (ρ.term s "B" c)).sum := by
  simp only [innerCases]; c06_cases
  all_goals (c06_eval []; try ring)

/-- conjugation is an involutive ring homomorphism (true of the real and the complex interpretation) -/
structure ConjOK (ρ : Env K) : Prop where
  add : ∀ x y, ρ.conj (x + y) = ρ.conj x + ρ.conj y
  mul : ∀ x y, ρ.conj (x * y) = ρ.conj x * ρ.conj y
  invol : ∀ x, ρ.conj (ρ.conj x) = x
  zero : ρ.conj 0 = 0

/-- inner(b, a) when the constructor swaps the operands into canonical order and conjugates:
    conj(Σ a_c conj(b_c)) = Σ b_c conj(a_c) -/
theorem C06_inner_swapped (ρ : Env K) (s : Side) (ι : IdxEnv) (hc : ConjOK ρ) :
    ForAll innerswapCases fun t =>
      eval ρ s ι t.out [] = ((allComps t.shA).map fun c => ρ.term s "B" c * ρ.conj (ρ.term s "A" c)).sum := by
  simp only [innerswapCases]; c06_cases
  all_goals (c06_eval [hc.add, hc.mul, hc.invol, hc.zero]; try ring)

/-- outer(a, b)[c ++ d] = conj(a_c) · b_d: the first operand is conjugated -/
theorem C06_outer (ρ : Env K) (s : Side) (ι : IdxEnv) :
    ForAll outerCases fun t => ForAll (allComps (shape t.out)) fun c =>
      eval ρ s ι t.out c = ρ.conj (ρ.term s "A" (c.take t.shA.length)) * ρ.term s "B" (c.drop t.shA.length) := by
  simp only [outerCases]; c06_cases
  all_goals (c06_eval []; try ((repeat' constructor) <;> ring))

end UflVerif.C06
