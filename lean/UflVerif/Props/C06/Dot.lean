import UflVerif.Sem.CompoundSpec
import UflVerif.Gen.Compound_dot

namespace UflVerif.C06
open UflVerif Expr Gen.Compound

variable {K : Type} [Field K]

/-- `dot(a, b)`: contraction of the last axis of `a` with the first axis of `b` -/
def dotSpec (ρ : Env K) (s : Side) (shA : List Nat) (c : List Nat) : K :=
  let r := shA.length - 1
  S (shA.getLastD 0) (fun k => ρ.term s "A" (c.take r ++ [k]) * ρ.term s "B" (k :: c.drop r))

set_option maxRecDepth 4000 in
theorem C06_dot (ρ : Env K) (s : Side) (ι : IdxEnv) :
    ForAll dotCases fun t => ForAll (allComps (shape t.out)) fun c => eval ρ s ι t.out c = dotSpec ρ s t.shA c := by
  simp only [dotCases, ForAll]
  repeat' constructor
  all_goals (
    simp [ForAll, allComps, dotSpec, S, eval, fi, shape, sumRange, FI.dimOf, FI.insert, FI.merge, FI.remove, idxPairs, freeCounts, List.range, List.range.loop, IdxEnv.bind, IdxEnv.set, Idx.resolve, List.zipIdx]
    try (repeat' constructor) <;> ring)
