import UflVerif.Props.C06.Det
import UflVerif.Gen.Compound_cofac

/-! C06: cofactor matrix (n = 2, 3, 4). -/
namespace UflVerif.C06
open UflVerif Expr Gen.Compound

variable {K : Type} [Field K]

set_option maxRecDepth 8000
set_option maxHeartbeats 1600000

/-- **cofactor**: A · cofac(A)ᵀ = det(A) · 1, i.e. cofac(A) is the transposed adjugate -/
theorem C06_cofac (ρ : Env K) (s : Side) (ι : IdxEnv) :
    ForAll cofacCases fun t =>
      ForAll (allComps t.shA) fun c =>
        S (t.shA.headD 0) (fun k => ρ.term s "A" [c.getD 0 0, k] * eval ρ s ι t.out [c.getD 1 0, k])
          = kron (c.getD 0 0) (c.getD 1 0) * detSpec (ρ.term s "A") (t.shA.headD 0) := by
  simp only [cofacCases]; c06_cases
  all_goals (
    c06_eval [detSpec, Matrix.det_fin_one, Matrix.det_fin_two, Matrix.det_fin_three, det_fin_four, Matrix.of_apply]
    (try (repeat' constructor)) <;> ring1)

end UflVerif.C06
