import UflVerif.Model.WF
import UflVerif.Gen.Compound_trace
import UflVerif.Gen.Compound_sym
import UflVerif.Gen.Compound_skew
import UflVerif.Gen.Compound_dev
import UflVerif.Gen.Compound_transposed
import UflVerif.Gen.Compound_perp
import UflVerif.Gen.Compound_cross
import UflVerif.Gen.Compound_inner
import UflVerif.Gen.Compound_outer
import UflVerif.Gen.Compound_innerswap
import UflVerif.Gen.Compound_dot
import UflVerif.Gen.Compound_det
import UflVerif.Gen.Compound_pdet
import UflVerif.Gen.Compound_inv
import UflVerif.Gen.Compound_pinv
import UflVerif.Gen.Compound_cofac
import UflVerif.Gen.Compound_div
import UflVerif.Gen.Compound_nabladiv
import UflVerif.Gen.Compound_nablagrad
import UflVerif.Gen.Compound_curl

/-! C06: every lowered tree of the regenerated family has the shape of the compound operator it
replaces, no free indices, and is well-formed (kernel `decide` over the regenerated data). -/
namespace UflVerif.C06
open UflVerif Expr Gen.Compound

/-- expected result shape per operator family -/
def expectedShape (group : String) (t : Case) : List Nat :=
  match group with
  | "trace" | "inner" | "innerswap" | "det" | "pdet" => []
  | "sym" | "skew" | "dev" | "inv" | "cofac" => t.shA
  | "transposed" | "pinv" => t.shA.reverse
  | "perp" => [2]
  | "cross" => [3]
  | "dot" => t.shA.dropLast ++ t.shB.tail
  | "outer" => t.shA ++ t.shB
  | "div" => t.shA.dropLast
  | "nabla_div" => t.shA.tail
  | "nabla_grad" => t.gdim :: t.shA
  | "curl" => (match t.shA with | [] => [2] | [2] => [] | _ => [3])
  | _ => []

def shapeOK (group : String) (cases : List Case) : Bool :=
  cases.all fun t => shape t.out == expectedShape group t && fi t.out == [] && WF t.out

/-- number of instances per family the theorems speak about (a family that lost instances because
    the code started to refuse a shape fails here) -/
def familySizes : List (String × Nat) :=
  [("trace", traceCases.length), ("sym", symCases.length), ("skew", skewCases.length), ("dev", devCases.length),
   ("transposed", transposedCases.length), ("perp", perpCases.length), ("cross", crossCases.length),
   ("dot", dotCases.length), ("inner", innerCases.length), ("innerswap", innerswapCases.length), ("outer", outerCases.length), ("det", detCases.length),
   ("pdet", pdetCases.length), ("inv", invCases.length), ("pinv", pinvCases.length), ("cofac", cofacCases.length),
   ("div", divCases.length), ("nabla_div", nabladivCases.length), ("nabla_grad", nablagradCases.length), ("curl", curlCases.length)]

set_option maxRecDepth 100000 in
theorem C06_shapes_and_free_indices :
    shapeOK "trace" traceCases ∧ shapeOK "sym" symCases ∧ shapeOK "skew" skewCases ∧ shapeOK "dev" devCases ∧
    shapeOK "transposed" transposedCases ∧ shapeOK "perp" perpCases ∧ shapeOK "cross" crossCases ∧
    shapeOK "dot" dotCases ∧ shapeOK "inner" innerCases ∧ shapeOK "innerswap" innerswapCases ∧ shapeOK "outer" outerCases ∧ shapeOK "det" detCases ∧
    shapeOK "pdet" pdetCases ∧ shapeOK "inv" invCases ∧ shapeOK "pinv" pinvCases ∧ shapeOK "cofac" cofacCases ∧
    shapeOK "div" divCases ∧ shapeOK "nabla_div" nabladivCases ∧ shapeOK "nabla_grad" nablagradCases ∧ shapeOK "curl" curlCases := by
  decide +kernel

theorem C06_family_complete :
    familySizes = [("trace", 4), ("sym", 4), ("skew", 4), ("dev", 2), ("transposed", 9), ("perp", 1), ("cross", 1),
      ("dot", 23), ("inner", 10), ("innerswap", 4), ("outer", 7), ("det", 4), ("pdet", 4), ("inv", 4), ("pinv", 3), ("cofac", 3),
      ("div", 6), ("nabla_div", 4), ("nabla_grad", 4), ("curl", 3)] := by
  decide +kernel

end UflVerif.C06
