import UflVerif.Props.C06.Det
import UflVerif.Gen.Compound_inv
import UflVerif.Gen.Compound_pinv

/-! C06: inverse (n ≤ 4) and pseudo-inverse. -/
namespace UflVerif.C06
open UflVerif Expr Gen.Compound

variable {K : Type} [Field K]

set_option maxRecDepth 8000
set_option maxHeartbeats 1600000

/-- inverse, stated against the lowered determinant of the same matrix: whenever that determinant is
    non-zero, A · inv(A) = 1 (entry by entry) -/
theorem inv_aux (ρ : Env K) (s : Side) (ι : IdxEnv) :
    ForAll (invCases.zip detCases) fun p =>
      p.1.shA = p.2.shA ∧ (eval ρ s ι p.2.out [] ≠ 0 →
        ForAll (allComps p.1.shA) fun c =>
          S (p.1.shA.headD 0) (fun k => ρ.term s "A" [c.getD 0 0, k] * eval ρ s ι p.1.out [k, c.getD 1 0]) = kron (c.getD 0 0) (c.getD 1 0)) := by
  simp only [invCases, detCases, List.zip_cons_cons, List.zip_nil_right]; c06_cases
  all_goals (first | rfl | (
    c06_eval []
    intro h
    obtain ⟨d, hd, hne⟩ : ∃ d, d = _ ∧ d ≠ 0 := ⟨_, rfl, h⟩
    (try (repeat' constructor)) <;>
      (try rw [← hd]) <;>
      (first | (field_simp; done) | (field_simp; ring1) | (field_simp; rw [hd]; done) | (field_simp; rw [hd]; ring1))))

/-- **inverse** (n = 1..4): whenever det A ≠ 0 (Mathlib's determinant), A · inv(A) = 1 entry by entry -/
theorem C06_inv (ρ : Env K) (s : Side) (ι : IdxEnv) :
    ForAll (invCases.zip detCases) fun p =>
      detSpec (ρ.term s "A") (p.1.shA.headD 0) ≠ 0 →
        ForAll (allComps p.1.shA) fun c =>
          S (p.1.shA.headD 0) (fun k => ρ.term s "A" [c.getD 0 0, k] * eval ρ s ι p.1.out [k, c.getD 1 0]) = kron (c.getD 0 0) (c.getD 1 0) := by
  have h1 := inv_aux ρ s ι
  have h2 := forAll_zip_right invCases detCases (C06_det ρ s ι)
  refine forAll_mp _ h2 (forAll_mp _ h1 ?_)
  rw [forAll_iff]
  intro p _ ⟨hsh, himp⟩ ⟨hdet, _⟩ hne
  apply himp
  rw [hdet, ← hsh]
  exact hne

/-- **pseudo-inverse** of an m×n matrix (n < m): whenever det(AᵀA) ≠ 0, pinv(A) · A = 1 (n×n) -/
theorem C06_pinv (ρ : Env K) (s : Side) (ι : IdxEnv) :
    ForAll pinvCases fun t =>
      let m := t.shA.headD 0
      let n := t.shA.getD 1 0
      gramDetSpec (ρ.term s "A") m n ≠ 0 →
        ForAll (allComps [n, n]) fun c =>
          S m (fun k => eval ρ s ι t.out [c.getD 0 0, k] * ρ.term s "A" [k, c.getD 1 0]) = kron (c.getD 0 0) (c.getD 1 0) := by
  simp only [pinvCases]; c06_cases
  all_goals (
    c06_eval [gramDetSpec, detSpec, gram, Matrix.det_fin_one, Matrix.det_fin_two, Matrix.det_fin_three, Matrix.of_apply]
    intro h
    gen_denom hd d
    have hne : d ≠ 0 := by rw [← hd]; intro h0; apply h; linear_combination h0
    (try (repeat' constructor)) <;>
      (first | (field_simp; done) | (field_simp; ring1) | (field_simp; rw [← hd]; done) | (field_simp; rw [← hd]; ring1)))

end UflVerif.C06
