import UflVerif.Sem.CompoundSpec
import UflVerif.Gen.Compound_div
import UflVerif.Gen.Compound_nabladiv
import UflVerif.Gen.Compound_nablagrad
import UflVerif.Gen.Compound_curl

/-! C06: compound differential operators are lowered to index expressions over `grad`:
`∂A c i` below is the derivative of component `c` of the operand in direction `i`
(`ρ.jet s "A" c [i]`, the value of `grad(A)[c ++ [i]]`). -/
namespace UflVerif.C06
open UflVerif Expr Gen.Compound

variable {K : Type} [Field K]

set_option maxRecDepth 4000

/-- div a = Σᵢ ∂aᵢ/∂xᵢ over the last axis -/
theorem C06_div (ρ : Env K) (s : Side) (ι : IdxEnv) :
    ForAll divCases fun t => ForAll (allComps (shape t.out)) fun c =>
      eval ρ s ι t.out c = S t.gdim (fun i => ρ.jet s "A" (c ++ [i]) [i]) := by
  simp only [divCases]; c06_cases
  all_goals (c06_eval []; try ((repeat' constructor) <;> ring1))

/-- nabla_div a = Σᵢ ∂aᵢ/∂xᵢ over the first axis -/
theorem C06_nabla_div (ρ : Env K) (s : Side) (ι : IdxEnv) :
    ForAll nabladivCases fun t => ForAll (allComps (shape t.out)) fun c =>
      eval ρ s ι t.out c = S t.gdim (fun i => ρ.jet s "A" (i :: c) [i]) := by
  simp only [nabladivCases]; c06_cases
  all_goals (c06_eval []; try ((repeat' constructor) <;> ring1))

/-- nabla_grad(a)[j, c] = ∂a_c/∂x_j : the derivative axis comes first -/
theorem C06_nabla_grad (ρ : Env K) (s : Side) (ι : IdxEnv) :
    ForAll nablagradCases fun t => ForAll (allComps (shape t.out)) fun c =>
      eval ρ s ι t.out c = ρ.jet s "A" c.tail [c.headD 0] := by
  simp only [nablagradCases]; c06_cases
  all_goals (c06_eval [])

/-- curl: scalar in 2D ↦ (∂a/∂y, −∂a/∂x); vector in 2D ↦ ∂a₁/∂x − ∂a₀/∂y; vector in 3D ↦ ∇ × a -/
theorem C06_curl (ρ : Env K) (s : Side) (ι : IdxEnv) :
    ForAll curlCases fun t =>
      (t.shA = [] → eval ρ s ι t.out [0] = ρ.jet s "A" [] [1] ∧ eval ρ s ι t.out [1] = - ρ.jet s "A" [] [0]) ∧
      (t.shA = [2] → eval ρ s ι t.out [] = ρ.jet s "A" [1] [0] - ρ.jet s "A" [0] [1]) ∧
      (t.shA = [3] → ForAll [0, 1, 2] fun i =>
        eval ρ s ι t.out [i] = ρ.jet s "A" [(i + 2) % 3] [(i + 1) % 3] - ρ.jet s "A" [(i + 1) % 3] [(i + 2) % 3]) ∧
      t.shA ∈ [[], [2], [3]] := by
  simp only [curlCases]; c06_cases
  all_goals (c06_eval []; try ((repeat' constructor) <;> ring1))

end UflVerif.C06
