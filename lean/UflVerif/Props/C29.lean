/-
C29  Commutative constructors are order independent: the canonical operand ordering `cmp_expr`
is a consistent total preorder.

Model: Model/Order.lean (`Expr.cmp`), tied to ufl/sorting.py by the regenerated typecode table, the regenerated choice
of terminal comparators (`OrdCfg.live`, Gen/OrderVariant.lean) and by running model and implementation on the same
ordered pairs.  Every theorem is proved for an arbitrary choice `cfg : OrdCfg` of the key-comparing comparators
(`*_cfg`: in particular for `OrdCfg.byRepr` and `OrdCfg.numeric`); the `C29_*` theorems about `Expr.cmp` are the
instances at `OrdCfg.live`.  Method: every triple of expressions
is ordered *consistently* (the three pairwise comparisons are those of some ranking of the three);
this is closed under the lexicographic composition `cmp_expr` is made of.
-/
import Std
import UflVerif.Model.Order

namespace UflVerif.C29
open UflVerif Expr Std

/-! ## consistent triples of comparison results -/

/-- the 13 outcomes (cmp a b, cmp b c, cmp a c) that some weak ranking of a, b, c produces -/
def consistent3 : Ordering → Ordering → Ordering → Bool
  | .eq, .eq, .eq | .eq, .lt, .lt | .eq, .gt, .gt | .lt, .eq, .lt | .gt, .eq, .gt
  | .lt, .gt, .eq | .gt, .lt, .eq
  | .lt, .lt, .lt | .lt, .gt, .lt | .gt, .lt, .lt | .gt, .lt, .gt | .lt, .gt, .gt | .gt, .gt, .gt => true
  | _, _, _ => false

def thn (x y : Ordering) : Ordering := match x with | .eq => y | r => r

/-- lexicographic composition preserves consistency; the second level only matters where the
    first level ties -/
theorem consistent3_thn (x x' x'' y y' y'' : Ordering) (h1 : consistent3 x x' x'' = true)
    (h2 : x = .eq → x' = .eq → consistent3 y y' y'' = true) :
    consistent3 (thn x y) (thn x' y') (thn x'' y'') = true := by
  cases x <;> cases x' <;> cases x'' <;> simp [consistent3] at h1 <;>
    cases y <;> cases y' <;> cases y'' <;> simp_all [consistent3, thn]

theorem consistent3_le_trans (x y z : Ordering) (h : consistent3 x y z = true) (h1 : x ≠ .gt) (h2 : y ≠ .gt) : z ≠ .gt := by
  cases x <;> cases y <;> cases z <;> simp_all [consistent3]

theorem consistent3_lt_any_lt (x : Ordering) : consistent3 .lt x .lt = true := by cases x <;> rfl
theorem consistent3_gt_any_gt (x : Ordering) : consistent3 .gt x .gt = true := by cases x <;> rfl

/-- any lawful transitive comparator orders every triple consistently -/
theorem consistent3_of_transCmp {α : Type} (c : α → α → Ordering) [TransCmp c] (x y z : α) :
    consistent3 (c x y) (c y z) (c x z) = true := by
  have sxy : c y x = (c x y).swap := OrientedCmp.eq_swap
  have syz : c z y = (c y z).swap := OrientedCmp.eq_swap
  have sxz : c z x = (c x z).swap := OrientedCmp.eq_swap
  have t1 := @TransCmp.isLE_trans α c _ x y z
  have t2 := @TransCmp.isLE_trans α c _ y x z
  have t3 := @TransCmp.isLE_trans α c _ x z y
  have t4 := @TransCmp.isLE_trans α c _ z x y
  have t5 := @TransCmp.isLE_trans α c _ y z x
  have t6 := @TransCmp.isLE_trans α c _ z y x
  rw [sxy, syz, sxz] at *
  cases h1 : c x y <;> cases h2 : c y z <;> cases h3 : c x z <;>
    simp_all [consistent3, Ordering.isLE, Ordering.swap]


/-! ## the shape of `cmp_expr` -/

def inner (cfg : OrdCfg) (mi : List Idx → List Idx → Ordering) (a b : Expr) : Ordering :=
  match a, b with
  | .op _ _ as, .op _ _ bs => thn (compare as.length bs.length) (cmpLWith cfg mi as bs)
  | _, _ => cmpTerm cfg mi a b

theorem cmp_unfold (cfg : OrdCfg) (mi : List Idx → List Idx → Ordering) (a b : Expr) :
    cmpWith cfg mi a b = thn (compare (typecode a) (typecode b)) (inner cfg mi a b) := by
  unfold cmpWith inner thn
  cases h : compare (typecode a) (typecode b) <;> simp only
  cases a <;> cases b <;> simp only
  rename_i k aux as k' aux' bs
  cases compare as.length bs.length <;> rfl

theorem cmpL_cons (cfg : OrdCfg) (mi : List Idx → List Idx → Ordering) (a b : Expr) (as bs : List Expr) :
    cmpLWith cfg mi (a :: as) (b :: bs) = thn (cmpLWith cfg mi as bs) (cmpWith cfg mi a b) := by
  rw [cmpLWith]
  unfold thn
  cases cmpLWith cfg mi as bs <;> rfl

/-! ## multi-indices -/

theorem cmpIdx_consistent (i j k : Idx) : consistent3 (cmpIdx i j) (cmpIdx j k) (cmpIdx i k) = true := by
  cases i <;> cases j <;> cases k <;> simp only [cmpIdx] <;>
    first
    | exact consistent3_of_transCmp (compare : Nat → Nat → Ordering) _ _ _
    | rfl
    | (generalize compare (_ : Nat) _ = x; cases x <;> rfl)

theorem cmpMI_cons (i j : Idx) (is js : List Idx) : cmpMI (i :: is) (j :: js) = thn (cmpIdx i j) (cmpMI is js) := by
  rw [cmpMI]
  unfold thn
  cases cmpIdx i j <;> rfl

theorem cmpMI_consistent : ∀ (a b c : List Idx), consistent3 (cmpMI a b) (cmpMI b c) (cmpMI a c) = true
  | [], [], [] => rfl
  | [], [], _ :: _ => rfl
  | [], _ :: _, [] => rfl
  | [], j :: js, k :: ks => by
    rw [show cmpMI [] (j :: js) = .lt from rfl, show cmpMI [] (k :: ks) = .lt from rfl]; exact consistent3_lt_any_lt _
  | _ :: _, [], [] => rfl
  | i :: is, [], k :: ks => by
    rw [show cmpMI (i :: is) [] = .gt from rfl, show cmpMI [] (k :: ks) = .lt from rfl]
    generalize cmpMI (i :: is) (k :: ks) = x; cases x <;> rfl
  | i :: is, j :: js, [] => by
    rw [show cmpMI (j :: js) [] = .gt from rfl, show cmpMI (i :: is) [] = .gt from rfl]
    generalize cmpMI (i :: is) (j :: js) = x; cases x <;> rfl
  | i :: is, j :: js, k :: ks => by
    rw [cmpMI_cons, cmpMI_cons, cmpMI_cons]
    exact consistent3_thn _ _ _ _ _ _ (cmpIdx_consistent i j k) (fun _ _ => cmpMI_consistent is js ks)

theorem cmpIdx_refl (i : Idx) : cmpIdx i i = .eq := by
  cases i <;> simp [cmpIdx]

theorem cmpMI_refl : ∀ a : List Idx, cmpMI a a = .eq
  | [] => rfl
  | i :: is => by rw [cmpMI_cons, cmpIdx_refl]; exact cmpMI_refl is

/-! ## sort keys (the key-comparing terminal comparators) -/

theorem cmpAtom_consistent (x y z : KeyAtom) : consistent3 (cmpAtom x y) (cmpAtom y z) (cmpAtom x z) = true := by
  cases x <;> cases y <;> cases z <;> simp only [cmpAtom] <;>
    first
    | exact consistent3_of_transCmp (compare : Int → Int → Ordering) _ _ _
    | exact consistent3_of_transCmp (compare : String → String → Ordering) _ _ _
    | rfl
    | (generalize compare (_ : Int) _ = x; cases x <;> rfl)
    | (generalize compare (_ : String) _ = x; cases x <;> rfl)

theorem lexCmp_cons {α : Type} (c : α → α → Ordering) (x y : α) (xs ys : List α) :
    lexCmp c (x :: xs) (y :: ys) = thn (c x y) (lexCmp c xs ys) := by
  rw [lexCmp]
  unfold thn
  cases c x y <;> rfl

/-- Python's tuple comparison orders every triple consistently if the comparison of the entries does -/
theorem lexCmp_consistent {α : Type} (c : α → α → Ordering) (hc : ∀ x y z, consistent3 (c x y) (c y z) (c x z) = true) :
    ∀ (a b d : List α), consistent3 (lexCmp c a b) (lexCmp c b d) (lexCmp c a d) = true
  | [], [], [] => rfl
  | [], [], _ :: _ => rfl
  | [], _ :: _, [] => rfl
  | [], j :: js, k :: ks => by
    rw [show lexCmp c [] (j :: js) = .lt from rfl, show lexCmp c [] (k :: ks) = .lt from rfl]; exact consistent3_lt_any_lt _
  | _ :: _, [], [] => rfl
  | i :: is, [], k :: ks => by
    rw [show lexCmp c (i :: is) [] = .gt from rfl, show lexCmp c [] (k :: ks) = .lt from rfl]
    generalize lexCmp c (i :: is) (k :: ks) = x; cases x <;> rfl
  | i :: is, j :: js, [] => by
    rw [show lexCmp c (j :: js) [] = .gt from rfl, show lexCmp c (i :: is) [] = .gt from rfl]
    generalize lexCmp c (i :: is) (j :: js) = x; cases x <;> rfl
  | i :: is, j :: js, k :: ks => by
    rw [lexCmp_cons, lexCmp_cons, lexCmp_cons]
    exact consistent3_thn _ _ _ _ _ _ (hc i j k) (fun _ _ => lexCmp_consistent c hc is js ks)

theorem lexCmp_refl {α : Type} (c : α → α → Ordering) (hc : ∀ x, c x x = .eq) : ∀ a : List α, lexCmp c a a = .eq
  | [] => rfl
  | i :: is => by rw [lexCmp_cons, hc i]; exact lexCmp_refl c hc is

theorem cmpAtoms_consistent (a b d : List KeyAtom) : consistent3 (cmpAtoms a b) (cmpAtoms b d) (cmpAtoms a d) = true :=
  lexCmp_consistent cmpAtom cmpAtom_consistent a b d

theorem cmpKey_cons (p : KeyPart) (ps : List KeyPart) (a b : Expr) :
    cmpKey (p :: ps) a b = thn (cmpAtoms (keyOf p a) (keyOf p b)) (cmpKey ps a b) := by
  rw [cmpKey]
  unfold thn
  cases cmpAtoms (keyOf p a) (keyOf p b) <;> rfl

/-- a three-way comparison of sort keys orders every triple consistently, whatever the key is made of -/
theorem cmpKey_consistent : ∀ (ps : List KeyPart) (a b d : Expr), consistent3 (cmpKey ps a b) (cmpKey ps b d) (cmpKey ps a d) = true
  | [], _, _, _ => rfl
  | p :: ps, a, b, d => by
    rw [cmpKey_cons, cmpKey_cons, cmpKey_cons]
    exact consistent3_thn _ _ _ _ _ _ (cmpAtoms_consistent _ _ _) (fun _ _ => cmpKey_consistent ps a b d)

/-! ## well-formed class names -/

def specialNames : List String := ["IntValue", "FloatValue", "ComplexValue", "Zero", "MultiIndex"] ++ Op.table.map (·.1)

/- class names are what the serializer produces: a generic terminal never carries the class name
   of a literal, multi-index or operator; operators are known ones; every name is in the
   regenerated typecode table -/
mutual
def Sane : Expr → Bool
  | .term d => !specialNames.contains d.cls && (Gen.Typecodes.table.any (·.1 == d.cls))
  | .op (.other _) _ _ => false
  | .op k _ args => Gen.Typecodes.table.any (·.1 == k.name) && SaneL args
  | _ => true
def SaneL : List Expr → Bool
  | [] => true
  | a :: as => Sane a && SaneL as
end

/-- the regenerated typecode table assigns different typecodes to different classes -/
theorem C29_typecodes_injective :
    (Gen.Typecodes.table.map (·.2)).Nodup ∧ (Gen.Typecodes.table.map (·.1)).Nodup := by decide +kernel


def names : List String := Gen.Typecodes.table.map (·.1)

theorem nodup_map_inj {α β : Type} (f : α → β) : ∀ (l : List α), (l.map f).Nodup → ∀ a b, a ∈ l → b ∈ l → f a = f b → a = b
  | [], _, a, _, ha, _, _ => by cases ha
  | x :: xs, hnd, a, b, ha, hb, he => by
    simp only [List.map_cons, List.nodup_cons, List.mem_map, not_exists, not_and] at hnd
    cases List.mem_cons.mp ha with
    | inl h1 =>
      cases List.mem_cons.mp hb with
      | inl h2 => rw [h1, h2]
      | inr h2 => exact absurd (by rw [← he, h1]) (hnd.1 b h2)
    | inr h1 =>
      cases List.mem_cons.mp hb with
      | inl h2 => exact absurd (by rw [he, h2]) (hnd.1 a h1)
      | inr h2 => exact nodup_map_inj f xs hnd.2 a b h1 h2 he

theorem find_inj (l : List (String × Nat)) (hnd : (l.map (·.2)).Nodup) (n₁ n₂ : String) (p₁ p₂ : String × Nat)
    (h1 : l.find? (fun p => p.1 == n₁) = some p₁) (h2 : l.find? (fun p => p.1 == n₂) = some p₂)
    (he : p₁.2 = p₂.2) : n₁ = n₂ := by
  have m1 := List.mem_of_find?_eq_some h1
  have m2 := List.mem_of_find?_eq_some h2
  have e1 : p₁.1 = n₁ := by simpa using List.find?_some h1
  have e2 : p₂.1 = n₂ := by simpa using List.find?_some h2
  have : p₁ = p₂ := nodup_map_inj (·.2) l hnd p₁ p₂ m1 m2 he
  rw [← e1, ← e2, this]

theorem tc_inj (n₁ n₂ : String) (h1 : n₁ ∈ names) (h2 : n₂ ∈ names) (he : tcOfName n₁ = tcOfName n₂) : n₁ = n₂ := by
  unfold tcOfName at he
  have f1 : ∃ p, Gen.Typecodes.table.find? (fun p => p.1 == n₁) = some p := by
    cases hf : Gen.Typecodes.table.find? (fun p => p.1 == n₁) with
    | some p => exact ⟨p, rfl⟩
    | none =>
      rw [List.find?_eq_none] at hf
      simp only [names, List.mem_map] at h1
      obtain ⟨q, hq, rfl⟩ := h1
      exact absurd (hf q hq) (by simp)
  have f2 : ∃ p, Gen.Typecodes.table.find? (fun p => p.1 == n₂) = some p := by
    cases hf : Gen.Typecodes.table.find? (fun p => p.1 == n₂) with
    | some p => exact ⟨p, rfl⟩
    | none =>
      rw [List.find?_eq_none] at hf
      simp only [names, List.mem_map] at h2
      obtain ⟨q, hq, rfl⟩ := h2
      exact absurd (hf q hq) (by simp)
  obtain ⟨p₁, hp1⟩ := f1
  obtain ⟨p₂, hp2⟩ := f2
  rw [hp1, hp2] at he
  exact find_inj _ C29_typecodes_injective.1 n₁ n₂ p₁ p₂ hp1 hp2 he

theorem literal_names : "IntValue" ∈ names ∧ "FloatValue" ∈ names ∧ "ComplexValue" ∈ names ∧ "Zero" ∈ names ∧ "MultiIndex" ∈ names := by
  decide +kernel

theorem any_mem (n : String) (h : Gen.Typecodes.table.any (fun p => p.1 == n) = true) : n ∈ names := by
  simp only [List.any_eq_true, beq_iff_eq] at h
  obtain ⟨p, hp, rfl⟩ := h
  exact List.mem_map.mpr ⟨p, hp, rfl⟩

theorem sane_name (e : Expr) (h : Sane e = true) : className e ∈ names := by
  cases e with
  | int _ => exact literal_names.1
  | real _ _ => exact literal_names.2.1
  | cplx _ _ _ _ => exact literal_names.2.2.1
  | zero _ _ => exact literal_names.2.2.2.1
  | mi _ => exact literal_names.2.2.2.2
  | term d => simp only [Sane, Bool.and_eq_true] at h; exact any_mem _ h.2
  | op k aux args =>
    cases k <;> simp only [Sane, Bool.and_eq_true, Bool.false_eq_true] at h
    all_goals exact any_mem _ h.1

def kind : Expr → Nat
  | .int _ => 0 | .real _ _ => 1 | .cplx _ _ _ _ => 2 | .zero _ _ => 3 | .mi _ => 4 | .term _ => 5 | .op _ _ _ => 6

theorem op_name_table (k : Op) (aux : List Nat) (args : List Expr) (h : Sane (.op k aux args) = true) :
    (Op.table.map (·.1)).contains k.name = true := by
  cases k <;> first | (simp [Sane] at h; done) | decide +kernel

theorem literal_not_op : ∀ n ∈ ["IntValue", "FloatValue", "ComplexValue", "Zero", "MultiIndex"],
    (Op.table.map (·.1)).contains n = false := by decide +kernel

theorem op_name_special (k : Op) (aux : List Nat) (args : List Expr) (h : Sane (.op k aux args) = true) :
    specialNames.contains k.name = true := by
  cases k <;> first | (simp [Sane] at h; done) | decide +kernel

theorem op_vs_nonop (k : Op) (aux : List Nat) (args : List Expr) (b : Expr) (ha : Sane (.op k aux args) = true)
    (hb : Sane b = true) (hk : kind b ≠ 6) : k.name ≠ className b := by
  intro h
  have ht := op_name_table _ _ _ ha
  rw [h] at ht
  cases b with
  | op _ _ _ => exact hk rfl
  | term d =>
    simp only [Sane, Bool.and_eq_true, Bool.not_eq_true'] at hb
    have hs : specialNames.contains d.cls = true := by
      simp only [className] at ht
      simp only [specialNames, List.contains_iff_mem, List.mem_append] at ht ⊢
      exact Or.inr ht
    rw [hs] at hb; cases hb.1
  | int _ => rw [show className (.int _) = "IntValue" from rfl, literal_not_op _ (by simp)] at ht; cases ht
  | real _ _ => rw [show className (.real _ _) = "FloatValue" from rfl, literal_not_op _ (by simp)] at ht; cases ht
  | cplx _ _ _ _ => rw [show className (.cplx _ _ _ _) = "ComplexValue" from rfl, literal_not_op _ (by simp)] at ht; cases ht
  | zero _ _ => rw [show className (.zero _ _) = "Zero" from rfl, literal_not_op _ (by simp)] at ht; cases ht
  | mi _ => rw [show className (.mi _) = "MultiIndex" from rfl, literal_not_op _ (by simp)] at ht; cases ht

theorem literal_special : ∀ n ∈ ["IntValue", "FloatValue", "ComplexValue", "Zero", "MultiIndex"],
    specialNames.contains n = true := by decide +kernel

theorem term_not_literal (d : TermData) (ha : Sane (.term d) = true) (n : String)
    (hn : n ∈ ["IntValue", "FloatValue", "ComplexValue", "Zero", "MultiIndex"]) : d.cls ≠ n := by
  intro h
  simp only [Sane, Bool.and_eq_true, Bool.not_eq_true'] at ha
  rw [h, literal_special n hn] at ha
  cases ha.1

theorem sane_kind (a b : Expr) (ha : Sane a = true) (hb : Sane b = true) (h : className a = className b) : kind a = kind b := by
  cases a <;> cases b <;> simp only [kind]
  all_goals first
    | rfl
    | (exfalso; simp only [className] at h; exact absurd h (by decide))
    | (exfalso; exact op_vs_nonop _ _ _ _ ha hb (by simp [kind]) h)
    | (exfalso; exact op_vs_nonop _ _ _ _ hb ha (by simp [kind]) h.symm)
    | (exfalso; simp only [className] at h; exact term_not_literal _ hb _ (by simp) h.symm)
    | (exfalso; simp only [className] at h; exact term_not_literal _ ha _ (by simp) h)


theorem same_class (a b : Expr) (ha : Sane a = true) (hb : Sane b = true)
    (h : compare (typecode a) (typecode b) = .eq) : className a = className b ∧ kind a = kind b := by
  have ht : typecode a = typecode b := compare_eq_iff_eq.mp h
  have hc := tc_inj _ _ (sane_name a ha) (sane_name b hb) ht
  exact ⟨hc, sane_kind a b ha hb hc⟩

theorem c3_of_inner (cfg : OrdCfg) (a b c : Expr) (ha : Sane a = true) (hb : Sane b = true) (hc : Sane c = true)
    (hin : className a = className b → kind a = kind b → className b = className c → kind b = kind c →
      consistent3 (inner cfg cmpMI a b) (inner cfg cmpMI b c) (inner cfg cmpMI a c) = true) :
    consistent3 (cmpC cfg a b) (cmpC cfg b c) (cmpC cfg a c) = true := by
  unfold cmpC
  rw [cmp_unfold, cmp_unfold, cmp_unfold]
  apply consistent3_thn
  · exact consistent3_of_transCmp (compare : Nat → Nat → Ordering) _ _ _
  · intro h1 h2
    have s1 := same_class a b ha hb h1
    have s2 := same_class b c hb hc h2
    exact hin s1.1 s1.2 s2.1 s2.2

theorem saneL_cons (a : Expr) (as : List Expr) (h : SaneL (a :: as) = true) : Sane a = true ∧ SaneL as = true := by
  simpa [SaneL] using h

theorem sane_op_args (k : Op) (aux : List Nat) (args : List Expr) (h : Sane (.op k aux args) = true) : SaneL args = true := by
  cases k <;> simp only [Sane, Bool.and_eq_true, Bool.false_eq_true] at h <;> exact h.2

mutual
theorem c3 (cfg : OrdCfg) : ∀ (a : Expr), Sane a = true → ∀ b c, Sane b = true → Sane c = true →
    consistent3 (cmpC cfg a b) (cmpC cfg b c) (cmpC cfg a c) = true
  | .int x, ha, b, c, hb, hc => by
    apply c3_of_inner cfg _ _ _ ha hb hc
    intro _ k1 _ k2
    cases b <;> simp only [kind] at k1 <;> try (exact absurd k1 (by decide))
    cases c <;> simp only [kind] at k2 <;> try (exact absurd k2 (by decide))
    exact consistent3_of_transCmp (compare : String → String → Ordering) _ _ _
  | .real x y, ha, b, c, hb, hc => by
    apply c3_of_inner cfg _ _ _ ha hb hc
    intro _ k1 _ k2
    cases b <;> simp only [kind] at k1 <;> try (exact absurd k1 (by decide))
    cases c <;> simp only [kind] at k2 <;> try (exact absurd k2 (by decide))
    exact consistent3_of_transCmp (compare : String → String → Ordering) _ _ _
  | .cplx x y z w, ha, b, c, hb, hc => by
    apply c3_of_inner cfg _ _ _ ha hb hc
    intro _ k1 _ k2
    cases b <;> simp only [kind] at k1 <;> try (exact absurd k1 (by decide))
    cases c <;> simp only [kind] at k2 <;> try (exact absurd k2 (by decide))
    exact consistent3_of_transCmp (compare : String → String → Ordering) _ _ _
  | .zero x y, ha, b, c, hb, hc => by
    apply c3_of_inner cfg _ _ _ ha hb hc
    intro _ k1 _ k2
    cases b <;> simp only [kind] at k1 <;> try (exact absurd k1 (by decide))
    cases c <;> simp only [kind] at k2 <;> try (exact absurd k2 (by decide))
    exact cmpKey_consistent _ _ _ _
  | .mi x, ha, b, c, hb, hc => by
    apply c3_of_inner cfg _ _ _ ha hb hc
    intro _ k1 _ k2
    cases b <;> simp only [kind] at k1 <;> try (exact absurd k1 (by decide))
    cases c <;> simp only [kind] at k2 <;> try (exact absurd k2 (by decide))
    exact cmpMI_consistent _ _ _
  | .term x, ha, b, c, hb, hc => by
    apply c3_of_inner cfg _ _ _ ha hb hc
    intro c1 k1 c2 k2
    cases b <;> simp only [kind] at k1 <;> try (exact absurd k1 (by decide))
    cases c <;> simp only [kind] at k2 <;> try (exact absurd k2 (by decide))
    rename_i y z
    simp only [className] at c1 c2
    rw [← c1] at c2
    simp only [inner, cmpTerm, ← c1, ← c2]
    by_cases h1 : x.cls = "Coefficient"
    · simp only [h1, ↓reduceIte]
      exact consistent3_of_transCmp (compare : Int → Int → Ordering) _ _ _
    · by_cases h2 : x.cls = "Argument"
      · simp only [h1, h2, ↓reduceIte]
        exact consistent3_thn _ _ _ _ _ _ (consistent3_of_transCmp (compare : Int → Int → Ordering) _ _ _)
          (fun _ _ => consistent3_of_transCmp (compare : Int → Int → Ordering) _ _ _)
      · by_cases h3 : x.cls = "Label"
        · simp only [h1, h2, h3, ↓reduceIte]; rfl
        · by_cases h4 : x.cls = "Constant"
          · simp only [h1, h2, h3, h4, ↓reduceIte]
            exact cmpKey_consistent _ _ _ _
          · by_cases h5 : isGeo x.cls = true
            · simp only [h1, h2, h3, h4, h5, ↓reduceIte]
              exact cmpKey_consistent _ _ _ _
            · simp only [h1, h2, h3, h4, h5, ↓reduceIte]
              exact consistent3_of_transCmp (compare : String → String → Ordering) _ _ _
  | .op k aux as, ha, b, c, hb, hc => by
    apply c3_of_inner cfg _ _ _ ha hb hc
    intro c1 k1 c2 k2
    cases b <;> simp only [kind] at k1 <;> try (exact absurd k1 (by decide))
    cases c <;> simp only [kind] at k2 <;> try (exact absurd k2 (by decide))
    rename_i k' aux' bs k'' aux'' cs
    simp only [inner]
    apply consistent3_thn
    · exact consistent3_of_transCmp (compare : Nat → Nat → Ordering) _ _ _
    · intro h1 h2
      exact c3L cfg as (sane_op_args _ _ _ ha) bs cs (sane_op_args _ _ _ hb) (sane_op_args _ _ _ hc)
        (compare_eq_iff_eq.mp h1) (compare_eq_iff_eq.mp h2)
theorem c3L (cfg : OrdCfg) : ∀ (as : List Expr), SaneL as = true → ∀ bs cs, SaneL bs = true → SaneL cs = true →
    as.length = bs.length → bs.length = cs.length →
    consistent3 (cmpLWith cfg cmpMI as bs) (cmpLWith cfg cmpMI bs cs) (cmpLWith cfg cmpMI as cs) = true
  | [], _, bs, cs, _, _, h1, h2 => by
    cases bs <;> cases cs <;> simp at h1 h2 <;> rfl
  | a :: as, ha, bs, cs, hb, hc, h1, h2 => by
    cases bs with
    | nil => simp at h1
    | cons b bs =>
      cases cs with
      | nil => simp at h2
      | cons c cs =>
        rw [cmpL_cons, cmpL_cons, cmpL_cons]
        have sa := saneL_cons _ _ ha; have sb := saneL_cons _ _ hb; have sc := saneL_cons _ _ hc
        exact consistent3_thn _ _ _ _ _ _
          (c3L cfg as sa.2 bs cs sb.2 sc.2 (by simpa using h1) (by simpa using h2))
          (fun _ _ => c3 cfg a sa.1 b c sb.1 sc.1)
end


theorem cmpNat_refl (n : Nat) : compare n n = .eq := ReflCmp.compare_self
theorem cmpInt_refl (n : Int) : compare n n = .eq := ReflCmp.compare_self
theorem cmpStr_refl (n : String) : compare n n = .eq := ReflCmp.compare_self

theorem cmpAtom_refl (x : KeyAtom) : cmpAtom x x = .eq := by
  cases x <;> simp [cmpAtom, cmpInt_refl, cmpStr_refl]

theorem cmpKey_refl : ∀ (ps : List KeyPart) (a : Expr), cmpKey ps a a = .eq
  | [], _ => rfl
  | p :: ps, a => by
    rw [cmpKey_cons, show cmpAtoms (keyOf p a) (keyOf p a) = .eq from lexCmp_refl cmpAtom cmpAtom_refl _]
    exact cmpKey_refl ps a

mutual
theorem cmp_refl (cfg : OrdCfg) : ∀ a : Expr, cmpC cfg a a = .eq
  | .int _ => by unfold cmpC; rw [cmp_unfold, cmpNat_refl]; simp [thn, inner, cmpTerm, cmpStr_refl]
  | .real _ _ => by unfold cmpC; rw [cmp_unfold, cmpNat_refl]; simp [thn, inner, cmpTerm, cmpStr_refl]
  | .cplx _ _ _ _ => by unfold cmpC; rw [cmp_unfold, cmpNat_refl]; simp [thn, inner, cmpTerm, cmpStr_refl]
  | .zero _ _ => by unfold cmpC; rw [cmp_unfold, cmpNat_refl]; simp [thn, inner, cmpTerm, cmpKey_refl]
  | .mi _ => by unfold cmpC; rw [cmp_unfold, cmpNat_refl]; simp [thn, inner, cmpTerm, cmpMI_refl]
  | .term d => by
    unfold cmpC; rw [cmp_unfold, cmpNat_refl]
    simp only [thn, inner, cmpTerm]
    split
    · exact cmpInt_refl _
    · split
      · simp [cmpInt_refl]
      · split
        · rfl
        · split
          · exact cmpKey_refl _ _
          · split
            · exact cmpKey_refl _ _
            · exact cmpStr_refl _
  | .op k aux as => by
    unfold cmpC; rw [cmp_unfold, cmpNat_refl]
    simp only [thn, inner, cmpNat_refl]
    exact cmpL_refl cfg as
theorem cmpL_refl (cfg : OrdCfg) : ∀ as : List Expr, cmpLWith cfg cmpMI as as = .eq
  | [] => by simp [cmpLWith]
  | a :: as => by
    rw [cmpL_cons, cmpL_refl cfg as]
    simp only [thn]
    exact cmp_refl cfg a
end

/-- `sorted_expr((a, b))` under the comparators `cfg` (`sort2` is the instance at `OrdCfg.live`) -/
def sort2C (cfg : OrdCfg) (a b : Expr) : Expr × Expr := if cmpC cfg b a = .lt then (b, a) else (a, b)

theorem sort2_eq (a b : Expr) : sort2 a b = sort2C OrdCfg.live a b := rfl

/-! ## The property theorems, for every choice of the key-comparing terminal comparators

`cfg` ranges over all sort keys for `Constant` / geometric quantities / `Zero` (`OrdCfg.byRepr`: the `repr` strings,
`OrdCfg.numeric`: domain sort key, shape, count, index dimensions — and any other combination of those parts). -/

theorem C29_refl_cfg (cfg : OrdCfg) (a : Expr) : cmpC cfg a a = .eq := cmp_refl cfg a

theorem C29_consistent_cfg (cfg : OrdCfg) (a b c : Expr) (ha : Sane a = true) (hb : Sane b = true) (hc : Sane c = true) :
    consistent3 (cmpC cfg a b) (cmpC cfg b c) (cmpC cfg a c) = true := c3 cfg a ha b c hb hc

theorem C29_antisym_cfg (cfg : OrdCfg) (a b : Expr) (ha : Sane a = true) (hb : Sane b = true) :
    cmpC cfg b a = (cmpC cfg a b).swap := by
  have := c3 cfg a ha b a hb ha
  rw [cmp_refl cfg a] at this
  cases h1 : cmpC cfg a b <;> cases h2 : cmpC cfg b a <;> simp_all [consistent3, Ordering.swap]

theorem C29_trans_cfg (cfg : OrdCfg) (a b c : Expr) (ha : Sane a = true) (hb : Sane b = true) (hc : Sane c = true)
    (h1 : cmpC cfg a b ≠ .gt) (h2 : cmpC cfg b c ≠ .gt) : cmpC cfg a c ≠ .gt :=
  consistent3_le_trans _ _ _ (c3 cfg a ha b c hb hc) h1 h2

theorem C29_tie_congr_cfg (cfg : OrdCfg) (a b c : Expr) (ha : Sane a = true) (hb : Sane b = true) (hc : Sane c = true)
    (h : cmpC cfg a b = .eq) : cmpC cfg a c = cmpC cfg b c := by
  have := c3 cfg a ha b c hb hc
  rw [h] at this
  cases h1 : cmpC cfg b c <;> cases h2 : cmpC cfg a c <;> simp_all [consistent3]

theorem C29_sort2_order_independent_cfg (cfg : OrdCfg) (a b : Expr) (ha : Sane a = true) (hb : Sane b = true)
    (h : cmpC cfg a b ≠ .eq) : sort2C cfg a b = sort2C cfg b a := by
  have hs := C29_antisym_cfg cfg a b ha hb
  unfold sort2C
  cases h1 : cmpC cfg a b <;> simp_all [Ordering.swap]

theorem C29_sort2_tie_cfg (cfg : OrdCfg) (a b : Expr) (h : cmpC cfg b a = .eq) : sort2C cfg a b = (a, b) := by
  simp [sort2C, h]

/-! ## The property theorems for `cmp_expr` of the tree under test (`Expr.cmp = cmpC OrdCfg.live`) -/

/-- **reflexive**: an expression ties with itself (this is also what makes the `is`-shortcuts and
    the `equal_pairs` memo of the implementation sound) -/
theorem C29_refl (a : Expr) : cmp a a = .eq := cmp_refl _ a

/-- **every triple is ordered consistently**: the three pairwise comparisons of any a, b, c are
    those of some weak ranking of the three -/
theorem C29_consistent (a b c : Expr) (ha : Sane a = true) (hb : Sane b = true) (hc : Sane c = true) :
    consistent3 (cmp a b) (cmp b c) (cmp a c) = true := c3 _ a ha b c hb hc

/-- **antisymmetric**: cmp(b, a) = -cmp(a, b) -/
theorem C29_antisym (a b : Expr) (ha : Sane a = true) (hb : Sane b = true) : cmp b a = (cmp a b).swap :=
  C29_antisym_cfg _ a b ha hb

/-- **transitive**: a ≤ b and b ≤ c imply a ≤ c — the ordering is a total preorder -/
theorem C29_trans (a b c : Expr) (ha : Sane a = true) (hb : Sane b = true) (hc : Sane c = true)
    (h1 : cmp a b ≠ .gt) (h2 : cmp b c ≠ .gt) : cmp a c ≠ .gt :=
  C29_trans_cfg _ a b c ha hb hc h1 h2

/-- equivalence (tie) is a congruence for the ordering: tied expressions compare alike to any third -/
theorem C29_tie_congr (a b c : Expr) (ha : Sane a = true) (hb : Sane b = true) (hc : Sane c = true)
    (h : cmp a b = .eq) : cmp a c = cmp b c :=
  C29_tie_congr_cfg _ a b c ha hb hc h

/-- **order independence of the two-operand canonical sort** used by Sum, Product and Inner:
    whenever the operands do not tie, `sorted_expr((a, b))` and `sorted_expr((b, a))` are the same
    pair, so the constructed expression does not depend on the order the operands were given in -/
theorem C29_sort2_order_independent (a b : Expr) (ha : Sane a = true) (hb : Sane b = true)
    (h : cmp a b ≠ .eq) : sort2 a b = sort2 b a :=
  C29_sort2_order_independent_cfg _ a b ha hb h

/-- when they tie, the given order is kept (Python's sort is stable) -/
theorem C29_sort2_tie (a b : Expr) (h : cmp b a = .eq) : sort2 a b = (a, b) :=
  C29_sort2_tie_cfg _ a b h

/-! ## the defect that was repaired: with `zip`-truncated multi-index comparison the ordering had a cycle -/
def cf (n : Nat) (sh : List Nat) : Expr := .term { cls := "Coefficient", key := "w" ++ toString n, shape := sh, count := n }
def ix (e : Expr) (is : List Nat) : Expr := .op .indexed [] [e, .mi (is.map .fixed)]
/-- A[0,1] < B[0] < C[0,0] but A[0,1] > C[0,0], for coefficients numbered A < B < C -/
theorem C29_old_cycle_counterexample :
    cmpOld (ix (cf 1 [2, 2]) [0, 1]) (ix (cf 2 [2]) [0]) = .lt ∧
    cmpOld (ix (cf 2 [2]) [0]) (ix (cf 3 [2, 2]) [0, 0]) = .lt ∧
    cmpOld (ix (cf 1 [2, 2]) [0, 1]) (ix (cf 3 [2, 2]) [0, 0]) = .gt := by decide +kernel

/-- non-vacuity: the same three expressions under the repaired comparator are ranked B[0] < C[0,0] < A[0,1] -/
example : Sane (ix (cf 1 [2, 2]) [0, 1]) = true ∧
    cmp (ix (cf 2 [2]) [0]) (ix (cf 3 [2, 2]) [0, 0]) = .lt ∧ cmp (ix (cf 3 [2, 2]) [0, 0]) (ix (cf 1 [2, 2]) [0, 1]) = .lt ∧
    cmp (ix (cf 2 [2]) [0]) (ix (cf 1 [2, 2]) [0, 1]) = .lt := by
  decide +kernel

/-! ## the two sets of comparators differ where a decimal numeral grows by a digit; both are total preorders -/
def kst (c : Int) : Expr :=
  .term { cls := "Constant", key := "Constant(Mesh(E, 1), (), " ++ toString c ++ ")", shape := [], count := c,
          dom := [.n 2, .n 2, .s "Mesh", .n 1, .s "E"] }

/-- non-vacuity of the `_cfg` theorems: constants 9, 10, 11 are ranked 10 < 11 < 9 by their reprs and 9 < 10 < 11 by their
    numbers; `Zero`s that differ only in the count of their free index tie numerically and do not tie by repr -/
example : Sane (kst 9) = true ∧
    cmpC .byRepr (kst 10) (kst 11) = .lt ∧ cmpC .byRepr (kst 11) (kst 9) = .lt ∧ cmpC .byRepr (kst 10) (kst 9) = .lt ∧
    cmpC .numeric (kst 9) (kst 10) = .lt ∧ cmpC .numeric (kst 10) (kst 11) = .lt ∧ cmpC .numeric (kst 9) (kst 11) = .lt ∧
    cmpC .numeric (.zero [] [(9, 2)]) (.zero [] [(10, 2)]) = .eq ∧ cmpC .byRepr (.zero [] [(9, 2)]) (.zero [] [(10, 2)]) = .gt ∧
    cmpC .numeric (.zero [] [(9, 2)]) (.zero [] [(10, 3)]) = .lt := by
  decide +kernel

end UflVerif.C29
