/-
C24  Point evaluation computes the mathematical value.

`evalI` (Model/EvalImpl.lean) transcribes UFL's `evaluate` methods, including how components,
the index StackDict and derivative tuples are threaded; it is run against the real
`expr(x, mapping, component)` on every check.  `eval` (Model/Eval.lean) is the denotational
semantics every other property refers to.  The theorem: whenever the evaluate protocol returns a
value, it is the denotational value.
-/
import UflVerif.Model.EvalImpl
import UflVerif.Sem.FI

namespace UflVerif.C24
open UflVerif Expr

variable {K : Type} [Add K] [Mul K] [Sub K] [Neg K] [Div K] [Zero K] [One K] [IntCast K] [NatCast K]

/-- the functional index environment agrees with the StackDict wherever the latter is defined -/
def Agree (s : Stack) (ι : IdxEnv) : Prop := ∀ c v, s.get c = some v → ι c = v

/-- derivatives of terminals are symmetric in the order of differentiation (Schwarz) -/
def JetSymm (ρ : Env K) : Prop := ∀ sd key c ds, ρ.jet sd key c ds.reverse = ρ.jet sd key c ds

theorem agree_cons (s : Stack) (ι : IdxEnv) (j v : Nat) (h : Agree s ι) : Agree ((j, v) :: s) (ι.set j v) := by
  intro c w hw
  unfold Stack.get at hw
  simp only [List.find?_cons] at hw
  unfold IdxEnv.set
  by_cases e : j = c
  · subst e; simp at hw; simp [hw]
  · have : (j == c) = false := by simp [e]
    simp only [this] at hw
    have e' : ¬ c = j := fun x => e x.symm
    simp only [e', ↓reduceIte]
    exact h c w hw

theorem resolveI_eq (s : Stack) (ι : IdxEnv) (h : Agree s ι) :
    ∀ (is : List Idx) (l : List Nat), resolveI s is = some l → l = is.map (Idx.resolve ι)
  | [], l, hl => by simp [resolveI] at hl; simp [hl]
  | .fixed v :: is, l, hl => by
    simp only [resolveI, Option.map_eq_some_iff] at hl
    obtain ⟨l', hl', rfl⟩ := hl
    simp [Idx.resolve, resolveI_eq s ι h is l' hl']
  | .free c :: is, l, hl => by
    simp only [resolveI, bind, Option.bind_eq_some_iff] at hl
    obtain ⟨v, hv, l', hl', e⟩ := hl
    simp only [pure, Option.some.injEq] at e
    subst e
    simp [Idx.resolve, h c v hv, resolveI_eq s ι h is l' hl']

theorem pushAll_agree : ∀ (is : List Idx) (c : List Nat) (s s' : Stack) (ι : IdxEnv), Agree s ι →
    pushAll s is c = some s' → Agree s' (ι.bind is c)
  | [], [], s, s', ι, h, hp => by simp only [pushAll, Option.some.injEq] at hp; subst hp; simpa [IdxEnv.bind] using h
  | .free j :: is, v :: vs, s, s', ι, h, hp => by
    simp only [pushAll] at hp
    simp only [IdxEnv.bind]
    exact pushAll_agree is vs _ s' _ (agree_cons s ι j v h) hp
  | [], _ :: _, _, _, _, _, hp => by simp [pushAll] at hp
  | .fixed _ :: _, _, _, _, _, _, hp => by simp [pushAll] at hp
  | .free _ :: _, [], _, _, _, _, hp => by simp [pushAll] at hp

theorem sumOpt_eq (n : Nat) (f : Nat → Option K) (g : Nat → K) (v : K)
    (hfg : ∀ k w, f k = some w → w = g k) (h : sumOpt n f = some v) : v = sumRange n g := by
  unfold sumOpt at h
  unfold sumRange
  induction n generalizing v with
  | zero => simp at h; simp [h]
  | succ m ih =>
    rw [List.range_succ, List.foldl_append] at h ⊢
    simp only [List.foldl_cons, List.foldl_nil] at h ⊢
    cases hacc : List.foldl (fun acc k => do let a ← acc; let b ← f k; pure (a + b)) (some 0) (List.range m) with
    | none => rw [hacc] at h; simp at h
    | some a =>
      rw [hacc] at h
      cases hf : f m with
      | none => rw [hf] at h; simp at h
      | some b =>
        rw [hf] at h
        simp only [bind, Option.bind, pure, Option.some.injEq] at h
        rw [← h, ih a hacc, hfg m b hf]

/- derivatives act only on terminals (the normal form `expand_derivatives` produces, which
   `Expr.__call__` applies before evaluating) -/
mutual
def GradOK : Expr → Bool
  | .op .grad _ [a] => (gradChain a).isSome
  | .op .positiveRestricted _ _ => false     -- point evaluation has no notion of side
  | .op .negativeRestricted _ _ => false
  | .op _ _ args => GradOKL args
  | _ => true
def GradOKL : List Expr → Bool
  | [] => true
  | a :: as => GradOK a && GradOKL as
end


def M1 (ρ : Env K) (s : Stack) (e : Expr) (c ds : List Nat) : Prop :=
  ∀ v ι, Agree s ι → JetSymm ρ → GradOK e = true → evalI ρ s e c ds = some v →
    (ds = [] → v = eval ρ .none ι e c) ∧
    (∀ d k, gradChain e = some (d, k) → (ds ≠ [] ∨ k ≠ 0) → c.length = d.shape.length + k ∧
      v = ρ.jet .none d.key (c.take d.shape.length) (ds ++ (c.drop d.shape.length).reverse))

def M2 (ρ : Env K) (s : Stack) (p : Expr) (c : List Nat) : Prop :=
  ∀ b ι, Agree s ι → JetSymm ρ → GradOK p = true → c = [] → evalBI ρ s p c = some b → b = evalB ρ .none ι p

def M3 (ρ : Env K) (s : Stack) (xs : List Expr) (n : Nat) (c ds : List Nat) : Prop :=
  ∀ v ι, Agree s ι → JetSymm ρ → GradOKL xs = true → ds = [] → evalNthI ρ s xs n c ds = some v →
    v = evalNth ρ .none ι xs n c

theorem gradChain_op_none (k : Op) (aux : List Nat) (args : List Expr) (h : k ≠ .grad) :
    gradChain (.op k aux args) = none := by
  unfold gradChain
  split
  · rename_i heq; cases heq
  · rename_i heq; cases heq; exact absurd rfl h
  · rfl

/-- unary operators that map the operand's value -/
theorem m1_map (ρ : Env K) (s : Stack) (k : Op) (aux c : List Nat) (a : Expr) (g : K → K) (hk : k ≠ .grad)
    (hI : ∀ v, evalI ρ s (.op k aux [a]) c [] = some v → ∃ w, evalI ρ s a c [] = some w ∧ v = g w)
    (hE : ∀ ι, eval ρ .none ι (.op k aux [a]) c = g (eval ρ .none ι a c))
    (hG : GradOK (.op k aux [a]) = true → GradOK a = true)
    (ih : M1 ρ s a c []) : M1 ρ s (.op k aux [a]) c [] := by
  intro v ι hA hJ hg h
  obtain ⟨w, hw, rfl⟩ := hI v h
  refine ⟨fun _ => ?_, fun d n hn => ?_⟩
  · rw [hE, (ih w ι hA hJ (hG hg) hw).1 rfl]
  · rw [gradChain_op_none k aux [a] hk] at hn; cases hn

/-- binary scalar operators -/
theorem m1_bin (ρ : Env K) (s : Stack) (k : Op) (aux c ca cb : List Nat) (a b : Expr) (g : K → K → K) (hk : k ≠ .grad)
    (hI : ∀ v, evalI ρ s (.op k aux [a, b]) c [] = some v →
      ∃ x y, evalI ρ s a ca [] = some x ∧ evalI ρ s b cb [] = some y ∧ v = g x y)
    (hE : ∀ ι, eval ρ .none ι (.op k aux [a, b]) c = g (eval ρ .none ι a ca) (eval ρ .none ι b cb))
    (hG : GradOK (.op k aux [a, b]) = true → GradOK a = true ∧ GradOK b = true)
    (iha : M1 ρ s a ca []) (ihb : M1 ρ s b cb []) : M1 ρ s (.op k aux [a, b]) c [] := by
  intro v ι hA hJ hg h
  obtain ⟨x, y, hx, hy, rfl⟩ := hI v h
  refine ⟨fun _ => ?_, fun d n hn => ?_⟩
  · rw [hE, (iha x ι hA hJ (hG hg).1 hx).1 rfl, (ihb y ι hA hJ (hG hg).2 hy).1 rfl]
  · rw [gradChain_op_none k aux [a, b] hk] at hn; cases hn

def Plain (k : Op) : Prop := k ≠ .grad ∧ k ≠ .positiveRestricted ∧ k ≠ .negativeRestricted

theorem gradOK_args (k : Op) (aux : List Nat) (args : List Expr) (hk : Plain k) (h : GradOK (.op k aux args) = true) :
    GradOKL args = true := by
  unfold GradOK at h
  split at h
  · rename_i heq; cases heq; exact absurd rfl hk.1
  · rename_i heq; cases heq; exact absurd rfl hk.2.1
  · rename_i heq; cases heq; exact absurd rfl hk.2.2
  · rename_i heq; cases heq; exact h
  · rename_i h1; exact absurd rfl (h1 k aux args)

theorem gradOK2 (k : Op) (aux : List Nat) (a b : Expr) (hk : Plain k) (h : GradOK (.op k aux [a, b]) = true) :
    GradOK a = true ∧ GradOK b = true := by
  simpa [GradOKL] using gradOK_args k aux [a, b] hk h

theorem gradOK1 (k : Op) (aux : List Nat) (a : Expr) (hk : Plain k) (h : GradOK (.op k aux [a]) = true) :
    GradOK a = true := by
  simpa [GradOKL] using gradOK_args k aux [a] hk h

theorem gradChain_ok : ∀ (a : Expr) (p : TermData × Nat), gradChain a = some p → GradOK a = true := by
  intro a
  fun_induction gradChain a with
  | case1 d => intro p _; simp [GradOK]
  | case2 aux a d k hk ih => intro p _; simp [GradOK, hk]
  | case3 aux a hk ih => intro p h; simp at h
  | case4 e h1 h2 => intro p h; simp at h

macro "optsimp" "at" h:ident : tactic =>
  `(tactic| simp only [bind, Option.bind_eq_some_iff, pure, Option.pure_def, Option.some.injEq, Option.map_eq_some_iff] at $h:ident)

theorem sound_aux (ρ : Env K) :
    (∀ s e c ds, M1 ρ s e c ds) ∧ (∀ s p c, M2 ρ s p c) ∧ (∀ s xs n c ds, M3 ρ s xs n c ds) := by
  apply evalI.mutual_induct (motive_1 := M1 ρ) (motive_2 := M2 ρ) (motive_3 := M3 ρ)
  -- 1-4 literals
  · intro s x c v ι _ _ _ h
    simp only [evalI, Option.some.injEq] at h; subst h
    exact ⟨fun _ => by simp [eval], fun d k hk => by simp [gradChain] at hk⟩
  · intro s n d c v ι _ _ _ h
    simp only [evalI, Option.some.injEq] at h; subst h
    exact ⟨fun _ => by simp [eval], fun d k hk => by simp [gradChain] at hk⟩
  · intro s a b c d x v ι _ _ _ h
    simp only [evalI, Option.some.injEq] at h; subst h
    exact ⟨fun _ => by simp [eval], fun d k hk => by simp [gradChain] at hk⟩
  · intro s sh fi c v ι _ _ _ h
    simp only [evalI, Option.some.injEq] at h; subst h
    exact ⟨fun _ => by simp [eval], fun d k hk => by simp [gradChain] at hk⟩
  -- 5 multiindex
  · intro s is c ds v ι _ _ _ h; simp [evalI] at h
  -- 6-11 terminals
  · intro s d hc i j v ι _ _ _ h
    simp only [evalI, hc, ↓reduceIte, Option.some.injEq] at h; subst h
    refine ⟨fun _ => by simp [eval, hc], fun d' k hk => ?_⟩
    simp only [gradChain, Option.some.injEq, Prod.mk.injEq] at hk
    obtain ⟨rfl, rfl⟩ := hk
    intro hh; simp at hh
  · intro s d c ds hc hne v ι _ _ _ h
    simp only [evalI, hc, ↓reduceIte] at h
    cases h
  · intro s d c ds h1 h2 v ι _ _ _ h; simp [evalI, h1, h2] at h
  · intro s d c ds h1 h2 h3 v ι _ _ _ h; simp [evalI, h1, h2, h3] at h
  · intro s d c ds h1 h2 h3 h4 v ι _ _ _ h
    have hl : c.length = d.shape.length := by simpa using h3
    have hds : ds = [] := by simpa using h4
    subst hds
    simp only [evalI, h1, h2, ↓reduceIte, hl, ne_eq, not_true_eq_false, List.isEmpty_nil, Option.some.injEq] at h
    subst h
    refine ⟨fun _ => by simp [eval, h1, h2], fun d' k hk => ?_⟩
    simp only [gradChain, Option.some.injEq, Prod.mk.injEq] at hk
    obtain ⟨rfl, rfl⟩ := hk
    intro hh; simp at hh
  · intro s d c ds h1 h2 h3 h4 v ι _ _ _ h
    have hl : c.length = d.shape.length := by simpa using h3
    simp only [evalI, h1, h2, ↓reduceIte, hl, ne_eq, not_true_eq_false, h4, Bool.false_eq_true, Option.some.injEq] at h
    subst h
    refine ⟨fun hd => by simp [hd] at h4, fun d' k hk => ?_⟩
    simp only [gradChain, Option.some.injEq, Prod.mk.injEq] at hk
    obtain ⟨rfl, rfl⟩ := hk
    intro _
    refine ⟨by simpa using hl, ?_⟩
    rw [← hl]; simp
  -- 12 sum
  · intro s aux c a b iha ihb
    exact m1_bin ρ s .sum aux c c c a b (· + ·) (by decide)
      (by intro v h; simp only [evalI] at h; optsimp at h
          obtain ⟨x, hx, y, hy, e⟩ := h; exact ⟨x, y, hx, hy, e.symm⟩)
      (by intro ι; simp [eval]) (gradOK2 _ aux a b (by unfold Plain; decide)) iha ihb
  -- 13 product
  · intro s aux c a b iha ihb
    exact m1_bin ρ s .product aux c [] [] a b (· * ·) (by decide)
      (by intro v h; simp only [evalI] at h; optsimp at h
          obtain ⟨x, hx, y, hy, e⟩ := h; exact ⟨x, y, hx, hy, e.symm⟩)
      (by intro ι; simp [eval]) (gradOK2 _ aux a b (by unfold Plain; decide)) iha ihb
  -- 14 division (a zero divisor raises ZeroDivisionError)
  · intro s aux c a b iha ihb v ι hA hJ hg h
    simp only [evalI] at h; optsimp at h
    obtain ⟨x, hx, y, hy, h⟩ := h
    split at h
    · cases h
    · simp only [Option.some.injEq] at h; subst h
      refine ⟨fun _ => ?_, fun d n hn => by rw [gradChain_op_none _ _ _ (by decide)] at hn; cases hn⟩
      have g := gradOK2 _ aux a b (by unfold Plain; decide) hg
      simp only [eval]
      rw [(iha x ι hA hJ g.1 hx).1 rfl, (ihb y ι hA hJ g.2 hy).1 rfl]
  -- 15 power
  · intro s aux c a b iha ihb
    exact m1_bin ρ s .power aux c c c a b (ρ.fn2 "Power") (by decide)
      (by intro v h; simp only [evalI] at h; optsimp at h
          obtain ⟨x, hx, y, hy, e⟩ := h; exact ⟨x, y, hx, hy, e.symm⟩)
      (by intro ι; simp [eval]) (gradOK2 _ aux a b (by unfold Plain; decide)) iha ihb
  -- 16-19 abs conj real imag
  · intro s aux c a ih
    exact m1_map ρ s .abs aux c a ρ.abs (by decide)
      (by intro v h; simp only [evalI] at h; optsimp at h; obtain ⟨w, hw, e⟩ := h; exact ⟨w, hw, e.symm⟩)
      (by intro ι; simp [eval]) (gradOK1 _ aux a (by unfold Plain; decide)) ih
  · intro s aux c a ih
    exact m1_map ρ s .conj aux c a ρ.conj (by decide)
      (by intro v h; simp only [evalI] at h; optsimp at h; obtain ⟨w, hw, e⟩ := h; exact ⟨w, hw, e.symm⟩)
      (by intro ι; simp [eval]) (gradOK1 _ aux a (by unfold Plain; decide)) ih
  · intro s aux c a ih
    exact m1_map ρ s .real aux c a ρ.re (by decide)
      (by intro v h; simp only [evalI] at h; optsimp at h; obtain ⟨w, hw, e⟩ := h; exact ⟨w, hw, e.symm⟩)
      (by intro ι; simp [eval]) (gradOK1 _ aux a (by unfold Plain; decide)) ih
  · intro s aux c a ih
    exact m1_map ρ s .imag aux c a ρ.im (by decide)
      (by intro v h; simp only [evalI] at h; optsimp at h; obtain ⟨w, hw, e⟩ := h; exact ⟨w, hw, e.symm⟩)
      (by intro ι; simp [eval]) (gradOK1 _ aux a (by unfold Plain; decide)) ih
  -- 20 indexed
  · intro s aux c a is ds ih v ι hA hJ hg h
    simp only [evalI] at h; optsimp at h
    obtain ⟨l, hl, h⟩ := h
    have g := gradOK2 _ aux a (.mi is) (by unfold Plain; decide) hg
    refine ⟨fun hd => ?_, fun d n hn => by rw [gradChain_op_none _ _ _ (by decide)] at hn; cases hn⟩
    subst hd
    simp only [eval]
    rw [← resolveI_eq s ι hA is l hl]
    exact (ih l v ι hA hJ g.1 h).1 rfl
  -- 21 index sum
  · intro s aux c a j ih v ι hA hJ hg h
    simp only [evalI] at h
    have g := gradOK2 _ aux a (.mi [.free j]) (by unfold Plain; decide) hg
    refine ⟨fun _ => ?_, fun d n hn => by rw [gradChain_op_none _ _ _ (by decide)] at hn; cases hn⟩
    simp only [eval]
    exact sumOpt_eq _ _ _ v (fun k w hw => (ih k w (ι.set j k) (agree_cons s ι j k hA) hJ g.1 hw).1 rfl) h
  -- 22 component tensor
  · intro s aux c a is ih v ι hA hJ hg h
    simp only [evalI] at h; optsimp at h
    obtain ⟨s', hs', h⟩ := h
    have g := gradOK2 _ aux a (.mi is) (by unfold Plain; decide) hg
    refine ⟨fun _ => ?_, fun d n hn => by rw [gradChain_op_none _ _ _ (by decide)] at hn; cases hn⟩
    simp only [eval]
    exact (ih s' v (ι.bind is c) (pushAll_agree is c s s' ι hA hs') hJ g.1 h).1 rfl
  -- 23-25 list tensor
  · intro s aux xs ds v c' hne w ι _ _ _ h
    simp [evalI, hne] at h
  · intro s aux xs ds v c' hne ih w ι hA hJ hg h
    simp only [evalI, hne, ↓reduceIte] at h
    have g := gradOK_args _ aux xs (by unfold Plain; decide) hg
    refine ⟨fun hd => ?_, fun d n hn => by rw [gradChain_op_none _ _ _ (by decide)] at hn; cases hn⟩
    simp only [eval]
    exact ih w ι hA hJ g hd h
  · intro s aux xs ds w ι _ _ _ h; simp [evalI] at h
  -- 26 conditional
  · intro s aux c p t f ihp iht ihf v ι hA hJ hg h
    simp only [evalI] at h; optsimp at h
    obtain ⟨b, hb, h⟩ := h
    have g := gradOK_args _ aux [p, t, f] (by unfold Plain; decide) hg
    simp only [GradOKL, Bool.and_true, Bool.and_eq_true] at g
    refine ⟨fun _ => ?_, fun d n hn => by rw [gradChain_op_none _ _ _ (by decide)] at hn; cases hn⟩
    simp only [eval]
    rw [← ihp b ι hA hJ g.1 rfl hb]
    cases b with
    | true => simp only [↓reduceIte] at h ⊢; exact (iht v ι hA hJ g.2.1 h).1 rfl
    | false => simp only [Bool.false_eq_true, ↓reduceIte] at h ⊢; exact (ihf v ι hA hJ g.2.2 h).1 rfl
  -- 27-28 min / max
  · intro s aux c a b iha ihb
    exact m1_bin ρ s .minValue aux c c c a b (fun x y => if ρ.lt x y then x else y) (by decide)
      (by intro v h; simp only [evalI] at h; optsimp at h
          obtain ⟨x, hx, y, hy, e⟩ := h; exact ⟨x, y, hx, hy, e.symm⟩)
      (by intro ι; simp [eval]) (gradOK2 _ aux a b (by unfold Plain; decide)) iha ihb
  · intro s aux c a b iha ihb
    exact m1_bin ρ s .maxValue aux c c c a b (fun x y => if ρ.lt y x then x else y) (by decide)
      (by intro v h; simp only [evalI] at h; optsimp at h
          obtain ⟨x, hx, y, hy, e⟩ := h; exact ⟨x, y, hx, hy, e.symm⟩)
      (by intro ι; simp [eval]) (gradOK2 _ aux a b (by unfold Plain; decide)) iha ihb
  -- 29 variable
  · intro s aux c a l ih v ι hA hJ hg h
    simp only [evalI] at h
    have g := gradOK2 _ aux a l (by unfold Plain; decide) hg
    refine ⟨fun _ => ?_, fun d n hn => by rw [gradChain_op_none _ _ _ (by decide)] at hn; cases hn⟩
    simp only [eval]; exact (ih v ι hA hJ g.1 h).1 rfl
  -- 30-31 restrictions are outside the domain
  · intro s aux c a _ v ι _ _ hg _; simp [GradOK] at hg
  · intro s aux c a _ v ι _ _ hg _; simp [GradOK] at hg
  -- 32 atan2
  · intro s aux c a b iha ihb
    exact m1_bin ρ s .atan2 aux c c c a b (ρ.fn2 "Atan2") (by decide)
      (by intro v h; simp only [evalI] at h; optsimp at h
          obtain ⟨x, hx, y, hy, e⟩ := h; exact ⟨x, y, hx, hy, e.symm⟩)
      (by intro ι; simp [eval]) (gradOK2 _ aux a b (by unfold Plain; decide)) iha ihb
  -- 33-34 grad
  · intro s aux c a ds i hlast ih v ι hA hJ hg h
    simp only [evalI, hlast] at h
    simp only [GradOK, Option.isSome_iff_exists] at hg
    obtain ⟨⟨d, k⟩, hdk⟩ := hg
    obtain ⟨hlen, hv⟩ := (ih v ι hA hJ (gradChain_ok a _ hdk) h).2 d k hdk (Or.inl (by simp))
    have hc : c = c.dropLast ++ [i] := by
      obtain ⟨ys, rfl⟩ := List.getLast?_eq_some_iff.mp hlast
      simp
    have hle : d.shape.length ≤ c.dropLast.length := by omega
    have htake : c.take d.shape.length = c.dropLast.take d.shape.length := by
      rw [hc, List.take_append_of_le_length (by simpa using hle)]; simp
    have hdrop : c.drop d.shape.length = c.dropLast.drop d.shape.length ++ [i] := by
      have : List.drop d.shape.length (c.dropLast ++ [i]) = c.dropLast.drop d.shape.length ++ [i] :=
        List.drop_append_of_le_length (by simpa using hle)
      rw [← hc] at this; exact this
    have hcl : c.length = d.shape.length + (k + 1) := by
      rw [hc, List.length_append]; simp at hlen ⊢; omega
    have hchain : gradChain (.op .grad aux [a]) = some (d, k + 1) := by simp [gradChain, hdk]
    refine ⟨fun hd => ?_, fun d' k' hk' _ => ?_⟩
    · subst hd
      simp only [eval, hdk]
      rw [hv, htake, hdrop, ← hJ]
      simp
    · rw [hchain] at hk'
      simp only [Option.some.injEq, Prod.mk.injEq] at hk'
      obtain ⟨rfl, rfl⟩ := hk'
      refine ⟨hcl, ?_⟩
      rw [hv, htake, hdrop]; simp
  · intro s aux c a ds hlast v ι _ _ _ h
    simp [evalI, hlast] at h
  -- 35-36 math functions / other unary operators
  · intro s aux c fnk a h1 h2 h3 h4 h5 h6 h7 h8 n hn ih v ι hA hJ hg h
    have hp : Plain fnk := ⟨fun e => h8 e, fun e => h6 e, fun e => h7 e⟩
    have g := gradOK1 _ aux a hp hg
    have hev : evalI ρ s (.op fnk aux [a]) c [] = (evalI ρ s a c []).map (ρ.fn n) := by
      cases fnk <;> simp_all [evalI, mathName]
    have hde : ∀ ι, eval ρ .none ι (.op fnk aux [a]) c = ρ.fn n (eval ρ .none ι a c) := by
      intro ι; cases fnk <;> simp_all [eval, mathName]
    rw [hev] at h; optsimp at h
    obtain ⟨w, hw, rfl⟩ := h
    refine ⟨fun _ => ?_, fun d k hk => by rw [gradChain_op_none _ _ _ (fun e => h8 e)] at hk; cases hk⟩
    rw [hde, (ih w ι hA hJ g hw).1 rfl]
  · intro s aux c fnk a h1 h2 h3 h4 h5 h6 h7 h8 hn v ι hA hJ hg h
    have hev : evalI ρ s (.op fnk aux [a]) c [] = none := by
      cases fnk <;> simp_all [evalI, mathName]
    rw [hev] at h; cases h
  -- 37 any other operator / argument pattern: `evaluate` is not defined (raises)
  · intro s k aux args c ds
    intros
    intro v ι _ _ _ h
    unfold evalI at h
    split at h <;> simp_all
  -- 38 remaining non-operator patterns (literal asked for a derivative)
  · intro t s c ds
    intros
    intro v ι _ _ _ h
    unfold evalI at h
    split at h <;> simp_all
    all_goals (exfalso; rename_i hx; exact hx _ _ _ _ rfl rfl rfl rfl)
  -- 39-49 conditions
  · intro s aux c a b iha ihb r ι hA hJ hg hc h
    subst hc
    simp only [evalBI] at h; optsimp at h
    obtain ⟨x, hx, y, hy, rfl⟩ := h
    have g := gradOK2 _ aux a b (by unfold Plain; decide) hg
    simp only [evalB]; rw [(iha x ι hA hJ g.1 hx).1 rfl, (ihb y ι hA hJ g.2 hy).1 rfl]
  · intro s aux c a b iha ihb r ι hA hJ hg hc h
    subst hc
    simp only [evalBI] at h; optsimp at h
    obtain ⟨x, hx, y, hy, rfl⟩ := h
    have g := gradOK2 _ aux a b (by unfold Plain; decide) hg
    simp only [evalB]; rw [(iha x ι hA hJ g.1 hx).1 rfl, (ihb y ι hA hJ g.2 hy).1 rfl]
  · intro s aux c a b iha ihb r ι hA hJ hg hc h
    subst hc
    simp only [evalBI] at h; optsimp at h
    obtain ⟨x, hx, y, hy, rfl⟩ := h
    have g := gradOK2 _ aux a b (by unfold Plain; decide) hg
    simp only [evalB]; rw [(iha x ι hA hJ g.1 hx).1 rfl, (ihb y ι hA hJ g.2 hy).1 rfl]
  · intro s aux c a b iha ihb r ι hA hJ hg hc h
    subst hc
    simp only [evalBI] at h; optsimp at h
    obtain ⟨x, hx, y, hy, rfl⟩ := h
    have g := gradOK2 _ aux a b (by unfold Plain; decide) hg
    simp only [evalB]; rw [(iha x ι hA hJ g.1 hx).1 rfl, (ihb y ι hA hJ g.2 hy).1 rfl]
  · intro s aux c a b iha ihb r ι hA hJ hg hc h
    subst hc
    simp only [evalBI] at h; optsimp at h
    obtain ⟨x, hx, y, hy, rfl⟩ := h
    have g := gradOK2 _ aux a b (by unfold Plain; decide) hg
    simp only [evalB]; rw [(iha x ι hA hJ g.1 hx).1 rfl, (ihb y ι hA hJ g.2 hy).1 rfl]
  · intro s aux c a b iha ihb r ι hA hJ hg hc h
    subst hc
    simp only [evalBI] at h; optsimp at h
    obtain ⟨x, hx, y, hy, rfl⟩ := h
    have g := gradOK2 _ aux a b (by unfold Plain; decide) hg
    simp only [evalB]; rw [(iha x ι hA hJ g.1 hx).1 rfl, (ihb y ι hA hJ g.2 hy).1 rfl]
  · intro s aux c a b iha ihb r ι hA hJ hg hc h
    simp only [evalBI] at h; optsimp at h
    obtain ⟨x, hx, y, hy, rfl⟩ := h
    have g := gradOK2 _ aux a b (by unfold Plain; decide) hg
    simp only [evalB]; rw [iha x ι hA hJ g.1 hc hx, ihb y ι hA hJ g.2 hc hy]
  · intro s aux c a b iha ihb r ι hA hJ hg hc h
    simp only [evalBI] at h; optsimp at h
    obtain ⟨x, hx, y, hy, rfl⟩ := h
    have g := gradOK2 _ aux a b (by unfold Plain; decide) hg
    simp only [evalB]; rw [iha x ι hA hJ g.1 hc hx, ihb y ι hA hJ g.2 hc hy]
  · intro s aux c a ih r ι hA hJ hg hc h
    simp only [evalBI] at h; optsimp at h
    obtain ⟨x, hx, rfl⟩ := h
    have g := gradOK1 _ aux a (by unfold Plain; decide) hg
    simp only [evalB]; rw [ih x ι hA hJ g hc hx]
  · intro s k aux args c
    intros
    intro r ι _ _ _ _ h
    unfold evalBI at h
    split at h <;> simp_all
  · intro t s c
    intros
    intro r ι _ _ _ _ h
    unfold evalBI at h
    split at h <;> simp_all
  -- 50-52 list tensor component selection
  · intro s n c ds v ι _ _ _ _ h; simp [evalNthI] at h
  · intro s x tail c ds ih v ι hA hJ hg hd h
    subst hd
    simp only [evalNthI] at h
    simp only [GradOKL, Bool.and_eq_true] at hg
    simp only [evalNth]; exact (ih v ι hA hJ hg.1 h).1 rfl
  · intro s x xs n c ds ih v ι hA hJ hg hd h
    simp only [evalNthI] at h
    simp only [GradOKL, Bool.and_eq_true] at hg
    simp only [evalNth]; exact ih v ι hA hJ hg.2 hd h


/-- the expressions point evaluation is specified for: derivatives only on terminals (what
    `expand_derivatives`, which `__call__` runs first, leaves behind) and no restrictions -/
abbrev InDomain (e : Expr) : Prop := GradOK e = true

/-- **Soundness of point evaluation.**  Whenever UFL's `evaluate` protocol returns a value for
    `e(x, mapping, component = c)`, that value is the mathematical (denotational) value of component
    `c` of `e` — for every expression in the domain, every terminal valuation, every component. -/
theorem C24_sound (ρ : Env K) (hJ : JetSymm ρ) (e : Expr) (hd : InDomain e) (c : List Nat) (ι : IdxEnv) (v : K)
    (h : evalI ρ [] e c [] = some v) : v = eval ρ .none ι e c :=
  ((sound_aux ρ).1 [] e c [] v ι (by intro c v h; simp [Stack.get] at h) hJ hd h).1 rfl

/-- the same inside binders: with any index stack the result is the denotation under every index
    environment that agrees with the stack -/
theorem C24_sound_open (ρ : Env K) (hJ : JetSymm ρ) (e : Expr) (hd : InDomain e) (s : Stack) (c : List Nat)
    (ι : IdxEnv) (hA : Agree s ι) (v : K) (h : evalI ρ s e c [] = some v) : v = eval ρ .none ι e c :=
  ((sound_aux ρ).1 s e c [] v ι hA hJ hd h).1 rfl

/-- derivatives: `grad^k(f)` evaluates to the k-th derivative jet of the terminal `f` -/
theorem C24_sound_grad (ρ : Env K) (hJ : JetSymm ρ) (e : Expr) (hd : InDomain e) (d : TermData) (k : Nat)
    (hk : gradChain e = some (d, k)) (hk0 : k ≠ 0) (c : List Nat) (ι : IdxEnv) (v : K)
    (h : evalI ρ [] e c [] = some v) :
    c.length = d.shape.length + k ∧ v = ρ.jet .none d.key (c.take d.shape.length) (c.drop d.shape.length).reverse := by
  have := ((sound_aux ρ).1 [] e c [] v ι (by intro c v h; simp [Stack.get] at h) hJ hd h).2 d k hk (Or.inr hk0)
  simpa using this

/-! ### non-vacuity (K = ℚ): an index sum over a component tensor with a re-used index, and the
    repaired tensor-valued conditional -/
def exEnv : Env Rat where
  term := fun _ key c => if key = "f" then (match c with | [0] => 2 | [1] => 3 | _ => 0) else 5
  jet := fun _ _ _ _ => 0
  fn := fun _ x => x
  fn2 := fun _ x _ => x
  abs := fun x => x
  conj := id
  re := id
  im := fun _ => 0
  i := 0
  lt := fun x y => decide (x < y)
  eq := fun x y => decide (x = y)

def exF : Expr := .term { cls := "Coefficient", key := "f", shape := [2] }
def exG : Expr := .term { cls := "Coefficient", key := "g", shape := [] }
/-- Σ_i (as_vector(f[i]·g, i))[i] · f[i] with the same index object inside and outside -/
def exSum : Expr :=
  .op .indexSum [] [.op .product [] [.op .indexed [] [.op .componentTensor [] [.op .product [] [.op .indexed [] [exF, .mi [.free 7]], exG], .mi [.free 7]], .mi [.free 7]],
                                     .op .indexed [] [exF, .mi [.free 7]]], .mi [.free 7]]
example : evalI exEnv [] exSum [] [] = some 65 ∧ GradOK exSum = true := by decide +kernel
/-- conditional(f[0] < g, f, 2 f) evaluated at component 1 -/
def exCond : Expr :=
  .op .conditional [] [.op .lT [] [.op .indexed [] [exF, .mi [.fixed 0]], exG], exF, .op .componentTensor [] [.op .product [] [.int 2, .op .indexed [] [exF, .mi [.free 1]]], .mi [.free 1]]]
example : evalI exEnv [] exCond [1] [] = some 3 := by decide +kernel

end UflVerif.C24
