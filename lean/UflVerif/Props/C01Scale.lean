/-
C01 (b)  `apply_integral_scaling`: the scaled integrand is integrand * factor, with the declared factor.

Model `Model/Scaling.lean` (tied tree-for-tree to the implementation on every integral type x cell x
metadata shape by harness/props/c01.py).  Values are the denotational `eval` over any field of
characteristic 0; `eval ρ side ι (detFJ('+'))` reads the facet Jacobian determinant of the '+' cell, so the
statements hold for two-sided data.
-/
import UflVerif.Model.Scaling
import UflVerif.Props.C05
import UflVerif.Props.C05Rebuild

namespace UflVerif.C01
open UflVerif Expr Scaling

variable {K : Type} [Field K] [CharZero K]

/-- no CoordinateDerivative node at the top -/
def NotCD (e : Expr) : Prop := ∀ aux a b c d, e ≠ .op .coordinateDerivative aux [a, b, c, d]

theorem cdBody_of_notCD (e : Expr) (h : NotCD e) : cdBody e = e ∧ cdSpine e = [] := by
  constructor
  · unfold cdBody; split
    · rename_i aux a b c d; exact absurd rfl (h aux a b c d)
    · rfl
  · unfold cdSpine; split
    · rename_i aux a b c d; exact absurd rfl (h aux a b c d)
    · rfl

theorem mkLit_notCD (i : Bool) (q : Rat) : NotCD (mkLit i q) := by
  intro aux a b c d
  unfold mkLit; split
  · simp
  · split <;> simp

/-- the Product constructor returns a Product, one of its operands, a literal, a Zero or the marker -/
theorem mkProduct_notCD (a b r : Expr) (h : mkProduct a b = some r) (ha : NotCD a) (hb : NotCD b) : NotCD r := by
  unfold mkProduct at h
  split at h
  · cases h
  · split at h
    · simp only [Option.some.injEq] at h; subst h; intro _ _ _ _ _; simp
    · split at h
      · simp only [Option.some.injEq] at h; subst h; exact mkLit_notCD _ _
      · split at h
        · simp only [Option.some.injEq] at h; subst h; intro _ _ _ _ _; simp [unsupported]
        · split at h
          · simp only [Option.some.injEq] at h; subst h; exact hb
          · simp only [Option.some.injEq] at h; subst h; intro _ _ _ _ _; simp
      · split at h
        · simp only [Option.some.injEq] at h; subst h; intro _ _ _ _ _; simp [unsupported]
        · split at h
          · simp only [Option.some.injEq] at h; subst h; exact ha
          · simp only [Option.some.injEq] at h; subst h; intro _ _ _ _ _; simp
      · split at h
        · simp only [Option.some.injEq] at h; subst h; intro _ _ _ _ _; simp [unsupported]
        · simp only [Option.some.injEq] at h; subst h; intro _ _ _ _ _; simp

/-- **C01_scale**: whatever the factor `f` (a scalar), the rewritten integrand `r` has the CoordinateDerivative nodes of
    the original at the top (or is the Zero the constructor returns), and below them the value is factor * integrand:
    `scale_coordinate_derivative` multiplies exactly once, under every CoordinateDerivative. -/
theorem C01_scale (ρ : Env K) (s : Side) (ι : IdxEnv) (f o r : Expr) (hf : NotCD f) (h : scaleCD f o = some r)
    (hu : isUnsupported (cdBody r) = false) :
    eval ρ s ι (cdBody r) [] = eval ρ s ι f [] * eval ρ s ι (cdBody o) [] ∧ (cdSpine r = cdSpine o ∨ (isZero r = true ∧ cdSpine r = [])) := by
  fun_induction scaleCD f o generalizing r with
  | case1 aux a b c d ih =>
    unfold bindU at h
    cases ha : scaleCD f a with
    | none => rw [ha] at h; cases h
    | some a' =>
      rw [ha] at h
      simp only at h
      split at h
      · simp only [Option.some.injEq] at h; subst h
        simp [cdBody, isUnsupported, unsupported] at hu
      · split at h
        · rename_i hz
          simp only [Option.some.injEq] at h; subst h
          obtain ⟨sh, fi', rfl⟩ := C05.isZero_eq a' hz
          have := ih (.zero sh fi') ha (by simp [cdBody, isUnsupported])
          refine ⟨?_, Or.inr ⟨rfl, by simp [cdSpine]⟩⟩
          simpa [cdBody] using this.1
        · simp only [Option.some.injEq] at h; subst h
          have := ih a' ha (by simpa [cdBody] using hu)
          refine ⟨by simpa [cdBody] using this.1, ?_⟩
          cases this.2 with
          | inl he => exact Or.inl (by simp [cdSpine, he])
          | inr hz => rename_i hnz; exact absurd hz.1 hnz
  | case2 o hne =>
    have ho : NotCD o := fun aux a b c d he => hne aux a b c d he
    have hr := mkProduct_notCD f o r h hf ho
    rw [(cdBody_of_notCD r hr).1] at hu ⊢
    rw [(cdBody_of_notCD o ho).1, (cdBody_of_notCD r hr).2, (cdBody_of_notCD o ho).2]
    exact ⟨(C05.C05_mkProduct ρ s ι f o r h hu).1, Or.inl rfl⟩

/-! ## the factor is the declared one -/

/-- what `compute_integrand_scaling_factor` declares, as a value: |detJ| w on cells, detFJ w on exterior facets, detFJ of
    the '+' cell times w on interior facets, detEJ w on ridges, w for run-time quadrature, 1 for vertices and points -/
def declaredFactor (ρ : Env K) (s : Side) (ι : IdxEnv) (G : Syms) (k : IKind) (tdim : Nat) : K :=
  match k with
  | .cell => if tdim > 0 then ρ.abs (eval ρ s ι G.detJ []) * eval ρ s ι G.weight [] else 1
  | .exteriorFacet => if tdim > 1 then eval ρ s ι G.detFJ [] * eval ρ s ι G.weight [] else 1
  | .interiorFacet => if tdim > 1 then eval ρ .plus ι G.detFJ [] * eval ρ s ι G.weight [] else 1
  | .ridge => if tdim > 2 then eval ρ s ι G.detEJ [] * eval ρ s ι G.weight [] else 1
  | .custom => eval ρ s ι G.weight []
  | .point => 1
  | .unknown => 1

/-- the factor contains a Jacobian determinant (whose lowered form has the degree `gd`) -/
def usesDeterminant (k : IKind) (tdim : Nat) : Bool :=
  match k with
  | .cell => decide (tdim > 0)
  | .exteriorFacet => decide (tdim > 1)
  | .interiorFacet => decide (tdim > 1)
  | .ridge => decide (tdim > 2)
  | _ => false

omit [CharZero K] in
theorem eval_one (ρ : Env K) (s : Side) (ι : IdxEnv) : eval ρ s ι (.int 1) [] = (1 : K) := by simp [eval]

/-- **C01_scale_factor**: for every integral type and topological dimension for which the code returns a factor, its value
    is the declared one (and an unknown integral type or a ridge integral on a cell of dimension < 2 raises). -/
theorem C01_scale_factor (ρ : Env K) (hρ : C05.LitSem ρ) (s : Side) (ι : IdxEnv) (G : Syms) (k : IKind) (tdim : Nat) (gd : Deg)
    (f : Expr) (d : Deg) (h : factor G k tdim gd = some (f, d)) (hu : isUnsupported f = false) :
    eval ρ s ι f [] = declaredFactor ρ s ι G k tdim ∧ d = (if usesDeterminant k tdim then gd else .scalar 0) := by
  unfold factor at h
  unfold declaredFactor usesDeterminant
  cases k with
  | cell =>
    simp only at h ⊢
    split at h
    · rename_i ht
      simp only [Option.map_eq_some_iff, Prod.mk.injEq] at h
      obtain ⟨r, hr, rfl, rfl⟩ := h
      simp only [ht, decide_true, if_true, and_true]
      unfold absTimes bindU at hr
      cases ha : mkAbs G.detJ with
      | none => rw [ha] at hr; cases hr
      | some a =>
        rw [ha] at hr
        simp only at hr
        split at hr
        · simp only [Option.some.injEq] at hr; subst hr; simp [isUnsupported, unsupported] at hu
        · rename_i hua
          rw [(C05.C05_mkProduct ρ s ι a G.weight r hr hu).1, C05.C05_mkAbs ρ hρ s ι G.detJ a ha (by simpa using hua) []]
    · rename_i ht
      simp only [Option.some.injEq, Prod.mk.injEq] at h
      obtain ⟨rfl, rfl⟩ := h
      simp [ht, eval_one]
  | exteriorFacet =>
    simp only at h ⊢
    split at h
    · rename_i ht
      simp only [Option.map_eq_some_iff, Prod.mk.injEq] at h
      obtain ⟨r, hr, rfl, rfl⟩ := h
      simp only [ht, decide_true, if_true, and_true]
      exact (C05.C05_mkProduct ρ s ι _ _ r hr hu).1
    · rename_i ht
      simp only [Option.some.injEq, Prod.mk.injEq] at h
      obtain ⟨rfl, rfl⟩ := h
      simp [ht, eval_one]
  | interiorFacet =>
    simp only at h ⊢
    split at h
    · rename_i ht
      simp only [Option.map_eq_some_iff, Prod.mk.injEq] at h
      obtain ⟨r, hr, rfl, rfl⟩ := h
      simp only [ht, decide_true, if_true, and_true]
      rw [(C05.C05_mkProduct ρ s ι _ _ r hr hu).1]
      simp [eval]
    · rename_i ht
      simp only [Option.some.injEq, Prod.mk.injEq] at h
      obtain ⟨rfl, rfl⟩ := h
      simp [ht, eval_one]
  | ridge =>
    simp only at h ⊢
    split at h
    · rename_i ht
      simp only [Option.map_eq_some_iff, Prod.mk.injEq] at h
      obtain ⟨r, hr, rfl, rfl⟩ := h
      simp only [ht, decide_true, if_true, and_true]
      exact (C05.C05_mkProduct ρ s ι _ _ r hr hu).1
    · split at h
      · cases h
      · rename_i ht _
        simp only [Option.some.injEq, Prod.mk.injEq] at h
        obtain ⟨rfl, rfl⟩ := h
        simp [ht, eval_one]
  | custom =>
    simp only [Option.some.injEq, Prod.mk.injEq] at h
    obtain ⟨rfl, rfl⟩ := h
    simp
  | point =>
    simp only [Option.some.injEq, Prod.mk.injEq] at h
    obtain ⟨rfl, rfl⟩ := h
    simp [eval_one]
  | unknown => cases h

/-- the code raises exactly for an unknown integral type and for ridge integrals on cells of dimension < 2
    (as far as the factor is concerned; building the product cannot fail for scalar terminals) -/
theorem C01_scale_raises (G : Syms) (k : IKind) (tdim : Nat) (gd : Deg)
    (hG : mkAbs G.detJ ≠ none ∧ (∀ a, mkAbs G.detJ = some a → mkProduct a G.weight ≠ none) ∧ mkProduct G.detFJ G.weight ≠ none ∧
      mkProduct (.op .positiveRestricted [] [G.detFJ]) G.weight ≠ none ∧ mkProduct G.detEJ G.weight ≠ none) :
    factor G k tdim gd = none ↔ (k = .unknown ∨ (k = .ridge ∧ tdim < 2)) := by
  obtain ⟨h1, h2, h3, h4, h5⟩ := hG
  unfold factor
  cases k with
  | cell =>
    simp only [reduceCtorEq, false_and, or_self, iff_false]
    split
    · unfold absTimes bindU
      cases ha : mkAbs G.detJ with
      | none => exact absurd ha h1
      | some a =>
        simp only
        split
        · simp
        · have := h2 a ha
          cases hp : mkProduct a G.weight with
          | none => exact absurd hp this
          | some r => simp
    · simp
  | exteriorFacet =>
    simp only [reduceCtorEq, false_and, or_self, iff_false]
    split
    · cases hp : mkProduct G.detFJ G.weight with
      | none => exact absurd hp h3
      | some r => simp
    · simp
  | interiorFacet =>
    simp only [reduceCtorEq, false_and, or_self, iff_false]
    split
    · cases hp : mkProduct (.op .positiveRestricted [] [G.detFJ]) G.weight with
      | none => exact absurd hp h4
      | some r => simp
    · simp
  | ridge =>
    simp only [reduceCtorEq, true_and, false_or]
    split
    · rename_i ht
      cases hp : mkProduct G.detEJ G.weight with
      | none => exact absurd hp h5
      | some r => simp; omega
    · split
      · rename_i ht; simp [ht]
      · rename_i ht; simp; omega
  | custom => simp
  | point => simp
  | unknown => simp

/-! ## degree bookkeeping -/

/-- **C01_scale_degree**: the degree of the scale factor is added to the estimated degree of the integrand - to a scalar
    degree, to every entry of a tuple degree, entrywise for two tuples of the same length - and stored as it is when
    there was no estimate. -/
theorem C01_scale_degree :
    (∀ d, newDegree none d = d) ∧
    (∀ c d, newDegree (some (.scalar c)) (.scalar d) = .scalar (c + d)) ∧
    (∀ cs d, newDegree (some (.tuple cs)) (.scalar d) = .tuple (cs.map (· + d))) ∧
    (∀ c ds, newDegree (some (.scalar c)) (.tuple ds) = .tuple (ds.map (c + ·))) ∧
    (∀ cs ds, cs.length = ds.length →
      ∃ rs, newDegree (some (.tuple cs)) (.tuple ds) = .tuple rs ∧ rs.length = cs.length ∧ ∀ i : Nat, rs[i]? = (cs[i]?).bind fun (a : Nat) => (ds[i]?).map fun (b : Nat) => a + b) := by
  refine ⟨fun _ => rfl, fun _ _ => rfl, fun _ _ => rfl, fun _ _ => rfl, ?_⟩
  intro cs ds hl
  refine ⟨zipAdd cs ds, rfl, ?_, ?_⟩
  · induction cs generalizing ds with
    | nil => cases ds <;> simp [zipAdd]
    | cons a as ih =>
      cases ds with
      | nil => simp at hl
      | cons b bs => simp [zipAdd, ih bs (by simpa using hl)]
  · intro i
    induction cs generalizing ds i with
    | nil => cases ds <;> simp [zipAdd]
    | cons a as ih =>
      cases ds with
      | nil => simp at hl
      | cons b bs =>
        cases i with
        | zero => simp [zipAdd]
        | succ j => simpa [zipAdd] using ih bs (by simpa using hl) j

/-- tuples of different length are silently truncated by `zip` (does not occur: both degrees come from the same cell) -/
theorem C01_scale_degree_zip_truncates : newDegree (some (.tuple [1, 2, 3])) (.tuple [1, 1]) = .tuple [2, 3] := by decide

/-! ## the whole Integral branch -/

/-- **C01_scaling_value**: `apply_integral_scaling` on an integral either raises or returns an integrand whose value (below
    the CoordinateDerivative nodes it keeps at the top) is the declared factor times the value of the original integrand,
    with the degree of the factor added to the estimated degree. -/
theorem C01_scaling_value (ρ : Env K) (hρ : C05.LitSem ρ) (s : Side) (ι : IdxEnv) (G : Syms) (k : IKind) (tdim : Nat) (gd : Deg)
    (cur : Option Deg) (o r : Expr) (d : Deg) (h : applyScaling G k tdim gd cur o = some (r, d))
    (hG : ∀ f dg, factor G k tdim gd = some (f, dg) → NotCD f ∧ isUnsupported f = false)
    (hu : isUnsupported (cdBody r) = false) :
    eval ρ s ι (cdBody r) [] = declaredFactor ρ s ι G k tdim * eval ρ s ι (cdBody o) [] ∧
    (cdSpine r = cdSpine o ∨ (isZero r = true ∧ cdSpine r = [])) ∧
    ∃ f dg, factor G k tdim gd = some (f, dg) ∧ d = newDegree cur dg := by
  unfold applyScaling at h
  cases hf : factor G k tdim gd with
  | none => rw [hf] at h; cases h
  | some p =>
    obtain ⟨f, dg⟩ := p
    rw [hf] at h
    simp only [Option.map_eq_some_iff, Prod.mk.injEq] at h
    obtain ⟨r', hr, rfl, rfl⟩ := h
    obtain ⟨hn, huf⟩ := hG f dg hf
    have hs := C01_scale ρ s ι f o r' hn hr hu
    have hfv := C01_scale_factor ρ hρ s ι G k tdim gd f dg hf huf
    exact ⟨by rw [hs.1, hfv.1], hs.2, f, dg, rfl, rfl⟩

/-! ## the hypotheses are satisfiable: a triangle mesh, `f * dx` and `f * dS` -/

section NonVacuity
/-- decidable equality of expressions from the executable `beq` -/
local instance c01DecEqExpr : DecidableEq Expr := fun a b =>
  if h : beq a b = true then isTrue (beq_eq a b h)
  else isFalse (fun e => h (e ▸ C21.beq_refl a))

def gT (cls : String) : Expr := .term { cls := cls, key := cls ++ "(mesh)", shape := [] }
def G0 : Syms := { detJ := gT "JacobianDeterminant", weight := gT "QuadratureWeight", detFJ := gT "FacetJacobianDeterminant", detEJ := gT "RidgeJacobianDeterminant" }
def f0 : Expr := .term { cls := "Coefficient", key := "w_0", shape := [] }

example : applyScaling G0 .cell 2 (.scalar 0) (some (.scalar 3)) f0 =
    some (.op .product [] [f0, .op .product [] [gT "QuadratureWeight", .op .abs [] [gT "JacobianDeterminant"]]], .scalar 3) := by decide +kernel
example : applyScaling G0 .interiorFacet 3 (.scalar 0) none f0 =
    some (.op .product [] [f0, .op .product [] [gT "QuadratureWeight", .op .positiveRestricted [] [gT "FacetJacobianDeterminant"]]], .scalar 0) := by decide +kernel
example : applyScaling G0 .exteriorFacet 1 (.scalar 0) (some (.tuple [2, 1])) f0 = some (f0, .tuple [2, 1]) := by decide +kernel
example : applyScaling G0 .unknown 2 (.scalar 0) none f0 = none := by decide +kernel
example : NotCD (.op .product [] [gT "QuadratureWeight", .op .abs [] [gT "JacobianDeterminant"]]) := by intro _ _ _ _ _; simp
end NonVacuity

end UflVerif.C01
