/-
C01  Form preprocessing preserves the meaning of every integral.

  "For every form, the integrals produced by compute_form_data (with any combination of its lowering,
   pullback, scaling, cancellation and restriction options) integrate the same quantity as the
   original integrals: at every point of every admissible cell or facet, the preprocessed integrand
   evaluated with reference-frame data equals the original integrand evaluated with physical data
   times the measure's scaling factor.  Preprocessing either does this or raises an error; it never
   silently changes the integrand."

C01 is the PIPELINE property.  The passes are other properties (C06 algebra lowering, C23 complex
nodes, C02-C04 derivatives, C15 grouping, C08 pullbacks, C07 geometry lowering, C10 component tensors,
C09 Jacobian cancellation, C17 restrictions, C21 replace, C14 arity); what is proved here:

  (a) about the ORDER and guarding of the passes, for the sequence of calls *regenerated from the
      source of compute_form_data on every run* (`Gen/Pipeline.lean`), and for ALL valuations of the
      guard atoms (all option combinations x "the integral data has an interior facet"):
      `C01_rows_known`, `C01_threaded`, `C01_staged`, `C01_order`, `C01_scaling_once`,
      `C01_raises_iff`, and list-level readings of the order automaton;
  (b) `apply_integral_scaling` (the only value-changing pass): `C01_scale`, `C01_scale_factor`,
      `C01_scale_degree` on the hand model `Model/Scaling.lean`;
  (c) the composition: `C01_pipeline_preserves` - for ANY interpretation of the passes as partial
      functions on ANY integrand type with ANY meaning map: if every pass the generated pipeline runs
      preserves meaning (scaling: multiplies by the scale factor), the whole pipeline maps meaning m
      to m, resp. m * scale iff scaling was requested; a raising pass makes the whole run raise.

Full statement and its status.  The full property is the conclusion of `C01_pipeline_preserves`
without its hypothesis `hpres`.  `hpres` is exactly the list of the pass theorems; `C01_pipeline_preserves`
is therefore the `_partial` form of the property, with the side condition "every pass that runs preserves
meaning".  On the pinned tree the hypothesis was FALSE for one pass: `cancel_jacobian_products` merged nested
exponents `(b**p)**q -> b**(p*q)` for non-integer q, so `(f**2)**0.5 * (1/f)` was rewritten to `1` although
its value is sign(f) - found by the end-to-end oracle of this property, repaired in /repo by commit fff45c2
(`C01_old_cancel_counterexample`, `C01_cancel_witness_kept` in Props/C01Cancel.lean).
`C01_cancel_only_if_requested` shows that the hypothesis about `cancelJ` is needed only when
do_cancel_jacobian_products and geometry lowering are both on.
-/
import UflVerif.Gen.Pipeline
import UflVerif.Model.Pipeline

namespace UflVerif.C01
open UflVerif.Pipeline UflVerif.Gen.Pipeline

/-! ## the generated pipeline -/

/-- the passes `compute_form_data` runs under the valuation `v` of the guard atoms (positions in `Gen.Pipeline.atoms`) -/
def pipeline (v : Nat → Bool) : Option (List PassId) := pipelineOf rows v

def ix : AtomIdx := atomIdx options.length (compile rows)

/-! ## congruence: a run only looks at the atoms of the guards it evaluates -/

theorem eval_congr (v v' : Nat → Bool) (b : BExp) (h : ∀ a ∈ b.atoms, v a = v' a) : b.eval v = b.eval v' := by
  induction b with
  | atom i => exact h i (by simp [BExp.atoms])
  | lit b => rfl
  | not a ih => simp only [BExp.eval]; rw [ih (fun x hx => h x (by simpa [BExp.atoms] using hx))]
  | and a b iha ihb =>
    simp only [BExp.eval]
    rw [iha (fun x hx => h x (by simp [BExp.atoms, hx])), ihb (fun x hx => h x (by simp [BExp.atoms, hx]))]
  | or a b iha ihb =>
    simp only [BExp.eval]
    rw [iha (fun x hx => h x (by simp [BExp.atoms, hx])), ihb (fun x hx => h x (by simp [BExp.atoms, hx]))]

theorem guards_congr (v v' : Nat → Bool) (gs : List BExp) (h : ∀ a ∈ gs.flatMap BExp.atoms, v a = v' a) :
    gs.all (·.eval v) = gs.all (·.eval v') := by
  induction gs with
  | nil => rfl
  | cons g gs ih =>
    simp only [List.all_cons]
    rw [eval_congr v v' g (fun a ha => h a (by simp [ha])), ih (fun a ha => h a (by
      simp only [List.flatMap_cons, List.mem_append]; exact Or.inr ha))]

theorem stepOne_congr (v v' : Nat → Bool) (st : CStep) (c : Carry) (h : ∀ a ∈ st.atoms, v a = v' a) :
    stepOne v st c = stepOne v' st c := by
  unfold stepOne
  rw [guards_congr v v' st.guards h]

theorem firstUndecided_none (d as : List Nat) (h : firstUndecided d as = none) : ∀ a ∈ as, a ∈ d := by
  intro a ha
  unfold firstUndecided at h
  have := List.find?_eq_none.mp h a ha
  simpa using this

theorem firstUndecided_some (d as : List Nat) (a : Nat) (h : firstUndecided d as = some a) : a ∈ as := by
  unfold firstUndecided at h
  exact List.mem_of_find?_eq_some h

theorem firstUndecided_notin (d as : List Nat) (a : Nat) (h : firstUndecided d as = some a) : a ∉ d := by
  unfold firstUndecided at h
  have := List.find?_some h
  simpa using this

theorem testBit_set (m a x : Nat) : (m ||| 2 ^ a).testBit x = (m.testBit x || decide (a = x)) := by
  rw [Nat.testBit_or, Nat.testBit_two_pow]

/-- soundness of the prefix-sharing exploration: if it answers `true`, the leaf predicate holds for the run under every
    valuation that agrees with the mask `m` on the decided atoms `d` (all bits of `m` are decided atoms) -/
theorem explore_sound (leafV : (Nat → Bool) → Carry → Bool) (need : List Nat)
    (hleaf : ∀ v v' c, (∀ a ∈ need, v a = v' a) → leafV v c = leafV v' c) :
    ∀ (fuel : Nat) (steps : List CStep) (d : List Nat) (m : Nat) (c : Carry),
      explore (fun m c => leafV (valOfMask m) c) need fuel steps d m c = true →
      (∀ i, m.testBit i = true → i ∈ d) →
      ∀ v' : Nat → Bool, (∀ a ∈ d, v' a = m.testBit a) → leafV v' (runCarry v' steps c) = true := by
  intro fuel
  induction fuel with
  | zero => intro steps d m c h; simp [explore] at h
  | succ fuel ih =>
    intro steps d m c h hm v' hag
    -- the two ways of deciding one more atom
    have branch : ∀ (a : Nat), a ∉ d → ∀ (st : List CStep),
        explore (fun m c => leafV (valOfMask m) c) need fuel st (a :: d) m c = true →
        explore (fun m c => leafV (valOfMask m) c) need fuel st (a :: d) (m ||| 2 ^ a) c = true →
        leafV v' (runCarry v' st c) = true := by
      intro a ha st h1 h2
      have hma : m.testBit a = false := by
        cases hb : m.testBit a with
        | false => rfl
        | true => exact absurd (hm a hb) ha
      cases hva : v' a with
      | false =>
        refine ih st (a :: d) m c h1 (fun i hi => List.mem_cons_of_mem _ (hm i hi)) v' ?_
        intro x hx
        cases hx with
        | head => rw [hva, hma]
        | tail _ hx' => exact hag x hx'
      | true =>
        refine ih st (a :: d) (m ||| 2 ^ a) c h2 ?_ v' ?_
        · intro i hi
          rw [testBit_set] at hi
          simp only [Bool.or_eq_true, decide_eq_true_eq] at hi
          cases hi with
          | inl h' => exact List.mem_cons_of_mem _ (hm i h')
          | inr h' => subst h'; exact List.mem_cons_self
        · intro x hx
          rw [testBit_set]
          cases hx with
          | head => simp [hva]
          | tail _ hx' =>
            have hne : a ≠ x := fun e => ha (e ▸ hx')
            simp [hag x hx', hne]
    cases steps with
    | nil =>
      simp only [explore] at h
      cases hu : firstUndecided d need with
      | none =>
        rw [hu] at h
        simp only at h
        have hin := firstUndecided_none d need hu
        simp only [runCarry]
        rw [hleaf v' (valOfMask m) c (fun a ha => hag a (hin a ha))]
        exact h
      | some a =>
        rw [hu] at h
        simp only [Bool.and_eq_true] at h
        exact branch a (firstUndecided_notin d need a hu) [] h.1 h.2
    | cons st rest =>
      simp only [explore] at h
      cases hu : firstUndecided d st.atoms with
      | none =>
        rw [hu] at h
        simp only at h
        have hin := firstUndecided_none d st.atoms hu
        have hst : stepOne v' st c = stepOne (valOfMask m) st c := stepOne_congr v' (valOfMask m) st c (fun a ha => hag a (hin a ha))
        simp only [runCarry]
        rw [hst]
        exact ih rest d m (stepOne (valOfMask m) st c) h hm v' hag
      | some a =>
        rw [hu] at h
        simp only [Bool.and_eq_true] at h
        exact branch a (firstUndecided_notin d st.atoms a hu) (st :: rest) h.1 h.2

/-! ## the carried stage and order state are those of the pass list -/

theorem runStages_snoc (s : Stage) (ps : List PassId) (p : PassId) :
    runStages s (ps ++ [p]) = (runStages s ps).bind (step · p) := by
  induction ps generalizing s with
  | nil => simp only [List.nil_append, runStages, Option.bind]; cases step s p <;> rfl
  | cons q qs ih =>
    simp only [List.cons_append, runStages]
    cases step s q with
    | none => rfl
    | some s' => exact ih s'

/-- the invariant of a run -/
def WfCarry (c : Carry) : Prop :=
  c.stage = runStages initialStage c.acc.reverse ∧ c.ord = ordOf c.acc.reverse ∧ c.seen = seenOf c.acc.reverse

theorem push_wf (c : Carry) (p : PassId) (h : WfCarry c) : WfCarry (c.push p) := by
  obtain ⟨h1, h2, h3⟩ := h
  refine ⟨?_, ?_, ?_⟩
  · simp only [Carry.push, List.reverse_cons]
    rw [runStages_snoc, h1]
  · simp only [Carry.push, List.reverse_cons, ordOf, List.foldl_append, List.foldl_cons, List.foldl_nil]
    rw [h2]; rfl
  · simp only [Carry.push, List.reverse_cons, seenOf, List.foldl_append, List.foldl_cons, List.foldl_nil]
    rw [h3]; rfl

theorem stepOne_wf (v : Nat → Bool) (st : CStep) (c : Carry) (h : WfCarry c) : WfCarry (stepOne v st c) := by
  unfold stepOne
  split
  · exact h
  · split
    · exact h
    · split
      · exact h
      · exact h
      · exact push_wf c _ h
      · split <;> exact push_wf c _ h
      · split <;> exact push_wf c _ h

theorem runCarry_wf (v : Nat → Bool) (steps : List CStep) (c : Carry) (h : WfCarry c) : WfCarry (runCarry v steps c) := by
  induction steps generalizing c with
  | nil => exact h
  | cons st rest ih => exact ih _ (stepOne_wf v st c h)

theorem init_wf : WfCarry {} := ⟨rfl, rfl, rfl⟩

/-! ## the one kernel evaluation: every valuation of the guard atoms -/

theorem carryOK_congr (v v' : Nat → Bool) (c : Carry) (h : ∀ a ∈ ix.all, v a = v' a) : carryOK ix v c = carryOK ix v' c := by
  have h1 := h ix.complex (by simp [AtomIdx.all])
  have h2 := h ix.degrees (by simp [AtomIdx.all])
  have h3 := h ix.pullbacks (by simp [AtomIdx.all])
  have h4 := h ix.scaling (by simp [AtomIdx.all])
  have h5 := h ix.cancel (by simp [AtomIdx.all])
  have h6 := h ix.lowering (by simp [AtomIdx.all])
  have h7 := h ix.rct (by simp [AtomIdx.all])
  have h8 := h ix.replace (by simp [AtomIdx.all])
  have h9 := h ix.noSplit (by simp [AtomIdx.all])
  have h10 := h ix.restrictions (by simp [AtomIdx.all])
  have h11 := h ix.noInterior (by simp [AtomIdx.all])
  have h12 := h ix.defaultRestr (by simp [AtomIdx.all])
  simp only [carryOK, ordOK, finalOK, requestedOK, expectedSeen, forbidden, h1, h2, h3, h4, h5, h6, h7, h8, h9, h10, h11, h12]

set_option maxRecDepth 100000 in
/-- the ONE kernel evaluation of the regenerated data (the classification of the source strings is shared by its four parts):
    the pipeline under all valuations of the atoms that guard a pass; every call classified; the dataflow; the atom names -/
theorem kernel_facts :
    explore (fun m c => carryOK ix (valOfMask m) c) ix.all 200 (compile rows) [] 0 {} = true ∧
    rows.all (fun r => classifyStatic rows r != .unknown) = true ∧
    rows.all (threaded formParam) = true ∧
    atomNamesOK atoms ix = true ∧
    ix.all.Nodup := by decide +kernel

theorem explored : explore (fun m c => carryOK ix (valOfMask m) c) ix.all 200 (compile rows) [] 0 {} = true := kernel_facts.1

/-- ... which covers every valuation -/
theorem all_valuations (v : Nat → Bool) : carryOK ix v (runCarry v (compile rows) {}) = true :=
  explore_sound (carryOK ix) ix.all carryOK_congr 200 (compile rows) [] 0 {} explored (by simp) v (by simp)

/-! ## (a) order and guarding of the passes -/

/-- every recorded call is classified: a pass, an analysis helper, an inlined function / assignment / reconstruct, or a
    raise; no statement form the translator did not understand.  (A new call in compute_form_data or FormData.__init__
    makes this fail until the model says what it is.) -/
theorem C01_rows_known : ∀ r ∈ rows, classifyStatic rows r ≠ .unknown := by
  intro r hr
  have h := List.all_eq_true.mp kernel_facts.2.1 r hr
  intro he
  rw [he] at h
  exact absurd h (by decide)

/-- the rewritten form / integrand is the one passed on: `form = pass(form, ..)` for every form-level pass, the inlined
    functions take and return the form, degree estimation only rewrites metadata, FormData's passes rewrite
    `integral.integrand()` and store the result with `integral.reconstruct(integrand=integrand)` -/
theorem C01_threaded : rows.all (threaded formParam) = true := kernel_facts.2.2.1

/-- the atoms the promises are about sit at the positions the model assumes (parameter names read from the regenerated
    `atoms`), and they are distinct -/
theorem C01_atoms_found : atomNamesOK atoms ix = true ∧ ix.all.Nodup := kernel_facts.2.2.2

/-! ### the set of passes as a bit mask -/

theorem foldl_testBit (ps : List PassId) (m c : Nat) :
    (ps.foldl (fun m p => m ||| 2 ^ p.code) m).testBit c = (m.testBit c || ps.any (fun p => p.code == c)) := by
  induction ps generalizing m with
  | nil => simp
  | cons p ps ih =>
    simp only [List.foldl_cons, List.any_cons]
    rw [ih, testBit_set, Bool.or_assoc]
    by_cases h : p.code = c
    · simp [h]
    · have hb : (p.code == c) = false := by simpa using h
      simp [h, hb]

/-- a pass is in the mask iff it is in the list -/
theorem seenOf_testBit (ps : List PassId) (c : Nat) : (seenOf ps).testBit c = ps.any (fun p => p.code == c) := by
  unfold seenOf
  rw [foldl_testBit]
  simp

theorem seenOf_mem (ps : List PassId) (p : PassId) (h : p ∈ ps) : (seenOf ps).testBit p.code = true := by
  rw [seenOf_testBit]
  exact List.any_eq_true.mpr ⟨p, h, by simp⟩

theorem code_unknown (p : PassId) : (p.code == 20) = isUnknownPass p := by
  cases p <;> simp [PassId.code, isUnknownPass]
  all_goals (rename_i b; cases b <;> simp [PassId.code])

theorem testBit_bitIf (b : Bool) (p : PassId) (c : Nat) : (bitIf b p).testBit c = (b && decide (p.code = c)) := by
  unfold bitIf
  cases b <;> simp [Nat.testBit_two_pow]

theorem requestedOK_parts (ix : AtomIdx) (v : Nat → Bool) (seen : Nat) (h : requestedOK ix v seen = true) :
    seen.testBit 20 = false ∧ seen.testBit 11 = (v ix.lowering && v ix.cancel) := by
  unfold requestedOK at h
  have he : seen = expectedSeen ix v := by simpa using h
  subst he
  constructor <;> simp [expectedSeen, Nat.testBit_or, testBit_bitIf, PassId.code]

/-- what `all_valuations` says about a run that does not raise -/
theorem run_facts (v : Nat → Bool) (ps : List PassId) (h : pipeline v = some ps) :
    ordOK ix v (ordOf ps) = true ∧ requestedOK ix v (seenOf ps) = true ∧
    ∃ s, runStages initialStage ps = some s ∧ finalOK ix v (seenOf ps) s = true := by
  have hall := all_valuations v
  have hwf := runCarry_wf v (compile rows) {} init_wf
  unfold pipeline pipelineOf Carry.result at h
  unfold carryOK at hall
  cases hr : (runCarry v (compile rows) {}).raised with
  | true => rw [hr] at h; simp at h
  | false =>
    rw [hr] at h hall
    simp only [Bool.false_eq_true, if_false, Option.some.injEq] at h
    simp only [Bool.false_eq_true, if_false, Bool.and_eq_true] at hall
    obtain ⟨⟨⟨_, hord⟩, hreq⟩, hst⟩ := hall
    subst h
    rw [← hwf.2.1, ← hwf.2.2, ← hwf.1]
    refine ⟨hord, hreq, ?_⟩
    cases hs : (runCarry v (compile rows) {}).stage with
    | none => rw [hs] at hst; simp at hst
    | some s => rw [hs] at hst; exact ⟨s, rfl, hst⟩

/-- the only way an option combination makes compute_form_data raise by itself:
    coefficients_to_split given without do_replace_functions -/
theorem C01_raises_iff (v : Nat → Bool) : pipeline v = none ↔ (v ix.noSplit = false ∧ v ix.replace = false) := by
  have h := all_valuations v
  unfold pipeline pipelineOf Carry.result
  unfold carryOK at h
  cases hr : (runCarry v (compile rows) {}).raised with
  | true =>
    rw [hr] at h
    simp only [if_true, Bool.and_eq_true, Bool.not_eq_true'] at h
    simp [h.1, h.2]
  | false =>
    rw [hr] at h
    simp only [Bool.false_eq_true, if_false, Bool.and_eq_true, Bool.or_eq_true] at h
    simp only [Bool.false_eq_true, if_false, reduceCtorEq, false_iff, not_and, Bool.not_eq_false]
    intro h1
    rcases h.1.1.1 with h2 | h2
    · rw [h1] at h2; cases h2
    · exact h2

/-- **C01_staged**: for every valuation of the guard atoms (every option combination, with or without interior-facet
    integral data) under which compute_form_data does not raise by itself: every pass the generated pipeline runs is
    known, finds its stage precondition established by the passes before it (`runStages` succeeds: algebra lowering before
    derivatives, no pending derivative when pullbacks are applied, derivatives expanded before cancel_jacobian_products,
    restrictions propagated before coefficient splitting), and the final stage is the one
    the options promise (`finalOK`): no compound operator, no unexpanded derivative, no coordinate derivative; no complex
    node in real mode; no physical form argument or physical gradient after pullbacks; no high-level geometry and no
    Jacobian symbol after geometry lowering (also when Jacobians were preserved for the cancellation); restrictions on
    terminals whenever a restriction pass ran.  (remove_component_tensors has no stage effect in the lattice: it can leave an
    indexed component tensor whose body re-binds a substituted index, see C10.) -/
theorem C01_staged (v : Nat → Bool) (ps : List PassId) (h : pipeline v = some ps) :
    ps.any isUnknownPass = false ∧ ∃ s, runStages initialStage ps = some s ∧ finalOK ix v (seenOf ps) s = true := by
  obtain ⟨_, hreq, hst⟩ := run_facts v ps h
  refine ⟨?_, hst⟩
  have hu := (requestedOK_parts ix v _ hreq).1
  rw [seenOf_testBit] at hu
  have hf : (fun p : PassId => p.code == 20) = isUnknownPass := funext code_unknown
  rw [hf] at hu
  exact hu

/-- **C01_order**: the explicit order constraints (`ordStep`), for every valuation: the comparison check comes first;
    apply_derivatives only after algebra lowering; after every pass that can create derivative nodes (algebra lowering,
    pullbacks, geometry lowering) apply_derivatives runs again before the form is handed on; degree estimation precedes
    pullbacks, scaling and geometry lowering; cancel_jacobian_products runs directly on the output of
    remove_component_tensors (nothing that builds component tensors in between) with derivatives expanded, and the
    Jacobians preserved for it are lowered afterwards; every form-level pass precedes build_integral_data and every
    per-integral pass of FormData follows it; no pass that creates terminals runs after restrictions were propagated;
    integrands are scaled exactly once if scaling is requested and never otherwise. -/
theorem C01_order (v : Nat → Bool) (ps : List PassId) (h : pipeline v = some ps) : ordOK ix v (ordOf ps) = true :=
  (run_facts v ps h).1

/-- **each optional pass runs if and only if the options ask for it** (`requestedOK` on the set of passes `seenOf ps`),
    for every valuation: the comparison check iff complex mode, remove_complex_nodes iff real mode, degree estimation iff
    do_estimate_degrees, pullbacks / scaling / geometry lowering iff requested, cancel_jacobian_products (with Jacobians
    preserved before it and lowered after it) iff requested together with geometry lowering, remove_component_tensors iff
    requested or needed by the cancellation, replace iff do_replace_functions, restriction propagation iff
    do_apply_restrictions and the integral data has an interior facet (with default restrictions iff
    do_apply_default_restrictions); algebra lowering, derivatives, grouping, coordinate derivatives, build_integral_data
    and the arity check always run -/
theorem C01_passes_iff_requested (v : Nat → Bool) (ps : List PassId) (h : pipeline v = some ps) :
    requestedOK ix v (seenOf ps) = true :=
  (run_facts v ps h).2.1

/-- cancel_jacobian_products - the one pass whose preservation theorem is false (`C01_cancel_counterexample`) - runs only
    when do_cancel_jacobian_products and do_apply_geometry_lowering are both set: for every other option combination
    `C01_pipeline_preserves` needs no hypothesis about it -/
theorem C01_cancel_only_if_requested (v : Nat → Bool) (ps : List PassId) (h : pipeline v = some ps) (hc : PassId.cancelJ ∈ ps) :
    v ix.cancel = true ∧ v ix.lowering = true := by
  have hr := C01_passes_iff_requested v ps h
  have h14 := (requestedOK_parts ix v _ hr).2
  have hm := seenOf_mem ps _ hc
  simp only [PassId.code] at hm
  rw [hm] at h14
  have := h14.symm
  simp only [Bool.and_eq_true] at this
  exact ⟨this.2, this.1⟩

/-! ### reading the automaton: statements about the list of passes -/

theorem foldl_scaled (o : Ord) (ps : List PassId) :
    (ps.foldl ordStep o).scaled = (o.scaled || decide (ps.count .scaling > 0)) ∧
    (ps.foldl ordStep o).scaledTwice = (o.scaledTwice || (o.scaled && decide (ps.count .scaling > 0)) || decide (ps.count .scaling > 1)) := by
  induction ps generalizing o with
  | nil => simp
  | cons p ps ih =>
    simp only [List.foldl_cons]
    obtain ⟨h1, h2⟩ := ih (ordStep o p)
    rw [h1, h2]
    by_cases hp : p = .scaling
    · subst hp
      simp only [ordStep, List.count_cons_self]
      constructor
      · simp
      · generalize List.count PassId.scaling ps = c
        have h10 : decide (c > 1) = true → decide (c > 0) = true := by simp; omega
        cases o.scaled <;> cases o.scaledTwice <;> cases h0 : decide (c > 0) <;> cases h1' : decide (c > 1) <;> simp_all
    · have hb : (p == PassId.scaling) = false := by simpa using hp
      have hs : (ordStep o p).scaled = o.scaled ∧ (ordStep o p).scaledTwice = o.scaledTwice := by
        cases p <;> simp [ordStep] at hp ⊢
      rw [hs.1, hs.2, List.count_cons, hb]
      simp

/-- **scaling is applied exactly once, and only when requested** - for every option combination -/
theorem C01_scaling_once (v : Nat → Bool) (ps : List PassId) (h : pipeline v = some ps) :
    ps.count .scaling = if v ix.scaling then 1 else 0 := by
  have ho := C01_order v ps h
  unfold ordOK at ho
  simp only [Bool.and_eq_true, Bool.not_eq_true', beq_iff_eq] at ho
  obtain ⟨⟨_, htw⟩, hsc⟩ := ho
  have hf := foldl_scaled {} ps
  unfold ordOf at htw hsc
  rw [hf.2] at htw
  rw [hf.1] at hsc
  simp only [Bool.false_or, Bool.false_and, Bool.or_eq_false_iff, decide_eq_false_iff_not] at htw
  cases hv : v ix.scaling with
  | false =>
    rw [hv] at hsc
    simp only [Bool.false_or, decide_eq_false_iff_not] at hsc
    simp; omega
  | true =>
    rw [hv] at hsc
    simp only [Bool.false_or, decide_eq_true_eq] at hsc
    simp; omega

theorem ordStep_bad (o : Ord) (p : PassId) (h : o.bad = true) : (ordStep o p).bad = true := by
  cases p <;> simp [ordStep, h]

theorem foldl_bad (o : Ord) (ps : List PassId) (h : o.bad = true) : (ps.foldl ordStep o).bad = true := by
  induction ps generalizing o with
  | nil => exact h
  | cons p ps ih => exact ih _ (ordStep_bad o p h)

/-- reading of `needDerivs`: if the automaton ends with no derivative pending, every pass that can create derivative
    nodes is followed by apply_derivatives -/
def createsDerivs : PassId → Bool
  | .algebraLowering | .pullbacks | .geomLower _ => true
  | _ => false

def isApplyDerivatives : PassId → Bool
  | .applyDerivatives => true
  | _ => false

theorem foldl_needDerivs (o : Ord) (ps : List PassId) (h : (ps.foldl ordStep o).needDerivs = false) :
    followedBy createsDerivs isApplyDerivatives ps = true ∧ (o.needDerivs = true → ps.any isApplyDerivatives = true) := by
  induction ps generalizing o with
  | nil => exact ⟨rfl, fun ho => by simp at h; rw [h] at ho; cases ho⟩
  | cons p ps ih =>
    simp only [List.foldl_cons] at h
    obtain ⟨h1, h2⟩ := ih (ordStep o p) h
    constructor
    · simp only [followedBy, Bool.and_eq_true, Bool.or_eq_true, Bool.not_eq_true']
      refine ⟨?_, h1⟩
      cases hc : createsDerivs p with
      | false => exact Or.inl rfl
      | true =>
        refine Or.inr (h2 ?_)
        cases p <;> simp [createsDerivs] at hc <;> simp [ordStep]
    · intro ho
      simp only [List.any_cons, Bool.or_eq_true]
      cases hp : isApplyDerivatives p with
      | true => exact Or.inl rfl
      | false =>
        refine Or.inr (h2 ?_)
        cases p <;> simp [isApplyDerivatives] at hp <;> simp [ordStep, ho]

/-- **derivatives are re-applied after everything that introduces new derivative nodes** (algebra lowering, pullbacks,
    geometry lowering), for every option combination -/
theorem C01_derivatives_reapplied (v : Nat → Bool) (ps : List PassId) (h : pipeline v = some ps) :
    followedBy createsDerivs isApplyDerivatives ps = true := by
  have ho := C01_order v ps h
  unfold ordOK at ho
  simp only [Bool.and_eq_true, Bool.not_eq_true'] at ho
  exact (foldl_needDerivs {} ps ho.1.1.1.2).1

/-- reading of `restricted`: if the automaton never went bad, no terminal-creating pass runs after a restriction pass -/
theorem foldl_restricted (o : Ord) (ps : List PassId) (h : (ps.foldl ordStep o).bad = false) :
    noneAfter isRestrictionPass createsTerminals ps = true ∧ (o.restricted = true → ps.any createsTerminals = false) := by
  induction ps generalizing o with
  | nil => exact ⟨rfl, fun _ => rfl⟩
  | cons p ps ih =>
    simp only [List.foldl_cons] at h
    obtain ⟨h1, h2⟩ := ih (ordStep o p) h
    have hb : (ordStep o p).bad = false := by
      cases hb : (ordStep o p).bad with
      | false => rfl
      | true => rw [foldl_bad _ ps hb] at h; cases h
    constructor
    · simp only [noneAfter, Bool.and_eq_true, Bool.or_eq_true, Bool.not_eq_true']
      refine ⟨?_, h1⟩
      cases hc : isRestrictionPass p with
      | false => exact Or.inl rfl
      | true =>
        refine Or.inr (h2 ?_)
        cases p <;> simp [isRestrictionPass] at hc <;> simp [ordStep]
    · intro ho
      simp only [List.any_cons, Bool.or_eq_false_iff]
      constructor
      · cases p <;> simp [createsTerminals] <;> simp [ordStep, ho] at hb
      · refine h2 ?_
        cases p <;> simp [ordStep, ho]

/-- **restrictions are propagated after everything that creates terminals** (pullbacks, scaling, geometry lowering,
    derivatives, algebra lowering), for every option combination -/
theorem C01_restrictions_last (v : Nat → Bool) (ps : List PassId) (h : pipeline v = some ps) :
    noneAfter isRestrictionPass createsTerminals ps = true := by
  have ho := C01_order v ps h
  unfold ordOK at ho
  simp only [Bool.and_eq_true, Bool.not_eq_true'] at ho
  exact (foldl_restricted {} ps ho.1.1.1.1).1

/-! ## (c) composition: the pipeline preserves whatever every pass preserves -/

section Composition
variable {I M E : Type}

/-- run a list of passes, each a partial function on integrands (`Except`: a pass may raise) -/
def runPasses (interp : PassId → I → Except E I) : List PassId → I → Except E I
  | [], i => .ok i
  | p :: ps, i => match interp p i with
    | .ok i' => runPasses interp ps i'
    | .error e => .error e

/-- `n` applications of "multiply by the scale factor" -/
def scaleTimes (mul : M → M → M) (scale : M) : Nat → M → M
  | 0, m => m
  | n + 1, m => scaleTimes mul scale n (mul m scale)

theorem runPasses_meaning (interp : PassId → I → Except E I) (meaning : I → M) (mul : M → M → M) (scale : M)
    (ps : List PassId)
    (hpres : ∀ p ∈ ps, p ≠ .scaling → ∀ i i', interp p i = .ok i' → meaning i' = meaning i)
    (hscale : ∀ i i', interp .scaling i = .ok i' → meaning i' = mul (meaning i) scale) :
    ∀ i i', runPasses interp ps i = .ok i' → meaning i' = scaleTimes mul scale (ps.count .scaling) (meaning i) := by
  induction ps with
  | nil => intro i i' h; simp only [runPasses, Except.ok.injEq] at h; subst h; rfl
  | cons p ps ih =>
    intro i i' h
    simp only [runPasses] at h
    cases hp : interp p i with
    | error e => rw [hp] at h; cases h
    | ok j =>
      rw [hp] at h
      have ih' := ih (fun q hq => hpres q (List.mem_cons_of_mem _ hq)) j i' h
      rw [ih']
      by_cases hs : p = .scaling
      · subst hs
        rw [hscale i j hp]
        simp [scaleTimes]
      · rw [hpres p (List.mem_cons_self) hs i j hp]
        have : (p == PassId.scaling) = false := by simpa using hs
        simp [List.count_cons, this]

/-- **C01_pipeline_preserves** (the composition theorem; `_partial` form of the property, side condition `hpres`).
    For ANY integrand type `I`, ANY meaning map into ANY `M` with ANY binary operation `mul` and scale factor `scale`,
    ANY interpretation of the pass ids as partial functions, and EVERY valuation `v` of the guard atoms:
    if every pass that the generated pipeline runs under `v` preserves the meaning of whatever it accepts, and scaling
    multiplies it by the scale factor, then a run that does not raise maps meaning m to m * scale if scaling was
    requested and to m otherwise.  (A pass that raises makes the run raise: `runPasses` returns `.error`, never a changed
    integrand.)  Proved by induction over the generated list, so it is re-checked whenever compute_form_data changes. -/
theorem C01_pipeline_preserves (interp : PassId → I → Except E I) (meaning : I → M) (mul : M → M → M) (scale : M)
    (v : Nat → Bool) (ps : List PassId) (hp : pipeline v = some ps)
    (hpres : ∀ p ∈ ps, p ≠ .scaling → ∀ i i', interp p i = .ok i' → meaning i' = meaning i)
    (hscale : ∀ i i', interp .scaling i = .ok i' → meaning i' = mul (meaning i) scale)
    (i i' : I) (hrun : runPasses interp ps i = .ok i') :
    meaning i' = if v ix.scaling then mul (meaning i) scale else meaning i := by
  rw [runPasses_meaning interp meaning mul scale ps hpres hscale i i' hrun, C01_scaling_once v ps hp]
  cases v ix.scaling <;> simp [scaleTimes]

end Composition

end UflVerif.C01
