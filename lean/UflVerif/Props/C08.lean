/-
C08  Function pullbacks implement each element's declared push-forward — index.

Gen/Pullbacks_<cell><gdim>.lean are regenerated on every run by harness/translate/pullbacks.py: the tree
returned by the real `apply_function_pullbacks(f)` for a coefficient on every element of the instance family
(identity, covariant / contravariant / L2 / double covariant / double contravariant / co-contravariant Piola,
row-wise over a leading axis, mixed, nested mixed, symmetric and mixed-of-symmetric compositions) on interval,
triangle and tetrahedron meshes incl. immersed ones (gdim > tdim), with the element tree read from the live
objects.  `Pullback.push` (Model/Pullback.lean) is the push-forward each element *declares*, written on
values; `C08_pushforward_<geom>` proves, for every instance, every component, every reference value, Jacobian,
inverse and determinant value in any field, that the rewritten expression equals it; `C08_shapes_<geom>` that
it has the function space's value shape = `physical_value_shape`, no free indices.
-/
import UflVerif.Props.C08.Interval1
import UflVerif.Props.C08.Interval2
import UflVerif.Props.C08.Interval3
import UflVerif.Props.C08.Triangle2
import UflVerif.Props.C08.Triangle3
import UflVerif.Props.C08.Tetrahedron3
