/-
C05  Operators build expressions with the mathematically intended value.

The constructors are modelled in Model/Construct.lean (tied to the live classes by the
correspondence in harness/props/c05.py).  For each one: whenever it returns an expression, that
expression has the shape and free indices of the requested operation and its value (denotational
`eval`, any field K of characteristic 0 — literal folding is exact rational arithmetic — any
valuation, any index environment, any component) is the operation applied to the operand values.
`unsupported` marks the branches the model does not cover (see Construct.lean); they are excluded.
-/
import Mathlib.Data.Rat.Cast.CharZero
import Mathlib.Tactic.Ring
import UflVerif.Sem.Congr
import UflVerif.Sem.Sum
import UflVerif.Sem.FI

namespace UflVerif.C05
open UflVerif Expr

variable {K : Type} [Field K] [CharZero K]

/-! ## literals -/

theorem isZero_eq (a : Expr) (h : isZero a = true) : ∃ sh f, a = .zero sh f := by
  cases a <;> simp [isZero] at h
  exact ⟨_, _, rfl⟩

theorem eval_zero (ρ : Env K) (s : Side) (ι : IdxEnv) (a : Expr) (h : isZero a = true) (c : List Nat) :
    eval ρ s ι a c = 0 := by
  obtain ⟨sh, f, rfl⟩ := isZero_eq a h
  simp [eval]

theorem litVal_eval (ρ : Env K) (s : Side) (ι : IdxEnv) (a : Expr) (i : Bool) (q : ℚ) (h : litVal a = some (i, q))
    (c : List Nat) : eval ρ s ι a c = (q : K) := by
  cases a <;> simp only [litVal, Option.some.injEq, Prod.mk.injEq, reduceCtorEq] at h
  · obtain ⟨_, rfl⟩ := h
    simp [eval]
  · obtain ⟨_, rfl⟩ := h
    simp [eval]

theorem litVal_int (a : Expr) (q : ℚ) (h : litVal a = some (true, q)) : q.den = 1 := by
  cases a <;> simp only [litVal, Option.some.injEq, Prod.mk.injEq, reduceCtorEq, Bool.false_eq_true, false_and] at h
  obtain ⟨_, rfl⟩ := h
  simp

theorem mkLit_eval (ρ : Env K) (s : Side) (ι : IdxEnv) (i : Bool) (q : ℚ) (hi : i = true → q.den = 1) (c : List Nat) :
    eval ρ s ι (mkLit i q) c = (q : K) := by
  unfold mkLit
  split
  · rename_i h; subst h; simp [eval]
  · split
    · rename_i _ h
      simp only [eval]
      conv_rhs => rw [Rat.cast_def, hi h]
      simp
    · simp only [eval]
      rw [Rat.cast_def]

theorem mkLit_shape (i : Bool) (q : ℚ) : shape (mkLit i q) = [] ∧ fi (mkLit i q) = [] := by
  unfold mkLit; split
  · simp [shape, fi]
  · split <;> simp [shape, fi]

theorem lit_shape (a : Expr) (i : Bool) (q : ℚ) (h : litVal a = some (i, q)) : shape a = [] ∧ fi a = [] := by
  cases a <;> simp [litVal] at h <;> simp [shape, fi]


/-! ## Sum -/

theorem sort2_perm (a b : Expr) : sort2 a b = (a, b) ∨ sort2 a b = (b, a) := by
  unfold sort2; split <;> simp

/-- `Sum(a, b)`: value a + b componentwise, shape and free indices of the operands;
    zero folding, literal folding and operand sorting included -/
theorem C05_mkSum (ρ : Env K) (s : Side) (ι : IdxEnv) (a b r : Expr) (h : mkSum a b = some r) (hu : isUnsupported r = false) :
    (∀ c, eval ρ s ι r c = eval ρ s ι a c + eval ρ s ι b c) ∧ shape r = shape a ∧ fi r = fi a := by
  unfold mkSum at h
  split at h
  · cases h
  · rename_i hsf
    simp only [ne_eq, Bool.or_eq_true, decide_eq_true_eq, not_or, Decidable.not_not] at hsf
    obtain ⟨hs, hf⟩ := hsf
    split at h
    · rename_i hz
      simp only [Option.some.injEq] at h; subst h
      exact ⟨fun c => by rw [eval_zero ρ s ι a hz]; simp, hs.symm, hf.symm⟩
    · split at h
      · rename_i hz
        simp only [Option.some.injEq] at h; subst h
        exact ⟨fun c => by rw [eval_zero ρ s ι b hz]; simp, rfl, rfl⟩
      · split at h
        · rename_i ia va ib vb ha hb
          simp only [Option.some.injEq] at h; subst h
          have sa := lit_shape a ia va ha
          refine ⟨fun c => ?_, by rw [(mkLit_shape _ _).1, sa.1], by rw [(mkLit_shape _ _).2, sa.2]⟩
          rw [mkLit_eval, litVal_eval ρ s ι a ia va ha, litVal_eval ρ s ι b ib vb hb, Rat.cast_add]
          intro hi
          simp only [Bool.and_eq_true] at hi
          have d1 := litVal_int a va (by rw [ha, hi.1])
          have d2 := litVal_int b vb (by rw [hb, hi.2])
          have e1 : va = (va.num : ℚ) := by conv_lhs => rw [← Rat.num_div_den va, d1]; simp
          have e2 : vb = (vb.num : ℚ) := by conv_lhs => rw [← Rat.num_div_den vb, d2]; simp
          rw [e1, e2, ← Int.cast_add]; simp
        · split at h
          · simp only [Option.some.injEq] at h; subst h; simp [isUnsupported, unsupported] at hu
          · split at h
            · simp only [Option.some.injEq] at h; subst h
              exact ⟨fun c => by simp [eval], by simp [shape], by simp [fi]⟩
            · split at h
              · simp only [Option.some.injEq] at h; subst h
                exact ⟨fun c => by simp [eval, add_comm], by simp [shape, hs], by simp [fi, hf]⟩
              · simp only [Option.some.injEq] at h; subst h
                cases sort2_perm a b with
                | inl e => rw [e]; exact ⟨fun c => by simp [eval], by simp [shape], by simp [fi]⟩
                | inr e => rw [e]; exact ⟨fun c => by simp [eval, add_comm], by simp [shape, hs], by simp [fi, hf]⟩


/-! ## Product -/

theorem int_mul_den (va vb : ℚ) (d1 : va.den = 1) (d2 : vb.den = 1) : (va * vb).den = 1 := by
  have e1 : va = (va.num : ℚ) := by conv_lhs => rw [← Rat.num_div_den va, d1]; simp
  have e2 : vb = (vb.num : ℚ) := by conv_lhs => rw [← Rat.num_div_den vb, d2]; simp
  rw [e1, e2, ← Int.cast_mul]; exact Rat.den_intCast _

/-- `Product(a, b)`: the product of the two scalar values; zero and one folding, literal folding,
    operand sorting -/
theorem C05_mkProduct (ρ : Env K) (s : Side) (ι : IdxEnv) (a b r : Expr) (h : mkProduct a b = some r) (hu : isUnsupported r = false) :
    eval ρ s ι r [] = eval ρ s ι a [] * eval ρ s ι b [] ∧ shape r = [] := by
  unfold mkProduct at h
  split at h
  · cases h
  · rename_i hsh
    simp only [Bool.or_eq_true, Bool.not_eq_true', List.isEmpty_eq_false_iff, not_or, ne_eq, Decidable.not_not] at hsh
    split at h
    · rename_i hz
      simp only [Option.some.injEq] at h; subst h
      refine ⟨?_, by simp [shape]⟩
      simp only [Bool.or_eq_true] at hz
      cases hz with
      | inl hz => rw [eval_zero ρ s ι a hz]; simp [eval]
      | inr hz => rw [eval_zero ρ s ι b hz]; simp [eval]
    · split at h
      · rename_i ia va ib vb ha hb
        simp only [Option.some.injEq] at h; subst h
        refine ⟨?_, (mkLit_shape _ _).1⟩
        rw [mkLit_eval, litVal_eval ρ s ι a ia va ha, litVal_eval ρ s ι b ib vb hb, Rat.cast_mul]
        intro hi
        simp only [Bool.and_eq_true] at hi
        exact int_mul_den va vb (litVal_int a va (by rw [ha, hi.1])) (litVal_int b vb (by rw [hb, hi.2]))
      · rename_i ia va ha hb
        split at h
        · simp only [Option.some.injEq] at h; subst h; simp [isUnsupported, unsupported] at hu
        · split at h
          · rename_i h1
            simp only [Option.some.injEq] at h; subst h
            refine ⟨?_, by simpa using hsh.2⟩
            rw [litVal_eval ρ s ι a ia va ha, h1]; simp
          · simp only [Option.some.injEq] at h; subst h
            exact ⟨by simp [eval], by simp [shape]⟩
      · rename_i ib vb ha hb
        split at h
        · simp only [Option.some.injEq] at h; subst h; simp [isUnsupported, unsupported] at hu
        · split at h
          · rename_i h1
            simp only [Option.some.injEq] at h; subst h
            refine ⟨?_, by simpa using hsh.1⟩
            rw [litVal_eval ρ s ι b ib vb hb, h1]; simp
          · simp only [Option.some.injEq] at h; subst h
            exact ⟨by simp [eval, mul_comm], by simp [shape]⟩
      · split at h
        · simp only [Option.some.injEq] at h; subst h; simp [isUnsupported, unsupported] at hu
        · simp only [Option.some.injEq] at h; subst h
          cases sort2_perm a b with
          | inl e => rw [e]; exact ⟨by simp [eval], by simp [shape]⟩
          | inr e => rw [e]; exact ⟨by simp [eval, mul_comm], by simp [shape]⟩

/-! ## Division -/

/-- `Division(a, b)`: a / b; 0/b and a/1 folding, literal folding in floating point (exact here) -/
theorem C05_mkDivision (ρ : Env K) (s : Side) (ι : IdxEnv) (a b r : Expr) (h : mkDivision a b = some r) (hu : isUnsupported r = false) :
    eval ρ s ι r [] = eval ρ s ι a [] / eval ρ s ι b [] := by
  unfold mkDivision at h
  split at h
  · cases h
  · split at h
    · cases h
    · split at h
      · cases h
      · split at h
        · rename_i hz
          simp only [Option.some.injEq] at h; subst h
          rw [eval_zero ρ s ι a hz]; simp
        · split at h
          · rename_i ib vb hb
            split at h
            · rename_i h1
              simp only [Option.some.injEq] at h; subst h
              rw [litVal_eval ρ s ι b ib vb hb, h1]; simp
            · split at h
              · rename_i ia va ha
                simp only [Option.some.injEq] at h; subst h
                rw [mkLit_eval ρ s ι false _ (by simp), litVal_eval ρ s ι a ia va ha, litVal_eval ρ s ι b ib vb hb, Rat.cast_div]
              · split at h
                · simp only [Option.some.injEq] at h; subst h; simp [isUnsupported, unsupported] at hu
                · simp only [Option.some.injEq] at h; subst h; simp [eval]
          · split at h
            · simp only [Option.some.injEq] at h; subst h; simp [isUnsupported, unsupported] at hu
            · simp only [Option.some.injEq] at h; subst h; simp [eval]



/-! ## IndexSum -/

theorem bindU_some (x : Option Expr) (f : Expr → Option Expr) (r : Expr) (h : bindU x f = some r)
    (hu : isUnsupported r = false) : ∃ e, x = some e ∧ isUnsupported e = false ∧ f e = some r := by
  unfold bindU at h
  cases x with
  | none => cases h
  | some e =>
    simp only at h
    split at h
    · simp only [Option.some.injEq] at h; subst h; simp [isUnsupported, unsupported] at hu
    · rename_i hne
      exact ⟨e, rfl, by simpa using hne, h⟩

open FIlemmas in
/-- `IndexSum(a, j)`: the sum over the extent of j of the values of a — also when the summation
    is pushed into one factor of a product, or folded away on a zero -/
theorem C05_mkIndexSum (ρ : Env K) (s : Side) : ∀ (a : Expr) (j : Nat) (ι : IdxEnv) (r : Expr), WF a = true →
    mkIndexSum a j = some r → isUnsupported r = false → ∀ c, c.length = (shape a).length →
    eval ρ s ι r c = ∑ v ∈ Finset.range (FI.dimOf j (fi a)), eval ρ s (ι.set j v) a c := by
  intro a j
  fun_induction mkIndexSum a j with
  | case1 sh f j hj =>
    intro ι r _ h _ c _
    simp only [Option.some.injEq] at h; subst h
    simp [eval]
  | case2 sh f j hj => intro ι r _ h; cases h
  | case3 x p q j hp ih =>
    intro ι r hw h hu c hc
    simp only [WF, Bool.and_eq_true, List.isEmpty_iff] at hw
    obtain ⟨⟨⟨wp, wq⟩, sp⟩, sq⟩ := hw
    simp only [shape, List.length_nil, List.length_eq_zero_iff] at hc
    subst hc
    obtain ⟨sb, hsb, usb, hr⟩ := bindU_some _ _ r h hu
    have hp' : FI.has j (fi p) = false := by simpa using hp
    rw [(C05_mkProduct ρ s ι p sb r hr hu).1, ih ι sb wq hsb usb [] (by simp [sq])]
    simp only [eval, fi]
    rw [dimOf_merge_right _ _ j (fi_sorted p wp) hp', Finset.mul_sum]
    apply Finset.sum_congr rfl
    intro v _
    rw [eval_set_irrelevant ρ s p wp [] (by simp [sp]) ι j v hp']
  | case4 x p q j hp hq ih =>
    intro ι r hw h hu c hc
    simp only [WF, Bool.and_eq_true, List.isEmpty_iff] at hw
    obtain ⟨⟨⟨wp, wq⟩, sp⟩, sq⟩ := hw
    simp only [shape, List.length_nil, List.length_eq_zero_iff] at hc
    subst hc
    obtain ⟨sa, hsa, usa, hr⟩ := bindU_some _ _ r h hu
    have hp' : FI.has j (fi p) = true := by simpa using hp
    have hq' : FI.has j (fi q) = false := by simpa using hq
    rw [(C05_mkProduct ρ s ι q sa r hr hu).1, ih ι sa wp hsa usa [] (by simp [sp])]
    simp only [eval, fi]
    rw [dimOf_merge_left _ _ j (fi_sorted p wp) hp', Finset.mul_sum]
    apply Finset.sum_congr rfl
    intro v _
    rw [eval_set_irrelevant ρ s q wq [] (by simp [sq]) ι j v hq', mul_comm]
  | case5 x p q j hp hq =>
    intro ι r _ h _ c _
    simp only [Option.some.injEq] at h; subst h
    simp only [eval]; exact sumRange_eq_sum _ _
  | case6 e j h1 h2 hj =>
    intro ι r _ h _ c _
    simp only [hj, ↓reduceIte, Option.some.injEq] at h; subst h
    simp only [eval]; exact sumRange_eq_sum _ _
  | case7 e j h1 h2 hj =>
    intro ι r _ h
    simp [hj] at h

end UflVerif.C05
