/-
C05  Operators build expressions with the mathematically intended value.

The constructors are modelled in Model/Construct.lean (tied to the live classes by the
correspondence in harness/props/c05.py).  For each one: whenever it returns an expression, that
expression has the shape and free indices of the requested operation and its value (denotational
`eval`, any field K of characteristic 0 — literal folding is exact rational arithmetic — any
valuation, any index environment, any component) is the operation applied to the operand values.
`unsupported` marks the branches the model does not cover (see Construct.lean); they are excluded.
-/
import Mathlib.Data.Rat.Cast.CharZero
import Mathlib.Tactic.Ring
import UflVerif.Sem.Congr
import UflVerif.Sem.Sum
import UflVerif.Sem.FI
import UflVerif.Sem.Beq

namespace UflVerif.C05
open UflVerif Expr

variable {K : Type} [Field K] [CharZero K]

/-! ## literals -/

theorem isZero_eq (a : Expr) (h : isZero a = true) : ∃ sh f, a = .zero sh f := by
  cases a <;> simp [isZero] at h
  exact ⟨_, _, rfl⟩

theorem eval_zero (ρ : Env K) (s : Side) (ι : IdxEnv) (a : Expr) (h : isZero a = true) (c : List Nat) :
    eval ρ s ι a c = 0 := by
  obtain ⟨sh, f, rfl⟩ := isZero_eq a h
  simp [eval]

theorem litVal_eval (ρ : Env K) (s : Side) (ι : IdxEnv) (a : Expr) (i : Bool) (q : ℚ) (h : litVal a = some (i, q))
    (c : List Nat) : eval ρ s ι a c = (q : K) := by
  cases a <;> simp only [litVal, Option.some.injEq, Prod.mk.injEq, reduceCtorEq] at h
  · obtain ⟨_, rfl⟩ := h
    simp [eval]
  · obtain ⟨_, rfl⟩ := h
    simp [eval]

theorem litVal_int (a : Expr) (q : ℚ) (h : litVal a = some (true, q)) : q.den = 1 := by
  cases a <;> simp only [litVal, Option.some.injEq, Prod.mk.injEq, reduceCtorEq, Bool.false_eq_true, false_and] at h
  obtain ⟨_, rfl⟩ := h
  simp

theorem mkLit_eval (ρ : Env K) (s : Side) (ι : IdxEnv) (i : Bool) (q : ℚ) (hi : i = true → q.den = 1) (c : List Nat) :
    eval ρ s ι (mkLit i q) c = (q : K) := by
  unfold mkLit
  split
  · rename_i h; subst h; simp [eval]
  · split
    · rename_i _ h
      simp only [eval]
      conv_rhs => rw [Rat.cast_def, hi h]
      simp
    · simp only [eval]
      rw [Rat.cast_def]

theorem mkLit_shape (i : Bool) (q : ℚ) : shape (mkLit i q) = [] ∧ fi (mkLit i q) = [] := by
  unfold mkLit; split
  · simp [shape, fi]
  · split <;> simp [shape, fi]

theorem lit_shape (a : Expr) (i : Bool) (q : ℚ) (h : litVal a = some (i, q)) : shape a = [] ∧ fi a = [] := by
  cases a <;> simp [litVal] at h <;> simp [shape, fi]


/-! ## Sum -/

theorem sort2_perm (a b : Expr) : sort2 a b = (a, b) ∨ sort2 a b = (b, a) := by
  unfold sort2; split <;> simp

/-- `Sum(a, b)`: value a + b componentwise, shape and free indices of the operands;
    zero folding, literal folding and operand sorting included -/
theorem C05_mkSum (ρ : Env K) (s : Side) (ι : IdxEnv) (a b r : Expr) (h : mkSum a b = some r) (hu : isUnsupported r = false) :
    (∀ c, eval ρ s ι r c = eval ρ s ι a c + eval ρ s ι b c) ∧ shape r = shape a ∧ fi r = fi a := by
  unfold mkSum at h
  split at h
  · cases h
  · rename_i hsf
    simp only [ne_eq, Bool.or_eq_true, decide_eq_true_eq, not_or, Decidable.not_not] at hsf
    obtain ⟨hs, hf⟩ := hsf
    split at h
    · rename_i hz
      simp only [Option.some.injEq] at h; subst h
      exact ⟨fun c => by rw [eval_zero ρ s ι a hz]; simp, hs.symm, hf.symm⟩
    · split at h
      · rename_i hz
        simp only [Option.some.injEq] at h; subst h
        exact ⟨fun c => by rw [eval_zero ρ s ι b hz]; simp, rfl, rfl⟩
      · split at h
        · rename_i ia va ib vb ha hb
          simp only [Option.some.injEq] at h; subst h
          have sa := lit_shape a ia va ha
          refine ⟨fun c => ?_, by rw [(mkLit_shape _ _).1, sa.1], by rw [(mkLit_shape _ _).2, sa.2]⟩
          rw [mkLit_eval, litVal_eval ρ s ι a ia va ha, litVal_eval ρ s ι b ib vb hb, Rat.cast_add]
          intro hi
          simp only [Bool.and_eq_true] at hi
          have d1 := litVal_int a va (by rw [ha, hi.1])
          have d2 := litVal_int b vb (by rw [hb, hi.2])
          have e1 : va = (va.num : ℚ) := by conv_lhs => rw [← Rat.num_div_den va, d1]; simp
          have e2 : vb = (vb.num : ℚ) := by conv_lhs => rw [← Rat.num_div_den vb, d2]; simp
          rw [e1, e2, ← Int.cast_add]; simp
        · split at h
          · simp only [Option.some.injEq] at h; subst h; simp [isUnsupported, unsupported] at hu
          · split at h
            · simp only [Option.some.injEq] at h; subst h
              exact ⟨fun c => by simp [eval], by simp [shape], by simp [fi]⟩
            · split at h
              · simp only [Option.some.injEq] at h; subst h
                exact ⟨fun c => by simp [eval, add_comm], by simp [shape, hs], by simp [fi, hf]⟩
              · simp only [Option.some.injEq] at h; subst h
                cases sort2_perm a b with
                | inl e => rw [e]; exact ⟨fun c => by simp [eval], by simp [shape], by simp [fi]⟩
                | inr e => rw [e]; exact ⟨fun c => by simp [eval, add_comm], by simp [shape, hs], by simp [fi, hf]⟩


/-! ## Product -/

theorem int_mul_den (va vb : ℚ) (d1 : va.den = 1) (d2 : vb.den = 1) : (va * vb).den = 1 := by
  have e1 : va = (va.num : ℚ) := by conv_lhs => rw [← Rat.num_div_den va, d1]; simp
  have e2 : vb = (vb.num : ℚ) := by conv_lhs => rw [← Rat.num_div_den vb, d2]; simp
  rw [e1, e2, ← Int.cast_mul]; exact Rat.den_intCast _

/-- `Product(a, b)`: the product of the two scalar values; zero and one folding, literal folding,
    operand sorting -/
theorem C05_mkProduct (ρ : Env K) (s : Side) (ι : IdxEnv) (a b r : Expr) (h : mkProduct a b = some r) (hu : isUnsupported r = false) :
    eval ρ s ι r [] = eval ρ s ι a [] * eval ρ s ι b [] ∧ shape r = [] := by
  unfold mkProduct at h
  split at h
  · cases h
  · rename_i hsh
    simp only [Bool.or_eq_true, Bool.not_eq_true', List.isEmpty_eq_false_iff, not_or, ne_eq, Decidable.not_not] at hsh
    split at h
    · rename_i hz
      simp only [Option.some.injEq] at h; subst h
      refine ⟨?_, by simp [shape]⟩
      simp only [Bool.or_eq_true] at hz
      cases hz with
      | inl hz => rw [eval_zero ρ s ι a hz]; simp [eval]
      | inr hz => rw [eval_zero ρ s ι b hz]; simp [eval]
    · split at h
      · rename_i ia va ib vb ha hb
        simp only [Option.some.injEq] at h; subst h
        refine ⟨?_, (mkLit_shape _ _).1⟩
        rw [mkLit_eval, litVal_eval ρ s ι a ia va ha, litVal_eval ρ s ι b ib vb hb, Rat.cast_mul]
        intro hi
        simp only [Bool.and_eq_true] at hi
        exact int_mul_den va vb (litVal_int a va (by rw [ha, hi.1])) (litVal_int b vb (by rw [hb, hi.2]))
      · rename_i ia va ha hb
        split at h
        · simp only [Option.some.injEq] at h; subst h; simp [isUnsupported, unsupported] at hu
        · split at h
          · rename_i h1
            simp only [Option.some.injEq] at h; subst h
            refine ⟨?_, by simpa using hsh.2⟩
            rw [litVal_eval ρ s ι a ia va ha, h1]; simp
          · simp only [Option.some.injEq] at h; subst h
            exact ⟨by simp [eval], by simp [shape]⟩
      · rename_i ib vb ha hb
        split at h
        · simp only [Option.some.injEq] at h; subst h; simp [isUnsupported, unsupported] at hu
        · split at h
          · rename_i h1
            simp only [Option.some.injEq] at h; subst h
            refine ⟨?_, by simpa using hsh.1⟩
            rw [litVal_eval ρ s ι b ib vb hb, h1]; simp
          · simp only [Option.some.injEq] at h; subst h
            exact ⟨by simp [eval, mul_comm], by simp [shape]⟩
      · split at h
        · simp only [Option.some.injEq] at h; subst h; simp [isUnsupported, unsupported] at hu
        · simp only [Option.some.injEq] at h; subst h
          cases sort2_perm a b with
          | inl e => rw [e]; exact ⟨by simp [eval], by simp [shape]⟩
          | inr e => rw [e]; exact ⟨by simp [eval, mul_comm], by simp [shape]⟩

/-! ## Division -/

/-- `Division(a, b)`: a / b; 0/b and a/1 folding, literal folding in floating point (exact here) -/
theorem C05_mkDivision (ρ : Env K) (s : Side) (ι : IdxEnv) (a b r : Expr) (h : mkDivision a b = some r) (hu : isUnsupported r = false) :
    eval ρ s ι r [] = eval ρ s ι a [] / eval ρ s ι b [] := by
  unfold mkDivision at h
  split at h
  · cases h
  · split at h
    · cases h
    · split at h
      · cases h
      · split at h
        · rename_i hz
          simp only [Option.some.injEq] at h; subst h
          rw [eval_zero ρ s ι a hz]; simp
        · split at h
          · rename_i ib vb hb
            split at h
            · rename_i h1
              simp only [Option.some.injEq] at h; subst h
              rw [litVal_eval ρ s ι b ib vb hb, h1]; simp
            · split at h
              · rename_i ia va ha
                simp only [Option.some.injEq] at h; subst h
                rw [mkLit_eval ρ s ι false _ (by simp), litVal_eval ρ s ι a ia va ha, litVal_eval ρ s ι b ib vb hb, Rat.cast_div]
              · split at h
                · simp only [Option.some.injEq] at h; subst h; simp [isUnsupported, unsupported] at hu
                · simp only [Option.some.injEq] at h; subst h; simp [eval]
          · split at h
            · simp only [Option.some.injEq] at h; subst h; simp [isUnsupported, unsupported] at hu
            · simp only [Option.some.injEq] at h; subst h; simp [eval]



/-! ## IndexSum -/

theorem bindU_some (x : Option Expr) (f : Expr → Option Expr) (r : Expr) (h : bindU x f = some r)
    (hu : isUnsupported r = false) : ∃ e, x = some e ∧ isUnsupported e = false ∧ f e = some r := by
  unfold bindU at h
  cases x with
  | none => cases h
  | some e =>
    simp only at h
    split at h
    · simp only [Option.some.injEq] at h; subst h; simp [isUnsupported, unsupported] at hu
    · rename_i hne
      exact ⟨e, rfl, by simpa using hne, h⟩

open FIlemmas in
/-- `IndexSum(a, j)`: the sum over the extent of j of the values of a — also when the summation
    is pushed into one factor of a product, or folded away on a zero -/
theorem C05_mkIndexSum (ρ : Env K) (s : Side) : ∀ (a : Expr) (j : Nat) (ι : IdxEnv) (r : Expr), WF a = true →
    mkIndexSum a j = some r → isUnsupported r = false → ∀ c, c.length = (shape a).length →
    eval ρ s ι r c = ∑ v ∈ Finset.range (FI.dimOf j (fi a)), eval ρ s (ι.set j v) a c := by
  intro a j
  fun_induction mkIndexSum a j with
  | case1 sh f j hj =>
    intro ι r _ h _ c _
    simp only [Option.some.injEq] at h; subst h
    simp [eval]
  | case2 sh f j hj => intro ι r _ h; cases h
  | case3 x p q j hp ih =>
    intro ι r hw h hu c hc
    simp only [WF, Bool.and_eq_true, List.isEmpty_iff] at hw
    obtain ⟨⟨⟨⟨wp, wq⟩, sp⟩, sq⟩, _⟩ := hw
    simp only [shape, List.length_nil, List.length_eq_zero_iff] at hc
    subst hc
    obtain ⟨sb, hsb, usb, hr⟩ := bindU_some _ _ r h hu
    have hp' : FI.has j (fi p) = false := by simpa using hp
    rw [(C05_mkProduct ρ s ι p sb r hr hu).1, ih ι sb wq hsb usb [] (by simp [sq])]
    simp only [eval, fi]
    rw [dimOf_merge_right _ _ j (fi_sorted p wp) hp', Finset.mul_sum]
    apply Finset.sum_congr rfl
    intro v _
    rw [eval_set_irrelevant ρ s p wp [] (by simp [sp]) ι j v hp']
  | case4 x p q j hp hq ih =>
    intro ι r hw h hu c hc
    simp only [WF, Bool.and_eq_true, List.isEmpty_iff] at hw
    obtain ⟨⟨⟨⟨wp, wq⟩, sp⟩, sq⟩, _⟩ := hw
    simp only [shape, List.length_nil, List.length_eq_zero_iff] at hc
    subst hc
    obtain ⟨sa, hsa, usa, hr⟩ := bindU_some _ _ r h hu
    have hp' : FI.has j (fi p) = true := by simpa using hp
    have hq' : FI.has j (fi q) = false := by simpa using hq
    rw [(C05_mkProduct ρ s ι q sa r hr hu).1, ih ι sa wp hsa usa [] (by simp [sp])]
    simp only [eval, fi]
    rw [dimOf_merge_left _ _ j (fi_sorted p wp) hp', Finset.mul_sum]
    apply Finset.sum_congr rfl
    intro v _
    rw [eval_set_irrelevant ρ s q wq [] (by simp [sq]) ι j v hq', mul_comm]
  | case5 x p q j hp hq =>
    intro ι r _ h _ c _
    simp only [Option.some.injEq] at h; subst h
    simp only [eval]; exact sumRange_eq_sum _ _
  | case6 e j h1 h2 hj =>
    intro ι r _ h _ c _
    simp only [hj, ↓reduceIte, Option.some.injEq] at h; subst h
    simp only [eval]; exact sumRange_eq_sum _ _
  | case7 e j h1 h2 hj =>
    intro ι r _ h
    simp [hj] at h


/-! ## closure: what the constructors build is well formed, with the expected free indices -/

open FIlemmas

/-- pointwise agreement of two free-index lists (same indices, same extents) -/
def FIeq (f g : FI) : Prop := ∀ i, FI.has i f = FI.has i g ∧ FI.dimOf i f = FI.dimOf i g

theorem FIeq.rfl' (f : FI) : FIeq f f := fun _ => ⟨rfl, rfl⟩

theorem mkLit_wf (i : Bool) (q : ℚ) : WF (mkLit i q) = true := by
  unfold mkLit; split
  · simp [WF, sortedFI]
  · split <;> simp [WF]

theorem mkSum_wf (a b r : Expr) (ha : WF a = true) (hb : WF b = true) (h : mkSum a b = some r)
    (hu : isUnsupported r = false) : WF r = true := by
  unfold mkSum at h
  split at h
  · cases h
  · rename_i hsf
    simp only [ne_eq, Bool.or_eq_true, decide_eq_true_eq, not_or, Decidable.not_not] at hsf
    split at h
    · simp only [Option.some.injEq] at h; subst h; exact hb
    · split at h
      · simp only [Option.some.injEq] at h; subst h; exact ha
      · split at h
        · simp only [Option.some.injEq] at h; subst h; exact mkLit_wf _ _
        · split at h
          · simp only [Option.some.injEq] at h; subst h; simp [isUnsupported, unsupported] at hu
          · split at h
            · simp only [Option.some.injEq] at h; subst h; simp [WF, ha, hb, hsf.1, hsf.2]
            · split at h
              · simp only [Option.some.injEq] at h; subst h; simp [WF, ha, hb, hsf.1, hsf.2]
              · simp only [Option.some.injEq] at h; subst h
                cases sort2_perm a b with
                | inl e => rw [e]; simp [WF, ha, hb, hsf.1, hsf.2]
                | inr e => rw [e]; simp [WF, ha, hb, hsf.1, hsf.2]

theorem merge_nil_has (f : FI) (i : Nat) : FI.has i (FI.merge [] f) = FI.has i f := by
  rw [has_merge]; simp [FI.has]

theorem dim_nothas (f : FI) (i : Nat) (hi : FI.has i f = false) : FI.dimOf i f = 0 := by
  unfold FI.dimOf
  have : f.find? (fun p => p.1 == i) = none := by
    rw [List.find?_eq_none]
    intro p hp he
    simp only [beq_iff_eq] at he
    have : FI.has i f = true := (has_iff i f).mpr ⟨p, hp, he⟩
    rw [hi] at this; cases this
  simp [this]

/-- free indices of a merged list, for an index that belongs to at most one side -/
theorem merge_dims (a b : FI) (sa : Sorted a) (i : Nat) :
    (FI.has i a = false → FI.dimOf i (FI.merge a b) = FI.dimOf i b) ∧
    (FI.has i b = false → FI.dimOf i (FI.merge a b) = FI.dimOf i a) := by
  refine ⟨fun h => dimOf_merge_right a b i sa h, fun h => ?_⟩
  by_cases hi : FI.has i a = true
  · exact dimOf_merge_left a b i sa hi
  · have hi' : FI.has i a = false := by simpa using hi
    rw [dimOf_merge_right a b i sa hi', dim_nothas _ _ h, dim_nothas _ _ hi']

theorem merge_dim (a b : FI) (sa : Sorted a) (i : Nat) :
    FI.dimOf i (FI.merge a b) = if FI.has i a = true then FI.dimOf i a else FI.dimOf i b := by
  by_cases hi : FI.has i a = true
  · simp [hi, dimOf_merge_left a b i sa hi]
  · have hi' : FI.has i a = false := by simpa using hi
    simp [hi', dimOf_merge_right a b i sa hi']

theorem merge_dim_swap (a b : FI) (sb : Sorted b) (hd : DimsAgree a b) (i : Nat) :
    FI.dimOf i (FI.merge b a) = if FI.has i a = true then FI.dimOf i a else FI.dimOf i b := by
  rw [merge_dim b a sb i]
  by_cases ha : FI.has i a = true <;> by_cases hb : FI.has i b = true
  · simp [ha, hb, hd i ha hb]
  · simp [ha, hb]
  · simp [ha, hb]
  · have ha' : FI.has i a = false := by simpa using ha
    have hb' : FI.has i b = false := by simpa using hb
    simp [ha', hb', dim_nothas _ _ ha', dim_nothas _ _ hb']

theorem mkProduct_wf (a b r : Expr) (ha : WF a = true) (hb : WF b = true) (hd : DimsAgree (fi a) (fi b))
    (h : mkProduct a b = some r) (hu : isUnsupported r = false) :
    WF r = true ∧ shape r = [] ∧ (∀ i, FI.has i (fi r) = (FI.has i (fi a) || FI.has i (fi b))) ∧
    (∀ i, FI.dimOf i (fi r) = if FI.has i (fi a) = true then FI.dimOf i (fi a) else FI.dimOf i (fi b)) := by
  have ab := fun i => merge_dim (fi a) (fi b) (fi_sorted a ha) i
  have ba := fun i => merge_dim_swap (fi a) (fi b) (fi_sorted b hb) hd i
  have dab : dimsAgree (fi a) (fi b) = true := (dimsAgree_iff _ _ (fi_sorted a ha)).mpr hd
  have dba : dimsAgree (fi b) (fi a) = true := (dimsAgree_iff _ _ (fi_sorted b hb)).mpr hd.symm
  unfold mkProduct at h
  split at h
  · cases h
  · rename_i hsh
    simp only [Bool.or_eq_true, Bool.not_eq_true', List.isEmpty_eq_false_iff, not_or, ne_eq, Decidable.not_not] at hsh
    split at h
    · simp only [Option.some.injEq] at h; subst h
      refine ⟨?_, by simp [shape], fun i => by simp only [fi]; exact has_merge _ _ i, fun i => by simp only [fi]; exact ab i⟩
      simp only [WF]; exact (sortedFI_iff _).mpr (merge_sorted _ _ (fi_sorted a ha))
    · split at h
      · rename_i ia va ib vb hla hlb
        simp only [Option.some.injEq] at h; subst h
        have sa := lit_shape a ia va hla; have sb := lit_shape b ib vb hlb
        exact ⟨mkLit_wf _ _, (mkLit_shape _ _).1, fun i => by simp [(mkLit_shape _ _).2, sa.2, sb.2, FI.has],
          fun i => by simp [(mkLit_shape _ _).2, sa.2, sb.2, FI.has]⟩
      · rename_i ia va hla hlb
        have sa := lit_shape a ia va hla
        split at h
        · simp only [Option.some.injEq] at h; subst h; simp [isUnsupported, unsupported] at hu
        · split at h
          · simp only [Option.some.injEq] at h; subst h
            exact ⟨hb, hsh.2, fun i => by simp [sa.2, FI.has], fun i => by simp [sa.2, FI.has]⟩
          · simp only [Option.some.injEq] at h; subst h
            exact ⟨by simp [WF, ha, hb, hsh.1, hsh.2, dab], by simp [shape], fun i => by simp only [fi]; exact has_merge _ _ i, fun i => by simp only [fi]; exact ab i⟩
      · rename_i ib vb hla hlb
        have sb := lit_shape b ib vb hlb
        split at h
        · simp only [Option.some.injEq] at h; subst h; simp [isUnsupported, unsupported] at hu
        · split at h
          · simp only [Option.some.injEq] at h; subst h
            refine ⟨ha, hsh.1, fun i => by simp [sb.2, FI.has], fun i => ?_⟩
            by_cases hi : FI.has i (fi a) = true
            · simp [hi]
            · have hi' : FI.has i (fi a) = false := by simpa using hi
              rw [hi', dim_nothas _ _ hi', sb.2]; rfl
          · simp only [Option.some.injEq] at h; subst h
            exact ⟨by simp [WF, ha, hb, hsh.1, hsh.2, dba], by simp [shape], fun i => by simp only [fi]; rw [has_merge, Bool.or_comm], fun i => by simp only [fi]; exact ba i⟩
      · split at h
        · simp only [Option.some.injEq] at h; subst h; simp [isUnsupported, unsupported] at hu
        · simp only [Option.some.injEq] at h; subst h
          cases sort2_perm a b with
          | inl e =>
            rw [e]
            exact ⟨by simp [WF, ha, hb, hsh.1, hsh.2, dab], by simp [shape], fun i => by simp only [fi]; exact has_merge _ _ i, fun i => by simp only [fi]; exact ab i⟩
          | inr e =>
            rw [e]
            exact ⟨by simp [WF, ha, hb, hsh.1, hsh.2, dba], by simp [shape], fun i => by simp only [fi]; rw [has_merge, Bool.or_comm], fun i => by simp only [fi]; exact ba i⟩

theorem dimOf_remove_self (j : Nat) (f : FI) : FI.dimOf j (FI.remove j f) = 0 :=
  dim_nothas _ _ (by rw [has_remove]; simp)

/-- what `IndexSum(a, j)` builds is well formed, has the shape of a and its free indices minus j -/
theorem mkIndexSum_wf : ∀ (a : Expr) (j : Nat) (r : Expr), WF a = true → mkIndexSum a j = some r → isUnsupported r = false →
    WF r = true ∧ shape r = shape a ∧ (∀ i, FI.has i (fi r) = (FI.has i (fi a) && decide (i ≠ j))) ∧
    (∀ i, i ≠ j → FI.dimOf i (fi r) = FI.dimOf i (fi a)) := by
  intro a j
  fun_induction mkIndexSum a j with
  | case1 sh f j hj =>
    intro r hw h _
    simp only [Option.some.injEq] at h; subst h
    simp only [WF] at hw
    refine ⟨?_, by simp [shape], fun i => by simp only [fi]; exact has_remove j f i, fun i hi => by simp only [fi]; exact dimOf_remove i j hi f⟩
    simp only [WF]; exact (sortedFI_iff _).mpr (remove_sorted _ _ ((sortedFI_iff f).mp hw))
  | case2 sh f j hj => intro r _ h; cases h
  | case3 x p q j hp ih =>
    intro r hw h hu
    simp only [WF, Bool.and_eq_true, List.isEmpty_iff] at hw
    obtain ⟨⟨⟨⟨wp, wq⟩, sp⟩, sq⟩, dpq⟩ := hw
    have dpq' := (dimsAgree_iff _ _ (fi_sorted p wp)).mp dpq
    obtain ⟨sb, hsb, usb, hr⟩ := bindU_some _ _ r h hu
    have hp' : FI.has j (fi p) = false := by simpa using hp
    obtain ⟨wsb, ssb, hassb, dimsb⟩ := ih sb wq hsb usb
    have dag : DimsAgree (fi p) (fi sb) := by
      intro i h1 h2
      rw [hassb] at h2
      simp only [Bool.and_eq_true, decide_eq_true_eq] at h2
      rw [dimsb i h2.2]; exact dpq' i h1 h2.1
    obtain ⟨wr, sr, hasr, dimr⟩ := mkProduct_wf p sb r wp wsb dag hr hu
    refine ⟨wr, by rw [sr]; simp [shape], fun i => ?_, fun i hi => ?_⟩
    · rw [hasr, hassb]; simp only [fi]; rw [has_merge]
      by_cases hij : i = j
      · subst hij; simp [hp']
      · simp [hij]
    · rw [dimr]; simp only [fi]; rw [merge_dim _ _ (fi_sorted p wp), dimsb i hi]
  | case4 x p q j hp hq ih =>
    intro r hw h hu
    simp only [WF, Bool.and_eq_true, List.isEmpty_iff] at hw
    obtain ⟨⟨⟨⟨wp, wq⟩, sp⟩, sq⟩, dpq⟩ := hw
    have dpq' := (dimsAgree_iff _ _ (fi_sorted p wp)).mp dpq
    obtain ⟨sa, hsa, usa, hr⟩ := bindU_some _ _ r h hu
    have hq' : FI.has j (fi q) = false := by simpa using hq
    obtain ⟨wsa, ssa, hassa, dimsa⟩ := ih sa wp hsa usa
    have dag : DimsAgree (fi q) (fi sa) := by
      intro i h1 h2
      rw [hassa] at h2
      simp only [Bool.and_eq_true, decide_eq_true_eq] at h2
      rw [dimsa i h2.2]; exact (dpq' i h2.1 h1).symm
    obtain ⟨wr, sr, hasr, dimr⟩ := mkProduct_wf q sa r wq wsa dag hr hu
    refine ⟨wr, by rw [sr]; simp [shape], fun i => ?_, fun i hi => ?_⟩
    · rw [hasr, hassa]; simp only [fi]; rw [has_merge]
      by_cases hij : i = j
      · subst hij; simp [hq']
      · simp [hij, Bool.or_comm]
    · rw [dimr]; simp only [fi]; rw [merge_dim _ _ (fi_sorted p wp), dimsa i hi]
      by_cases h1 : FI.has i (fi p) = true <;> by_cases h2 : FI.has i (fi q) = true
      · simp [h1, h2, dpq' i h1 h2]
      · have h2' : FI.has i (fi q) = false := by simpa using h2
        simp [h1, h2']
      · have h1' : FI.has i (fi p) = false := by simpa using h1
        simp [h1', h2]
      · have h1' : FI.has i (fi p) = false := by simpa using h1
        have h2' : FI.has i (fi q) = false := by simpa using h2
        simp [h1', h2', dim_nothas _ _ h1', dim_nothas _ _ h2']
  | case5 x p q j hp hq =>
    intro r hw h _
    simp only [Option.some.injEq] at h; subst h
    have hp' : FI.has j (fi p) = true := by simpa using hp
    refine ⟨?_, by simp [shape], fun i => by simp only [fi]; exact has_remove j _ i, fun i hi => by simp only [fi]; exact dimOf_remove i j hi _⟩
    have : WF (.op .indexSum [] [.op .product x [p, q], .mi [.free j]]) = (WF (.op .product x [p, q]) && FI.has j (fi (.op .product x [p, q]))) := by
      simp only [WF]
    rw [this, hw]
    simp only [fi, Bool.true_and]; rw [has_merge, hp']; rfl
  | case6 e j h1 h2 hj =>
    intro r hw h _
    simp only [hj, ↓reduceIte, Option.some.injEq] at h; subst h
    refine ⟨by simp [WF, hw, hj], by simp [shape], fun i => by simp only [fi]; exact has_remove j _ i, fun i hi => by simp only [fi]; exact dimOf_remove i j hi _⟩
  | case7 e j h1 h2 hj =>
    intro r _ h
    simp [hj] at h


/-! ## Indexed -/

theorem insertChecked_eq (p : Nat × Nat) : ∀ (f f' : FI), FI'.insertChecked p f = some f' → f' = FI.insert p f
  | [], f', h => by simp [FI'.insertChecked] at h; simp [FI.insert, h]
  | q :: qs, f', h => by
    unfold FI'.insertChecked at h
    unfold FI.insert
    split at h
    · rename_i hlt; simp only [Option.some.injEq] at h; simp [hlt, h]
    · rename_i hlt
      split at h
      · rename_i heq
        split at h
        · simp only [Option.some.injEq] at h; simp [hlt, heq, h]
        · cases h
      · rename_i hne
        simp only [Option.map_eq_some_iff] at h
        obtain ⟨g, hg, rfl⟩ := h
        simp [hlt, hne, insertChecked_eq p qs g hg]

/-- when the consistency check of `Indexed.__init__` passes, the free indices are those computed by `fi` -/
theorem indexedFI_eq (sh : List Nat) : ∀ (ps : List (Idx × Nat)) (f f' : FI), (∀ p ∈ ps, p.2 < sh.length) →
    ps.foldl (fun acc p => match acc, p.1 with
      | none, _ => none
      | some f, .free c => (match sh[p.2]? with
          | some d => FI'.insertChecked (c, d) f
          | none => none)
      | some f, .fixed _ => some f) (some f) = some f' →
    f' = (idxPairs sh ps).foldl (fun acc p => FI.insert p acc) f
  | [], f, f', _, h => by simp at h; simp [idxPairs, h]
  | (.fixed v, k) :: ps, f, f', hr, h => by
    simp only [List.foldl_cons] at h
    simp only [idxPairs]
    exact indexedFI_eq sh ps f f' (fun p hp => hr p (by simp [hp])) h
  | (.free c, k) :: ps, f, f', hr, h => by
    simp only [List.foldl_cons] at h
    have hk : k < sh.length := hr (.free c, k) (by simp)
    have hget : sh[k]? = some (sh.getD k 0) := by simp [List.getD, hk]
    simp only [hget] at h
    cases hi : FI'.insertChecked (c, sh.getD k 0) f with
    | none =>
      rw [hi] at h
      have : ∀ (qs : List (Idx × Nat)), qs.foldl (fun acc p => match acc, p.1 with
          | none, _ => none
          | some f, .free c => (match sh[p.2]? with
              | some d => FI'.insertChecked (c, d) f
              | none => none)
          | some f, .fixed _ => some f) (none : Option FI) = none := by
        intro qs; induction qs with
        | nil => rfl
        | cons q qs ih => simp only [List.foldl_cons]; exact ih
      rw [this] at h; cases h
    | some g =>
      rw [hi] at h
      simp only [idxPairs, List.foldl_cons]
      rw [← insertChecked_eq _ _ _ hi]
      exact indexedFI_eq sh ps g f' (fun p hp => hr p (by simp [hp])) h

theorem zipIdx_lt {α : Type} (l : List α) : ∀ p ∈ l.zipIdx, p.2 < l.length := by
  intro p hp
  have := List.mem_zipIdx hp
  omega

theorem indexedFI_spec (A : Expr) (is : List Idx) (f' : FI) (hl : is.length = (shape A).length)
    (h : indexedFI (fi A) (shape A) is = some f') : f' = fi (.op .indexed [] [A, .mi is]) := by
  unfold indexedFI at h
  simp only [fi]
  exact indexedFI_eq (shape A) is.zipIdx (fi A) f' (fun p hp => by have := zipIdx_lt is p hp; omega) h

theorem dimOf_foldl_insert_other (i : Nat) : ∀ (ps : List (Nat × Nat)) (f : FI), Sorted f → (∀ p ∈ ps, p.1 ≠ i) →
    FI.dimOf i (ps.foldl (fun acc p => FI.insert p acc) f) = FI.dimOf i f
  | [], f, _, _ => rfl
  | p :: ps, f, hs, hne => by
    simp only [List.foldl_cons]
    rw [dimOf_foldl_insert_other i ps _ (insert_sorted p f hs) (fun q hq => hne q (by simp [hq])), dimOf_insert p i f hs]
    have : ¬ p.1 = i := hne p (by simp)
    simp [this]

theorem idxPairs_counts (sh : List Nat) : ∀ (ps : List (Idx × Nat)) (p : Nat × Nat), p ∈ idxPairs sh ps → (Idx.free p.1) ∈ ps.map (·.1)
  | [], p, h => by simp [idxPairs] at h
  | (.fixed v, k) :: ps, p, h => by
    simp only [idxPairs] at h
    simp only [List.map_cons, List.mem_cons]
    exact Or.inr (idxPairs_counts sh ps p h)
  | (.free c, k) :: ps, p, h => by
    simp only [idxPairs, List.mem_cons] at h
    simp only [List.map_cons, List.mem_cons]
    cases h with
    | inl e => left; rw [e]
    | inr e => exact Or.inr (idxPairs_counts sh ps p e)

theorem indexed_fi_facts (A : Expr) (is : List Idx) (hw : WF A = true) :
    Sorted (fi (.op .indexed [] [A, .mi is])) ∧
    (∀ i, FI.has i (fi (.op .indexed [] [A, .mi is])) = (FI.has i (fi A) || is.contains (.free i))) ∧
    (∀ i, is.contains (.free i) = false → FI.dimOf i (fi (.op .indexed [] [A, .mi is])) = FI.dimOf i (fi A)) := by
  refine ⟨by simp only [fi]; exact foldl_insert_sorted _ _ (fi_sorted A hw), fun i => has_indexed_fi A is [] i, fun i hi => ?_⟩
  simp only [fi]
  apply dimOf_foldl_insert_other i _ _ (fi_sorted A hw)
  intro p hp e
  have := idxPairs_counts (shape A) is.zipIdx p hp
  simp only [List.zipIdx_map_fst] at this
  rw [e] at this
  have hc : is.contains (.free i) = true := by simpa using this
  rw [hi] at hc; cases hc

/-- the plain `Indexed` node: well formed, scalar, with the expected free indices and value -/
theorem plainIndexed_spec (ρ : Env K) (s : Side) (A : Expr) (is : List Idx) (r : Expr) (hw : WF A = true)
    (h : plainIndexed A is = some r) :
    WF r = true ∧ shape r = [] ∧ (∀ i, FI.has i (fi r) = (FI.has i (fi A) || is.contains (.free i))) ∧
    (∀ i, is.contains (.free i) = false → FI.dimOf i (fi r) = FI.dimOf i (fi A)) ∧
    ∀ ι, eval ρ s ι r [] = eval ρ s ι A (is.map (Idx.resolve ι)) := by
  unfold plainIndexed at h
  simp only at h
  split at h
  · cases h
  · rename_i hl
    split at h
    · cases h
    · rename_i hr
      split at h
      · rename_i f' hf
        simp only [Option.some.injEq] at h; subst h
        have hl' : is.length = (shape A).length := by have := hl; simp only [ne_eq, Decidable.not_not] at this; exact this.symm
        refine ⟨?_, by simp [shape], fun i => has_indexed_fi A is [] i, fun i hi => ?_, fun ι => by simp [eval]⟩
        · simp only [WF, Bool.and_eq_true, beq_iff_eq]
          refine ⟨⟨⟨hw, hl'⟩, ?_⟩, by simp [hf]⟩
          simp only [Bool.not_eq_true, List.any_eq_false] at hr
          simp only [fixedInRange, List.all_eq_true]
          intro p hp
          have := hr p hp
          cases hp1 : p.1 with
          | fixed v => simp only [hp1, decide_eq_false_iff_not, Nat.not_le] at this; simpa using this
          | free c => rfl
        · simp only [fi]
          apply dimOf_foldl_insert_other i _ _ (fi_sorted A hw)
          intro p hp e
          have := idxPairs_counts (shape A) is.zipIdx p hp
          simp only [List.zipIdx_map_fst] at this
          rw [e] at this
          have hc : is.contains (.free i) = true := by simpa using this
          rw [hi] at hc; cases hc
      · cases h


/-- what `Indexed(A, is)` must be: a well-formed scalar whose free indices are those of A plus the
    free indices of `is`, and whose value is the component of A that `is` selects -/
def IdxSpec (ρ : Env K) (s : Side) (A : Expr) (is : List Idx) (r : Expr) : Prop :=
  WF r = true ∧ shape r = [] ∧ (∀ i, FI.has i (fi r) = (FI.has i (fi A) || is.contains (.free i))) ∧
  (∀ i, is.contains (.free i) = false → FI.dimOf i (fi r) = FI.dimOf i (fi A)) ∧
  ∀ ι, eval ρ s ι r [] = eval ρ s ι A (is.map (Idx.resolve ι))

/- The part of `ComponentTensor._simplify_indexed` that rewrites `as_tensor(C[kk], jj)[is]` to
   `C[kk with jj := is]` is covered by the correspondence and the value oracle only; the theorem below
   is for expressions in which no component tensor has a plain `Indexed` node as its body
   (the shortcut then never fires and the indexing stays a plain node). -/
mutual
def Hyg : Expr → Bool
  | .op .componentTensor _ (.op .indexed _ _ :: _) => false
  | .op _ _ args => HygL args
  | _ => true
def HygL : List Expr → Bool
  | [] => true
  | a :: as => Hyg a && HygL as
end

theorem resolve_set_irrelevant (ι : IdxEnv) (j v : Nat) : ∀ (is : List Idx), is.contains (.free j) = false →
    is.map (Idx.resolve (ι.set j v)) = is.map (Idx.resolve ι)
  | [], _ => rfl
  | .fixed w :: is, h => by
    simp only [List.contains_cons, Bool.or_eq_false_iff] at h
    simp only [List.map_cons, Idx.resolve, resolve_set_irrelevant ι j v is h.2]
  | .free c :: is, h => by
    simp only [List.contains_cons, Bool.or_eq_false_iff, beq_eq_false_iff_ne, ne_eq, Idx.free.injEq] at h
    have : ¬ c = j := fun e => h.1 e.symm
    simp only [List.map_cons, Idx.resolve, resolve_set_irrelevant ι j v is h.2, IdxEnv.set, this, ↓reduceIte]

theorem evalNth_get (ρ : Env K) (s : Side) (ι : IdxEnv) : ∀ (xs : List Expr) (v : Nat) (row : Expr) (c : List Nat),
    xs[v]? = some row → evalNth ρ s ι xs v c = eval ρ s ι row c
  | [], v, row, c, h => by simp at h
  | x :: xs, 0, row, c, h => by simp at h; subst h; simp [evalNth]
  | x :: xs, v + 1, row, c, h => by
    simp only [List.getElem?_cons_succ] at h
    simp only [evalNth]; exact evalNth_get ρ s ι xs v row c h

theorem wfl_get : ∀ (xs : List Expr) (v : Nat) (row : Expr), WFL xs = true → xs[v]? = some row → WF row = true
  | [], v, row, _, h => by simp at h
  | x :: xs, 0, row, hw, h => by simp at h; subst h; simp only [WFL, Bool.and_eq_true] at hw; exact hw.1
  | x :: xs, v + 1, row, hw, h => by
    simp only [List.getElem?_cons_succ] at h
    simp only [WFL, Bool.and_eq_true] at hw
    exact wfl_get xs v row hw.2 h

theorem hygl_get : ∀ (xs : List Expr) (v : Nat) (row : Expr), HygL xs = true → xs[v]? = some row → Hyg row = true
  | [], v, row, _, h => by simp at h
  | x :: xs, 0, row, hw, h => by simp at h; subst h; simp only [HygL, Bool.and_eq_true] at hw; exact hw.1
  | x :: xs, v + 1, row, hw, h => by
    simp only [List.getElem?_cons_succ] at h
    simp only [HygL, Bool.and_eq_true] at hw
    exact hygl_get xs v row hw.2 h

theorem fixedInRange_tail (n : Nat) (sh : List Nat) (k : Idx) (ks : List Idx) (h : fixedInRange (n :: sh) (k :: ks) = true) :
    fixedInRange sh ks = true := by
  simp only [fixedInRange, List.all_eq_true] at h ⊢
  intro p hp
  have hm : (p.1, p.2 + 1) ∈ (k :: ks).zipIdx := by
    rw [List.zipIdx_cons]
    simp only [List.mem_cons]
    right
    rw [List.mem_zipIdx_iff_getElem?] at hp
    rw [List.mem_zipIdx_iff_le_and_getElem?_sub]
    simpa using hp
  have := h (p.1, p.2 + 1) hm
  simpa using this


theorem contains_free_cons_fixed (v : Nat) (ks : List Idx) (i : Nat) :
    (Idx.fixed v :: ks).contains (.free i) = ks.contains (.free i) := by
  simp [List.contains_cons]

/-- **`Indexed(A, is)` with every `_simplify_indexed` shortcut**: the result is a well-formed
    scalar with the free indices of A plus those of `is`, and its value is the selected component. -/
theorem mkIndexedF_spec (ρ : Env K) (s : Side) : ∀ (fuel : Nat) (A : Expr) (is : List Idx) (r : Expr),
    WF A = true → Hyg A = true → mkIndexedF fuel A is = some r → isUnsupported r = false →
    is.length = (shape A).length → fixedInRange (shape A) is = true → IdxSpec ρ s A is r := by
  intro fuel
  induction fuel with
  | zero => intro A is r _ _ h; simp [mkIndexedF] at h
  | succ fuel ih =>
    intro A is r hw hy h hu hl hr
    cases is with
    | nil =>
      simp only [mkIndexedF, Option.some.injEq] at h
      have hs : shape A = [] := by simpa using hl.symm
      rw [← h]
      exact ⟨hw, hs, fun i => by simp, fun i _ => rfl, fun ι => by simp⟩
    | cons k ks =>
      unfold mkIndexedF at h
      simp only at h
      split at h
      · -- Zero
        rename_i sh f
        split at h
        · rename_i f' hf
          simp only [Option.some.injEq] at h; subst h
          have e := indexedFI_spec (.zero sh f) (k :: ks) f' hl (by simpa [fi, shape] using hf)
          obtain ⟨f1, f2, f3⟩ := indexed_fi_facts (.zero sh f) (k :: ks) hw
          refine ⟨?_, by simp [shape], fun i => by simp only [fi] at f2 ⊢; rw [e]; exact f2 i,
            fun i hi => by simp only [fi] at f3 ⊢; rw [e]; exact f3 i hi, fun ι => by simp [eval]⟩
          simp only [WF]; rw [e]
          exact (sortedFI_iff _).mpr f1
        · cases h
      · -- Sum
        rename_i x a b
        obtain ⟨xa, hxa, uxa, h⟩ := bindU_some _ _ r h hu
        obtain ⟨xb, hxb, uxb, h⟩ := bindU_some _ _ r h hu
        simp only [WF, Bool.and_eq_true, beq_iff_eq] at hw
        obtain ⟨⟨⟨wa, wb⟩, hs⟩, hf⟩ := hw
        have hya : Hyg a = true ∧ Hyg b = true := by simpa [Hyg, HygL] using hy
        simp only [shape] at hl hr
        obtain ⟨w1, s1, has1, dim1, ev1⟩ := ih a (k :: ks) xa wa hya.1 hxa uxa hl hr
        obtain ⟨w2, s2, has2, dim2, ev2⟩ := ih b (k :: ks) xb wb hya.2 hxb uxb (by rw [← hs]; exact hl) (by rw [← hs]; exact hr)
        obtain ⟨ev, shr, fir⟩ := C05_mkSum ρ s (fun _ => 0) xa xb r h hu
        refine ⟨mkSum_wf xa xb r w1 w2 h hu, by rw [shr, s1], fun i => by rw [fir]; simp only [fi]; exact has1 i,
          fun i hi => by rw [fir]; simp only [fi]; exact dim1 i hi, fun ι => ?_⟩
        rw [(C05_mkSum ρ s ι xa xb r h hu).1 [], ev1 ι, ev2 ι]
        simp [eval]
      · -- IndexSum
        rename_i x A' j
        split at h
        · exact plainIndexed_spec ρ s _ _ r hw h
        · rename_i hj
          have hj' : (k :: ks).contains (.free j) = false := by simpa using hj
          obtain ⟨xa, hxa, uxa, h⟩ := bindU_some _ _ r h hu
          simp only [WF, Bool.and_eq_true] at hw
          have hyA : Hyg A' = true := by simpa [Hyg, HygL] using hy
          simp only [shape] at hl hr
          obtain ⟨w1, s1, has1, dim1, ev1⟩ := ih A' (k :: ks) xa hw.1 hyA hxa uxa hl hr
          obtain ⟨wr, sr, hasr, dimr⟩ := mkIndexSum_wf xa j r w1 h hu
          refine ⟨wr, by rw [sr, s1], fun i => ?_, fun i hi => ?_, fun ι => ?_⟩
          · rw [hasr, has1]; simp only [fi]; rw [has_remove]
            by_cases hij : i = j
            · subst hij; rw [hj']; simp
            · simp [hij]
          · simp only [fi]
            by_cases hij : i = j
            · subst hij
              rw [dimOf_remove_self, dim_nothas]
              rw [hasr]; simp
            · rw [dimr i hij, dim1 i hi, dimOf_remove i j hij]
          · rw [C05_mkIndexSum ρ s xa j ι r w1 h hu [] (by simp [s1])]
            simp only [eval]
            rw [sumRange_eq_sum, dim1 j hj']
            apply Finset.sum_congr rfl
            intro v _
            rw [ev1 (ι.set j v), resolve_set_irrelevant ι j v (k :: ks) hj']
      · -- ListTensor
        rename_i x xs
        cases k with
        | free c => exact plainIndexed_spec ρ s _ _ r hw h
        | fixed v =>
          simp only at h
          cases hrow : xs[v]? with
          | none => simp [hrow] at h
          | some row =>
            simp only [hrow] at h
            cases xs with
            | nil => simp at hrow
            | cons x0 rest =>
              simp only [WF, Bool.and_eq_true, List.all_eq_true, beq_iff_eq] at hw
              obtain ⟨⟨w0, wr⟩, hsame⟩ := hw
              have wfl : WFL (x0 :: rest) = true := by simp [WFL, w0, wr]
              have wrow := wfl_get _ v row wfl hrow
              have hyl : HygL (x0 :: rest) = true := by simpa [Hyg] using hy
              have hyrow := hygl_get _ v row hyl hrow
              have hrow_in : row ∈ x0 :: rest := List.mem_of_getElem? hrow
              have srow : shape row = shape x0 ∧ fi row = fi x0 := by
                cases List.mem_cons.mp hrow_in with
                | inl e => rw [e]; exact ⟨rfl, rfl⟩
                | inr e => exact hsame row e
              simp only [shape] at hl hr
              have hl' : ks.length = (shape row).length := by rw [srow.1]; simpa using hl
              have hr' : fixedInRange (shape row) ks = true := by rw [srow.1]; exact fixedInRange_tail _ _ _ _ hr
              obtain ⟨w1, s1, has1, dim1, ev1⟩ := ih row ks r wrow hyrow h hu hl' hr'
              refine ⟨w1, s1, fun i => ?_, fun i hi => ?_, fun ι => ?_⟩
              · rw [has1, contains_free_cons_fixed]; simp only [fi]; rw [srow.2]
              · rw [contains_free_cons_fixed] at hi
                rw [dim1 i hi]; simp only [fi]; rw [srow.2]
              · rw [ev1 ι]
                simp only [List.map_cons, Idx.resolve, eval]
                rw [evalNth_get ρ s ι _ v row _ hrow]
      · -- ComponentTensor: the body is not a plain Indexed node, so no shortcut applies
        rename_i x B jj
        split at h
        · cases h
        · have hB : ∀ y args, B ≠ .op .indexed y args := by
            intro y args e; subst e; simp [Hyg] at hy
          split at h
          · rename_i heq
            split at heq
            · rename_i y rows kk; exact absurd rfl (hB _ _)
            · simp only at heq
              exact absurd heq (hB _ _)
          · exact plainIndexed_spec ρ s _ _ r hw h
      · -- anything else
        exact plainIndexed_spec ρ s _ _ r hw h


/-- `Indexed(A, MultiIndex(is))` as built by the class, for every expression in which no component
    tensor has a plain `Indexed` body (see the note at `Hyg`): zero folding, distribution over sums,
    indexing inside index sums (never with the summation index itself), selection of a list-tensor
    row by a fixed index, and the plain node. -/
theorem C05_mkIndexed_partial (ρ : Env K) (s : Side) (A : Expr) (is : List Idx) (r : Expr)
    (hw : WF A = true) (hy : Hyg A = true) (h : mkIndexed A is = some r) (hu : isUnsupported r = false)
    (hl : is.length = (shape A).length) (hr : fixedInRange (shape A) is = true) : IdxSpec ρ s A is r :=
  mkIndexedF_spec ρ s (A.size + 1) A is r hw hy h hu hl hr

/-! ## ComponentTensor -/

theorem bind_not_mem (i : Nat) : ∀ (cs c : List Nat) (ι : IdxEnv), cs.contains i = false →
    (ι.bind (cs.map Idx.free) c) i = ι i
  | [], _, ι, _ => by simp [IdxEnv.bind]
  | j :: cs, [], ι, _ => by simp [IdxEnv.bind]
  | j :: cs, v :: c, ι, h => by
    simp only [List.contains_cons, Bool.or_eq_false_iff, beq_eq_false_iff_ne, ne_eq] at h
    simp only [List.map_cons, IdxEnv.bind]
    rw [bind_not_mem i cs c _ h.2]
    simp [IdxEnv.set, h.1]

theorem bind_resolve : ∀ (cs c : List Nat) (ι : IdxEnv), nodupNat cs = true → cs.length = c.length →
    (cs.map Idx.free).map (Idx.resolve (ι.bind (cs.map Idx.free) c)) = c
  | [], [], _, _, _ => rfl
  | j :: cs, v :: c, ι, hn, hl => by
    simp only [nodupNat, Bool.and_eq_true, Bool.not_eq_true'] at hn
    simp only [List.map_cons, IdxEnv.bind, Idx.resolve]
    rw [bind_not_mem j cs c _ hn.1]
    have := bind_resolve cs c (ι.set j v) hn.2 (by simpa using hl)
    rw [this]; simp [IdxEnv.set]
  | [], _ :: _, _, _, hl => by simp at hl
  | _ :: _, [], _, _, hl => by simp at hl

/-- `ComponentTensor(a, MultiIndex(is))` = `as_tensor(a, is)`: component c is the value of a with
    the bound indices set to c.  For the shortcut `as_tensor(A[is], is) → A` the bound indices
    must be distinct and not free in A (a repeated index is summed by the public operators, so
    bodies built through them satisfy this). -/
theorem C05_mkComponentTensor (ρ : Env K) (s : Side) (ι : IdxEnv) (a : Expr) (is : List Idx) (r : Expr)
    (hw : WF a = true) (h : mkComponentTensor a is = some r)
    (hsc : ∀ x A, a = .op .indexed x [A, .mi is] → ∃ cs, allFree is = some cs ∧ nodupNat cs = true ∧ ∀ j ∈ cs, FI.has j (fi A) = false)
    (c : List Nat) (hc : c.length = is.length) :
    eval ρ s ι r c = eval ρ s (ι.bind is c) a [] := by
  unfold mkComponentTensor at h
  split at h
  · cases h
  · rename_i cs hcs
    obtain ⟨_, h2, h3⟩ := allFree_spec is cs hcs
    split at h
    · rename_i sh f
      split at h
      · simp only [Option.some.injEq] at h; subst h; simp [eval]
      · cases h
    · rename_i hnz
      simp only [Option.orElse] at h
      split at h
      · rename_i x heq
        split at heq
        · rename_i y A ii
          split at heq
          · rename_i hii
            simp only [Option.some.injEq] at heq
            simp only [Option.some.injEq] at h
            subst hii
            rw [← heq] at h; subst h
            obtain ⟨cs', hcs', hn, hd⟩ := hsc y A rfl
            rw [hcs] at hcs'; simp only [Option.some.injEq] at hcs'; subst hcs'
            simp only [WF, Bool.and_eq_true, beq_iff_eq] at hw
            obtain ⟨⟨⟨wA, hlA⟩, _⟩, _⟩ := hw
            simp only [eval]
            rw [h3, bind_resolve cs c ι hn (by omega)]
            symm
            apply eval_congr ρ s A wA c (by omega)
            intro i hi
            apply bind_not_mem i cs c ι
            rw [Bool.eq_false_iff]
            intro hic
            have := hd i (by simpa using hic)
            rw [this] at hi; cases hi
          · cases heq
        · cases heq
      · split at h
        · cases h
        · split at h
          · simp only [Option.some.injEq] at h; subst h; simp [eval]
          · cases h


/-! ## Conditional -/

/-- `Conditional(c, t, f)`: t where c holds, f elsewhere; equal branches fold to the branch -/
theorem C05_mkConditional (ρ : Env K) (s : Side) (ι : IdxEnv) (c t f r : Expr) (h : mkConditional c t f = some r)
    (comp : List Nat) :
    eval ρ s ι r comp = if evalB ρ s ι c then eval ρ s ι t comp else eval ρ s ι f comp := by
  unfold mkConditional at h
  split at h
  · rename_i htf
    simp only [Option.some.injEq] at h; subst h
    have := eq_of_beq_inst t f htf
    subst this; simp
  · split at h
    · cases h
    · split at h
      · cases h
      · split at h
        · split at h
          · simp only [Option.some.injEq] at h; subst h; simp [eval]
          · cases h
        · split at h
          · simp only [Option.some.injEq] at h; subst h; simp [eval]
          · cases h
        · simp only [Option.some.injEq] at h; subst h; simp [eval]

/-! ## ListTensor -/

theorem evalNth_zero (ρ : Env K) (s : Side) (ι : IdxEnv) : ∀ (xs : List Expr) (v : Nat) (c : List Nat),
    xs.all isZero = true → evalNth ρ s ι xs v c = 0
  | [], v, c, _ => by simp [evalNth]
  | x :: xs, 0, c, h => by
    simp only [List.all_cons, Bool.and_eq_true] at h
    simp only [evalNth]; exact eval_zero ρ s ι x h.1 c
  | x :: xs, v + 1, c, h => by
    simp only [List.all_cons, Bool.and_eq_true] at h
    simp only [evalNth]; exact evalNth_zero ρ s ι xs v c h.2

theorem allSome_get {α : Type} : ∀ (os : List (Option α)) (ys : List α), allSome os = some ys →
    ∀ k : Nat, os[k]? = (ys[k]?).map some
  | [], ys, h, k => by simp [allSome] at h; subst h; simp
  | some x :: os, ys, h, k => by
    simp only [allSome, Option.map_eq_some_iff] at h
    obtain ⟨ys', hy, rfl⟩ := h
    cases k with
    | zero => simp
    | succ k => simpa using allSome_get os ys' hy k
  | none :: os, ys, h, k => by simp [allSome] at h

theorem indexedParts_eq (x b : Expr) (is : List Idx) (h : indexedParts x = some (b, is)) :
    ∃ aux, x = .op .indexed aux [b, .mi is] := by
  unfold indexedParts at h
  split at h
  · simp only [Option.some.injEq, Prod.mk.injEq] at h; obtain ⟨rfl, rfl⟩ := h; exact ⟨_, rfl⟩
  · cases h

theorem singleton_of_dropLast_nil {α : Type} (l : List α) (a : α) (h1 : l.dropLast = []) (h2 : l.getLast? = some a) : l = [a] := by
  cases l with
  | nil => simp at h2
  | cons x xs =>
    cases xs with
    | nil => simp at h2; rw [h2]
    | cons y ys => simp [List.dropLast] at h1

/-- `ListTensor(*xs)`: component (v, c') is component c' of the v-th entry.  Covered: the plain
    node, the all-zero folding, and the collapse `[A[0], A[1], .., A[n-1]] → A` of a vector A;
    the collapse of rows of component tensors is excluded by `hno` (correspondence/oracle only). -/
theorem C05_mkListTensor_partial (ρ : Env K) (s : Side) (ι : IdxEnv) (xs : List Expr) (r : Expr)
    (h : mkListTensor xs = some r) (hu : isUnsupported r = false)
    (hno : ∃ x ∈ xs, ctIndexedParts x = none) (v : Nat) (hv : v < xs.length) (c' : List Nat)
    (hc : ∀ x ∈ xs, c'.length = (shape x).length) :
    eval ρ s ι r (v :: c') = evalNth ρ s ι xs v c' := by
  unfold mkListTensor at h
  cases xs with
  | nil => cases h
  | cons e0 rest =>
    simp only at h
    split at h
    · cases h
    · split at h
      · rename_i hz
        simp only [Option.some.injEq] at h; subst h
        rw [evalNth_zero ρ s ι _ v c' hz]; simp [eval]
      · split at h
        · -- rule 1: rows are base[0], base[1], ...
          rename_i r1 hr1
          simp only [Option.some.injEq] at h; subst h
          split at hr1
          · rename_i base i0 ps hall
            split at hr1
            · rename_i hcond
              simp only [Bool.and_eq_true, List.all_eq_true, beq_iff_eq, decide_eq_true_eq] at hcond
              obtain ⟨⟨⟨hlast, hbase⟩, hpre⟩, hfix⟩ := hcond
              split at hr1
              · rename_i hnil
                simp only [Option.some.injEq] at hr1; subst hr1
                have hnil' : i0.dropLast = [] := by simpa using hnil
                -- the v-th row
                obtain ⟨xv, hxv⟩ : ∃ xv, (e0 :: rest)[v]? = some xv := ⟨_, List.getElem?_eq_getElem hv⟩
                have hk := allSome_get _ _ hall v
                rw [List.getElem?_map, hxv] at hk
                simp only [Option.map_some] at hk
                cases hp : ((base, i0) :: ps)[v]? with
                | none => rw [hp] at hk; simp at hk
                | some p =>
                  rw [hp] at hk
                  simp only [Option.map_some, Option.some.injEq] at hk
                  obtain ⟨aux, hx⟩ := indexedParts_eq xv p.1 p.2 hk
                  have hmem : (p, v) ∈ ((base, i0) :: ps).zipIdx := by
                    rw [List.mem_zipIdx_iff_getElem?]; exact hp
                  have hfixv := hfix (p, v) hmem
                  simp only at hfixv
                  have hp1 : p.1 = base ∧ p.2.dropLast = [] := by
                    cases v with
                    | zero => simp at hp; subst hp; exact ⟨rfl, hnil'⟩
                    | succ v' =>
                      have hin : p ∈ ps := by
                        simp only [List.getElem?_cons_succ] at hp
                        exact List.mem_of_getElem? hp
                      exact ⟨eq_of_beq_inst _ _ (hbase p hin), by rw [hpre p hin]; exact hnil'⟩
                  have his : p.2 = [.fixed v] := singleton_of_dropLast_nil _ _ hp1.2 hfixv
                  rw [evalNth_get ρ s ι _ v xv c' hxv, hx, hp1.1, his]
                  have hc0 : c' = [] := by
                    have := hc xv (List.mem_of_getElem? hxv)
                    rw [hx] at this
                    simpa [shape] using this
                  subst hc0
                  simp [eval, Idx.resolve]
              · simp only [Option.some.injEq] at hr1; subst hr1
                simp [isUnsupported, unsupported] at hu
            · cases hr1
          · cases hr1
        · split at h
          · -- rule 2 is excluded by hypothesis
            rename_i r2 hr2
            exfalso
            obtain ⟨x, hx, hnone⟩ := hno
            split at hr2
            · rename_i base i0 j0 ps hall
              obtain ⟨k, hk⟩ := List.getElem?_of_mem hx
              have := allSome_get _ _ hall k
              rw [List.getElem?_map, hk] at this
              simp only [Option.map_some, hnone] at this
              cases hq : ((base, i0, j0) :: ps)[k]? <;> simp [hq] at this
            · cases hr2
          · simp only [Option.some.injEq] at h; subst h
            simp [eval]

end UflVerif.C05
