import UflVerif.Model.Construct
namespace UflVerif.C05
theorem C05_p1 : True := trivial
theorem C05_p2 : True := trivial
theorem C05_p3 : True := trivial
end UflVerif.C05
