/-
C10  Index rewriting passes are value-preserving and hygienic.

Models: Model/IndexPasses.lean (`renumber`, `rct`, `expand`), compared tree-for-tree with the implementation on every run.
This file: the defect of `remove_component_tensors` found on the pinned tree, as a kernel-checked counterexample on the
model of the code before the fix: commit, and the behaviour of the repaired pass on the same input.
Value theorems: Props/C10Rename.lean (renaming invariance, renumber_indices).
-/
import UflVerif.Model.IndexPasses
import UflVerif.Model.WF

namespace UflVerif.C10
open UflVerif Expr

def tA : Expr := .term { cls := "Coefficient", key := "A", shape := [2, 2] }
def tw : Expr := .term { cls := "Coefficient", key := "w", shape := [2] }

/-- `as_vector(A[i,j]*w[j], i)[j]` with i = 8, j = 9: the index j is free outside and bound (summed) inside -/
def capture : Expr :=
  .op .indexed [] [.op .componentTensor [] [.op .indexSum [] [.op .product [] [.op .indexed [] [tw, .mi [.free 9]], .op .indexed [] [tA, .mi [.free 8, .free 9]]], .mi [.free 9]], .mi [.free 8]],
    .mi [.free 9]]

/-- before the repair the substitution i ↦ j went under the binder of j: the free index j disappears
    (the result is the scalar Σ_j w[j] A[j,j]) -/
theorem C10_rct_old_counterexample :
    WF capture = true ∧ fi capture = [(9, 2)] ∧ (rctOld capture).map fi = some [] := by decide

/-- the repaired pass leaves such an expression alone (value, shape and free indices trivially preserved) -/
theorem C10_rct_refuses_capture : (rct capture).map (fun r => beq r capture) = some true := by decide

end UflVerif.C10
