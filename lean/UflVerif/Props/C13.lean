/-
C13  Structural equality, hashing, repr and pickling are consistent.

Two layers.
(1) Terminals and form-level objects (translator, Gen/EqFields.lean): for every class and every
    constructor field the harness builds two live objects that differ in exactly that field and one
    equal copy, and records which of ==, hash, repr, signature data, shape see the difference.
    `C13_fields_*` (kernel `decide` over the regenerated table): whatever hash / repr / signature /
    shape can see, == sees too; equal copies are ==, with equal hash and repr.
(2) Expressions (this file, generic): `==` is structural (`expr_equals`), the hash is a Merkle hash
    over (type, operand hashes), repr nests operand reprs.  If the terminals' ==, hash and repr are
    consistent then so are those of every expression, == is an equivalence relation, and the operand
    sharing `expr_equals` performs after a successful comparison changes no observer.
-/
import UflVerif.Model.ExprEq
import UflVerif.Gen.EqFields

namespace UflVerif.C13
open UflVerif Expr

/-! ## (1) the observation table -/
open Gen.EqFields in
/-- whatever the hash, the repr, the signature data or the shape of an object can see, `==` sees -/
theorem C13_fields_eq_sees_all : ∀ r ∈ rows,
    (r.hashSees = true → r.eqSees = true) ∧ (r.reprSees = true → r.eqSees = true) ∧
    (r.sigSees = true → r.eqSees = true) ∧ (r.shapeSees = true → r.eqSees = true) := by decide +kernel

open Gen.EqFields in
/-- conversely, objects that are != have different repr (otherwise eval(repr(.)) could not give back an equal object),
    and the changed objects survive pickle and eval(repr(.)) too -/
theorem C13_fields_repr_faithful : ∀ r ∈ rows, (r.eqSees = true → r.reprSees = true) ∧ r.altRoundTrip = true := by decide +kernel

open Gen.EqFields in
/-- an equal copy (same constructor arguments, distinct object) is ==, with equal hash and identical repr,
    and it survives pickle and eval(repr(.)) -/
theorem C13_fields_copies : ∀ k ∈ kinds,
    k.copyEq = true ∧ k.copyHash = true ∧ k.copyRepr = true ∧ k.pickleEq = true ∧ k.evalReprEq = true := by decide +kernel

open Gen.EqFields in
example : rows.length ≥ 40 ∧ kinds.length ≥ 15 := by decide +kernel

/-! ## (2) lifting to expressions (`TermObs`, `eqE`, `hashE`, `reprE`, `share` live in Model/ExprEq.lean) -/

variable (T : TermObs)

/-- the terminals' observers are consistent -/
def TermsOK : Prop :=
  ∀ a b, a.isTerminal = true → b.isTerminal = true → T.teq a b = true → T.thash a = T.thash b ∧ T.trepr a = T.trepr b

mutual
theorem congr_E (h : TermsOK T) : ∀ (a b : Expr), eqE T a b = true → hashE T a = hashE T b ∧ reprE T a = reprE T b
  | .op k x as, b, he => by
    cases b with
    | op k' x' bs =>
      simp only [eqE, Bool.and_eq_true, beq_iff_eq] at he
      obtain ⟨hk, hl⟩ := he
      have := congr_L h as bs hl
      simp only [hashE, reprE, hk, this.1, this.2, and_self]
    | _ => simp [eqE] at he
  | .int v, b, he => by cases b <;> simp only [eqE, Bool.false_eq_true] at he <;> simpa [hashE, reprE] using h _ _ rfl rfl he
  | .real n d, b, he => by cases b <;> simp only [eqE, Bool.false_eq_true] at he <;> simpa [hashE, reprE] using h _ _ rfl rfl he
  | .cplx p q r s, b, he => by cases b <;> simp only [eqE, Bool.false_eq_true] at he <;> simpa [hashE, reprE] using h _ _ rfl rfl he
  | .zero sh f, b, he => by cases b <;> simp only [eqE, Bool.false_eq_true] at he <;> simpa [hashE, reprE] using h _ _ rfl rfl he
  | .mi is, b, he => by cases b <;> simp only [eqE, Bool.false_eq_true] at he <;> simpa [hashE, reprE] using h _ _ rfl rfl he
  | .term d, b, he => by cases b <;> simp only [eqE, Bool.false_eq_true] at he <;> simpa [hashE, reprE] using h _ _ rfl rfl he
theorem congr_L (h : TermsOK T) : ∀ (as bs : List Expr), eqL T as bs = true → hashL T as = hashL T bs ∧ reprL T as = reprL T bs
  | [], [], _ => ⟨rfl, rfl⟩
  | a :: as, b :: bs, he => by
    simp only [eqL, Bool.and_eq_true] at he
    have h1 := congr_E h a b he.1
    have h2 := congr_L h as bs he.2
    simp only [hashL, reprL, h1.1, h1.2, h2.1, h2.2, and_self]
  | [], _ :: _, he => by simp [eqL] at he
  | _ :: _, [], he => by simp [eqL] at he
end

/-- **a == b implies equal hash and identical repr**, for expressions of any size -/
theorem C13_eq_implies_hash_repr (h : TermsOK T) (a b : Expr) (he : eqE T a b = true) :
    hashE T a = hashE T b ∧ reprE T a = reprE T b := congr_E T h a b he

/-- terminal equality is an equivalence relation -/
structure TermEquiv : Prop where
  refl : ∀ a, a.isTerminal = true → T.teq a a = true
  symm : ∀ a b, a.isTerminal = true → b.isTerminal = true → T.teq a b = true → T.teq b a = true
  trans : ∀ a b c, a.isTerminal = true → b.isTerminal = true → c.isTerminal = true →
    T.teq a b = true → T.teq b c = true → T.teq a c = true

mutual
theorem refl_E (h : TermEquiv T) : ∀ a : Expr, eqE T a a = true
  | .op k x as => by simp only [eqE, beq_self_eq_true, Bool.true_and]; exact refl_L h as
  | .int v => by simpa [eqE] using h.refl _ rfl
  | .real n d => by simpa [eqE] using h.refl _ rfl
  | .cplx p q r s => by simpa [eqE] using h.refl _ rfl
  | .zero sh f => by simpa [eqE] using h.refl _ rfl
  | .mi is => by simpa [eqE] using h.refl _ rfl
  | .term d => by simpa [eqE] using h.refl _ rfl
theorem refl_L (h : TermEquiv T) : ∀ as : List Expr, eqL T as as = true
  | [] => rfl
  | a :: as => by simp only [eqL, refl_E h a, refl_L h as, Bool.and_self]
end

mutual
theorem symm_E (h : TermEquiv T) : ∀ (a b : Expr), eqE T a b = true → eqE T b a = true
  | .op k x as, b, he => by
    cases b with
    | op k' x' bs =>
      simp only [eqE, Bool.and_eq_true, beq_iff_eq] at he ⊢
      exact ⟨he.1.symm, symm_L h as bs he.2⟩
    | _ => simp [eqE] at he
  | .int v, b, he => by cases b <;> simp only [eqE, Bool.false_eq_true] at he ⊢ <;> exact h.symm _ _ rfl rfl he
  | .real n d, b, he => by cases b <;> simp only [eqE, Bool.false_eq_true] at he ⊢ <;> exact h.symm _ _ rfl rfl he
  | .cplx p q r s, b, he => by cases b <;> simp only [eqE, Bool.false_eq_true] at he ⊢ <;> exact h.symm _ _ rfl rfl he
  | .zero sh f, b, he => by cases b <;> simp only [eqE, Bool.false_eq_true] at he ⊢ <;> exact h.symm _ _ rfl rfl he
  | .mi is, b, he => by cases b <;> simp only [eqE, Bool.false_eq_true] at he ⊢ <;> exact h.symm _ _ rfl rfl he
  | .term d, b, he => by cases b <;> simp only [eqE, Bool.false_eq_true] at he ⊢ <;> exact h.symm _ _ rfl rfl he
theorem symm_L (h : TermEquiv T) : ∀ (as bs : List Expr), eqL T as bs = true → eqL T bs as = true
  | [], [], _ => rfl
  | a :: as, b :: bs, he => by
    simp only [eqL, Bool.and_eq_true] at he ⊢
    exact ⟨symm_E h a b he.1, symm_L h as bs he.2⟩
  | [], _ :: _, he => by simp [eqL] at he
  | _ :: _, [], he => by simp [eqL] at he
end

mutual
theorem trans_E (h : TermEquiv T) : ∀ (a b c : Expr), eqE T a b = true → eqE T b c = true → eqE T a c = true
  | .op k x as, b, c, h1, h2 => by
    cases b with
    | op k' x' bs =>
      cases c with
      | op k'' x'' cs =>
        simp only [eqE, Bool.and_eq_true, beq_iff_eq] at h1 h2 ⊢
        exact ⟨h1.1.trans h2.1, trans_L h as bs cs h1.2 h2.2⟩
      | _ => simp [eqE] at h2
    | _ => simp [eqE] at h1
  | .int v, b, c, h1, h2 => by
    cases b <;> simp only [eqE, Bool.false_eq_true] at h1 <;> cases c <;> simp only [eqE, Bool.false_eq_true] at h2 ⊢ <;> exact h.trans _ _ _ rfl rfl rfl h1 h2
  | .real n d, b, c, h1, h2 => by
    cases b <;> simp only [eqE, Bool.false_eq_true] at h1 <;> cases c <;> simp only [eqE, Bool.false_eq_true] at h2 ⊢ <;> exact h.trans _ _ _ rfl rfl rfl h1 h2
  | .cplx p q r s, b, c, h1, h2 => by
    cases b <;> simp only [eqE, Bool.false_eq_true] at h1 <;> cases c <;> simp only [eqE, Bool.false_eq_true] at h2 ⊢ <;> exact h.trans _ _ _ rfl rfl rfl h1 h2
  | .zero sh f, b, c, h1, h2 => by
    cases b <;> simp only [eqE, Bool.false_eq_true] at h1 <;> cases c <;> simp only [eqE, Bool.false_eq_true] at h2 ⊢ <;> exact h.trans _ _ _ rfl rfl rfl h1 h2
  | .mi is, b, c, h1, h2 => by
    cases b <;> simp only [eqE, Bool.false_eq_true] at h1 <;> cases c <;> simp only [eqE, Bool.false_eq_true] at h2 ⊢ <;> exact h.trans _ _ _ rfl rfl rfl h1 h2
  | .term d, b, c, h1, h2 => by
    cases b <;> simp only [eqE, Bool.false_eq_true] at h1 <;> cases c <;> simp only [eqE, Bool.false_eq_true] at h2 ⊢ <;> exact h.trans _ _ _ rfl rfl rfl h1 h2
theorem trans_L (h : TermEquiv T) : ∀ (as bs cs : List Expr), eqL T as bs = true → eqL T bs cs = true → eqL T as cs = true
  | [], [], [], _, _ => rfl
  | a :: as, b :: bs, c :: cs, h1, h2 => by
    simp only [eqL, Bool.and_eq_true] at h1 h2 ⊢
    exact ⟨trans_E h a b c h1.1 h2.1, trans_L h as bs cs h1.2 h2.2⟩
  | [], [], _ :: _, _, h2 => by simp [eqL] at h2
  | [], _ :: _, _, h1, _ => by simp [eqL] at h1
  | _ :: _, [], _, h1, _ => by simp [eqL] at h1
  | _ :: _, _ :: _, [], _, h2 => by simp [eqL] at h2
end

/-- **== is an equivalence relation** on expressions -/
theorem C13_equivalence (h : TermEquiv T) :
    (∀ a, eqE T a a = true) ∧ (∀ a b, eqE T a b = true → eqE T b a = true) ∧
    (∀ a b c, eqE T a b = true → eqE T b c = true → eqE T a c = true) :=
  ⟨refl_E T h, symm_E T h, trans_E T h⟩

/-- **comparing never changes repr, hash (or anything == respects)**: the node with the adopted operands is
    == to the original, hence has the same hash and repr -/
theorem C13_compare_is_pure (h : TermsOK T) (he : TermEquiv T) (a b : Expr) (hab : eqE T a b = true) :
    eqE T (share a b) a = true ∧ hashE T (share a b) = hashE T a ∧ reprE T (share a b) = reprE T a := by
  have key : eqE T (share a b) a = true := by
    cases a with
    | op k x as =>
      cases b with
      | op k' x' bs =>
        simp only [eqE, Bool.and_eq_true, beq_iff_eq] at hab
        simp only [share, eqE, beq_self_eq_true, Bool.true_and]
        exact symm_L T he as bs hab.2
      | _ => simp [eqE] at hab
    | _ => simp only [share]; exact refl_E T he _
  exact ⟨key, congr_E T h _ _ key⟩

end UflVerif.C13
