/-
C19 (dispatch part)  "every expression type is dispatched to the handler of its nearest ancestor
type that defines one".

`Gen/Dispatch.lean` is regenerated on every run from the live classes: the MRO of every registered
UFL type, and for every MultiFunction / Transformer subclass found in ufl the table
typecode ↦ handler name *that the class itself computed* (`_handlers_cache`), and for every
DAGTraverser subclass the rule `functools.singledispatch` selects for every UFL type.
The theorems say these tables are exactly the nearest-ancestor tables; the quantifier is the finite
set (algorithm class × registered type), enumerated completely by the kernel.
-/
import UflVerif.Gen.Dispatch
import UflVerif.Model.Dispatch

namespace UflVerif.C19
open UflVerif.Gen.Dispatch UflVerif.Dispatch

/-- every MultiFunction / Transformer subclass: computed table = nearest-ancestor table -/
theorem C19_dispatch_nearest_ancestor :
    ∀ a ∈ algs, a.2.2.2 = typeMro.map (resolve a.2.2.1) := by decide +kernel

/-- ... and it is total: every registered type has a handler in every algorithm class -/
theorem C19_dispatch_total :
    ∀ a ∈ algs, a.2.2.2.length = typeMro.length ∧ ∀ e ∈ a.2.2.2, e.isSome = true := by decide +kernel

/-- every DAGTraverser subclass: the rule singledispatch selects for a type is the one registered
    for the first class of the type's MRO that has a registered rule -/
theorem C19_singledispatch_nearest_ancestor :
    ∀ d ∈ dags, d.2.2 = pyMro.map (resolve d.2.1) := by decide +kernel

/-- the MRO table is well formed: one row per typecode, each row starts with the type's own
    handler name and ends at the root `ufl_type` -/
theorem C19_mro_table_wf :
    typeMro.length = typeNames.length ∧ pyMro.length = typeNames.length ∧
    (∀ m ∈ typeMro, m.getLast? = handlerNames.idxOf? "ufl_type" ∧ m.Nodup) := by decide +kernel

example : algs.length ≥ 20 ∧ dags.length ≥ 10 ∧ typeMro.length ≥ 150 := by decide +kernel

end UflVerif.C19
