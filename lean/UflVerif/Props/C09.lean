/-
C09  Jacobian product cancellation preserves values.

Statement (properties.jsonl): cancelling contractions of the Jacobian with its inverse, eliminating Kronecker deltas and
cancelling reciprocal powers leaves the value, shape and free indices of every expression unchanged for every non-singular
(or, on manifolds, full-rank) Jacobian and every value of the remaining factors.

Model: Model/CancelJacobian.lean — `cancelF`/`pushF`/`indexSumF` (IndexSumSimplifier._cancel/_index_sum), `jcMatch`
(JacobianCanceller.match, _delta_cancellation), `ieMatch` (IdentityEliminator.match, IndexReplacer = C10's `replIdx`),
`simpWith` (the traversal), `asBaseExp`/`makePower`/`rcProduct`/`rcWith` (ReciprocalCanceller), `cancelWith` (the three passes);
every node is built through the modelled constructors of C05.  Tied to /repo tree-for-tree on every run
(harness/props/c09.py, Drivers/C09.lean).  `Guards.current` is the code as it is; the four Boolean guards are the repairs
proposed in fix_C09_1..4.diff.

THE FULL STATEMENT, for the code as it is in /repo (`cancelJacobianProducts = cancelWith Guards.current`):

    theorem C09_full (ρ : Env K) dims Pos T (hgeo : GeomOK ρ dims) (hGP : GeoPred (defPred ρ Pos T) dims)
        (hfold : FoldOK ρ) (hlaws : PowLaws ρ Pos) (e r : Expr) (h : cancelJacobianProducts e = some r)
        (hu : isUnsupported r = false) (hw : WF e = true) (hgd : Good (defPred ρ Pos T) e) : Equiv ρ e r

is FALSE: four kernel-checked counterexamples below (`C09_jc_counterexample`, `C09_ie_counterexample`,
`C09_ie_drop_counterexample`, `C09_rc_counterexample`), each replayed on the implementation by the harness on every run.
It is proved (`C09_all`) for the code with the four local guards of fix_C09_1..4.diff, and (`C09_all_partial`) for the code
as it is under the side condition that the guards do not change the outcome on the input (`cancelWith .repaired e =
cancelWith .current e`, computable by running the model twice).

What is proved here (for EVERY expression of the fragment `Good`, any size / nesting / re-use of index objects, every
environment satisfying the hypotheses; `Equiv ρ e r` = r is well formed, has the shape and free indices (with extents) of e, and
the same value for every side, every index environment inside the extents and every component):

  C09_cancel            `_cancel(factors, k)` returns the sum over k of the product of the factors, for any sound `match` rule
  C09_contraction       sum_k K[a,k] J[k,b] = Identity(tdim)[a,b]   and   sum_k J[a,k] K[k,b] = Identity(gdim)[a,b]  (gdim = tdim)
  C09_jc_match          JacobianCanceller.match is sound under GeomOK
  C09_jc                the JacobianCanceller pass (with the push guard) preserves value, shape and free indices
  C09_as_base_exponent  `_as_base_exponent` (integer guard): factor = base ** exponent, mergeably
  C09_make_power        `_make_power` builds the merged power
  C09_rc_product        the Product handler of ReciprocalCanceller (mixed-sign rule) keeps the product
  C09_rc                the ReciprocalCanceller pass (with the integer guard) preserves value, shape and free indices
  C09_index_replacer    IndexReplacer (C10's `replIdx`) on the fragment: substitution lemma
  C09_ie_match          IdentityEliminator.match is sound (substitution guard, keep-the-free-index guard)
  C09_ie                the IdentityEliminator pass preserves value, shape and free indices
  C09_all               cancel_jacobian_products (the three passes, with the four guards) preserves value, shape, free indices
  C09_*_partial         the passes AS THEY ARE in /repo, on every input on which the proposed guards do not change the outcome
  C09_jc_counterexample / C09_ie_counterexample / C09_ie_drop_counterexample / C09_rc_counterexample
                        the full statement is false of the code as it is (four defects)
  (Props/C09Real.lean)  C09_real_env_ok: the hypotheses on `Power`/`Abs` hold for the real numbers (Real.rpow);
                        C09_rc_counterexample_real: x = -2 is a counterexample over the reals
-/
import UflVerif.Props.C09.JC
import UflVerif.Props.C09.RCTraverse
import UflVerif.Props.C09.IE

namespace UflVerif.C09
open UflVerif Expr C05 FIlemmas Finset

variable {K : Type} [Field K] [CharZero K]

/-! ## IndexSumSimplifier -/

/-- **`_cancel` / `_index_sum`** (guarded push branch): whatever `_cancel(factors, k)` returns is the sum over k of the
    product of the factors — well formed, scalar, with the free indices of the factors other than k and the same extents —
    for every sound `match` rule and every recursion depth. -/
theorem C09_cancel (ρ : Env K) (P : NodePred) (m : MatchFn) (hm : MatchSound ρ P m) (g : Guards) (hg : g.push = true)
    (fuel : Nat) (fs : List Expr) (k : Nat) (r : Expr) (h : cancelF m g fuel fs k = some (some r))
    (hu : isUnsupported r = false) (hf : Factors fs) (hgd : ∀ f ∈ fs, Good P f) : SumSpec ρ fs k r ∧ Good P r :=
  (cancel_sound ρ P m hm g hg fuel).1 fs k r h hu hf hgd

/-! ## JacobianCanceller -/

/-- **the contraction lemma**: for terminals X (shape n×q) and Y (shape q×n) with `sum_v X[a,v] Y[v,b] = δ_ab`,
    `sum_k X[a,k] Y[k,b]` is `Identity(n)[a,b]` (a, b fixed or free, also equal). -/
theorem C09_contraction (ρ : Env K) (xa xb : List Nat) (dX dY : TermData) (n q : Nat) (a b : Idx) (k : Nat)
    (hX : dX.shape = [n, q]) (hY : dY.shape = [q, n])
    (hcX : dX.cls ≠ "Identity" ∧ dX.cls ≠ "Label") (hcY : dY.cls ≠ "Identity" ∧ dY.cls ≠ "Label")
    (ha : a ≠ .free k) (hb : b ≠ .free k)
    (hwX : WF (.op .indexed xa [.term dX, .mi [a, .free k]]) = true)
    (hwY : WF (.op .indexed xb [.term dY, .mi [.free k, b]]) = true)
    (hsum : ∀ s a' b', a' < n → b' < n →
      ∑ v ∈ range q, ρ.term s dX.key [a', v] * ρ.term s dY.key [v, b'] = if a' = b' then 1 else 0)
    (delta : Expr) (hd : plainIndexed (identityTerm n) [a, b] = some delta) :
    SumSpec ρ [.op .indexed xa [.term dX, .mi [a, .free k]], .op .indexed xb [.term dY, .mi [.free k, b]]] k delta :=
  contraction_spec ρ xa xb dX dY n q a b k hX hY hcX hcY ha hb hwX hwY hsum delta hd

/-- **`JacobianCanceller.match` is sound** under the geometry hypothesis. -/
theorem C09_jc_match (ρ : Env K) (dims : String → Nat × Nat) (P : NodePred) (hgeo : GeomOK ρ dims) (hP : GeoPred P dims) :
    MatchSound ρ P jcMatch := jcMatch_sound ρ dims P hgeo hP

/-- **C09 for the JacobianCanceller pass** (with the guard of fix_C09_1 on the push branch).  For every expression of the
    fragment, every environment in which the inverse Jacobian is a left inverse of the Jacobian on every domain (and a right
    inverse for square Jacobians): the pass returns an expression with the same shape, free indices and value. -/
theorem C09_jc (ρ : Env K) (dims : String → Nat × Nat) (P : NodePred) (hgeo : GeomOK ρ dims) (hP : GeoPred P dims)
    (hPk : PredOK ρ P) (hfold : FoldOK ρ) (g : Guards) (hg : g.push = true)
    (e r : Expr) (h : jcWith g e = some r) (hu : isUnsupported r = false) (hw : WF e = true) (hgd : Good P e) :
    Equiv ρ e r ∧ Good P r :=
  simp_sound ρ P jcMatch (jcMatch_sound ρ dims P hgeo hP) g hg false hPk hfold e r h hu hw hgd

/-- **C09 for the JacobianCanceller pass as it is in /repo** (no guard): on every input on which the proposed guard does not
    change the outcome.  (The full statement is false: `C09_jc_counterexample`.) -/
theorem C09_jc_partial (ρ : Env K) (dims : String → Nat × Nat) (P : NodePred) (hgeo : GeomOK ρ dims) (hP : GeoPred P dims)
    (hPk : PredOK ρ P) (hfold : FoldOK ρ)
    (e r : Expr) (h : jcWith .current e = some r) (hside : jcWith ⟨true, false, false, false⟩ e = jcWith .current e)
    (hu : isUnsupported r = false) (hw : WF e = true) (hgd : Good P e) : Equiv ρ e r ∧ Good P r :=
  C09_jc ρ dims P hgeo hP hPk hfold ⟨true, false, false, false⟩ rfl e r (hside ▸ h) hu hw hgd

/-! ## IdentityEliminator -/

/-- **`IndexReplacer` on the fragment** (the model `replIdx` of C10, as used by `_substitute`): replacing the index k by a (a
    free or a fixed index) in an expression that binds neither yields an expression `r` equivalent to a plainly substituted
    expression `E` whose value is the value of the original with k set to the value of a. -/
theorem C09_index_replacer (ρ : Env K) (P : NodePred) (hP : PredOK ρ P) (hPs : PredSubOK ρ P) (hfold : FoldOK ρ)
    (k : Nat) (a : Idx) (n : Nat) (hak : a ≠ .free k) (e r : Expr) (h : replIdx [(k, a)] e = some r)
    (hu : isUnsupported r = false) (hw : WF e = true) (hgd : Good P e) (hnb : NB k a e) (hdn : Dn k a n (fi e)) :
    ∃ E, Sub ρ P k a e E ∧ Equiv ρ E r ∧ Good P r :=
  repl_sound ρ P hP hPs hfold k a n hak e r h hu hw hgd hnb hdn

/-- **`IdentityEliminator.match` is sound** (with the guards of fix_C09_2 and fix_C09_4):
    `sum_k Identity[a,k] * others = others[k := a]`. -/
theorem C09_ie_match (ρ : Env K) (dims : String → Nat × Nat) (P : NodePred) (hGP : GeoPred P dims) (hP : PredOK ρ P)
    (hPs : PredSubOK ρ P) (hfold : FoldOK ρ) (g : Guards) (hg1 : g.subst = true) (hg2 : g.keep = true) :
    MatchSound ρ P (ieMatch g) := ieMatch_sound ρ dims P hGP hP hPs hfold g hg1 hg2

/-- **C09 for the IdentityEliminator pass** (with the guards of fix_C09_1, 2 and 4): the pass — elimination of Kronecker
    deltas under index sums, folding of `Identity` entries at fixed indices — returns an expression with the same shape, free
    indices and value. -/
theorem C09_ie (ρ : Env K) (dims : String → Nat × Nat) (P : NodePred) (hGP : GeoPred P dims) (hP : PredOK ρ P)
    (hPs : PredSubOK ρ P) (hfold : FoldOK ρ) (g : Guards) (hg0 : g.push = true) (hg1 : g.subst = true) (hg2 : g.keep = true)
    (e r : Expr) (h : ieWith g e = some r) (hu : isUnsupported r = false) (hw : WF e = true) (hgd : Good P e) :
    Equiv ρ e r ∧ Good P r :=
  simp_sound ρ P (ieMatch g) (ieMatch_sound ρ dims P hGP hP hPs hfold g hg1 hg2) g hg0 true hP hfold e r h hu hw hgd

/-- **C09 for the IdentityEliminator pass as it is in /repo**: on every input on which the proposed guards do not change the
    outcome.  (The full statement is false: `C09_ie_counterexample`, `C09_ie_drop_counterexample`.) -/
theorem C09_ie_partial (ρ : Env K) (dims : String → Nat × Nat) (P : NodePred) (hGP : GeoPred P dims) (hP : PredOK ρ P)
    (hPs : PredSubOK ρ P) (hfold : FoldOK ρ)
    (e r : Expr) (h : ieWith .current e = some r) (hside : ieWith .repaired e = ieWith .current e)
    (hu : isUnsupported r = false) (hw : WF e = true) (hgd : Good P e) : Equiv ρ e r ∧ Good P r :=
  C09_ie ρ dims P hGP hP hPs hfold .repaired rfl rfl rfl e r (hside ▸ h) hu hw hgd

/-! ## ReciprocalCanceller -/

/-- **`_as_base_exponent`** (with the integer guard of fix_C09_3): the factor is the returned base to the returned exponent, in
    a form that can be merged with other powers of the same base (`Chain`). -/
theorem C09_as_base_exponent (ρ : Env K) (Pos : K → Prop) (T : TermData → Prop) (hfold : FoldOK ρ) (hlaws : PowLaws ρ Pos)
    (g : Guards) (hg : g.pow = true) (f b : Expr) (q : ℚ) (h : asBaseExp g f = some (b, q)) (hw : WF f = true)
    (hgd : Good (defPred ρ Pos T) f) (s : Side) (ι : IdxEnv) :
    Chain ρ Pos (eval ρ s ι b []) q (eval ρ s ι f []) :=
  (asBaseExp_spec ρ Pos T hfold hlaws g hg f b q h hw hgd).2.2.2 s ι

/-- **`_make_power`**: the node built for a base and a merged exponent has the merged value. -/
theorem C09_make_power (ρ : Env K) (Pos : K → Prop) (T : TermData → Prop) (hfold : FoldOK ρ) (hlaws : PowLaws ρ Pos)
    (b : Expr) (q : ℚ) (r : Expr) (hq : q ≠ 0) (wb : WF b = true) (gb : Good (defPred ρ Pos T) b)
    (tb : trueScalar b = true) (hx : ∀ s ι, eval ρ s ι b [] ≠ 0)
    (hch : ∀ s ι, ∃ v, Chain ρ Pos (eval ρ s ι b []) q v)
    (h : makePower b q = some r) (hu : isUnsupported r = false) (s : Side) (ι : IdxEnv) (v : K)
    (hv : Chain ρ Pos (eval ρ s ι b []) q v) : eval ρ s ι r [] = v :=
  (makePower_spec ρ Pos T hfold hlaws b q r hq wb gb tb hx hch h hu).2.2.2 s ι v hv

/-- **the `Product` handler of ReciprocalCanceller** keeps the product (operands already processed). -/
theorem C09_rc_product (ρ : Env K) (Pos : K → Prop) (T : TermData → Prop) (hfold : FoldOK ρ) (hlaws : PowLaws ρ Pos)
    (g : Guards) (hg : g.pow = true) (x : List Nat) (a0 b0 a b r : Expr)
    (hw : WF (.op .product x [a0, b0]) = true) (hgo : Good (defPred ρ Pos T) (.op .product x [a0, b0]))
    (ea : Equiv ρ a0 a) (eb : Equiv ρ b0 b) (ga : Good (defPred ρ Pos T) a) (gb : Good (defPred ρ Pos T) b)
    (h : rcProduct g (.op .product x [a0, b0]) [a0, b0] a b = some r) (hu : isUnsupported r = false) :
    Equiv ρ (.op .product x [a0, b0]) r ∧ Good (defPred ρ Pos T) r :=
  rcProduct_spec ρ Pos T hfold hlaws g hg x a0 b0 a b r hw hgo ea eb ga gb h hu

/-- **C09 for the ReciprocalCanceller pass** (with the guard of fix_C09_3).  For every expression of the fragment in which
    every quotient has a non-vanishing denominator and every power a positive base or an integer exponent (`defPred`), under
    the power laws: the pass returns an expression with the same shape, free indices and value, and the result is again
    defined in this sense. -/
theorem C09_rc (ρ : Env K) (Pos : K → Prop) (T : TermData → Prop) (hfold : FoldOK ρ) (hlaws : PowLaws ρ Pos)
    (g : Guards) (hg : g.pow = true) (e r : Expr) (h : rcWith g e = some r) (hu : isUnsupported r = false)
    (hw : WF e = true) (hgd : Good (defPred ρ Pos T) e) : Equiv ρ e r ∧ Good (defPred ρ Pos T) r :=
  rc_sound ρ Pos T hfold hlaws g hg e r h hu hw hgd

/-- **C09 for the ReciprocalCanceller pass as it is in /repo**: on every input on which the integer guard does not change the
    outcome.  (The full statement is false: `C09_rc_counterexample`.) -/
theorem C09_rc_partial (ρ : Env K) (Pos : K → Prop) (T : TermData → Prop) (hfold : FoldOK ρ) (hlaws : PowLaws ρ Pos)
    (e r : Expr) (h : rcWith .current e = some r) (hside : rcWith ⟨false, false, true, false⟩ e = rcWith .current e)
    (hu : isUnsupported r = false) (hw : WF e = true) (hgd : Good (defPred ρ Pos T) e) :
    Equiv ρ e r ∧ Good (defPred ρ Pos T) r :=
  C09_rc ρ Pos T hfold hlaws ⟨false, false, true, false⟩ rfl e r (hside ▸ h) hu hw hgd

/-! ## cancel_jacobian_products -/

/-- **C09 (the three passes in sequence, with the four proposed guards).**  For every expression of the fragment (any
    nesting of index sums and products, re-used index objects, powers with arbitrary literal exponents), every environment in
    which the inverse Jacobian is a left inverse of the Jacobian on every domain (a right inverse too when it is square), every
    value of the remaining factors for which the quotients and powers of the expression are defined: `cancel_jacobian_products`
    returns an expression with the same shape, the same free indices (with extents) and the same value. -/
theorem C09_all (ρ : Env K) (dims : String → Nat × Nat) (Pos : K → Prop) (T : TermData → Prop)
    (hgeo : GeomOK ρ dims) (hGP : GeoPred (defPred ρ Pos T) dims) (hfold : FoldOK ρ) (hlaws : PowLaws ρ Pos)
    (e r : Expr) (h : cancelWith .repaired e = some r) (hu : isUnsupported r = false) (hw : WF e = true)
    (hgd : Good (defPred ρ Pos T) e) : Equiv ρ e r ∧ Good (defPred ρ Pos T) r := by
  unfold cancelWith at h
  obtain ⟨e1, h1, u1, h⟩ := bindU_some _ _ r h hu
  obtain ⟨e2, h2, u2, h3⟩ := bindU_some _ _ r h hu
  have hP := defPred_ok ρ Pos T
  have hPs := defPred_subok ρ Pos T
  obtain ⟨q1, g1⟩ := C09_jc ρ dims _ hgeo hGP hP hfold .repaired rfl e e1 h1 u1 hw hgd
  obtain ⟨q2, g2⟩ := C09_ie ρ dims _ hGP hP hPs hfold .repaired rfl rfl rfl e1 e2 h2 u2 q1.wf g1
  obtain ⟨q3, g3⟩ := C09_rc ρ Pos T hfold hlaws .repaired rfl e2 r h3 hu q2.wf g2
  exact ⟨(q1.trans q2).trans q3, g3⟩

/-- **C09 for `cancel_jacobian_products` as it is in /repo**: on every input on which none of the four proposed guards changes
    the outcome of any of the three passes. -/
theorem C09_all_partial (ρ : Env K) (dims : String → Nat × Nat) (Pos : K → Prop) (T : TermData → Prop)
    (hgeo : GeomOK ρ dims) (hGP : GeoPred (defPred ρ Pos T) dims) (hfold : FoldOK ρ) (hlaws : PowLaws ρ Pos)
    (e r : Expr) (h : cancelJacobianProducts e = some r) (hside : cancelWith .repaired e = cancelWith .current e)
    (hu : isUnsupported r = false) (hw : WF e = true) (hgd : Good (defPred ρ Pos T) e) :
    Equiv ρ e r ∧ Good (defPred ρ Pos T) r :=
  C09_all ρ dims Pos T hgeo hGP hfold hlaws e r (hside ▸ h) hu hw hgd

/-! ## the code as it is: counterexamples -/

def tJ : Expr := .term { cls := "Jacobian", key := "Jacobian(M)", shape := [2, 2] }
def tK : Expr := .term { cls := "JacobianInverse", key := "JacobianInverse(M)", shape := [2, 2] }
def tI : Expr := .term { cls := "Identity", key := "Identity(2)", shape := [2, 2] }
def tg : Expr := .term { cls := "Coefficient", key := "g", shape := [2] }
def tA : Expr := .term { cls := "Coefficient", key := "A", shape := [2, 2] }
def tx : Expr := .term { cls := "Coefficient", key := "x", shape := [] }

/-- `sum_k K[j,k] * (sum_j J[k,j] * g[j])` with j = 9, k = 10: the free index of K is the index bound by the inner sum -/
def pushCapture : Expr :=
  .op .indexSum [] [.op .product [] [.op .indexed [] [tK, .mi [.free 9, .free 10]],
      .op .indexSum [] [.op .product [] [.op .indexed [] [tg, .mi [.free 9]], .op .indexed [] [tJ, .mi [.free 10, .free 9]]], .mi [.free 9]]],
    .mi [.free 10]]

/-- the JacobianCanceller as it is moves `K[j,k]` under the sum over j: the free index j disappears (the result is
    `sum_j g[j] * Identity[j,j]`), so free indices — and with them the value — are not preserved.  With the proposed guard the
    expression is left alone. -/
theorem C09_jc_counterexample :
    WF pushCapture = true ∧ fi pushCapture = [(9, 2)] ∧ (jcWith .current pushCapture).map fi = some [] ∧
    (jcWith .repaired pushCapture).map (fun r => beq r pushCapture) = some true := by decide

/-- `sum_k I[a,k] * (sum_a A[a,k])` with a = 8, k = 10: the replacement index a is bound again in the other factor -/
def substCapture : Expr :=
  .op .indexSum [] [.op .product [] [.op .indexed [] [tI, .mi [.free 8, .free 10]],
      .op .indexSum [] [.op .indexed [] [tA, .mi [.free 8, .free 10]], .mi [.free 8]]],
    .mi [.free 10]]

/-- the IdentityEliminator as it is substitutes k := a below the sum over a: the free index a disappears
    (`sum_a A[a,a]`).  With the proposed guards the expression is left alone. -/
theorem C09_ie_counterexample :
    WF substCapture = true ∧ fi substCapture = [(8, 2)] ∧ (ieWith .current substCapture).map fi = some [] ∧
    (ieWith .repaired substCapture).map (fun r => beq r substCapture) = some true := by decide

/-- `sum_j I[a,j] * w[l]` with a = 8, j = 9, l = 11 (as left by the elimination of an inner delta): the delta is the only
    factor with j -/
def dropIndex : Expr :=
  .op .indexSum [] [.op .product [] [.op .indexed [] [tI, .mi [.free 8, .free 9]], .op .indexed [] [tg, .mi [.free 11]]], .mi [.free 9]]

/-- the IdentityEliminator as it is rewrites `sum_j I[a,j] * w[l]` to `w[l]`: the value is the same for every a inside its
    extent, but the free index a is gone (an enclosing sum over a then fails to build).  With the proposed guard the expression
    is left alone. -/
theorem C09_ie_drop_counterexample :
    WF dropIndex = true ∧ fi dropIndex = [(8, 2), (11, 2)] ∧ (ieWith .current dropIndex).map fi = some [(11, 2)] ∧
    (ieWith .repaired dropIndex).map (fun r => beq r dropIndex) = some true := by decide

/-- `(x**2)**0.5 * (1/x)` -/
def powerMerge : Expr :=
  .op .product [] [.op .power [] [.op .power [] [tx, .int 2], .real 1 2], .op .division [] [.int 1, tx]]

/-- the ReciprocalCanceller as it is merges `(x**2)**0.5` into `x**1` and rewrites the product to the literal 1; with the
    integer guard it leaves the expression alone. -/
theorem C09_rc_rewrites_to_one :
    WF powerMerge = true ∧ (rcWith .current powerMerge).map (fun r => beq r (.int 1)) = some true ∧
    (rcWith .repaired powerMerge).map (fun r => beq r powerMerge) = some true := by decide +kernel

/-- **the full statement is false of the ReciprocalCanceller as it is**: wherever `(v**2)**0.5 * (1/v) ≠ 1` — over the reals
    for every negative v, see `C09_rc_counterexample_real` in Props/C09Real.lean — the input `(x**2)**0.5 * (1/x)` with x = v has
    another value than the output `1`. -/
theorem C09_rc_counterexample (ρ : Env K) (v : K)
    (hv : ρ.fn2 "Power" (ρ.fn2 "Power" v 2) (1 / 2) * (1 / v) ≠ 1) :
    ∃ r, rcWith .current powerMerge = some r ∧
      eval { ρ with term := fun _ _ _ => v } .none (fun _ => 0) powerMerge [] ≠
      eval { ρ with term := fun _ _ _ => v } .none (fun _ => 0) r [] := by
  have hres : rcWith .current powerMerge = some (.int 1) := by
    have hd := C09_rc_rewrites_to_one.2.1
    cases hr : rcWith .current powerMerge with
    | none => rw [hr] at hd; cases hd
    | some r =>
      rw [hr] at hd
      simp only [Option.map_some, Option.some.injEq] at hd
      rw [beq_eq r (.int 1) hd]
  refine ⟨.int 1, hres, ?_⟩
  have n1 : ¬ ("Coefficient" = "Identity") := by decide
  have n2 : ¬ ("Coefficient" = "Label") := by decide
  simp only [powerMerge, tx, eval, n1, n2, ↓reduceIte, Int.cast_ofNat, Int.cast_one, Nat.cast_ofNat]
  exact hv


/-! ## the hypotheses are satisfiable (non-vacuity) -/

/-- the standard condition on terminals: Jacobians have the shapes the table `dims` says, Kronecker deltas are square -/
def stdTerm (dims : String → Nat × Nat) (d : TermData) : Prop :=
  geoTerm dims d ∧ (d.cls = "Identity" → ∃ n : Nat, d.shape = [n, n])

theorem C09_stdTerm_ok (ρ : Env K) (Pos : K → Prop) (dims : String → Nat × Nat) :
    GeoPred (defPred ρ Pos (stdTerm dims)) dims := by
  refine ⟨fun d h => h.1, fun n => ⟨⟨fun h => ?_, fun h => ?_⟩, fun _ => ⟨n, rfl⟩⟩, fun d h hc => h.2 hc⟩
  · simp at h
  · simp at h

/-- an executable environment over ℚ: every rank-2 terminal has the value of the involutory matrix [[2,-3],[1,-2]] (so the
    "inverse Jacobian" terminal is the inverse of the "Jacobian" terminal), vectors have the components 1, 2, ..;
    `Power` is the integer power, `Abs` the absolute value -/
def ratEnv : Env ℚ where
  term := fun _ _ c => match c with
    | [0, 0] => 2 | [0, 1] => -3 | [1, 0] => 1 | [1, 1] => -2
    | [i] => (i : ℚ) + 1
    | _ => 1
  jet := fun _ _ _ _ => 0
  fn := fun _ x => x
  fn2 := fun n x y => if n = "Power" then (if y.den = 1 then x ^ y.num else if x = 0 then 0 else 1) else 0
  abs := fun x => |x|
  conj := id
  re := id
  im := fun _ => 0
  i := 0
  lt := fun x y => decide (x < y)
  eq := fun x y => decide (x = y)

/-- the geometry hypothesis, the folding hypotheses and the power laws (with no positive element: integer powers only) hold
    for `ratEnv` -/
theorem C09_rat_env_ok : GeomOK ratEnv (fun _ => (2, 2)) ∧ FoldOK ratEnv ∧ PowLaws ratEnv (fun _ => False) := by
  refine ⟨⟨?_, ?_⟩, ⟨?_, ?_, ?_, ?_, ?_, ?_, ?_⟩, ⟨fun _ h => h.elim, fun _ _ h => h.elim, fun _ _ _ h => h.elim, fun _ _ _ h => h.elim⟩⟩
  · intro dK dJ _ _ _ s a b ha hb
    simp only at ha hb
    have h1 : a = 0 ∨ a = 1 := by omega
    have h2 : b = 0 ∨ b = 1 := by omega
    rcases h1 with rfl | rfl <;> rcases h2 with rfl | rfl <;> simp [ratEnv, Finset.sum_range_succ] <;> norm_num
  · intro dK dJ _ _ _ _ s a b ha hb
    simp only at ha hb
    have h1 : a = 0 ∨ a = 1 := by omega
    have h2 : b = 0 ∨ b = 1 := by omega
    rcases h1 with rfl | rfl <;> rcases h2 with rfl | rfl <;> simp [ratEnv, Finset.sum_range_succ] <;> norm_num
  · intro x; simp [ratEnv]
  · intro x; simp [ratEnv]
  · intro q hq
    simp only [ratEnv, ↓reduceIte, Rat.cast_id]
    by_cases hd : q.den = 1
    · rw [if_pos hd]
      exact zero_zpow _ (by
        have := Rat.num_pos.mpr hq
        omega)
    · simp [hd]
  · intro x n _
    simp [ratEnv]
  · simp [ratEnv]
  · intro x; simp [ratEnv]
  · intro q
    simp only [ratEnv, Rat.cast_id]
    by_cases hq : q < 0
    · simp [hq, abs_of_neg hq]
    · simp [hq, abs_of_nonneg (not_lt.mp hq)]

/-- `(sum_k K[a,k] * J[k,b]) * g[b]` with a = 1, b = 2, k = 3 -/
def exContraction : Expr :=
  .op .product [] [.op .indexSum [] [.op .product [] [.op .indexed [] [tK, .mi [.free 1, .free 3]],
      .op .indexed [] [tJ, .mi [.free 3, .free 2]]], .mi [.free 3]], .op .indexed [] [tg, .mi [.free 2]]]

/-- a non-trivial instance of `C09_all`: the expression is well formed, in the fragment, `cancel_jacobian_products` (with the
    guards) rewrites it to `g[b] * Identity[a,b]` (not the input), and by `C09_all` the result is equivalent to the input in
    `ratEnv` -/
example : ∃ r, cancelWith .repaired exContraction = some r ∧ beq r exContraction = false ∧ Equiv ratEnv exContraction r := by
  have hres : (cancelWith .repaired exContraction).map (fun r => beq r exContraction) = some false := by decide
  cases hr : cancelWith .repaired exContraction with
  | none => rw [hr] at hres; cases hres
  | some r =>
    rw [hr] at hres
    simp only [Option.map_some, Option.some.injEq] at hres
    have hu : isUnsupported r = false := by
      have : (cancelWith .repaired exContraction).map isUnsupported = some false := by decide
      rw [hr] at this; simpa using this
    refine ⟨r, rfl, hres, ?_⟩
    have hgd : Good (defPred ratEnv (fun _ => False) (stdTerm (fun _ => (2, 2)))) exContraction := by
      have hK : stdTerm (fun _ => (2, 2)) { cls := "JacobianInverse", key := "JacobianInverse(M)", shape := [2, 2] } :=
        ⟨⟨fun h => absurd h (by decide), fun _ => rfl⟩, fun h => absurd h (by decide)⟩
      have hJ : stdTerm (fun _ => (2, 2)) { cls := "Jacobian", key := "Jacobian(M)", shape := [2, 2] } :=
        ⟨⟨fun _ => rfl, fun h => absurd h (by decide)⟩, fun h => absurd h (by decide)⟩
      have hg : stdTerm (fun _ => (2, 2)) { cls := "Coefficient", key := "g", shape := [2] } :=
        ⟨⟨fun h => absurd h (by decide), fun h => absurd h (by decide)⟩, fun h => absurd h (by decide)⟩
      simp only [exContraction, tK, tJ, tg, Good, atomTerm, defPred, shape, and_true]
      exact ⟨⟨hK, hJ⟩, hg⟩
    exact (C09_all ratEnv (fun _ => (2, 2)) (fun _ => False) (stdTerm (fun _ => (2, 2))) C09_rat_env_ok.1
      (C09_stdTerm_ok ratEnv _ _) C09_rat_env_ok.2.1 C09_rat_env_ok.2.2 exContraction r hr hu (by decide) hgd).1


/-- the side condition of the `_partial` theorems holds for this input (the guards change nothing on it): the theorem about the
    code as it is applies to it -/
example : ∃ r, cancelJacobianProducts exContraction = some r ∧ Equiv ratEnv exContraction r := by
  have hcur : (cancelWith .current exContraction).map isUnsupported = some false := by decide
  cases hr : cancelWith .current exContraction with
  | none => rw [hr] at hcur; cases hcur
  | some r =>
    rw [hr] at hcur
    have hu : isUnsupported r = false := by simpa using hcur
    have hbeq : (cancelWith .repaired exContraction).map (fun x => beq x r) = some true := by
      have : (cancelWith .repaired exContraction).bind (fun x => (cancelWith .current exContraction).map (fun y => beq x y)) = some true := by
        decide
      rw [hr] at this
      cases hg : cancelWith .repaired exContraction with
      | none => rw [hg] at this; cases this
      | some x => rw [hg] at this; simpa using this
    have heq : cancelWith .repaired exContraction = cancelWith .current exContraction := by
      cases hg : cancelWith .repaired exContraction with
      | none => rw [hg] at hbeq; cases hbeq
      | some x =>
        rw [hg] at hbeq
        simp only [Option.map_some, Option.some.injEq] at hbeq
        rw [hr, beq_eq x r hbeq]
    have hgd : Good (defPred ratEnv (fun _ => False) (stdTerm (fun _ => (2, 2)))) exContraction := by
      have hK : stdTerm (fun _ => (2, 2)) { cls := "JacobianInverse", key := "JacobianInverse(M)", shape := [2, 2] } :=
        ⟨⟨fun h => absurd h (by decide), fun _ => rfl⟩, fun h => absurd h (by decide)⟩
      have hJ : stdTerm (fun _ => (2, 2)) { cls := "Jacobian", key := "Jacobian(M)", shape := [2, 2] } :=
        ⟨⟨fun _ => rfl, fun h => absurd h (by decide)⟩, fun h => absurd h (by decide)⟩
      have hg : stdTerm (fun _ => (2, 2)) { cls := "Coefficient", key := "g", shape := [2] } :=
        ⟨⟨fun h => absurd h (by decide), fun h => absurd h (by decide)⟩, fun h => absurd h (by decide)⟩
      simp only [exContraction, tK, tJ, tg, Good, atomTerm, defPred, shape, and_true]
      exact ⟨⟨hK, hJ⟩, hg⟩
    exact ⟨r, hr, (C09_all_partial ratEnv (fun _ => (2, 2)) (fun _ => False) (stdTerm (fun _ => (2, 2))) C09_rat_env_ok.1
      (C09_stdTerm_ok ratEnv _ _) C09_rat_env_ok.2.1 C09_rat_env_ok.2.2 exContraction r hr heq hu (by decide) hgd).1⟩

end UflVerif.C09
