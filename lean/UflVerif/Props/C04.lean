import UflVerif.Props.C02.Compose

/-!
C04 — diff() with respect to variables computes partial derivatives: the COMPOSITION theorem for the variable ruleset.

`variableD label e` / `coeffD u e` (Model/Deriv.lean: the traversal `derivE` of GenericDerivativeRuleset shared with C02, with the
terminal rules of VariableRuleset) model `apply_derivatives(VariableDerivative(e, v))` for a scalar variable `v = variable(a)`
with label `label`, resp. a scalar coefficient `u` used as the variable; tied tree-for-tree to the implementation by the
correspondence of harness/props/c04.py.  The induction of Props/C02 (every rule, index notation, conditionals, ...) is carried out
once for both rulesets (`deriv_aux`); this file states its instance for the variable ruleset.

"The partial derivative of f with respect to the value of v, holding everything not expressed through v fixed" is said of a
family of real valuations `ρ τ` by `Still label coeff ρ e` (Props/C02/Defs.lean): every occurrence of the variable in `e` has a value
moving with unit speed (`d/dτ ⟦a⟧ = 1` for its operand `a` — the traversal does not look below it), every terminal met elsewhere
(values, and jets under `grad`) is independent of τ; for a coefficient `u` used as variable its value is `U + τ`.
Then the value of the expansion is `d/dτ ⟦e⟧` at τ = 0 (`C04_diff_value_partial`); the chain rule through nested variables (variables
with other labels differentiate through) and repeated `diff` are instances (`C04_diff_second`).  The result has the shape of `e`
(a scalar variable: `f.shape + v.shape = f.shape`), `C04_diff_shape`.

`_partial`: scalar variables (tensor-valued ones need identity tensors and fresh indices: correspondence `unsupported`, covered by the
oracle), the modelled fragment (`hu`), and the decidable rebuild side conditions `DOK` as for C02.
-/
namespace UflVerif.C04
open UflVerif Expr C02 C05 Filter Topology

/-- **C04, composition (value)** for both forms of the variable: `label` = key of the label of `v = variable(a)`, `coeff` = key of a
    scalar coefficient used as variable (the other key matching nothing) -/
theorem C04_diff_value_partial (label coeff : String) (ρ : ℝ → Env ℝ) (hreal : ∀ τ, RealEnv (ρ τ)) (e r : Expr)
    (hw : WF e = true) (hok : DOK (.variable label coeff) e = true) (hst : Still label coeff ρ e)
    (h : derivE (.variable label coeff) e = some r) (hu : isUnsupported r = false)
    (side : Side) (ι : IdxEnv) (c : List Nat) (hc : c.length = (shape e).length) (hs : Smooth ρ side ι e c) :
    HasDerivAt (fun τ => eval (ρ τ) side ι e c) (eval (ρ 0) side ι r c) 0 :=
  ((deriv_aux hreal).1 e r hw hok hst h hu).2 side ι c hc hs

/-- **C04, composition (shape)**: the expansion is well formed with the shape (`f.shape + v.shape`, v scalar) and free indices of `f` -/
theorem C04_diff_shape (label coeff : String) (ρ : ℝ → Env ℝ) (hreal : ∀ τ, RealEnv (ρ τ)) (e r : Expr)
    (hw : WF e = true) (hok : DOK (.variable label coeff) e = true) (hst : Still label coeff ρ e)
    (h : derivE (.variable label coeff) e = some r) (hu : isUnsupported r = false) :
    WF r = true ∧ shape r = shape e ∧ fi r = fi e :=
  ((deriv_aux hreal).1 e r hw hok hst h hu).1

/-- `diff(e, v)` for `v = variable(a)` -/
theorem C04_variable_value_partial (label : String) (ρ : ℝ → Env ℝ) (hreal : ∀ τ, RealEnv (ρ τ)) (e r : Expr)
    (hw : WF e = true) (hok : DOK (.variable label "") e = true) (hst : Still label "" ρ e)
    (h : variableD label e = some r) (hu : isUnsupported r = false)
    (side : Side) (ι : IdxEnv) (c : List Nat) (hc : c.length = (shape e).length) (hs : Smooth ρ side ι e c) :
    HasDerivAt (fun τ => eval (ρ τ) side ι e c) (eval (ρ 0) side ι r c) 0 :=
  C04_diff_value_partial label "" ρ hreal e r hw hok hst h hu side ι c hc hs

/-- `diff(e, u)` for a scalar coefficient `u` -/
theorem C04_coefficient_value_partial (u : String) (ρ : ℝ → Env ℝ) (hreal : ∀ τ, RealEnv (ρ τ)) (e r : Expr)
    (hw : WF e = true) (hok : DOK (.variable "" u) e = true) (hst : Still "" u ρ e)
    (h : coeffD u e = some r) (hu : isUnsupported r = false)
    (side : Side) (ι : IdxEnv) (c : List Nat) (hc : c.length = (shape e).length) (hs : Smooth ρ side ι e c) :
    HasDerivAt (fun τ => eval (ρ τ) side ι e c) (eval (ρ 0) side ι r c) 0 :=
  C04_diff_value_partial "" u ρ hreal e r hw hok hst h hu side ι c hc hs

/-- **repeated diff**: the first expansion is again in the domain of the theorem (well formed, same shape), so a second
    `diff` (any variable) is the partial derivative of the first -/
theorem C04_diff_second (l1 c1 l2 c2 : String) (ρ1 ρ2 : ℝ → Env ℝ) (h1 : ∀ τ, RealEnv (ρ1 τ)) (h2 : ∀ τ, RealEnv (ρ2 τ)) (e r r2 : Expr)
    (hw : WF e = true) (hok : DOK (.variable l1 c1) e = true) (hst : Still l1 c1 ρ1 e)
    (h : derivE (.variable l1 c1) e = some r) (hu : isUnsupported r = false)
    (hok2 : DOK (.variable l2 c2) r = true) (hst2 : Still l2 c2 ρ2 r)
    (h' : derivE (.variable l2 c2) r = some r2) (hu2 : isUnsupported r2 = false)
    (side : Side) (ι : IdxEnv) (c : List Nat) (hc : c.length = (shape e).length) (hs : Smooth ρ2 side ι r c) :
    (WF r2 = true ∧ shape r2 = shape e ∧ fi r2 = fi e) ∧
    HasDerivAt (fun τ => eval (ρ2 τ) side ι r c) (eval (ρ2 0) side ι r2 c) 0 := by
  obtain ⟨wr, sr, fr⟩ := C04_diff_shape l1 c1 ρ1 h1 e r hw hok hst h hu
  obtain ⟨w2, s2, f2⟩ := C04_diff_shape l2 c2 ρ2 h2 r r2 wr hok2 hst2 h' hu2
  exact ⟨⟨w2, by rw [s2, sr], by rw [f2, fr]⟩,
    C04_diff_value_partial l2 c2 ρ2 h2 r r2 wr hok2 hst2 h' hu2 side ι c (by rw [sr]; exact hc) hs⟩

/-! ### non-trivial instances: the hypotheses are satisfiable -/

/-- the valuation `ρ0` with the value of one terminal shifted by τ -/
def shiftEnv (ρ0 : Env ℝ) (key : String) (τ : ℝ) : Env ℝ :=
  { ρ0 with term := fun s k c => if k = key then ρ0.term s k c + τ else ρ0.term s k c }

theorem shiftEnv_real (ρ0 : Env ℝ) (h0 : RealEnv ρ0) (key : String) (τ : ℝ) : RealEnv (shiftEnv ρ0 key τ) :=
  ⟨h0.fn, h0.pow, h0.abs, h0.conj, h0.re, h0.im, h0.i, h0.lt, h0.eq⟩

def exU : TermData := { cls := "Coefficient", key := "u", shape := [] }
def exG : TermData := { cls := "Coefficient", key := "g", shape := [], count := 1 }
def exL : TermData := { cls := "Label", key := "Label(7)", shape := [] }
/-- `v = variable(u)`;  `e = sin(v) * v + g / (1 + v**2)` with a nested variable `variable(v * g)` added -/
def exV : Expr := .op .variable [] [.term exU, .term exL]
def exE : Expr :=
  .op .sum [] [
    .op .sum [] [.op .product [] [.op .sin [] [exV], exV],
                 .op .division [] [.term exG, .op .sum [] [.int 1, .op .power [] [exV, .int 2]]]],
    .op .variable [] [.op .product [] [exV, .term exG], .term { cls := "Label", key := "Label(8)", shape := [] }]]

theorem exE_ok : WF exE = true ∧ DOK (.variable "Label(7)" "") exE = true ∧
    (match variableD "Label(7)" exE with | some r => !isUnsupported r && !isZero r | none => false) = true := by
  decide +kernel

/-- the variable `v = variable(u)` moves with unit speed when `u` does, `g` stands still: the theorem applies, with the
    denominator `1 + v²` as the only smoothness condition -/
example (ρ0 : Env ℝ) (h0 : RealEnv ρ0) (hden : 1 + ρ0.term .none "u" [] ^ (2 : ℝ) ≠ 0) :
    ∃ r, variableD "Label(7)" exE = some r ∧
      HasDerivAt (fun τ => eval (shiftEnv ρ0 "u" τ) .none (fun _ => 0) exE []) (eval (shiftEnv ρ0 "u" 0) .none (fun _ => 0) r []) 0 := by
  obtain ⟨hw, hok, hr⟩ := exE_ok
  cases hg : variableD "Label(7)" exE with
  | none => rw [hg] at hr; simp at hr
  | some r =>
    rw [hg] at hr
    simp only [Bool.and_eq_true, Bool.not_eq_true'] at hr
    have hunit : ∀ side ι, HasDerivAt (fun τ => eval (shiftEnv ρ0 "u" τ) side ι (.term exU) []) 1 0 := by
      intro side ι
      have : (fun τ => eval (shiftEnv ρ0 "u" τ) side ι (.term exU) []) = fun τ => ρ0.term side "u" [] + τ := by
        funext τ; simp [eval, exU, shiftEnv]
      rw [this]; simpa using (hasDerivAt_id (0 : ℝ)).const_add (ρ0.term side "u" [])
    have hstill : ∀ τ s c, (shiftEnv ρ0 "u" τ).term s "g" c = (shiftEnv ρ0 "u" 0).term s "g" c := by
      intro τ s c; simp [shiftEnv]
    refine ⟨r, rfl, C04_variable_value_partial "Label(7)" _ (shiftEnv_real ρ0 h0 "u") exE r hw hok ?_ hg hr.1 .none (fun _ => 0) []
      (by simp [exE, shape]) ?_⟩
    · simp only [exE, exV, Still, StillL, exL, exG, exU]
      simp only [String.reduceEq, ↓reduceIte, and_true, true_and]
      refine ⟨⟨⟨?_, ?_⟩, ?_, ?_⟩, ?_, ?_⟩ <;> first | exact hunit | exact hstill | trivial
    · have h00 : ∀ c, (shiftEnv ρ0 "u" 0).term .none "u" c = ρ0.term .none "u" c := by
        intro c; simp [shiftEnv]
      simp only [exE, exV, Smooth, eval, exU, litVal]
      simp only [h00, (shiftEnv_real ρ0 h0 "u" 0).pow]
      refine ⟨⟨⟨trivial, trivial⟩, trivial, ⟨trivial, trivial, trivial, ?_⟩, ?_⟩, trivial, trivial⟩
      · right; exact ⟨true, 2, rfl, Or.inr (by norm_num)⟩
      · simpa using hden

end UflVerif.C04
