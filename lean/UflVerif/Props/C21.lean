/-
C21  replace substitutes exactly the mapped subexpressions.

`replaceE` (Model/Replace.lean) is the model of `replace` for mappings of terminals: plain
substitution `substE` followed, at every touched node, by a rebuild through the class constructors
(`_ufl_expr_reconstruct_`).  It is compared tree-for-tree with the implementation on every run.
This file proves the substitution lemma for `substE`: the value of the substituted expression is
the value of the original under the valuation in which each mapped terminal takes the value of its
image.  That the constructor rebuild does not change values is C05.
-/
import UflVerif.Model.Replace
import UflVerif.Sem.Congr
import UflVerif.Sem.FI

namespace UflVerif.C21
open UflVerif Expr

variable {K : Type} [Add K] [Mul K] [Sub K] [Neg K] [Div K] [Zero K] [One K] [IntCast K] [NatCast K]

/-- images have the shape of the terminal they replace and no free indices; literals-like
    terminals whose value is fixed by their class (Identity, Label) are not mapped -/
def MapOK (m : Mapping) : Prop :=
  ∀ (d : TermData) (img : Expr), m.get d.key = some img →
    shape img = d.shape ∧ fi img = [] ∧ WF img = true ∧ d.cls ≠ "Identity" ∧ d.cls ≠ "Label"

/- no mapped terminal under a gradient (the derivative of the image is outside the semantics) -/
mutual
def GradFree (m : Mapping) : Expr → Bool
  | .op .grad _ [a] => (match gradChain a with
      | some (d, _) => (m.get d.key).isNone
      | none => GradFree m a)
  | .op _ _ args => GradFreeL m args
  | _ => true
def GradFreeL (m : Mapping) : List Expr → Bool
  | [] => true
  | a :: as => GradFree m a && GradFreeL m as
end

/-- the valuation in which every mapped terminal takes the value of its image -/
def substEnv (ρ : Env K) (m : Mapping) (ι₀ : IdxEnv) : Env K :=
  { ρ with term := fun side key c => match m.get key with
      | some img => eval ρ side ι₀ img c
      | none => ρ.term side key c }

/-! ### substitution preserves shapes and free indices -/

theorem substL_length (m : Mapping) : ∀ as : List Expr, (substL m as).length = as.length
  | [] => rfl
  | a :: as => by simp [substL, substL_length m as]

theorem subst_term (m : Mapping) (hm : MapOK m) (d : TermData) :
    shape (substE m (.term d)) = d.shape ∧ fi (substE m (.term d)) = [] := by
  simp only [substE]
  cases h : m.get d.key with
  | none => simp [shape, fi]
  | some img => exact ⟨(hm d img h).1, (hm d img h).2.1⟩

theorem subst_chain (m : Mapping) (hm : MapOK m) : ∀ (a : Expr) (p : TermData × Nat), gradChain a = some p →
    shape (substE m a) = shape a ∧ fi (substE m a) = fi a := by
  intro a
  fun_induction gradChain a with
  | case1 d => intro p _; have := subst_term m hm d; simpa [shape, fi] using this
  | case2 aux a d k hk ih =>
    intro p _
    have := ih _ hk
    simp only [substE, substL, shape, fi, this.1, this.2, and_self]
  | case3 aux a hk ih => intro p h; simp at h
  | case4 e h1 h2 => intro p h; simp at h

theorem subst_shape_fi (m : Mapping) (hm : MapOK m) :
    (∀ e : Expr, WF e = true → shape (substE m e) = shape e ∧ fi (substE m e) = fi e) ∧ (∀ _p : Expr, True) ∧
    (∀ xs : List Expr, WFL xs = true → ∀ x ∈ xs, shape (substE m x) = shape x ∧ fi (substE m x) = fi x) := by
  apply WF.mutual_induct (motive_1 := fun e => WF e = true → shape (substE m e) = shape e ∧ fi (substE m e) = fi e)
    (motive_2 := fun _ => True)
    (motive_3 := fun xs => WFL xs = true → ∀ x ∈ xs, shape (substE m x) = shape x ∧ fi (substE m x) = fi x)
  all_goals try (first | (intros; trivial) | (intros; simp_all [substE, substL, shape, fi, WF, WFL]; done))
  -- terminal
  · intro d _; have := subst_term m hm d; simpa [shape, fi] using this
  -- list tensor
  · intro aux a as iha ihas hw
    simp only [WF, Bool.and_eq_true] at hw
    have := iha hw.1.1
    simp only [substE, substL, shape, fi, this.1, this.2, substL_length, and_self]
  -- grad of a terminal chain
  · intro aux a hw
    simp only [WF, Option.isSome_iff_exists] at hw
    obtain ⟨p, hp⟩ := hw
    have := subst_chain m hm a p hp
    simp only [substE, substL, shape, fi, this.1, this.2, and_self]
  -- math functions
  · intro aux fnk a h1 h2 h3 h4 h5 h6 h7 h8 ih hw
    have hwa : WF a = true := by revert hw; cases fnk <;> simp_all [WF, mathName]
    have := ih hwa
    revert hw
    cases fnk <;> simp_all [substE, substL, shape, fi, WF, mathName]
  -- lists
  · intro a as iha ihas hw x hx
    simp only [WFL, Bool.and_eq_true] at hw
    cases List.mem_cons.mp hx with
    | inl e => rw [e]; exact iha hw.1
    | inr e => exact ihas hw.2 x e


/-! ### the substitution lemma -/

def S1 (ρ : Env K) (m : Mapping) (ι₀ : IdxEnv) (side : Side) (ι : IdxEnv) (e : Expr) (c : List Nat) : Prop :=
  WF e = true → GradFree m e = true → c.length = (shape e).length →
    eval ρ side ι (substE m e) c = eval (substEnv ρ m ι₀) side ι e c

def S2 (ρ : Env K) (m : Mapping) (ι₀ : IdxEnv) (side : Side) (ι : IdxEnv) (p : Expr) : Prop :=
  WFC p = true → GradFree m p = true → evalB ρ side ι (substE m p) = evalB (substEnv ρ m ι₀) side ι p

def S3 (ρ : Env K) (m : Mapping) (ι₀ : IdxEnv) (side : Side) (ι : IdxEnv) (xs : List Expr) (n : Nat) (c : List Nat) : Prop :=
  WFL xs = true → GradFreeL m xs = true → (∀ x ∈ xs, c.length = (shape x).length) →
    evalNth ρ side ι (substL m xs) n c = evalNth (substEnv ρ m ι₀) side ι xs n c

theorem subst_aux (ρ : Env K) (m : Mapping) (hm : MapOK m) (ι₀ : IdxEnv) :
    (∀ side ι e c, S1 ρ m ι₀ side ι e c) ∧ (∀ side ι p, S2 ρ m ι₀ side ι p) ∧ (∀ side ι xs n c, S3 ρ m ι₀ side ι xs n c) := by
  have hsf := (subst_shape_fi m hm).1
  apply eval.mutual_induct (substEnv ρ m ι₀) (motive_1 := S1 ρ m ι₀) (motive_2 := S2 ρ m ι₀) (motive_3 := S3 ρ m ι₀)
  -- literals, zero, multi-index
  · intro side ι v c _ _ _; simp [substE, eval]
  · intro side ι n d c _ _ _; simp [substE, eval]
  · intro side ι a b c d x _ _ _; simp [substE, eval, substEnv]
  · intro side ι sh f c _ _ _; simp [substE, eval]
  · intro side ι is c hw; simp [WF] at hw
  -- terminals: a mapped terminal takes the value of its image
  · intro side ι d hd j _ _ _
    have : m.get d.key = none := by
      cases h : m.get d.key with
      | none => rfl
      | some img => exact absurd hd (hm d img h).2.2.2.1
    simp [substE, this, eval, hd]
  · intro side ι d hd i j _ _ _ _
    have : m.get d.key = none := by
      cases h : m.get d.key with
      | none => rfl
      | some img => exact absurd hd (hm d img h).2.2.2.1
    simp [substE, this, eval, hd]
  · intro side ι d c hd _ _ _ _
    have : m.get d.key = none := by
      cases h : m.get d.key with
      | none => rfl
      | some img => exact absurd hd (hm d img h).2.2.2.1
    simp [substE, this, eval, hd]
  · intro side ι d c hd hl _ _ _
    have : m.get d.key = none := by
      cases h : m.get d.key with
      | none => rfl
      | some img => exact absurd hl (hm d img h).2.2.2.2
    simp [substE, this, eval, hd, hl]
  · intro side ι d c hd hl _ _ hc
    simp only [substE, eval, hd, hl, ↓reduceIte, substEnv]
    cases h : m.get d.key with
    | none => simp [eval, hd, hl]
    | some img =>
      simp only
      obtain ⟨hs, hf, hwi, _, _⟩ := hm d img h
      apply eval_congr ρ side img hwi c (by rw [hs]; simpa [shape] using hc)
      intro i hi; rw [hf] at hi; simp [FI.has] at hi
  -- sum
  · intro side ι aux c a b iha ihb hw hg hc
    simp only [WF, Bool.and_eq_true, beq_iff_eq] at hw
    obtain ⟨⟨⟨wa, wb⟩, hs⟩, _⟩ := hw
    simp only [GradFree, GradFreeL, Bool.and_true, Bool.and_eq_true] at hg
    simp only [shape] at hc
    simp only [substE, substL, eval]
    rw [iha wa hg.1 hc, ihb wb hg.2 (by rw [← hs]; exact hc)]
  -- product
  · intro side ι aux c a b iha ihb hw hg _
    simp only [WF, Bool.and_eq_true, List.isEmpty_iff] at hw
    obtain ⟨⟨⟨⟨wa, wb⟩, sa⟩, sb⟩, _⟩ := hw
    simp only [GradFree, GradFreeL, Bool.and_true, Bool.and_eq_true] at hg
    simp only [substE, substL, eval]
    rw [iha wa hg.1 (by simp [sa]), ihb wb hg.2 (by simp [sb])]
  -- division
  · intro side ι aux c a b iha ihb hw hg hc
    simp only [WF, Bool.and_eq_true, List.isEmpty_iff, trueScalar] at hw
    obtain ⟨⟨⟨wa, wb⟩, sa⟩, sb, _⟩ := hw
    simp only [GradFree, GradFreeL, Bool.and_true, Bool.and_eq_true] at hg
    simp only [shape, List.length_nil] at hc
    simp only [substE, substL, eval]
    rw [iha wa hg.1 (by simp [sa, hc]), ihb wb hg.2 (by simp [sb, hc])]
    try rfl
  -- power
  · intro side ι aux c a b iha ihb hw hg hc
    simp only [WF, Bool.and_eq_true, List.isEmpty_iff, trueScalar] at hw
    obtain ⟨⟨⟨wa, wb⟩, sa, _⟩, sb, _⟩ := hw
    simp only [GradFree, GradFreeL, Bool.and_true, Bool.and_eq_true] at hg
    simp only [shape, List.length_nil] at hc
    simp only [substE, substL, eval]
    rw [iha wa hg.1 (by simp [sa, hc]), ihb wb hg.2 (by simp [sb, hc])]
    try rfl
  -- abs conj real imag
  · intro side ι aux c a ih hw hg hc
    simp only [WF] at hw; simp only [GradFree, GradFreeL, Bool.and_true] at hg; simp only [shape] at hc
    simp only [substE, substL, eval]; rw [ih hw hg hc]; try rfl
  · intro side ι aux c a ih hw hg hc
    simp only [WF] at hw; simp only [GradFree, GradFreeL, Bool.and_true] at hg; simp only [shape] at hc
    simp only [substE, substL, eval]; rw [ih hw hg hc]; try rfl
  · intro side ι aux c a ih hw hg hc
    simp only [WF] at hw; simp only [GradFree, GradFreeL, Bool.and_true] at hg; simp only [shape] at hc
    simp only [substE, substL, eval]; rw [ih hw hg hc]; try rfl
  · intro side ι aux c a ih hw hg hc
    simp only [WF] at hw; simp only [GradFree, GradFreeL, Bool.and_true] at hg; simp only [shape] at hc
    simp only [substE, substL, eval]; rw [ih hw hg hc]; try rfl
  -- indexed
  · intro side ι aux c a is ih hw hg _
    simp only [WF, Bool.and_eq_true, beq_iff_eq] at hw
    obtain ⟨⟨⟨wa, hl⟩, _⟩, _⟩ := hw
    simp only [GradFree, GradFreeL, Bool.and_true, Bool.and_eq_true] at hg
    simp only [substE, substL, eval]
    exact ih wa hg (by simp [hl])
  -- index sum
  · intro side ι aux c a j ih hw hg hc
    simp only [WF, Bool.and_eq_true] at hw
    simp only [GradFree, GradFreeL, Bool.and_true, Bool.and_eq_true] at hg
    simp only [shape] at hc
    simp only [substE, substL, eval, (hsf a hw.1).2]
    congr 1
    funext v
    exact ih v hw.1 hg hc
  -- component tensor
  · intro side ι aux c a is ih hw hg _
    simp only [WF, Bool.and_eq_true, List.isEmpty_iff] at hw
    simp only [GradFree, GradFreeL, Bool.and_true, Bool.and_eq_true] at hg
    simp only [substE, substL, eval]
    exact ih hw.1.1 hg (by simp [hw.1.2])
  -- list tensor
  · intro side ι aux xs v c' ih hw hg hc
    simp only [substE, eval]
    cases xs with
    | nil => simp [WF] at hw
    | cons x0 rest =>
      simp only [WF, Bool.and_eq_true, List.all_eq_true, beq_iff_eq] at hw
      obtain ⟨⟨w0, wr⟩, hsame⟩ := hw
      simp only [GradFree] at hg
      simp only [shape, List.length_cons, Nat.add_right_cancel_iff] at hc
      apply ih (by simp [WFL, w0, wr]) hg
      intro x hx
      cases List.mem_cons.mp hx with
      | inl h => rw [h]; exact hc
      | inr h => rw [(hsame x h).1]; exact hc
  · intro side ι aux xs _ _ _; simp [substE, eval]
  -- conditional
  · intro side ι aux c p t f hb ihp iht hw hg hc
    simp only [WF, Bool.and_eq_true, beq_iff_eq] at hw
    obtain ⟨⟨⟨⟨wp, wt⟩, wf⟩, hs⟩, _⟩ := hw
    simp only [GradFree, GradFreeL, Bool.and_true, Bool.and_eq_true] at hg
    simp only [shape] at hc
    simp only [substE, substL, eval]
    rw [ihp wp hg.1, hb]
    simp only [↓reduceIte]
    exact iht wt hg.2.1 hc
  · intro side ι aux c p t f hb ihp ihf hw hg hc
    simp only [WF, Bool.and_eq_true, beq_iff_eq] at hw
    obtain ⟨⟨⟨⟨wp, wt⟩, wf⟩, hs⟩, _⟩ := hw
    simp only [GradFree, GradFreeL, Bool.and_true, Bool.and_eq_true] at hg
    simp only [shape] at hc
    simp only [substE, substL, eval]
    rw [ihp wp hg.1]
    simp only [hb, Bool.false_eq_true, ↓reduceIte]
    exact ihf wf hg.2.2 (by rw [← hs]; exact hc)
  -- min / max
  · intro side ι aux c a b x y _ iha ihb hw hg hc
    simp only [WF, Bool.and_eq_true, List.isEmpty_iff, trueScalar] at hw
    obtain ⟨⟨⟨wa, wb⟩, sa, _⟩, sb, _⟩ := hw
    simp only [GradFree, GradFreeL, Bool.and_true, Bool.and_eq_true] at hg
    simp only [shape, List.length_nil] at hc
    simp only [substE, substL, eval]
    rw [iha wa hg.1 (by simp [sa, hc]), ihb wb hg.2 (by simp [sb, hc])]
    try rfl
  · intro side ι aux c a b x y _ iha ihb hw hg hc
    simp only [WF, Bool.and_eq_true, List.isEmpty_iff, trueScalar] at hw
    obtain ⟨⟨⟨wa, wb⟩, sa, _⟩, sb, _⟩ := hw
    simp only [GradFree, GradFreeL, Bool.and_true, Bool.and_eq_true] at hg
    simp only [shape, List.length_nil] at hc
    simp only [substE, substL, eval]
    rw [iha wa hg.1 (by simp [sa, hc]), ihb wb hg.2 (by simp [sb, hc])]
    try rfl
  · intro side ι aux c a b x y _ iha ihb hw hg hc
    simp only [WF, Bool.and_eq_true, List.isEmpty_iff, trueScalar] at hw
    obtain ⟨⟨⟨wa, wb⟩, sa, _⟩, sb, _⟩ := hw
    simp only [GradFree, GradFreeL, Bool.and_true, Bool.and_eq_true] at hg
    simp only [shape, List.length_nil] at hc
    simp only [substE, substL, eval]
    rw [iha wa hg.1 (by simp [sa, hc]), ihb wb hg.2 (by simp [sb, hc])]
    try rfl
  · intro side ι aux c a b x y _ iha ihb hw hg hc
    simp only [WF, Bool.and_eq_true, List.isEmpty_iff, trueScalar] at hw
    obtain ⟨⟨⟨wa, wb⟩, sa, _⟩, sb, _⟩ := hw
    simp only [GradFree, GradFreeL, Bool.and_true, Bool.and_eq_true] at hg
    simp only [shape, List.length_nil] at hc
    simp only [substE, substL, eval]
    rw [iha wa hg.1 (by simp [sa, hc]), ihb wb hg.2 (by simp [sb, hc])]
    try rfl
  -- variable
  · intro side ι aux c a l ih hw hg hc
    cases l <;> simp only [WF, Bool.false_eq_true] at hw
    simp only [GradFree, GradFreeL, Bool.and_true, Bool.and_eq_true] at hg
    simp only [shape] at hc
    simp only [substE, substL, eval]; exact ih hw hg hc
  -- restrictions
  · intro side ι aux c a ih hw hg hc
    simp only [WF] at hw; simp only [GradFree, GradFreeL, Bool.and_true] at hg; simp only [shape] at hc
    simp only [substE, substL, eval]; rw [ih hw hg hc]; try rfl
  · intro side ι aux c a ih hw hg hc
    simp only [WF] at hw; simp only [GradFree, GradFreeL, Bool.and_true] at hg; simp only [shape] at hc
    simp only [substE, substL, eval]; rw [ih hw hg hc]; try rfl
  -- atan2
  · intro side ι aux c a b iha ihb hw hg hc
    simp only [WF, Bool.and_eq_true, List.isEmpty_iff, trueScalar] at hw
    obtain ⟨⟨⟨wa, wb⟩, sa, _⟩, sb, _⟩ := hw
    simp only [GradFree, GradFreeL, Bool.and_true, Bool.and_eq_true] at hg
    simp only [shape, List.length_nil] at hc
    simp only [substE, substL, eval]
    rw [iha wa hg.1 (by simp [sa, hc]), ihb wb hg.2 (by simp [sb, hc])]
    try rfl
  -- Bessel functions are outside the verified fragment
  · intro side ι aux c n x _ _ hw; simp [WF] at hw
  · intro side ι aux c n x _ _ hw; simp [WF] at hw
  · intro side ι aux c n x _ _ hw; simp [WF] at hw
  · intro side ι aux c n x _ _ hw; simp [WF] at hw
  -- grad: no mapped terminal under it, so the chain is untouched
  · intro side ι aux c a d k hk hw hg _
    simp only [GradFree, hk] at hg
    have hnone : m.get d.key = none := by simpa using hg
    have key : ∀ (a : Expr) (p : TermData × Nat), gradChain a = some p → m.get p.1.key = none → substE m a = a := by
      intro a
      fun_induction gradChain a with
      | case1 d => intro p hp hn; simp only [Option.some.injEq] at hp; subst hp; simp [substE, hn]
      | case2 aux a d k hk ih => intro p hp hn; simp only [Option.some.injEq] at hp; subst hp; simp [substE, substL, ih _ hk hn]
      | case3 aux a hk ih => intro p h; simp at h
      | case4 e h1 h2 => intro p h; simp at h
    simp only [substE, substL, key a (d, k) hk hnone, eval, hk, substEnv]
  · intro side ι aux c a hk hw _ _
    simp [WF, hk] at hw
  -- 40-41 math functions
  · intro side ι aux c fnk a h1 h2 h3 h4 h5 h6 h7 h8 n hn ih hw hg hc
    have hwf : WF (.op fnk aux [a]) = (WF a && trueScalar a) := by
      cases fnk <;> simp_all [WF, mathName]
    have hsh : shape (.op fnk aux [a]) = [] := by
      cases fnk <;> simp_all [shape, mathName]
    have hgf : GradFree m (.op fnk aux [a]) = GradFree m a := by
      cases fnk <;> simp_all [GradFree, GradFreeL, mathName]
    have hev : ∀ (ρ' : Env K) (x : Expr), eval ρ' side ι (.op fnk aux [x]) c = ρ'.fn n (eval ρ' side ι x c) := by
      intro ρ' x; cases fnk <;> simp_all [eval, mathName]
    rw [hwf] at hw
    simp only [Bool.and_eq_true, trueScalar, List.isEmpty_iff] at hw
    obtain ⟨wa, sa, fa⟩ := hw
    rw [hsh] at hc
    rw [hgf] at hg
    simp only [substE, substL]
    rw [hev, hev, ih wa hg (by simp [sa] at hc ⊢; exact hc)]
    rfl
  · intro side ι aux c fnk a h1 h2 h3 h4 h5 h6 h7 h8 hn hw
    cases fnk <;> simp_all [WF, mathName]
  -- 42 anything else is outside the verified fragment
  · intro side ι k aux args c
    intros
    intro hw
    unfold WF at hw
    split at hw <;> simp_all
  -- 43-48 comparisons
  · intro side ι aux a b iha ihb hw hg
    simp only [WFC, Bool.and_eq_true, List.isEmpty_iff, trueScalar] at hw
    obtain ⟨⟨⟨wa, wb⟩, sa, fa⟩, sb, fb⟩ := hw
    simp only [GradFree, GradFreeL, Bool.and_true, Bool.and_eq_true] at hg
    simp only [substE, substL, evalB]
    rw [iha wa hg.1 (by simp [sa]), ihb wb hg.2 (by simp [sb])]
    try rfl
  · intro side ι aux a b iha ihb hw hg
    simp only [WFC, Bool.and_eq_true, List.isEmpty_iff, trueScalar] at hw
    obtain ⟨⟨⟨wa, wb⟩, sa, fa⟩, sb, fb⟩ := hw
    simp only [GradFree, GradFreeL, Bool.and_true, Bool.and_eq_true] at hg
    simp only [substE, substL, evalB]
    rw [iha wa hg.1 (by simp [sa]), ihb wb hg.2 (by simp [sb])]
    try rfl
  · intro side ι aux a b iha ihb hw hg
    simp only [WFC, Bool.and_eq_true, List.isEmpty_iff, trueScalar] at hw
    obtain ⟨⟨⟨wa, wb⟩, sa, fa⟩, sb, fb⟩ := hw
    simp only [GradFree, GradFreeL, Bool.and_true, Bool.and_eq_true] at hg
    simp only [substE, substL, evalB]
    rw [iha wa hg.1 (by simp [sa]), ihb wb hg.2 (by simp [sb])]
    try rfl
  · intro side ι aux a b ihb iha hw hg
    simp only [WFC, Bool.and_eq_true, List.isEmpty_iff, trueScalar] at hw
    obtain ⟨⟨⟨wa, wb⟩, sa, fa⟩, sb, fb⟩ := hw
    simp only [GradFree, GradFreeL, Bool.and_true, Bool.and_eq_true] at hg
    simp only [substE, substL, evalB]
    rw [iha wa hg.1 (by simp [sa]), ihb wb hg.2 (by simp [sb])]
    try rfl
  · intro side ι aux a b ihb iha hw hg
    simp only [WFC, Bool.and_eq_true, List.isEmpty_iff, trueScalar] at hw
    obtain ⟨⟨⟨wa, wb⟩, sa, fa⟩, sb, fb⟩ := hw
    simp only [GradFree, GradFreeL, Bool.and_true, Bool.and_eq_true] at hg
    simp only [substE, substL, evalB]
    rw [iha wa hg.1 (by simp [sa]), ihb wb hg.2 (by simp [sb])]
    try rfl
  · intro side ι aux a b iha ihb hw hg
    simp only [WFC, Bool.and_eq_true, List.isEmpty_iff, trueScalar] at hw
    obtain ⟨⟨⟨wa, wb⟩, sa, fa⟩, sb, fb⟩ := hw
    simp only [GradFree, GradFreeL, Bool.and_true, Bool.and_eq_true] at hg
    simp only [substE, substL, evalB]
    rw [iha wa hg.1 (by simp [sa]), ihb wb hg.2 (by simp [sb])]
    try rfl
  -- 49-51 and / or / not
  · intro side ι aux a b iha ihb hw hg
    simp only [WFC, Bool.and_eq_true] at hw
    simp only [GradFree, GradFreeL, Bool.and_true, Bool.and_eq_true] at hg
    simp only [substE, substL, evalB]; rw [iha hw.1 hg.1, ihb hw.2 hg.2]
  · intro side ι aux a b iha ihb hw hg
    simp only [WFC, Bool.and_eq_true] at hw
    simp only [GradFree, GradFreeL, Bool.and_true, Bool.and_eq_true] at hg
    simp only [substE, substL, evalB]; rw [iha hw.1 hg.1, ihb hw.2 hg.2]
  · intro side ι aux a ih hw hg
    simp only [WFC] at hw
    simp only [GradFree, GradFreeL, Bool.and_true, Bool.and_eq_true] at hg
    simp only [substE, substL, evalB]; rw [ih hw hg]
  -- 52-53 not a condition
  · intro side ι k aux args
    intros
    intro hw
    unfold WFC at hw
    split at hw <;> simp_all
  · intro side ι t
    intros
    intro hw
    unfold WFC at hw
    split at hw <;> simp_all
  -- 54-56 component selection in a list tensor
  · intro side ι n c _ _ _; simp [substL, evalNth]
  · intro side ι x tail c ih hw hg hc
    simp only [WFL, Bool.and_eq_true] at hw
    simp only [GradFreeL, Bool.and_eq_true] at hg
    simp only [substL, evalNth]
    exact ih hw.1 hg.1 (hc x (by simp))
  · intro side ι x xs n c ih hw hg hc
    simp only [WFL, Bool.and_eq_true] at hw
    simp only [GradFreeL, Bool.and_eq_true] at hg
    simp only [substL, evalNth]
    exact ih hw.2 hg.2 (fun y hy => hc y (by simp [hy]))

/-! ## Property theorems -/

/- NOTE (found by the rebuild-soundness package, recorded in DESIGN.md): `MapOK m` quantifies over every `TermData` with a mapped
   key — including data with `cls = "Identity"` — so it holds only for mappings in which every lookup fails
   (`MapOK_vacuous` in Props/C05Rebuild.lean).  The three lemmas below are therefore vacuous for every mapping that maps
   something; they are kept (renamed, without the `C21_` prefix) only because other proofs reuse `subst_aux`.  The
   property theorems are `C21_substitution_on`, `C21_replace_value_partial`, `C21_replace_wf_partial` in
   Props/C05Rebuild.lean, stated with the satisfiable, decidable hypothesis `MapOKOn m e` and instantiated on concrete
   non-trivial mappings there. -/

/-- (vacuous hypothesis, see the note above) substitution lemma.  For every well-formed expression `e` (any size), every mapping of
    terminals to images of the same shape, every valuation, side, index environment and component:
    the substituted expression has the value of `e` under the valuation in which each mapped
    terminal takes the value of its image — through restrictions (the image is evaluated on the
    side the terminal is read on), variables, conditions and index notation. -/
theorem substitution_under_MapOK (ρ : Env K) (m : Mapping) (hm : MapOK m) (ι₀ : IdxEnv) (side : Side) (ι : IdxEnv)
    (e : Expr) (c : List Nat) (hw : WF e = true) (hg : GradFree m e = true) (hc : c.length = (shape e).length) :
    eval ρ side ι (substE m e) c = eval (substEnv ρ m ι₀) side ι e c :=
  (subst_aux ρ m hm ι₀).1 side ι e c hw hg hc

/-- conditions are substituted consistently -/
theorem substitution_cond_under_MapOK (ρ : Env K) (m : Mapping) (hm : MapOK m) (ι₀ : IdxEnv) (side : Side) (ι : IdxEnv)
    (p : Expr) (hw : WFC p = true) (hg : GradFree m p = true) :
    evalB ρ side ι (substE m p) = evalB (substEnv ρ m ι₀) side ι p :=
  (subst_aux ρ m hm ι₀).2.1 side ι p hw hg

/-- substitution keeps shape and free indices (the result can stand wherever `e` stood) -/
theorem shape_fi_under_MapOK (m : Mapping) (hm : MapOK m) (e : Expr) (hw : WF e = true) :
    shape (substE m e) = shape e ∧ fi (substE m e) = fi e :=
  (subst_shape_fi m hm).1 e hw

/- no mapped terminal occurs in the expression -/
mutual
def Untouched (m : Mapping) : Expr → Bool
  | .term d => (m.get d.key).isNone
  | .op _ _ args => UntouchedL m args
  | _ => true
def UntouchedL (m : Mapping) : List Expr → Bool
  | [] => true
  | a :: as => Untouched m a && UntouchedL m as
end

/- nothing the Replacer refuses or the model does not cover -/
mutual
def Plain : Expr → Bool
  | .term d => d.cls != "@unsupported"
  | .op k _ args => k != .coefficientDerivative && PlainL args
  | _ => true
def PlainL : List Expr → Bool
  | [] => true
  | a :: as => Plain a && PlainL as
end

mutual
theorem beq_refl : ∀ a : Expr, beq a a = true
  | .int _ | .real _ _ | .cplx _ _ _ _ | .zero _ _ | .mi _ | .term _ => by simp [beq]
  | .op k x as => by simp [beq, beqL_refl as]
theorem beqL_refl : ∀ as : List Expr, beqL as as = true
  | [] => rfl
  | a :: as => by simp [beqL, beq_refl a, beqL_refl as]
end

mutual
theorem subst_untouched (m : Mapping) : ∀ e : Expr, Untouched m e = true → substE m e = e
  | .int _, _ | .real _ _, _ | .cplx _ _ _ _, _ | .zero _ _, _ | .mi _, _ => by simp [substE]
  | .term d, h => by
    simp only [Untouched, Option.isNone_iff_eq_none] at h
    simp [substE, h]
  | .op k x as, h => by
    simp only [Untouched] at h
    simp [substE, substL_untouched m as h]
theorem substL_untouched (m : Mapping) : ∀ as : List Expr, UntouchedL m as = true → substL m as = as
  | [], _ => rfl
  | a :: as, h => by
    simp only [UntouchedL, Bool.and_eq_true] at h
    simp [substL, subst_untouched m a h.1, substL_untouched m as h.2]
end

theorem plainL_no_unsupported : ∀ as : List Expr, PlainL as = true → as.any isUnsupported = false
  | [], _ => rfl
  | a :: as, h => by
    simp only [PlainL, Bool.and_eq_true] at h
    have ha : isUnsupported a = false := by
      cases a <;> simp_all [isUnsupported, Plain]
    simp [List.any_cons, ha, plainL_no_unsupported as h.2]

mutual
theorem replace_untouched (m : Mapping) : ∀ e : Expr, Untouched m e = true → Plain e = true → replaceE m e = some e
  | .int _, _, _ | .real _ _, _, _ | .cplx _ _ _ _, _, _ | .zero _ _, _, _ | .mi _, _, _ => by simp [replaceE]
  | .term d, h, _ => by
    simp only [Untouched, Option.isNone_iff_eq_none] at h
    simp [replaceE, h]
  | .op k x as, h, hp => by
    simp only [Untouched] at h
    simp only [Plain, Bool.and_eq_true, bne_iff_ne, ne_eq] at hp
    have hk : (k == Op.coefficientDerivative) = false := by simpa using hp.1
    simp [replaceE, replaceL_untouched m as h hp.2, hk, plainL_no_unsupported as hp.2, beqL_refl as]
theorem replaceL_untouched (m : Mapping) : ∀ as : List Expr, UntouchedL m as = true → PlainL as = true → replaceL m as = some as
  | [], _, _ => rfl
  | a :: as, h, hp => by
    simp only [UntouchedL, Bool.and_eq_true] at h
    simp only [PlainL, Bool.and_eq_true] at hp
    simp [replaceL, replace_untouched m a h.1 hp.1, replaceL_untouched m as h.2 hp.2]
end

/-- **C21 (identity).**  An expression in which no mapped terminal occurs is returned unchanged
    (the very same tree: `reuse_if_untouched` at every node), whatever the mapping contains. -/
theorem C21_identity (m : Mapping) (e : Expr) (h : Untouched m e = true) (hp : Plain e = true) :
    replaceE m e = some e ∧ substE m e = e :=
  ⟨replace_untouched m e h hp, subst_untouched m e h⟩

/-- **C21 (derivatives first).**  A `CoefficientDerivative` node whose operands were processed is
    always refused ("Derivatives should be applied before executing replace"). -/
theorem C21_rejects_unapplied_derivative (m : Mapping) (aux : List Nat) (args : List Expr) :
    replaceE m (.op .coefficientDerivative aux args) = none := by
  simp only [replaceE]
  cases replaceL m args <;> simp

/-- **C21 (shape check).**  A mapping with an image of a different shape is refused by the check
    performed before any substitution. -/
theorem C21_rejects_shape (m : Mapping) (shapeOf : String → Option (List Nat)) (key : String) (img : Expr) (sh : List Nat)
    (hmem : (key, img) ∈ m) (hs : shapeOf key = some sh) (hne : sh ≠ shape img) : shapesOK m shapeOf = false := by
  simp only [shapesOK, List.all_eq_false]
  refine ⟨(key, img), hmem, ?_⟩
  simp [hs, hne]

/-- non-vacuity: a concrete mapping and expression meeting the hypotheses other than `MapOK`,
    with a visible effect (f ↦ g+g inside f*f under a restriction) -/
def exF : Expr := .term { cls := "Coefficient", key := "f", shape := [] }
def exG : Expr := .term { cls := "Coefficient", key := "g", shape := [] }
def exM : Mapping := [("f", .op .sum [] [exG, exG])]
def exE : Expr := .op .positiveRestricted [] [.op .product [] [exF, exF]]
example : WF exE = true ∧ GradFree exM exE = true ∧ Untouched exM exE = false := by decide
example : beq (substE exM exE) (.op .positiveRestricted [] [.op .product [] [.op .sum [] [exG, exG], .op .sum [] [exG, exG]]]) = true := by
  decide

end UflVerif.C21
