/-
C18  Estimated polynomial degree never underestimates the true degree.

  "For every integrand that is a polynomial in the spatial coordinates on affine simplex cells (sums,
   products, non-negative integer powers, indexing, tensor algebra and derivatives of polynomial form
   arguments, including components of mixed and symmetric elements), the estimated total polynomial
   degree is at least the true degree, so the quadrature degree derived from it integrates exactly."

Model.  `Degree.estimate` (Model/Degree.lean) is the model of `SumDegreeEstimator` +
`estimate_total_polynomial_degree`; `Degree.attachDegrees` of `attach_estimated_degrees`.  It is compared
value-for-value (ints, `None`, raising) with the implementation on every run, and its dispatch is
checked here against the table regenerated from the live class (`C18_dispatch_matches_live_table`).

Semantics.  The framework's denotational semantics `Expr.eval` is instantiated at the polynomial ring
`MvPolynomial σ F` (σ = spatial coordinates, F any field): terminals denote polynomials, gradients of
terminals their partial derivatives, `/` is division by the constant coefficient of the divisor
(`DegreeSem.polyDiv`; the fragment only divides by expressions proved constant, where this is the true
quotient: `C18_divisor_constant`, `C18_div_genuine`).  A valuation is admissible (`PolyEnv`) when every
physical component of a form argument has total degree at most the `embedded_superdegree` of the
sub-element that owns it *in the physical layout* (`Degree.compDeg`: mixed = concatenation by physical
sizes, symmetric = block (i,j) is sub-element sym(i,j)), `x` has the coordinate degree, constants and
cellwise constant geometry degree 0.

Full statement (C18_bound with the side condition removed):
    ∀ ctx ρ, PolyEnv ctx ρ → ∀ e n, WF e → Frag ctx noCond e → estimate ctx e = some (some n) →
      ∀ side ι c, c.length = (shape e).length → (eval ρ side ι e c).totalDegree ≤ n
It is FALSE for the `indexed` handler of the snapshot (variant `refSize`): the handler walks the
sub-elements with *reference* sizes against the flattened *physical* component
(`C18_bound_counterexample`: Mixed[Sym₂ₓ₂(P3,P3,P3), P1], component 3 is estimated 1, true degree 3).
It is proved
  * for the snapshot under the explicit side condition `layoutSafe` (every fixed-index access to a form
    argument with sub-elements goes to a plain concatenation whose sub-elements have equal reference and
    physical size): `C18_bound_partial`;
  * without side condition for the repaired handler (variant `physSize`: walk with physical sizes, leave
    symmetric elements alone) and for upstream's handler (variant `off`): `C18_bound_fixed`;
  * `C18_bound` is the common statement (side condition `sideCond ctx` chosen by the variant) and
    `C18_bound_live_full` instantiates it with the variant regenerated from the live source.
-/
import UflVerif.Sem.Degree
import UflVerif.Gen.DegreeTable

namespace UflVerif.C18
open UflVerif Expr Degree DegreeSem MvPolynomial

variable {σ : Type} {F : Type} [Field F]

/-! ### translator tie: the model dispatches as the live estimator does -/

/-- for every concrete UFL type, the model runs the function the live `SumDegreeEstimator` selected
    (`sum = _max_degrees`, `product = _add_degrees`, `grad = _reduce_degree`, ...) -/
theorem C18_dispatch_matches_live_table :
    ∀ r ∈ Gen.DegreeTable.table, (classHandler r.1 r.2.2.2).name = r.2.2.1 := by decide +kernel

/-- every operator of the model language and every terminal class the semantics distinguishes is in the table -/
theorem C18_dispatch_table_covers_model :
    (∀ p ∈ Op.table, p.1 ∈ Gen.DegreeTable.table.map (·.1)) ∧
    (∀ c ∈ ["Coefficient", "Argument", "Constant", "SpatialCoordinate", "CellCoordinate", "Identity", "PermutationSymbol",
            "Label", "MultiIndex", "Zero", "IntValue", "FloatValue", "ComplexValue"], c ∈ Gen.DegreeTable.table.map (·.1)) := by
  decide +kernel

/-- `a` occurs in the list, and strictly before the first occurrence of `b` -/
def occursBefore (l : List String) (a b : String) : Bool :=
  match l.idxOf? a, l.idxOf? b with
  | some i, some j => decide (i < j)
  | _, _ => false

def passesOf (f : String) : List String := (Gen.DegreeTable.pipeline.lookup f).getD []

/-- `compute_form_data` estimates degrees after algebra lowering and derivative expansion (so the estimator
    sees the lowered language the theorems speak about) and before pullbacks and geometry lowering;
    `attach_estimated_degrees` calls the estimator with the integrand only (defaults: degree 1, no replace map) -/
theorem C18_pipeline_order :
    occursBefore (passesOf "preprocess_form") "apply_algebra_lowering" "apply_derivatives" = true ∧
    occursBefore (passesOf "compute_form_data") "preprocess_form" "attach_estimated_degrees" = true ∧
    occursBefore (passesOf "compute_form_data") "attach_estimated_degrees" "apply_function_pullbacks" = true ∧
    occursBefore (passesOf "compute_form_data") "attach_estimated_degrees" "apply_geometry_lowering" = true ∧
    Gen.DegreeTable.attachCalls = [("estimate_total_polynomial_degree", 1, [])] ∧
    Gen.DegreeTable.defaultDegree = 1 := by decide +kernel

/-! ### the bound -/

/-- the side condition belonging to a variant makes the refinement sound -/
theorem refineSound_sideCond (ctx : Ctx) : RefineSound ctx (sideCond ctx) := by
  cases hv : ctx.variant with
  | refSize => simpa [sideCond, hv] using refineSound_ref ctx hv
  | physSize => simpa [sideCond, hv] using refineSound_phys ctx hv
  | off => simpa [sideCond, hv] using refineSound_off ctx hv

/-- **C18** (common form).  For every context, every admissible polynomial valuation, every well-formed
    expression of the polynomial fragment (of any size) whose `Indexed` nodes satisfy the variant's side
    condition: if the estimator returns `n`, every component of the expression, under every index
    environment and on either side of a facet, is a polynomial of total degree at most `n`. -/
theorem C18_bound (ctx : Ctx) (ρ : Env (MvPolynomial σ F)) (hρ : PolyEnv ctx ρ) (e : Expr) (n : Nat)
    (hw : WF e = true) (hf : Frag ctx (sideCond ctx) e = true) (he : estimate ctx e = some (some n))
    (side : Side) (ι : IdxEnv) (c : List Nat) (hc : c.length = (shape e).length) :
    (Expr.eval ρ side ι e c).totalDegree ≤ n :=
  (bound_aux ctx (sideCond ctx) ρ hρ (refineSound_sideCond ctx)).1 e hw hf n he side ι c hc

/-- **C18, full statement, for the repaired (`physSize`) and upstream (`off`) `indexed` handler**: no side condition. -/
theorem C18_bound_fixed (ctx : Ctx) (hv : ctx.variant ≠ .refSize) (ρ : Env (MvPolynomial σ F)) (hρ : PolyEnv ctx ρ)
    (e : Expr) (n : Nat) (hw : WF e = true) (hf : Frag ctx noCond e = true) (he : estimate ctx e = some (some n))
    (side : Side) (ι : IdxEnv) (c : List Nat) (hc : c.length = (shape e).length) :
    (Expr.eval ρ side ι e c).totalDegree ≤ n := by
  have hsc : sideCond ctx = noCond := by
    cases h : ctx.variant <;> simp_all [sideCond]
  exact C18_bound ctx ρ hρ e n hw (by rw [hsc]; exact hf) he side ι c hc

/-- **C18, partial, for the snapshot's handler** (`refSize`): the missing side condition is `layoutSafe` on every
    `Indexed` node — fixed-index access to a form argument with sub-elements only where the element is a plain
    concatenation whose sub-elements have equal reference and physical value size. -/
theorem C18_bound_partial (ctx : Ctx) (hv : ctx.variant = .refSize) (ρ : Env (MvPolynomial σ F)) (hρ : PolyEnv ctx ρ)
    (e : Expr) (n : Nat) (hw : WF e = true) (hf : Frag ctx (layoutSafe ctx) e = true)
    (he : estimate ctx e = some (some n))
    (side : Side) (ι : IdxEnv) (c : List Nat) (hc : c.length = (shape e).length) :
    (Expr.eval ρ side ι e c).totalDegree ≤ n :=
  C18_bound ctx ρ hρ e n hw (by simpa [sideCond, hv] using hf) he side ι c hc

/-- the statement for the handler that is live in /repo (variant regenerated from its source on every run):
    as soon as the live `indexed` handler is not the snapshot's, the full statement holds for it -/
theorem C18_bound_live_full (ctx : Ctx) (hlive : ctx.variant = Variant.ofName Gen.DegreeTable.indexedVariant)
    (hfix : Variant.ofName Gen.DegreeTable.indexedVariant ≠ .refSize)
    (ρ : Env (MvPolynomial σ F)) (hρ : PolyEnv ctx ρ)
    (e : Expr) (n : Nat) (hw : WF e = true) (hf : Frag ctx noCond e = true) (he : estimate ctx e = some (some n))
    (side : Side) (ι : IdxEnv) (c : List Nat) (hc : c.length = (shape e).length) :
    (Expr.eval ρ side ι e c).totalDegree ≤ n :=
  C18_bound_fixed ctx (by rw [hlive]; exact hfix) ρ hρ e n hw hf he side ι c hc



/-! ### admissible valuations exist: the canonical polynomial valuation -/

/-- `PolyEnv` is satisfiable: any family of polynomial fields within the per-component degree bounds, with
    their true partial derivatives as jets, is admissible -/
theorem C18_polyEnv_canonical [CharZero F] {m : ℕ} (ctx : Ctx) (fld : Side → String → List ℕ → MvPolynomial (Fin m) F)
    (h : ∀ side (d : TermData) c, termFrag ctx d = true → (fld side d.key c).totalDegree ≤ trueBound ctx d c) :
    PolyEnv ctx (polyEnv fld) where
  term_le := h
  jet_le := fun side d c ds hf => foldl_dirDeriv_le ds _ _ (h side d c hf)
  pow_nat := fun p n => by
    simp only [polyEnv, ↓reduceIte, Int.cast_natCast, expOf_natCast]
  conj_le := fun p => le_refl _
  re_le := fun p => le_refl _
  im_le := fun p => by simp [polyEnv]
  i_const := by simp [polyEnv]


/-! ### the full statement is false for the snapshot's handler -/

namespace Witness
def P (k : Nat) : Elem := .mk (some k) 1 1 .leaf []
/-- Sym₂ₓ₂(P3, P3, P3): reference size 3, physical size 4 -/
def S : Elem := .mk (some 3) 3 4 (.sym 1 [0, 1, 1, 2]) [P 3, P 3, P 3]
/-- Mixed[Sym₂ₓ₂(P3,P3,P3), P1]: physical components 0..3 belong to the symmetric part, 4 to P1 -/
def M : Elem := .mk (some 3) 4 5 .concat [S, P 1]
def fd : TermData := { cls := "Coefficient", key := "f", shape := [5] }
def ctx : Ctx := { default := 1, variant := .refSize,
                   info := [("f", { cls := "Coefficient", shape := [5], elem := some M, coordDeg := 1 })] }
/-- `f[3]` -/
def e : Expr := .op .indexed [] [.term fd, .mi [.fixed 3]]
/-- component 3 of `f` is `x₀³`, everything else vanishes -/
noncomputable def fld : Side → String → List ℕ → MvPolynomial (Fin 2) ℚ :=
  fun _ key c => if key = "f" ∧ c = [3] then X 0 ^ 3 else 0

theorem fld_ok : ∀ side (d : TermData) c, termFrag ctx d = true → (fld side d.key c).totalDegree ≤ trueBound ctx d c := by
  intro side d c hf
  unfold fld
  split
  · rename_i h
    obtain ⟨hk, hc⟩ := h
    have hcls : d.cls = "Coefficient" ∧ d.shape = [5] := by
      simp only [termFrag, Ctx.get, ctx, hk, List.find?, beq_self_eq_true, Bool.and_eq_true, beq_iff_eq] at hf
      exact ⟨hf.1.1.symm, hf.1.2.symm⟩
    have : trueBound ctx d c = 3 := by
      simp [trueBound, isFormArg, hcls.1, hcls.2, hc, hk, Ctx.get, ctx, flat, flatGo, M, S, P, compDeg, compDegWalk, compDegNth, Elem.physSize]
    rw [this]
    exact (totalDegree_pow _ _).trans (by simp)
  · simp
end Witness

/-- **The full statement fails for the snapshot's `indexed` handler**: for `f` in
    Mixed[Sym₂ₓ₂(P3,P3,P3), P1] the integrand `f[3]` (the (1,1) entry of the symmetric part, degree 3) is
    estimated 1, because physical component 3 is compared with the reference offsets 0..2 | 3. -/
theorem C18_bound_counterexample :
    ¬ (∀ (ctx : Ctx) (ρ : Env (MvPolynomial (Fin 2) ℚ)), ctx.variant = .refSize → PolyEnv ctx ρ →
        ∀ (e : Expr) (n : Nat), WF e = true → Frag ctx noCond e = true → estimate ctx e = some (some n) →
          ∀ side ι c, c.length = (shape e).length → (Expr.eval ρ side ι e c).totalDegree ≤ n) := by
  intro h
  have hρ := C18_polyEnv_canonical Witness.ctx Witness.fld Witness.fld_ok
  have hest : estimate Witness.ctx Witness.e = some (some 1) := by decide
  have hwf : WF Witness.e = true := by decide
  have hfr : Frag Witness.ctx noCond Witness.e = true := by decide
  have := h Witness.ctx (polyEnv Witness.fld) rfl hρ Witness.e 1 hwf hfr hest .none (fun _ => 0) [] rfl
  have hv : Expr.eval (polyEnv Witness.fld) .none (fun _ => 0) Witness.e [] = X 0 ^ 3 := by
    simp [Witness.e, Witness.fd, Expr.eval, polyEnv, Witness.fld, Idx.resolve]
  rw [hv, totalDegree_X_pow] at this
  omega


/-! ### what the bound is for: exact quadrature, forms, attached degrees -/

/-- "so the quadrature degree derived from it integrates exactly": a rule `Q` that reproduces the integral `I`
    on all polynomials of total degree ≤ q, with q at least the estimate, integrates the integrand exactly -/
theorem C18_quadrature_exact (ctx : Ctx) (ρ : Env (MvPolynomial σ F)) (hρ : PolyEnv ctx ρ) (e : Expr) (n q : Nat)
    (hw : WF e = true) (hf : Frag ctx (sideCond ctx) e = true) (he : estimate ctx e = some (some n))
    (hsc : shape e = []) (hq : n ≤ q)
    (I Q : MvPolynomial σ F → F) (hQ : ∀ p : MvPolynomial σ F, p.totalDegree ≤ q → Q p = I p)
    (side : Side) (ι : IdxEnv) : Q (Expr.eval ρ side ι e []) = I (Expr.eval ρ side ι e []) :=
  hQ _ ((C18_bound ctx ρ hρ e n hw hf he side ι [] (by simp [hsc])).trans hq)

/-- `estimate_total_polynomial_degree(form)`: the degree returned for a form bounds every one of its integrands -/
theorem C18_form_bound (ctx : Ctx) (ρ : Env (MvPolynomial σ F)) (hρ : PolyEnv ctx ρ) (es : List Expr) (N : Nat)
    (hw : ∀ e ∈ es, WF e = true ∧ Frag ctx (sideCond ctx) e = true)
    (ht : estimateTotal ctx es = some (some N)) :
    ∀ e ∈ es, ∀ side ι c, c.length = (shape e).length → (Expr.eval ρ side ι e c).totalDegree ≤ N := by
  intro e he side ι c hc
  unfold estimateTotal at ht
  cases hl : estimateL ctx es with
  | none => simp [hl] at ht
  | some ds =>
    simp only [hl] at ht
    have key : ∃ ns, Degree.allSome ds = some ns ∧ maxL ns = N := by
      unfold pyMaxList at ht
      split at ht
      · simp at ht
      · rename_i d
        simp only [Option.some.injEq] at ht
        subst ht
        exact ⟨[N], by simp [Degree.allSome], by simp [maxL]⟩
      · cases ha : Degree.allSome ds with
        | none => simp [ha] at ht
        | some ns => simp [ha] at ht; exact ⟨ns, rfl, ht⟩
    obtain ⟨ns, h1, h2⟩ := key
    obtain ⟨n, hn1, hn2⟩ := allSome_mem es ctx ds ns hl h1 e he
    exact (C18_bound ctx ρ hρ e n (hw e he).1 (hw e he).2 hn1 side ι c hc).trans (by omega)

/-- `attach_estimated_degrees`: the degree attached to the k-th integral bounds the k-th integrand -/
theorem C18_attached_bound (ctx : Ctx) (ρ : Env (MvPolynomial σ F)) (hρ : PolyEnv ctx ρ) :
    ∀ (es : List Expr) (ds : List Deg), attachDegrees ctx es = some ds →
      (∀ e ∈ es, WF e = true ∧ Frag ctx (sideCond ctx) e = true) →
      ∀ (k : Nat) (e : Expr) (n : Nat), es[k]? = some e → ds[k]? = some (some n) →
        ∀ side ι c, c.length = (shape e).length → (Expr.eval ρ side ι e c).totalDegree ≤ n
  | [], ds, _, _, k, e, n, hk, _ => by simp at hk
  | a :: as, ds, ha, hw, k, e, n, hk, hd => by
    simp only [attachDegrees] at ha
    cases h1 : estimateTotal ctx [a] with
    | none => simp [h1] at ha
    | some d =>
      cases h2 : attachDegrees ctx as with
      | none => simp [h1, h2] at ha
      | some ds' =>
        simp only [h1, h2, Option.some.injEq] at ha
        subst ha
        cases k with
        | zero =>
          simp only [List.getElem?_cons_zero, Option.some.injEq] at hk hd
          subst hk; subst hd
          intro side ι c hc
          have hwa := hw a (by simp)
          exact C18_form_bound ctx ρ hρ [a] n (fun x hx => by rw [List.mem_singleton.mp hx]; exact hwa) h1 a (by simp) side ι c hc
        | succ k' =>
          simp only [List.getElem?_cons_succ] at hk hd
          exact C18_attached_bound ctx ρ hρ as ds' h2 (fun x hx => hw x (by simp [hx])) k' e n hk hd

/-! ### division in the fragment is genuine division -/

/-- a divisor of the fragment denotes a constant -/
theorem C18_divisor_constant (ctx : Ctx) (ρ : Env (MvPolynomial σ F)) (hρ : PolyEnv ctx ρ) (aux : List Nat) (a b : Expr)
    (hw : WF (.op .division aux [a, b]) = true) (hf : Frag ctx (sideCond ctx) (.op .division aux [a, b]) = true)
    (side : Side) (ι : IdxEnv) : (Expr.eval ρ side ι b []).totalDegree = 0 := by
  simp only [WF, Bool.and_eq_true, List.isEmpty_iff, trueScalar] at hw
  simp only [Frag, Bool.and_eq_true, beq_iff_eq] at hf
  have := C18_bound ctx ρ hρ b 0 hw.1.1.2 hf.1.2 hf.2 side ι [] (by simp [hw.2.1])
  omega

/-- ... and dividing by a non-zero constant with `polyDiv` is the true quotient -/
theorem C18_div_genuine (p q : MvPolynomial σ F) (hq : q.totalDegree = 0) (hq0 : q ≠ 0) : p / q * q = p := by
  obtain ⟨a, rfl⟩ : ∃ a, q = C a := ⟨coeff 0 q, (totalDegree_eq_zero_iff_eq_C.mp hq)⟩
  have ha : a ≠ 0 := by rintro rfl; simp at hq0
  rw [div_def, coeff_zero_C, mul_assoc, ← C_mul, inv_mul_cancel₀ ha, C_1, mul_one]

/-- differentiation lowers the total degree (the fact behind `_reduce_degree` on simplices) -/
theorem C18_totalDegree_pderiv_le (i : σ) (p : MvPolynomial σ F) : (pderiv i p).totalDegree ≤ p.totalDegree - 1 :=
  totalDegree_pderiv_le i p

/-! ### the hypotheses are satisfiable by non-trivial instances -/

namespace Example
open Witness
def Q : Elem := .mk (some 3) 2 2 .concat [P 1, P 3]            -- Mixed[P1, P3]
def gd : TermData := { cls := "Coefficient", key := "g", shape := [2] }
def xd : TermData := { cls := "SpatialCoordinate", key := "x", shape := [2] }
def ctx2 : Ctx := { default := 1, variant := .refSize,
                    info := [("g", { cls := "Coefficient", shape := [2], elem := some Q, coordDeg := 1 }),
                             ("x", { cls := "SpatialCoordinate", shape := [2], coordDeg := 1 })] }
/-- `g[0] * g[1] + x[0]**2 * grad(g)[1, 0]` -/
def e2 : Expr :=
  .op .sum [] [.op .product [] [.op .indexed [] [.term gd, .mi [.fixed 0]], .op .indexed [] [.term gd, .mi [.fixed 1]]],
               .op .product [] [.op .power [] [.op .indexed [] [.term xd, .mi [.fixed 0]], .int 2],
                                .op .indexed [] [.op .grad [2] [.term gd], .mi [.fixed 1, .fixed 0]]]]
end Example

/-- a well-formed expression of the fragment satisfying the side condition of the partial theorem, with a
    refined (per-component) estimate: degree(g[0]) + degree(g[1]) = 1 + 3 -/
example : WF Example.e2 = true ∧ Frag Example.ctx2 (layoutSafe Example.ctx2) Example.e2 = true ∧
    estimate Example.ctx2 Example.e2 = some (some 4) := by decide

/-- ... while the counterexample's expression is exactly what the side condition excludes -/
example : Frag Witness.ctx noCond Witness.e = true ∧ Frag Witness.ctx (layoutSafe Witness.ctx) Witness.e = false := by decide

/-- the repaired handler estimates the counterexample correctly (3), upstream's too -/
example : estimate { Witness.ctx with variant := .physSize } Witness.e = some (some 3) ∧
    estimate { Witness.ctx with variant := .off } Witness.e = some (some 3) := by decide


end UflVerif.C18
