/-
C12  Signatures do not depend on incidental numbering or process state.

Statement (properties.jsonl): building the same form in the same way yields the same signature regardless of the
values of the global counters for indices, coefficients, constants, labels and meshes (as long as creation order is
the same), and regardless of the Python hash seed or process.

Formalisation.  A *construction history* (`List Instr`, Model/Renaming.lean) is run under a *supply* `ν : Ren` that
says which count the k-th created object of each counted class receives; "another state of the counters, the same
creation order" is another supply, strictly monotone per class (`Mono ν`; interleaved creation of unrelated objects
makes gaps).  The full statement is

    ∀ history p, integrals spec, supplies ν₁ ν₂, Mono ν₁ → Mono ν₂ →
        signature (buildForm cmpR ν₁ p spec) = signature (buildForm cmpR ν₂ p spec)                      (FULL)

where `cmpR` is `cmp_expr` with the repr comparators (`_cmp_terminal_by_repr` for `Constant`, geometric quantities and `Zero`)
and `signature` is `Form.signature()` (Model/Signature.lean).  Which terminal comparators the tree under test has is
regenerated on every run (Gen/OrderVariant.lean, `Expr.OrdCfg.live`; `C12_live_variant`): `cmpR` is its `cmp_expr` when they
are the repr ones (`C12_cmpR_is_live`), `cmpN` when they are the numeric ones of fix_C12_1.diff (`C12_cmpN_is_live`).

(FULL) is FALSE of the code with the repr comparators / repr hash data, for two independent reasons, each proved below with a concrete witness and
replayed on the implementation by harness/props/c12.py:
  1. `_cmp_terminal_by_repr` compares the decimal numerals inside `repr` as strings, so `Constant`s, geometric
     quantities and `Zero`s with free indices are ordered differently when a count crosses 9/10, 99/100, ...;
     `Sum`/`Product` then store their operands in the other order   (C12_cmp_counterexample, C12_history_counterexample);
  2. the hash data of a `Zero` is its `repr`, which contains the raw counts of its free indices
     (C12_sig_counterexample).
What is proved of the current code (`_partial`): invariance whenever the renaming does not change the result of the
string comparisons actually made (`ReprStable`, an explicit decidable condition on the terminals of the history) and the
form has no `Zero` with free indices.  What is proved of the repaired comparators and hash data (fix_C12_1.diff,
fix_C12_2.diff; models `cmpN`, `signatureZ`): (FULL) without side conditions (C12_history_numeric, C12_two_supplies_numeric).

Hash-seed independence is runtime behaviour of CPython sets/dicts; the model is a function of the form, so the model
cannot exhibit it.  It is covered by the subprocess correspondence only (harness/props/c12.py), see `CountsDistinct`.
-/
import UflVerif.Props.C12.History
import UflVerif.Props.C12.Renumber
import UflVerif.Props.C12.Numeric

namespace UflVerif.C12
open UflVerif CExpr L Sig BState

/-! ## 1. the canonical ordering -/

/-- the tree under test has one of the two sets of terminal comparators analysed here: `OrdCfg.live` is regenerated from
    ufl/sorting.py on every run (Gen/OrderVariant.lean) and this is decided by evaluation.  With `byRepr` live the
    `_partial` theorems and the counterexamples describe the code; with `numeric` live (fix_C12_1.diff) the `_numeric`
    theorems do. -/
theorem C12_live_variant : Expr.OrdCfg.live = .byRepr ∨ Expr.OrdCfg.live = .numeric := by decide

/-- `cmpR` is the ordering of Model/Order.lean (the one C29 proves a total preorder and ties to ufl/sorting.py) with the
    repr comparators, applied to the rendered expressions -/
theorem C12_cmpR_is_cmp (a b : CExpr) : cmpR a b = Expr.cmpC .byRepr a.toExpr b.toExpr := cmpR_toExpr a b

/-- `cmpN` is that ordering with the numeric comparators, for expressions whose class names are the real ones
    (`SaneN`: C29's `Sane`, and a structured geometric quantity / counter-free terminal carries a class name of its kind) -/
theorem C12_cmpN_is_cmp (a b : CExpr) (ha : SaneN a = true) (hb : SaneN b = true) :
    cmpN a b = Expr.cmpC .numeric a.toExpr b.toExpr := by
  simp only [SaneN, Bool.and_eq_true] at ha hb
  exact cmpN_toExpr a b ha.1 hb.1 ha.2 hb.2

/-- ... hence `cmpR` / `cmpN` is `cmp_expr` of the tree under test (`Expr.cmp`) when that tree has the repr / numeric comparators -/
theorem C12_cmpR_is_live (hl : Expr.OrdCfg.live = .byRepr) (a b : CExpr) : cmpR a b = Expr.cmp a.toExpr b.toExpr := by
  rw [C12_cmpR_is_cmp, Expr.cmp, hl]

theorem C12_cmpN_is_live (hl : Expr.OrdCfg.live = .numeric) (a b : CExpr) (ha : SaneN a = true) (hb : SaneN b = true) :
    cmpN a b = Expr.cmp a.toExpr b.toExpr := by
  rw [C12_cmpN_is_cmp a b ha hb, Expr.cmp, hl]

/-- the only comparisons that can change: two nodes of one typecode, not both operators, that are not of a kind whose
    comparison provably ignores the renamed numerals (`stableKind`: two multi-indices, two coefficients, two arguments,
    two labels, two nodes without counters).  What remains are `Constant`/`Constant`, geometric quantity pairs and `Zero`s
    with free indices — the terminals handled by `_cmp_terminal_by_repr` whose repr contains a count. -/
def ReprStable (σ : Ren) (S : List CExpr) : Prop :=
  ∀ a ∈ S, ∀ b ∈ S, ∀ x ∈ nodes a, ∀ y ∈ nodes b, typecode x = typecode y → bothOp x y = false → stableKind x y = false →
    termCmpR (x.rename σ) (y.rename σ) = termCmpR x y

/-- the side condition can be checked by evaluation for a concrete renaming and concrete expressions -/
instance (σ : Ren) (S : List CExpr) : Decidable (ReprStable σ S) := by
  unfold ReprStable
  infer_instance

theorem leafStable_of_reprStable {σ : Ren} (h : Mono σ) {S : List CExpr} (hs : ReprStable σ S) (a b : CExpr)
    (ha : a ∈ S) (hb : b ∈ S) : LeafStable termCmpR σ (nodes a) (nodes b) := by
  intro x hx y hy ht hop
  by_cases hk : stableKind x y = true
  · exact termCmpR_rename_stable h x y hk
  · exact hs a ha b hb x hx y hy ht hop (by simpa using hk)

/- FULL (false for the repr comparators):
   ∀ σ, Mono σ → ∀ a b, Expr.cmpC .byRepr (a.rename σ).toExpr (b.rename σ).toExpr = Expr.cmpC .byRepr a.toExpr b.toExpr -/

/-- **partial**: `cmp_expr` with the repr comparators gives the same answer after a monotone renaming of all counters,
    provided the string comparisons of the repr-compared terminals of `a` and `b` do -/
theorem C12_cmp_partial {σ : Ren} (h : Mono σ) (a b : CExpr) (hs : ReprStable σ [a, b]) :
    Expr.cmpC .byRepr (a.rename σ).toExpr (b.rename σ).toExpr = Expr.cmpC .byRepr a.toExpr b.toExpr := by
  rw [← cmpR_toExpr, ← cmpR_toExpr]
  exact cmpT_rename termCmpR σ a b (leafStable_of_reprStable h hs a b (by simp) (by simp))

/-- with numeric terminal comparators the ordering is invariant under every monotone renaming: full strength -/
theorem C12_cmp_numeric {σ : Ren} (h : Mono σ) (a b : CExpr) : cmpN (a.rename σ) (b.rename σ) = cmpN a b :=
  cmpT_rename termCmpN σ a b (fun x _ y _ _ _ => termCmpN_rename h x y)

/-- the same on the rendered expressions, for the ordering the C29 correspondence ties to `ufl.sorting.cmp_expr` -/
theorem C12_cmp_numeric_rendered {σ : Ren} (h : Mono σ) (a b : CExpr) (ha : SaneN a = true) (hb : SaneN b = true) :
    Expr.cmpC .numeric (a.rename σ).toExpr (b.rename σ).toExpr = Expr.cmpC .numeric a.toExpr b.toExpr := by
  rw [← C12_cmpN_is_cmp _ _ (by rw [SaneN_rename]; exact ha) (by rw [SaneN_rename]; exact hb), ← C12_cmpN_is_cmp _ _ ha hb]
  exact C12_cmp_numeric h a b

/-- **`cmp_expr` of the tree under test**, whichever of the two sets of comparators it has: invariant under every monotone
    renaming if they are the numeric ones, and under those that leave the string comparisons alone if they are the repr ones -/
theorem C12_cmp_live {σ : Ren} (h : Mono σ) (a b : CExpr)
    (hs : (Expr.OrdCfg.live = .numeric ∧ SaneN a = true ∧ SaneN b = true) ∨ (Expr.OrdCfg.live = .byRepr ∧ ReprStable σ [a, b])) :
    Expr.cmp (a.rename σ).toExpr (b.rename σ).toExpr = Expr.cmp a.toExpr b.toExpr := by
  rcases hs with ⟨hl, ha, hb⟩ | ⟨hl, hs⟩
  · rw [Expr.cmp, hl]; exact C12_cmp_numeric_rendered h a b ha hb
  · rw [Expr.cmp, hl]; exact C12_cmp_partial h a b hs

/-! ### witnesses -/

def mesh0 (id : Nat) : MeshD := { id := id, gdim := 2, tdim := 2, celem := "E" }
def kst (c : Nat) : CExpr := .term (.const c (mesh0 1) [])
def vol (id : Nat) : CExpr := .term (.geo "CellVolume" (mesh0 id) [])
def shift (d : Nat) : Ren := ⟨fun n => n + d, fun n => n + d, fun n => n + d, fun n => n + d, fun n => n + d⟩

theorem shift_mono (d : Nat) : Mono (shift d) :=
  ⟨fun _ _ h => Nat.add_lt_add_right h d, fun _ _ h => Nat.add_lt_add_right h d, fun _ _ h => Nat.add_lt_add_right h d,
   fun _ _ h => Nat.add_lt_add_right h d, fun _ _ h => Nat.add_lt_add_right h d⟩

/-- constants 8, 9 are ordered 8 < 9; one more object created before them makes them 9, 10 and the order "9" > "10";
    the same for CellVolume on meshes 8, 9 and for Zeros with free index 8, 9 -/
theorem C12_cmp_counterexample :
    ¬ (∀ σ : Ren, Mono σ → ∀ a b : CExpr, Expr.cmpC .byRepr (a.rename σ).toExpr (b.rename σ).toExpr = Expr.cmpC .byRepr a.toExpr b.toExpr) := by
  intro hall
  have := hall (shift 1) (shift_mono 1) (kst 8) (kst 9)
  revert this
  decide +kernel

theorem C12_cmp_counterexample_geometry :
    Expr.cmpC .byRepr (vol 8).toExpr (vol 9).toExpr = .lt ∧ Expr.cmpC .byRepr ((vol 8).rename (shift 1)).toExpr ((vol 9).rename (shift 1)).toExpr = .gt := by
  decide +kernel

theorem C12_cmp_counterexample_zero :
    Expr.cmpC .byRepr (CExpr.zero [] [(8, 2)]).toExpr (CExpr.zero [] [(9, 2)]).toExpr = .lt ∧
    Expr.cmpC .byRepr ((CExpr.zero [] [(8, 2)]).rename (shift 1)).toExpr ((CExpr.zero [] [(9, 2)]).rename (shift 1)).toExpr = .gt := by
  decide +kernel

/-- the side condition of `C12_cmp_partial` is satisfiable by a non-trivial instance: a shift that stays inside the
    two-digit numerals leaves the comparison of constants 18, 19 and of a sum that contains them alone -/
example : Expr.cmpC .byRepr ((kst 18).rename (shift 5)).toExpr ((kst 19).rename (shift 5)).toExpr = Expr.cmpC .byRepr (kst 18).toExpr (kst 19).toExpr := by
  decide +kernel

/-- ... and the condition itself is decided by evaluation: constants 18, 19 and CellVolume on meshes 18, 19 inside
    operators, renamed by +5 (all numerals stay two digits long) -/
example : ReprStable (shift 5) [.op .sum [] [kst 18, .op .product [] [vol 18, kst 19]], .op .product [] [kst 19, vol 19]] := by
  decide +kernel

example : Expr.cmpC .byRepr ((CExpr.op .sum [] [kst 18, .op .product [] [vol 18, kst 19]]).rename (shift 5)).toExpr ((CExpr.op .product [] [kst 19, vol 19]).rename (shift 5)).toExpr
    = Expr.cmpC .byRepr (CExpr.op .sum [] [kst 18, .op .product [] [vol 18, kst 19]]).toExpr (CExpr.op .product [] [kst 19, vol 19]).toExpr :=
  C12_cmp_partial (shift_mono 5) _ _ (by decide +kernel)

/-- non-vacuity of `C12_cmpN_is_cmp` / `C12_cmp_numeric_rendered`: the witnesses above satisfy `SaneN`, and on them the numeric
    ordering of Model/Order.lean is not changed by the shift that changes the repr ordering -/
example : SaneN (kst 8) = true ∧ SaneN (vol 9) = true ∧ SaneN (.op .sum [] [kst 18, .op .product [] [vol 18, kst 19]]) = true ∧
    Expr.cmpC .numeric (kst 8).toExpr (kst 9).toExpr = .lt ∧ Expr.cmpC .numeric ((kst 8).rename (shift 1)).toExpr ((kst 9).rename (shift 1)).toExpr = .lt ∧
    Expr.cmpC .numeric (vol 8).toExpr (vol 9).toExpr = .lt ∧ Expr.cmpC .numeric ((vol 8).rename (shift 1)).toExpr ((vol 9).rename (shift 1)).toExpr = .lt ∧
    Expr.cmpC .numeric (CExpr.zero [] [(8, 2)]).toExpr (CExpr.zero [] [(9, 2)]).toExpr = .eq := by
  decide +kernel

/-! ## 2. the constructors that consult the ordering -/

/- FULL (false): ∀ σ, Mono σ → mkSorted cmpR k (a.rename σ) (b.rename σ) = (mkSorted cmpR k a b).rename σ -/

/-- **partial**: `Sum(a, b)` / `Product(a, b)` of the renamed operands is the renamed `Sum(a, b)` / `Product(a, b)` -/
theorem C12_sorted_partial {σ : Ren} (h : Mono σ) (k : Op) (a b : CExpr) (hs : ReprStable σ [a, b]) :
    mkSorted cmpR k (a.rename σ) (b.rename σ) = (mkSorted cmpR k a b).rename σ :=
  mkSorted_rename cmpR σ k a b
    (cmpT_rename termCmpR σ b a (leafStable_of_reprStable h hs b a (by simp) (by simp)))

theorem C12_sorted_numeric {σ : Ren} (h : Mono σ) (k : Op) (a b : CExpr) :
    mkSorted cmpN k (a.rename σ) (b.rename σ) = (mkSorted cmpN k a b).rename σ :=
  mkSorted_rename cmpN σ k a b (C12_cmp_numeric h b a)

/-- the product of constants 8 and 9 stores them as (8, 9); created one object later (they are 9 and 10) it stores (10, 9) -/
theorem C12_sorted_counterexample :
    CExpr.beq (mkSorted cmpR .product (kst 8) (kst 9)) (.op .product [] [kst 8, kst 9]) = true ∧
    CExpr.beq (mkSorted cmpR .product ((kst 8).rename (shift 1)) ((kst 9).rename (shift 1))) (.op .product [] [(kst 9).rename (shift 1), (kst 8).rename (shift 1)]) = true := by
  decide +kernel

/-! ## 3. the signature of a given form -/

def optBeq : Option SigData → Option SigData → Bool
  | some a, some b => SigData.beq a b
  | none, none => true
  | _, _ => false

mutual
theorem sigBeq_refl : ∀ d : SigData, SigData.beq d d = true
  | .str _ | .raw _ | .int _ => by simp [SigData.beq]
  | .none => rfl
  | .tup xs | .lst xs | .fmt xs => by simp [SigData.beq, sigBeqL_refl xs]
  | .hash d => by simp [SigData.beq, sigBeq_refl d]
theorem sigBeqL_refl : ∀ l : List SigData, SigData.beqL l l = true
  | [] => rfl
  | a :: as => by simp [SigData.beqL, sigBeq_refl a, sigBeqL_refl as]
end

theorem optBeq_of_eq {a b : Option SigData} (h : a = b) : optBeq a b = true := by
  subst h
  cases a <;> simp [optBeq, sigBeq_refl]

/- FULL (false): ∀ σ, Mono σ → ∀ f, signature (f.rename σ) = signature f -/

/-- **partial**: the signature of a form is unchanged by a monotone renaming of all its index, coefficient, constant
    and label counts and mesh ids, if the form contains no `Zero` with free indices.  (Covers: the order of the
    integrals, domain numbering, terminal numbering, the uniqueness checks, the traversal that numbers the indices, and
    every `_ufl_signature_data_`.) -/
theorem C12_sig_partial {σ : Ren} (h : Mono σ) (f : CForm) (hz : FormNoFreeZero f = true) :
    signature (f.rename σ) = signature f := by
  unfold signature
  rw [formData_rename h false f (Or.inr hz)]

/-- with the free indices of a `Zero` numbered like those of a multi-index: full strength -/
theorem C12_sig_numeric {σ : Ren} (h : Mono σ) (f : CForm) : signatureZ (f.rename σ) = signatureZ f := by
  unfold signatureZ
  rw [formData_rename h true f (Or.inl rfl)]

def vcoef : CExpr := .term (.coeff 0 { mesh := mesh0 1, elem := "V" } [2])
def scoef (c : Nat) : CExpr := .term (.coeff c { mesh := mesh0 1, elem := "P" } [])
/-- `conditional(f < g, 0*v[i], v[i]) * v[i]` summed over i = index 3 -/
def zform (i : Nat) : CForm :=
  [{ integrand := .op .indexSum [] [.op .product [] [.op .indexed [] [vcoef, .mi [.free i]],
        .op .conditional [] [.op .lT [] [scoef 1, scoef 2], .zero [] [(i, 2)], .op .indexed [] [vcoef, .mi [.free i]]]], .mi [.free i]],
     itype := "cell", mesh := mesh0 1, sub := .str "everywhere", metadata := .t [] }]

/-- the same form built after one more Index has been created has another signature: the hash data of the `Zero` is its
    repr `Zero((), (3,), (2,))` / `Zero((), (4,), (2,))` -/
theorem C12_sig_counterexample : ¬ (∀ σ : Ren, Mono σ → ∀ f : CForm, signature (f.rename σ) = signature f) := by
  intro hall
  have h := optBeq_of_eq (hall (shift 1) (shift_mono 1) (zform 3))
  revert h
  decide +kernel

/-- non-vacuity of `C12_sig_numeric` / the repair on the same witness: with the repaired hash data the two signatures agree,
    and they are signatures (the form does not raise) -/
example : optBeq (signatureZ ((zform 3).rename (shift 1))) (signatureZ (zform 3)) = true ∧ (signatureZ (zform 3)).isSome = true := by
  decide +kernel

/-! ## 4. construction histories: the property as stated -/

/-- the supply of a fresh process: the k-th object of every class has count k -/
abbrev fresh : Ren := Ren.ident

theorem stable_numeric {ν : Ren} (h : Mono ν) (S : List CExpr) : Stable cmpN ν S :=
  fun x _ y _ => C12_cmp_numeric h x y

theorem stable_of_reprStable {ν : Ren} (h : Mono ν) {S : List CExpr} (hs : ReprStable ν S) : Stable cmpR ν S :=
  fun x hx y hy => cmpT_rename termCmpR ν x y (leafStable_of_reprStable h hs x y hx hy)

theorem buildForm_rename (c : CExpr → CExpr → Ordering) {ν : Ren} (h : Mono ν) (p : List Instr) (spec : List IntegralSpec)
    (st : BState) (hr : run c fresh p {} = some st) (hs : Stable c ν st.exprs) :
    buildForm c ν p spec = (buildForm c fresh p spec).map (CForm.rename ν) := by
  have h0 : ({} : BState).rename ν = {} := rfl
  have := run_rename c h p {} st hr hs
  rw [h0] at this
  simp only [buildForm, this, hr, Option.bind_some, form_rename]

/- FULL (false), see the header:
   ∀ p spec ν, Mono ν → (buildForm cmpR ν p spec).bind signature = (buildForm cmpR fresh p spec).bind signature -/

/-- **partial, current code**: a history that runs builds, under any counter state `ν`, a form with the signature it has
    in a fresh process — provided the string comparisons between the repr-compared terminals of the registers are not
    changed by `ν` and no `Zero` with free indices reaches the form -/
theorem C12_history_partial {ν : Ren} (h : Mono ν) (p : List Instr) (spec : List IntegralSpec) (st : BState) (f : CForm)
    (hr : run cmpR fresh p {} = some st) (hf : st.form spec = some f)
    (hs : ReprStable ν st.exprs) (hz : FormNoFreeZero f = true) :
    (buildForm cmpR ν p spec).bind signature = (buildForm cmpR fresh p spec).bind signature := by
  rw [buildForm_rename cmpR h p spec st hr (stable_of_reprStable h hs)]
  have hb : buildForm cmpR fresh p spec = some f := by simp [buildForm, hr, hf]
  rw [hb]
  simp only [Option.map_some, Option.bind_some]
  exact C12_sig_partial h f hz

/-- the same between any two counter states (current code, both satisfying the side condition) -/
theorem C12_two_supplies_partial {ν₁ ν₂ : Ren} (h₁ : Mono ν₁) (h₂ : Mono ν₂) (p : List Instr) (spec : List IntegralSpec)
    (st : BState) (f : CForm) (hr : run cmpR fresh p {} = some st) (hf : st.form spec = some f)
    (hs₁ : ReprStable ν₁ st.exprs) (hs₂ : ReprStable ν₂ st.exprs) (hz : FormNoFreeZero f = true) :
    (buildForm cmpR ν₁ p spec).bind signature = (buildForm cmpR ν₂ p spec).bind signature := by
  rw [C12_history_partial h₁ p spec st f hr hf hs₁ hz, C12_history_partial h₂ p spec st f hr hf hs₂ hz]

/-- **full strength for the repaired comparators and hash data**: a history that runs builds a form whose signature does
    not depend on the state of the counters -/
theorem C12_history_numeric {ν : Ren} (h : Mono ν) (p : List Instr) (spec : List IntegralSpec) (st : BState)
    (hr : run cmpN fresh p {} = some st) :
    (buildForm cmpN ν p spec).bind signatureZ = (buildForm cmpN fresh p spec).bind signatureZ := by
  rw [buildForm_rename cmpN h p spec st hr (stable_numeric h _)]
  cases buildForm cmpN fresh p spec with
  | none => rfl
  | some f =>
    simp only [Option.map_some, Option.bind_some]
    exact C12_sig_numeric h f

/-- the statement of the property, for the repaired code: any two counter states -/
theorem C12_two_supplies_numeric {ν₁ ν₂ : Ren} (h₁ : Mono ν₁) (h₂ : Mono ν₂) (p : List Instr) (spec : List IntegralSpec)
    (st : BState) (hr : run cmpN fresh p {} = some st) :
    (buildForm cmpN ν₁ p spec).bind signatureZ = (buildForm cmpN ν₂ p spec).bind signatureZ := by
  rw [C12_history_numeric h₁ p spec st hr, C12_history_numeric h₂ p spec st hr]

/-- moreover the objects themselves are the renamed objects (tree for tree) -/
theorem C12_build_numeric {ν : Ren} (h : Mono ν) (p : List Instr) (st : BState) (hr : run cmpN fresh p {} = some st) :
    run cmpN ν p {} = some (st.rename ν) :=
  run_rename cmpN h p {} st hr (stable_numeric h _)

theorem C12_build_partial {ν : Ren} (h : Mono ν) (p : List Instr) (st : BState) (hr : run cmpR fresh p {} = some st)
    (hs : ReprStable ν st.exprs) : run cmpR ν p {} = some (st.rename ν) :=
  run_rename cmpR h p {} st hr (stable_of_reprStable h hs)

/-- `c1 = Constant(mesh); c2 = Constant(mesh); (c1*c2)*dx` — ten constants created earlier change its signature -/
def prodProg : List Instr := [.mesh "E" 2 2, .const 0 [], .const 0 [], .product 0 1]
def prodSpec : List IntegralSpec := [{ expr := 2, itype := "cell", mesh := 0, sub := .str "everywhere", metadata := .t [] }]

theorem C12_history_counterexample :
    ¬ (∀ (ν : Ren), Mono ν → ∀ (p : List Instr) (spec : List IntegralSpec),
        (buildForm cmpR ν p spec).bind signature = (buildForm cmpR fresh p spec).bind signature) := by
  intro hall
  have h := optBeq_of_eq (hall (shift 9) (shift_mono 9) prodProg prodSpec)
  revert h
  decide +kernel

/-- non-vacuity: the same history under the repaired ordering has one signature under both supplies, and it runs -/
example : optBeq ((buildForm cmpN (shift 9) prodProg prodSpec).bind signatureZ) ((buildForm cmpN fresh prodProg prodSpec).bind signatureZ) = true
    ∧ ((buildForm cmpN fresh prodProg prodSpec).bind signatureZ).isSome = true := by
  decide +kernel

/-- non-vacuity of `C12_history_partial`: a shift by 3 keeps the counts 0, 1 one digit long: same signature -/
example : optBeq ((buildForm cmpR (shift 3) prodProg prodSpec).bind signature) ((buildForm cmpR fresh prodProg prodSpec).bind signature) = true := by
  decide +kernel

/-! ## 5. `renumber_indices` (ufl/algorithms/renumbering.py)

The model is `Expr.renumber` of Model/IndexPasses.lean (relabel the indices 0, 1, 2, ... in the order a post-order traversal
first meets them, rebuild every node through its constructor), compared tree-for-tree with the implementation by C10. -/

/-- a renaming of the index counts only -/
def idxOnly (f : Nat → Nat) : Ren := ⟨f, fun n => n, fun n => n, fun n => n, fun n => n⟩

theorem term_rename_idxOnly (f : Nat → Nat) (t : CTerm) : t.rename (idxOnly f) = t := by
  cases t <;> rfl

mutual
theorem toExpr_rename_idxOnly (f : Nat → Nat) : ∀ e : CExpr, (e.rename (idxOnly f)).toExpr = reIdx f e.toExpr
  | .op k aux args => by simp only [CExpr.rename, toExpr, reIdx, toExprL_rename_idxOnly f args]
  | .term t => by simp only [CExpr.rename, toExpr, reIdx, term_rename_idxOnly]
  | .mi is => by
    simp only [CExpr.rename, toExpr, reIdx]
    congr 1
    apply List.map_congr_left
    intro i _
    cases i <;> rfl
  | .zero sh fi => rfl
  | .int _ | .real _ _ | .cplx _ _ _ _ => rfl
theorem toExprL_rename_idxOnly (f : Nat → Nat) : ∀ l : List CExpr, toExprL (renameL (idxOnly f) l) = reIdxL f (toExprL l)
  | [] => rfl
  | a :: as => by simp only [renameL, toExprL, reIdxL, toExpr_rename_idxOnly f a, toExprL_rename_idxOnly f as]
end

/-- **`renumber_indices` forgets the index counts** (full strength, every expression of the model language, no
    well-formedness assumption): the output for an input whose index counts were renamed by any strictly monotone map is
    the output for the original input — including whether it raises -/
theorem C12_renumber_invariant {f : Nat → Nat} (hf : StrictMonoN f) (x : Expr) : Expr.renumber (reIdx f x) = Expr.renumber x :=
  renumber_reIdx hf x

/-- the same for expressions with structured terminals -/
theorem C12_renumber_invariant_structured {f : Nat → Nat} (hf : StrictMonoN f) (e : CExpr) :
    Expr.renumber (e.rename (idxOnly f)).toExpr = Expr.renumber e.toExpr := by
  rw [toExpr_rename_idxOnly]
  exact renumber_reIdx hf e.toExpr

/-- non-vacuity: `as_vector(w[i]*A[i,j], j)[j] ...` with i = 8, j = 9 and with i = 9, j = 10 renumber to the same expression -/
example :
    let w : Expr := .term { cls := "Coefficient", key := "w", shape := [2] }
    let x : Expr := .op .indexSum [] [.op .product [] [.op .indexed [] [w, .mi [.free 8]], .op .indexed [] [w, .mi [.free 8]]], .mi [.free 8]]
    (Expr.renumber x).isSome = true ∧
    (Expr.renumber (reIdx (· + 1) x)).map (fun r => (Expr.renumber x).map (Expr.beq r)) = some (some true) := by
  decide +kernel

/-! ## 6. what the model does not decide: objects of one class with one count

`terminal_numbering` sorts a *set* by count.  Two different `Constant`s with the same (explicitly given) count come out in
hash order, so the signature depends on PYTHONHASHSEED (different `Coefficient`s with one count are rejected by
`extract_terminals_with_domain`; `raises` models that).  The model keeps first-occurrence order for them; it describes the
code only for forms satisfying `CountsDistinct`, which every history satisfies (each creation draws a new count). -/
def CountsDistinct (f : CForm) : Bool :=
  !clash sameCount ((formTerms f).filter isConst) && !clash sameCount ((formTerms f).filter isLabel)

theorem C12_countsDistinct_rename {σ : Ren} (h : Mono σ) (f : CForm) : CountsDistinct (f.rename σ) = CountsDistinct f := by
  unfold CountsDistinct
  rw [formTerms_rename, filter_rename σ isConst (isConst_rename σ), filter_rename σ isLabel (isLabel_rename σ)]
  rw [clash_rename h sameCount _ (by
        intro a ha b hb
        simp only [List.mem_filter] at ha hb
        exact (sameClass_const h a b ha.2 hb.2).2),
      clash_rename h sameCount _ (by
        intro a ha b hb
        simp only [List.mem_filter] at ha hb
        exact (sameClass_label h a b ha.2 hb.2).2)]

end UflVerif.C12
