/-
C16  lhs / rhs / system / action / adjoint / energy_norm / functional respect the algebra.

Model: Model/FormTransform.lean (PartExtracter, compute_form_with_arity, compute_form_lhs/_rhs/_functional/
_action/_adjoint, compute_energy_norm, FormSplitter.split for MixedFunctionSpace parts), compared
tree-for-tree with the implementation on every run (harness/props/c16.py).  Lemmas: Sem/ArgEnv.lean
(substitution of terminals through gradients), Sem/MultiAffine.lean (the difference operator `T`, the
invariant of the traversal, affinity of multi-affine expressions).

Reading of the statement.  A valuation `ρ` gives every terminal a value and derivative jets on each side
of a facet; `ρ.zeroKeys Z` sets the Arguments `Z` to zero, `ρ.setKey a x` sets the Argument `a` to `x`.
For an integrand `e` with Arguments `v` (test, number 0) and `u` (trial, number 1):
    part{v,u} e ρ = e ρ − e ρ[u:=0] − e ρ[v:=0] + e ρ[v:=0,u:=0]        (bilinear part)
    part{v}   e ρ = e ρ[u:=0] − e ρ[v:=0,u:=0]                           (linear part)
    part{}    e ρ = e ρ[v:=0,u:=0]                                       (argument-free part)
`T W (fun _ => true) (G U e ..)` is this Moebius part for any number of wanted (`W`) and unwanted (`U`)
Arguments.  The theorems hold for every reconstruction function `rb` that is value preserving
(`RbSound`: C05's statement about the real constructors), in particular for `rbPlain`.
-/
import Mathlib.Tactic.NormNum
import UflVerif.Sem.FormVal

namespace UflVerif.C16
open UflVerif Expr ArgEnv MA

variable {K : Type} [Field K]

/-! ## PartExtracter -/

/-- **C16 (part extraction).**  For every multi-affine well-formed expression `e` (any size), wanted
    Arguments `W` and unwanted Arguments `U`: whatever `PartExtracter(W).visit(e)` returns as
    `(part, provides)` has the shape and free indices of `e`, provides only wanted Arguments that occur in
    `e`, and — for every valuation with additive conj/real/imag, side, index environment and component —
    if it provides *all* wanted Arguments occurring in `e`, the part's value is the part of `e` of degree
    one in each of them (unwanted Arguments set to zero); otherwise that part of `e` is zero. -/
theorem C16_extract (rb : Rb) (hrb : RbSound K rb) (W U : List String) (hW : W.Nodup) (hWU : ∀ a ∈ W, a ∉ U)
    (e : Expr) (hc : Ctx W U e) (p : Expr) (P : ASet) (h : extract rb W e = some (p, P)) :
    shape p = shape e ∧ fi p = fi e ∧ (∀ a ∈ P, a ∈ W ∧ occ e a = true) ∧
    ∀ s ι c (ρ : Env K), AddEnv ρ →
      (PeqM W (occ e) P → eval ρ s ι p c = T W (occ e) (G U e s ι c) ρ) ∧
      (¬ PeqM W (occ e) P → T W (occ e) (G U e s ι c) ρ = 0) := by
  have hi := (extract_inv rb hrb W U hW hWU).1 e hc p P h
  exact ⟨hi.sh, hi.fi_, hi.sub, fun s ι c ρ hρ => ⟨fun hp => (hi.val s ι c).1 hp ρ hρ, fun hp => (hi.val s ι c).2 hp ρ hρ⟩⟩

/-- **C16 (compute_form_with_arity, one integrand).**  The integrand kept for the wanted Arguments `W`
    has, at every valuation, the value of the part of `e` of degree one in each Argument of `W` with every
    other Argument set to zero. -/
theorem C16_arity_part (rb : Rb) (hrb : RbSound K rb) (W U : List String) (hW : W.Nodup) (hWU : ∀ a ∈ W, a ∉ U)
    (e : Expr) (hc : Ctx W U e) (r : Expr) (h : arityPart rb W e = some r)
    (s : Side) (ι : IdxEnv) (c : List Nat) (ρ : Env K) (hρ : AddEnv ρ) :
    eval ρ s ι r c = T W (fun _ => true) (G U e s ι c) ρ := by
  unfold arityPart at h
  cases hex : extract rb W e with
  | none => simp [hex] at h
  | some r0 =>
    obtain ⟨p, P⟩ := r0
    simp only [hex] at h
    have hi := (extract_inv rb hrb W U hW hWU).1 e hc p P hex
    by_cases hall : ∀ a ∈ W, occ e a = true
    · -- every wanted Argument occurs
      have hT : T W (fun _ => true) (G (K := K) U e s ι c) = T W (occ e) (G U e s ι c) :=
        T_ext W _ _ _ (fun a ha => (hall a ha).symm)
      rw [hT]
      split at h
      · rename_i heq
        simp only [Option.some.injEq] at h; subst h
        have hp : PeqM W (occ e) P := by
          intro a
          rw [(eqv_iff P W).mp heq a]
          exact ⟨fun ha => ⟨ha, hall a ha⟩, fun ha => ha.1⟩
        exact (hi.val s ι c).1 hp ρ hρ
      · rename_i hne
        simp only [Option.some.injEq] at h; subst h
        have hp : ¬ PeqM W (occ e) P := by
          intro hp
          apply hne
          rw [eqv_iff]
          intro a
          rw [hp a]
          exact ⟨fun ha => ha.1, fun ha => ⟨ha, hall a ha⟩⟩
        rw [(hi.val s ι c).2 hp ρ hρ]
        simp [eval]
    · -- a wanted Argument does not occur: there is no such part
      simp only [not_forall] at hall
      obtain ⟨a, ha, hoa⟩ := hall
      have hoa' : occ e a = false := by simpa using hoa
      have hz : T W (fun _ => true) (G (K := K) U e s ι c) ρ = 0 :=
        T_zero_of_indep a W _ _ ha rfl (indep_of_not_occ W U e hc.wf hc.keys a ha hoa' s ι c) ρ
      rw [hz]
      have hne : ASet.eqv P W = false := by
        cases heq : ASet.eqv P W
        · rfl
        · exfalso
          have := (hi.sub a (((eqv_iff P W).mp heq a).mpr ha)).2
          rw [hoa'] at this; exact Bool.false_ne_true this
      simp only [hne, Bool.false_eq_true, ↓reduceIte, Option.some.injEq] at h
      subst h
      simp [eval]

/-! ## the Moebius parts, written out for 0, 1 and 2 wanted Arguments -/

theorem part0 (g : Env K → K) (ρ : Env K) : T [] (fun _ => true) g ρ = g ρ := rfl

theorem part1 (v : String) (g : Env K → K) (ρ : Env K) :
    T [v] (fun _ => true) g ρ = g ρ - g (ρ.zeroKeys [v]) := by
  simp [T]

theorem part2 (v u : String) (g : Env K → K) (ρ : Env K) :
    T [v, u] (fun _ => true) g ρ = g ρ - g (ρ.zeroKeys [u]) - g (ρ.zeroKeys [v]) + g ((ρ.zeroKeys [v]).zeroKeys [u]) := by
  simp only [T, ↓reduceIte]
  ring

/-! ## forms: compute_form_with_arity, functional, lhs, rhs -/

/-- every integrand is well formed and multi-affine, and the keys of the form's Arguments belong to Arguments only -/
def FormCtx (A : List String) (F : FormM) : Prop := ∀ p ∈ F, WF p.2 = true ∧ MA p.2 = true ∧ argKeysOK A p.2 = true

theorem zeroKeys_nil (ρ : Env K) : ρ.zeroKeys [] = ρ := by
  cases ρ; simp [Env.zeroKeys]

theorem sum_map_add' {α : Type} (l : List α) (f g : α → K) : (l.map f).sum + (l.map g).sum = (l.map (fun x => f x + g x)).sum := by
  induction l with
  | nil => simp
  | cons x xs ih => simp only [List.map_cons, List.sum_cons, ← ih]; ring

theorem sum_map_neg' {α : Type} (l : List α) (f : α → K) : - (l.map f).sum = (l.map (fun x => - f x)).sum := by
  induction l with
  | nil => simp
  | cons x xs ih => simp only [List.map_cons, List.sum_cons, ← ih]; ring

/-- **C16 (compute_form_with_arity).**  For a form whose `n` first Arguments are `W` and whose other
    Arguments are `U`: the value of `compute_form_with_arity(form, n)`, under any additive integration, is the
    sum over the integrals of the form of the integral of the part of the integrand of degree one in each
    Argument of `W`, all other Arguments set to zero. -/
theorem C16_arity_form (rb : Rb) (hrb : RbSound K rb) (F : FormM) (as : List TermData) (hargs : formArgs F = some as)
    (n : Nat) (hn : n ≤ as.length) (hF : FormCtx (as.map (·.key)) F) (R : FormM) (h : arityForm rb F n = some R)
    (μ : Nat → (Env K → K) → K) (hμ : Integration μ) :
    formVal μ R = (F.map (fun p => μ p.1 (fun ρ =>
      T ((as.take n).map (·.key)) (fun _ => true) (fun ρ' => itg (ρ'.zeroKeys ((as.drop n).map (·.key))) p.2) ρ))).sum := by
  obtain ⟨hnd, hcov⟩ := formArgs_spec F as hargs
  have hsplit : (as.take n).map (·.key) ++ (as.drop n).map (·.key) = as.map (·.key) := by
    rw [← List.map_append, List.take_append_drop]
  rw [← hsplit] at hnd
  have hW : ((as.take n).map (·.key)).Nodup := (List.nodup_append.mp hnd).1
  have hWU : ∀ a ∈ (as.take n).map (·.key), a ∉ (as.drop n).map (·.key) := by
    intro a ha hb
    exact (List.nodup_append.mp hnd).2.2 a ha a hb rfl
  unfold arityForm at h
  simp only [hargs] at h
  have : ¬ as.length < n := by omega
  simp only [this, ↓reduceIte] at h
  apply formVal_mapItg μ hμ _ (fun e ρ => T ((as.take n).map (·.key)) (fun _ => true)
      (fun ρ' => itg (ρ'.zeroKeys ((as.drop n).map (·.key))) e) ρ) F R h
  intro p hp e' he' ρ hρ
  obtain ⟨w, m, k⟩ := hF p hp
  have hc : Ctx ((as.take n).map (·.key)) ((as.drop n).map (·.key)) p.2 :=
    ⟨w, m, by rw [hsplit]; exact k, fun a ha => by rw [hsplit]; exact hcov p hp a ha⟩
  exact C16_arity_part rb hrb _ _ hW hWU p.2 hc e' he' .none (fun _ => 0) [] ρ hρ

/-- `0 * form`, returned when the form has fewer Arguments than asked for, integrates to zero -/
theorem C16_arity_form_short (rb : Rb) (F : FormM) (as : List TermData) (hargs : formArgs F = some as)
    (n : Nat) (hn : as.length < n) (R : FormM) (h : arityForm rb F n = some R)
    (μ : Nat → (Env K → K) → K) (hμ : Integration μ) : formVal μ R = 0 := by
  unfold arityForm at h
  simp only [hargs, hn, ↓reduceIte, Option.some.injEq] at h
  subst h
  simp only [formVal, List.map_map]
  have : ∀ (l : FormM), (l.map ((fun p => μ p.1 (fun ρ => itg ρ p.2)) ∘ (fun p => (p.1, Expr.zero [] [])))).sum = 0 := by
    intro l
    induction l with
    | nil => simp
    | cons x xs ih =>
      simp only [List.map_cons, List.sum_cons, ih, add_zero, Function.comp]
      have : (fun ρ : Env K => itg ρ (Expr.zero [] [])) = fun _ => 0 := by funext ρ; simp [itg, eval]
      rw [this, hμ.zero]
  exact this F

/-- `-form` -/
theorem formVal_negForm (rb : Rb) (hrb : RbSound K rb) (μ : Nat → (Env K → K) → K) (hμ : Integration μ) :
    ∀ (F R : FormM), negForm rb F = some R → formVal μ R = - formVal μ F
  | [], R, h => by
    simp only [negForm, List.mapM_nil, Option.pure_def, Option.some.injEq] at h
    subst h; simp [formVal]
  | (t, e) :: rest, R, h => by
    simp only [negForm, List.mapM_cons, Option.pure_def, Option.bind_eq_bind] at h
    cases hr : rb .product [] [.int (-1), e] with
    | none => simp [hr] at h
    | some e' =>
      cases hm : List.mapM (fun p : Nat × Expr => Option.map (fun e => (p.1, e)) (rb .product [] [.int (-1), p.2])) rest with
      | none => simp [hr, hm] at h
      | some rest' =>
        simp only [hr, hm, Option.map_some, Option.bind_some, Option.some.injEq] at h
        subst h
        have ih := formVal_negForm rb hrb μ hμ rest rest' (by simpa [negForm] using hm)
        rw [formVal_cons, formVal_cons, ih]
        have : μ t (fun ρ => itg ρ e') = - μ t (fun ρ => itg ρ e) := by
          rw [← hμ.neg]
          apply hμ.congr
          intro ρ _
          simp only [itg, (hrb _ _ _ _ hr).2.2, eval]
          simp
        rw [this]; ring

/-- **C16 (functional).**  `functional(F)` is the argument-free part: under any additive integration its
    value is the value of `F` with every Argument set to zero. -/
theorem C16_functional (rb : Rb) (hrb : RbSound K rb) (F : FormM) (as : List TermData) (hargs : formArgs F = some as)
    (hF : FormCtx (as.map (·.key)) F) (R : FormM) (h : functionalForm rb F = some R)
    (μ : Nat → (Env K → K) → K) (hμ : Integration μ) :
    formVal μ R = (F.map (fun p => μ p.1 (fun ρ => itg (ρ.zeroKeys (as.map (·.key))) p.2))).sum := by
  have := C16_arity_form rb hrb F as hargs 0 (Nat.zero_le _) hF R h μ hμ
  simpa [T] using this

/-- the Arguments of a form without MixedFunctionSpace parts -/
def NoParts (as : List TermData) : Prop := ∀ d ∈ as, d.part < 0

theorem formParts_of_noParts (as : List TermData) (h : NoParts as) : formParts as = [] := by
  have : as.filterMap (fun d => if d.part ≥ 0 then some d.part else none) = [] := by
    rw [List.filterMap_eq_nil_iff]
    intro d hd
    have := h d hd
    simp only [ge_iff_le, ite_eq_right_iff, reduceCtorEq, imp_false, not_le]
    exact this
  simp [formParts, this]

/-- **C16 (lhs).**  For a form with the two Arguments `v` (test) and `u` (trial): `lhs(F)` integrates to the
    bilinear part  F(v,u) − F(v,0) − F(0,u) + F(0,0)  of `F`. -/
theorem C16_lhs (rb : Rb) (hrb : RbSound K rb) (F : FormM) (v u : TermData) (hargs : formArgs F = some [v, u])
    (hnp : NoParts [v, u]) (hF : FormCtx [v.key, u.key] F) (L : FormM) (h : lhsForm rb F = some L)
    (μ : Nat → (Env K → K) → K) (hμ : Integration μ) :
    formVal μ L = (F.map (fun p => μ p.1 (fun ρ =>
      itg ρ p.2 - itg (ρ.zeroKeys [u.key]) p.2 - itg (ρ.zeroKeys [v.key]) p.2 + itg ((ρ.zeroKeys [v.key]).zeroKeys [u.key]) p.2))).sum := by
  unfold lhsForm at h
  simp only [hargs, formParts_of_noParts _ hnp, List.isEmpty_nil, ↓reduceIte] at h
  have := C16_arity_form rb hrb F [v, u] hargs 2 (by simp) (by simpa using hF) L h μ hμ
  rw [this]
  congr 1
  apply List.map_congr_left
  intro p _
  congr 1
  funext ρ
  simp only [List.take, List.drop, List.map_cons, List.map_nil, part2, zeroKeys_nil]

/-- **C16 (rhs).**  `rhs(F)` integrates to minus the part  F(v,0) − F(0,0)  that is linear in the test
    function and does not contain the trial function. -/
theorem C16_rhs (rb : Rb) (hrb : RbSound K rb) (F : FormM) (v u : TermData) (hargs : formArgs F = some [v, u])
    (hnp : NoParts [v, u]) (hF : FormCtx [v.key, u.key] F) (R : FormM) (h : rhsForm rb F = some R)
    (μ : Nat → (Env K → K) → K) (hμ : Integration μ) :
    formVal μ R = - (F.map (fun p => μ p.1 (fun ρ =>
      itg (ρ.zeroKeys [u.key]) p.2 - itg ((ρ.zeroKeys [v.key]).zeroKeys [u.key]) p.2))).sum := by
  unfold rhsForm at h
  simp only [hargs, formParts_of_noParts _ hnp, List.isEmpty_nil, ↓reduceIte] at h
  cases ha : arityForm rb F 1 with
  | none => simp [ha] at h
  | some R1 =>
    simp only [ha, Option.bind_some] at h
    rw [formVal_negForm rb hrb μ hμ R1 R h]
    have := C16_arity_form rb hrb F [v, u] hargs 1 (by simp) (by simpa using hF) R1 ha μ hμ
    rw [this]
    rfl

/-- **C16 (F = lhs − rhs).**  For a form with Arguments `v`, `u` that is linear in the test function `v`
    (it vanishes when `v` does) and — being multi-affine — affine in the trial function `u`:
    `F = lhs(F) − rhs(F)` under any additive integration. -/
theorem C16_lhs_rhs (rb : Rb) (hrb : RbSound K rb) (F : FormM) (v u : TermData) (hargs : formArgs F = some [v, u])
    (hnp : NoParts [v, u]) (hF : FormCtx [v.key, u.key] F)
    (hlin : ∀ p ∈ F, ∀ ρ : Env K, AddEnv ρ → itg (ρ.zeroKeys [v.key]) p.2 = 0)
    (L R : FormM) (hL : lhsForm rb F = some L) (hR : rhsForm rb F = some R)
    (μ : Nat → (Env K → K) → K) (hμ : Integration μ) :
    formVal μ F = formVal μ L - formVal μ R := by
  rw [C16_lhs rb hrb F v u hargs hnp hF L hL μ hμ, C16_rhs rb hrb F v u hargs hnp hF R hR μ hμ, sub_neg_eq_add, sum_map_add']
  simp only [formVal]
  congr 1
  apply List.map_congr_left
  intro p hp
  rw [← hμ.add]
  apply hμ.congr
  intro ρ hρ
  have h1 := hlin p hp ρ hρ
  have h2 := hlin p hp (ρ.zeroKeys [u.key]) (hρ.zeroKeys _)
  rw [zeroKeys_comm] at h2
  rw [h1, h2]
  ring

/-- the same for a linear form (one Argument): `lhs` is `0 * F`, `F = − rhs(F)` -/
theorem C16_lhs_rhs_one_argument (rb : Rb) (hrb : RbSound K rb) (F : FormM) (v : TermData) (hargs : formArgs F = some [v])
    (hnp : NoParts [v]) (hF : FormCtx [v.key] F)
    (hlin : ∀ p ∈ F, ∀ ρ : Env K, AddEnv ρ → itg (ρ.zeroKeys [v.key]) p.2 = 0)
    (L R : FormM) (hL : lhsForm rb F = some L) (hR : rhsForm rb F = some R)
    (μ : Nat → (Env K → K) → K) (hμ : Integration μ) :
    formVal μ F = formVal μ L - formVal μ R := by
  unfold lhsForm at hL
  simp only [hargs, formParts_of_noParts _ hnp, List.isEmpty_nil, ↓reduceIte] at hL
  rw [C16_arity_form_short rb F [v] hargs 2 (by simp) L hL μ hμ]
  unfold rhsForm at hR
  simp only [hargs, formParts_of_noParts _ hnp, List.isEmpty_nil, ↓reduceIte] at hR
  cases ha : arityForm rb F 1 with
  | none => simp [ha] at hR
  | some R1 =>
    simp only [ha, Option.bind_some] at hR
    rw [formVal_negForm rb hrb μ hμ R1 R hR, C16_arity_form rb hrb F [v] hargs 1 (by simp) (by simpa using hF) R1 ha μ hμ]
    simp only [formVal, zero_sub, neg_neg]
    congr 1
    apply List.map_congr_left
    intro p hp
    apply hμ.congr
    intro ρ hρ
    simp only [List.take, List.drop, List.map_cons, List.map_nil, part1, zeroKeys_nil]
    rw [hlin p hp ρ hρ]; ring

/-! ## lhs is bilinear, rhs is linear -/

/-- every integral of `lhs(F)` is an integral of `F` (same measure) whose integrand is, at every point,
    the bilinear part of the original integrand -/
theorem C16_lhs_pointwise (rb : Rb) (hrb : RbSound K rb) (F : FormM) (v u : TermData) (hargs : formArgs F = some [v, u])
    (hnp : NoParts [v, u]) (hF : FormCtx [v.key, u.key] F) (L : FormM) (h : lhsForm rb F = some L) :
    ∀ q ∈ L, ∃ p ∈ F, p.1 = q.1 ∧ ∀ ρ : Env K, AddEnv ρ →
      itg ρ q.2 = itg ρ p.2 - itg (ρ.zeroKeys [u.key]) p.2 - itg (ρ.zeroKeys [v.key]) p.2 + itg ((ρ.zeroKeys [v.key]).zeroKeys [u.key]) p.2 := by
  unfold lhsForm at h
  simp only [hargs, formParts_of_noParts _ hnp, List.isEmpty_nil, ↓reduceIte] at h
  unfold arityForm at h
  simp only [hargs, List.length_cons, List.length_nil, Nat.reduceAdd, Nat.lt_irrefl, ↓reduceIte, List.take, List.map_cons, List.map_nil] at h
  obtain ⟨hnd, hcov⟩ := formArgs_spec F [v, u] hargs
  simp only [List.map_cons, List.map_nil] at hnd hcov
  intro q hq
  obtain ⟨p, hp, h1, h2⟩ := mem_mapItg _ F L h q hq
  refine ⟨p, hp, h1, fun ρ hρ => ?_⟩
  obtain ⟨w, m, k⟩ := hF p hp
  have hc : Ctx [v.key, u.key] [] p.2 := ⟨w, m, by simpa using k, fun a ha => by simpa using hcov p hp a ha⟩
  have := C16_arity_part rb hrb [v.key, u.key] [] hnd (fun _ _ => by simp) p.2 hc q.2 h2 .none (fun _ => 0) [] ρ hρ
  rw [part2] at this
  simpa [itg, G, zeroKeys_nil] using this

theorem mem_negForm (rb : Rb) : ∀ (F R : FormM), negForm rb F = some R →
    ∀ q ∈ R, ∃ p ∈ F, p.1 = q.1 ∧ rb .product [] [.int (-1), p.2] = some q.2
  | [], R, h, q, hq => by
    simp only [negForm, List.mapM_nil, Option.pure_def, Option.some.injEq] at h
    subst h; simp at hq
  | (t, e) :: rest, R, h, q, hq => by
    simp only [negForm, List.mapM_cons, Option.pure_def, Option.bind_eq_bind] at h
    cases hr : rb .product [] [.int (-1), e] with
    | none => simp [hr] at h
    | some e' =>
      cases hm : List.mapM (fun p : Nat × Expr => Option.map (fun e => (p.1, e)) (rb .product [] [.int (-1), p.2])) rest with
      | none => simp [hr, hm] at h
      | some rest' =>
        simp only [hr, hm, Option.map_some, Option.bind_some, Option.some.injEq] at h
        subst h
        cases List.mem_cons.mp hq with
        | inl e1 => subst e1; exact ⟨(t, e), by simp, rfl, hr⟩
        | inr e1 =>
          obtain ⟨p, hp, h1, h2⟩ := mem_negForm rb rest rest' (by simpa [negForm] using hm) q e1
          exact ⟨p, by simp [hp], h1, h2⟩

/-- every integral of `rhs(F)` is an integral of `F` whose integrand is, at every point, minus the part of
    the original integrand that is linear in the test function and free of the trial function -/
theorem C16_rhs_pointwise (rb : Rb) (hrb : RbSound K rb) (F : FormM) (v u : TermData) (hargs : formArgs F = some [v, u])
    (hnp : NoParts [v, u]) (hF : FormCtx [v.key, u.key] F) (R : FormM) (h : rhsForm rb F = some R) :
    ∀ q ∈ R, ∃ p ∈ F, p.1 = q.1 ∧ ∀ ρ : Env K, AddEnv ρ →
      itg ρ q.2 = - (itg (ρ.zeroKeys [u.key]) p.2 - itg ((ρ.zeroKeys [v.key]).zeroKeys [u.key]) p.2) := by
  unfold rhsForm at h
  simp only [hargs, formParts_of_noParts _ hnp, List.isEmpty_nil, ↓reduceIte] at h
  cases ha : arityForm rb F 1 with
  | none => simp [ha] at h
  | some R1 =>
    simp only [ha, Option.bind_some] at h
    unfold arityForm at ha
    simp only [hargs, List.length_cons, List.length_nil, Nat.reduceAdd, Nat.reduceLT, ↓reduceIte, List.take, List.map_cons, List.map_nil] at ha
    obtain ⟨hnd, hcov⟩ := formArgs_spec F [v, u] hargs
    simp only [List.map_cons, List.map_nil, List.nodup_cons, List.mem_singleton, List.not_mem_nil, not_false_eq_true,
      List.nodup_nil, and_self, and_true] at hnd hcov
    intro q hq
    obtain ⟨q1, hq1, e1, e2⟩ := mem_negForm rb R1 R h q hq
    obtain ⟨p, hp, h1, h2⟩ := mem_mapItg _ F R1 ha q1 hq1
    refine ⟨p, hp, h1.trans e1, fun ρ hρ => ?_⟩
    obtain ⟨w, m, k⟩ := hF p hp
    have hc : Ctx [v.key] [u.key] p.2 := ⟨w, m, by simpa using k, fun a ha => by simpa using hcov p hp a ha⟩
    have := C16_arity_part rb hrb [v.key] [u.key] (by simp) (fun a ha => by
      simp only [List.mem_singleton] at ha ⊢; subst ha; exact hnd) p.2 hc q1.2 h2 .none (fun _ => 0) [] ρ hρ
    rw [part1] at this
    simp only [itg, (hrb _ _ _ _ e2).2.2, eval, this, G]
    simp

/-- **C16 (lhs is bilinear).**  Every integrand of `lhs(F)` is additive in the test function and in the
    trial function, at every point and for all values of the other fields. -/
theorem C16_lhs_bilinear (rb : Rb) (hrb : RbSound K rb) (F : FormM) (v u : TermData) (hargs : formArgs F = some [v, u])
    (hnp : NoParts [v, u]) (hF : FormCtx [v.key, u.key] F) (L : FormM) (h : lhsForm rb F = some L) :
    ∀ q ∈ L, ∀ ρ : Env K, AddEnv ρ → ∀ x y : ArgVal K,
      itg (ρ.setKey v.key (x + y)) q.2 = itg (ρ.setKey v.key x) q.2 + itg (ρ.setKey v.key y) q.2 ∧
      itg (ρ.setKey u.key (x + y)) q.2 = itg (ρ.setKey u.key x) q.2 + itg (ρ.setKey u.key y) q.2 := by
  intro q hq ρ hρ x y
  obtain ⟨p, hp, _, hval⟩ := C16_lhs_pointwise rb hrb F v u hargs hnp hF L h q hq
  obtain ⟨hnd, _⟩ := formArgs_spec F [v, u] hargs
  have hvu : v.key ≠ u.key := by
    simp only [List.map_cons, List.map_nil, List.nodup_cons, List.mem_singleton] at hnd
    exact hnd.1
  obtain ⟨w, m, k⟩ := hF p hp
  have hc : Ctx' [v.key, u.key] p.2 := ⟨w, m, k⟩
  have av := (aff_all (K := K) [v.key, u.key] v.key (by simp)).1 p.2 hc
  have au := (aff_all (K := K) [v.key, u.key] u.key (by simp)).1 p.2 hc
  constructor
  · rw [hval _ (hρ.setKey _ _), hval _ (hρ.setKey _ _), hval _ (hρ.setKey _ _)]
    simp only [setKey_zeroKeys_same, setKey_zeroKeys_other ρ v.key u.key hvu]
    have h1 := av ρ hρ x y .none (fun _ => 0) []
    have h2 := av (ρ.zeroKeys [u.key]) (hρ.zeroKeys _) x y .none (fun _ => 0) []
    rw [setKey_zero] at h1 h2
    rw [zeroKeys_comm ρ [u.key] [v.key]] at h2
    simp only [itg]
    linear_combination h1 - h2
  · rw [hval _ (hρ.setKey _ _), hval _ (hρ.setKey _ _), hval _ (hρ.setKey _ _)]
    simp only [setKey_zeroKeys_same, setKey_zeroKeys_other ρ u.key v.key (Ne.symm hvu)]
    have h1 := au ρ hρ x y .none (fun _ => 0) []
    have h2 := au (ρ.zeroKeys [v.key]) (hρ.zeroKeys _) x y .none (fun _ => 0) []
    rw [setKey_zero] at h1 h2
    simp only [itg]
    linear_combination h1 - h2

/-- **C16 (rhs is linear).**  Every integrand of `rhs(F)` is additive in the test function and does not depend
    on the trial function. -/
theorem C16_rhs_linear (rb : Rb) (hrb : RbSound K rb) (F : FormM) (v u : TermData) (hargs : formArgs F = some [v, u])
    (hnp : NoParts [v, u]) (hF : FormCtx [v.key, u.key] F) (R : FormM) (h : rhsForm rb F = some R) :
    ∀ q ∈ R, ∀ ρ : Env K, AddEnv ρ → ∀ x y : ArgVal K,
      itg (ρ.setKey v.key (x + y)) q.2 = itg (ρ.setKey v.key x) q.2 + itg (ρ.setKey v.key y) q.2 ∧
      itg (ρ.setKey u.key x) q.2 = itg ρ q.2 := by
  intro q hq ρ hρ x y
  obtain ⟨p, hp, _, hval⟩ := C16_rhs_pointwise rb hrb F v u hargs hnp hF R h q hq
  obtain ⟨hnd, _⟩ := formArgs_spec F [v, u] hargs
  have hvu : v.key ≠ u.key := by
    simp only [List.map_cons, List.map_nil, List.nodup_cons, List.mem_singleton] at hnd
    exact hnd.1
  obtain ⟨w, m, k⟩ := hF p hp
  have hc : Ctx' [v.key, u.key] p.2 := ⟨w, m, k⟩
  have av := (aff_all (K := K) [v.key, u.key] v.key (by simp)).1 p.2 hc
  constructor
  · rw [hval _ (hρ.setKey _ _), hval _ (hρ.setKey _ _), hval _ (hρ.setKey _ _)]
    simp only [setKey_zeroKeys_same, setKey_zeroKeys_other ρ v.key u.key hvu]
    have h2 := av (ρ.zeroKeys [u.key]) (hρ.zeroKeys _) x y .none (fun _ => 0) []
    rw [setKey_zero] at h2
    rw [zeroKeys_comm ρ [u.key] [v.key]] at h2
    simp only [itg]
    linear_combination (-1 : K) * h2
  · rw [hval _ (hρ.setKey _ _), hval _ hρ]
    simp only [setKey_zeroKeys_same, setKey_zeroKeys_other ρ u.key v.key (Ne.symm hvu)]

/-! ## action, adjoint, energy norm  (plain substitution of terminals, C21 convention: stated for `rbPlain`) -/

/-- what is asked of the integrands for a renaming `ren` of Arguments: well formed, nothing `replace` refuses,
    and every terminal carrying a renamed key is the renamed Argument itself (keys are reprs) -/
def RenCtx (ren : List (TermData × TermData)) (F : FormM) : Prop :=
  ∀ p ∈ F, WF p.2 = true ∧ plainOK (fun d => (renMap ren).get d.key) p.2 = true ∧ renOK ren p.2 = true

theorem formVal_replace (ren : List (TermData × TermData)) (F R : FormM) (hF : RenCtx ren F)
    (h : replaceForm rbPlain (renMap ren) F = some R) (μ : Nat → (Env K → K) → K) (hμ : Integration μ) :
    formVal μ R = (F.map (fun p => μ p.1 (fun ρ => itg (ρ.ren ren) p.2))).sum := by
  unfold replaceForm at h
  apply formVal_mapItg μ hμ _ (fun e ρ => itg (ρ.ren ren) e) F R h
  intro p hp e' he' ρ _
  obtain ⟨w, pl, r⟩ := hF p hp
  rw [mapTermR_plain true _ p.2 pl, Option.some.injEq] at he'
  rw [← he']
  exact ren_sem ρ ren p.2 w r

/-- **C16 (action).**  `action(a, f)` is `a` with its last Argument replaced by `f`: under any additive
    integration its value is the value of `a` under the valuation in which the last Argument `u` takes the
    values (and derivative jets) of the coefficient `f`. -/
theorem C16_action (F : FormM) (as : List TermData) (hargs : formArgs F = some as) (hnp : NoParts as)
    (u : TermData) (hu : as.getLast? = some u) (f : TermData) (hF : RenCtx [(u, f)] F)
    (A : FormM) (h : actionForm rbPlain F [.term f] = some A) (μ : Nat → (Env K → K) → K) (hμ : Integration μ) :
    formVal μ A = (F.map (fun p => μ p.1 (fun ρ => itg (ρ.ren [(u, f)]) p.2))).sum := by
  unfold actionForm at h
  simp only [hargs, formParts_of_noParts _ hnp, List.isEmpty_nil, ↓reduceIte, hu] at h
  split at h
  · simp at h
  · exact formVal_replace [(u, f)] F A hF (by simpa [renMap] using h) μ hμ

/-- integration of the conjugate is an additive integration -/
theorem integration_conj (μ : Nat → (Env K → K) → K) (hμ : Integration μ) :
    Integration (fun t f => μ t (fun ρ => ρ.conj (f ρ))) := by
  refine ⟨fun t => ?_, fun t f g => ?_, fun t f => ?_, fun t f g hfg => ?_⟩
  · have : μ t (fun ρ => ρ.conj 0) = μ t (fun _ => 0) := hμ.congr t _ _ (fun ρ hρ => (addenv_zero ρ hρ).1)
    show μ t (fun ρ => ρ.conj 0) = 0
    rw [this, hμ.zero]
  · rw [← hμ.add]
    exact hμ.congr t _ _ (fun ρ hρ => hρ.add.1 _ _)
  · rw [← hμ.neg]
    apply hμ.congr t _ _
    intro ρ hρ
    have := hρ.conj 0 (f ρ)
    rw [(addenv_zero ρ hρ).1] at this
    simpa using this
  · exact hμ.congr t _ _ (fun ρ hρ => by rw [hfg ρ hρ])

/-- **C16 (adjoint).**  `adjoint(a)` is the conjugate of `a` with its two Arguments swapped: the new test
    function `mk u v.number v.part` (number of `v`, space of `u`) stands where the trial function `u` stood, the
    new trial function `mk v u.number u.part` where the test function `v` stood, and every integrand is
    conjugated; `mk` is the Argument constructor (any function: the executable model uses `mkArgument`). -/
theorem C16_adjoint (mk : MkArg) (F : FormM) (v u : TermData) (hargs : formArgs F = some [v, u]) (hnp : NoParts [v, u])
    (hF : RenCtx [(v, mk v u.count u.part), (u, mk u v.count v.part)] F)
    (A : FormM) (h : adjointForm rbPlain mk F = some A) (μ : Nat → (Env K → K) → K) (hμ : Integration μ) :
    formVal μ A = (F.map (fun p => μ p.1 (fun ρ =>
      ρ.conj (itg (ρ.ren [(v, mk v u.count u.part), (u, mk u v.count v.part)]) p.2)))).sum := by
  unfold adjointForm at h
  split at h
  · rename_i he
    simp only [Option.some.injEq] at h; subst h
    have : F = [] := by simpa using he
    subst this; simp [formVal]
  · simp only [hargs, formParts_of_noParts _ hnp, List.isEmpty_nil, ↓reduceIte] at h
    unfold adjointBlock at h
    simp only [hargs] at h
    split at h
    · simp at h
    · cases hr : replaceForm rbPlain [(v.key, .term (mk v u.count u.part)), (u.key, .term (mk u v.count v.part))] F with
      | none => simp [hr] at h
      | some F1 =>
        simp only [hr, Option.bind_some] at h
        have h1 : formVal μ A = formVal (fun t f => μ t (fun ρ => ρ.conj (f ρ))) F1 := by
          have := formVal_mapItg μ hμ (fun e => rbPlain .conj [] [e]) (fun e ρ => ρ.conj (itg ρ e)) F1 A h
            (by intro p _ e' he' ρ _
                simp only [rbPlain, Option.some.injEq] at he'
                subst he'
                simp [itg, eval])
          rw [this]; rfl
        rw [h1]
        exact formVal_replace _ F F1 hF (by simpa [renMap] using hr) _ (integration_conj μ hμ)

theorem isZero_map (φ : TermData → Option Expr) (e : Expr) (h : isZero e = true) : mapTermP φ e = e := by
  cases e <;> simp [isZero] at h
  simp [mapTermP]

/-- **C16 (energy norm).**  `energy_norm(a, f)` is `a(f, f)`: under any additive integration its value is the
    value of `a` under the valuation in which both Arguments take the values of the coefficient `f`. -/
theorem C16_energy (F : FormM) (v u f : TermData) (hargs : formArgs F = some [v, u]) (hnp : NoParts [v, u])
    (hf : (f.cls == "Argument") = false) (hfv : f.key ≠ v.key)
    (hfp : plainOK (fun d => (renMap [(v, f)]).get d.key) (.term f) = true)
    (hFu : RenCtx [(u, f)] F) (hFv : RenCtx [(v, f)] F) (hFvu : ∀ p ∈ F, renOK [(v, f), (u, f)] p.2 = true)
    (csp : String) (E : FormM) (h : energyForm rbPlain F (.term f) csp = some E)
    (μ : Nat → (Env K → K) → K) (hμ : Integration μ) :
    formVal μ E = (F.map (fun p => μ p.1 (fun ρ => itg (ρ.ren [(v, f), (u, f)]) p.2))).sum := by
  obtain ⟨hnd, hcov⟩ := formArgs_spec F [v, u] hargs
  have hvu : v.key ≠ u.key := by
    simp only [List.map_cons, List.map_nil, List.nodup_cons, List.mem_singleton] at hnd
    exact hnd.1
  unfold energyForm at h
  simp only [hargs] at h
  split at h
  · simp at h
  · split at h
    · simp at h
    · split at h
      · simp at h
      · cases h1 : actionForm rbPlain F [.term f] with
        | none => simp [h1] at h
        | some G1 =>
          simp only [h1, Option.bind_some] at h
          -- the first action replaces u
          unfold actionForm at h1
          simp only [hargs, formParts_of_noParts _ hnp, List.isEmpty_nil, ↓reduceIte, List.getLast?_cons_cons,
            List.getLast?_singleton] at h1
          split at h1
          · simp at h1
          · have hG1 : mapItg (mapTermR rbPlain true (fun d => (renMap [(u, f)]).get d.key)) F = some G1 := by
              simpa [replaceForm, renMap] using h1
            have hG1' : ∀ q ∈ G1, ∃ p ∈ F, p.1 = q.1 ∧ q.2 = mapTermP (fun d => (renMap [(u, f)]).get d.key) p.2 := by
              intro q hq
              obtain ⟨p, hp, e1, e2⟩ := mem_mapItg _ F G1 hG1 q hq
              rw [mapTermR_plain true _ p.2 (hFu p hp).2.1, Option.some.injEq] at e2
              exact ⟨p, hp, e1, e2.symm⟩
            -- the second action replaces v: it is the only Argument left
            unfold actionForm at h
            cases ha1 : formArgs G1 with
            | none => simp [ha1] at h
            | some as1 =>
              have hall : ∀ d ∈ as1, d = v := by
                intro d hd
                obtain ⟨q, hq, hdq⟩ := formArgs_mem G1 as1 ha1 d hd
                obtain ⟨p, hp, _, e2⟩ := hG1' q hq
                rw [e2] at hdq
                obtain ⟨hda, hdk⟩ := argsOf_map_ren u f hf p.2 (hFu p hp).2.2 d hdq
                have hin := hcov p hp d.key ((occ_iff_mem p.2 d.key).mpr (List.mem_map.mpr ⟨d, hda, rfl⟩))
                simp only [List.map_cons, List.map_nil, List.mem_cons, List.not_mem_nil, or_false] at hin
                cases hin with
                | inl hk => exact (renOK_arg_eq v f p.2 (hFv p hp).2.2 d hda hk).symm
                | inr hk => exact absurd hk hdk
              have hnp1 : NoParts as1 := fun d hd => by rw [hall d hd]; exact hnp v (by simp)
              simp only [ha1, formParts_of_noParts _ hnp1, List.isEmpty_nil, ↓reduceIte] at h
              cases hl : as1.getLast? with
              | none => simp [hl] at h
              | some u1 =>
                have hu1 : u1 = v := hall u1 (List.mem_of_getLast? hl)
                subst hu1
                simp only [hl] at h
                split at h
                · simp at h
                · have hE : mapItg (mapTermR rbPlain true (fun d => (renMap [(u1, f)]).get d.key)) G1 = some E := by
                    simpa [replaceForm, renMap] using h
                  -- values
                  have himg : ∀ (d : TermData) (img : Expr), (renMap [(u, f)]).get d.key = some img →
                      plainOK (fun d => (renMap [(u1, f)]).get d.key) img = true := by
                    intro d img hi
                    rw [renMap_get] at hi
                    simp only [renFind, List.find?_cons, List.find?_nil] at hi
                    split at hi
                    · simp only [Option.map_some, Option.some.injEq] at hi
                      subst hi
                      exact hfp
                    · simp at hi
                  have hpl2 : ∀ q ∈ G1, plainOK (fun d => (renMap [(u1, f)]).get d.key) q.2 = true := by
                    intro q hq
                    obtain ⟨p, hp, _, e2⟩ := hG1' q hq
                    rw [e2]
                    exact plainOK_map _ _ himg p.2 (hFu p hp).2.1 (hFv p hp).2.1
                  have stepA := formVal_mapItg μ hμ _ (fun e ρ => itg ρ (mapTermP (fun d => (renMap [(u1, f)]).get d.key) e)) G1 E hE
                    (by intro q hq e' he' ρ _
                        rw [mapTermR_plain true _ q.2 (hpl2 q hq), Option.some.injEq] at he'
                        rw [← he'])
                  have stepB := sum_mapItg μ hμ (mapTermR rbPlain true (fun d => (renMap [(u, f)]).get d.key))
                    (fun e ρ => itg ρ (mapTermP (fun d => (renMap [(u1, f)]).get d.key) e))
                    (fun e ρ => itg ρ (mapTermP (fun d => (renMap [(u1, f)]).get d.key) (mapTermP (fun d => (renMap [(u, f)]).get d.key) e)))
                    (by intro e' hz ρ _
                        rw [isZero_map _ e' hz]
                        exact eval_isZero ρ _ _ e' [] hz)
                    F G1 hG1
                    (by intro p hp e' he' ρ _
                        rw [mapTermR_plain true _ p.2 (hFu p hp).2.1, Option.some.injEq] at he'
                        rw [← he'])
                  rw [stepA, stepB]
                  congr 1
                  apply List.map_congr_left
                  intro p hp
                  apply hμ.congr
                  intro ρ _
                  rw [mapTermP_comp, mapTermP_congr _ (fun d => (renMap [(u1, f), (u, f)]).get d.key) ?_ p.2]
                  · exact ren_sem ρ [(u1, f), (u, f)] p.2 (hFu p hp).1 (hFvu p hp)
                  · intro d
                    simp only [renMap_get, renFind, List.find?_cons, List.find?_nil]
                    by_cases h1 : (u.key == d.key) = true
                    · have h2 : (u1.key == d.key) = false := by
                        have : u.key = d.key := by simpa using h1
                        rw [← this]; simpa using hvu
                      have h3 : (u1.key == f.key) = false := by simpa using fun e => hfv e.symm
                      simp [h1, h2, h3, mapTermP, renMap_get, renFind]
                    · simp only [h1, Bool.false_eq_true, ↓reduceIte, Option.map_none]

/-! ## MixedFunctionSpace parts: one block -/

/-- **C16 (one block of a MixedFunctionSpace form).**  `FormSplitter.split(F, ix, iy)` — the block that
    `compute_form_lhs/_rhs/_adjoint` work on — integrates to `F` with the Arguments of every other part set to
    zero (`Z`: the keys of the Arguments the splitter replaces).  Stated for plain substitution. -/
theorem C16_split (ix iy : Option Int) (Z : List String) (F B : FormM)
    (hF : ∀ p ∈ F, WF p.2 = true ∧ plainOK (splitφ ix iy) p.2 = true ∧ splitZ ix iy Z p.2 = true)
    (h : splitForm rbPlain ix iy F = some B) (μ : Nat → (Env K → K) → K) (hμ : Integration μ) :
    formVal μ B = (F.map (fun p => μ p.1 (fun ρ => itg (ρ.zeroKeys Z) p.2))).sum := by
  unfold splitForm at h
  split at h
  · apply formVal_mapItg μ hμ _ (fun e ρ => itg (ρ.zeroKeys Z) e) F B h
    intro p hp e' he' ρ _
    obtain ⟨w, pl, z⟩ := hF p hp
    change mapTermR rbPlain false (splitφ ix iy) p.2 = some e' at he'
    rw [mapTermR_plain false _ p.2 pl, Option.some.injEq] at he'
    rw [← he']
    exact split_sem ρ ix iy Z p.2 w z
  · simp at h

/-! ## the hypotheses are satisfiable: a worked instance -/

namespace Example

def v : TermData := { cls := "Argument", key := "Argument(V, 0, None)", shape := [], count := 0, part := -1 }
def u : TermData := { cls := "Argument", key := "Argument(V, 1, None)", shape := [], count := 1, part := -1 }
def f : TermData := { cls := "Coefficient", key := "f", shape := [], count := 7 }
def g : TermData := { cls := "Coefficient", key := "g", shape := [], count := 8 }
/-- `(u + f) * v * dx(1) + conj(v) * g * ds(2)` -/
def F : FormM := [(1, .op .product [] [.op .sum [] [.term u, .term f], .term v]),
                  (2, .op .product [] [.op .conj [] [.term v], .term g])]

/-- a valuation over ℚ: conj / real / imag are the identity / identity / zero -/
def ρ0 : Env ℚ :=
  { term := fun _ key _ => if key = "f" then 2 else if key = "g" then 5 else if key = u.key then 3 else if key = v.key then 7 else 0,
    jet := fun _ _ _ _ => 0, fn := fun _ x => x, fn2 := fun _ x _ => x, abs := fun x => x, conj := fun x => x,
    re := fun x => x, im := fun _ => 0, i := 0, lt := fun _ _ => false, eq := fun _ _ => false }

theorem ρ0_add : AddEnv ρ0 := ⟨fun _ _ => rfl, fun _ _ => rfl, fun _ _ => by simp [ρ0]⟩

/-- point evaluation at an additive valuation is an additive integration -/
theorem point_integration (ρ : Env K) (hρ : AddEnv ρ) : Integration (fun (_ : Nat) (h : Env K → K) => h ρ) :=
  ⟨fun _ => rfl, fun _ _ _ => rfl, fun _ _ => rfl, fun _ _ _ h => h ρ hρ⟩

example : formArgs F = some [v, u] := by decide
example : NoParts [v, u] := by intro d hd; simp at hd; rcases hd with rfl | rfl <;> decide

theorem F_ctx : FormCtx [v.key, u.key] F := by
  intro p hp
  simp only [F, List.mem_cons, List.not_mem_nil, or_false] at hp
  rcases hp with rfl | rfl <;> exact ⟨by decide, by decide, by decide⟩

theorem F_lin : ∀ p ∈ F, ∀ ρ : Env K, AddEnv ρ → itg (ρ.zeroKeys [v.key]) p.2 = 0 := by
  intro p hp ρ hρ
  simp only [F, List.mem_cons, List.not_mem_nil, or_false] at hp
  rcases hp with rfl | rfl
  · simp [itg, eval, Env.zeroKeys, v]
  · have := (addenv_zero ρ hρ).1
    simp [itg, eval, Env.zeroKeys, v, this]

/-- what the model returns: the bilinear part `u * v * dx(1)`, the linear parts negated -/
example : lhsForm rbPlain F = some [(1, .op .product [] [.term u, .term v])] := by rfl
example : rhsForm rbPlain F = some [(1, .op .product [] [.int (-1), .op .product [] [.term f, .term v]]),
                                    (2, .op .product [] [.int (-1), .op .product [] [.op .conj [] [.term v], .term g]])] := by rfl
example : functionalForm rbPlain F = some [] := by rfl

/-- `C16_lhs_rhs` applies to this form, with every hypothesis discharged -/
example (L R : FormM) (hL : lhsForm rbPlain F = some L) (hR : rhsForm rbPlain F = some R)
    (μ : Nat → (Env ℚ → ℚ) → ℚ) (hμ : Integration μ) : formVal μ F = formVal μ L - formVal μ R :=
  C16_lhs_rhs rbPlain rbPlain_sound F v u (by decide) (by intro d hd; simp at hd; rcases hd with rfl | rfl <;> decide)
    F_ctx F_lin L R hL hR μ hμ

/-- the renaming hypotheses of action / adjoint / energy norm hold for this form -/
example : RenCtx [(u, g)] F := by
  intro p hp
  simp only [F, List.mem_cons, List.not_mem_nil, or_false] at hp
  rcases hp with rfl | rfl <;> exact ⟨by decide, by decide, by decide⟩

end Example

/-! ## MixedFunctionSpace parts: what is false of the code

Full statements (kept here, not provable):

  (adjoint)  for every form `F` with Arguments `as` (also with parts), every Argument constructor `mk`:
             adjointForm rbPlain mk F = some G  →  ∫G = Σ ∫ conj(e[ a := mk a (1 − a.number) a.part  for every a ∈ as ])
             — every Argument is replaced by the Argument *of the same space and part* with the other number.
  (lhs/rhs)  for every multi-affine form `F` that vanishes with its test functions:  ∫F = ∫lhs(F) − ∫rhs(F).

`compute_form_adjoint` swaps number *and part* block by block, so an off-diagonal block `(i, j)` of a
MixedFunctionSpace form gets a test function "part i" in the j-th space; `extract_blocks` does not filter an
Argument without part, so its terms are repeated in every block.  Both witnesses are replayed on the
implementation by the oracle (directed cases `parts_offdiag_adjoint`, `parts_with_unparted_trial`).
The proved restrictions are `C16_adjoint`, `C16_lhs_rhs` (forms without parts). -/

namespace Counter

def v0 : TermData := { cls := "Argument", key := "v0", shape := [], count := 0, part := 0 }
def v1 : TermData := { cls := "Argument", key := "v1", shape := [], count := 0, part := 1 }
def u1 : TermData := { cls := "Argument", key := "u1", shape := [], count := 1, part := 1 }
def uN : TermData := { cls := "Argument", key := "uN", shape := [], count := 1, part := -1 }

/-- an (injective on what is used) Argument constructor with literal keys: space letter, number, part -/
def mk0 : MkArg := fun like n p =>
  { like with
    key := if like.key = "v0" then (if n = 1 ∧ p = 1 then "V11" else if n = 1 ∧ p = 0 then "V10" else "V")
           else if like.key = "u1" then (if n = 0 ∧ p = 0 then "Q00" else if n = 0 ∧ p = 1 then "Q01" else "Q")
           else "other",
    count := n, part := p }

def val (key : String) : ℚ :=
  if key = "Q00" then 1 else if key = "V11" then 1 else if key = "Q01" then 2 else if key = "V10" then 3
  else if key = "uN" then 1 else if key = "v0" then 1 else if key = "v1" then 1 else 0

def ρ1 : Env ℚ :=
  { term := fun _ key _ => val key,
    jet := fun _ _ _ _ => 0, fn := fun _ x => x, fn2 := fun _ x _ => x, abs := fun x => x, conj := fun x => x,
    re := fun x => x, im := fun _ => 0, i := 0, lt := fun _ _ => false, eq := fun _ _ => false }

theorem ρ1_add : AddEnv ρ1 := ⟨fun _ _ => rfl, fun _ _ => rfl, fun _ _ => by simp [ρ1]⟩

/-- the off-diagonal block `u1 * v0 * dx` of a form over MixedFunctionSpace(V, Q) -/
def Foff : FormM := [(1, .op .product [] [.term u1, .term v0])]

theorem adjoint_Foff : adjointForm rbPlain mk0 Foff =
    some [(1, .op .conj [] [.op .product [] [.term (mk0 u1 0 0), .term (mk0 v0 1 1)]])] := by rfl

/-- **C16 (adjoint with parts) is false of the code.**  The adjoint of the off-diagonal block `u1 * v0` has as
    test function "number 0, part 0" in the space of `u1` (part 1) instead of "number 0, part 1". -/
theorem C16_adjoint_parts_counterexample :
    ¬ (∀ (mk : MkArg) (F G : FormM) (as : List TermData), formArgs F = some as → adjointForm rbPlain mk F = some G →
        ∀ (μ : Nat → (Env ℚ → ℚ) → ℚ), Integration μ →
        formVal μ G = (F.map (fun p => μ p.1 (fun ρ =>
          ρ.conj (itg (ρ.ren (as.map (fun a => (a, mk a (1 - a.count) a.part)))) p.2)))).sum) := by
  intro h
  have := h mk0 Foff _ [v0, u1] (by decide) adjoint_Foff (fun _ k => k ρ1) (Example.point_integration ρ1 ρ1_add)
  simp [formVal, Foff, itg, eval, Env.ren, renKey, renFind, mk0, v0, u1, ρ1, val] at this
  norm_num at this

/-- `C16_split` applies: block (0, 1) of `u1 * v0 * dx(1) + u1 * v1 * dx(2)` is the form with `v1` set to zero -/
example : ∀ p ∈ ([(1, .op .product [] [.term u1, .term v0]), (2, .op .product [] [.term u1, .term v1])] : FormM),
    WF p.2 = true ∧ plainOK (splitφ (some 0) (some 1)) p.2 = true ∧ splitZ (some 0) (some 1) ["v1"] p.2 = true := by
  intro p hp
  simp only [List.mem_cons, List.not_mem_nil, or_false] at hp
  rcases hp with rfl | rfl <;> exact ⟨by decide, by decide, by decide⟩

/-- a form with a trial function without part next to test functions with parts: `uN * v0 * dx(1) + uN * v1 * dx(2)` -/
def Fmix : FormM := [(1, .op .product [] [.term uN, .term v0]), (2, .op .product [] [.term uN, .term v1])]

theorem lhs_Fmix : lhsForm rbPlain Fmix =
    some [(1, .op .product [] [.term uN, .term v0]), (1, .op .product [] [.term uN, .term v0]),
          (2, .op .product [] [.term uN, .term v1]), (2, .op .product [] [.term uN, .term v1])] := by rfl

theorem rhs_Fmix : rhsForm rbPlain Fmix = some [] := by rfl

/-- **C16 (F = lhs − rhs with parts) is false of the code** when an Argument without part stands next to
    Arguments with parts: every bilinear term is returned once per block column. -/
theorem C16_lhs_rhs_parts_counterexample :
    ¬ (∀ (F L R : FormM) (as : List TermData), formArgs F = some as → FormCtx (as.map (·.key)) F →
        (∀ p ∈ F, ∀ ρ : Env ℚ, AddEnv ρ → itg (ρ.zeroKeys ((as.filter (fun a => a.count == 0)).map (·.key))) p.2 = 0) →
        lhsForm rbPlain F = some L → rhsForm rbPlain F = some R →
        ∀ (μ : Nat → (Env ℚ → ℚ) → ℚ), Integration μ → formVal μ F = formVal μ L - formVal μ R) := by
  intro h
  have hctx : FormCtx ([v0, v1, uN].map (·.key)) Fmix := by
    intro p hp
    simp only [Fmix, List.mem_cons, List.not_mem_nil, or_false] at hp
    rcases hp with rfl | rfl <;> exact ⟨by decide, by decide, by decide⟩
  have hlin : ∀ p ∈ Fmix, ∀ ρ : Env ℚ, AddEnv ρ →
      itg (ρ.zeroKeys (([v0, v1, uN].filter (fun a => a.count == 0)).map (·.key))) p.2 = 0 := by
    intro p hp ρ _
    simp only [Fmix, List.mem_cons, List.not_mem_nil, or_false] at hp
    rcases hp with rfl | rfl <;> simp [itg, eval, Env.zeroKeys, v0, v1, uN]
  have := h Fmix _ _ [v0, v1, uN] (by decide) hctx hlin lhs_Fmix rhs_Fmix (fun _ k => k ρ1) (Example.point_integration ρ1 ρ1_add)
  simp [formVal, Fmix, itg, eval, v0, v1, uN, ρ1, val] at this
  norm_num at this

end Counter

end UflVerif.C16
