/-
C28  Base-form algebra has the semantics of the linear maps it denotes.

  "FormSum, Action, Adjoint, ZeroBaseForm and derivatives of base forms report arguments and coefficients according to argument
   contraction, and their simplifications (zero elimination, distribution over sums, adjoint involution, action of identity
   arguments) preserve the multilinear map represented, as observed by assembling on a finite-dimensional model."
  quantified over: all compositions of forms, cofunctions, coarguments, matrices and sums with scalar weights.

Model (Model/BaseForm.lean, tied to /repo by the correspondence on every run): `mkFormSum`, `mkAction`, `mkAdjoint`, the operators
`+ - *` (`opAdd/opNeg/opSmul`), `BF.arguments`, `BF.coefficients`; a *description* `Desc` is a composition of constructor calls,
`Desc.raw` its unsimplified meaning (the tree as written), `Desc.build` what the real constructors return.
Semantics: `denote ρ b idx` = entry `idx` of the tensor `b` denotes in the finite-dimensional environment `ρ` (spaces ↦ dimensions,
atoms of forms ↦ tensors, cofunctions/coefficients ↦ vectors, matrices ↦ matrices, Coargument/Argument ↦ identity, FormSum ↦ weighted
sum, Action ↦ contraction of the last slot of the left with the first slot of the right operand, Adjoint ↦ conjugate transpose with
the conjugation `ρ.star`), over any commutative ring `K`.  `sigS` is the signature (spaces of the slots) given by argument
contraction; `WT` (decidable) says that a description is well typed.

THE FULL STATEMENTS that are FALSE for the model variant with the corresponding flag of Gen/C28Flags.lean `false` (the behaviour
first observed on the tree; the flags are regenerated from the live code on every run, see `*_current`):
 (F1) identity action:  `Action(c, r)` with `c` a Coargument/Argument returns `r`.
      False (flag reinitGuard false) when `r` is an `Action` instance: Python re-runs `Action.__init__(r, c, r)`, `r` becomes its own
      operand (`C28_identity_action_counterexample`); true otherwise (`C28_identity_action_partial`).  [/repo guards `Action.__init__`
      since commit 1e97c7b: the flag is observed `true`.]
 (F2) arguments:  for well-typed `b`, `arguments()` lists the spaces `sigS b`.
      False: `Action(cofunction, matrix)` keeps the number 1 of the surviving argument, and the `sorted(set(..))` of `FormSum` then
      counts it as a second argument (`C28_arguments_counterexample`); true when the summands of every sum report one argument
      tuple (`C28_arguments_partial`, side condition `ArgsOK`, which is computed with the observed flags).
 (F3) adjoint of a weighted sum in complex mode: `Adjoint(Σ wᵢ cᵢ)` returns `Σ wᵢ Adjoint(cᵢ)`, the conjugate transpose is
      `Σ conj(wᵢ) Adjoint(cᵢ)` (`C28_adjoint_counterexample`); true for weights fixed by the conjugation (`C28_adjoint_value_partial`).
 (F5) coefficients: the value depends only on the reported coefficients.
      False: a `Coefficient` left operand of an Action is not reported (`C28_coefficients_counterexample`); true when no Action has
      a Coefficient on the left (`C28_coefficients_partial`).
The `*_current` theorems instantiate the partial theorems with the flags regenerated from the live code, so that a repaired tree
gets the unconditional statements without an edit here.
-/
import Mathlib.Algebra.Ring.Prod
import UflVerif.Sem.BaseFormOps
import UflVerif.Sem.BaseFormArgs
import UflVerif.Gen.C28Flags

namespace UflVerif.C28
open UflVerif BaseForm

set_option linter.unusedSectionVars false
set_option linter.unusedVariables false

variable {K : Type} [CommRing K] [DecidableEq K]

/-- the behaviour of the tree under test, as observed on this run -/
def currentCfg : Cfg :=
  ⟨Gen.C28Flags.reinitGuard, Gen.C28Flags.actionRenumbers, Gen.C28Flags.leftCoefficientReported,
   Gen.C28Flags.adjointInitGuard, Gen.C28Flags.formSumInitGuard⟩

/-- what the tree under test does to a weight when the Adjoint distributes over a weighted sum -/
def currentCj (ρ : Env K) : K → K := if Gen.C28Flags.adjointConjugatesWeights then ρ.star else id

/-! ## FormSum: zero elimination, flattening, merging of the variational components -/

/-- `FormSum(*comps)` denotes the weighted sum of its components, whatever the simplification did (drop zero components, flatten
nested sums multiplying the weights, merge all `Form` components into one form with weight 1, return the single component of
weight 1); no typing is needed. -/
theorem C28_formsum_value (cfg : Cfg) (ρ : Env K) (ps : List (BF K × K)) (b : BF K)
    (h : mkFormSum cfg ps = .ok b) (idx : List Nat) :
    denote ρ b idx = denote ρ (.formSum (ps.map (·.1)) (ps.map (·.2))) idx := by
  rw [denote_mkFormSum cfg ρ ps b h idx]
  simp [denote, denoteSum_unzip]

/-- the operators `x + y`, `-x`, `s * x` denote sum, negative and multiple -/
theorem C28_operators_value (cfg : Cfg) (ρ : Env K) (σ : List Space) (x y b : BF K) (s : K)
    (hx : OKc σ x) (hy : OKc σ y) :
    (opAdd cfg x y = .ok b → ∀ idx, denote ρ b idx = denote ρ x idx + denote ρ y idx) ∧
    (opNeg cfg x = .ok b → ∀ idx, denote ρ b idx = -denote ρ x idx) ∧
    (opSmul cfg s x = .ok b → ∀ idx, denote ρ b idx = s * denote ρ x idx) :=
  ⟨fun h => (opAdd_sound cfg ρ σ x y b hx hy h).1,
   fun h idx => by rw [(opNeg_sound cfg ρ σ x b hx h).1 idx]; ring,
   fun h => (opSmul_sound cfg ρ σ s x b hx h).1⟩

/-! ## zero elimination -/

theorem actR_of_actBase (cfg : Cfg) (l r : BF K) (res : Except Err (BF K)) (h : actBase cfg l r = some res) :
    actR cfg l r = res := by
  cases r <;> simp only [actR, actFinal, h]

theorem mkAction_of_actBase (cfg : Cfg) (l r : BF K) (res : Except Err (BF K)) (h : actBase cfg l r = some res) :
    mkAction cfg l r = res := by
  cases l
  case exprSum a b => simp only [mkAction, h]
  case formSum cs ws => simp only [mkAction, h]
  all_goals (simp only [mkAction]; exact actR_of_actBase cfg _ r res h)

/-- zero elimination: an `Action` with a zero operand (`ZeroBaseForm` or `Zero`) is a `ZeroBaseForm`, and so is the map the
unsimplified Action denotes; `Adjoint(ZeroBaseForm)` is a `ZeroBaseForm`; zero components of a `FormSum` do not contribute.
No typing is needed. -/
theorem C28_zero (cfg : Cfg) (ρ : Env K) (hs : ρ.star 0 = 0) :
    (∀ (l r b : BF K), (l.isZero = true ∨ r.isZero = true) → mkAction cfg l r = .ok b →
        b.isZeroObj = true ∧ ∀ idx, denote ρ b idx = 0 ∧ denote ρ (.action l r) idx = 0) ∧
    (∀ (cj : K → K) (as : List Arg), mkAdjoint cfg cj (.zero as : BF K) = .ok (.zero as.reverse) ∧
        ∀ idx, denote ρ (.adjoint (.zero as : BF K)) idx = 0) ∧
    (∀ (ps : List (BF K × K)) (b : BF K), mkFormSum cfg ps = .ok b → ∀ idx,
        denote ρ b idx = dsum ρ (ps.filter (fun p => !p.1.isZero)) idx) := by
  refine ⟨?_, ?_, ?_⟩
  · intro l r b hz h
    have hval : ∀ idx, denote ρ (.action l r) idx = 0 := by
      intro idx
      rw [denote_action]
      rcases hz with hz | hz
      · exact contr_zero_left _ _ _ _ _ (fun i => denote_of_isZero ρ l hz i)
      · exact contr_zero_right _ _ _ _ _ (fun i => denote_of_isZero ρ r hz i)
    have hb : ∃ res, actBase cfg l r = some res := by
      unfold actBase
      have : (l.isZero || r.isZero) = true := by rcases hz with hz | hz <;> simp [hz]
      simp only [this, if_true]
      split <;> exact ⟨_, rfl⟩
    obtain ⟨res, hres⟩ := hb
    rw [mkAction_of_actBase cfg l r res hres] at h
    have hz' : (l.isZero || r.isZero) = true := by rcases hz with hz | hz <;> simp [hz]
    unfold actBase at hres
    simp only [hz', if_true] at hres
    split at hres
    · simp only [Option.some.injEq] at hres; subst hres
      simp only [Except.ok.injEq] at h; subst h
      exact ⟨rfl, fun idx => ⟨by simp [denote], hval idx⟩⟩
    · simp only [Option.some.injEq] at hres; subst hres
      cases ha : (BF.action l r).arguments cfg with
      | error e => simp [ha, ebind_error] at h
      | ok as =>
        simp only [ha, ebind_ok, Except.ok.injEq] at h; subst h
        exact ⟨rfl, fun idx => ⟨by simp [denote], hval idx⟩⟩
  · intro cj as
    refine ⟨by simp [mkAdjoint], fun idx => ?_⟩
    simp only [denote]
    split <;> simp [hs]
  · intro ps b h idx
    rw [denote_mkFormSum cfg ρ ps b h idx, dsum_filter_nonzero]

/-! ## Action: argument contraction, distribution over sums, identity arguments -/

/-- `Action(l, r)`: for operands that are zero or well typed (`OKc`) with signatures `pre ++ [s]` and `s* :: post`, the object the
constructor returns denotes the contraction of `l` with `r` at every multi-index of the contracted signature `pre ++ post`, and
it is a `ZeroBaseForm` or well typed with that signature.  Covers zero elimination, the identity operands, distribution over
`Sum`/`FormSum` on either side (recursively, with everything `FormSum` does to the result) and the re-initialisation of a collapsed
sum. -/
theorem C28_action_value (cfg : Cfg) (ρ : Env K) (l r b : BF K) (σl σr pre post : List Space) (s : Space)
    (hl : OKc σl l) (hr : OKc σr r) (hσl : σl = pre ++ [s]) (hσr : σr = s.dualize :: post)
    (h : mkAction cfg l r = .ok b) :
    (∀ idx, IdxOK ρ (pre ++ post) idx → denote ρ b idx = denote ρ (.action l r) idx) ∧ Res (pre ++ post) b :=
  mkAction_sound cfg ρ r σr post s hr hσr l b σl pre hl hσl h

/-- distribution over a weighted sum on the right: the returned object denotes `Σ wᵢ · (l · cᵢ)` -/
theorem C28_distrib_right (cfg : Cfg) (ρ : Env K) (l b : BF K) (cs : List (BF K)) (ws : List K)
    (σl σr pre post : List Space) (s : Space)
    (hl : OKc σl l) (hr : OKc σr (.formSum cs ws)) (hσl : σl = pre ++ [s]) (hσr : σr = s.dualize :: post)
    (h : mkAction cfg l (.formSum cs ws) = .ok b) (idx : List Nat) (hidx : IdxOK ρ (pre ++ post) idx) :
    denote ρ b idx = denoteSum ρ (cs.map (BF.action l)) ws idx := by
  rw [(C28_action_value cfg ρ l _ b σl σr pre post s hl hr hσl hσr h).1 idx hidx, denoteSum_zip, dsum_action_right]

/-- distribution over a weighted sum on the left: the returned object denotes `Σ wᵢ · (cᵢ · r)` -/
theorem C28_distrib_left (cfg : Cfg) (ρ : Env K) (r b : BF K) (cs : List (BF K)) (ws : List K)
    (σl σr pre post : List Space) (s : Space)
    (hl : Typed σl (.formSum cs ws)) (hr : OKc σr r) (hσl : σl = pre ++ [s]) (hσr : σr = s.dualize :: post)
    (h : mkAction cfg (.formSum cs ws) r = .ok b) (idx : List Nat) (hidx : IdxOK ρ (pre ++ post) idx) :
    denote ρ b idx = denoteSum ρ (cs.map (fun c => BF.action c r)) ws idx := by
  rw [(C28_action_value cfg ρ _ r b σl σr pre post s (Or.inr hl) hr hσl hσr h).1 idx hidx, denoteSum_zip, denote_action]
  have hwt := (WT_formSum_iff cs ws).1 hl.1
  exact (dsum_action_left ρ r _ _ cs ws idx
    (fun c hc => ⟨splitAt_congr _ _ (hwt.2.1 c hc), contrDim_congr ρ _ _ (hwt.2.1 c hc)⟩)).symm

/-- identity argument on the left, as far as the code as observed goes: `Action(c, r) = r` unless `r` is an `Action` instance and
`__init__` is not guarded -/
theorem C28_identity_action_partial (cfg : Cfg) (l r : BF K) (hl : l.isArgLike = true)
    (hz : l.isZero = false ∧ r.isZero = false) (hg : cfg.guard = true ∨ r.isAction = false) :
    mkAction cfg l r = .ok r ∧ mkAction cfg r l = (if r.isArgLike then .ok l else .ok r) := by
  have h1 : actBase cfg l r = some (.ok r) := by
    unfold actBase identityReturn
    simp only [hz.1, hz.2, Bool.or_self, Bool.false_eq_true, if_false, hl, if_true]
    rcases hg with hg | hg <;> simp [hg]
  refine ⟨mkAction_of_actBase cfg l r _ h1, ?_⟩
  by_cases hr : r.isArgLike = true
  · have hra : r.isAction = false := by cases r <;> simp_all [BF.isArgLike, BF.isAction]
    have hla : l.isAction = false := by cases l <;> simp_all [BF.isArgLike, BF.isAction]
    have h2 : actBase cfg r l = some (.ok l) := by
      unfold actBase identityReturn
      simp [hz.1, hz.2, hr, hla]
    simp [hr, mkAction_of_actBase cfg r l _ h2]
  · have h2 : actBase cfg r l = some (.ok r) := by
      unfold actBase identityReturn
      simp only [hz.1, hz.2, Bool.or_self, Bool.false_eq_true, if_false, hr, hl, if_true]
      rcases hg with hg | hg <;> simp [hg]
    simp [hr, mkAction_of_actBase cfg r l _ h2]

/-- the value side of the identity simplification: the operand returned denotes the contraction with the identity -/
theorem C28_identity_action_value (cfg : Cfg) (ρ : Env K) (a : Arg) (r b : BF K) (post : List Space)
    (hr : Typed (a.space.dualize :: post) r) (h : mkAction cfg (.coargument a) r = .ok b)
    (idx : List Nat) (hidx : IdxOK ρ (a.space.dualize :: post) idx) :
    denote ρ b idx = denote ρ (.action (.coargument a) r) idx :=
  (C28_action_value cfg ρ (.coargument a) r b [a.space.dualize, a.space] (a.space.dualize :: post) [a.space.dualize] post a.space
    (Or.inr ⟨by simp [BF.WT], by simp [BF.sigS]⟩) (Or.inr hr) rfl rfl h).1 idx hidx

def spV : Space := ⟨0, false⟩
def spU : Space := ⟨1, false⟩

/-- (F1) the full statement is false for the code as observed: `Action(Coargument(V*), Action(M, u))` returns the inner `Action`
re-initialised with itself as right operand (`Err.cyclic`); the guarded `__init__` returns the operand unchanged -/
theorem C28_identity_action_counterexample :
    mkAction ⟨false, false, false, false, false⟩ (.coargument ⟨spV.dualize, 1, none⟩)
        (.action (.matrix 0 spV spU) (.coefficient 1 spU) : BF Int) = .error .cyclic ∧
    mkAction ⟨true, false, false, false, false⟩ (.coargument ⟨spV.dualize, 1, none⟩)
        (.action (.matrix 0 spV spU) (.coefficient 1 spU) : BF Int) = .ok (.action (.matrix 0 spV spU) (.coefficient 1 spU)) :=
  ⟨rfl, rfl⟩

/-- the identity simplification for the tree under test (unconditional once `reinitGuard` is observed) -/
theorem C28_identity_action_current (l r : BF K) (hl : l.isArgLike = true) (hz : l.isZero = false ∧ r.isZero = false)
    (hg : Gen.C28Flags.reinitGuard = true ∨ r.isAction = false) : mkAction currentCfg l r = .ok r :=
  (C28_identity_action_partial currentCfg l r hl hz hg).1

/-! ## Adjoint -/

/-- `Adjoint(f)` denotes the conjugate transpose of `f` provided what the code does to the weights it distributes over (`cj`) is
the conjugation; involution, zero, Coargument and distribution cases included -/
theorem C28_adjoint_value (cfg : Cfg) (cj : K → K) (ρ : Env K) (hs : StarOK ρ) (f b : BF K)
    (hw : ∀ w ∈ adjWeights f, cj w = ρ.star w) (h : mkAdjoint cfg cj f = .ok b) (i j : Nat) :
    denote ρ b [i, j] = denote ρ (.adjoint f) [i, j] := by
  rw [mkAdjoint_value cfg cj ρ hs f b hw h i j]; simp [denote]

/-- the code as observed (`cj = id`: the weights are not touched): the Adjoint of a weighted sum is right for weights that are
fixed by the conjugation (real weights) -/
theorem C28_adjoint_value_partial (cfg : Cfg) (ρ : Env K) (hs : StarOK ρ) (f b : BF K)
    (hw : ∀ w ∈ adjWeights f, ρ.star w = w) (h : mkAdjoint cfg id f = .ok b) (i j : Nat) :
    denote ρ b [i, j] = denote ρ (.adjoint f) [i, j] :=
  C28_adjoint_value cfg id ρ hs f b (fun w hm => (hw w hm).symm) h i j

/-- the tree under test: unconditional once the weights are observed to be conjugated -/
theorem C28_adjoint_value_current (cfg : Cfg) (ρ : Env K) (hs : StarOK ρ) (f b : BF K)
    (hw : Gen.C28Flags.adjointConjugatesWeights = true ∨ ∀ w ∈ adjWeights f, ρ.star w = w)
    (h : mkAdjoint cfg (currentCj ρ) f = .ok b) (i j : Nat) :
    denote ρ b [i, j] = denote ρ (.adjoint f) [i, j] := by
  apply C28_adjoint_value cfg (currentCj ρ) ρ hs f b _ h i j
  intro w hm
  unfold currentCj
  rcases hw with hw | hw
  · simp [hw]
  · split
    · rfl
    · exact (hw w hm).symm

/-- the signature of the adjoint is the reversed signature -/
theorem C28_adjoint_signature (cfg : Cfg) (cj : K → K) (f b : BF K) (σ : List Space) (hf : OKc σ f) (hl : σ.length = 2)
    (h : mkAdjoint cfg cj f = .ok b) : Res σ.reverse b :=
  mkAdjoint_res cfg cj f b σ hf hl h

/-- adjoint involution: `Adjoint(Adjoint(x))` is `x`, and `x` is what the double conjugate transpose denotes -/
theorem C28_adjoint_involution (cfg : Cfg) (cj : K → K) (ρ : Env K) (hs : StarOK ρ) (x : BF K) :
    mkAdjoint cfg cj (.adjoint x) = .ok x ∧ ∀ i j, denote ρ x [i, j] = denote ρ (.adjoint (.adjoint x)) [i, j] := by
  refine ⟨by simp [mkAdjoint], fun i j => ?_⟩
  simp [denote, hs.invol]

/-- a ring with a non-trivial conjugation: pairs of integers, `star (a, b) = (b, a)` -/
def swapEnv : Env (Int × Int) where
  dim := fun _ => 1
  coefVal := fun _ _ => (0, 0)
  matVal := fun _ _ _ => (1, 1)
  atomFn := fun _ _ _ => (0, 0)
  star := fun p => (p.2, p.1)

theorem swapEnv_starOK : StarOK swapEnv :=
  ⟨fun a b => rfl, fun a b => rfl, rfl, rfl, fun a => rfl⟩

/-- (F3) the full statement (no condition on the weights) is false for the code as observed (`cj = id`): for the weight
`w = (1, 0)`, which the conjugation does not fix, `Adjoint(FormSum((M, w)))` returns `FormSum((Adjoint(M), w))`, whose entry is
`w·conj(M₀₀) = (1,0)`, while the conjugate transpose of `w·M` has the entry `conj(w·M₀₀) = (0,1)`; conjugating the weight
(`cj = star`) gives `FormSum((Adjoint(M), (0,1)))` with the right entry -/
theorem C28_adjoint_counterexample :
    mkAdjoint ⟨true, true, true, true, true⟩ id (.formSum [.matrix 0 spV spV] [((1, 0) : Int × Int)])
      = .ok (.formSum [.adjoint (.matrix 0 spV spV)] [((1, 0) : Int × Int)]) ∧
    denote swapEnv (.formSum [.adjoint (.matrix 0 spV spV)] [((1, 0) : Int × Int)]) [0, 0] = (1, 0) ∧
    denote swapEnv (.adjoint (.formSum [.matrix 0 spV spV] [((1, 0) : Int × Int)])) [0, 0] = (0, 1) ∧
    mkAdjoint ⟨true, true, true, true, true⟩ swapEnv.star (.formSum [.matrix 0 spV spV] [((1, 0) : Int × Int)])
      = .ok (.formSum [.adjoint (.matrix 0 spV spV)] [((0, 1) : Int × Int)]) ∧
    denote swapEnv (.formSum [.adjoint (.matrix 0 spV spV)] [((0, 1) : Int × Int)]) [0, 0] = (0, 1) := by
  refine ⟨rfl, by decide, by decide, rfl, by decide⟩

/-! ## compositions -/

/-- For every well-typed description (any composition of FormSum with weights, `+ - *`, Action, Adjoint over any leaves): if the
real constructors return `b`, then `b` denotes what the unsimplified description denotes at every multi-index of the
description's signature, and `b` is a `ZeroBaseForm` or is well typed with the description's signature.  `cj`, what the code does
to the weights under an Adjoint, has to be the conjugation of the environment. -/
theorem C28_build_sound (cfg : Cfg) (cj : K → K) (ρ : Env K) (hs : StarOK ρ) (hcj : ∀ a, cj a = ρ.star a) (d : Desc K) (b : BF K)
    (hwt : d.raw.WT = true) (h : d.build cfg cj = .ok b) :
    (∀ idx, IdxOK ρ d.raw.sigS idx → denote ρ b idx = denote ρ d.raw idx) ∧ Res d.raw.sigS b :=
  build_sound cfg cj ρ hs hcj d b hwt h

/-- the code as observed (weights untouched under an Adjoint): real mode -/
theorem C28_build_sound_partial (cfg : Cfg) (ρ : Env K) (hid : ∀ a, ρ.star a = a) (d : Desc K) (b : BF K)
    (hwt : d.raw.WT = true) (h : d.build cfg id = .ok b) :
    (∀ idx, IdxOK ρ d.raw.sigS idx → denote ρ b idx = denote ρ d.raw idx) ∧ Res d.raw.sigS b :=
  C28_build_sound cfg id ρ ⟨by simp [hid], by simp [hid], hid 0, hid 1, by simp [hid]⟩ (fun a => (hid a).symm) d b hwt h

/-- the tree under test: complex mode as soon as the weights are observed to be conjugated -/
theorem C28_build_sound_current (ρ : Env K) (hs : StarOK ρ)
    (hm : Gen.C28Flags.adjointConjugatesWeights = true ∨ ∀ a, ρ.star a = a) (d : Desc K) (b : BF K)
    (hwt : d.raw.WT = true) (h : d.build currentCfg (currentCj ρ) = .ok b) :
    (∀ idx, IdxOK ρ d.raw.sigS idx → denote ρ b idx = denote ρ d.raw idx) ∧ Res d.raw.sigS b := by
  apply C28_build_sound currentCfg (currentCj ρ) ρ hs _ d b hwt h
  intro a
  unfold currentCj
  rcases hm with hm | hm
  · simp [hm]
  · split
    · rfl
    · exact (hm a).symm

/-! ## map_integrands on base forms -/

/-- `map_integrands(function, b)` (used by `expand_derivatives`, `replace`, ...) rebuilds `b` through the constructors; for a
`function` that preserves the value and the argument spaces of every integrand and the value and typing of the other leaves
(`MapOK`) and does not zero all integrands of a form, the result denotes what `b` denotes and is zero or well typed with the
signature of `b` -/
theorem C28_map_integrands (cfg : Cfg) (cj : K → K) (ρ : Env K) (hs : StarOK ρ) (hcj : ∀ a, cj a = ρ.star a)
    (fI : Itg K → Itg K) (fL : BF K → BF K) (hm : MapOK ρ fI fL) (b b' : BF K)
    (hwt : b.WT = true) (hk : formsKept fI b = true) (h : mapIntegrands cfg cj fI fL b = .ok b') :
    (∀ idx, IdxOK ρ b.sigS idx → denote ρ b' idx = denote ρ b idx) ∧ OKc b.sigS b' :=
  mapIntegrands_sound cfg cj ρ hs hcj fI fL hm b b' hwt hk h

/-- the function the correspondence uses (zero the integrands of some atoms, replace some cofunctions / matrices by
`ZeroBaseForm(their arguments)` and some coefficients by `Zero`) satisfies `MapOK` in every environment where those data vanish -/
theorem C28_map_integrands_zeroing (ρ : Env K) (atoms coefs mats : List Nat)
    (hA : ∀ a ∈ atoms, ∀ cv idx, ρ.atomFn a cv idx = 0) (hC : ∀ c ∈ coefs, ∀ i, ρ.coefVal c i = 0)
    (hM : ∀ c ∈ mats, ∀ i j, ρ.matVal c i j = 0) : MapOK ρ (zeroItg atoms) (zeroLeaf coefs mats) where
  itg_val := by
    intro i idx
    unfold zeroItg denoteItg
    by_cases hz : i.zeroed = true
    · simp [hz]
    · by_cases hc : i.atom.id ∈ atoms
      · have := hA i.atom.id hc ρ.coefVal idx
        simp [hz, hc, this]
      · simp [hz, hc]
  itg_sig := by
    intro i
    unfold zeroItg Itg.argSpaces
    split <;> rfl
  leaf_val := by
    intro x idx
    cases x <;> simp only [zeroLeaf]
    case cofunction c s =>
      by_cases hc : c ∈ coefs
      · have := hC c hc
        simp only [List.contains_iff_mem, hc, if_true, denote]
        split <;> simp [this]
      · simp [hc]
    case matrix c r k =>
      by_cases hc : c ∈ mats
      · have := hM c hc
        simp only [List.contains_iff_mem, hc, if_true, denote]
        split <;> simp [this]
      · simp [hc]
    case coefficient c s =>
      by_cases hc : c ∈ coefs
      · have := hC c hc
        simp only [List.contains_iff_mem, hc, if_true, denote]
        split <;> simp [this]
      · simp [hc]
  leaf_typ := by
    intro x σ ht
    cases x <;> simp only [zeroLeaf] <;> try exact Or.inr ht
    case cofunction c s => split <;> first | exact Or.inl rfl | exact Or.inr ht
    case matrix c r k => split <;> first | exact Or.inl rfl | exact Or.inr ht
    case coefficient c s => split <;> first | exact Or.inl rfl | exact Or.inr ht
  leaf_zero := rfl

/-! ## arguments and coefficients -/

/-- `arguments()` lists the spaces of the signature given by argument contraction, under the decidable side condition `ArgsOK`
(forms have non-zero integrands over one increasingly numbered argument tuple; the summands of every sum report one and the same
increasingly numbered argument tuple — computed with the flags of `cfg`) -/
theorem C28_arguments_partial (cfg : Cfg) (b : BF K) (as : List Arg) (hok : ArgsOK cfg b = true)
    (h : b.arguments cfg = .ok as) : as.map (·.space) = b.sigS :=
  arguments_sig cfg b as hok h

/-- the simplified object reports the signature of the description -/
theorem C28_arguments_built (cfg : Cfg) (cj : K → K) (ρ : Env K) (hs : StarOK ρ) (hcj : ∀ a, cj a = ρ.star a)
    (d : Desc K) (b : BF K) (as : List Arg)
    (hwt : d.raw.WT = true) (h : d.build cfg cj = .ok b) (hok : ArgsOK cfg b = true) (ha : b.arguments cfg = .ok as) :
    b.isZeroObj = true ∨ as.map (·.space) = d.raw.sigS := by
  rcases (C28_build_sound cfg cj ρ hs hcj d b hwt h).2 with hz | ht
  · exact Or.inl hz
  · right; rw [C28_arguments_partial cfg b as hok ha, ht.2]

/-- the sum of the 1-form `Action(cofunction ∈ U*, matrix(U*, V))` and a cofunction in `V*` -/
def misnumbered : BF Int :=
  .formSum [.action (.cofunction 0 spU.dualize) (.matrix 1 spU.dualize spV), .cofunction 2 spV.dualize] [1, 1]

/-- (F2) the full statement (no side condition) is false for the code as observed: `misnumbered` is well typed with the
signature `[V]` but reports two arguments; with renumbering in `_get_action_form_arguments` it reports `[V]` and satisfies
`ArgsOK` -/
theorem C28_arguments_counterexample :
    misnumbered.WT = true ∧ misnumbered.sigS = [spV] ∧
    misnumbered.arguments ⟨false, false, false, false, false⟩ = .ok [⟨spV, 0, none⟩, ⟨spV, 1, none⟩] ∧
    ArgsOK ⟨false, false, false, false, false⟩ misnumbered = false ∧
    misnumbered.arguments ⟨false, true, false, false, false⟩ = .ok [⟨spV, 0, none⟩] ∧ ArgsOK ⟨false, true, false, false, false⟩ misnumbered = true :=
  ⟨by decide, rfl, rfl, by decide, rfl, by decide⟩

theorem C28_arguments_current (b : BF K) (as : List Arg) (hok : ArgsOK currentCfg b = true)
    (h : b.arguments currentCfg = .ok as) : as.map (·.space) = b.sigS :=
  C28_arguments_partial currentCfg b as hok h

/-- `coefficients()` contains every coefficient the value depends on: changing the values of the coefficients that are not
reported does not change any entry, provided no Action has a Coefficient as left operand (or the code reports it) and every atom
depends on the coefficient values only through its own coefficients -/
theorem C28_coefficients_partial (cfg : Cfg) (ρ : Env K) (cv : Nat → Nat → K) (b : BF K) (cs : List Coef)
    (hnl : cfg.leftCoef = true ∨ noLeftCoef b = true) (h : b.coefficients cfg = .ok cs)
    (hag : ∀ c ∈ cs, cv c.count = ρ.coefVal c.count) (hloc : ∀ a ∈ liveAtoms b, AtomLocal ρ a) (idx : List Nat) :
    denote (ρ.withCoef cv) b idx = denote ρ b idx :=
  coefficients_sound cfg ρ cv b cs hnl h hag hloc idx

def oneEnv : Env Int where
  dim := fun _ => 1
  coefVal := fun _ _ => 1
  matVal := fun _ _ _ => 1
  atomFn := fun _ _ _ => 0
  star := id

/-- (F5) the full statement is false for the code as observed: `Action(u, c)` with `u` a Coefficient in `V` and `c` a Cofunction
in `V*` reports only `c`, but its value `u·c` changes with `u` -/
theorem C28_coefficients_counterexample :
    (BF.action (.coefficient 0 spV) (.cofunction 1 spV.dualize) : BF Int).coefficients ⟨false, false, false, false, false⟩
      = .ok [⟨1, spV.dualize⟩] ∧
    denote (oneEnv.withCoef (fun c _ => if c = 0 then 2 else 1)) (BF.action (.coefficient 0 spV) (.cofunction 1 spV.dualize)) [] = 2 ∧
    denote oneEnv (BF.action (.coefficient 0 spV) (.cofunction 1 spV.dualize) : BF Int) [] = 1 ∧
    (BF.action (.coefficient 0 spV) (.cofunction 1 spV.dualize) : BF Int).coefficients ⟨false, false, true, false, false⟩
      = .ok [⟨1, spV.dualize⟩, ⟨0, spV⟩] :=
  ⟨rfl, by decide, by decide, rfl⟩

theorem C28_coefficients_current (ρ : Env K) (cv : Nat → Nat → K) (b : BF K) (cs : List Coef)
    (hnl : Gen.C28Flags.leftCoefficientReported = true ∨ noLeftCoef b = true) (h : b.coefficients currentCfg = .ok cs)
    (hag : ∀ c ∈ cs, cv c.count = ρ.coefVal c.count) (hloc : ∀ a ∈ liveAtoms b, AtomLocal ρ a) (idx : List Nat) :
    denote (ρ.withCoef cv) b idx = denote ρ b idx :=
  C28_coefficients_partial currentCfg ρ cv b cs hnl h hag hloc idx

/-! ## the hypotheses are satisfiable by non-trivial instances -/

/-- a 2-form with two integrals over `(V, U)` -/
def formVU : BF Int :=
  .form [⟨1, false, 0, ⟨0, [⟨spV, 0, none⟩, ⟨spU, 1, none⟩], [⟨7, spV⟩]⟩⟩, ⟨1, false, 2, ⟨1, [⟨spV, 0, none⟩, ⟨spU, 1, none⟩], [⟨8, spU⟩]⟩⟩]

/-- `Action(2*F + 3*M, u1 + u2)` with `F` a form and `M` a matrix over `(V, U)`, `u1, u2 ∈ U` -/
def exDesc : Desc Int :=
  .action (.add (.smul 2 (.leaf formVU)) (.smul 3 (.leaf (.matrix 0 spV spU))))
    (.leaf (.exprSum (.coefficient 1 spU) (.coefficient 2 spU)))

example : exDesc.raw.WT = true := by decide
example : exDesc.raw.sigS = [spV] := rfl
/-- the constructors distribute over both sums: four Actions with the weights 1, 3, 1, 3 (the form carries its factor 2) -/
example : ∃ b, exDesc.build ⟨false, false, false, false, false⟩ id = .ok b ∧ ArgsOK ⟨false, false, false, false, false⟩ b = true ∧
    b.arguments ⟨false, false, false, false, false⟩ = .ok [⟨spV, 0, none⟩] ∧ noLeftCoef b = true :=
  ⟨_, rfl, by decide, rfl, by decide⟩
example : IdxOK oneEnv [spV] [0] := by simp [IdxOK, oneEnv]
example : OKc [spV, spU] formVU := Or.inr ⟨by decide, rfl⟩
example : AtomLocal oneEnv ⟨0, [], [⟨7, spV⟩]⟩ := fun _ _ _ => rfl

end UflVerif.C28
