import UflVerif.Props.C08.Spec
import UflVerif.Gen.Pullbacks_interval3
namespace UflVerif.C08
open UflVerif Expr Pullback Gen.Pullbacks C06
variable {K : Type} [Field K]
set_option maxRecDepth 8000
set_option maxHeartbeats 4000000
theorem C08_pushforward_interval3 (ρ : Env K) (s : Side) (ι : IdxEnv) (hp : PowOK ρ) : Holds ρ s ι interval3 := by
  have hp2 : ∀ x : K, ρ.fn2 "Power" x 2 = x * x := hp
  c08_solve [interval3, hp2]
theorem C08_shapes_interval3 : shapesOK interval3 = true := by decide +kernel
end UflVerif.C08
