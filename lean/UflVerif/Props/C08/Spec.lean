import UflVerif.Sem.CompoundSpec
import UflVerif.Model.Pullback

/-! C08: statement shared by the per-geometry modules. -/
namespace UflVerif.C08
open UflVerif Expr Pullback Gen.Pullbacks C06

variable {K : Type} [Field K]

/-- the geometry symbols of the lowered expression as the `Geo` record of the specification -/
def geoOf (ρ : Env K) (s : Side) (t : Case) : Geo K :=
  { J := fun i j => ρ.term s "J" [i, j], Kinv := fun i j => ρ.term s "K" [i, j], detJ := ρ.term s "detJ" [],
    tdim := t.tdim, gdim := t.gdim }

/-- every physical component of the rewritten form argument is the declared push-forward of its reference value -/
def Holds (ρ : Env K) (s : Side) (ι : IdxEnv) (cases : List Case) : Prop :=
  ForAll cases fun t => ForAll (allComps t.valueShape) fun c =>
    eval ρ s ι t.out c = push (geoOf ρ s t) t.elem (ρ.term s "r") c

/-- shapes: the rewritten expression has the function space's value shape = the declared physical value shape, no free indices -/
def shapesOK (cases : List Case) : Bool :=
  cases.all fun t => shape t.out == t.valueShape && physShape t.gdim t.elem == t.valueShape && fi t.out == [] && WF t.out

/-- integer power 2 means squaring -/
def PowOK (ρ : Env K) : Prop := ∀ x : K, ρ.fn2 "Power" x 2 = x * x

macro "c08_solve" "[" cs:ident "," hp:ident "]" : tactic =>
  `(tactic| (
    simp only [Holds, $cs:ident]; c06_cases
    all_goals (
      c06_eval [push, pushMixed, pushNth, physShape, physSizeL, geoOf, prod, flat, unflat, blockShape, lexLt, lookupSym, refSize,
                Elem.refShape, List.getLastD, List.dropLast, List.getLast?, $hp:ident]
      try ((repeat' constructor) <;> ring1))))

end UflVerif.C08
