import UflVerif.Props.C02.Nodes3

/-! C02 (composition) — induction steps, part 4: the math functions and gradients of terminals. -/
namespace UflVerif.C02
open UflVerif Expr C05 FIlemmas Filter Topology

section main
variable {m : DMode} {ρ : ℝ → Env ℝ} (hfam : ∀ τ, RealEnv (ρ τ))
include hfam

theorem node_erf (aux : List Nat) (f : Expr) : M1 m ρ (.op .erf aux [f]) := by
  intro r _ _ _ h hu
  simp only [derivE, mathName] at h
  obtain ⟨fp, _, _, h2⟩ := bindU_some _ _ _ h hu
  simp only [mathRule] at h2
  exact absurd h2 (fun h => unsupported_ne h hu)

theorem node_math (k : Op) (n : String) (hk : mathName k = some n) (aux : List Nat) (f : Expr) (ihf : M1 m ρ f) :
    M1 m ρ (.op k aux [f]) := by
  cases k <;> simp only [mathName, reduceCtorEq, Option.some.injEq] at hk <;> subst hk
  case erf => exact node_erf hfam aux f
  all_goals
    intro r hw hd ht h hu
    simp only [derivE, mathName] at h
    obtain ⟨fp, h1, u1, h2⟩ := bindU_some _ _ _ h hu
    simp only [WF, mathName, Option.isSome_some, Bool.true_and, Bool.and_eq_true] at hw
    have tf := ts_of hw.1 hw.2
    simp only [DOK, DOKL, Bool.and_eq_true, and_true] at hd
    obtain ⟨⟨wfp, sfp, ffp⟩, derf⟩ := ihf fp hw.1 hd (termHyp_sub m ρ _ _ _ (by decide) ht f (by simp)) h1 u1
    have tfp : TS fp := ⟨wfp, by rw [sfp, tf.2.1], by rw [ffp, tf.2.2]⟩
    obtain ⟨tr, ev⟩ := mathRule_ok (ρ 0) (lit0 hfam) rfl tf tfp h2 hu
    refine ⟨⟨tr.1, by rw [tr.2.1]; simp [shape], by rw [tr.2.2]; simp [fi, tf.2.2]⟩, fun side ι c hc hs' => ?_⟩
    simp only [shape, List.length_nil] at hc
    obtain rfl := len0 hc
    simp only [Smooth] at hs'
    have hF := derf side ι [] (by simp [tf.2.1])
    simp only [eval, mathName, hfn hfam]
    rw [ev]
    simp only [hfn hfam, hpow hfam, realFn_sqrt, realFn_exp, realFn_ln, realFn_cos, realFn_sin, realFn_tan, realFn_cosh, realFn_sinh,
      realFn_tanh, realFn_acos, realFn_asin, realFn_atan]
  · -- sqrt
    exact (hF hs'.1).sqrt hs'.2
  · -- exp
    convert (hF hs').exp using 1; ring
  · -- ln
    exact (hF hs'.1).log hs'.2
  · -- cos
    convert (hF hs').cos using 1; ring
  · -- sin
    convert (hF hs').sin using 1; ring
  · -- tan
    have hc := hs'.2
    have key : ∀ a b : ℝ, Real.cos a ≠ 0 → 2 * b / (Real.cos (2 * a) + 1) = 1 / Real.cos a ^ 2 * b := by
      intro a b ha
      have e : Real.cos (2 * a) + 1 = 2 * Real.cos a ^ 2 := by rw [Real.cos_two_mul]; ring
      rw [e]; field_simp
    rw [key _ _ hc]
    exact (Real.hasDerivAt_tan hc).comp 0 (hF hs'.1)
  · -- cosh
    convert (hF hs').cosh using 1; ring
  · -- sinh
    convert (hF hs').sinh using 1; ring
  · -- tanh
    have hc : Real.cosh (eval (ρ 0) side ι f []) ≠ 0 := ne_of_gt (Real.cosh_pos _)
    have hd' := ((hF hs').sinh).fun_div ((hF hs').cosh) hc
    have hfun : (fun τ => Real.tanh (eval (ρ τ) side ι f [])) = fun τ => Real.sinh (eval (ρ τ) side ι f []) / Real.cosh (eval (ρ τ) side ι f []) := by
      funext τ; rw [Real.tanh_eq_sinh_div_cosh]
    rw [hfun]
    have key : ∀ a b : ℝ, b * (2 * Real.cosh a / (Real.cosh (2 * a) + 1)) ^ (2 : ℝ) =
        (Real.cosh a * b * Real.cosh a - Real.sinh a * (Real.sinh a * b)) / Real.cosh a ^ 2 := by
      intro a b
      have hca : Real.cosh a ≠ 0 := ne_of_gt (Real.cosh_pos _)
      rw [rpow_two]
      have e : Real.cosh (2 * a) + 1 = 2 * Real.cosh a ^ 2 := by rw [Real.cosh_two_mul, Real.cosh_sq]; ring
      have hs := Real.cosh_sq a
      rw [e, show Real.cosh a * b * Real.cosh a - Real.sinh a * (Real.sinh a * b) = b * (Real.cosh a ^ 2 - Real.sinh a ^ 2) by ring]
      field_simp
      rw [hs]; ring
    rw [key]
    exact hd'
  · -- acos
    have key : ∀ a b : ℝ, -b / Real.sqrt (1 - a ^ (2 : ℝ)) = -(1 / Real.sqrt (1 - a ^ 2)) * b := by
      intro a b; rw [rpow_two]; ring
    rw [key]
    have h1 : HasDerivAt Real.arccos (-(1 / Real.sqrt (1 - eval (ρ 0) side ι f [] ^ 2))) (eval (ρ 0) side ι f []) :=
      Real.hasDerivAt_arccos hs'.2.1 hs'.2.2
    have h2 := HasDerivAt.comp (0 : ℝ) h1 (hF hs'.1)
    exact h2
  · -- asin
    have key : ∀ a b : ℝ, b / Real.sqrt (1 - a ^ (2 : ℝ)) = 1 / Real.sqrt (1 - a ^ 2) * b := by
      intro a b; rw [rpow_two]; ring
    rw [key]
    exact (Real.hasDerivAt_arcsin hs'.2.1 hs'.2.2).comp 0 (hF hs'.1)
  · -- atan
    have key : ∀ a b : ℝ, b / (1 + a ^ (2 : ℝ)) = 1 / (1 + a ^ 2) * b := by
      intro a b; rw [rpow_two]; ring
    rw [key]
    exact (hF hs').arctan

end main
end UflVerif.C02
