import UflVerif.Props.C02.Defs

/-!
C02 (composition) — the induction step for every kind of node: if the statement `M1` holds for the operands it
holds for the node.
-/
namespace UflVerif.C02
open UflVerif Expr C05 FIlemmas Filter Topology

/-! ### the induction -/
section main
variable {m : DMode} {ρ : ℝ → Env ℝ} (hfam : ∀ τ, RealEnv (ρ τ))

include hfam in
theorem lit0 : LitSem (ρ 0) := litSem_real _ (hfam 0)

include hfam in
theorem habs (τ x : ℝ) : (ρ τ).abs x = |x| := by rw [(hfam τ).abs]
include hfam in
theorem hconj (τ x : ℝ) : (ρ τ).conj x = x := by rw [(hfam τ).conj]; rfl
include hfam in
theorem hre (τ x : ℝ) : (ρ τ).re x = x := by rw [(hfam τ).re]; rfl
include hfam in
theorem him (τ x : ℝ) : (ρ τ).im x = 0 := by rw [(hfam τ).im]
include hfam in
theorem hlt (τ x y : ℝ) : (ρ τ).lt x y = decide (x < y) := by rw [(hfam τ).lt]
include hfam in
theorem heq (τ x y : ℝ) : (ρ τ).eq x y = decide (x = y) := by rw [(hfam τ).eq]
include hfam in
theorem hpow (τ x y : ℝ) : (ρ τ).fn2 "Power" x y = x ^ y := (hfam τ).pow x y
include hfam in
theorem hfn (τ : ℝ) (n : String) (x : ℝ) : (ρ τ).fn n x = realFn n x := by rw [(hfam τ).fn]

theorem len0 {c : List Nat} (h : c.length = 0) : c = [] := List.eq_nil_of_length_eq_zero h

variable (m ρ) in
/-- the statement proved for every sub-expression -/
def M1 (e : Expr) : Prop :=
  ∀ r, WF e = true → DOK m e = true → TermHyp m ρ e → derivE m e = some r → isUnsupported r = false →
    (WF r = true ∧ shape r = shape e ∧ fi r = fi e) ∧
    ∀ side ι c, c.length = (shape e).length → Smooth ρ side ι e c →
      HasDerivAt (fun τ => eval (ρ τ) side ι e c) (eval (ρ 0) side ι r c) 0

variable (m ρ) in
def M2 (xs : List Expr) : Prop :=
  ∀ ys, WFL xs = true → DOKL m xs = true → (∀ x ∈ xs, TermHyp m ρ x) → derivL m xs = some ys → ys.any isUnsupported = false →
    List.Forall₂ RowRel xs ys ∧
    ∀ side ι n c, (∀ x ∈ xs, c.length = (shape x).length) → SmoothNth ρ side ι xs n c →
      HasDerivAt (fun τ => evalNth (ρ τ) side ι xs n c) (evalNth (ρ 0) side ι ys n c) 0

include hfam in
theorem node_lit (e : Expr) (hl : (∃ v, e = .int v) ∨ (∃ n d, e = .real n d) ∨ (∃ a b c d, e = .cplx a b c d)) : M1 m ρ e := by
  intro r _ _ _ h _
  rcases hl with ⟨v, rfl⟩ | ⟨n, d, rfl⟩ | ⟨a, b, c, d, rfl⟩
  all_goals
    simp only [derivE, Option.some.injEq] at h; subst h
    refine ⟨⟨by simp [WF, sortedFI], by simp [shape], by simp [fi]⟩, fun side ι c _ _ => ?_⟩
    simp only [eval]
  · exact hasDerivAt_const _ _
  · exact hasDerivAt_const _ _
  · simp only [(hfam _).i]; exact hasDerivAt_const _ _


theorem node_zero (sh : List Nat) (f : FI) : M1 m ρ (.zero sh f) := by
  intro r hw _ _ h _
  simp only [derivE, Option.some.injEq] at h; subst h
  exact ⟨⟨hw, rfl, rfl⟩, fun side ι c _ _ => by simp only [eval]; exact hasDerivAt_const _ _⟩

theorem node_mi (is : List Idx) : M1 m ρ (.mi is) := by
  intro r hw; simp [WF] at hw

theorem node_term_g {wv : WV} (d : TermData) : M1 (.gateaux wv) ρ (.term d) := by
  intro r _ hd ht h hu
  have hfam : GTerms wv ρ := ht
  simp only [derivE, termRule, gateauxTerm] at h
  simp only [DOK, termOK] at hd
  split at h
  · -- Label
    rename_i hl
    have hl' : d.cls = "Label" := by simpa using hl
    simp only [Option.some.injEq] at h; subst h
    refine ⟨⟨rfl, rfl, rfl⟩, fun side ι c _ _ => ?_⟩
    simp only [eval, hl']; simp only [String.reduceEq, ↓reduceIte]
    exact hasDerivAt_const _ _
  · rename_i hnl
    have hnl' : ¬ d.cls = "Label" := by simpa using hnl
    split at h
    · rename_i hc
      have hc' : d.cls = "Coefficient" := by simpa using hc
      have hni : ¬ d.cls = "Identity" := by rw [hc']; decide
      cases hg : wv.get d.key with
      | some v =>
        rw [hg] at h hd
        simp only [Option.some.injEq] at h; subst h
        simp only [Bool.and_eq_true, beq_iff_eq, bne_iff_ne, ne_eq] at hd
        obtain ⟨⟨⟨_, hsh⟩, hvi⟩, hvl⟩ := hd
        refine ⟨⟨rfl, by simp [shape, hsh], rfl⟩, fun side ι c _ _ => ?_⟩
        simp only [eval, hni, hnl', hvi, hvl, ↓reduceIte]
        have : (fun τ => (ρ τ).term side d.key c) = fun τ => (ρ 0).term side d.key c + τ * (ρ 0).term side v.key c :=
          funext fun τ => hfam.term_w τ side d.key v c hg
        rw [this]
        simpa using ((hasDerivAt_id (0 : ℝ)).mul_const ((ρ 0).term side v.key c)).const_add ((ρ 0).term side d.key c)
      | none =>
        rw [hg] at h
        simp only [Option.some.injEq] at h; subst h
        refine ⟨⟨by simp [WF, sortedFI], by simp [shape], rfl⟩, fun side ι c _ _ => ?_⟩
        simp only [eval, hni, hnl', ↓reduceIte]
        have : (fun τ => (ρ τ).term side d.key c) = fun _ => (ρ 0).term side d.key c :=
          funext fun τ => hfam.term_o τ side d.key c hg
        rw [this]
        exact hasDerivAt_const _ _
    · rename_i hc
      have hc' : ¬ d.cls = "Coefficient" := by simpa using hc
      split at h
      · simp only [Option.some.injEq] at h; subst h
        have hg : wv.get d.key = none := by
          cases hg : wv.get d.key with
          | none => rfl
          | some v => rw [hg] at hd; simp [hc'] at hd
        refine ⟨⟨by simp [WF, sortedFI], by simp [shape], rfl⟩, fun side ι c _ _ => ?_⟩
        simp only [eval, hnl', ↓reduceIte]
        have : (fun τ => (ρ τ).term side d.key c) = fun _ => (ρ 0).term side d.key c :=
          funext fun τ => hfam.term_o τ side d.key c hg
        by_cases hi : d.cls = "Identity"
        · simp only [hi, ↓reduceIte]; exact hasDerivAt_const _ _
        · simp only [hi, ↓reduceIte]; rw [this]; exact hasDerivAt_const _ _
      · exact absurd h (fun h => unsupported_ne h hu)

/-- the variable ruleset on a terminal: the coefficient used as variable ↦ 1, every other terminal ↦ 0 -/
theorem node_term_v {label coeff : String} (d : TermData) : M1 (.variable label coeff) ρ (.term d) := by
  intro r _ hd ht h hu
  simp only [TermHyp, Still] at ht
  simp only [derivE, termRule] at h
  simp only [DOK, termOK, Bool.or_eq_true, bne_iff_ne, ne_eq, Bool.and_eq_true, beq_iff_eq, List.isEmpty_iff] at hd
  have stat : d.key ≠ coeff → ∀ side c, HasDerivAt (fun τ => eval (ρ τ) side (fun _ => 0) (.term d) c) 0 0 := by
    intro hk side c
    rw [if_neg hk] at ht
    have : (fun τ => eval (ρ τ) side (fun _ => 0) (.term d) c) = fun _ => eval (ρ 0) side (fun _ => 0) (.term d) c := by
      funext τ; simp only [eval, ht τ side c]
    rw [this]; exact hasDerivAt_const _ _
  have evι : ∀ τ side (ι : IdxEnv) c, eval (ρ τ) side ι (.term d) c = eval (ρ τ) side (fun _ => 0) (.term d) c := by
    intro τ side ι c; simp only [eval]
  have zero_case : d.key ≠ coeff → r = .zero d.shape [] →
      (WF r = true ∧ shape r = shape (.term d) ∧ fi r = fi (.term d)) ∧
      ∀ side ι c, c.length = (shape (.term d)).length → Smooth ρ side ι (.term d) c →
        HasDerivAt (fun τ => eval (ρ τ) side ι (.term d) c) (eval (ρ 0) side ι r c) 0 := by
    intro hk hr; subst hr
    refine ⟨⟨by simp [WF, sortedFI], by simp [shape], rfl⟩, fun side ι c _ _ => ?_⟩
    simp only [evι]; simpa [eval] using stat hk side c
  split at h
  · rename_i hl
    have hl' : d.cls = "Label" := by simpa using hl
    simp only [Option.some.injEq] at h; subst h
    refine ⟨⟨rfl, rfl, rfl⟩, fun side ι c _ _ => ?_⟩
    simp only [eval, hl']; simp only [String.reduceEq, ↓reduceIte]
    exact hasDerivAt_const _ _
  · rename_i hnl
    have hnl' : ¬ d.cls = "Label" := by simpa using hnl
    split at h
    · rename_i hc
      have hc' : d.cls = "Coefficient" := by simpa using hc
      have hni : ¬ d.cls = "Identity" := by rw [hc']; decide
      split at h
      · rename_i hkey
        simp only [Bool.and_eq_true, beq_iff_eq, List.isEmpty_iff] at hkey
        simp only [Option.some.injEq] at h; subst h
        rw [if_pos hkey.1] at ht
        refine ⟨⟨wlit1, by simp [lit1, shape, hkey.2], rfl⟩, fun side ι c _ _ => ?_⟩
        rw [elit1]
        simp only [eval, hni, hnl', ↓reduceIte]
        have : (fun τ => (ρ τ).term side d.key c) = fun τ => (ρ 0).term side d.key c + τ := funext fun τ => ht τ side c
        rw [this]
        simpa using (hasDerivAt_id (0 : ℝ)).const_add ((ρ 0).term side d.key c)
      · rename_i hkey
        simp only [Bool.and_eq_true, beq_iff_eq, List.isEmpty_iff, not_and] at hkey
        simp only [Option.some.injEq] at h
        refine zero_case ?_ h.symm
        intro hk
        rcases hd with hd | hd
        · exact hd hk
        · exact hkey hk hd.2
    · rename_i hc
      have hc' : ¬ d.cls = "Coefficient" := by simpa using hc
      split at h
      · simp only [Option.some.injEq] at h
        refine zero_case ?_ h.symm
        intro hk
        rcases hd with hd | hd
        · exact hd hk
        · exact hc' hd.1
      · exact absurd h (fun h => unsupported_ne h hu)

theorem node_term (d : TermData) : M1 m ρ (.term d) := by
  match m with
  | .gateaux wv => exact node_term_g d
  | .variable label coeff => exact node_term_v d

theorem node_variable (aux : List Nat) (a : Expr) (l : TermData) (iha : M1 m ρ a) : M1 m ρ (.op .variable aux [a, .term l]) := by
  match m, iha with
  | .gateaux wv, iha =>
    intro r hw hd ht h hu
    simp only [derivE] at h
    simp only [WF] at hw
    simp only [DOK, Bool.and_eq_true] at hd
    obtain ⟨hwf, der⟩ := iha r hw hd.1 ht h hu
    refine ⟨by simpa [shape, fi] using hwf, fun side ι c hc hs => ?_⟩
    simp only [shape] at hc
    simp only [Smooth] at hs
    simp only [eval]
    exact der side ι c hc hs
  | .variable label coeff, iha =>
    intro r hw hd ht h hu
    simp only [derivE] at h
    simp only [WF] at hw
    simp only [DOK, varOK, Bool.and_eq_true, Bool.or_eq_true, bne_iff_ne, ne_eq, List.isEmpty_iff] at hd
    simp only [TermHyp, Still] at ht
    obtain ⟨da, h1, u1, h2⟩ := bindU_some _ _ _ h hu
    by_cases hl : l.key = label
    · -- an occurrence of the differentiation variable: the value of its operand moves with unit speed
      rw [if_pos hl] at ht
      simp only [hl, beq_self_eq_true, ↓reduceIte] at h2
      split at h2
      · rename_i hsa
        have hsa' : shape a = [] := by simpa using hsa
        simp only [Option.some.injEq] at h2; subst h2
        have hfa : fi a = [] := by
          rcases hd.2 with h' | h'
          · exact absurd hl h'
          · exact h'
        refine ⟨⟨wlit1, by simp [lit1, shape, hsa'], by simp [lit1, fi, hfa]⟩, fun side ι c hc _ => ?_⟩
        simp only [shape, hsa', List.length_nil] at hc
        obtain rfl := len0 hc
        rw [elit1]
        simp only [eval]
        exact ht side ι
      · exact absurd h2 (fun h => unsupported_ne h hu)
    · rw [if_neg hl] at ht
      have hl' : (l.key == label) = false := by simpa using hl
      simp only [hl', Bool.false_eq_true, ↓reduceIte, Option.some.injEq] at h2
      subst h2
      obtain ⟨hwf, der⟩ := iha da hw hd.1 ht h1 u1
      refine ⟨by simpa [shape, fi] using hwf, fun side ι c hc hs => ?_⟩
      simp only [shape] at hc
      simp only [Smooth] at hs
      simp only [eval]
      exact der side ι c hc hs

include hfam in
theorem node_sum (aux : List Nat) (a b : Expr) (iha : M1 m ρ a) (ihb : M1 m ρ b) : M1 m ρ (.op .sum aux [a, b]) := by
  intro r hw hd ht h hu
  simp only [derivE] at h
  obtain ⟨da, db, h1, u1, h2, u2, h3⟩ := bind2_some _ _ _ _ h hu
  simp only [WF, Bool.and_eq_true, beq_iff_eq] at hw
  obtain ⟨⟨⟨wa, wb⟩, hs⟩, hf⟩ := hw
  simp only [DOK, DOKL, Bool.and_eq_true, and_true] at hd
  obtain ⟨⟨wda, sda, fda⟩, dera⟩ := iha da wa hd.1 (termHyp_sub m ρ _ _ _ (by decide) ht a (by simp)) h1 u1
  obtain ⟨⟨wdb, sdb, fdb⟩, derb⟩ := ihb db wb hd.2 (termHyp_sub m ρ _ _ _ (by decide) ht b (by simp)) h2 u2
  obtain ⟨w, s1, f1, ev⟩ := mkSum_ok (ρ 0) (lit0 hfam) wda wdb h3 hu
  refine ⟨⟨w, by rw [s1, sda]; simp [shape], by rw [f1, fda]; simp [fi]⟩, fun side ι c hc hs' => ?_⟩
  simp only [Smooth] at hs'
  simp only [shape] at hc
  simp only [eval]
  rw [ev]
  exact (dera side ι c hc hs'.1).fun_add (derb side ι c (by rw [← hs]; exact hc) hs'.2)

include hfam in
theorem node_product (aux : List Nat) (a b : Expr) (iha : M1 m ρ a) (ihb : M1 m ρ b) : M1 m ρ (.op .product aux [a, b]) := by
  intro r hw hd ht h hu
  simp only [derivE] at h
  obtain ⟨da, db, h1, u1, h2, u2, h3⟩ := bind2_some _ _ _ _ h hu
  simp only [WF, Bool.and_eq_true, List.isEmpty_iff] at hw
  obtain ⟨⟨⟨⟨wa, wb⟩, sa⟩, sb⟩, hdim⟩ := hw
  simp only [DOK, DOKL, Bool.and_eq_true, and_true] at hd
  obtain ⟨⟨wda, sda, fda⟩, dera⟩ := iha da wa hd.1 (termHyp_sub m ρ _ _ _ (by decide) ht a (by simp)) h1 u1
  obtain ⟨⟨wdb, sdb, fdb⟩, derb⟩ := ihb db wb hd.2 (termHyp_sub m ρ _ _ _ (by decide) ht b (by simp)) h2 u2
  obtain ⟨w, s1, f1, ev⟩ := productRule_ok (ρ 0) (lit0 hfam) wa wb sa sb hdim wda (by rw [sda, sa]) fda wdb (by rw [sdb, sb]) fdb h3 hu
  refine ⟨⟨w, by rw [s1]; simp [shape], by rw [f1]; simp [fi]⟩, fun side ι c hc hs' => ?_⟩
  simp only [Smooth] at hs'
  simp only [shape, List.length_nil] at hc
  obtain rfl := len0 hc
  simp only [eval]
  rw [ev]
  exact (dera side ι [] (by simp [sa]) hs'.1).fun_mul (derb side ι [] (by simp [sb]) hs'.2)

include hfam in
theorem node_division (aux : List Nat) (f g : Expr) (ihf : M1 m ρ f) (ihg : M1 m ρ g) : M1 m ρ (.op .division aux [f, g]) := by
  intro r hw hd ht h hu
  simp only [derivE] at h
  obtain ⟨fp, gp, h1, u1, h2, u2, h3⟩ := bind2_some _ _ _ _ h hu
  simp only [WF, Bool.and_eq_true, List.isEmpty_iff] at hw
  obtain ⟨⟨⟨wf, wg⟩, sf⟩, tsg⟩ := hw
  have tg := ts_of wg tsg
  simp only [DOK, DOKL, Bool.and_eq_true, and_true] at hd
  obtain ⟨⟨wfp, sfp, ffp⟩, derf⟩ := ihf fp wf hd.1 (termHyp_sub m ρ _ _ _ (by decide) ht f (by simp)) h1 u1
  obtain ⟨⟨wgp, sgp, fgp⟩, derg⟩ := ihg gp wg hd.2 (termHyp_sub m ρ _ _ _ (by decide) ht g (by simp)) h2 u2
  have tgp : TS gp := ⟨wgp, by rw [sgp, tg.2.1], by rw [fgp, tg.2.2]⟩
  obtain ⟨w, s1, f1, ev⟩ := divisionRule_ok (ρ 0) (lit0 hfam) wf sf tg wfp (by rw [sfp, sf]) ffp tgp h3 hu
  refine ⟨⟨w, by rw [s1]; simp [shape], by rw [f1]; simp [fi]⟩, fun side ι c hc hs' => ?_⟩
  simp only [Smooth] at hs'
  simp only [shape, List.length_nil] at hc
  obtain rfl := len0 hc
  obtain ⟨s1', s2', hne⟩ := hs'
  simp only [eval]
  rw [ev]
  have := (derf side ι [] (by simp [sf]) s1').fun_div (derg side ι [] (by simp [tg.2.1]) s2') hne
  have e : ∀ A B G C : ℝ, G ≠ 0 → (A - B / G * C) / G = (A * G - B * C) / G ^ 2 := by
    intro A B G C hG; field_simp
  rw [e _ _ _ _ hne]
  exact this

end main

end UflVerif.C02
