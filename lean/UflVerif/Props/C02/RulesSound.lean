import UflVerif.Props.C02.Tools

/-!
C02 (composition) — what each rule of the modelled `GenericDerivativeRuleset` returns: well-formedness,
shape, free indices and the VALUE of the built tree in terms of the values of the operands and of the
operand derivatives (for any valuation satisfying `LitSem`; the analytic meaning is added in Compose.lean).
-/
namespace UflVerif.C02
open UflVerif Expr C05 FIlemmas

section rules
variable (ρ : Env ℝ) (hρ : LitSem ρ)

theorem bind2_some (x y : Option Expr) (f : Expr → Expr → Option Expr) (r : Expr) (h : bind2 x y f = some r)
    (hu : isUnsupported r = false) :
    ∃ a b, x = some a ∧ isUnsupported a = false ∧ y = some b ∧ isUnsupported b = false ∧ f a b = some r := by
  unfold bind2 at h
  obtain ⟨a, h1, u1, h2⟩ := bindU_some _ _ _ h hu
  obtain ⟨b, h3, u3, h4⟩ := bindU_some _ _ _ h2 hu
  exact ⟨a, b, h1, u1, h3, u3, h4⟩

theorem unsupported_ne {r : Expr} (h : some unsupported = some r) (hu : isUnsupported r = false) : False := by
  simp only [Option.some.injEq] at h; subst h; simp [isUnsupported, unsupported] at hu

include hρ

theorem productRule_ok {a b da db r : Expr} (wa : WF a = true) (wb : WF b = true) (sa : shape a = []) (sb : shape b = [])
    (hd : dimsAgree (fi a) (fi b) = true)
    (wda : WF da = true) (sda : shape da = []) (fda : fi da = fi a)
    (wdb : WF db = true) (sdb : shape db = []) (fdb : fi db = fi b)
    (h : productRule a b da db = some r) (hu : isUnsupported r = false) :
    WF r = true ∧ shape r = [] ∧ fi r = FI.merge (fi a) (fi b) ∧
    ∀ s ι, eval ρ s ι r [] = eval ρ s ι da [] * eval ρ s ι b [] + eval ρ s ι a [] * eval ρ s ι db [] := by
  unfold productRule at h
  simp only [sda, sdb, List.isEmpty_nil, Bool.not_true, Bool.or_self, Bool.false_eq_true, ↓reduceIte] at h
  obtain ⟨p1, p2, h1, u1, h2, u2, h3⟩ := bind2_some _ _ _ _ h hu
  obtain ⟨w1, s1, f1, e1⟩ := mkProduct_ok ρ hρ wda wb sda sb (by rw [fda]; exact hd) h1 u1
  obtain ⟨w2, s2, f2, e2⟩ := mkProduct_ok ρ hρ wa wdb sa sdb (by rw [fdb]; exact hd) h2 u2
  obtain ⟨w, s3, f3, e3⟩ := mkSum_ok ρ hρ w1 w2 h3 hu
  refine ⟨w, by rw [s3, s1], by rw [f3, f1, fda], fun s ι => ?_⟩
  rw [e3, e1, e2]

theorem divisionRule_ok {aux : List Nat} {f g fp gp r : Expr} (wf : WF f = true) (sf : shape f = []) (tg : TS g)
    (wfp : WF fp = true) (sfp : shape fp = []) (ffp : fi fp = fi f) (tgp : TS gp)
    (h : divisionRule (.op .division aux [f, g]) f g fp gp = some r) (hu : isUnsupported r = false) :
    WF r = true ∧ shape r = [] ∧ fi r = fi f ∧
    ∀ s ι, eval ρ s ι r [] = (eval ρ s ι fp [] - eval ρ s ι f [] / eval ρ s ι g [] * eval ρ s ι gp []) / eval ρ s ι g [] := by
  unfold divisionRule at h
  simp only [sf, tg.ts, tgp.2.1, List.isEmpty_nil, Bool.not_true, Bool.false_eq_true, ↓reduceIte] at h
  obtain ⟨ogp, h1, u1, h2⟩ := bindU_some _ _ _ h hu
  obtain ⟨num, h3, u3, h4⟩ := bindU_some _ _ _ h2 hu
  have wo : WF (.op .division aux [f, g]) = true := by simp [WF, wf, tg.1, sf, tg.ts]
  obtain ⟨_, _, w1, s1, f1, e1⟩ := mkMult_ok ρ hρ wo tgp.1 h1 u1
  obtain ⟨w2, s2, f2, e2⟩ := mkSub_ok ρ hρ wfp w1 s1 h3 u3
  obtain ⟨w3, s3, f3, e3⟩ := mkDivision_ok ρ hρ w2 tg h4 hu
  refine ⟨w3, s3, by rw [f3, f2, ffp], fun s ι => ?_⟩
  rw [e3, e2, e1]; simp [eval]

theorem powerRule_ok {f g fp gp r : Expr} (tf : TS f) (tg : TS g) (tfp : TS fp) (tgp : TS gp) (hz : isZero f = false)
    (h : powerRule f g fp gp = some r) (hu : isUnsupported r = false) :
    TS r ∧ ∀ s ι, eval ρ s ι r [] =
      if isZero gp = true then eval ρ s ι fp [] * eval ρ s ι g [] * ρ.fn2 "Power" (eval ρ s ι f []) (eval ρ s ι g [] + -1)
      else ρ.fn2 "Power" (eval ρ s ι f []) (eval ρ s ι g [] + -1) *
        (eval ρ s ι g [] * eval ρ s ι fp [] + eval ρ s ι f [] * ρ.fn "Ln" (eval ρ s ι f []) * eval ρ s ι gp []) := by
  unfold powerRule at h
  simp only [tf.ts, tg.ts, Bool.not_true, Bool.or_self, Bool.false_eq_true, ↓reduceIte] at h
  have psc : ∀ x, powSC f x = true := by intro x; simp [powSC, hz]
  have em1 : ∀ s ι, eval ρ s ι (.int (-1)) [] = -1 := by intro s ι; simp [eval]
  split at h
  · rename_i hgz
    obtain ⟨fpg, h1, u1, h2⟩ := bindU_some _ _ _ h hu
    obtain ⟨gm1, h3, u3, h4⟩ := bindU_some _ _ _ h2 hu
    obtain ⟨pw, h5, u5, h6⟩ := bindU_some _ _ _ h4 hu
    obtain ⟨_, _, w1, s1, f1, e1⟩ := mkMult_ok ρ hρ tfp.1 tg.1 h1 u1
    obtain ⟨w2, s2, f2, e2⟩ := mkSum_ok ρ hρ tg.1 (b := .int (-1)) (by simp [WF]) h3 u3
    have t2 : TS gm1 := ⟨w2, by rw [s2, tg.2.1], by rw [f2, tg.2.2]⟩
    obtain ⟨t3, e3⟩ := mkPower_ok ρ hρ tf t2 (psc _) h5 u5
    obtain ⟨_, _, w4, s4, f4, e4⟩ := mkMult_ok ρ hρ w1 t3.1 h6 hu
    refine ⟨⟨w4, s4, by rw [f4, f1, tfp.2.2, tg.2.2, t3.2.2]; rfl⟩, fun s ι => ?_⟩
    rw [if_pos hgz, e4, e1, e3, e2, em1]
  · rename_i hgz
    obtain ⟨gm1, h3, u3, h4⟩ := bindU_some _ _ _ h hu
    obtain ⟨pw, h5, u5, h6⟩ := bindU_some _ _ _ h4 hu
    obtain ⟨gfp, h7, u7, h8⟩ := bindU_some _ _ _ h6 hu
    obtain ⟨lnf, h9, u9, h10⟩ := bindU_some _ _ _ h8 hu
    obtain ⟨flnf, h11, u11, h12⟩ := bindU_some _ _ _ h10 hu
    obtain ⟨t2', h13, u13, h14⟩ := bindU_some _ _ _ h12 hu
    obtain ⟨sm, h15, u15, h16⟩ := bindU_some _ _ _ h14 hu
    obtain ⟨w2, s2, f2, e2⟩ := mkSum_ok ρ hρ tg.1 (b := .int (-1)) (by simp [WF]) h3 u3
    have t2 : TS gm1 := ⟨w2, by rw [s2, tg.2.1], by rw [f2, tg.2.2]⟩
    obtain ⟨t3, e3⟩ := mkPower_ok ρ hρ tf t2 (psc _) h5 u5
    obtain ⟨_, _, w4, s4, f4, e4⟩ := mkMult_ok ρ hρ tg.1 tfp.1 h7 u7
    obtain ⟨_, t5, e5⟩ := mkMath_ok ρ (k := .ln) (n := "Ln") rfl tf.1 h9 u9
    obtain ⟨_, _, w6, s6, f6, e6⟩ := mkMult_ok ρ hρ tf.1 t5.1 h11 u11
    obtain ⟨_, _, w7, s7, f7, e7⟩ := mkMult_ok ρ hρ w6 tgp.1 h13 u13
    obtain ⟨w8, s8, f8, e8⟩ := mkSum_ok ρ hρ w4 w7 h15 u15
    obtain ⟨_, _, w9, s9, f9, e9⟩ := mkMult_ok ρ hρ t3.1 w8 h16 hu
    refine ⟨⟨w9, s9, by rw [f9, f8, f4, t3.2.2, tg.2.2, tfp.2.2]; rfl⟩, fun s ι => ?_⟩
    rw [if_neg hgz, e9, e3, e8, e4, e7, e6, e5, e2, em1]


omit hρ in
theorem wf_zero0 : WF (.zero [] []) = true := by simp [WF, sortedFI]

/-- `sign(x)` for a well-formed true scalar x -/
theorem mkSign_ok {x r : Expr} (tx : TS x) (h : mkSign x = some r) (hu : isUnsupported r = false) :
    TS r ∧ ∀ s ι, eval ρ s ι r [] = if ρ.eq (eval ρ s ι x []) 0 = true then 0 else if ρ.lt (eval ρ s ι x []) 0 = true then -1 else 1 := by
  unfold mkSign at h
  obtain ⟨ceq, h1, u1, h2⟩ := bindU_some _ _ _ h hu
  obtain ⟨clt, h3, u3, h4⟩ := bindU_some _ _ _ h2 hu
  obtain ⟨inner, h5, u5, h6⟩ := bindU_some _ _ _ h4 hu
  have tz : trueScalar (.zero [] []) = true := by simp [trueScalar, shape, fi]
  simp only [mkCondition, Option.some.injEq] at h1
  simp only [mkCondition, tx.ts, tz, Bool.and_self, ↓reduceIte, Option.some.injEq] at h3
  subst h1; subst h3
  have wc1 : WFC (.op .lT [] [x, .zero [] []]) = true := by simp [WFC, tx.1, wf_zero0, tx.ts, tz]
  have wc2 : WFC (.op .eQ [] [x, .zero [] []]) = true := by simp [WFC, tx.1, wf_zero0, tx.ts, tz]
  have wi : WF (.op .conditional [] [.op .lT [] [x, .zero [] []], .int (-1), .int 1]) = true := by
    simp [WF, wc1, shape, fi]
  obtain ⟨w5, s5, f5⟩ := mkConditional_wf _ _ _ _ [] wi h5
  have e5 := fun s ι => C05_mkConditional ρ s ι _ _ _ _ h5 []
  have wo : WF (.op .conditional [] [.op .eQ [] [x, .zero [] []], .zero [] [], inner]) = true := by
    simp [WF, wc2, sortedFI, w5, s5, f5, shape, fi]
  obtain ⟨w6, s6, f6⟩ := mkConditional_wf _ _ _ _ [] wo h6
  have e6 := fun s ι => C05_mkConditional ρ s ι _ _ _ _ h6 []
  refine ⟨⟨w6, by rw [s6]; rfl, by rw [f6]; rfl⟩, fun s ι => ?_⟩
  rw [e6, e5]
  simp [evalB, eval]

/-- `Abs`: the success of the rule implies the operand is a true scalar -/
theorem absRule_ok {f df r : Expr} (wf : WF f = true) (wdf : WF df = true) (sdf : shape df = shape f) (fdf : fi df = fi f)
    (h : absRule f df = some r) (hu : isUnsupported r = false) :
    TS f ∧ TS r ∧ ∀ s ι, eval ρ s ι r [] =
      (if ρ.eq (ρ.re (eval ρ s ι f [])) 0 = true then 0 else if ρ.lt (ρ.re (eval ρ s ι f [])) 0 = true then -1 else 1) * eval ρ s ι df [] := by
  unfold absRule at h
  obtain ⟨rf, h1, u1, h2⟩ := bindU_some _ _ _ h hu
  obtain ⟨sg, h3, u3, h4⟩ := bindU_some _ _ _ h2 hu
  obtain ⟨w1, s1, f1⟩ := mkReal_wf f rf wf h1 u1
  have e1 := fun s ι => C05_mkReal ρ hρ s ι f rf h1 u1 []
  -- the comparison inside `sign` requires a true scalar
  have trf : trueScalar rf = true := by
    unfold mkSign at h3
    obtain ⟨ceq, h5, u5, h6⟩ := bindU_some _ _ _ h3 u3
    obtain ⟨clt, h7, u7, h8⟩ := bindU_some _ _ _ h6 u3
    simp only [mkCondition] at h7
    split at h7
    · rename_i hts; simp only [Bool.and_eq_true] at hts; exact hts.1
    · cases h7
  have tsrf := ts_of w1 trf
  have tf : TS f := ⟨wf, by rw [← s1]; exact tsrf.2.1, by rw [← f1]; exact tsrf.2.2⟩
  obtain ⟨t3, e3⟩ := mkSign_ok ρ hρ tsrf h3 u3
  obtain ⟨_, _, w4, s4, f4, e4⟩ := mkMult_ok ρ hρ t3.1 wdf h4 hu
  refine ⟨tf, ⟨w4, s4, by rw [f4, t3.2.2, fdf, tf.2.2]; rfl⟩, fun s ι => ?_⟩
  rw [e4, e3, e1]

omit hρ in
theorem elit1 (s : Side) (ι : IdxEnv) (c : List Nat) : eval ρ s ι lit1 c = 1 := by simp [lit1, eval]
omit hρ in
theorem elit2 (s : Side) (ι : IdxEnv) (c : List Nat) : eval ρ s ι lit2 c = 2 := by simp [lit2, eval]
omit hρ in
theorem wlit1 : WF lit1 = true := by simp [lit1, WF]
omit hρ in
theorem wlit2 : WF lit2 = true := by simp [lit2, WF]
omit hρ in
theorem tlit1 : TS lit1 := ⟨wlit1, rfl, rfl⟩
omit hρ in
theorem tlit2 : TS lit2 := ⟨wlit2, rfl, rfl⟩

theorem ts_mult {a b r : Expr} (ta : TS a) (tb : TS b) (h : mkMult a b = some r) (hu : isUnsupported r = false) :
    TS r ∧ ∀ s ι, eval ρ s ι r [] = eval ρ s ι a [] * eval ρ s ι b [] := by
  obtain ⟨_, _, w, s1, f1, e⟩ := mkMult_ok ρ hρ ta.1 tb.1 h hu
  exact ⟨⟨w, s1, by rw [f1, ta.2.2, tb.2.2]; rfl⟩, e⟩

theorem ts_sum {a b r : Expr} (ta : TS a) (tb : TS b) (h : mkSum a b = some r) (hu : isUnsupported r = false) :
    TS r ∧ ∀ s ι, eval ρ s ι r [] = eval ρ s ι a [] + eval ρ s ι b [] := by
  obtain ⟨w, s1, f1, e⟩ := mkSum_ok ρ hρ ta.1 tb.1 h hu
  exact ⟨⟨w, by rw [s1, ta.2.1], by rw [f1, ta.2.2]⟩, fun s ι => e s ι []⟩

theorem ts_sub {a b r : Expr} (ta : TS a) (tb : TS b) (h : mkSub a b = some r) (hu : isUnsupported r = false) :
    TS r ∧ ∀ s ι, eval ρ s ι r [] = eval ρ s ι a [] - eval ρ s ι b [] := by
  obtain ⟨w, s1, f1, e⟩ := mkSub_ok ρ hρ ta.1 tb.1 tb.2.1 h hu
  exact ⟨⟨w, by rw [s1, ta.2.1], by rw [f1, ta.2.2]⟩, e⟩

theorem ts_div {a b r : Expr} (ta : TS a) (tb : TS b) (h : mkDivision a b = some r) (hu : isUnsupported r = false) :
    TS r ∧ ∀ s ι, eval ρ s ι r [] = eval ρ s ι a [] / eval ρ s ι b [] := by
  obtain ⟨w, s1, f1, e⟩ := mkDivision_ok ρ hρ ta.1 tb h hu
  exact ⟨⟨w, s1, by rw [f1, ta.2.2]⟩, e⟩

theorem ts_neg {a r : Expr} (ta : TS a) (h : mkNeg a = some r) (hu : isUnsupported r = false) :
    TS r ∧ ∀ s ι, eval ρ s ι r [] = - eval ρ s ι a [] := by
  obtain ⟨w, s1, f1, e⟩ := mkNeg_ok ρ hρ ta.1 ta.2.1 h hu
  exact ⟨⟨w, s1, by rw [f1, ta.2.2]⟩, e⟩

omit hρ in
theorem ts_math {k : Op} {n : String} (hk : mathName k = some n) {a r : Expr} (ta : TS a)
    (h : mkMath k a = some r) (hu : isUnsupported r = false) :
    TS r ∧ ∀ s ι, eval ρ s ι r [] = ρ.fn n (eval ρ s ι a []) := (mkMath_ok ρ hk ta.1 h hu).2

theorem ts_pow2 {a r : Expr} (ta : TS a) (h : mkPower a (.int 2) = some r) (hu : isUnsupported r = false) :
    TS r ∧ ∀ s ι, eval ρ s ι r [] = ρ.fn2 "Power" (eval ρ s ι a []) 2 := by
  obtain ⟨t, e⟩ := mkPower_ok ρ hρ ta (b := .int 2) ⟨by simp [WF], rfl, rfl⟩ (by simp [powSC, litVal]) h hu
  exact ⟨t, fun s ι => by rw [e]; simp [eval]⟩

/-- `(2.0 * cosh(y)) / (cosh(2.0 * y) + 1.0)` -/
theorem mkSech_ok {y r : Expr} (ty : TS y) (h : mkSech y = some r) (hu : isUnsupported r = false) :
    TS r ∧ ∀ s ι, eval ρ s ι r [] = (2 * ρ.fn "Cosh" (eval ρ s ι y [])) / (ρ.fn "Cosh" (2 * eval ρ s ι y []) + 1) := by
  unfold mkSech at h
  obtain ⟨ch, h1, u1, h2⟩ := bindU_some _ _ _ h hu
  obtain ⟨num, h3, u3, h4⟩ := bindU_some _ _ _ h2 hu
  obtain ⟨y2, h5, u5, h6⟩ := bindU_some _ _ _ h4 hu
  obtain ⟨ch2, h7, u7, h8⟩ := bindU_some _ _ _ h6 hu
  obtain ⟨den, h9, u9, h10⟩ := bindU_some _ _ _ h8 hu
  obtain ⟨t1, e1⟩ := ts_math ρ (k := .cosh) (n := "Cosh") rfl ty h1 u1
  obtain ⟨t3, e3⟩ := ts_mult ρ hρ tlit2 t1 h3 u3
  obtain ⟨t5, e5⟩ := ts_mult ρ hρ tlit2 ty h5 u5
  obtain ⟨t7, e7⟩ := ts_math ρ (k := .cosh) (n := "Cosh") rfl t5 h7 u7
  obtain ⟨t9, e9⟩ := ts_sum ρ hρ t7 tlit1 h9 u9
  obtain ⟨t10, e10⟩ := ts_div ρ hρ t3 t9 h10 hu
  refine ⟨t10, fun s ι => ?_⟩
  rw [e10, e3, e9, e7, e5, e1, elit1, elit2]

/-- `sqrt(1.0 - f**2)` -/
theorem mkSqrt1mSq_ok {f r : Expr} (tf : TS f) (h : mkSqrt1mSq f = some r) (hu : isUnsupported r = false) :
    TS r ∧ ∀ s ι, eval ρ s ι r [] = ρ.fn "Sqrt" (1 - ρ.fn2 "Power" (eval ρ s ι f []) 2) := by
  unfold mkSqrt1mSq at h
  obtain ⟨f2, h1, u1, h2⟩ := bindU_some _ _ _ h hu
  obtain ⟨d, h3, u3, h4⟩ := bindU_some _ _ _ h2 hu
  obtain ⟨t1, e1⟩ := ts_pow2 ρ hρ tf h1 u1
  obtain ⟨t3, e3⟩ := ts_sub ρ hρ tlit1 t1 h3 u3
  obtain ⟨t4, e4⟩ := ts_math ρ (k := .sqrt) (n := "Sqrt") rfl t3 h4 hu
  refine ⟨t4, fun s ι => ?_⟩
  rw [e4, e3, e1, elit1]

/-- values of the math-function rules; `o = k(f)` is the node itself -/
theorem mathRule_ok {k : Op} {n : String} (hk : mathName k = some n) {aux : List Nat} {f fp r : Expr} (tf : TS f) (tfp : TS fp)
    (h : mathRule k (.op k aux [f]) f fp = some r) (hu : isUnsupported r = false) :
    TS r ∧ ∀ s ι, eval ρ s ι r [] =
      let F := eval ρ s ι f []
      let F' := eval ρ s ι fp []
      match k with
      | .sqrt => F' / (2 * ρ.fn "Sqrt" F)
      | .exp => F' * ρ.fn "Exp" F
      | .ln => F' / F
      | .cos => F' * (- ρ.fn "Sin" F)
      | .sin => F' * ρ.fn "Cos" F
      | .tan => (2 * F') / (ρ.fn "Cos" (2 * F) + 1)
      | .cosh => F' * ρ.fn "Sinh" F
      | .sinh => F' * ρ.fn "Cosh" F
      | .tanh => F' * ρ.fn2 "Power" ((2 * ρ.fn "Cosh" F) / (ρ.fn "Cosh" (2 * F) + 1)) 2
      | .acos => (- F') / ρ.fn "Sqrt" (1 - ρ.fn2 "Power" F 2)
      | .asin => F' / ρ.fn "Sqrt" (1 - ρ.fn2 "Power" F 2)
      | .atan => F' / (1 + ρ.fn2 "Power" F 2)
      | _ => 0 := by
  have wo : WF (.op k aux [f]) = true := by cases k <;> simp_all [WF, mathName, tf.1, tf.ts]
  have so : shape (.op k aux [f]) = [] := by cases k <;> simp_all [shape, mathName]
  have fo : fi (.op k aux [f]) = [] := by cases k <;> simp_all [fi, mathName, tf.2.2]
  have tO : TS (.op k aux [f]) := ⟨wo, so, fo⟩
  have eo : ∀ s ι, eval ρ s ι (.op k aux [f]) [] = ρ.fn n (eval ρ s ι f []) := by
    intro s ι; cases k <;> simp_all [eval, mathName]
  cases k <;> simp only [mathName, reduceCtorEq, Option.some.injEq] at hk <;> subst hk <;> simp only [mathRule] at h
  · -- sqrt
    obtain ⟨d, h1, u1, h2⟩ := bindU_some _ _ _ h hu
    obtain ⟨t1, e1⟩ := ts_mult ρ hρ (a := .int 2) ⟨by simp [WF], rfl, rfl⟩ tO h1 u1
    obtain ⟨t2, e2⟩ := ts_div ρ hρ tfp t1 h2 hu
    refine ⟨t2, fun s ι => ?_⟩
    simp only; rw [e2, e1, eo]; simp [eval]
  · -- exp
    obtain ⟨t1, e1⟩ := ts_mult ρ hρ tfp tO h hu
    exact ⟨t1, fun s ι => by simp only; rw [e1, eo]⟩
  · -- ln
    split at h
    · cases h
    · obtain ⟨t1, e1⟩ := ts_div ρ hρ tfp tf h hu
      exact ⟨t1, fun s ι => by simp only; rw [e1]⟩
  · -- cos
    obtain ⟨sn, h1, u1, h2⟩ := bindU_some _ _ _ h hu
    obtain ⟨ns, h3, u3, h4⟩ := bindU_some _ _ _ h2 hu
    obtain ⟨t1, e1⟩ := ts_math ρ (k := .sin) (n := "Sin") rfl tf h1 u1
    obtain ⟨t3, e3⟩ := ts_neg ρ hρ t1 h3 u3
    obtain ⟨t4, e4⟩ := ts_mult ρ hρ tfp t3 h4 hu
    exact ⟨t4, fun s ι => by simp only; rw [e4, e3, e1]⟩
  · -- sin
    obtain ⟨c, h1, u1, h2⟩ := bindU_some _ _ _ h hu
    obtain ⟨t1, e1⟩ := ts_math ρ (k := .cos) (n := "Cos") rfl tf h1 u1
    obtain ⟨t2, e2⟩ := ts_mult ρ hρ tfp t1 h2 hu
    exact ⟨t2, fun s ι => by simp only; rw [e2, e1]⟩
  · -- tan
    obtain ⟨num, h1, u1, h2⟩ := bindU_some _ _ _ h hu
    obtain ⟨f2, h3, u3, h4⟩ := bindU_some _ _ _ h2 hu
    obtain ⟨c, h5, u5, h6⟩ := bindU_some _ _ _ h4 hu
    obtain ⟨den, h7, u7, h8⟩ := bindU_some _ _ _ h6 hu
    obtain ⟨t1, e1⟩ := ts_mult ρ hρ tlit2 tfp h1 u1
    obtain ⟨t3, e3⟩ := ts_mult ρ hρ tlit2 tf h3 u3
    obtain ⟨t5, e5⟩ := ts_math ρ (k := .cos) (n := "Cos") rfl t3 h5 u5
    obtain ⟨t7, e7⟩ := ts_sum ρ hρ t5 tlit1 h7 u7
    obtain ⟨t8, e8⟩ := ts_div ρ hρ t1 t7 h8 hu
    exact ⟨t8, fun s ι => by simp only; rw [e8, e1, e7, e5, e3, elit1, elit2]⟩
  · -- cosh
    obtain ⟨c, h1, u1, h2⟩ := bindU_some _ _ _ h hu
    obtain ⟨t1, e1⟩ := ts_math ρ (k := .sinh) (n := "Sinh") rfl tf h1 u1
    obtain ⟨t2, e2⟩ := ts_mult ρ hρ tfp t1 h2 hu
    exact ⟨t2, fun s ι => by simp only; rw [e2, e1]⟩
  · -- sinh
    obtain ⟨c, h1, u1, h2⟩ := bindU_some _ _ _ h hu
    obtain ⟨t1, e1⟩ := ts_math ρ (k := .cosh) (n := "Cosh") rfl tf h1 u1
    obtain ⟨t2, e2⟩ := ts_mult ρ hρ tfp t1 h2 hu
    exact ⟨t2, fun s ι => by simp only; rw [e2, e1]⟩
  · -- tanh
    obtain ⟨sc, h1, u1, h2⟩ := bindU_some _ _ _ h hu
    obtain ⟨s2, h3, u3, h4⟩ := bindU_some _ _ _ h2 hu
    obtain ⟨t1, e1⟩ := mkSech_ok ρ hρ tf h1 u1
    obtain ⟨t3, e3⟩ := ts_pow2 ρ hρ t1 h3 u3
    obtain ⟨t4, e4⟩ := ts_mult ρ hρ tfp t3 h4 hu
    exact ⟨t4, fun s ι => by simp only; rw [e4, e3, e1]⟩
  · -- acos
    obtain ⟨nfp, h1, u1, h2⟩ := bindU_some _ _ _ h hu
    obtain ⟨d, h3, u3, h4⟩ := bindU_some _ _ _ h2 hu
    obtain ⟨t1, e1⟩ := ts_neg ρ hρ tfp h1 u1
    obtain ⟨t3, e3⟩ := mkSqrt1mSq_ok ρ hρ tf h3 u3
    obtain ⟨t4, e4⟩ := ts_div ρ hρ t1 t3 h4 hu
    exact ⟨t4, fun s ι => by simp only; rw [e4, e3, e1]⟩
  · -- asin
    obtain ⟨d, h3, u3, h4⟩ := bindU_some _ _ _ h hu
    obtain ⟨t3, e3⟩ := mkSqrt1mSq_ok ρ hρ tf h3 u3
    obtain ⟨t4, e4⟩ := ts_div ρ hρ tfp t3 h4 hu
    exact ⟨t4, fun s ι => by simp only; rw [e4, e3]⟩
  · -- atan
    obtain ⟨f2, h1, u1, h2⟩ := bindU_some _ _ _ h hu
    obtain ⟨d, h3, u3, h4⟩ := bindU_some _ _ _ h2 hu
    obtain ⟨t1, e1⟩ := ts_pow2 ρ hρ tf h1 u1
    obtain ⟨t3, e3⟩ := ts_sum ρ hρ tlit1 t1 h3 u3
    obtain ⟨t4, e4⟩ := ts_div ρ hρ tfp t3 h4 hu
    exact ⟨t4, fun s ι => by simp only; rw [e4, e3, e1, elit1]⟩
  · -- erf
    exact absurd h (fun h => unsupported_ne h hu)

/-- `MinValue` / `MaxValue` -/
theorem minMaxRule_ok {k : Op} (hk : k = .minValue ∨ k = .maxValue) {f g df dg r : Expr} (tf : TS f) (tg : TS g) (tdf : TS df) (tdg : TS dg)
    (h : minMaxRule k f g df dg = some r) (hu : isUnsupported r = false) :
    TS r ∧ ∀ s ι, eval ρ s ι r [] =
      (if evalB ρ s ι (.op (if k = .maxValue then .gT else .lT) [] [f, g]) = true then 1 else 0) * eval ρ s ι df [] +
      (1 - (if evalB ρ s ι (.op (if k = .maxValue then .gT else .lT) [] [f, g]) = true then 1 else 0)) * eval ρ s ι dg [] := by
  have key : ∀ (kc : Op), (kc = .gT ∨ kc = .lT) →
      (bindU (mkCondition kc f g) fun c =>
        bindU (mkConditional c (.int 1) (.zero [] [])) fun dc =>
        bindU (mkMult dc df) fun t1 =>
        bindU (mkSub lit1 dc) fun omdc =>
        bindU (mkMult omdc dg) fun t2 => mkSum t1 t2) = some r →
      TS r ∧ ∀ s ι, eval ρ s ι r [] =
        (if evalB ρ s ι (.op kc [] [f, g]) = true then 1 else 0) * eval ρ s ι df [] +
        (1 - (if evalB ρ s ι (.op kc [] [f, g]) = true then 1 else 0)) * eval ρ s ι dg [] := by
    intro kc hkc h
    obtain ⟨c, h1, u1, h2⟩ := bindU_some _ _ _ h hu
    obtain ⟨dc, h3, u3, h4⟩ := bindU_some _ _ _ h2 hu
    obtain ⟨t1, h5, u5, h6⟩ := bindU_some _ _ _ h4 hu
    obtain ⟨omdc, h7, u7, h8⟩ := bindU_some _ _ _ h6 hu
    obtain ⟨t2, h9, u9, h10⟩ := bindU_some _ _ _ h8 hu
    have hc : c = .op kc [] [f, g] := by
      rcases hkc with rfl | rfl <;> simp [mkCondition, tf.ts, tg.ts] at h1 <;> exact h1.symm
    subst hc
    have wc : WFC (.op kc [] [f, g]) = true := by
      rcases hkc with rfl | rfl <;> simp [WFC, tf.1, tg.1, tf.ts, tg.ts]
    have wdc : WF (.op .conditional [] [.op kc [] [f, g], .int 1, .zero [] []]) = true := by
      simp [WF, wc, sortedFI, shape, fi]
    obtain ⟨w3, s3, f3⟩ := mkConditional_wf _ _ _ _ [] wdc h3
    have e3 := fun s ι => C05_mkConditional ρ s ι _ _ _ _ h3 []
    have tdc : TS dc := ⟨w3, by rw [s3]; rfl, by rw [f3]; rfl⟩
    obtain ⟨tt1, e5⟩ := ts_mult ρ hρ tdc tdf h5 u5
    obtain ⟨tom, e7⟩ := ts_sub ρ hρ tlit1 tdc h7 u7
    obtain ⟨tt2, e9⟩ := ts_mult ρ hρ tom tdg h9 u9
    obtain ⟨tr, e10⟩ := ts_sum ρ hρ tt1 tt2 h10 hu
    refine ⟨tr, fun s ι => ?_⟩
    rw [e10, e5, e9, e7, e3, elit1]
    simp [eval]
  unfold minMaxRule at h
  rcases hk with rfl | rfl
  · exact key .lT (Or.inr rfl) (by simpa using h)
  · exact key .gT (Or.inl rfl) (by simpa using h)


omit hρ in
theorem conditionalRule_ok {c dt df r : Expr} (wc : WFC c = true) (wdt : WF dt = true) (wdf : WF df = true)
    (hs : shape dt = shape df) (hf : fi dt = fi df)
    (h : conditionalRule c dt df = some r) :
    WF r = true ∧ shape r = shape dt ∧ fi r = fi dt ∧
    ∀ s ι cc, eval ρ s ι r cc = if evalB ρ s ι c = true then eval ρ s ι dt cc else eval ρ s ι df cc := by
  unfold conditionalRule at h
  split at h
  · rename_i hz
    simp only [Bool.and_eq_true] at hz
    simp only [Option.some.injEq] at h; subst h
    refine ⟨wdt, rfl, rfl, fun s ι cc => ?_⟩
    rw [eval_zero ρ s ι _ hz.1, eval_zero ρ s ι _ hz.2]; simp
  · have wp : WF (.op .conditional [] [c, dt, df]) = true := by simp [WF, wc, wdt, wdf, hs, hf]
    obtain ⟨w, s1, f1⟩ := mkConditional_wf _ _ _ _ [] wp h
    exact ⟨w, s1, f1, fun s ι cc => C05_mkConditional ρ s ι _ _ _ _ h cc⟩

theorem indexedRule_ok {aux : List Nat} {a ap r : Expr} {is : List Idx} (wo : WF (.op .indexed aux [a, .mi is]) = true)
    (wap : WF ap = true) (sap : shape ap = shape a) (fap : fi ap = fi a) (hy : Hyg ap = true)
    (h : indexedRule (.op .indexed aux [a, .mi is]) ap is = some r) (hu : isUnsupported r = false) :
    WF r = true ∧ shape r = [] ∧ fi r = fi (.op .indexed aux [a, .mi is]) ∧
    ∀ s ι, eval ρ s ι r [] = eval ρ s ι ap (is.map (Idx.resolve ι)) := by
  unfold indexedRule at h
  split at h
  · rename_i hz
    simp only [Option.some.injEq] at h; subst h
    refine ⟨?_, by simp [shape], rfl, fun s ι => ?_⟩
    · simp only [WF]; exact (sortedFI_iff _).mpr (fi_sorted _ wo)
    · rw [eval_zero ρ s ι _ hz]; simp [eval]
  · split at h
    · exact absurd h (fun h => unsupported_ne h hu)
    · have wp : WF (.op .indexed [] [ap, .mi is]) = true := by
        simp only [WF] at wo ⊢
        rw [sap, fap, wap]; simp only [Bool.and_eq_true] at wo ⊢
        exact ⟨⟨⟨trivial, wo.1.1.2⟩, wo.1.2⟩, wo.2⟩
      have hr : rebuild .indexed [] [ap, .mi is] = some r := h
      obtain ⟨w, s1, f1, ev⟩ := rb ρ hρ .indexed [ap, .mi is] r wp (by simpa [RebuildSC] using hy) hr hu
      refine ⟨w, by simpa [shape] using s1, ?_, fun s ι => ?_⟩
      · rw [f1]; simp only [fi]; rw [sap, fap]
      · have := ev s ι [] (by simp [shape])
        simpa [eval] using this

/-- side condition of the component-tensor shortcut `as_tensor(A[ii], ii) -> A` (see `RebuildSC`) -/
def ctSC (ap : Expr) (is : List Idx) : Bool := RebuildSC .componentTensor [ap, .mi is]

theorem componentTensorRule_ok {aux : List Nat} {a ap r : Expr} {is : List Idx}
    (wo : WF (.op .componentTensor aux [a, .mi is]) = true)
    (wap : WF ap = true) (sap : shape ap = shape a) (fap : fi ap = fi a) (hy : ctSC ap is = true)
    (h : componentTensorRule (.op .componentTensor aux [a, .mi is]) ap is = some r) (hu : isUnsupported r = false) :
    WF r = true ∧ shape r = shape (.op .componentTensor aux [a, .mi is]) ∧ fi r = fi (.op .componentTensor aux [a, .mi is]) ∧
    ∀ s ι c, c.length = (shape (.op .componentTensor aux [a, .mi is])).length → eval ρ s ι r c = eval ρ s (ι.bind is c) ap [] := by
  unfold componentTensorRule at h
  split at h
  · rename_i hz
    simp only [Option.some.injEq] at h; subst h
    refine ⟨?_, by simp [shape], rfl, fun s ι c _ => ?_⟩
    · simp only [WF]; exact (sortedFI_iff _).mpr (fi_sorted _ wo)
    · rw [eval_zero ρ s _ _ hz]; simp [eval]
  · split at h
    · exact absurd h (fun h => unsupported_ne h hu)
    · have wp : WF (.op .componentTensor [] [ap, .mi is]) = true := by
        simp only [WF] at wo ⊢
        rw [sap, fap, wap]; simp only [Bool.and_eq_true] at wo ⊢
        exact ⟨⟨trivial, wo.1.2⟩, wo.2⟩
      have hr : rebuild .componentTensor [] [ap, .mi is] = some r := h
      obtain ⟨w, s1, f1, ev⟩ := rb ρ hρ .componentTensor [ap, .mi is] r wp hy hr hu
      have es : shape (.op .componentTensor [] [ap, .mi is]) = shape (.op .componentTensor aux [a, .mi is]) := by
        simp only [shape]; rw [fap]
      refine ⟨w, by rw [s1, es], ?_, fun s ι c hc => ?_⟩
      · rw [f1]; simp only [fi]; rw [fap]
      · have := ev s ι c (by rw [es]; exact hc)
        simpa [eval] using this

theorem indexSum_ok {a ap r : Expr} {j : Nat} {aux : List Nat} (wo : WF (.op .indexSum aux [a, .mi [.free j]]) = true)
    (wap : WF ap = true) (sap : shape ap = shape a) (fap : fi ap = fi a)
    (h : mkIndexSum ap j = some r) (hu : isUnsupported r = false) :
    WF r = true ∧ shape r = shape a ∧ fi r = FI.remove j (fi a) ∧
    ∀ s ι c, c.length = (shape a).length → eval ρ s ι r c = ∑ v ∈ Finset.range (FI.dimOf j (fi a)), eval ρ s (ι.set j v) ap c := by
  have wp : WF (.op .indexSum [] [ap, .mi [.free j]]) = true := by
    simp only [WF] at wo ⊢
    rw [fap, wap]; simp only [Bool.and_eq_true] at wo ⊢
    exact ⟨trivial, wo.2⟩
  have hr : rebuild .indexSum [] [ap, .mi [.free j]] = some r := h
  obtain ⟨w, s1, f1, ev⟩ := rb ρ hρ .indexSum [ap, .mi [.free j]] r wp rfl hr hu
  refine ⟨w, by rw [s1]; simp [shape, sap], by rw [f1]; simp [fi, fap], fun s ι c hc => ?_⟩
  have := ev s ι c (by simp [shape, sap, hc])
  rw [this]; simp only [eval]; rw [sumRange_eq_sum, fap]

omit hρ in
theorem mkRestricted_ok {k : Op} {side : Side} (hk : (k = .positiveRestricted ∧ side = .plus) ∨ (k = .negativeRestricted ∧ side = .minus))
    {fp r : Expr} (wfp : WF fp = true) (hps : ∀ d, fp = .term d → d.cls ≠ "PermutationSymbol")
    (h : mkRestricted k fp = some r) :
    WF r = true ∧ shape r = shape fp ∧ fi r = fi fp ∧ ∀ s ι c, eval ρ s ι r c = eval ρ side ι fp c := by
  unfold mkRestricted at h
  split at h
  · rename_i hc
    simp only [Option.some.injEq] at h; subst h
    refine ⟨wfp, rfl, rfl, fun s ι c => ?_⟩
    cases fp with
    | int v => simp [eval]
    | real n d => simp [eval]
    | cplx a b c d => simp [eval]
    | zero sh f => simp [eval]
    | mi is => simp [isConstantValue] at hc
    | op k' x as => simp [isConstantValue] at hc
    | term d =>
      simp only [isConstantValue, Bool.or_eq_true, beq_iff_eq] at hc
      rcases hc with hc | hc
      · simp [eval, hc]
      · exact absurd hc (hps d rfl)
  · simp only [Option.some.injEq] at h; subst h
    rcases hk with ⟨rfl, rfl⟩ | ⟨rfl, rfl⟩
    · exact ⟨by simpa [WF] using wfp, by simp [shape], by simp [fi], fun s ι c => by simp [eval]⟩
    · exact ⟨by simpa [WF] using wfp, by simp [shape], by simp [fi], fun s ι c => by simp [eval]⟩

/-- pointwise relation between the rows of a list tensor and their derivatives -/
def RowRel (x y : Expr) : Prop := WF y = true ∧ shape y = shape x ∧ fi y = fi x

omit hρ in
theorem rows_wf {xs ys : List Expr} (hr : List.Forall₂ RowRel xs ys) (aux : List Nat) (wo : WF (.op .listTensor aux xs) = true) :
    WF (.op .listTensor [] ys) = true ∧ shape (.op .listTensor [] ys) = shape (.op .listTensor aux xs) ∧
    fi (.op .listTensor [] ys) = fi (.op .listTensor aux xs) := by
  cases hr with
  | nil => simp [WF] at wo
  | @cons x y xs' ys' hxy hrest =>
    have hlen := hrest.length_eq
    simp only [WF, Bool.and_eq_true, List.all_eq_true, beq_iff_eq] at wo ⊢
    obtain ⟨⟨wx, wxs⟩, hall⟩ := wo
    have hwl : ∀ {as bs : List Expr}, List.Forall₂ RowRel as bs → WFL bs = true := by
      intro as bs hab
      induction hab with
      | nil => simp [WFL]
      | cons h1 _ ih => simp [WFL, h1.1, ih]
    have hall' : ∀ e ∈ ys', shape e = shape y ∧ fi e = fi y := by
      intro e he
      obtain ⟨x0, hx0, hrel⟩ : ∃ x0 ∈ xs', RowRel x0 e := by
        clear hall wxs hlen
        induction hrest with
        | nil => cases he
        | @cons a b as bs hab _ ih =>
          cases List.mem_cons.mp he with
          | inl e1 => subst e1; exact ⟨a, by simp, hab⟩
          | inr e1 => obtain ⟨x0, hx0, hr0⟩ := ih e1; exact ⟨x0, by simp [hx0], hr0⟩
      have := hall x0 hx0
      exact ⟨by rw [hrel.2.1, this.1, hxy.2.1], by rw [hrel.2.2, this.2, hxy.2.2]⟩
    refine ⟨⟨⟨hxy.1, hwl hrest⟩, hall'⟩, ?_, ?_⟩
    · simp [shape, hxy.2.1, hlen]
    · simp [fi, hxy.2.2]

omit hρ in
theorem listTensor_ok {xs ys : List Expr} {r : Expr} (hr : List.Forall₂ RowRel xs ys) (aux : List Nat)
    (wo : WF (.op .listTensor aux xs) = true) (hsc : ltSC ys = true)
    (h : mkListTensor ys = some r) (hu : isUnsupported r = false) :
    WF r = true ∧ shape r = shape (.op .listTensor aux xs) ∧ fi r = fi (.op .listTensor aux xs) ∧
    ∀ s ι v c', eval ρ s ι r (v :: c') = evalNth ρ s ι ys v c' := by
  obtain ⟨wp, sp, fp⟩ := rows_wf hr aux wo
  obtain ⟨ev, w, s1, f1⟩ := C05_mkListTensor_plain ρ .none (fun _ => 0) [] ys r wp hsc h
  refine ⟨w, by rw [s1, sp], by rw [f1, fp], fun s ι v c' => ?_⟩
  rw [(C05_mkListTensor_plain ρ s ι [] ys r wp hsc h).1]; simp [eval]

end rules
end UflVerif.C02
