import UflVerif.Props.C02.RulesSound
import UflVerif.Model.DerivOK
import UflVerif.Props.C02.Rules

/-!
C02 — Gateaux derivatives are the true directional derivatives: the COMPOSITION theorem.

`gateauxD wv e` (Model/Deriv.lean) is the hand model of
`apply_derivatives(CoefficientDerivative(e, ExprList(*w), ExprList(*v), ExprMapping()))`, tied tree-for-tree to the
implementation by the correspondence of harness/props/c02.py.  This file proves, by induction over the expression
(any size, any nesting), that the tree it returns evaluates — over ℝ, with the real interpretation of the math
functions — to the derivative at τ = 0 of the value of `e` along the line `w + τ v`:

  `C02_gateaux_value_partial`, `C02_gateaux_shape`.

The per-operator rules used at each node are those whose regenerated trees Rules.lean proves correct one by one;
`C02_rules_tied` checks that the hand model reproduces every regenerated Gateaux rule tree.
-/
namespace UflVerif.C02
open UflVerif Expr C05 FIlemmas Filter Topology

/-! ### the family of valuations `w + τ v` -/

/-- `ρ τ` is the real interpretation for every τ; each differentiation variable `w` (keys of `wv`) has the value
    `W + τ V` where `V` is the value of its direction `v` (values and spatial derivative jets), every other terminal
    is independent of τ -/
structure GFamily (wv : WV) (ρ : ℝ → Env ℝ) : Prop where
  real : ∀ τ, RealEnv (ρ τ)
  term_w : ∀ τ s key v c, wv.get key = some v → (ρ τ).term s key c = (ρ 0).term s key c + τ * (ρ 0).term s v.key c
  term_o : ∀ τ s key c, wv.get key = none → (ρ τ).term s key c = (ρ 0).term s key c
  jet_w : ∀ τ s key v c ds, wv.get key = some v → (ρ τ).jet s key c ds = (ρ 0).jet s key c ds + τ * (ρ 0).jet s v.key c ds
  jet_o : ∀ τ s key c ds, wv.get key = none → (ρ τ).jet s key c ds = (ρ 0).jet s key c ds

/-- the part of `GFamily` about the terminals -/
structure GTerms (wv : WV) (ρ : ℝ → Env ℝ) : Prop where
  term_w : ∀ τ s key v c, wv.get key = some v → (ρ τ).term s key c = (ρ 0).term s key c + τ * (ρ 0).term s v.key c
  term_o : ∀ τ s key c, wv.get key = none → (ρ τ).term s key c = (ρ 0).term s key c
  jet_w : ∀ τ s key v c ds, wv.get key = some v → (ρ τ).jet s key c ds = (ρ 0).jet s key c ds + τ * (ρ 0).jet s v.key c ds
  jet_o : ∀ τ s key c ds, wv.get key = none → (ρ τ).jet s key c ds = (ρ 0).jet s key c ds

theorem GFamily.terms {wv : WV} {ρ : ℝ → Env ℝ} (h : GFamily wv ρ) : GTerms wv ρ := ⟨h.term_w, h.term_o, h.jet_w, h.jet_o⟩

/-! ### C04: a family of valuations along which the VARIABLE moves with unit speed and everything else stands still

`diff(f, v)` is the partial derivative of f with respect to the value of v, holding everything not expressed through v
fixed.  For v = variable(a) (label `label`) this is said of a family `ρ τ` as follows, along the expression: every occurrence
of the variable (a `Variable` node with that label) has the value of its operand moving with unit speed,
`d/dτ ⟦a⟧ = 1` — the traversal does not look below it —, and every terminal met outside such nodes (values, and jets under
`grad`) is independent of τ.  For a scalar coefficient used as the variable (`coeff`) that coefficient's value is `U + τ`,
its jets and everything else stand still. -/
mutual
def Still (label coeff : String) (ρ : ℝ → Env ℝ) : Expr → Prop
  | .term d =>
    if d.key = coeff then (∀ τ s c, (ρ τ).term s d.key c = (ρ 0).term s d.key c + τ)
    else (∀ τ s c, (ρ τ).term s d.key c = (ρ 0).term s d.key c)
  | .op k _ args =>
    match k, args with
    | .variable, [a, .term l] =>
      if l.key = label then (∀ side ι, HasDerivAt (fun τ => eval (ρ τ) side ι a []) 1 0) else Still label coeff ρ a
    | .grad, [f] =>
      (match gradChain f with
       | some (d, _) => ∀ τ s c ds, (ρ τ).jet s d.key c ds = (ρ 0).jet s d.key c ds
       | none => True)
    | .conditional, [_, t, f] => Still label coeff ρ t ∧ Still label coeff ρ f
    | _, args => StillL label coeff ρ args
  | _ => True
def StillL (label coeff : String) (ρ : ℝ → Env ℝ) : List Expr → Prop
  | [] => True
  | a :: as => Still label coeff ρ a ∧ StillL label coeff ρ as
end

/-- what the induction assumes about the terminals along the family, per ruleset -/
def TermHyp (m : DMode) (ρ : ℝ → Env ℝ) (e : Expr) : Prop :=
  match m with
  | .gateaux wv => GTerms wv ρ
  | .variable label coeff => Still label coeff ρ e

theorem stillL_mem (label coeff : String) (ρ : ℝ → Env ℝ) : ∀ (as : List Expr), StillL label coeff ρ as → ∀ a ∈ as, Still label coeff ρ a
  | [], _, a, ha => by cases ha
  | b :: bs, h, a, ha => by
    simp only [StillL] at h
    cases List.mem_cons.mp ha with
    | inl e => rw [e]; exact h.1
    | inr e => exact stillL_mem label coeff ρ bs h.2 a e

/-- for every node that is not a variable, a gradient or a conditional the hypothesis passes to all operands -/
theorem termHyp_sub (m : DMode) (ρ : ℝ → Env ℝ) (k : Op) (aux : List Nat) (args : List Expr)
    (hk : k ≠ .variable ∧ k ≠ .grad ∧ k ≠ .conditional) (h : TermHyp m ρ (.op k aux args)) : ∀ a ∈ args, TermHyp m ρ a := by
  intro a ha
  match m, h with
  | .gateaux wv, h => exact h
  | .variable label coeff, h =>
    simp only [TermHyp] at h ⊢
    unfold Still at h
    split at h
    · exact absurd rfl hk.1
    · exact absurd rfl hk.2.1
    · exact absurd rfl hk.2.2
    · exact stillL_mem label coeff ρ _ h a ha

theorem termHyp_cond (m : DMode) (ρ : ℝ → Env ℝ) (aux : List Nat) (p t f : Expr)
    (h : TermHyp m ρ (.op .conditional aux [p, t, f])) : TermHyp m ρ t ∧ TermHyp m ρ f := by
  match m, h with
  | .gateaux wv, h => exact ⟨h, h⟩
  | .variable label coeff, h => simpa [TermHyp, Still] using h

/-! ### the smoothness side conditions, collected along the expression -/

mutual
/-- "where F is smooth": non-zero denominators, positive bases of general powers (non-zero base or exponent ≥ 1 for a
    literal exponent), arguments off the kinks of abs / sqrt / ln / tan / acos / asin / min / max, conditions locally
    constant in τ — each at the component, side and index values at which the sub-expression is evaluated -/
def Smooth (ρ : ℝ → Env ℝ) (side : Side) (ι : IdxEnv) : Expr → List Nat → Prop
  | .op k _ args, c =>
    match k, args with
    | .sum, [a, b] => Smooth ρ side ι a c ∧ Smooth ρ side ι b c
    | .product, [a, b] => Smooth ρ side ι a [] ∧ Smooth ρ side ι b []
    | .division, [a, b] => Smooth ρ side ι a c ∧ Smooth ρ side ι b c ∧ eval (ρ 0) side ι b c ≠ 0
    | .power, [a, b] => Smooth ρ side ι a c ∧ Smooth ρ side ι b c ∧
        (0 < eval (ρ 0) side ι a c ∨ ∃ i q, litVal b = some (i, q) ∧ (eval (ρ 0) side ι a c ≠ 0 ∨ 1 ≤ q))
    | .abs, [a] => Smooth ρ side ι a c ∧ eval (ρ 0) side ι a c ≠ 0
    | .conj, [a] => Smooth ρ side ι a c
    | .real, [a] => Smooth ρ side ι a c
    | .imag, [a] => Smooth ρ side ι a c
    | .indexed, [a, .mi is] => Smooth ρ side ι a (is.map (Idx.resolve ι))
    | .indexSum, [a, .mi [.free j]] => ∀ v, v < FI.dimOf j (fi a) → Smooth ρ side (ι.set j v) a c
    | .componentTensor, [a, .mi is] => Smooth ρ side (ι.bind is c) a []
    | .listTensor, xs => (match c with | v :: c' => SmoothNth ρ side ι xs v c' | [] => True)
    | .conditional, [p, t, f] =>
        (∀ᶠ τ in 𝓝 (0 : ℝ), evalB (ρ τ) side ι p = evalB (ρ 0) side ι p) ∧
        (evalB (ρ 0) side ι p = true → Smooth ρ side ι t c) ∧ (evalB (ρ 0) side ι p = false → Smooth ρ side ι f c)
    | .minValue, [a, b] => Smooth ρ side ι a c ∧ Smooth ρ side ι b c ∧ eval (ρ 0) side ι a c ≠ eval (ρ 0) side ι b c
    | .maxValue, [a, b] => Smooth ρ side ι a c ∧ Smooth ρ side ι b c ∧ eval (ρ 0) side ι a c ≠ eval (ρ 0) side ι b c
    | .variable, [a, _] => Smooth ρ side ι a c
    | .positiveRestricted, [a] => Smooth ρ .plus ι a c
    | .negativeRestricted, [a] => Smooth ρ .minus ι a c
    | .sqrt, [a] => Smooth ρ side ι a c ∧ eval (ρ 0) side ι a c ≠ 0
    | .ln, [a] => Smooth ρ side ι a c ∧ eval (ρ 0) side ι a c ≠ 0
    | .tan, [a] => Smooth ρ side ι a c ∧ Real.cos (eval (ρ 0) side ι a c) ≠ 0
    | .acos, [a] => Smooth ρ side ι a c ∧ eval (ρ 0) side ι a c ≠ -1 ∧ eval (ρ 0) side ι a c ≠ 1
    | .asin, [a] => Smooth ρ side ι a c ∧ eval (ρ 0) side ι a c ≠ -1 ∧ eval (ρ 0) side ι a c ≠ 1
    | .exp, [a] => Smooth ρ side ι a c
    | .cos, [a] => Smooth ρ side ι a c
    | .sin, [a] => Smooth ρ side ι a c
    | .cosh, [a] => Smooth ρ side ι a c
    | .sinh, [a] => Smooth ρ side ι a c
    | .tanh, [a] => Smooth ρ side ι a c
    | .atan, [a] => Smooth ρ side ι a c
    | _, _ => True
  | _, _ => True
def SmoothNth (ρ : ℝ → Env ℝ) (side : Side) (ι : IdxEnv) : List Expr → Nat → List Nat → Prop
  | [], _, _ => True
  | x :: _, 0, c => Smooth ρ side ι x c
  | _ :: xs, n + 1, c => SmoothNth ρ side ι xs n c
end

/-! ### the decidable side conditions `DOK` live in Model/DerivOK.lean; they imply those of the C05 theorems -/

theorem hygM_aux : (∀ e, hygM e = true → Hyg e = true) ∧ (∀ as, hygML as = true → HygL as = true) := by
  apply hygM.mutual_induct (motive_1 := fun e => hygM e = true → Hyg e = true) (motive_2 := fun as => hygML as = true → HygL as = true)
  · intro x y as rest h; simp [hygM] at h
  · intro k x args hne ih h
    have h' : hygML args = true := by
      unfold hygM at h
      split at h
      · cases h
      · rename_i heq; cases heq; exact h
      · rename_i hno; exact absurd rfl (hno _ _ _)
    unfold Hyg
    split
    · rename_i heq; cases heq; exact absurd rfl (hne _ _ _ rfl)
    · rename_i heq; cases heq; exact ih h'
    · rename_i hno; exact absurd rfl (hno _ _ _)
  · intro e _ hno _
    unfold Hyg
    split
    · exact absurd rfl (hno _ _ _)
    · exact absurd rfl (hno _ _ _)
    · rfl
  · intro _; rfl
  · intro a as iha ihas h
    simp only [hygML, Bool.and_eq_true] at h
    simp [HygL, iha h.1, ihas h.2]

theorem hygM_hyg (e : Expr) (h : hygM e = true) : Hyg e = true := hygM_aux.1 e h

theorem ltSCM_ltSC (xs : List Expr) (h : ltSCM xs = true) : ltSC xs = true := h

theorem ctSCM_ctSC (ap : Expr) (is : List Idx) (h : ctSCM ap is = true) : RebuildSC .componentTensor [ap, .mi is] = true := by
  unfold ctSCM at h
  unfold RebuildSC
  split <;> simp_all

end UflVerif.C02
