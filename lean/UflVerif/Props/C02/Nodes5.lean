import UflVerif.Props.C02.Nodes4

/-! C02 (composition) — induction steps, part 5: gradients of terminals and index notation. -/
namespace UflVerif.C02
open UflVerif Expr C05 FIlemmas Filter Topology

theorem chainSubst_spec (v : TermData) : ∀ (g : Expr) (d : TermData) (n : Nat), gradChain g = some (d, n) →
    gradChain (chainSubst v g) = some (v, n) ∧ (v.shape = d.shape → shape (chainSubst v g) = shape g) := by
  intro g
  fun_induction gradChain g with
  | case1 d0 =>
    intro d n h
    simp only [Option.some.injEq, Prod.mk.injEq] at h
    obtain ⟨rfl, rfl⟩ := h
    exact ⟨by simp [chainSubst, gradChain], fun hs => by simp [chainSubst, shape, hs]⟩
  | case2 aux a d0 k hk ih =>
    intro d n h
    simp only [Option.some.injEq, Prod.mk.injEq] at h
    obtain ⟨rfl, rfl⟩ := h
    obtain ⟨h1, h2⟩ := ih d0 k hk
    refine ⟨by simp [chainSubst, gradChain, h1], fun hs => ?_⟩
    simp only [chainSubst, shape]; rw [h2 hs]
  | case3 aux a hk => intro d n h; cases h
  | case4 e h1 h2 => intro d n h; cases h

section main
variable {m : DMode} {ρ : ℝ → Env ℝ} (hfam : ∀ τ, RealEnv (ρ τ))
include hfam

omit hfam in
theorem node_grad_g {wv : WV} (aux : List Nat) (f : Expr) : M1 (.gateaux wv) ρ (.op .grad aux [f]) := by
  intro r hw hd ht h hu
  have hfam : GTerms wv ρ := ht
  simp only [derivE, gradRule, gateauxGrad] at h
  simp only [WF] at hw
  simp only [DOK] at hd
  cases hg : gradChain f with
  | none => simp [hg] at hw
  | some p =>
    obtain ⟨d, n⟩ := p
    rw [hg] at hd
    simp only at hd
    have hgg : gradChain (.op .grad aux [f]) = some (d, n + 1) := by simp [gradChain, hg]
    rw [hgg] at h
    simp only [Nat.add_eq_zero_iff, one_ne_zero, and_false, ↓reduceIte] at h
    have ev0 : ∀ τ side ι c, eval (ρ τ) side ι (.op .grad aux [f]) c =
        (ρ τ).jet side d.key (c.take d.shape.length) (c.drop d.shape.length) := by
      intro τ side ι c; simp [eval, hg]
    have zero_case : wv.get d.key = none → r = .zero (shape (.op .grad aux [f])) [] →
        (WF r = true ∧ shape r = shape (.op .grad aux [f]) ∧ fi r = fi (.op .grad aux [f])) ∧
        ∀ side ι c, c.length = (shape (.op .grad aux [f])).length → Smooth ρ side ι (.op .grad aux [f]) c →
          HasDerivAt (fun τ => eval (ρ τ) side ι (.op .grad aux [f]) c) (eval (ρ 0) side ι r c) 0 := by
      intro hget hr
      subst hr
      refine ⟨⟨by simp [WF, sortedFI], rfl, ?_⟩, fun side ι c _ _ => ?_⟩
      · simp only [fi]; exact (gradChain_fi f _ hg).symm
      · have : (fun τ => eval (ρ τ) side ι (.op .grad aux [f]) c) = fun _ => (ρ 0).jet side d.key (c.take d.shape.length) (c.drop d.shape.length) := by
          funext τ; rw [ev0, hfam.jet_o τ side d.key _ _ hget]
        rw [this]; simp only [eval]; exact hasDerivAt_const _ _
    split at h
    · rename_i hc
      have hc' : d.cls = "Coefficient" := by simpa using hc
      cases hget : wv.get d.key with
      | none =>
        rw [hget] at h
        simp only [Option.some.injEq] at h
        exact zero_case hget h.symm
      | some v =>
        rw [hget] at h
        simp only [Option.some.injEq] at h; subst h
        simp only [termOK, hget, Bool.and_eq_true, beq_iff_eq, bne_iff_ne, ne_eq] at hd
        obtain ⟨⟨⟨_, hsh⟩, _⟩, _⟩ := hd
        obtain ⟨c1, c2⟩ := chainSubst_spec v (.op .grad aux [f]) d (n + 1) hgg
        obtain ⟨c1', _⟩ := chainSubst_spec v f d n hg
        refine ⟨⟨?_, c2 hsh, ?_⟩, fun side ι c _ _ => ?_⟩
        · simp only [chainSubst, WF, c1']; rfl
        · rw [gradChain_fi _ _ c1, gradChain_fi _ _ hgg]
        · have : (fun τ => eval (ρ τ) side ι (.op .grad aux [f]) c) = fun τ =>
              (ρ 0).jet side d.key (c.take d.shape.length) (c.drop d.shape.length) +
              τ * (ρ 0).jet side v.key (c.take d.shape.length) (c.drop d.shape.length) := by
            funext τ; rw [ev0, hfam.jet_w τ side d.key v _ _ hget]
          rw [this]
          have e2 : eval (ρ 0) side ι (chainSubst v (.op .grad aux [f])) c =
              (ρ 0).jet side v.key (c.take d.shape.length) (c.drop d.shape.length) := by
            simp [chainSubst, eval, c1', hsh]
          rw [e2]
          simpa using ((hasDerivAt_id (0 : ℝ)).mul_const ((ρ 0).jet side v.key (c.take d.shape.length) (c.drop d.shape.length))).const_add
            ((ρ 0).jet side d.key (c.take d.shape.length) (c.drop d.shape.length))
    · rename_i hc
      have hc' : ¬ d.cls = "Coefficient" := by simpa using hc
      have hget : wv.get d.key = none := by
        cases hg' : wv.get d.key with
        | none => rfl
        | some v => simp [termOK, hg', hc'] at hd
      split at h
      · simp only [Option.some.injEq] at h
        exact zero_case hget h.symm
      · exact absurd h (fun h => unsupported_ne h hu)

omit hfam in
theorem node_grad_v {label coeff : String} (aux : List Nat) (f : Expr) : M1 (.variable label coeff) ρ (.op .grad aux [f]) := by
  intro r hw hd ht h hu
  simp only [derivE, gradRule] at h
  simp only [WF] at hw
  simp only [TermHyp, Still] at ht
  cases hg : gradChain f with
  | none => simp [hg] at hw
  | some p =>
    obtain ⟨d, n⟩ := p
    rw [hg] at ht
    simp only at ht
    have hgg : gradChain (.op .grad aux [f]) = some (d, n + 1) := by simp [gradChain, hg]
    rw [hgg] at h
    simp only [Nat.add_eq_zero_iff, one_ne_zero, and_false, ↓reduceIte] at h
    split at h
    · simp only [Option.some.injEq] at h; subst h
      refine ⟨⟨by simp [WF, sortedFI], rfl, ?_⟩, fun side ι c _ _ => ?_⟩
      · simp only [fi]; exact (gradChain_fi f _ hg).symm
      · have : (fun τ => eval (ρ τ) side ι (.op .grad aux [f]) c) = fun _ => (ρ 0).jet side d.key (c.take d.shape.length) (c.drop d.shape.length) := by
          funext τ; simp [eval, hg, ht τ side]
        rw [this]; simp only [eval]; exact hasDerivAt_const _ _
    · exact absurd h (fun h => unsupported_ne h hu)

omit hfam in
theorem node_grad (aux : List Nat) (f : Expr) : M1 m ρ (.op .grad aux [f]) := by
  match m with
  | .gateaux wv => exact node_grad_g aux f
  | .variable label coeff => exact node_grad_v aux f

theorem node_indexed (aux : List Nat) (a : Expr) (is : List Idx) (iha : M1 m ρ a) : M1 m ρ (.op .indexed aux [a, .mi is]) := by
  intro r hw hd ht h hu
  simp only [derivE] at h
  obtain ⟨ap, h1, u1, h2⟩ := bindU_some _ _ _ h hu
  have hw' := hw
  simp only [WF, Bool.and_eq_true, beq_iff_eq] at hw'
  obtain ⟨⟨⟨wa, hl⟩, _⟩, _⟩ := hw'
  simp only [DOK, h1, Bool.and_eq_true] at hd
  obtain ⟨⟨wap, sap, fap⟩, dera⟩ := iha ap wa hd.1 (termHyp_sub m ρ _ _ _ (by decide) ht a (by simp)) h1 u1
  obtain ⟨w, s1, f1, ev⟩ := indexedRule_ok (ρ 0) (lit0 hfam) hw wap sap fap (hygM_hyg _ hd.2) h2 hu
  refine ⟨⟨w, by rw [s1]; simp [shape], f1⟩, fun side ι c hc hs' => ?_⟩
  simp only [Smooth] at hs'
  simp only [shape, List.length_nil] at hc
  obtain rfl := len0 hc
  simp only [eval]
  rw [ev]
  exact dera side ι _ (by simp [hl]) hs'

theorem node_componentTensor (aux : List Nat) (a : Expr) (is : List Idx) (iha : M1 m ρ a) :
    M1 m ρ (.op .componentTensor aux [a, .mi is]) := by
  intro r hw hd ht h hu
  simp only [derivE] at h
  obtain ⟨ap, h1, u1, h2⟩ := bindU_some _ _ _ h hu
  have hw' := hw
  simp only [WF, Bool.and_eq_true, List.isEmpty_iff] at hw'
  obtain ⟨⟨wa, sa⟩, _⟩ := hw'
  simp only [DOK, h1, Bool.and_eq_true] at hd
  obtain ⟨⟨wap, sap, fap⟩, dera⟩ := iha ap wa hd.1 (termHyp_sub m ρ _ _ _ (by decide) ht a (by simp)) h1 u1
  obtain ⟨w, s1, f1, ev⟩ := componentTensorRule_ok (ρ 0) (lit0 hfam) hw wap sap fap (ctSCM_ctSC _ _ hd.2) h2 hu
  refine ⟨⟨w, s1, f1⟩, fun side ι c hc hs' => ?_⟩
  simp only [Smooth] at hs'
  rw [ev side ι c hc]
  simp only [eval]
  exact dera side _ [] (by simp [sa]) hs'

theorem node_indexSum (aux : List Nat) (a : Expr) (j : Nat) (iha : M1 m ρ a) :
    M1 m ρ (.op .indexSum aux [a, .mi [.free j]]) := by
  intro r hw hd ht h hu
  simp only [derivE] at h
  obtain ⟨ap, h1, u1, h2⟩ := bindU_some _ _ _ h hu
  have hw' := hw
  simp only [WF, Bool.and_eq_true] at hw'
  simp only [DOK, DOKL, Bool.and_eq_true, and_true] at hd
  obtain ⟨⟨wap, sap, fap⟩, dera⟩ := iha ap hw'.1 hd (termHyp_sub m ρ _ _ _ (by decide) ht a (by simp)) h1 u1
  obtain ⟨w, s1, f1, ev⟩ := indexSum_ok (ρ 0) (lit0 hfam) hw wap sap fap h2 hu
  refine ⟨⟨w, by rw [s1]; simp [shape], by rw [f1]; simp [fi]⟩, fun side ι c hc hs' => ?_⟩
  simp only [Smooth] at hs'
  simp only [shape] at hc
  rw [ev side ι c hc]
  simp only [eval, sumRange_eq_sum]
  exact HasDerivAt.fun_sum fun v hv => dera side _ c hc (hs' v (Finset.mem_range.mp hv))

omit hfam in
theorem node_nil : M2 m ρ [] := by
  intro ys _ _ _ h _
  simp only [derivL, Option.some.injEq] at h; subst h
  exact ⟨List.Forall₂.nil, fun side ι n c _ _ => by simp only [evalNth]; exact hasDerivAt_const _ _⟩

omit hfam in
theorem node_cons (a : Expr) (as : List Expr) (x : Expr) (xs : List Expr)
    (hxs : derivL m as = some xs) (hx : derivE m a = some x)
    (iha : M1 m ρ a) (ihas : M2 m ρ as) : M2 m ρ (a :: as) := by
  intro ys hw hd ht h hu
  simp only [derivL, hx, hxs, Option.some.injEq] at h; subst h
  simp only [WFL, Bool.and_eq_true] at hw
  simp only [DOKL, Bool.and_eq_true] at hd
  simp only [List.any_cons, Bool.or_eq_false_iff] at hu
  obtain ⟨hwx, dera⟩ := iha x hw.1 hd.1 (ht a (by simp)) hx hu.1
  obtain ⟨hrel, deras⟩ := ihas xs hw.2 hd.2 (fun y hy => ht y (by simp [hy])) hxs hu.2
  refine ⟨List.Forall₂.cons hwx hrel, fun side ι n c hc hs' => ?_⟩
  cases n with
  | zero =>
    simp only [SmoothNth] at hs'
    simp only [evalNth]
    exact dera side ι c (hc a (by simp)) hs'
  | succ m =>
    simp only [SmoothNth] at hs'
    simp only [evalNth]
    exact deras side ι m c (fun y hy => hc y (by simp [hy])) hs'

theorem node_listTensor (aux : List Nat) (xs ys : List Expr) (hys : derivL m xs = some ys)
    (hnu : ¬ ys.any isUnsupported = true) (ih : M2 m ρ xs) : M1 m ρ (.op .listTensor aux xs) := by
  intro r hw hd ht h hu
  have hnu' : ys.any isUnsupported = false := by simpa using hnu
  simp only [derivE, hys, hnu', Bool.false_eq_true, ↓reduceIte] at h
  simp only [DOK, hys, Bool.and_eq_true] at hd
  cases xs with
  | nil => simp [WF] at hw
  | cons a as =>
    have hw' := hw
    simp only [WF, Bool.and_eq_true, List.all_eq_true, beq_iff_eq] at hw'
    obtain ⟨⟨wa, was⟩, hall⟩ := hw'
    obtain ⟨hrel, der⟩ := ih ys (by simp [WFL, wa, was]) hd.1 (termHyp_sub m ρ _ _ _ (by decide) ht) hys hnu'
    obtain ⟨w, s1, f1, ev⟩ := listTensor_ok (ρ 0) hrel aux hw (ltSCM_ltSC _ hd.2) h hu
    refine ⟨⟨w, s1, f1⟩, fun side ι c hc hs' => ?_⟩
    simp only [shape, List.length_cons] at hc
    cases c with
    | nil => simp at hc
    | cons v c' =>
      simp only [Smooth] at hs'
      simp only [List.length_cons, Nat.add_right_cancel_iff] at hc
      rw [ev]
      simp only [eval]
      refine der side ι v c' (fun y hy => ?_) hs'
      cases List.mem_cons.mp hy with
      | inl e => rw [e]; exact hc
      | inr e => rw [(hall y e).1]; exact hc

end main
end UflVerif.C02
