import UflVerif.Props.C02.Nodes2

/-! C02 (composition) — induction steps, part 3: min / max, math functions, gradients of terminals, index notation. -/
namespace UflVerif.C02
open UflVerif Expr C05 FIlemmas Filter Topology

theorem realFn_sqrt (x : ℝ) : realFn "Sqrt" x = Real.sqrt x := by simp [realFn]
theorem realFn_exp (x : ℝ) : realFn "Exp" x = Real.exp x := by simp [realFn]
theorem realFn_ln (x : ℝ) : realFn "Ln" x = Real.log x := by simp [realFn]
theorem realFn_cos (x : ℝ) : realFn "Cos" x = Real.cos x := by simp [realFn]
theorem realFn_sin (x : ℝ) : realFn "Sin" x = Real.sin x := by simp [realFn]
theorem realFn_tan (x : ℝ) : realFn "Tan" x = Real.tan x := by simp [realFn]
theorem realFn_cosh (x : ℝ) : realFn "Cosh" x = Real.cosh x := by simp [realFn]
theorem realFn_sinh (x : ℝ) : realFn "Sinh" x = Real.sinh x := by simp [realFn]
theorem realFn_tanh (x : ℝ) : realFn "Tanh" x = Real.tanh x := by simp [realFn]
theorem realFn_acos (x : ℝ) : realFn "Acos" x = Real.arccos x := by simp [realFn]
theorem realFn_asin (x : ℝ) : realFn "Asin" x = Real.arcsin x := by simp [realFn]
theorem realFn_atan (x : ℝ) : realFn "Atan" x = Real.arctan x := by simp [realFn]

section main
variable {m : DMode} {ρ : ℝ → Env ℝ} (hfam : ∀ τ, RealEnv (ρ τ))
include hfam

theorem node_min (aux : List Nat) (f g : Expr) (ihf : M1 m ρ f) (ihg : M1 m ρ g) : M1 m ρ (.op .minValue aux [f, g]) := by
  intro r hw hd ht h hu
  simp only [derivE] at h
  obtain ⟨df, dg, h1, u1, h2, u2, h3⟩ := bind2_some _ _ _ _ h hu
  simp only [WF, Bool.and_eq_true] at hw
  obtain ⟨⟨⟨wf, wg⟩, tsf⟩, tsg⟩ := hw
  have tf := ts_of wf tsf
  have tg := ts_of wg tsg
  simp only [DOK, DOKL, Bool.and_eq_true, and_true] at hd
  obtain ⟨⟨wdf, sdf, fdf⟩, derf⟩ := ihf df wf hd.1 (termHyp_sub m ρ _ _ _ (by decide) ht f (by simp)) h1 u1
  obtain ⟨⟨wdg, sdg, fdg⟩, derg⟩ := ihg dg wg hd.2 (termHyp_sub m ρ _ _ _ (by decide) ht g (by simp)) h2 u2
  have tdf : TS df := ⟨wdf, by rw [sdf, tf.2.1], by rw [fdf, tf.2.2]⟩
  have tdg : TS dg := ⟨wdg, by rw [sdg, tg.2.1], by rw [fdg, tg.2.2]⟩
  obtain ⟨tr, ev⟩ := minMaxRule_ok (ρ 0) (lit0 hfam) (Or.inl rfl) tf tg tdf tdg h3 hu
  refine ⟨⟨tr.1, by rw [tr.2.1]; simp [shape], by rw [tr.2.2]; simp [fi, tf.2.2]⟩, fun side ι c hc hs' => ?_⟩
  simp only [Smooth] at hs'
  simp only [shape, List.length_nil] at hc
  obtain rfl := len0 hc
  obtain ⟨s1', s2', hne⟩ := hs'
  have hF := derf side ι [] (by simp [tf.2.1]) s1'
  have hG := derg side ι [] (by simp [tg.2.1]) s2'
  simp only [eval, hlt hfam]
  rw [ev]
  simp only [reduceCtorEq, ↓reduceIte, evalB, hlt hfam, decide_eq_true_eq]
  rcases lt_or_gt_of_ne hne with hlt' | hgt
  · rw [if_pos hlt', show (1 : ℝ) * eval (ρ 0) side ι df [] + (1 - 1) * eval (ρ 0) side ι dg [] = eval (ρ 0) side ι df [] by ring]
    have ev' := hF.continuousAt.eventually_lt hG.continuousAt hlt'
    exact hF.congr_of_eventuallyEq (ev'.mono fun τ hτ => by simp [hτ])
  · rw [if_neg (not_lt.mpr hgt.le), show (0 : ℝ) * eval (ρ 0) side ι df [] + (1 - 0) * eval (ρ 0) side ι dg [] = eval (ρ 0) side ι dg [] by ring]
    have ev' := hG.continuousAt.eventually_lt hF.continuousAt hgt
    exact hG.congr_of_eventuallyEq (ev'.mono fun τ hτ => by simp [not_lt.mpr hτ.le])

theorem node_max (aux : List Nat) (f g : Expr) (ihf : M1 m ρ f) (ihg : M1 m ρ g) : M1 m ρ (.op .maxValue aux [f, g]) := by
  intro r hw hd ht h hu
  simp only [derivE] at h
  obtain ⟨df, dg, h1, u1, h2, u2, h3⟩ := bind2_some _ _ _ _ h hu
  simp only [WF, Bool.and_eq_true] at hw
  obtain ⟨⟨⟨wf, wg⟩, tsf⟩, tsg⟩ := hw
  have tf := ts_of wf tsf
  have tg := ts_of wg tsg
  simp only [DOK, DOKL, Bool.and_eq_true, and_true] at hd
  obtain ⟨⟨wdf, sdf, fdf⟩, derf⟩ := ihf df wf hd.1 (termHyp_sub m ρ _ _ _ (by decide) ht f (by simp)) h1 u1
  obtain ⟨⟨wdg, sdg, fdg⟩, derg⟩ := ihg dg wg hd.2 (termHyp_sub m ρ _ _ _ (by decide) ht g (by simp)) h2 u2
  have tdf : TS df := ⟨wdf, by rw [sdf, tf.2.1], by rw [fdf, tf.2.2]⟩
  have tdg : TS dg := ⟨wdg, by rw [sdg, tg.2.1], by rw [fdg, tg.2.2]⟩
  obtain ⟨tr, ev⟩ := minMaxRule_ok (ρ 0) (lit0 hfam) (Or.inr rfl) tf tg tdf tdg h3 hu
  refine ⟨⟨tr.1, by rw [tr.2.1]; simp [shape], by rw [tr.2.2]; simp [fi, tf.2.2]⟩, fun side ι c hc hs' => ?_⟩
  simp only [Smooth] at hs'
  simp only [shape, List.length_nil] at hc
  obtain rfl := len0 hc
  obtain ⟨s1', s2', hne⟩ := hs'
  have hF := derf side ι [] (by simp [tf.2.1]) s1'
  have hG := derg side ι [] (by simp [tg.2.1]) s2'
  simp only [eval, hlt hfam]
  rw [ev]
  simp only [↓reduceIte, evalB, hlt hfam, decide_eq_true_eq]
  rcases lt_or_gt_of_ne hne with hlt' | hgt
  · rw [if_neg (not_lt.mpr hlt'.le), show (0 : ℝ) * eval (ρ 0) side ι df [] + (1 - 0) * eval (ρ 0) side ι dg [] = eval (ρ 0) side ι dg [] by ring]
    have ev' := hF.continuousAt.eventually_lt hG.continuousAt hlt'
    exact hG.congr_of_eventuallyEq (ev'.mono fun τ hτ => by simp [not_lt.mpr hτ.le])
  · rw [if_pos hgt, show (1 : ℝ) * eval (ρ 0) side ι df [] + (1 - 1) * eval (ρ 0) side ι dg [] = eval (ρ 0) side ι df [] by ring]
    have ev' := hG.continuousAt.eventually_lt hF.continuousAt hgt
    exact hF.congr_of_eventuallyEq (ev'.mono fun τ hτ => by simp [hτ])

end main
end UflVerif.C02
