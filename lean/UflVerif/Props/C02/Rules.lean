import Mathlib.Analysis.SpecialFunctions.Trigonometric.Deriv
import Mathlib.Analysis.SpecialFunctions.Trigonometric.DerivHyp
import Mathlib.Analysis.SpecialFunctions.Trigonometric.ArctanDeriv
import Mathlib.Analysis.SpecialFunctions.Trigonometric.InverseDeriv
import Mathlib.Analysis.SpecialFunctions.ExpDeriv
import Mathlib.Analysis.SpecialFunctions.Log.Deriv
import Mathlib.Analysis.SpecialFunctions.Sqrt
import Mathlib.Analysis.SpecialFunctions.Pow.Deriv
import Mathlib.Analysis.Calculus.Deriv.Abs
import UflVerif.Sem.CompoundSpec
import UflVerif.Gen.DerivRules

/-!
C02 / C03 / C04 — the differentiation RULES of the real code are the true derivative rules.

`Gen/DerivRules.lean` holds, regenerated on every run, the trees the real `expand_derivatives` returns for
`derivative(op(f, g), (f, g), (df, dg))` (family `gateaux`) and for `grad(op(f, g))` (family `grad`, where `df`, `dg`
stand for `grad f`, `grad g`) on scalar coefficients.  `dEnv` evaluates such a tree over ℝ with the usual real
functions: `f`, `g` take the values `F 0`, `G 0` of two real functions of a parameter τ and `df`, `dg` their derivatives.
Each theorem says: the rule tree evaluates to the derivative of τ ↦ op(F τ, G τ) at 0 (Mathlib `HasDerivAt`),
under the smoothness condition spelled out.  Directional (Gateaux), spatial (each component of grad) and
variable derivatives all go through these rules with different meanings of τ.
-/
namespace UflVerif.C02
open UflVerif Expr Gen.DerivRules

/-- real interpretation: f, g ↦ values, df, dg ↦ derivative values (per component for the grad family) -/
noncomputable def dEnv (f g : ℝ) (df dg : List Nat → ℝ) : Env ℝ where
  term := fun _ key c =>
    if key = "f" then f else if key = "g" then g else if key = "df" then df c else if key = "dg" then dg c else 0
  jet := fun _ _ _ _ => 0
  fn := fun n x =>
    if n = "Sqrt" then Real.sqrt x else if n = "Exp" then Real.exp x else if n = "Ln" then Real.log x
    else if n = "Cos" then Real.cos x else if n = "Sin" then Real.sin x else if n = "Tan" then Real.tan x
    else if n = "Cosh" then Real.cosh x else if n = "Sinh" then Real.sinh x else if n = "Tanh" then Real.tanh x
    else if n = "Acos" then Real.arccos x else if n = "Asin" then Real.arcsin x else if n = "Atan" then Real.arctan x
    else 0
  fn2 := fun n x y => if n = "Power" then x ^ y else 0
  abs := fun x => |x|
  conj := id
  re := id
  im := fun _ => 0
  i := 0
  lt := fun x y => decide (x < y)
  eq := fun x y => decide (x = y)

/-- value of a Gateaux rule tree -/
noncomputable def gval (name : String) (f g f' g' : ℝ) : ℝ :=
  match gateaux.find? (·.name == name) with
  | some r => eval (dEnv f g (fun _ => f') (fun _ => g')) .none (fun _ => 0) r.out []
  | none => 0

macro "rule_eval" "[" extra:Lean.Parser.Tactic.simpLemma,* "]" : tactic =>
  `(tactic| simp [gval, gateaux, List.find?, dEnv, eval, evalB, evalNth, gradChain, mathName, fi, shape, sumRange, FI.dimOf, FI.insert, FI.merge, FI.remove,
      idxPairs, freeCounts, List.range, List.range.loop, IdxEnv.bind, IdxEnv.set, Idx.resolve, List.zipIdx, $extra,*])

variable {F G : ℝ → ℝ} {f' g' : ℝ}

theorem C02_rule_sum (hF : HasDerivAt F f' 0) (hG : HasDerivAt G g' 0) :
    HasDerivAt (fun τ => F τ + G τ) (gval "sum" (F 0) (G 0) f' g') 0 := by
  have : gval "sum" (F 0) (G 0) f' g' = f' + g' := by rule_eval []
  rw [this]; exact hF.add hG

theorem C02_rule_product (hF : HasDerivAt F f' 0) (hG : HasDerivAt G g' 0) :
    HasDerivAt (fun τ => F τ * G τ) (gval "product" (F 0) (G 0) f' g') 0 := by
  have : gval "product" (F 0) (G 0) f' g' = f' * G 0 + F 0 * g' := by rule_eval []; ring
  rw [this]; exact hF.mul hG

theorem C02_rule_division (hF : HasDerivAt F f' 0) (hG : HasDerivAt G g' 0) (h : G 0 ≠ 0) :
    HasDerivAt (fun τ => F τ / G τ) (gval "division" (F 0) (G 0) f' g') 0 := by
  have : gval "division" (F 0) (G 0) f' g' = (f' * G 0 - F 0 * g') / G 0 ^ 2 := by rule_eval []; field_simp; ring
  rw [this]; exact hF.fun_div hG h

theorem C02_rule_neg (hF : HasDerivAt F f' 0) :
    HasDerivAt (fun τ => - F τ) (gval "neg" (F 0) 0 f' 0) 0 := by
  have : gval "neg" (F 0) 0 f' 0 = - f' := by rule_eval []
  rw [this]; exact hF.neg

theorem C02_rule_exp (hF : HasDerivAt F f' 0) :
    HasDerivAt (fun τ => Real.exp (F τ)) (gval "exp" (F 0) 0 f' 0) 0 := by
  have : gval "exp" (F 0) 0 f' 0 = Real.exp (F 0) * f' := by rule_eval []; ring
  rw [this]; exact hF.exp

theorem C02_rule_ln (hF : HasDerivAt F f' 0) (h : F 0 ≠ 0) :
    HasDerivAt (fun τ => Real.log (F τ)) (gval "ln" (F 0) 0 f' 0) 0 := by
  have : gval "ln" (F 0) 0 f' 0 = f' / F 0 := by rule_eval []
  rw [this]; exact hF.log h

theorem C02_rule_sin (hF : HasDerivAt F f' 0) :
    HasDerivAt (fun τ => Real.sin (F τ)) (gval "sin" (F 0) 0 f' 0) 0 := by
  have : gval "sin" (F 0) 0 f' 0 = Real.cos (F 0) * f' := by rule_eval []; ring
  rw [this]; exact hF.sin

theorem C02_rule_cos (hF : HasDerivAt F f' 0) :
    HasDerivAt (fun τ => Real.cos (F τ)) (gval "cos" (F 0) 0 f' 0) 0 := by
  have : gval "cos" (F 0) 0 f' 0 = - Real.sin (F 0) * f' := by rule_eval []; ring
  rw [this]; exact hF.cos

theorem C02_rule_sinh (hF : HasDerivAt F f' 0) :
    HasDerivAt (fun τ => Real.sinh (F τ)) (gval "sinh" (F 0) 0 f' 0) 0 := by
  have : gval "sinh" (F 0) 0 f' 0 = Real.cosh (F 0) * f' := by rule_eval []; ring
  rw [this]; exact hF.sinh

theorem C02_rule_cosh (hF : HasDerivAt F f' 0) :
    HasDerivAt (fun τ => Real.cosh (F τ)) (gval "cosh" (F 0) 0 f' 0) 0 := by
  have : gval "cosh" (F 0) 0 f' 0 = Real.sinh (F 0) * f' := by rule_eval []; ring
  rw [this]; exact hF.cosh

theorem C02_rule_sqrt (hF : HasDerivAt F f' 0) (h : F 0 ≠ 0) :
    HasDerivAt (fun τ => Real.sqrt (F τ)) (gval "sqrt" (F 0) 0 f' 0) 0 := by
  have : gval "sqrt" (F 0) 0 f' 0 = f' / (2 * Real.sqrt (F 0)) := by rule_eval []
  rw [this]; exact hF.sqrt h

theorem C02_rule_atan (hF : HasDerivAt F f' 0) :
    HasDerivAt (fun τ => Real.arctan (F τ)) (gval "atan" (F 0) 0 f' 0) 0 := by
  have : gval "atan" (F 0) 0 f' 0 = 1 / (1 + F 0 ^ 2) * f' := by
    rule_eval []; ring
  rw [this]; exact hF.arctan

theorem rpow_two (x : ℝ) : x ^ (2:ℝ) = x ^ 2 := by
  rw [show ((2:ℝ)) = ((2:ℕ):ℝ) by norm_num, Real.rpow_natCast]

/-- general power f^g with positive base -/
theorem C02_rule_power (hF : HasDerivAt F f' 0) (hG : HasDerivAt G g' 0) (h : 0 < F 0) :
    HasDerivAt (fun τ => F τ ^ G τ) (gval "power" (F 0) (G 0) f' g') 0 := by
  have : gval "power" (F 0) (G 0) f' g' = f' * G 0 * F 0 ^ (G 0 - 1) + g' * F 0 ^ G 0 * Real.log (F 0) := by
    rule_eval []
    have e : F 0 ^ G 0 = F 0 ^ (-1 + G 0) * F 0 := by
      rw [← Real.rpow_add_one (ne_of_gt h)]; congr 1; ring
    rw [e, show G 0 - 1 = -1 + G 0 by ring]; ring
  rw [this]; exact hF.rpow hG h

/-- integer and real constant exponents (the code folds the exponent) -/
theorem C02_rule_power2 (hF : HasDerivAt F f' 0) :
    HasDerivAt (fun τ => F τ ^ 2) (gval "power2" (F 0) 0 f' 0) 0 := by
  have : gval "power2" (F 0) 0 f' 0 = 2 * F 0 ^ (2 - 1) * f' := by rule_eval []; ring
  rw [this]; exact hF.pow 2

theorem C02_rule_power3 (hF : HasDerivAt F f' 0) :
    HasDerivAt (fun τ => F τ ^ 3) (gval "power3" (F 0) 0 f' 0) 0 := by
  have : gval "power3" (F 0) 0 f' 0 = 3 * F 0 ^ (3 - 1) * f' := by rule_eval [rpow_two]; ring
  rw [this]; exact hF.pow 3

theorem C02_rule_power_real (hF : HasDerivAt F f' 0) (h : F 0 ≠ 0) :
    HasDerivAt (fun τ => F τ ^ (5/2 : ℝ)) (gval "powerHalf5" (F 0) 0 f' 0) 0 := by
  have : gval "powerHalf5" (F 0) 0 f' 0 = f' * (5/2) * F 0 ^ ((5/2 : ℝ) - 1) := by
    rule_eval []; rw [show ((5:ℝ)/2 - 1) = 3/2 by norm_num]; ring
  rw [this]; exact hF.rpow_const (Or.inl h)

theorem C02_rule_abs (hF : HasDerivAt F f' 0) (h : F 0 ≠ 0) :
    HasDerivAt (fun τ => |F τ|) (gval "abs" (F 0) 0 f' 0) 0 := by
  rcases lt_or_gt_of_ne h with hn | hp
  · have : gval "abs" (F 0) 0 f' 0 = -1 * f' := by rule_eval [h, hn] <;> try ring
    rw [this]; exact (hasDerivAt_abs_neg hn).comp 0 hF
  · have : gval "abs" (F 0) 0 f' 0 = 1 * f' := by rule_eval [h, not_lt.mpr hp.le]
    rw [this]; exact (hasDerivAt_abs_pos hp).comp 0 hF

/-- tan: the code writes sec² as 2 / (1 + cos 2f) -/
theorem C02_rule_tan (hF : HasDerivAt F f' 0) (h : Real.cos (F 0) ≠ 0) :
    HasDerivAt (fun τ => Real.tan (F τ)) (gval "tan" (F 0) 0 f' 0) 0 := by
  have : gval "tan" (F 0) 0 f' 0 = 1 / Real.cos (F 0) ^ 2 * f' := by
    rule_eval []
    have e : 1 + Real.cos (2 * F 0) = 2 * Real.cos (F 0) ^ 2 := by rw [Real.cos_two_mul]; ring
    rw [e]; field_simp
  rw [this]; exact (Real.hasDerivAt_tan h).comp 0 hF

/-- tanh: the code writes sech² as (2 cosh f / (1 + cosh 2f))² -/
theorem C02_rule_tanh (hF : HasDerivAt F f' 0) :
    HasDerivAt (fun τ => Real.tanh (F τ)) (gval "tanh" (F 0) 0 f' 0) 0 := by
  have hc : Real.cosh (F 0) ≠ 0 := ne_of_gt (Real.cosh_pos _)
  have : gval "tanh" (F 0) 0 f' 0 = (Real.cosh (F 0) * f' * Real.cosh (F 0) - Real.sinh (F 0) * (Real.sinh (F 0) * f')) / Real.cosh (F 0) ^ 2 := by
    rule_eval [rpow_two]
    have e : 1 + Real.cosh (2 * F 0) = 2 * Real.cosh (F 0) ^ 2 := by rw [Real.cosh_two_mul, Real.cosh_sq]; ring
    have hs := Real.cosh_sq (F 0)
    rw [e, show Real.cosh (F 0) * f' * Real.cosh (F 0) - Real.sinh (F 0) * (Real.sinh (F 0) * f') = f' * (Real.cosh (F 0) ^ 2 - Real.sinh (F 0) ^ 2) by ring]
    field_simp
    rw [hs]; ring
  rw [this]
  have := (hF.sinh).fun_div (hF.cosh) hc
  simpa [Real.tanh_eq_sinh_div_cosh] using this

theorem C02_rule_asin (hF : HasDerivAt F f' 0) (h1 : F 0 ≠ -1) (h2 : F 0 ≠ 1) :
    HasDerivAt (fun τ => Real.arcsin (F τ)) (gval "asin" (F 0) 0 f' 0) 0 := by
  have : gval "asin" (F 0) 0 f' 0 = 1 / Real.sqrt (1 - F 0 ^ 2) * f' := by
    rule_eval [rpow_two]; rw [← sub_eq_add_neg]; ring
  rw [this]; exact (Real.hasDerivAt_arcsin h1 h2).comp 0 hF

theorem C02_rule_acos (hF : HasDerivAt F f' 0) (h1 : F 0 ≠ -1) (h2 : F 0 ≠ 1) :
    HasDerivAt (fun τ => Real.arccos (F τ)) (gval "acos" (F 0) 0 f' 0) 0 := by
  have : gval "acos" (F 0) 0 f' 0 = -(1 / Real.sqrt (1 - F 0 ^ 2)) * f' := by
    rule_eval [rpow_two]; rw [← sub_eq_add_neg]; ring
  rw [this]; exact (Real.hasDerivAt_arccos h1 h2).comp 0 hF

/-- atan2(f, g) on the half plane g ≠ 0 where it differs from arctan(f/g) by a constant -/
theorem C02_rule_atan2 (hF : HasDerivAt F f' 0) (hG : HasDerivAt G g' 0) (h : G 0 ≠ 0) :
    HasDerivAt (fun τ => Real.arctan (F τ / G τ)) (gval "atan2" (F 0) (G 0) f' g') 0 := by
  have : gval "atan2" (F 0) (G 0) f' g' = 1 / (1 + (F 0 / G 0) ^ 2) * ((f' * G 0 - F 0 * g') / G 0 ^ 2) := by
    rule_eval [rpow_two]
    have hp : F 0 ^ 2 + G 0 ^ 2 ≠ 0 := by positivity
    field_simp
    ring
  rw [this]; exact (hF.fun_div hG h).arctan

/-- conj / real / imag are the identity / zero on real data; restrictions and variables pass the derivative through -/
theorem C02_rule_passthrough (f g f' g' : ℝ) :
    gval "conj" f 0 f' 0 = f' ∧ gval "real" f 0 f' 0 = f' ∧ gval "imag" f 0 f' 0 = 0 ∧ gval "sign" f 0 f' 0 = 0 ∧
    gval "posRestricted" f 0 f' 0 = f' ∧ gval "negRestricted" f 0 f' 0 = f' ∧ gval "variable" f g f' g' = f' * g + f * g' := by
  refine ⟨?_, ?_, ?_, ?_, ?_, ?_, ?_⟩ <;> rule_eval [] <;> ring

theorem C02_rule_power_neg1 (hF : HasDerivAt F f' 0) (h : F 0 ≠ 0) :
    HasDerivAt (fun τ => F τ ^ (-1 : ℝ)) (gval "powerNeg1" (F 0) 0 f' 0) 0 := by
  have : gval "powerNeg1" (F 0) 0 f' 0 = f' * (-1) * F 0 ^ ((-1 : ℝ) - 1) := by
    rule_eval []; rw [show ((-1:ℝ) - 1) = -2 by norm_num]
    have e : F 0 ^ (-2 : ℝ) = (F 0)⁻¹ ^ 2 := by
      rw [show (-2:ℝ) = ((-2:ℤ):ℝ) by norm_num, Real.rpow_intCast]; simp [zpow_neg, inv_pow]
    first | exact Or.inl (by rw [e, inv_pow]) | exact Or.inl trivial | (left; rw [e, inv_pow])
  rw [this]; exact hF.rpow_const (Or.inl h)

/-- conditional(f < g, f, g): away from the switching surface the derivative is that of the active branch -/
theorem C02_rule_conditional (hF : HasDerivAt F f' 0) (hG : HasDerivAt G g' 0) (h : F 0 ≠ G 0) :
    HasDerivAt (fun τ => if F τ < G τ then F τ else G τ) (gval "conditional" (F 0) (G 0) f' g') 0 := by
  rcases lt_or_gt_of_ne h with hlt | hgt
  · have hv : gval "conditional" (F 0) (G 0) f' g' = f' := by rule_eval [hlt]
    rw [hv]
    have ev := hF.continuousAt.eventually_lt hG.continuousAt hlt
    exact hF.congr_of_eventuallyEq (ev.mono fun τ hτ => by simp [hτ])
  · have hv : gval "conditional" (F 0) (G 0) f' g' = g' := by rule_eval [not_lt.mpr hgt.le]
    rw [hv]
    have ev := hG.continuousAt.eventually_lt hF.continuousAt hgt
    exact hG.congr_of_eventuallyEq (ev.mono fun τ hτ => by simp [not_lt.mpr hτ.le])

theorem C02_rule_min (hF : HasDerivAt F f' 0) (hG : HasDerivAt G g' 0) (h : F 0 ≠ G 0) :
    HasDerivAt (fun τ => min (F τ) (G τ)) (gval "minValue" (F 0) (G 0) f' g') 0 := by
  rcases lt_or_gt_of_ne h with hlt | hgt
  · have hv : gval "minValue" (F 0) (G 0) f' g' = f' := by rule_eval [hlt]
    rw [hv]
    have ev := hF.continuousAt.eventually_lt hG.continuousAt hlt
    exact hF.congr_of_eventuallyEq (ev.mono fun τ hτ => by simp [min_eq_left hτ.le])
  · have hv : gval "minValue" (F 0) (G 0) f' g' = g' := by rule_eval [not_lt.mpr hgt.le]
    rw [hv]
    have ev := hG.continuousAt.eventually_lt hF.continuousAt hgt
    exact hG.congr_of_eventuallyEq (ev.mono fun τ hτ => by simp [min_eq_right hτ.le])

theorem C02_rule_max (hF : HasDerivAt F f' 0) (hG : HasDerivAt G g' 0) (h : F 0 ≠ G 0) :
    HasDerivAt (fun τ => max (F τ) (G τ)) (gval "maxValue" (F 0) (G 0) f' g') 0 := by
  rcases lt_or_gt_of_ne h with hlt | hgt
  · have hv : gval "maxValue" (F 0) (G 0) f' g' = g' := by rule_eval [not_lt.mpr hlt.le]
    rw [hv]
    have ev := hF.continuousAt.eventually_lt hG.continuousAt hlt
    exact hG.congr_of_eventuallyEq (ev.mono fun τ hτ => by simp [max_eq_right hτ.le])
  · have hv : gval "maxValue" (F 0) (G 0) f' g' = f' := by rule_eval [hgt]
    rw [hv]
    have ev := hG.continuousAt.eventually_lt hF.continuousAt hgt
    exact hF.congr_of_eventuallyEq (ev.mono fun τ hτ => by simp [max_eq_left hτ.le])

/-- erf: the rule is c · e^{−f²} · f' with c the double nearest to 2/√π (Mathlib has no erf; the analytic
    statement is therefore relative to that derivative formula) -/
theorem C02_rule_erf_form (f f' : ℝ) :
    gval "erf" f 0 f' 0 = f' * ((5081767996463981 / 4503599627370496 : ℝ) * Real.exp (-(f ^ 2))) := by
  rule_eval [rpow_two]

/-! ### the grad family: component k of the rule for grad(op(f, g)) is the Gateaux rule with df[k], dg[k] -/

noncomputable def gradval (name : String) (f g : ℝ) (df dg : List Nat → ℝ) (k : Nat) : ℝ :=
  match grad.find? (·.name == name) with
  | some r => eval (dEnv f g df dg) .none (fun _ => 0) r.out [k]
  | none => 0

macro "grad_eval" "[" extra:Lean.Parser.Tactic.simpLemma,* "]" : tactic =>
  `(tactic| simp [gradval, gval, grad, gateaux, List.find?, dEnv, eval, evalB, evalNth, gradChain, mathName, fi, shape, sumRange, FI.dimOf, FI.insert, FI.merge, FI.remove,
      idxPairs, freeCounts, List.range, List.range.loop, IdxEnv.bind, IdxEnv.set, Idx.resolve, List.zipIdx, $extra,*])

/-- every rule of the spatial-derivative ruleset is, component by component, the rule of the directional one -/
theorem C03_rule_components (f g : ℝ) (df dg : List Nat → ℝ) (k : Nat) :
    ∀ name ∈ ["sum", "product", "division", "power", "power2", "power3", "powerHalf5", "powerNeg1", "abs", "sqrt", "exp", "ln", "sin", "cos", "tan",
        "cosh", "sinh", "tanh", "acos", "asin", "atan", "erf", "atan2", "conditional", "conditionalGe", "minValue", "maxValue", "conj", "real", "imag",
        "sign", "neg", "variable", "posRestricted", "negRestricted"],
      gradval name f g df dg k = gval name f g (df [k]) (dg [k]) := by
  intro name hn
  simp only [List.mem_cons, List.mem_nil_iff, or_false] at hn
  rcases hn with rfl | rfl | rfl | rfl | rfl | rfl | rfl | rfl | rfl | rfl | rfl | rfl | rfl | rfl | rfl | rfl | rfl | rfl | rfl | rfl | rfl | rfl |
    rfl | rfl | rfl | rfl | rfl | rfl | rfl | rfl | rfl | rfl | rfl | rfl | rfl
  all_goals (grad_eval [] <;> first | ring1 | (left; ring1) | (congr 1; ring1) | (split_ifs <;> ring1) | simp | (left; trivial))

/-! ### the variable ruleset: d/dv op(v, v·v) for a scalar variable v (chain rule through both operands) -/

noncomputable def vval (name : String) (v : ℝ) : ℝ :=
  match variableFam.find? (·.name == name) with
  | some r => eval (dEnv v 0 (fun _ => 0) (fun _ => 0)) .none (fun _ => 0) r.out []
  | none => 0

macro "var_eval" "[" extra:Lean.Parser.Tactic.simpLemma,* "]" : tactic =>
  `(tactic| simp [vval, gval, variableFam, gateaux, List.find?, dEnv, eval, evalB, evalNth, gradChain, mathName, fi, shape, sumRange, FI.dimOf, FI.insert, FI.merge, FI.remove,
      idxPairs, freeCounts, List.range, List.range.loop, IdxEnv.bind, IdxEnv.set, Idx.resolve, List.zipIdx, $extra,*])

/-- the expansion of diff(op(v, v·v), v) by the variable ruleset is the directional rule with
    f = v, g = v², f' = 1, g' = 2v — so every `C02_rule_*` theorem applies with F = id, G = (·)² -/
theorem C04_rule_instances (v : ℝ) :
    ∀ name ∈ ["sum", "product", "division", "power", "power2", "power3", "powerHalf5", "powerNeg1", "abs", "sqrt", "exp", "ln", "sin", "cos", "tan",
        "cosh", "sinh", "tanh", "acos", "asin", "atan", "erf", "atan2", "conditional", "conditionalGe", "minValue", "maxValue", "conj", "real", "imag",
        "sign", "neg", "variable", "posRestricted", "negRestricted"],
      vval name v = gval name v (v * v) 1 (v + v) := by
  intro name hn
  simp only [List.mem_cons, List.mem_nil_iff, or_false] at hn
  rcases hn with rfl | rfl | rfl | rfl | rfl | rfl | rfl | rfl | rfl | rfl | rfl | rfl | rfl | rfl | rfl | rfl | rfl | rfl | rfl | rfl | rfl | rfl |
    rfl | rfl | rfl | rfl | rfl | rfl | rfl | rfl | rfl | rfl | rfl | rfl | rfl
  all_goals (var_eval [] <;> first | ring1 | (left; ring1) | (congr 1; ring1) | (split_ifs <;> ring1) | simp | (left; trivial))

/-- example of the composition: d/dv sin(v) = cos(v), d/dv (v · v²) = 3v² through the product rule -/
theorem C04_rule_examples (v : ℝ) :
    HasDerivAt (fun x => Real.sin x) (vval "sin" v) v ∧ HasDerivAt (fun x => x * (x * x)) (vval "product" v) v := by
  have hid : HasDerivAt (fun x : ℝ => x) 1 v := hasDerivAt_id v
  constructor
  · have : vval "sin" v = Real.cos v := by var_eval []
    rw [this]; exact Real.hasDerivAt_sin v
  · have : vval "product" v = 1 * (v * v) + v * (1 * v + v * 1) := by var_eval [] <;> ring
    rw [this]; exact hid.mul (hid.mul hid)

end UflVerif.C02
