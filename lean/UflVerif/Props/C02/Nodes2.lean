import UflVerif.Props.C02.Nodes

/-! C02 (composition) — induction steps, part 2: power, abs, complex parts, conditional, min/max, restrictions. -/
namespace UflVerif.C02
open UflVerif Expr C05 FIlemmas Filter Topology

section main
variable {m : DMode} {ρ : ℝ → Env ℝ} (hfam : ∀ τ, RealEnv (ρ τ))
include hfam

theorem node_power (aux : List Nat) (f g : Expr) (ihf : M1 m ρ f) (ihg : M1 m ρ g) : M1 m ρ (.op .power aux [f, g]) := by
  intro r hw hd ht h hu
  simp only [derivE] at h
  obtain ⟨fp, gp, h1, u1, h2, u2, h3⟩ := bind2_some _ _ _ _ h hu
  simp only [WF, Bool.and_eq_true] at hw
  obtain ⟨⟨⟨wf, wg⟩, tsf⟩, tsg⟩ := hw
  have tf := ts_of wf tsf
  have tg := ts_of wg tsg
  simp only [DOK, Bool.and_eq_true, Bool.not_eq_true'] at hd
  obtain ⟨⟨dkf, dkg⟩, hzf⟩ := hd
  obtain ⟨⟨wfp, sfp, ffp⟩, derf⟩ := ihf fp wf dkf (termHyp_sub m ρ _ _ _ (by decide) ht f (by simp)) h1 u1
  obtain ⟨⟨wgp, sgp, fgp⟩, derg⟩ := ihg gp wg dkg (termHyp_sub m ρ _ _ _ (by decide) ht g (by simp)) h2 u2
  have tfp : TS fp := ⟨wfp, by rw [sfp, tf.2.1], by rw [ffp, tf.2.2]⟩
  have tgp : TS gp := ⟨wgp, by rw [sgp, tg.2.1], by rw [fgp, tg.2.2]⟩
  obtain ⟨tr, ev⟩ := powerRule_ok (ρ 0) (lit0 hfam) tf tg tfp tgp hzf h3 hu
  refine ⟨⟨tr.1, by rw [tr.2.1]; simp [shape], by rw [tr.2.2]; simp [fi, tf.2.2]⟩, fun side ι c hc hs' => ?_⟩
  simp only [Smooth] at hs'
  simp only [shape, List.length_nil] at hc
  obtain rfl := len0 hc
  obtain ⟨s1', s2', hbase⟩ := hs'
  have hF := derf side ι [] (by simp [tf.2.1]) s1'
  have hG := derg side ι [] (by simp [tg.2.1]) s2'
  simp only [eval, hpow hfam]
  rw [ev]
  simp only [hpow hfam, hfn hfam]
  have hln : ∀ x, realFn "Ln" x = Real.log x := by intro x; simp [realFn]
  split
  · -- the exponent's derivative is the literal zero
    rename_i hz
    have hg0 : eval (ρ 0) side ι gp [] = 0 := eval_zero (ρ 0) side ι gp hz []
    rcases hbase with hpos | ⟨i, q, hl, hq⟩
    · have := hF.rpow hG hpos
      rw [hg0] at this
      convert this using 1
      rw [sub_eq_add_neg]; ring
    · have hcst : ∀ τ, eval (ρ τ) side ι g [] = (q : ℝ) := fun τ => litVal_eval (ρ τ) side ι g i q hl []
      have hq' : eval (ρ 0) side ι f [] ≠ 0 ∨ (1 : ℝ) ≤ (q : ℝ) := by
        rcases hq with h | h
        · exact Or.inl h
        · exact Or.inr (by exact_mod_cast h)
      have := hF.rpow_const (p := (q : ℝ)) hq'
      simp only [hcst]
      convert this using 1
      rw [sub_eq_add_neg]
  · rename_i hz
    rcases hbase with hpos | ⟨i, q, hl, _⟩
    · have := hF.rpow hG hpos
      convert this using 1
      rw [hln]
      have e : eval (ρ 0) side ι f [] ^ eval (ρ 0) side ι g [] =
          eval (ρ 0) side ι f [] ^ (eval (ρ 0) side ι g [] + -1) * eval (ρ 0) side ι f [] := by
        rw [← Real.rpow_add_one (ne_of_gt hpos)]; congr 1; ring
      rw [e, sub_eq_add_neg]; ring
    · -- a literal exponent differentiates to the literal zero
      exfalso
      cases g <;> simp [litVal] at hl <;> simp [derivE] at h2 <;> subst h2 <;> simp [isZero] at hz

theorem node_abs (aux : List Nat) (f : Expr) (ihf : M1 m ρ f) : M1 m ρ (.op .abs aux [f]) := by
  intro r hw hd ht h hu
  simp only [derivE] at h
  obtain ⟨df, h1, u1, h2⟩ := bindU_some _ _ _ h hu
  simp only [WF] at hw
  simp only [DOK, DOKL, Bool.and_eq_true, and_true] at hd
  obtain ⟨⟨wdf, sdf, fdf⟩, derf⟩ := ihf df hw hd (termHyp_sub m ρ _ _ _ (by decide) ht f (by simp)) h1 u1
  obtain ⟨tf, tr, ev⟩ := absRule_ok (ρ 0) (lit0 hfam) hw wdf sdf fdf h2 hu
  refine ⟨⟨tr.1, by rw [tr.2.1]; simp [shape, tf.2.1], by rw [tr.2.2]; simp [fi, tf.2.2]⟩, fun side ι c hc hs' => ?_⟩
  simp only [Smooth] at hs'
  simp only [shape, tf.2.1, List.length_nil] at hc
  obtain rfl := len0 hc
  obtain ⟨s1', hne⟩ := hs'
  have hF := derf side ι [] (by simp [tf.2.1]) s1'
  simp only [eval, habs hfam]
  rw [ev]
  simp only [heq hfam, hlt hfam, hre hfam, decide_eq_true_eq]
  rcases lt_or_gt_of_ne hne with hn | hp
  · rw [if_neg hne, if_pos hn]
    exact (hasDerivAt_abs_neg hn).comp 0 hF
  · rw [if_neg hne, if_neg (not_lt.mpr hp.le)]
    exact (hasDerivAt_abs_pos hp).comp 0 hF

theorem node_conj (aux : List Nat) (f : Expr) (ihf : M1 m ρ f) : M1 m ρ (.op .conj aux [f]) := by
  intro r hw hd ht h hu
  simp only [derivE] at h
  obtain ⟨df, h1, u1, h2⟩ := bindU_some _ _ _ h hu
  simp only [WF] at hw
  simp only [DOK, DOKL, Bool.and_eq_true, and_true] at hd
  obtain ⟨⟨wdf, sdf, fdf⟩, derf⟩ := ihf df hw hd (termHyp_sub m ρ _ _ _ (by decide) ht f (by simp)) h1 u1
  obtain ⟨w, s1, f1⟩ := mkConj_wf df r wdf h2 hu
  refine ⟨⟨w, by rw [s1, sdf]; simp [shape], by rw [f1, fdf]; simp [fi]⟩, fun side ι c hc hs' => ?_⟩
  simp only [Smooth] at hs'
  simp only [shape] at hc
  simp only [eval, hconj hfam]
  rw [C05_mkConj (ρ 0) (lit0 hfam) side ι df r h2 hu c, hconj hfam]
  exact derf side ι c hc hs'

theorem node_real (aux : List Nat) (f : Expr) (ihf : M1 m ρ f) : M1 m ρ (.op .real aux [f]) := by
  intro r hw hd ht h hu
  simp only [derivE] at h
  obtain ⟨df, h1, u1, h2⟩ := bindU_some _ _ _ h hu
  simp only [WF] at hw
  simp only [DOK, DOKL, Bool.and_eq_true, and_true] at hd
  obtain ⟨⟨wdf, sdf, fdf⟩, derf⟩ := ihf df hw hd (termHyp_sub m ρ _ _ _ (by decide) ht f (by simp)) h1 u1
  obtain ⟨w, s1, f1⟩ := mkReal_wf df r wdf h2 hu
  refine ⟨⟨w, by rw [s1, sdf]; simp [shape], by rw [f1, fdf]; simp [fi]⟩, fun side ι c hc hs' => ?_⟩
  simp only [Smooth] at hs'
  simp only [shape] at hc
  simp only [eval, hre hfam]
  rw [C05_mkReal (ρ 0) (lit0 hfam) side ι df r h2 hu c, hre hfam]
  exact derf side ι c hc hs'

theorem node_imag (aux : List Nat) (f : Expr) (ihf : M1 m ρ f) : M1 m ρ (.op .imag aux [f]) := by
  intro r hw hd ht h hu
  simp only [derivE] at h
  obtain ⟨df, h1, u1, h2⟩ := bindU_some _ _ _ h hu
  simp only [WF] at hw
  simp only [DOK, DOKL, Bool.and_eq_true, and_true] at hd
  obtain ⟨⟨wdf, sdf, fdf⟩, _⟩ := ihf df hw hd (termHyp_sub m ρ _ _ _ (by decide) ht f (by simp)) h1 u1
  obtain ⟨w, s1, f1⟩ := mkImag_wf df r wdf h2 hu
  refine ⟨⟨w, by rw [s1, sdf]; simp [shape], by rw [f1, fdf]; simp [fi]⟩, fun side ι c _ _ => ?_⟩
  simp only [eval, him hfam]
  rw [C05_mkImag (ρ 0) (lit0 hfam) side ι df r h2 hu c, him hfam]
  exact hasDerivAt_const _ _

theorem node_conditional (aux : List Nat) (p t f : Expr) (iht : M1 m ρ t) (ihf : M1 m ρ f) :
    M1 m ρ (.op .conditional aux [p, t, f]) := by
  intro r hw hd ht h hu
  simp only [derivE] at h
  obtain ⟨dt, df, h1, u1, h2, u2, h3⟩ := bind2_some _ _ _ _ h hu
  simp only [WF, Bool.and_eq_true, beq_iff_eq] at hw
  obtain ⟨⟨⟨⟨wp, wt⟩, wf⟩, hs⟩, hf⟩ := hw
  simp only [DOK, Bool.and_eq_true] at hd
  obtain ⟨⟨wdt, sdt, fdt⟩, dert⟩ := iht dt wt hd.1 (termHyp_cond m ρ aux p t f ht).1 h1 u1
  obtain ⟨⟨wdf, sdf, fdf⟩, derf⟩ := ihf df wf hd.2 (termHyp_cond m ρ aux p t f ht).2 h2 u2
  obtain ⟨w, s1, f1, ev⟩ := conditionalRule_ok (ρ 0) wp wdt wdf (by rw [sdt, sdf, hs]) (by rw [fdt, fdf, hf]) h3
  refine ⟨⟨w, by rw [s1, sdt]; simp [shape], by rw [f1, fdt]; simp [fi]⟩, fun side ι c hc hs' => ?_⟩
  simp only [Smooth] at hs'
  simp only [shape] at hc
  obtain ⟨hev, ht, hf'⟩ := hs'
  simp only [eval]
  rw [ev]
  cases hb : evalB (ρ 0) side ι p with
  | true =>
    simp only [↓reduceIte]
    exact (dert side ι c hc (ht hb)).congr_of_eventuallyEq (hev.mono fun τ hτ => by simp [hτ, hb])
  | false =>
    simp only [Bool.false_eq_true, ↓reduceIte]
    exact (derf side ι c (by rw [← hs]; exact hc) (hf' hb)).congr_of_eventuallyEq (hev.mono fun τ hτ => by simp [hτ, hb])

theorem node_restricted (k : Op) (side0 : Side) (hk : (k = .positiveRestricted ∧ side0 = .plus) ∨ (k = .negativeRestricted ∧ side0 = .minus))
    (aux : List Nat) (f : Expr) (ihf : M1 m ρ f) : M1 m ρ (.op k aux [f]) := by
  intro r hw hd ht h hu
  have hder : derivE m (.op k aux [f]) = bindU (derivE m f) (mkRestricted k) := by
    rcases hk with ⟨rfl, _⟩ | ⟨rfl, _⟩ <;> simp only [derivE]
  rw [hder] at h
  obtain ⟨fp, h1, u1, h2⟩ := bindU_some _ _ _ h hu
  have hw' : WF f = true := by rcases hk with ⟨rfl, _⟩ | ⟨rfl, _⟩ <;> simpa [WF] using hw
  have hd' : DOK m f = true ∧ ∀ d, fp = .term d → d.cls ≠ "PermutationSymbol" := by
    rcases hk with ⟨rfl, _⟩ | ⟨rfl, _⟩
    all_goals
      simp only [DOK, Bool.and_eq_true] at hd
      refine ⟨hd.1, fun d hfp => ?_⟩
      have := hd.2
      rw [h1, hfp] at this
      simpa using this
  obtain ⟨⟨wfp, sfp, ffp⟩, derf⟩ := ihf fp hw' hd'.1 (termHyp_sub m ρ _ _ _ (by rcases hk with ⟨rfl, _⟩ | ⟨rfl, _⟩ <;> decide) ht f (by simp)) h1 u1
  obtain ⟨w, s1, f1, ev⟩ := mkRestricted_ok (ρ 0) hk wfp hd'.2 h2
  have hsh : shape (.op k aux [f]) = shape f := by rcases hk with ⟨rfl, _⟩ | ⟨rfl, _⟩ <;> simp [shape]
  have hfi : fi (.op k aux [f]) = fi f := by rcases hk with ⟨rfl, _⟩ | ⟨rfl, _⟩ <;> simp [fi]
  refine ⟨⟨w, by rw [s1, sfp, hsh], by rw [f1, ffp, hfi]⟩, fun side ι c hc hs' => ?_⟩
  rw [hsh] at hc
  rw [ev]
  rcases hk with ⟨rfl, rfl⟩ | ⟨rfl, rfl⟩
  · simp only [Smooth] at hs'
    simp only [eval]
    exact derf _ ι c hc hs'
  · simp only [Smooth] at hs'
    simp only [eval]
    exact derf _ ι c hc hs'

end main
end UflVerif.C02
