import UflVerif.Props.C02.Nodes5
import UflVerif.Model.DerivCD

/-!
C02 — Gateaux derivatives are the true directional derivatives: the COMPOSITION theorem.

`gateauxD wv e` (Model/Deriv.lean) is the hand model of
`apply_derivatives(CoefficientDerivative(e, ExprList(*w), ExprList(*v), ExprMapping()))`, tied tree-for-tree to the
implementation by the correspondence of harness/props/c02.py.  This file assembles the induction steps of
Nodes*.lean (`deriv_aux`, carried out once for both rulesets — the Gateaux one here, the variable one in Props/C04.lean):
for every well-formed expression of any size and nesting, the tree the model returns evaluates — over ℝ,
with the real interpretation of the math functions — to the derivative at τ = 0 of the value of `e` along the
line `w + τ v` (`C02_gateaux_value_partial`), and has the shape and free indices of `e` (`C02_gateaux_shape`).

Full statement (kept visible): *for every integrand F and whole coefficient(s) w and direction v the expansion of
derivative(F, w, v) has the value d/dτ F(w + τ v) at τ = 0 wherever F is smooth, including repeated derivatives and
user-supplied coefficient derivative relations; if the derivative cannot be represented the expansion raises instead of
returning a wrong value.*  The last part is FALSE of the current code (`C02_cd_grad_counterexample` below); the theorem
is `_partial` in these respects, all explicit:
* no user-supplied relations (`ExprMapping()` is empty in the model);
* the fragment is the one `gateauxD` models without returning the `unsupported` marker (hypothesis `hu`): scalar- and
  tensor-valued index notation, algebra, powers, abs, the twelve real math functions, conditionals, min/max,
  variables, restrictions, gradients of form arguments; erf / atan2 / Bessel functions and derivatives that need
  fresh indices are outside;
* `DOK (.gateaux wv) e` (Model/DerivOK.lean, decidable) — the side conditions under which the constructor
  simplifications performed while building the derivative are covered by the value theorems of C05; the
  correspondence evaluates it on every generated case (it holds in about 99 %).
`Smooth` is the "where F is smooth" of the property statement.
-/
namespace UflVerif.C02
open UflVerif Expr C05 FIlemmas Filter Topology

section assembly
variable {m : DMode} {ρ : ℝ → Env ℝ}

/-- the induction, for both rulesets (`m` = Gateaux with its variables, or the variable ruleset) -/
theorem deriv_aux (hfam : ∀ τ, RealEnv (ρ τ)) : (∀ e, M1 m ρ e) ∧ (∀ xs, M2 m ρ xs) := by
  apply derivE.mutual_induct m (motive_1 := M1 m ρ) (motive_2 := M2 m ρ)
  · intro v; exact node_lit hfam _ (Or.inl ⟨v, rfl⟩)
  · intro n d; exact node_lit hfam _ (Or.inr (Or.inl ⟨n, d, rfl⟩))
  · intro a b c d; exact node_lit hfam _ (Or.inr (Or.inr ⟨a, b, c, d, rfl⟩))
  · intro s f; exact node_zero s f
  · intro is; exact node_mi is
  · intro d; exact node_term d
  · intro aux a l _ _ iha; exact node_variable aux a l iha
  · intro aux a l _ _ _ iha; exact node_variable aux a l iha
  · intro aux a is iha; exact node_indexed hfam aux a is iha
  · intro aux xs hnone _ r _ _ _ h _; simp [derivE, hnone] at h
  · intro aux xs ys hys hany _ r _ _ _ h hu
    simp only [derivE, hys, hany, ↓reduceIte] at h
    exact absurd h (fun h => unsupported_ne h hu)
  · intro aux xs ys hys hnu ih; exact node_listTensor hfam aux xs ys hys hnu ih
  · intro aux a is iha; exact node_componentTensor hfam aux a is iha
  · intro aux a j iha; exact node_indexSum hfam aux a j iha
  · intro aux a b iha ihb; exact node_sum hfam aux a b iha ihb
  · intro aux a b iha ihb; exact node_product hfam aux a b iha ihb
  · intro aux f g ihf ihg; exact node_division hfam aux f g ihf ihg
  · intro aux f g ihf ihg; exact node_power hfam aux f g ihf ihg
  · intro aux f ihf; exact node_abs hfam aux f ihf
  · intro aux f ihf; exact node_conj hfam aux f ihf
  · intro aux f ihf; exact node_real hfam aux f ihf
  · intro aux f ihf; exact node_imag hfam aux f ihf
  · intro aux c t f iht ihf; exact node_conditional hfam aux c t f iht ihf
  · intro aux f g ihf ihg; exact node_min hfam aux f g ihf ihg
  · intro aux f g ihf ihg; exact node_max hfam aux f g ihf ihg
  · intro aux f ihf; exact node_restricted hfam .positiveRestricted .plus (Or.inl ⟨rfl, rfl⟩) aux f ihf
  · intro aux f ihf; exact node_restricted hfam .negativeRestricted .minus (Or.inr ⟨rfl, rfl⟩) aux f ihf
  · intro aux f; exact node_grad aux f
  · intro aux args r _ _ _ h _; simp [derivE] at h
  · intro aux args r _ _ _ h _; simp [derivE] at h
  · intro aux args r _ _ _ h _; simp [derivE] at h
  · intro aux args r _ _ _ h _; simp [derivE] at h
  · intro aux args r _ _ _ h _; simp [derivE] at h
  · intro aux args r _ _ _ h _; simp [derivE] at h
  · intro aux args r _ _ _ h _; simp [derivE] at h
  · intro aux args r _ _ _ h _; simp [derivE] at h
  · intro aux args r _ _ _ h _; simp [derivE] at h
  · intro aux fnk f _ _ _ _ _ _ _ _ _ _ _ _ _ _ _ _ _ val hval ihf
    exact node_math hfam fnk val hval aux f ihf
  · intro aux fnk f h1 h2 h3 h4 h5 h6 h7 h8 h9 h10 h11 h12 h13 h14 h15 h16 h17 hnone r hw
    exfalso
    unfold WF at hw
    split at hw <;> simp_all
  · intro k aux args
    intros
    intro r hw hd _ h hu
    exfalso
    unfold derivE at h
    split at h
    all_goals first
      | exact unsupported_ne h hu
      | (simp_all; done)
  · exact node_nil
  · intro a as x xs hxs hx iha ihas; exact node_cons a as x xs hxs hx iha ihas
  · intro a as hno _ _ ys _ _ _ h _
    unfold derivL at h
    split at h
    · rename_i x xs hx hxs; exact (hno x xs hx hxs).elim
    · cases h

end assembly

/-! ### the line `w + τ v` through an arbitrary real valuation: `GFamily` is satisfiable -/

/-- the valuation `ρ0` with every differentiation variable moved by `τ` times its direction -/
def lineEnv (ρ0 : Env ℝ) (wv : WV) (τ : ℝ) : Env ℝ :=
  { ρ0 with
    term := fun s key c => match wv.get key with
      | some v => ρ0.term s key c + τ * ρ0.term s v.key c
      | none => ρ0.term s key c
    jet := fun s key c ds => match wv.get key with
      | some v => ρ0.jet s key c ds + τ * ρ0.jet s v.key c ds
      | none => ρ0.jet s key c ds }

theorem lineEnv_family (ρ0 : Env ℝ) (h0 : RealEnv ρ0) (wv : WV) : GFamily wv (lineEnv ρ0 wv) where
  real := fun τ => ⟨h0.fn, h0.pow, h0.abs, h0.conj, h0.re, h0.im, h0.i, h0.lt, h0.eq⟩
  term_w := by
    intro τ s key v c hg
    have e0 : ∀ k, (lineEnv ρ0 wv 0).term s k c = ρ0.term s k c := by
      intro k; simp only [lineEnv]; cases wv.get k <;> simp
    rw [e0, e0]; simp [lineEnv, hg]
  term_o := by
    intro τ s key c hg
    simp [lineEnv, hg]
  jet_w := by
    intro τ s key v c ds hg
    have e0 : ∀ k, (lineEnv ρ0 wv 0).jet s k c ds = ρ0.jet s k c ds := by
      intro k; simp only [lineEnv]; cases wv.get k <;> simp
    rw [e0, e0]; simp [lineEnv, hg]
  jet_o := by
    intro τ s key c ds hg
    simp [lineEnv, hg]

/-- the real interpretation with given terminal values and jets -/
noncomputable def realEnv (term : Side → String → List Nat → ℝ) (jet : Side → String → List Nat → List Nat → ℝ) : Env ℝ where
  term := term
  jet := jet
  fn := realFn
  fn2 := fun n x y => if n = "Power" then x ^ y else 0
  abs := fun x => |x|
  conj := id
  re := id
  im := fun _ => 0
  i := 0
  lt := fun x y => decide (x < y)
  eq := fun x y => decide (x = y)

theorem realEnv_real (term : Side → String → List Nat → ℝ) (jet : Side → String → List Nat → List Nat → ℝ) :
    RealEnv (realEnv term jet) :=
  ⟨rfl, fun x y => by simp [realEnv], rfl, rfl, rfl, rfl, rfl, rfl, rfl⟩

/-! ### the theorems -/

/-- **C02, composition (value).**  For every family of real valuations along `w + τ v` (`GFamily`), every well-formed
    expression `e` of any size, every side, index environment and component: if the model of
    `apply_derivatives(CoefficientDerivative(e, w, v, {}))` returns `r` (not the `unsupported` marker), the rebuild side
    conditions `DOK wv e` hold and `e` is smooth at the point (`Smooth`), then the value of `r` is the derivative at
    τ = 0 of the value of `e` along the line. -/
theorem C02_gateaux_value_partial (wv : WV) (ρ : ℝ → Env ℝ) (hfam : GFamily wv ρ) (e r : Expr)
    (hw : WF e = true) (hok : DOK (.gateaux wv) e = true) (h : gateauxD wv e = some r) (hu : isUnsupported r = false)
    (side : Side) (ι : IdxEnv) (c : List Nat) (hc : c.length = (shape e).length) (hs : Smooth ρ side ι e c) :
    HasDerivAt (fun τ => eval (ρ τ) side ι e c) (eval (ρ 0) side ι r c) 0 :=
  ((deriv_aux hfam.real).1 e r hw hok hfam.terms h hu).2 side ι c hc hs

/-- **C02, composition (shape).**  The expanded derivative is well formed and has the shape and the free indices
    (with their extents) of the differentiated expression. -/
theorem C02_gateaux_shape (wv : WV) (e r : Expr) (hw : WF e = true) (hok : DOK (.gateaux wv) e = true)
    (h : gateauxD wv e = some r) (hu : isUnsupported r = false) :
    WF r = true ∧ shape r = shape e ∧ fi r = fi e :=
  ((deriv_aux (lineEnv_family (realEnv (fun _ _ _ => 0) (fun _ _ _ _ => 0)) (realEnv_real _ _) wv).real).1 e r hw hok
    (lineEnv_family (realEnv (fun _ _ _ => 0) (fun _ _ _ _ => 0)) (realEnv_real _ _) wv).terms h hu).1

/-- the same along the explicit line through any real valuation `ρ0`: d/dτ F(w + τ v) at τ = 0, evaluated in `ρ0` -/
theorem C02_gateaux_line (wv : WV) (ρ0 : Env ℝ) (h0 : RealEnv ρ0) (e r : Expr)
    (hw : WF e = true) (hok : DOK (.gateaux wv) e = true) (h : gateauxD wv e = some r) (hu : isUnsupported r = false)
    (side : Side) (ι : IdxEnv) (c : List Nat) (hc : c.length = (shape e).length) (hs : Smooth (lineEnv ρ0 wv) side ι e c) :
    HasDerivAt (fun τ => eval (lineEnv ρ0 wv τ) side ι e c) (eval (lineEnv ρ0 wv 0) side ι r c) 0 :=
  C02_gateaux_value_partial wv _ (lineEnv_family ρ0 h0 wv) e r hw hok h hu side ι c hc hs

/-- **repeated (second) derivatives**: the expanded first derivative is again in the domain of the theorem — it is well
    formed with the shape of `e` — so a second expansion `gateauxD wv' r` (any variables / direction) is the directional
    derivative of the first one. -/
theorem C02_gateaux_second (wv wv' : WV) (ρ : ℝ → Env ℝ) (hfam : GFamily wv' ρ) (e r r2 : Expr)
    (hw : WF e = true) (hok : DOK (.gateaux wv) e = true) (h : gateauxD wv e = some r) (hu : isUnsupported r = false)
    (hok2 : DOK (.gateaux wv') r = true) (h2 : gateauxD wv' r = some r2) (hu2 : isUnsupported r2 = false)
    (side : Side) (ι : IdxEnv) (c : List Nat) (hc : c.length = (shape e).length) (hs : Smooth ρ side ι r c) :
    (WF r2 = true ∧ shape r2 = shape e ∧ fi r2 = fi e) ∧
    HasDerivAt (fun τ => eval (ρ τ) side ι r c) (eval (ρ 0) side ι r2 c) 0 := by
  obtain ⟨wr, sr, fr⟩ := C02_gateaux_shape wv e r hw hok h hu
  obtain ⟨w2, s2, f2⟩ := C02_gateaux_shape wv' r r2 wr hok2 h2 hu2
  exact ⟨⟨w2, by rw [s2, sr], by rw [f2, fr]⟩,
    C02_gateaux_value_partial wv' ρ hfam r r2 wr hok2 h2 hu2 side ι c (by rw [sr]; exact hc) hs⟩

/-- conditions are not differentiable: the expansion raises (`none`) instead of returning a value -/
theorem C02_gateaux_condition_raises (wv : WV) (k : Op) (aux : List Nat) (args : List Expr)
    (hk : k = .eQ ∨ k = .nE ∨ k = .lT ∨ k = .gT ∨ k = .lE ∨ k = .gE ∨ k = .andCondition ∨ k = .orCondition ∨ k = .notCondition) :
    gateauxD wv (.op k aux args) = none := by
  rcases hk with rfl | rfl | rfl | rfl | rfl | rfl | rfl | rfl | rfl <;> simp [gateauxD, derivE]

/-- the "locally constant condition" hypothesis of `Smooth` holds for a strictly decided comparison of two
    expressions that are themselves in the domain of the theorem -/
theorem C02_comparison_locally_constant (wv : WV) (ρ : ℝ → Env ℝ) (hfam : GFamily wv ρ) (k : Op)
    (hk : k = .lT ∨ k = .gT ∨ k = .lE ∨ k = .gE) (aux : List Nat) (a b ra rb : Expr)
    (wa : WF a = true) (wb : WF b = true) (ta : trueScalar a = true) (tb : trueScalar b = true)
    (oka : DOK (.gateaux wv) a = true) (okb : DOK (.gateaux wv) b = true)
    (ha : gateauxD wv a = some ra) (hb : gateauxD wv b = some rb) (ua : isUnsupported ra = false) (ub : isUnsupported rb = false)
    (side : Side) (ι : IdxEnv) (sa : Smooth ρ side ι a []) (sb : Smooth ρ side ι b [])
    (hne : eval (ρ 0) side ι a [] ≠ eval (ρ 0) side ι b []) :
    ∀ᶠ τ in 𝓝 (0 : ℝ), evalB (ρ τ) side ι (.op k aux [a, b]) = evalB (ρ 0) side ι (.op k aux [a, b]) := by
  have tsa := ts_of wa ta
  have tsb := ts_of wb tb
  have hA := (C02_gateaux_value_partial wv ρ hfam a ra wa oka ha ua side ι [] (by simp [tsa.2.1]) sa).continuousAt
  have hB := (C02_gateaux_value_partial wv ρ hfam b rb wb okb hb ub side ι [] (by simp [tsb.2.1]) sb).continuousAt
  rcases lt_or_gt_of_ne hne with hlt' | hgt
  · have ev := hA.eventually_lt hB hlt'
    refine ev.mono fun τ hτ => ?_
    rcases hk with rfl | rfl | rfl | rfl <;>
      simp [evalB, hlt hfam.real, hτ, hlt', not_lt.mpr hτ.le, not_lt.mpr hlt'.le]
  · have ev := hB.eventually_lt hA hgt
    refine ev.mono fun τ hτ => ?_
    rcases hk with rfl | rfl | rfl | rfl <;>
      simp [evalB, hlt hfam.real, hτ, hgt, not_lt.mpr hτ.le, not_lt.mpr hgt.le]

/-! ### user-supplied coefficient derivative relations: where the full statement fails

Full statement (C02): "... including user-supplied coefficient derivative relations.  If the derivative cannot be represented the
expansion raises instead of returning a wrong value."  With `coefficient_derivatives = {f: c}` the coefficient `f` moves along the
line by `τ · (c · v)`, and so does its gradient, by `τ · grad(c · v)`.  The `Grad` handler of the current code returns `Zero` for
`grad(f)` (model `gateauxGradRelated false`; the branch that would use the relation is `if 0:`), i.e. a wrong value instead of
raising: `C02_cd_grad_counterexample`.  The handler that refuses (`gateauxGradRelated true`) satisfies the statement trivially:
`C02_cd_grad_refuses`.  The correspondence records which of the two the implementation is; the finite-difference oracle finds the
wrong values on the implementation itself (known finding `C02:coefficient-derivatives:grad-of-related-coefficient-dropped`);
the restricted statement — no related coefficient under a gradient, here: no relations at all — is `C02_gateaux_value_partial`. -/

def exF : TermData := { cls := "Coefficient", key := "f", shape := [] }
/-- `grad(f)` on a one-dimensional mesh -/
def exGradF : Expr := .op .grad [1] [.term exF]

/-- a family of real valuations in which no differentiation variable occurs in `grad(f)`, but `f` depends on `w` through a
    user-supplied relation, so that the value of `grad(f)` moves with unit speed along the line — and the tree the current
    handler returns for `grad(f)` does not have the derivative as its value -/
theorem C02_cd_grad_counterexample :
    ∃ (ρ : ℝ → Env ℝ) (r : Expr), (∀ τ, RealEnv (ρ τ)) ∧ WF exGradF = true ∧
      gateauxGradRelated false exGradF = some r ∧
      HasDerivAt (fun τ => eval (ρ τ) .none (fun _ => 0) exGradF [0]) 1 0 ∧
      ¬ HasDerivAt (fun τ => eval (ρ τ) .none (fun _ => 0) exGradF [0]) (eval (ρ 0) .none (fun _ => 0) r [0]) 0 := by
  refine ⟨fun τ => realEnv (fun _ _ _ => 0) (fun _ key _ _ => if key = "f" then τ else 0), .zero [1] [],
    fun τ => realEnv_real _ _, by decide, by simp [gateauxGradRelated, exGradF, shape, exF], ?_, ?_⟩
  · have : (fun τ : ℝ => eval (realEnv (fun _ _ _ => 0) (fun _ key _ _ => if key = "f" then τ else 0)) .none (fun _ => 0) exGradF [0]) = fun τ => τ := by
      funext τ; simp [exGradF, eval, gradChain, exF, realEnv]
    rw [this]; exact hasDerivAt_id 0
  · intro h
    have h1 : HasDerivAt (fun τ : ℝ => eval (realEnv (fun _ _ _ => 0) (fun _ key _ _ => if key = "f" then τ else 0)) .none (fun _ => 0) exGradF [0]) 1 0 := by
      have : (fun τ : ℝ => eval (realEnv (fun _ _ _ => 0) (fun _ key _ _ => if key = "f" then τ else 0)) .none (fun _ => 0) exGradF [0]) = fun τ => τ := by
        funext τ; simp [exGradF, eval, gradChain, exF, realEnv]
      rw [this]; exact hasDerivAt_id 0
    have := h.unique h1
    simp [eval] at this

/-- the repaired handler raises: no value is returned, so no wrong value -/
theorem C02_cd_grad_refuses (g : Expr) : gateauxGradRelated true g = none := rfl

/-! ### a non-trivial instance: the hypotheses are satisfiable -/

def exU : TermData := { cls := "Coefficient", key := "u", shape := [2] }
def exV : TermData := { cls := "Coefficient", key := "v", shape := [2], count := 1 }
def exWV : WV := [("u", exV)]
/-- `sin(u[i] u[i]) / (1 + u[0]**2)` -/
def exE : Expr :=
  .op .division [] [
    .op .sin [] [.op .indexSum [] [.op .product [] [.op .indexed [] [.term exU, .mi [.free 7]], .op .indexed [] [.term exU, .mi [.free 7]]], .mi [.free 7]]],
    .op .sum [] [.int 1, .op .power [] [.op .indexed [] [.term exU, .mi [.fixed 0]], .int 2]]]

theorem exE_ok : WF exE = true ∧ DOK (.gateaux exWV) exE = true ∧
    (match gateauxD exWV exE with | some r => !isUnsupported r && !isZero r | none => false) = true := by
  decide +kernel

/-- for the instance: smoothness only asks for the non-zero denominator and (literal exponent 2 ≥ 1) nothing else -/
example (ρ0 : Env ℝ) (h0 : RealEnv ρ0) (hden : 1 + ρ0.term .none "u" [0] ^ (2 : ℝ) ≠ 0) :
    ∃ r, gateauxD exWV exE = some r ∧
      HasDerivAt (fun τ => eval (lineEnv ρ0 exWV τ) .none (fun _ => 0) exE []) (eval (lineEnv ρ0 exWV 0) .none (fun _ => 0) r []) 0 := by
  obtain ⟨hw, hok, hr⟩ := exE_ok
  cases hg : gateauxD exWV exE with
  | none => rw [hg] at hr; simp at hr
  | some r =>
    rw [hg] at hr
    simp only [Bool.and_eq_true, Bool.not_eq_true'] at hr
    refine ⟨r, rfl, C02_gateaux_line exWV ρ0 h0 exE r hw hok hg hr.1 .none (fun _ => 0) [] (by simp [exE, shape]) ?_⟩
    have h00 : ∀ c, (lineEnv ρ0 exWV 0).term .none "u" c = ρ0.term .none "u" c := by
      intro c; simp [lineEnv, exWV, WV.get, List.find?]
    simp only [exE, Smooth, eval, exU, litVal]
    simp only [h00, Idx.resolve, List.map, (lineEnv_family ρ0 h0 exWV).real 0 |>.pow]
    refine ⟨fun _ _ => ⟨trivial, trivial⟩, ⟨trivial, trivial, trivial, ?_⟩, ?_⟩
    · right; exact ⟨true, 2, rfl, Or.inr (by norm_num)⟩
    · simpa using hden

end UflVerif.C02
