import Mathlib.Analysis.SpecialFunctions.Trigonometric.Deriv
import Mathlib.Analysis.SpecialFunctions.Trigonometric.DerivHyp
import Mathlib.Analysis.SpecialFunctions.Trigonometric.ArctanDeriv
import Mathlib.Analysis.SpecialFunctions.Trigonometric.InverseDeriv
import Mathlib.Analysis.SpecialFunctions.ExpDeriv
import Mathlib.Analysis.SpecialFunctions.Log.Deriv
import Mathlib.Analysis.SpecialFunctions.Sqrt
import Mathlib.Analysis.SpecialFunctions.Pow.Deriv
import Mathlib.Analysis.Calculus.Deriv.Abs
import UflVerif.Props.C05Rebuild
import UflVerif.Model.Deriv

/-!
C02 (composition) — tools: the real interpretation of the abstract functions of a valuation, the
one-parameter family `w + τ v`, and the constructor lemmas in the form the composition proof uses
(what a modelled constructor returns is well formed, has the shape / free indices of the plain node
and its value), all derived from the rebuild-soundness theorem of C05.
-/
namespace UflVerif.C02
open UflVerif Expr C05 FIlemmas

/-- the real functions behind the UFL math function classes (the table of `dEnv` in Rules.lean) -/
noncomputable def realFn (n : String) (x : ℝ) : ℝ :=
  if n = "Sqrt" then Real.sqrt x else if n = "Exp" then Real.exp x else if n = "Ln" then Real.log x
  else if n = "Cos" then Real.cos x else if n = "Sin" then Real.sin x else if n = "Tan" then Real.tan x
  else if n = "Cosh" then Real.cosh x else if n = "Sinh" then Real.sinh x else if n = "Tanh" then Real.tanh x
  else if n = "Acos" then Real.arccos x else if n = "Asin" then Real.arcsin x else if n = "Atan" then Real.arctan x
  else 0

/-- a valuation over ℝ is the real interpretation: math functions, real powers, |.|, trivial complex structure -/
structure RealEnv (ρ : Env ℝ) : Prop where
  fn : ρ.fn = realFn
  pow : ∀ x y, ρ.fn2 "Power" x y = x ^ y
  abs : ρ.abs = fun x => |x|
  conj : ρ.conj = id
  re : ρ.re = id
  im : ρ.im = fun _ => 0
  /-- no imaginary unit: complex literals are read as their real part -/
  i : ρ.i = 0
  lt : ρ.lt = fun x y => decide (x < y)
  eq : ρ.eq = fun x y => decide (x = y)

theorem litSem_real (ρ : Env ℝ) (h : RealEnv ρ) : LitSem ρ where
  pow_lit := by
    intro x n
    rw [h.pow, ratPowInt_cast, Real.rpow_intCast]
  pow_zero_exp := by intro x; rw [h.pow, Real.rpow_zero]
  pow_one_exp := by intro x; rw [h.pow, Real.rpow_one]
  pow_zero_base := by
    intro q hq
    rw [h.pow]
    exact Real.zero_rpow (by exact_mod_cast (ne_of_gt hq))
  abs_lit := by
    intro q
    rw [h.abs]
    by_cases hq : q < 0
    · have : (q : ℝ) < 0 := by exact_mod_cast hq
      simp [hq, abs_of_neg this]
    · have : (0 : ℝ) ≤ (q : ℝ) := by exact_mod_cast (not_lt.mp hq)
      simp [hq, abs_of_nonneg this]
  abs_abs := by intro x; simp [h.abs]
  abs_conj := by intro x; simp [h.abs, h.conj]
  conj_lit := by intro q; simp [h.conj]
  conj_conj := by intro x; simp [h.conj]
  conj_abs := by intro x; simp [h.conj]
  conj_re := by intro x; simp [h.conj]
  conj_im := by intro x; simp [h.conj]
  re_lit := by intro q; simp [h.re]
  im_lit := by intro q; simp [h.im]
  im_re := by intro x; simp [h.im]
  im_im := by intro x; simp [h.im]
  im_abs := by intro x; simp [h.im]

/-! ### the uniform constructor lemma -/

/-- `rebuild_sound_partial` with equality of free-index lists (both sides are sorted) and the
    side-independent parts pulled out -/
theorem rb (ρ : Env ℝ) (hρ : LitSem ρ) (k : Op) (args : List Expr) (r : Expr)
    (hw : WF (.op k [] args) = true) (hy : RebuildSC k args = true)
    (h : rebuild k [] args = some r) (hu : isUnsupported r = false) :
    WF r = true ∧ shape r = shape (.op k [] args) ∧ fi r = fi (.op k [] args) ∧
    ∀ s ι c, c.length = (shape (.op k [] args)).length → eval ρ s ι r c = eval ρ s ι (.op k [] args) c := by
  obtain ⟨_, hs, hf, hwr⟩ := rebuild_sound_partial ρ hρ .none (fun _ => 0) k [] args r hw hy h hu
  refine ⟨hwr, hs, FIeq_eq _ _ (fi_sorted r hwr) (fi_sorted _ hw) hf, ?_⟩
  intro s ι c hc
  exact (rebuild_sound_partial ρ hρ s ι k [] args r hw hy h hu).1 c hc

/-- well formed true scalar -/
def TS (x : Expr) : Prop := WF x = true ∧ shape x = [] ∧ fi x = []

theorem TS.ts {x : Expr} (h : TS x) : trueScalar x = true := by simp [trueScalar, h.2.1, h.2.2]

theorem ts_of {x : Expr} (hw : WF x = true) (h : trueScalar x = true) : TS x := by
  simp only [trueScalar, Bool.and_eq_true, List.isEmpty_iff] at h
  exact ⟨hw, h.1, h.2⟩


/-! ### constructor lemmas -/
section ctor
variable (ρ : Env ℝ) (hρ : LitSem ρ)

theorem has_nil (i : Nat) : FI.has i [] = false := rfl

theorem sharesIndex_nil_right (f : FI) : sharesIndex f [] = false := by
  simp [sharesIndex, FI.has]

theorem dimsAgree_of_not_shares (f g : FI) (h : sharesIndex f g = false) : dimsAgree f g = true := by
  simp only [sharesIndex, List.any_eq_false] at h
  simp only [dimsAgree, List.all_eq_true, Bool.or_eq_true, Bool.not_eq_true']
  intro p hp
  left
  simpa using h p hp

theorem merge_nil_right (f : FI) : FI.merge f [] = f := rfl

theorem eq_nil_of_not_has (f : FI) (h : ∀ i, FI.has i f = false) : f = [] := by
  cases f with
  | nil => rfl
  | cons p ps => have := h p.1; simp [FI.has] at this

theorem merge_nil_left (f : FI) (hs : Sorted f) : FI.merge [] f = f := by
  apply FIeq_eq _ _ (merge_sorted [] f sorted_nil) hs
  intro i
  refine ⟨by rw [has_merge]; simp [FI.has], ?_⟩
  by_cases hi : FI.has i f = true
  · rw [dimOf_merge_right [] f i sorted_nil (by simp [FI.has])]
  · have hi' : FI.has i f = false := by simpa using hi
    rw [dim_nothas _ _ hi', dim_nothas]
    rw [has_merge, hi']; rfl

include hρ in
theorem mkSum_ok {a b r : Expr} (wa : WF a = true) (wb : WF b = true)
    (h : mkSum a b = some r) (hu : isUnsupported r = false) :
    WF r = true ∧ shape r = shape a ∧ fi r = fi a ∧ ∀ s ι c, eval ρ s ι r c = eval ρ s ι a c + eval ρ s ι b c := by
  have hw := mkSum_wf a b r wa wb h hu
  have h0 := C05_mkSum ρ .none (fun _ => 0) a b r h hu
  exact ⟨hw, h0.2.1, h0.2.2, fun s ι c => (C05_mkSum ρ s ι a b r h hu).1 c⟩

include hρ in
theorem mkProduct_ok {a b r : Expr} (wa : WF a = true) (wb : WF b = true) (sa : shape a = []) (sb : shape b = [])
    (hd : dimsAgree (fi a) (fi b) = true) (h : mkProduct a b = some r) (hu : isUnsupported r = false) :
    WF r = true ∧ shape r = [] ∧ fi r = FI.merge (fi a) (fi b) ∧ ∀ s ι, eval ρ s ι r [] = eval ρ s ι a [] * eval ρ s ι b [] := by
  have hw : WF (.op .product [] [a, b]) = true := by simp [WF, wa, wb, sa, sb, hd]
  obtain ⟨w, s1, f1, ev⟩ := rb ρ hρ .product [a, b] r hw rfl h hu
  refine ⟨w, by simpa [shape] using s1, by simpa [fi] using f1, fun s ι => ?_⟩
  have := ev s ι [] (by simp [shape])
  simpa [eval] using this

include hρ in
theorem mkMult_ok {a b r : Expr} (wa : WF a = true) (wb : WF b = true)
    (h : mkMult a b = some r) (hu : isUnsupported r = false) :
    shape a = [] ∧ shape b = [] ∧ WF r = true ∧ shape r = [] ∧ fi r = FI.merge (fi a) (fi b) ∧
    ∀ s ι, eval ρ s ι r [] = eval ρ s ι a [] * eval ρ s ι b [] := by
  unfold mkMult at h
  split at h
  · simp only [Option.some.injEq] at h; subst h; simp [isUnsupported, unsupported] at hu
  · rename_i hsh
    simp only [Bool.or_eq_true, Bool.not_eq_true', List.isEmpty_eq_false_iff, not_or, ne_eq, Decidable.not_not] at hsh
    split at h
    · simp only [Option.some.injEq] at h; subst h; simp [isUnsupported, unsupported] at hu
    · rename_i hsi
      have hsi' : sharesIndex (fi a) (fi b) = false := by simpa using hsi
      exact ⟨hsh.1, hsh.2, mkProduct_ok ρ hρ wa wb hsh.1 hsh.2 (dimsAgree_of_not_shares _ _ hsi') h hu⟩

include hρ in
theorem mkDivision_ok {a b r : Expr} (wa : WF a = true) (tb : TS b)
    (h : mkDivision a b = some r) (hu : isUnsupported r = false) :
    WF r = true ∧ shape r = [] ∧ fi r = fi a ∧ ∀ s ι, eval ρ s ι r [] = eval ρ s ι a [] / eval ρ s ι b [] :=
  ⟨(mkDivision_wf a b r wa tb.1 h hu).1, (mkDivision_wf a b r wa tb.1 h hu).2.1, (mkDivision_wf a b r wa tb.1 h hu).2.2,
   fun s ι => C05_mkDivision ρ s ι a b r h hu⟩

include hρ in
theorem mkPower_ok {a b r : Expr} (ta : TS a) (tb : TS b) (hsc : powSC a b = true)
    (h : mkPower a b = some r) (hu : isUnsupported r = false) :
    TS r ∧ ∀ s ι, eval ρ s ι r [] = ρ.fn2 "Power" (eval ρ s ι a []) (eval ρ s ι b []) :=
  ⟨mkPower_wf a b r ta.1 tb.1 h hu, fun s ι => C05_mkPower ρ hρ s ι a b r hsc h hu []⟩

include hρ in
theorem mkNeg_ok {x r : Expr} (wx : WF x = true) (sx : shape x = [])
    (h : mkNeg x = some r) (hu : isUnsupported r = false) :
    WF r = true ∧ shape r = [] ∧ fi r = fi x ∧ ∀ s ι, eval ρ s ι r [] = - eval ρ s ι x [] := by
  have gen : mkMult (.int (-1)) x = some r →
      WF r = true ∧ shape r = [] ∧ fi r = fi x ∧ ∀ s ι, eval ρ s ι r [] = - eval ρ s ι x [] := by
    intro h'
    obtain ⟨_, _, w, s1, f1, ev⟩ := mkMult_ok ρ hρ (a := .int (-1)) (by simp [WF]) wx h' hu
    refine ⟨w, s1, ?_, fun s ι => ?_⟩
    · rw [f1]; simp only [fi]; exact merge_nil_left _ (fi_sorted x wx)
    · rw [ev]; simp [eval]
  unfold mkNeg at h
  split at h
  · simp only [Option.some.injEq] at h; subst h
    exact ⟨wx, sx, rfl, fun s ι => by simp [eval]⟩
  · simp only [Option.some.injEq] at h; subst h
    exact ⟨by simp [WF], rfl, rfl, fun s ι => by simp [eval]⟩
  · simp only [Option.some.injEq] at h; subst h
    exact ⟨by simp [WF], rfl, rfl, fun s ι => by simp [eval]; ring⟩
  · simp only [Option.some.injEq] at h; subst h; simp [isUnsupported, unsupported] at hu
  · exact gen h

include hρ in
theorem mkSub_ok {a b r : Expr} (wa : WF a = true) (wb : WF b = true) (sb : shape b = [])
    (h : mkSub a b = some r) (hu : isUnsupported r = false) :
    WF r = true ∧ shape r = shape a ∧ fi r = fi a ∧ ∀ s ι, eval ρ s ι r [] = eval ρ s ι a [] - eval ρ s ι b [] := by
  unfold mkSub at h
  obtain ⟨nb, h1, u1, h2⟩ := bindU_some _ _ _ h hu
  obtain ⟨w1, _, _, e1⟩ := mkNeg_ok ρ hρ wb sb h1 u1
  obtain ⟨w, s2, f2, e2⟩ := mkSum_ok ρ hρ wa w1 h2 hu
  exact ⟨w, s2, f2, fun s ι => by rw [e2, e1]; ring⟩

theorem mkMath_ok {k : Op} {n : String} (hk : mathName k = some n) {a r : Expr} (wa : WF a = true)
    (h : mkMath k a = some r) (hu : isUnsupported r = false) :
    TS a ∧ TS r ∧ ∀ s ι, eval ρ s ι r [] = ρ.fn n (eval ρ s ι a []) := by
  unfold mkMath at h
  split at h
  · simp only [Option.some.injEq] at h; subst h; simp [isUnsupported, unsupported] at hu
  · split at h
    · cases h
    · rename_i hts
      have hts' : trueScalar a = true := by simpa using hts
      simp only [Option.some.injEq] at h; subst h
      have ta := ts_of wa hts'
      refine ⟨ta, ⟨?_, ?_, ?_⟩, fun s ι => ?_⟩
      · cases k <;> simp_all [WF, mathName]
      · cases k <;> simp_all [shape, mathName]
      · cases k <;> simp_all [fi, mathName, TS]
      · cases k <;> simp_all [eval, mathName]

end ctor

end UflVerif.C02
