import UflVerif.Model.Deriv
import UflVerif.Gen.DerivRules

/-!
C02 — the hand model reproduces the regenerated rule trees.

`Gen/DerivRules.lean` holds, regenerated from /repo on every run, for each scalar operator `op` the expression
`op(f, g)` (`gateauxInputs`) and the tree the real `expand_derivatives(derivative(op(f, g), (f, g), (df, dg)))` returns
(`gateaux`).  `C02_rules_tied` checks by evaluation in the kernel that the hand model `gateauxD` of the traversal,
run on the same input with the two differentiation variables `f ↦ df`, `g ↦ dg`, returns exactly that tree
(modulo the object counters of the four symbols, which the regenerated trees do not record) — or the `unsupported`
marker for the operators outside the modelled fragment (erf, atan2).  So the per-node rules used in the composition
theorem are the rules whose regenerated trees `C02_rule_*` (Rules.lean) prove correct, and a change of a rule in the
implementation breaks this theorem at the next run.
-/
namespace UflVerif.C02
open UflVerif Expr Gen.DerivRules

mutual
/-- forget the object counters of terminals -/
def eraseCount : Expr → Expr
  | .term d => .term { d with count := 0 }
  | .op k aux args => .op k aux (eraseCountL args)
  | e => e
def eraseCountL : List Expr → List Expr
  | [] => []
  | a :: as => eraseCount a :: eraseCountL as
end

def tieWV : WV := [("f", { cls := "Coefficient", key := "df", shape := [], count := 2 }),
                   ("g", { cls := "Coefficient", key := "dg", shape := [], count := 3 })]

/-- 0 = the model raises or differs, 1 = outside the modelled fragment, 2 = identical tree -/
def tieStatus (name : String) (inp : Expr) : Nat :=
  match gateaux.find? (·.name == name), gateauxD tieWV inp with
  | some rule, some r => if isUnsupported r then 1 else if Expr.beq (eraseCount r) rule.out then 2 else 0
  | _, _ => 0

theorem C02_rules_tied :
    gateauxInputs.length = gateaux.length ∧
    (gateauxInputs.all fun p => tieStatus p.1 p.2 ≥ 1) = true ∧
    (gateauxInputs.filter fun p => tieStatus p.1 p.2 = 2).length ≥ 33 := by
  decide +kernel


/-- the same for the variable ruleset: `variableD "lbl"` on `op(v, v·v)`, v = variable(f) with label `lbl` -/
def tieStatusV (name : String) (inp : Expr) : Nat :=
  match variableFam.find? (·.name == name), variableD "lbl" inp with
  | some rule, some r => if isUnsupported r then 1 else if Expr.beq (eraseCount r) rule.out then 2 else 0
  | _, _ => 0

theorem C04_rules_tied :
    variableInputs.length = variableFam.length ∧
    (variableInputs.all fun p => tieStatusV p.1 p.2 ≥ 1) = true ∧
    (variableInputs.filter fun p => tieStatusV p.1 p.2 = 2).length ≥ 33 := by
  decide +kernel

end UflVerif.C02
