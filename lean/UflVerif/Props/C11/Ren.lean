/-
C11 lemmas: the hash data of the model of `compute_form_signature` is the encoding of the renumbered expression
(`sigE env e = enc (renE env e)` when every object of `e` is in the tables `env`).
-/
import UflVerif.Props.C11.Enc

namespace UflVerif.C11
open UflVerif CExpr L Sig Inj

theorem num_found {o : Option Nat} (h : o.isSome = true) : num o = .int (numOr o) := by
  cases o with
  | none => simp at h
  | some k => simp [num, numOr]

theorem sigMesh_enc (env : Env) (m : MeshD) (h : foundMesh env m = true) : sigMesh env m = encMesh (renMesh env m) := by
  simp only [sigMesh, encMesh, renMesh, num_found h]

theorem sigSpace_enc (env : Env) (sp : SpaceD) (h : foundMesh env sp.mesh = true) : sigSpace env sp = encSpace (renSpace env sp) := by
  simp only [sigSpace, encSpace, renSpace, sigMesh_enc env _ h]

theorem sigIdxC_enc (env : Env) (c : Nat) (h : foundIdxC env c = true) : sigIdx env (.free c) = encIdx (.free (renIdxC env c)) := by
  simp only [sigIdx, encIdx, renIdxC]
  simp only [foundIdxC] at h
  cases e : posOf (fun x1 x2 => x1 == x2) c env.idx with
  | none => rw [e] at h; simp at h
  | some k => simp [numOr]

theorem sigIdx_enc (env : Env) (i : Idx) (h : foundIdx env i = true) : sigIdx env i = encIdx (renIdx env i) := by
  cases i with
  | fixed v => simp [sigIdx, encIdx, renIdx]
  | free c => exact sigIdxC_enc env c h

theorem sigTerm_enc (env : Env) (t : CTerm) (h : foundTerm env t = true) : sigTerm env t = encTerm (renTerm env t) := by
  cases t <;> simp only [foundTerm, Bool.and_eq_true] at h
  · simp only [sigTerm, encTerm, renTerm, num_found h.1, sigSpace_enc env _ h.2]
  · simp only [sigTerm, encTerm, renTerm, sigSpace_enc env _ h]
  · simp only [sigTerm, encTerm, renTerm, num_found h.1, sigMesh_enc env _ h.2]
  · have := sigMesh_enc env _ h
    simp only [sigMesh, encMesh, SigData.tup.injEq, List.cons.injEq, and_true, true_and] at this
    simp only [sigTerm, encTerm, renTerm, this.1, renMesh]
  · simp only [sigTerm, encTerm, renTerm, num_found h]
  · simp only [sigTerm, encTerm, renTerm]

theorem map_sigIdx_enc (env : Env) : ∀ (is : List Idx), is.all (foundIdx env) = true → is.map (sigIdx env) = (is.map (renIdx env)).map encIdx
  | [], _ => rfl
  | i :: is, h => by
    simp only [List.all_cons, Bool.and_eq_true] at h
    simp only [List.map_cons, sigIdx_enc env i h.1, map_sigIdx_enc env is h.2]

theorem zeroFI_enc (env : Env) : ∀ (f : List (Nat × Nat)), f.all (fun p => foundIdxC env p.1) = true →
    f.map (fun p => SigData.tup [sigIdx env (.free p.1), .int p.2]) = (renFIC env f).map (fun p => SigData.tup [encIdx (.free p.1), .int p.2])
  | [], _ => rfl
  | p :: f, h => by
    simp only [List.all_cons, Bool.and_eq_true] at h
    simp only [renFIC, List.map_cons, List.cons.injEq]
    exact ⟨by rw [sigIdxC_enc env p.1 h.1], zeroFI_enc env f h.2⟩

theorem renFIC_isEmpty (env : Env) (f : List (Nat × Nat)) : (renFIC env f).isEmpty = f.isEmpty := by
  cases f <;> rfl

theorem sigLeaf_enc (env : Env) {e : CExpr} (ht : e.isTerminal = true) (h : foundE env e = true) :
    sigLeaf env e = encLeaf env.zfix (renE env e) := by
  cases e <;> simp only [CExpr.isTerminal, Bool.false_eq_true] at ht
  · rfl
  · rfl
  · rfl
  · rename_i sh f
    simp only [foundE, Bool.or_eq_true, Bool.not_eq_true'] at h
    cases hz : env.zfix
    · simp [sigLeaf, renE, encLeaf, hz]
    · simp only [hz, Bool.true_eq_false, false_or] at h
      simp only [sigLeaf, renE, encLeaf, hz, if_true, Bool.true_and, renFIC_isEmpty]
      split
      · simp only [encFI, zeroFI_enc env f h]
      · rename_i hf
        have : f = [] := by cases f <;> simp_all
        subst this
        rfl
  · rename_i is
    simp only [foundE] at h
    simp only [sigLeaf, renE, encLeaf, map_sigIdx_enc env is h]
  · rename_i t
    simp only [foundE] at h
    simp only [sigLeaf, renE, encLeaf, sigTerm_enc env t h]

mutual
/-- **the Merkle hash data of an expression is the encoding of the renumbered expression** -/
theorem sigE_enc (env : Env) : ∀ (e : CExpr), foundE env e = true → sigE env e = enc env.zfix (renE env e)
  | .op k aux args, h => by
    simp only [foundE] at h
    simp only [sigE, renE, enc, sigL_enc env args h]
  | .int v, _ => rfl
  | .real n d, _ => rfl
  | .cplx a b c d, _ => rfl
  | .zero sh f, h => by
    have := sigLeaf_enc env (e := .zero sh f) rfl h
    cases hz : env.zfix <;> simp only [sigE, this, renE, hz, enc, if_true, if_false, Bool.false_eq_true]
  | .mi is, h => by
    have := sigLeaf_enc env (e := .mi is) rfl h
    simp only [sigE, this, renE, enc]
  | .term t, h => by
    have := sigLeaf_enc env (e := .term t) rfl h
    simp only [sigE, this, renE, enc]
theorem sigL_enc (env : Env) : ∀ (l : List CExpr), foundL env l = true → sigL env l = encL env.zfix (renL env l)
  | [], _ => rfl
  | a :: as, h => by
    simp only [foundL, Bool.and_eq_true] at h
    simp only [sigL, renL, encL, sigE_enc env a h.1, sigL_enc env as h.2]
end

def foundIntegral (env : Env) (i : CIntegral) : Bool := foundE env i.integrand && foundMesh env i.mesh

theorem sigIntegral_enc (env : Env) (i : CIntegral) (h : foundIntegral env i = true) :
    sigIntegral env i = encIntegral env.zfix (renIntegral env i) := by
  simp only [foundIntegral, Bool.and_eq_true] at h
  simp only [sigIntegral, encIntegral, renIntegral, sigE_enc env _ h.1, sigMesh_enc env _ h.2]

theorem map_sigIntegral_enc (env : Env) : ∀ (f : CForm), f.all (foundIntegral env) = true →
    f.map (sigIntegral env) = (f.map (renIntegral env)).map (encIntegral env.zfix)
  | [], _ => rfl
  | i :: f, h => by
    simp only [List.all_cons, Bool.and_eq_true] at h
    simp only [List.map_cons, sigIntegral_enc env i h.1, map_sigIntegral_enc env f h.2]

end UflVerif.C11
