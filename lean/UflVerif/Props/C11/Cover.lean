/-
C11 lemmas: every object of a form is in the numbering tables `envOf z f` of the form (so no hash data is a failed lookup).
The part that needs an argument is the index numbering: `unique_pre_traversal` (a loop with an explicit stack and a visited
set; the model runs it with fuel `size e`) visits every node of the expression.
-/
import UflVerif.Props.C11.Ren
import UflVerif.Props.C12.Sig

namespace UflVerif.C11
open UflVerif CExpr L Sig Inj UflVerif.C12

/-! ## `CExpr.beq` is equality -/

mutual
theorem beq_eq : ∀ a b : CExpr, CExpr.beq a b = true → a = b
  | .int a, .int b, h => by simp only [CExpr.beq, beq_iff_eq] at h; rw [h]
  | .real a b, .real c d, h => by simp only [CExpr.beq, Bool.and_eq_true, beq_iff_eq] at h; rw [h.1, h.2]
  | .cplx a b c d, .cplx e f g i, h => by
    simp only [CExpr.beq, Bool.and_eq_true, beq_iff_eq] at h
    rw [h.1.1.1, h.1.1.2, h.1.2, h.2]
  | .zero s f, .zero s' f', h => by simp only [CExpr.beq, Bool.and_eq_true, beq_iff_eq] at h; rw [h.1, h.2]
  | .mi a, .mi b, h => by simp only [CExpr.beq, beq_iff_eq] at h; rw [h]
  | .term a, .term b, h => by simp only [CExpr.beq, beq_iff_eq] at h; rw [h]
  | .op k x as, .op k' x' bs, h => by
    simp only [CExpr.beq, Bool.and_eq_true, beq_iff_eq] at h
    rw [h.1.1, h.1.2, beqL_eq as bs h.2]
  | .int _, .real .., h | .int _, .cplx .., h | .int _, .zero .., h | .int _, .mi _, h | .int _, .term _, h | .int _, .op .., h
  | .real .., .int _, h | .real .., .cplx .., h | .real .., .zero .., h | .real .., .mi _, h | .real .., .term _, h | .real .., .op .., h
  | .cplx .., .int _, h | .cplx .., .real .., h | .cplx .., .zero .., h | .cplx .., .mi _, h | .cplx .., .term _, h | .cplx .., .op .., h
  | .zero .., .int _, h | .zero .., .real .., h | .zero .., .cplx .., h | .zero .., .mi _, h | .zero .., .term _, h | .zero .., .op .., h
  | .mi _, .int _, h | .mi _, .real .., h | .mi _, .cplx .., h | .mi _, .zero .., h | .mi _, .term _, h | .mi _, .op .., h
  | .term _, .int _, h | .term _, .real .., h | .term _, .cplx .., h | .term _, .zero .., h | .term _, .mi _, h | .term _, .op .., h
  | .op .., .int _, h | .op .., .real .., h | .op .., .cplx .., h | .op .., .zero .., h | .op .., .mi _, h | .op .., .term _, h => by
    simp [CExpr.beq] at h
theorem beqL_eq : ∀ as bs : List CExpr, CExpr.beqL as bs = true → as = bs
  | [], [], _ => rfl
  | a :: as, b :: bs, h => by
    simp only [CExpr.beqL, Bool.and_eq_true] at h
    rw [beq_eq a b h.1, beqL_eq as bs h.2]
  | [], _ :: _, h => by simp [CExpr.beqL] at h
  | _ :: _, [], h => by simp [CExpr.beqL] at h
end

mutual
theorem beq_refl : ∀ a : CExpr, CExpr.beq a a = true
  | .int _ | .real .. | .cplx .. | .zero .. | .mi _ | .term _ => by simp [CExpr.beq]
  | .op _ _ as => by simp [CExpr.beq, beqL_refl as]
theorem beqL_refl : ∀ as : List CExpr, CExpr.beqL as as = true
  | [] => rfl
  | a :: as => by simp [CExpr.beqL, beq_refl a, beqL_refl as]
end

theorem eqE_iff (a b : CExpr) : eqE a b = true ↔ a = b :=
  ⟨beq_eq a b, fun h => h ▸ beq_refl a⟩

theorem memE_iff (c : CExpr) (vis : List CExpr) : memB eqE c vis = true ↔ c ∈ vis := by
  simp only [memB, List.any_eq_true, eqE_iff]
  constructor
  · rintro ⟨x, hx, rfl⟩; exact hx
  · intro h; exact ⟨c, h, rfl⟩

/-! ## nodes -/

theorem operands_sub_nodes (x c : CExpr) (h : c ∈ x.operands) : c ∈ nodes x := by
  cases x <;> simp only [CExpr.operands, List.not_mem_nil] at h
  rename_i k aux args
  simp only [nodes, List.mem_cons]
  right
  induction args with
  | nil => cases h
  | cons a as ih =>
    simp only [nodesL, List.mem_append]
    rcases List.mem_cons.mp h with rfl | h'
    · exact Or.inl (self_mem_nodes _)
    · exact Or.inr (ih h')

mutual
theorem nodes_trans : ∀ (e x y : CExpr), x ∈ nodes e → y ∈ nodes x → y ∈ nodes e
  | .op k aux args, x, y, hx, hy => by
    simp only [nodes, List.mem_cons] at hx
    rcases hx with rfl | hx
    · exact hy
    · simp only [nodes, List.mem_cons]
      exact Or.inr (nodesL_trans args x y hx hy)
  | .int _, x, y, hx, hy | .real .., x, y, hx, hy | .cplx .., x, y, hx, hy | .zero .., x, y, hx, hy | .mi _, x, y, hx, hy
  | .term _, x, y, hx, hy => by
    simp only [nodes, List.mem_singleton] at hx
    subst hx
    exact hy
theorem nodesL_trans : ∀ (l : List CExpr) (x y : CExpr), x ∈ nodesL l → y ∈ nodes x → y ∈ nodesL l
  | [], x, _, hx, _ => by simp [nodesL] at hx
  | a :: as, x, y, hx, hy => by
    simp only [nodesL, List.mem_append] at hx ⊢
    rcases hx with hx | hx
    · exact Or.inl (nodes_trans a x y hx hy)
    · exact Or.inr (nodesL_trans as x y hx hy)
end

mutual
theorem nodes_length : ∀ e : CExpr, (nodes e).length = e.size
  | .op k aux args => by simp only [nodes, List.length_cons, CExpr.size, nodesL_length args]; omega
  | .int _ | .real .. | .cplx .. | .zero .. | .mi _ | .term _ => by simp [nodes, CExpr.size]
theorem nodesL_length : ∀ l : List CExpr, (nodesL l).length = CExpr.sizeL l
  | [] => rfl
  | a :: as => by simp only [nodesL, List.length_append, CExpr.sizeL, nodes_length a, nodesL_length as]
end

theorem mem_nodes_op {k : Op} {aux : List Nat} {args : List CExpr} {y : CExpr} (h : y ∈ nodes (.op k aux args)) :
    y = .op k aux args ∨ ∃ c ∈ args, y ∈ nodes c := by
  simp only [nodes, List.mem_cons] at h
  rcases h with h | h
  · exact Or.inl h
  · right
    induction args with
    | nil => simp [nodesL] at h
    | cons a as ih =>
      simp only [nodesL, List.mem_append] at h
      rcases h with h | h
      · exact ⟨a, List.mem_cons_self, h⟩
      · obtain ⟨c, hc, hy⟩ := ih h
        exact ⟨c, List.mem_cons_of_mem _ hc, hy⟩

theorem mem_nodes_cases (x y : CExpr) (h : y ∈ nodes x) : y = x ∨ ∃ c ∈ x.operands, y ∈ nodes c := by
  cases x with
  | op k aux args => exact mem_nodes_op h
  | _ => simp only [nodes, List.mem_singleton] at h; exact Or.inl h

/-! ## counting the nodes not yet visited -/

def cnt : List CExpr → List CExpr → Nat
  | [], _ => 0
  | n :: N, vis => (if memB eqE n vis = true then 0 else 1) + cnt N vis

theorem memB_cons (x c : CExpr) (vis : List CExpr) : memB eqE x (c :: vis) = (eqE x c || memB eqE x vis) := by
  simp [memB]

theorem cnt_nil : ∀ N : List CExpr, cnt N [] = N.length
  | [] => rfl
  | n :: N => by simp [cnt, cnt_nil N, memB]; omega

theorem cnt_cons_le (c : CExpr) (vis : List CExpr) : ∀ N : List CExpr, cnt N (c :: vis) ≤ cnt N vis
  | [] => by simp [cnt]
  | n :: N => by
    have ih := cnt_cons_le c vis N
    simp only [cnt, memB_cons]
    cases h1 : eqE n c <;> cases h2 : memB eqE n vis <;> simp <;> omega

theorem cnt_cons_lt (c : CExpr) (vis : List CExpr) (hv : memB eqE c vis = false) : ∀ N : List CExpr, c ∈ N → cnt N (c :: vis) + 1 ≤ cnt N vis
  | [], h => by cases h
  | n :: N, h => by
    have hle := cnt_cons_le c vis N
    simp only [cnt, memB_cons]
    rcases List.mem_cons.mp h with rfl | h'
    · have : eqE c c = true := (eqE_iff c c).mpr rfl
      simp [this, hv]
      omega
    · have ih := cnt_cons_lt c vis hv N h'
      cases h1 : eqE n c <;> cases h2 : memB eqE n vis <;> simp <;> omega

/-! ## `unique_pre_traversal` visits every node -/

theorem pushNew_spec (N : List CExpr) : ∀ (cs stack vis : List CExpr), (∀ c ∈ cs, c ∈ N) →
    (∀ x, x ∈ (pushNew cs stack vis).2 ↔ x ∈ vis ∨ x ∈ cs) ∧
    (∀ x ∈ stack, x ∈ (pushNew cs stack vis).1) ∧
    (∀ x ∈ (pushNew cs stack vis).1, x ∈ stack ∨ x ∈ cs) ∧
    (∀ x ∈ (pushNew cs stack vis).2, x ∈ vis ∨ x ∈ (pushNew cs stack vis).1) ∧
    (pushNew cs stack vis).1.length + cnt N (pushNew cs stack vis).2 ≤ stack.length + cnt N vis
  | [], stack, vis, _ => by simp only [pushNew]; exact ⟨by simp, fun x h => h, fun x h => Or.inl h, fun x h => Or.inl h, Nat.le_refl _⟩
  | c :: cs, stack, vis, hN => by
    have hcs : ∀ c' ∈ cs, c' ∈ N := fun c' h => hN c' (List.mem_cons_of_mem _ h)
    simp only [pushNew]
    cases hv : memB eqE c vis
    · -- c is new
      obtain ⟨h1, h2, h3, h4, h5⟩ := pushNew_spec N cs (c :: stack) (c :: vis) hcs
      simp only [Bool.false_eq_true, if_false]
      refine ⟨?_, ?_, ?_, ?_, ?_⟩
      · intro x
        rw [h1 x]
        simp only [List.mem_cons]
        constructor
        · rintro ((h | h) | h) <;> simp [h]
        · rintro (h | h | h) <;> simp [h]
      · intro x hx
        exact h2 x (List.mem_cons_of_mem _ hx)
      · intro x hx
        rcases h3 x hx with h | h
        · rcases List.mem_cons.mp h with rfl | h'
          · exact Or.inr List.mem_cons_self
          · exact Or.inl h'
        · exact Or.inr (List.mem_cons_of_mem _ h)
      · intro x hx
        rcases h4 x hx with h | h
        · rcases List.mem_cons.mp h with rfl | h'
          · exact Or.inr (h2 x List.mem_cons_self)
          · exact Or.inl h'
        · exact Or.inr h
      · have := cnt_cons_lt c vis hv N (hN c List.mem_cons_self)
        simp only [List.length_cons] at h5
        omega
    · obtain ⟨h1, h2, h3, h4, h5⟩ := pushNew_spec N cs stack vis hcs
      simp only [if_true]
      have hc : c ∈ vis := (memE_iff c vis).mp hv
      refine ⟨?_, h2, ?_, h4, h5⟩
      · intro x
        rw [h1 x]
        simp only [List.mem_cons]
        constructor
        · rintro (h | h) <;> simp [h]
        · rintro (h | rfl | h)
          · exact Or.inl h
          · exact Or.inl hc
          · exact Or.inr h
      · intro x hx
        rcases h3 x hx with h | h
        · exact Or.inl h
        · exact Or.inr (List.mem_cons_of_mem _ h)

def Below (stack vis : List CExpr) (c : CExpr) : Prop :=
  c ∈ vis → ∀ y ∈ nodes c, (y ∈ vis ∧ y ∉ stack) ∨ ∃ s ∈ stack, y ∈ nodes s

theorem below_leaf (stack vis : List CExpr) (e : CExpr) (hn : nodes e = [e]) : Below stack vis e := by
  intro hc y hy
  rw [hn, List.mem_singleton] at hy
  subst hy
  by_cases hs : y ∈ stack
  · exact Or.inr ⟨_, hs, self_mem_nodes _⟩
  · exact Or.inl ⟨hc, hs⟩

mutual
/-- every node below a visited node is visited and off the stack, or below a node that is still on the stack -/
theorem below_visited (stack vis : List CExpr) (hcl : ∀ x ∈ vis, x ∈ stack ∨ ∀ c ∈ x.operands, c ∈ vis) :
    ∀ (c : CExpr), Below stack vis c
  | .op k aux args => by
    intro hc y hy
    by_cases hs : CExpr.op k aux args ∈ stack
    · exact Or.inr ⟨_, hs, hy⟩
    · rcases hcl _ hc with h | h
      · exact absurd h hs
      · rcases mem_nodes_op hy with rfl | ⟨c', hc', hy'⟩
        · exact Or.inl ⟨hc, hs⟩
        · exact below_visitedL stack vis hcl args c' hc' (h c' (by simpa [CExpr.operands] using hc')) y hy'
  | .int v => below_leaf stack vis _ rfl
  | .real n d => below_leaf stack vis _ rfl
  | .cplx a b c d => below_leaf stack vis _ rfl
  | .zero sh f => below_leaf stack vis _ rfl
  | .mi is => below_leaf stack vis _ rfl
  | .term t => below_leaf stack vis _ rfl
theorem below_visitedL (stack vis : List CExpr) (hcl : ∀ x ∈ vis, x ∈ stack ∨ ∀ c ∈ x.operands, c ∈ vis) :
    ∀ (l : List CExpr), ∀ c ∈ l, Below stack vis c
  | [], c, hc => by cases hc
  | a :: as, c, hc => by
    rcases List.mem_cons.mp hc with h | hc'
    · rw [h]; exact below_visited stack vis hcl a
    · exact below_visitedL stack vis hcl as c hc'
end

theorem preLoop_complete (N : List CExpr) (hN : ∀ x ∈ N, ∀ c ∈ x.operands, c ∈ N) :
    ∀ (fuel : Nat) (stack vis : List CExpr), (∀ x ∈ stack, x ∈ vis) → (∀ x ∈ vis, x ∈ N) →
      (∀ x ∈ vis, x ∈ stack ∨ ∀ c ∈ x.operands, c ∈ vis) → stack.length + cnt N vis ≤ fuel →
      ∀ s ∈ stack, ∀ y ∈ nodes s, y ∈ preLoop fuel stack vis ∨ (y ∈ vis ∧ y ∉ stack)
  | 0, stack, vis, _, _, _, hf, s, hs, _, _ => by
    cases stack with
    | nil => cases hs
    | cons t st => simp at hf
  | fuel + 1, [], vis, _, _, _, _, s, hs, _, _ => by cases hs
  | fuel + 1, t :: st, vis, hsv, hvN, hcl, hf, s, hs, y, hy => by
    have htN : ∀ c ∈ t.operands, c ∈ N := hN t (hvN t (hsv t List.mem_cons_self))
    obtain ⟨h1, h2, h3, h4, h5⟩ := pushNew_spec N t.operands st vis htN
    have i1 : ∀ x ∈ (pushNew t.operands st vis).1, x ∈ (pushNew t.operands st vis).2 := by
      intro x hx
      rcases h3 x hx with h | h
      · exact (h1 x).mpr (Or.inl (hsv x (List.mem_cons_of_mem _ h)))
      · exact (h1 x).mpr (Or.inr h)
    have i2 : ∀ x ∈ (pushNew t.operands st vis).2, x ∈ N := by
      intro x hx
      rcases (h1 x).mp hx with h | h
      · exact hvN x h
      · exact htN x h
    have i3 : ∀ x ∈ (pushNew t.operands st vis).2, x ∈ (pushNew t.operands st vis).1 ∨ ∀ c ∈ x.operands, c ∈ (pushNew t.operands st vis).2 := by
      intro x hx
      rcases h4 x hx with h | h
      · rcases hcl x h with h' | h'
        · rcases List.mem_cons.mp h' with rfl | h''
          · exact Or.inr (fun c hc => (h1 c).mpr (Or.inr hc))
          · exact Or.inl (h2 x h'')
        · exact Or.inr (fun c hc => (h1 c).mpr (Or.inl (h' c hc)))
      · exact Or.inl h
    have i4 : (pushNew t.operands st vis).1.length + cnt N (pushNew t.operands st vis).2 ≤ fuel := by
      simp only [List.length_cons] at hf
      omega
    have ih := preLoop_complete N hN fuel _ _ i1 i2 i3 i4
    -- what the rest of the loop guarantees, read at the state before this iteration
    have conv : ∀ y, (y ∈ preLoop fuel (pushNew t.operands st vis).1 (pushNew t.operands st vis).2 ∨
        (y ∈ (pushNew t.operands st vis).2 ∧ y ∉ (pushNew t.operands st vis).1)) →
        y ∈ preLoop (fuel + 1) (t :: st) vis ∨ (y ∈ vis ∧ y ∉ t :: st) := by
      intro y hy
      simp only [preLoop, List.mem_cons]
      rcases hy with h | ⟨hv, hns⟩
      · exact Or.inl (Or.inr h)
      · by_cases hyt : y = t
        · exact Or.inl (Or.inl hyt)
        · right
          refine ⟨?_, ?_⟩
          · rcases h4 y hv with h | h
            · exact h
            · exact absurd h hns
          · rintro (h | h)
            · exact hyt h
            · exact hns (h2 y h)
    rcases List.mem_cons.mp hs with rfl | hs'
    · rcases mem_nodes_cases s y hy with rfl | ⟨c, hc, hyc⟩
      · left; simp [preLoop]
      · have hcv : c ∈ (pushNew s.operands st vis).2 := (h1 c).mpr (Or.inr hc)
        rcases below_visited _ _ i3 c hcv y hyc with h | ⟨s', hs', hys'⟩
        · exact conv y (Or.inr h)
        · exact conv y (ih s' hs' y hys')
    · exact conv y (ih s (h2 s hs') y hy)

/-- **`unique_pre_traversal(e)` lists every node of `e`** (the fuel `size e` of the model is enough) -/
theorem uniquePre_complete (e : CExpr) : ∀ y ∈ nodes e, y ∈ uniquePre e := by
  intro y hy
  have hN : ∀ x ∈ nodes e, ∀ c ∈ x.operands, c ∈ nodes e :=
    fun x hx c hc => nodes_trans e x c hx (operands_sub_nodes x c hc)
  have hfuel : [e].length + cnt (nodes e) [e] ≤ e.size := by
    have := cnt_cons_lt e [] (by simp [memB]) (nodes e) (self_mem_nodes e)
    rw [cnt_nil, nodes_length] at this
    simp only [List.length_cons, List.length_nil]
    omega
  have := preLoop_complete (nodes e) hN e.size [e] [e] (fun x h => h)
    (fun x h => by rw [List.mem_singleton] at h; rw [h]; exact self_mem_nodes e)
    (fun x h => Or.inl h) hfuel e List.mem_cons_self y hy
  rcases this with h | ⟨h1, h2⟩
  · exact h
  · exact absurd h1 h2

/-! ## the index numbering contains every index the hash data looks up -/

/-- the index counts the hash data of a terminal node looks up -/
def idxsOf (z : Bool) : CExpr → List Nat
  | .mi is => is.filterMap fun i => match i with | .free c => some c | .fixed _ => none
  | .zero _ f => if z then f.map (·.1) else []
  | _ => []

theorem mem_addNew (acc : List Nat) (c d : Nat) : d ∈ addNew acc c ↔ d ∈ acc ∨ d = c := by
  unfold addNew
  split
  · rename_i h
    simp only [List.contains_eq_mem, decide_eq_true_eq] at h
    constructor
    · exact Or.inl
    · rintro (h' | rfl)
      · exact h'
      · exact h
  · simp

theorem mem_foldl_seeIdx (d : Nat) : ∀ (is : List Idx) (acc : List Nat), d ∈ is.foldl seeIdx acc ↔ d ∈ acc ∨ Idx.free d ∈ is
  | [], acc => by simp
  | i :: is, acc => by
    rw [List.foldl_cons, mem_foldl_seeIdx d is]
    cases i with
    | fixed v => simp [seeIdx]
    | free c =>
      simp only [seeIdx, mem_addNew, List.mem_cons, Idx.free.injEq]
      constructor
      · rintro ((h | h) | h) <;> simp [h]
      · rintro (h | h | h) <;> simp [h]

theorem mem_foldl_addFI (d : Nat) : ∀ (f : List (Nat × Nat)) (acc : List Nat),
    d ∈ f.foldl (fun a p => addNew a p.1) acc ↔ d ∈ acc ∨ d ∈ f.map (·.1)
  | [], acc => by simp
  | p :: f, acc => by
    rw [List.foldl_cons, mem_foldl_addFI d f]
    simp only [mem_addNew, List.map_cons, List.mem_cons]
    constructor
    · rintro ((h | h) | h) <;> simp [h]
    · rintro (h | h | h) <;> simp [h]

theorem mem_seeNode (z : Bool) (d : Nat) (acc : List Nat) (x : CExpr) : d ∈ seeNode z acc x ↔ d ∈ acc ∨ d ∈ idxsOf z x := by
  cases x <;> simp only [seeNode, idxsOf, List.not_mem_nil, or_false]
  · rename_i sh f
    cases z
    · simp
    · simp only [if_true, mem_foldl_addFI]
  · rename_i is
    rw [mem_foldl_seeIdx]
    simp only [List.mem_filterMap]
    constructor
    · rintro (h | h)
      · exact Or.inl h
      · exact Or.inr ⟨_, h, rfl⟩
    · rintro (h | ⟨i, hi, he⟩)
      · exact Or.inl h
      · cases i <;> simp at he
        subst he
        exact Or.inr hi

theorem mem_foldl_seeNode (z : Bool) (d : Nat) : ∀ (l : List CExpr) (acc : List Nat),
    d ∈ l.foldl (seeNode z) acc ↔ d ∈ acc ∨ ∃ x ∈ l, d ∈ idxsOf z x
  | [], acc => by simp
  | x :: l, acc => by
    rw [List.foldl_cons, mem_foldl_seeNode z d l, mem_seeNode]
    simp only [List.mem_cons, exists_eq_or_imp]
    constructor
    · rintro ((h | h) | h) <;> simp [h]
    · rintro (h | h | h) <;> simp [h]

theorem mem_foldl_integrals (z : Bool) (d : Nat) : ∀ (f : CForm) (acc : List Nat),
    d ∈ f.foldl (fun acc i => (uniquePre i.integrand).foldl (seeNode z) acc) acc ↔
      d ∈ acc ∨ ∃ i ∈ f, ∃ x ∈ uniquePre i.integrand, d ∈ idxsOf z x
  | [], acc => by simp
  | i :: f, acc => by
    rw [List.foldl_cons, mem_foldl_integrals z d f, mem_foldl_seeNode]
    simp only [List.mem_cons, exists_eq_or_imp]
    constructor
    · rintro ((h | h) | h) <;> simp [h]
    · rintro (h | h | h) <;> simp [h]

theorem mem_idxNumbering (z : Bool) (f : CForm) (i : CIntegral) (hi : i ∈ f) (x : CExpr) (hx : x ∈ nodes i.integrand)
    (d : Nat) (hd : d ∈ idxsOf z x) : d ∈ idxNumbering z f := by
  unfold idxNumbering
  rw [mem_foldl_integrals]
  exact Or.inr ⟨i, (mem_sortS _ _ _).mpr hi, x, uniquePre_complete _ x hx, hd⟩

/-! ## lookups -/

theorem posOf_isSome {α : Type} (eq : α → α → Bool) (hrefl : ∀ x, eq x x = true) (x : α) : ∀ l : List α, x ∈ l → (posOf eq x l).isSome = true
  | [], h => by cases h
  | y :: ys, h => by
    simp only [posOf]
    split
    · rfl
    · rcases List.mem_cons.mp h with rfl | h'
      · rename_i hne; exact absurd (hrefl x) hne
      · have := posOf_isSome eq hrefl x ys h'
        cases e : posOf eq x ys with
        | none => rw [e] at this; simp at this
        | some k => simp

theorem mem_dedupS_of_mem {α : Type} [DecidableEq α] (y : α) : ∀ l : List α, y ∈ l → y ∈ dedupS (fun a b => a == b) l
  | [], h => by cases h
  | x :: xs, h => by
    simp only [dedupS, List.mem_cons, List.mem_filter]
    by_cases hyx : y = x
    · exact Or.inl hyx
    · rcases List.mem_cons.mp h with h' | h'
      · exact absurd h' hyx
      · refine Or.inr ⟨mem_dedupS_of_mem y xs h', ?_⟩
        simp only [Bool.not_eq_true', beq_eq_false_iff_ne, ne_eq]
        exact fun e => hyx e.symm

theorem mem_classNumbering (p : CTerm → Bool) (f : CForm) (t : CTerm) (ht : t ∈ formTerms f) (hp : p t = true) :
    t ∈ classNumbering p f := by
  unfold classNumbering
  rw [mem_sortS]
  exact mem_dedupS_of_mem t _ (List.mem_filter.mpr ⟨ht, hp⟩)

theorem found_in (l : List CTerm) (t : CTerm) (h : t ∈ l) : (posOf eqTerm t l).isSome = true :=
  posOf_isSome eqTerm (fun x => by simp [eqTerm]) t l h

theorem memB_eqMesh (m : MeshD) (l : List MeshD) : memB eqMesh m l = true ↔ m ∈ l := by
  simp only [memB, List.any_eq_true, eqMesh, beq_iff_eq]
  constructor
  · rintro ⟨x, hx, rfl⟩; exact hx
  · intro h; exact ⟨m, h, rfl⟩

theorem mem_domainNumbering_integral (f : CForm) (i : CIntegral) (hi : i ∈ f) : i.mesh ∈ domainNumbering f := by
  simp only [domainNumbering, List.mem_append]
  left
  rw [mem_sortS]
  exact mem_dedupS_of_mem _ _ (List.mem_map.mpr ⟨i, hi, rfl⟩)

theorem mem_domainNumbering_term (f : CForm) (t : CTerm) (ht : t ∈ formTerms f) (m : MeshD) (hm : t.mesh? = some m) :
    m ∈ domainNumbering f := by
  simp only [domainNumbering, List.mem_append]
  by_cases h : m ∈ sortS ltMesh (dedupS eqMesh (f.map (·.mesh)))
  · exact Or.inl h
  · right
    rw [mem_sortS]
    apply mem_dedupS_of_mem
    rw [List.mem_filter]
    refine ⟨List.mem_filterMap.mpr ⟨t, ht, hm⟩, ?_⟩
    simp only [Bool.not_eq_true']
    cases hb : memB eqMesh m (sortS ltMesh (dedupS eqMesh (f.map (·.mesh))))
    · rfl
    · exact absurd ((memB_eqMesh _ _).mp hb) h

theorem foundMesh_of_mem (z : Bool) (f : CForm) (m : MeshD) (h : m ∈ domainNumbering f) : foundMesh (envOf z f) m = true :=
  posOf_isSome eqMesh (fun x => by simp [eqMesh]) m _ h

theorem foundTerm_envOf (z : Bool) (f : CForm) (t : CTerm) (ht : t ∈ formTerms f) : foundTerm (envOf z f) t = true := by
  cases t with
  | coeff c sp sh =>
    simp only [foundTerm, Bool.and_eq_true]
    exact ⟨found_in _ _ (mem_classNumbering isCoeff f _ ht rfl), foundMesh_of_mem z f _ (mem_domainNumbering_term f _ ht _ rfl)⟩
  | arg n p sp sh => exact foundMesh_of_mem z f _ (mem_domainNumbering_term f _ ht _ rfl)
  | const c m sh =>
    simp only [foundTerm, Bool.and_eq_true]
    exact ⟨found_in _ _ (mem_classNumbering isConst f _ ht rfl), foundMesh_of_mem z f _ (mem_domainNumbering_term f _ ht _ rfl)⟩
  | geo c m sh => exact foundMesh_of_mem z f _ (mem_domainNumbering_term f _ ht _ rfl)
  | label c => exact found_in _ _ (mem_classNumbering isLabel f _ ht rfl)
  | plain c k sh => rfl

/-! ## every integrand is covered -/

mutual
theorem term_of_node : ∀ (e : CExpr) (t : CTerm), CExpr.term t ∈ nodes e → t ∈ e.terms
  | .op k aux args, t, h => by
    simp only [nodes, List.mem_cons, reduceCtorEq, false_or] at h
    simp only [CExpr.terms]
    exact term_of_nodeL args t h
  | .term u, t, h => by
    simp only [nodes, List.mem_singleton, CExpr.term.injEq] at h
    simp [CExpr.terms, h]
  | .int _, _, h | .real .., _, h | .cplx .., _, h | .zero .., _, h | .mi _, _, h => by simp [nodes] at h
theorem term_of_nodeL : ∀ (l : List CExpr) (t : CTerm), CExpr.term t ∈ nodesL l → t ∈ CExpr.termsL l
  | [], _, h => by simp [nodesL] at h
  | a :: as, t, h => by
    simp only [nodesL, List.mem_append] at h
    simp only [CExpr.termsL, List.mem_append]
    rcases h with h | h
    · exact Or.inl (term_of_node a t h)
    · exact Or.inr (term_of_nodeL as t h)
end

mutual
theorem foundE_of_nodes (env : Env) : ∀ (e : CExpr), (∀ x ∈ nodes e, x.isTerminal = true → foundE env x = true) → foundE env e = true
  | .op k aux args, h => by
    simp only [foundE]
    exact foundL_of_nodes env args (fun x hx => h x (by simp [nodes, hx]))
  | .int _, _ | .real .., _ | .cplx .., _ => rfl
  | .zero sh f, h => h _ (self_mem_nodes _) rfl
  | .mi is, h => h _ (self_mem_nodes _) rfl
  | .term t, h => h _ (self_mem_nodes _) rfl
theorem foundL_of_nodes (env : Env) : ∀ (l : List CExpr), (∀ x ∈ nodesL l, x.isTerminal = true → foundE env x = true) → foundL env l = true
  | [], _ => rfl
  | a :: as, h => by
    simp only [foundL, Bool.and_eq_true]
    exact ⟨foundE_of_nodes env a (fun x hx => h x (by simp [nodesL, hx])),
           foundL_of_nodes env as (fun x hx => h x (by simp [nodesL, hx]))⟩
end

theorem foundIdxC_of_mem (z : Bool) (f : CForm) (c : Nat) (h : c ∈ idxNumbering z f) : foundIdxC (envOf z f) c = true :=
  posOf_isSome (fun a b : Nat => a == b) (fun x => by simp) c _ h

/-- **every object of every integral of a form is in the tables of the form** -/
theorem found_envOf (z : Bool) (f : CForm) (i : CIntegral) (hi : i ∈ f) : foundIntegral (envOf z f) i = true := by
  simp only [foundIntegral, Bool.and_eq_true]
  refine ⟨?_, foundMesh_of_mem z f _ (mem_domainNumbering_integral f i hi)⟩
  apply foundE_of_nodes
  intro x hx hterm
  cases x <;> simp only [CExpr.isTerminal, Bool.false_eq_true] at hterm
  · rfl
  · rfl
  · rfl
  · rename_i sh fi
    simp only [foundE, envOf, Bool.or_eq_true, Bool.not_eq_true', List.all_eq_true]
    cases z
    · exact Or.inl rfl
    · right
      intro p hp
      apply foundIdxC_of_mem
      exact mem_idxNumbering true f i hi _ hx p.1 (by simp only [idxsOf, if_true]; exact List.mem_map.mpr ⟨p, hp, rfl⟩)
  · rename_i is
    simp only [foundE, List.all_eq_true]
    intro j hj
    cases j with
    | fixed v => rfl
    | free c =>
      apply foundIdxC_of_mem
      exact mem_idxNumbering z f i hi _ hx c (by simp only [idxsOf, List.mem_filterMap]; exact ⟨_, hj, rfl⟩)
  · rename_i t
    simp only [foundE]
    apply foundTerm_envOf
    simp only [formTerms, List.mem_flatMap]
    exact ⟨i, hi, term_of_node _ t hx⟩

end UflVerif.C11
