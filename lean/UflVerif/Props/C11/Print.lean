/-
C11 lemmas: between the pre-hash tree and the hex digest.
  * `flatten_inj`: replacing every Merkle node by its digest `H(data)` merges no two trees when `H` is injective.
  * `toks_inj`: Python's `str` of the data (nested tuples / lists of atoms) is uniquely readable at the level of tokens:
    brackets, commas, the trailing comma of a 1-tuple; an f-string is one token made of the tokens of its parts.
-/
import UflVerif.Model.SigInj

namespace UflVerif.C11
open UflVerif Sig Inj

/-! ## digests -/

mutual
theorem flatten_inj {D : Type} (H : Flat D → D) (hH : ∀ x y, H x = H y → x = y) :
    ∀ (a b : SigData), flatten H a = flatten H b → a = b
  | .str s, b, h => by cases b <;> simp_all [flatten]
  | .raw s, b, h => by cases b <;> simp_all [flatten]
  | .int v, b, h => by cases b <;> simp_all [flatten]
  | .none, b, h => by cases b <;> simp_all [flatten]
  | .tup xs, b, h => by
    cases b <;> simp only [flatten, Flat.tup.injEq, reduceCtorEq] at h
    rw [flattenL_inj H hH xs _ h]
  | .lst xs, b, h => by
    cases b <;> simp only [flatten, Flat.lst.injEq, reduceCtorEq] at h
    rw [flattenL_inj H hH xs _ h]
  | .fmt xs, b, h => by
    cases b <;> simp only [flatten, Flat.fmt.injEq, reduceCtorEq] at h
    rw [flattenL_inj H hH xs _ h]
  | .hash d, b, h => by
    cases b <;> simp only [flatten, Flat.dig.injEq, reduceCtorEq] at h
    rw [flatten_inj H hH d _ (hH _ _ h)]
theorem flattenL_inj {D : Type} (H : Flat D → D) (hH : ∀ x y, H x = H y → x = y) :
    ∀ (as bs : List SigData), flattenL H as = flattenL H bs → as = bs
  | [], [], _ => rfl
  | [], _ :: _, h => by simp [flattenL] at h
  | _ :: _, [], h => by simp [flattenL] at h
  | a :: as, b :: bs, h => by
    simp only [flattenL, List.cons.injEq] at h
    rw [flatten_inj H hH a b h.1, flattenL_inj H hH as bs h.2]
end

/-! ## tokens -/

/-- a token that can start the printing of a value: an opening bracket or an atom -/
def startOk {D : Type} : Tok D → Bool
  | .rpar | .rbr | .comma => false
  | _ => true

theorem toks_head {D : Type} (x : Flat D) : ∃ t rest, toks x = t :: rest ∧ startOk t = true := by
  cases x <;> simp [toks, startOk]

theorem toksSeq_cons_head {D : Type} (close : Tok D) (x : Flat D) (xs : List (Flat D)) :
    ∃ t rest, toksSeq close (x :: xs) = t :: rest ∧ startOk t = true := by
  obtain ⟨t, rest, ht, hs⟩ := toks_head x
  cases xs with
  | nil => exact ⟨t, rest ++ [close], by simp [toksSeq, ht], hs⟩
  | cons y r => exact ⟨t, rest ++ .comma :: toksSeq close (y :: r), by simp [toksSeq, ht], hs⟩

/-- unique readability of one value: `P x` -/
def P {D : Type} (x : Flat D) : Prop := ∀ (y : Flat D) (r₁ r₂ : List (Tok D)), toks x ++ r₁ = toks y ++ r₂ → x = y ∧ r₁ = r₂

theorem head_ne {D : Type} {t : Tok D} {rest r₁ : List (Tok D)} {c : Tok D} {r₂ : List (Tok D)} (hs : startOk t = true)
    (hc : startOk c = false) (h : (t :: rest) ++ r₁ = c :: r₂) : False := by
  simp only [List.cons_append, List.cons.injEq] at h
  rw [h.1, hc] at hs
  exact Bool.noConfusion hs

/-- a comma-separated sequence closed by `close` (a closing bracket) is uniquely readable if its items are -/
theorem seq_inj {D : Type} (close : Tok D) (hc : startOk close = false) (hcc : close ≠ Tok.comma) :
    ∀ (xs : List (Flat D)), (∀ x ∈ xs, P x) → ∀ (ys : List (Flat D)) (r₁ r₂ : List (Tok D)),
      toksSeq close xs ++ r₁ = toksSeq close ys ++ r₂ → xs = ys ∧ r₁ = r₂
  | [], _, ys, r₁, r₂, h => by
    cases ys with
    | nil => simp only [toksSeq, List.cons_append, List.nil_append, List.cons.injEq, true_and] at h; exact ⟨rfl, h⟩
    | cons y r =>
      obtain ⟨t, rest, ht, hs⟩ := toksSeq_cons_head close y r
      rw [ht] at h
      simp only [toksSeq, List.cons_append, List.nil_append] at h
      exact (head_ne hs hc h.symm).elim
  | [x], hP, ys, r₁, r₂, h => by
    have hx := hP x List.mem_cons_self
    cases ys with
    | nil =>
      obtain ⟨t, rest, ht, hs⟩ := toks_head x
      simp only [toksSeq, ht, List.cons_append, List.nil_append, List.append_assoc] at h
      exact (head_ne hs hc h).elim
    | cons y r =>
      cases r with
      | nil =>
        simp only [toksSeq, List.append_assoc] at h
        obtain ⟨h1, h2⟩ := hx y _ _ h
        simp only [List.cons_append, List.nil_append, List.cons.injEq, true_and] at h2
        exact ⟨by rw [h1], h2⟩
      | cons y' r' =>
        simp only [toksSeq, List.append_assoc] at h
        obtain ⟨_, h2⟩ := hx y _ _ h
        simp only [List.cons_append, List.nil_append, List.cons.injEq] at h2
        exact absurd h2.1 hcc
  | x :: x' :: r, hP, ys, r₁, r₂, h => by
    have hx := hP x List.mem_cons_self
    cases ys with
    | nil =>
      obtain ⟨t, rest, ht, hs⟩ := toks_head x
      simp only [toksSeq, ht, List.cons_append, List.nil_append, List.append_assoc] at h
      exact (head_ne hs hc h).elim
    | cons y ry =>
      cases ry with
      | nil =>
        simp only [toksSeq, List.append_assoc] at h
        obtain ⟨_, h2⟩ := hx y _ _ h
        simp only [List.cons_append, List.nil_append, List.cons.injEq] at h2
        exact absurd h2.1.symm hcc
      | cons y' r' =>
        simp only [toksSeq, List.append_assoc] at h
        obtain ⟨h1, h2⟩ := hx y _ _ h
        simp only [List.cons_append, List.cons.injEq, true_and] at h2
        obtain ⟨h3, h4⟩ := seq_inj close hc hcc (x' :: r) (fun z hz => hP z (List.mem_cons_of_mem _ hz)) (y' :: r') r₁ r₂ h2
        exact ⟨by rw [h1, h3], h4⟩

theorem tup_inj {D : Type} : ∀ (xs : List (Flat D)), (∀ x ∈ xs, P x) → ∀ (ys : List (Flat D)) (r₁ r₂ : List (Tok D)),
    toksTup xs ++ r₁ = toksTup ys ++ r₂ → xs = ys ∧ r₁ = r₂
  | [], _, ys, r₁, r₂, h => by
    cases ys with
    | nil => simp only [toksTup, List.cons_append, List.nil_append, List.cons.injEq, true_and] at h; exact ⟨rfl, h⟩
    | cons y r =>
      obtain ⟨t, rest, ht, hs⟩ := toks_head y
      cases r <;> simp only [toksTup, ht, List.cons_append, List.nil_append, List.append_assoc] at h <;>
        exact (head_ne hs rfl h.symm).elim
  | [x], hP, ys, r₁, r₂, h => by
    have hx := hP x List.mem_cons_self
    cases ys with
    | nil =>
      obtain ⟨t, rest, ht, hs⟩ := toks_head x
      simp only [toksTup, ht, List.cons_append, List.nil_append, List.append_assoc] at h
      exact (head_ne hs rfl h).elim
    | cons y r =>
      cases r with
      | nil =>
        simp only [toksTup, List.append_assoc] at h
        obtain ⟨h1, h2⟩ := hx y _ _ h
        simp only [List.cons_append, List.nil_append, List.cons.injEq, true_and] at h2
        exact ⟨by rw [h1], h2⟩
      | cons y' r' =>
        simp only [toksTup, List.append_assoc] at h
        obtain ⟨_, h2⟩ := hx y _ _ h
        simp only [List.cons_append, List.nil_append, List.cons.injEq, true_and] at h2
        obtain ⟨t, rest, ht, hs⟩ := toksSeq_cons_head (D := D) .rpar y' r'
        rw [ht] at h2
        exact (head_ne hs rfl h2.symm).elim
  | x :: x' :: r, hP, ys, r₁, r₂, h => by
    have hx := hP x List.mem_cons_self
    cases ys with
    | nil =>
      obtain ⟨t, rest, ht, hs⟩ := toks_head x
      simp only [toksTup, ht, List.cons_append, List.nil_append, List.append_assoc] at h
      exact (head_ne hs rfl h).elim
    | cons y ry =>
      cases ry with
      | nil =>
        simp only [toksTup, List.append_assoc] at h
        obtain ⟨_, h2⟩ := hx y _ _ h
        simp only [List.cons_append, List.nil_append, List.cons.injEq, true_and] at h2
        obtain ⟨t, rest, ht, hs⟩ := toksSeq_cons_head (D := D) .rpar x' r
        rw [ht] at h2
        exact (head_ne hs rfl h2).elim
      | cons y' r' =>
        simp only [toksTup, List.append_assoc] at h
        obtain ⟨h1, h2⟩ := hx y _ _ h
        simp only [List.cons_append, List.cons.injEq, true_and] at h2
        obtain ⟨h3, h4⟩ := seq_inj .rpar rfl (by simp) (x' :: r) (fun z hz => hP z (List.mem_cons_of_mem _ hz)) (y' :: r') r₁ r₂ h2
        exact ⟨by rw [h1, h3], h4⟩

theorem cat_inj {D : Type} : ∀ (xs : List (Flat D)), (∀ x ∈ xs, P x) → ∀ (ys : List (Flat D)), toksCat xs = toksCat ys → xs = ys
  | [], _, ys, h => by
    cases ys with
    | nil => rfl
    | cons y r =>
      obtain ⟨t, rest, ht, _⟩ := toks_head y
      simp [toksCat, ht] at h
  | x :: r, hP, ys, h => by
    cases ys with
    | nil =>
      obtain ⟨t, rest, ht, _⟩ := toks_head x
      simp [toksCat, ht] at h
    | cons y r' =>
      simp only [toksCat] at h
      obtain ⟨h1, h2⟩ := hP x List.mem_cons_self y _ _ h
      rw [h1, cat_inj r (fun z hz => hP z (List.mem_cons_of_mem _ hz)) r' h2]

mutual
theorem toks_P {D : Type} : ∀ (x : Flat D), P x
  | .str s => by intro y r₁ r₂ h; cases y <;> simp_all [toks]
  | .raw s => by intro y r₁ r₂ h; cases y <;> simp_all [toks]
  | .int v => by intro y r₁ r₂ h; cases y <;> simp_all [toks]
  | .none => by intro y r₁ r₂ h; cases y <;> simp_all [toks]
  | .dig d => by intro y r₁ r₂ h; cases y <;> simp_all [toks]
  | .tup xs => by
    intro y r₁ r₂ h
    cases y <;> simp only [toks, List.cons_append, List.cons.injEq, reduceCtorEq, false_and, true_and, List.nil_append] at h
    obtain ⟨h1, h2⟩ := tup_inj xs (toks_PL xs) _ r₁ r₂ h
    exact ⟨by rw [h1], h2⟩
  | .lst xs => by
    intro y r₁ r₂ h
    cases y <;> simp only [toks, List.cons_append, List.cons.injEq, reduceCtorEq, false_and, true_and, List.nil_append] at h
    obtain ⟨h1, h2⟩ := seq_inj .rbr rfl (by simp) xs (toks_PL xs) _ r₁ r₂ h
    exact ⟨by rw [h1], h2⟩
  | .fmt xs => by
    intro y r₁ r₂ h
    cases y <;> simp only [toks, List.cons_append, List.cons.injEq, reduceCtorEq, false_and, true_and, List.nil_append, Tok.fstr.injEq] at h
    exact ⟨by rw [cat_inj xs (toks_PL xs) _ h.1], h.2⟩
theorem toks_PL {D : Type} : ∀ (xs : List (Flat D)), ∀ x ∈ xs, P x
  | [], x, hx => by cases hx
  | a :: as, x, hx => by
    rcases List.mem_cons.mp hx with h | h
    · rw [h]; exact toks_P a
    · exact toks_PL as x h
end

/-- **the printed data is uniquely readable**: two data trees with the same tokens are the same tree -/
theorem toks_inj {D : Type} (x y : Flat D) (h : toks x = toks y) : x = y :=
  (toks_P x y [] [] (by simp [h])).1

end UflVerif.C11
