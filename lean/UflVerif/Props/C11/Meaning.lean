/-
C11 lemmas: what the normal form means.  For a form in which a count identifies its object (`Admissible`: no two different
coefficients / constants / labels with one count, no two different meshes with one id) the renumbering `renE` done by the hash data
is the renaming of counts `CExpr.rename (renOf env)` of Model/Renaming.lean, and that renaming is injective on the counts of the form.
-/
import UflVerif.Props.C11.Cover
import UflVerif.Props.C12.SigData

namespace UflVerif.C11
open UflVerif CExpr L Sig Inj UflVerif.C12

theorem posOf_key {α : Type} [DecidableEq α] (key : α → Nat) (x : α) : ∀ (l : List α), distinctBy key l = true → x ∈ l →
    posOf (fun a b => a == b) x l = posOf (fun a b : Nat => a == b) (key x) (l.map key)
  | [], _, h => by cases h
  | y :: ys, hd, h => by
    simp only [distinctBy, Bool.and_eq_true, List.all_eq_true, Bool.or_eq_true, bne_iff_ne, ne_eq, beq_iff_eq] at hd
    simp only [posOf, List.map_cons]
    by_cases hxy : x = y
    · simp [hxy]
    · have hx : x ∈ ys := by
        rcases List.mem_cons.mp h with h' | h'
        · exact absurd h' hxy
        · exact h'
      have hk : key x ≠ key y := by
        intro e
        rcases hd.1 x hx with h' | h'
        · exact h' e.symm
        · exact hxy h'.symm
      simp only [beq_iff_eq, hxy, if_false, hk]
      rw [posOf_key key x ys hd.2 hx]

theorem mem_of_posOf_isSome {α : Type} [DecidableEq α] (x : α) : ∀ (l : List α), (posOf (fun a b => a == b) x l).isSome = true → x ∈ l
  | [], h => by simp [posOf] at h
  | y :: ys, h => by
    simp only [posOf] at h
    by_cases hxy : x = y
    · simp [hxy]
    · simp only [beq_iff_eq, hxy, if_false, Option.isSome_map] at h
      exact List.mem_cons_of_mem _ (mem_of_posOf_isSome x ys h)

theorem posNat_inj (c c' : Nat) : ∀ (l : List Nat), c ∈ l → c' ∈ l → posNat c l = posNat c' l → c = c'
  | [], h, _, _ => by cases h
  | y :: ys, h, h', e => by
    simp only [posNat, posOf, numOr] at e
    by_cases hc : c = y <;> by_cases hc' : c' = y
    · rw [hc, hc']
    · have hm : c' ∈ ys := by
        rcases List.mem_cons.mp h' with h'' | h''
        · exact absurd h'' hc'
        · exact h''
      have := posOf_isSome (fun a b : Nat => a == b) (fun x => by simp) c' ys hm
      cases e' : posOf (fun a b : Nat => a == b) c' ys with
      | none => rw [e'] at this; simp at this
      | some k => simp [hc, hc', e'] at e
    · have hm : c ∈ ys := by
        rcases List.mem_cons.mp h with h'' | h''
        · exact absurd h'' hc
        · exact h''
      have := posOf_isSome (fun a b : Nat => a == b) (fun x => by simp) c ys hm
      cases e' : posOf (fun a b : Nat => a == b) c ys with
      | none => rw [e'] at this; simp at this
      | some k => simp [hc, hc', e'] at e
    · have hm : c ∈ ys := by
        rcases List.mem_cons.mp h with h'' | h''
        · exact absurd h'' hc
        · exact h''
      have hm' : c' ∈ ys := by
        rcases List.mem_cons.mp h' with h'' | h''
        · exact absurd h'' hc'
        · exact h''
      have s1 := posOf_isSome (fun a b : Nat => a == b) (fun x => by simp) c ys hm
      have s2 := posOf_isSome (fun a b : Nat => a == b) (fun x => by simp) c' ys hm'
      apply posNat_inj c c' ys hm hm'
      simp only [posNat, numOr]
      cases e1 : posOf (fun a b : Nat => a == b) c ys with
      | none => rw [e1] at s1; simp at s1
      | some k =>
        cases e2 : posOf (fun a b : Nat => a == b) c' ys with
        | none => rw [e2] at s2; simp at s2
        | some k' =>
          simp [hc, hc', e1, e2] at e
          simp [e]

/-! ## the renumbering is a renaming of counts -/

theorem eqTerm_fun : eqTerm = fun a b : CTerm => a == b := rfl
theorem eqMesh_fun : eqMesh = fun a b : MeshD => a == b := rfl

theorem renMesh_rename (env : Env) (ha : Admissible env = true) (m : MeshD) (h : foundMesh env m = true) :
    renMesh env m = m.rename (renOf env) := by
  simp only [Admissible, Bool.and_eq_true] at ha
  have hm : m ∈ env.mesh := mem_of_posOf_isSome m _ (by simpa [foundMesh, eqMesh_fun] using h)
  simp only [renMesh, MeshD.rename, renOf, posNat]
  rw [eqMesh_fun, posOf_key (fun m : MeshD => m.id) m env.mesh ha.2 hm]

theorem renSpace_rename (env : Env) (ha : Admissible env = true) (sp : SpaceD) (h : foundMesh env sp.mesh = true) :
    renSpace env sp = sp.rename (renOf env) := by
  simp only [renSpace, SpaceD.rename, renMesh_rename env ha _ h]

theorem renTerm_rename (env : Env) (ha : Admissible env = true) (t : CTerm) (h : foundTerm env t = true) :
    renTerm env t = t.rename (renOf env) := by
  have ha' := ha
  simp only [Admissible, Bool.and_eq_true] at ha'
  cases t <;> simp only [foundTerm, Bool.and_eq_true] at h
  · rename_i c sp sh
    have hm := mem_of_posOf_isSome _ _ (by simpa [eqTerm_fun] using h.1)
    simp only [renTerm, CTerm.rename, renSpace_rename env ha _ h.2]
    rw [eqTerm_fun, posOf_key CTermCount _ env.coeff ha'.1.1.1 hm]
    rfl
  · simp only [renTerm, CTerm.rename, renSpace_rename env ha _ h]
  · rename_i c m sh
    have hm := mem_of_posOf_isSome _ _ (by simpa [eqTerm_fun] using h.1)
    simp only [renTerm, CTerm.rename, renMesh_rename env ha _ h.2]
    rw [eqTerm_fun, posOf_key CTermCount _ env.const ha'.1.1.2 hm]
    rfl
  · simp only [renTerm, CTerm.rename, renMesh_rename env ha _ h]
  · rename_i c
    have hm := mem_of_posOf_isSome _ _ (by simpa [eqTerm_fun] using h)
    simp only [renTerm, CTerm.rename]
    rw [eqTerm_fun, posOf_key CTermCount _ env.label ha'.1.2 hm]
    rfl
  · rfl

theorem renIdx_rename (env : Env) (i : Idx) : renIdx env i = i.rename (renOf env) := by
  cases i <;> rfl

mutual
/-- **on a form in which counts identify objects, the renumbering of the hash data is a renaming of the counts** -/
theorem renE_rename (env : Env) (ha : Admissible env = true) : ∀ (e : CExpr), foundE env e = true →
    (env.zfix = true ∨ NoFreeZero e = true) → renE env e = e.rename (renOf env)
  | .op k aux args, h, hz => by
    simp only [foundE] at h
    simp only [renE, CExpr.rename, renL_rename env ha args h (by simpa [NoFreeZero] using hz)]
  | .int _, _, _ | .real .., _, _ | .cplx .., _, _ => rfl
  | .mi is, _, _ => by
    simp only [renE, CExpr.rename]
    congr 1
    apply List.map_congr_left
    intro i _
    exact renIdx_rename env i
  | .term t, h, _ => by
    simp only [foundE] at h
    simp only [renE, CExpr.rename, renTerm_rename env ha t h]
  | .zero sh f, _, hz => by
    cases hzf : env.zfix
    · simp only [hzf, Bool.false_eq_true, false_or] at hz
      cases f with
      | nil => simp [renE, CExpr.rename, hzf, renFI]
      | cons p f => simp [NoFreeZero, noFreeZero] at hz
    · simp only [renE, CExpr.rename, hzf, if_true, renFIC, renFI]
      rfl
theorem renL_rename (env : Env) (ha : Admissible env = true) : ∀ (l : List CExpr), foundL env l = true →
    (env.zfix = true ∨ NoFreeZeroL l = true) → renL env l = renameL (renOf env) l
  | [], _, _ => rfl
  | a :: as, h, hz => by
    simp only [foundL, Bool.and_eq_true] at h
    have hz1 : env.zfix = true ∨ NoFreeZero a = true := by
      rcases hz with hz | hz
      · exact Or.inl hz
      · simp only [NoFreeZeroL, Bool.and_eq_true] at hz; exact Or.inr hz.1
    have hz2 : env.zfix = true ∨ NoFreeZeroL as = true := by
      rcases hz with hz | hz
      · exact Or.inl hz
      · simp only [NoFreeZeroL, Bool.and_eq_true] at hz; exact Or.inr hz.2
    simp only [renL, renameL, renE_rename env ha a h.1 hz1, renL_rename env ha as h.2 hz2]
end

/-- the normal form is the canonically ordered form with its counts renamed to their numbers, derived data forgotten -/
theorem normalize_is_renaming (z : Bool) (f : CForm) (ha : Admissible (envOf z f) = true) (hz : z = true ∨ FormNoFreeZero f = true) :
    normalize z f = coreForm z ((sortIntegrals f).rename (renOf (envOf z f))) := by
  unfold normalize CForm.rename
  congr 1
  apply List.map_congr_left
  intro i hi
  have him : i ∈ f := (mem_sortS _ _ _).mp hi
  have hfound := found_envOf z f i him
  simp only [foundIntegral, Bool.and_eq_true] at hfound
  have hzi : (envOf z f).zfix = true ∨ NoFreeZero i.integrand = true := by
    rcases hz with hz | hz
    · left; simp [envOf, hz]
    · right
      simp only [FormNoFreeZero, List.all_eq_true] at hz
      exact hz i him
  simp only [renIntegral, CIntegral.rename, renE_rename _ ha _ hfound.1 hzi, renMesh_rename _ ha _ hfound.2]

end UflVerif.C11
