/-
C11 lemmas: the encoding `enc` is injective on normal forms (up to `core`), and `enc ∘ core = enc`.
-/
import UflVerif.Model.SigInj

namespace UflVerif.C11
open UflVerif CExpr L Sig Inj

/-! ## typecodes -/

/-- the typecodes of the generated table are pairwise different -/
theorem codes_nodup : (Gen.Typecodes.table.map (·.2)).Nodup := by decide +kernel

theorem find_some_mem {α : Type} (p : α → Bool) : ∀ (l : List α) (x : α), l.find? p = some x → x ∈ l ∧ p x = true
  | [], _, h => by simp at h
  | y :: ys, x, h => by
    simp only [List.find?_cons] at h
    split at h
    · rename_i hy
      cases h
      exact ⟨List.mem_cons_self, hy⟩
    · have := find_some_mem p ys x h
      exact ⟨List.mem_cons_of_mem _ this.1, this.2⟩

theorem inj_of_nodup_map {α β : Type} (f : α → β) : ∀ (l : List α), (l.map f).Nodup → ∀ x ∈ l, ∀ y ∈ l, f x = f y → x = y
  | [], _, x, hx, _, _, _ => by cases hx
  | a :: as, h, x, hx, y, hy, hxy => by
    simp only [List.map_cons, List.nodup_cons, List.mem_map, not_exists, not_and] at h
    rcases List.mem_cons.mp hx with rfl | hx'
    · rcases List.mem_cons.mp hy with rfl | hy'
      · rfl
      · exact absurd hxy.symm (h.1 y hy')
    · rcases List.mem_cons.mp hy with rfl | hy'
      · exact absurd hxy (h.1 x hx')
      · exact inj_of_nodup_map f as h.2 x hx' y hy' hxy

/-- two known operators with one typecode are one operator -/
theorem op_eq_of_tc {k k' : Op} (hk : opKnown k = true) (hk' : opKnown k' = true)
    (h : Expr.tcOfName k.name = Expr.tcOfName k'.name) : k = k' := by
  simp only [opKnown, Bool.and_eq_true, beq_iff_eq] at hk hk'
  obtain ⟨hf, hc⟩ := hk
  obtain ⟨hf', hc'⟩ := hk'
  unfold Expr.tcOfName at h
  cases e : Gen.Typecodes.table.find? (fun p => p.1 == k.name) with
  | none => rw [e] at hf; simp at hf
  | some p =>
    cases e' : Gen.Typecodes.table.find? (fun p => p.1 == k'.name) with
    | none => rw [e'] at hf'; simp at hf'
    | some q =>
      rw [e, e'] at h
      simp only at h
      have hp := find_some_mem _ _ _ e
      have hq := find_some_mem _ _ _ e'
      have hpq : p = q := inj_of_nodup_map (·.2) _ codes_nodup p hp.1 q hq.1 h
      have hn : k.name = k'.name := by
        have h1 : p.1 = k.name := by simpa using hp.2
        have h2 : q.1 = k'.name := by simpa using hq.2
        rw [← h1, ← h2, hpq]
      rw [← hc, ← hc', hn]

/-! ## leaves -/

theorem natsTup_inj : ∀ (xs ys : List Nat), natsTup xs = natsTup ys → xs = ys := by
  intro xs ys h
  simp only [natsTup, SigData.tup.injEq] at h
  induction xs generalizing ys with
  | nil => cases ys <;> simp_all
  | cons x xs ih =>
    cases ys with
    | nil => simp at h
    | cons y ys =>
      simp only [List.map_cons, List.cons.injEq, SigData.int.injEq, Int.ofNat_eq_natCast, Int.natCast_inj] at h
      rw [h.1, ih ys h.2]

theorem encMesh_inj {m m' : MeshD} (h : encMesh m = encMesh m') : coreMesh m = coreMesh m' := by
  simp only [encMesh, SigData.tup.injEq, List.cons.injEq, SigData.int.injEq, SigData.raw.injEq, Int.natCast_inj, and_true, true_and] at h
  cases m; cases m'
  simp_all [coreMesh]

theorem encSpace_inj {s s' : SpaceD} (h : encSpace s = encSpace s') : coreSpace s = coreSpace s' := by
  simp only [encSpace, SigData.tup.injEq, List.cons.injEq, SigData.str.injEq, and_true, true_and] at h
  have hm := encMesh_inj h.1
  cases s; cases s'
  simp_all [coreSpace]

theorem encIdx_inj {i j : Idx} (h : encIdx i = encIdx j) : i = j := by
  cases i <;> cases j <;> simp only [encIdx, SigData.int.injEq] at h
  · congr 1; omega
  · omega
  · omega
  · congr 1; omega

theorem map_encIdx_inj : ∀ (is js : List Idx), is.map encIdx = js.map encIdx → is = js
  | [], [], _ => rfl
  | [], _ :: _, h => by simp at h
  | _ :: _, [], h => by simp at h
  | i :: is, j :: js, h => by
    simp only [List.map_cons, List.cons.injEq] at h
    rw [encIdx_inj h.1, map_encIdx_inj is js h.2]

theorem encFI_inj : ∀ (f g : List (Nat × Nat)), encFI f = encFI g → f = g := by
  intro f g h
  simp only [encFI, SigData.tup.injEq] at h
  induction f generalizing g with
  | nil => cases g <;> simp_all
  | cons p f ih =>
    cases g with
    | nil => simp at h
    | cons q g =>
      simp only [List.map_cons, List.cons.injEq, SigData.tup.injEq, SigData.int.injEq, and_true, Int.natCast_inj] at h
      have h1 := encIdx_inj h.1.1
      simp only [Idx.free.injEq] at h1
      rw [ih g h.2]
      congr 1
      exact Prod.ext h1 h.1.2

theorem corePart_eq {p p' : Int} (h : (if p < 0 then SigData.none else SigData.int p) = (if p' < 0 then SigData.none else SigData.int p')) :
    corePart p = corePart p' := by
  unfold corePart
  split at h <;> split at h <;> simp_all

theorem encTerm_inj {t u : CTerm} (h : encTerm t = encTerm u) : coreTerm t = coreTerm u := by
  cases t <;> cases u <;> simp only [encTerm, SigData.tup.injEq, SigData.fmt.injEq, SigData.str.injEq, List.cons.injEq, SigData.int.injEq,
    SigData.raw.injEq, Int.natCast_inj, and_true, true_and, reduceCtorEq, and_false, false_and, List.cons_ne_nil] at h
  · rw [coreTerm, coreTerm, h.1, encSpace_inj h.2]
  · rw [coreTerm, coreTerm, h.1, corePart_eq h.2.1, encSpace_inj h.2.2]
  · rw [coreTerm, coreTerm, h.2.2, encMesh_inj h.1, natsTup_inj _ _ h.2.1]
  · rename_i c m sh c' m' sh'
    cases m; cases m'
    simp_all [coreTerm, coreMesh]
  · rw [h]
  · rw [coreTerm, coreTerm, h]

theorem encTerm_ne_int (t : CTerm) (n : Int) : encTerm t ≠ .int n := by
  cases t <;> simp [encTerm]

theorem encLeaf_ne_int (z : Bool) (e : CExpr) (n : Int) : encLeaf z e ≠ .int n := by
  cases e <;> simp only [encLeaf, ne_eq, reduceCtorEq, not_false_eq_true]
  · split <;> simp
  · exact encTerm_ne_int _ n

theorem byRepr_of_str {r r' : String} (h : SigData.str r = SigData.str r') : byRepr r = byRepr r' := by
  simp only [SigData.str.injEq] at h
  rw [h]

/-- a terminal node whose hash data is a string is, up to `core`, the terminal keyed by that string -/
theorem core_of_str (z : Bool) {a : CExpr} (ha : a.isTerminal = true) (wa : wfE a = true) {r : String}
    (h : encLeaf z a = .str r) : core z a = byRepr r := by
  cases a <;> simp only [CExpr.isTerminal, wfE, Bool.false_eq_true] at ha wa
  · simp only [encLeaf, CExpr.toExpr, SigData.str.injEq] at h
    simp only [core, h]
  · simp only [encLeaf, CExpr.toExpr, SigData.str.injEq] at h
    simp only [core, h]
  · rename_i sh f
    by_cases hz : (z && !f.isEmpty) = true
    · simp [encLeaf, hz] at h
    · simp only [encLeaf, hz, if_false, SigData.str.injEq, Bool.false_eq_true] at h
      simp only [core, hz, if_false, h, Bool.false_eq_true]
  · simp [encLeaf] at h
  · rename_i t
    cases t <;> simp [encLeaf, encTerm] at h
    simp [core, coreTerm, byRepr, h]

theorem mi_ne_strHead (is : List Idx) (s : String) (rest : List SigData) : is.map encIdx ≠ SigData.str s :: rest := by
  cases is with
  | nil => simp
  | cons i is => cases i <;> simp [encIdx]

theorem tup_mi_ne_term (is : List Idx) (t : CTerm) : SigData.tup (is.map encIdx) ≠ encTerm t := by
  cases t <;> simp only [encTerm, ne_eq, SigData.tup.injEq, reduceCtorEq, not_false_eq_true]
  all_goals exact mi_ne_strHead _ _ _

theorem zeroTup_ne_term (sh : List Nat) (f : List (Nat × Nat)) (t : CTerm) :
    SigData.tup [.str "Zero", natsTup sh, encFI f] ≠ encTerm t := by
  cases t <;> simp [encTerm, natsTup, encFI]

theorem zero_fi_of_not_str (z : Bool) (sh : List Nat) (f : List (Nat × Nat)) (hs : ¬∃ r, encLeaf z (zero sh f) = SigData.str r) :
    (z && !f.isEmpty) = true := by
  by_cases hz : (z && !f.isEmpty) = true
  · exact hz
  · exact absurd ⟨(Expr.zero sh f).reprOf, by simp only [encLeaf, hz, if_false, Bool.false_eq_true]⟩ hs

/-- the hash data of two terminal nodes agree only if the nodes agree up to `core` -/
theorem encLeaf_inj (z : Bool) {a b : CExpr} (ha : a.isTerminal = true) (hb : b.isTerminal = true)
    (wa : wfE a = true) (wb : wfE b = true) (h : encLeaf z a = encLeaf z b) : core z a = core z b := by
  -- one side is a string: both are the terminal keyed by it
  by_cases hs : ∃ r, encLeaf z a = .str r
  · obtain ⟨r, hr⟩ := hs
    rw [core_of_str z ha wa hr, core_of_str z hb wb (h ▸ hr)]
  by_cases hs' : ∃ r, encLeaf z b = .str r
  · obtain ⟨r, hr⟩ := hs'
    rw [core_of_str z hb wb hr, core_of_str z ha wa (h ▸ hr)]
  cases a <;> simp only [CExpr.isTerminal, wfE, Bool.false_eq_true] at ha wa
  · exact absurd ⟨_, rfl⟩ hs
  · exact absurd ⟨_, rfl⟩ hs
  all_goals cases b <;> simp only [CExpr.isTerminal, wfE, Bool.false_eq_true] at hb wb
  all_goals first
    | exact absurd ⟨_, rfl⟩ hs'
    | skip
  case zero.zero sh f sh' f' =>
    have hz := zero_fi_of_not_str z sh f hs
    have hz' := zero_fi_of_not_str z sh' f' hs'
    simp only [encLeaf, hz, hz', if_true, SigData.tup.injEq, List.cons.injEq, and_true, true_and] at h
    simp only [core, hz, hz', if_true]
    rw [natsTup_inj _ _ h.1, encFI_inj _ _ h.2]
  case zero.mi sh f is =>
    have hz := zero_fi_of_not_str z sh f hs
    simp only [encLeaf, hz, if_true, SigData.tup.injEq] at h
    exact absurd h.symm (mi_ne_strHead _ _ _)
  case zero.term sh f t =>
    have hz := zero_fi_of_not_str z sh f hs
    simp only [encLeaf, hz, if_true] at h
    exact absurd h (zeroTup_ne_term _ _ _)
  case mi.zero is sh f =>
    have hz := zero_fi_of_not_str z sh f hs'
    simp only [encLeaf, hz, if_true, SigData.tup.injEq] at h
    exact absurd h (mi_ne_strHead _ _ _)
  case mi.mi is js =>
    simp only [encLeaf, SigData.tup.injEq] at h
    rw [map_encIdx_inj _ _ h]
  case mi.term is t =>
    simp only [encLeaf] at h
    exact absurd h (tup_mi_ne_term _ _)
  case term.zero t sh f =>
    have hz := zero_fi_of_not_str z sh f hs'
    simp only [encLeaf, hz, if_true] at h
    exact absurd h.symm (zeroTup_ne_term _ _ _)
  case term.mi t is =>
    simp only [encLeaf] at h
    exact absurd h.symm (tup_mi_ne_term _ _)
  case term.term t u =>
    simp only [encLeaf] at h
    simp only [core, encTerm_inj h]

/-! ## expressions -/

theorem enc_leaf (z : Bool) {a : CExpr} (ha : a.isTerminal = true) : enc z a = .hash (.lst [encLeaf z a]) := by
  cases a <;> simp only [CExpr.isTerminal, Bool.false_eq_true] at ha <;> rfl

/-- a terminal node against any node -/
theorem enc_inj_leaf (z : Bool) {a b : CExpr} (ha : a.isTerminal = true) (wa : wfE a = true) (wb : wfE b = true)
    (h : enc z a = enc z b) : core z a = core z b := by
  cases hb : b.isTerminal
  · cases b <;> simp only [CExpr.isTerminal, Bool.true_eq_false] at hb
    rw [enc_leaf z ha] at h
    simp only [enc, SigData.hash.injEq, SigData.lst.injEq, List.cons.injEq] at h
    exact absurd h.1 (encLeaf_ne_int z a _)
  · rw [enc_leaf z ha, enc_leaf z hb] at h
    simp only [SigData.hash.injEq, SigData.lst.injEq, List.cons.injEq, and_true] at h
    exact encLeaf_inj z ha hb wa wb h

mutual
/-- **the hash data of an expression determines the expression up to `core`** (no base form operators) -/
theorem enc_inj (z : Bool) : ∀ (a b : CExpr), wfE a = true → wfE b = true → noBFO a = true → noBFO b = true →
    enc z a = enc z b → core z a = core z b
  | .op k aux args, b, wa, wb, na, nb, h => by
    cases b with
    | op k' aux' args' =>
      simp only [enc, SigData.hash.injEq, SigData.lst.injEq, List.cons.injEq, SigData.int.injEq, Int.natCast_inj] at h
      simp only [wfE, noBFO, Bool.and_eq_true, Bool.not_eq_true'] at wa wb na nb
      have hk : k = k' := op_eq_of_tc wa.1 wb.1 h.1
      subst hk
      simp only [core, na.1, Bool.false_eq_true, if_false, encL_inj z args args' wa.2 wb.2 na.2 nb.2 h.2]
    | _ => exact (enc_inj_leaf z rfl wb wa h.symm).symm
  | .int v, b, wa, wb, _, _, h => enc_inj_leaf z rfl wa wb h
  | .real n d, b, wa, wb, _, _, h => enc_inj_leaf z rfl wa wb h
  | .cplx a' b' c d, b, wa, wb, _, _, h => enc_inj_leaf z rfl wa wb h
  | .zero sh f, b, wa, wb, _, _, h => enc_inj_leaf z rfl wa wb h
  | .mi is, b, wa, wb, _, _, h => enc_inj_leaf z rfl wa wb h
  | .term t, b, wa, wb, _, _, h => enc_inj_leaf z rfl wa wb h
theorem encL_inj (z : Bool) : ∀ (as bs : List CExpr), wfL as = true → wfL bs = true → noBFOL as = true → noBFOL bs = true →
    encL z as = encL z bs → coreL z as = coreL z bs
  | [], [], _, _, _, _, _ => rfl
  | [], _ :: _, _, _, _, _, h => by simp [encL] at h
  | _ :: _, [], _, _, _, _, h => by simp [encL] at h
  | a :: as, b :: bs, wa, wb, na, nb, h => by
    simp only [encL, List.cons.injEq] at h
    simp only [wfL, noBFOL, Bool.and_eq_true] at wa wb na nb
    simp only [coreL, enc_inj z a b wa.1 wb.1 na.1 nb.1 h.1, encL_inj z as bs wa.2 wb.2 na.2 nb.2 h.2]
end

theorem encTerm_core (t : CTerm) : encTerm (coreTerm t) = encTerm t := by
  cases t <;> simp only [coreTerm, encTerm, coreSpace, coreMesh, encSpace, encMesh]
  · rename_i n p sp sh
    unfold corePart
    by_cases hp : p < 0 <;> simp [hp]

mutual
/-- the encoding does not read what `core` forgets -/
theorem enc_core (z : Bool) : ∀ e : CExpr, enc z (core z e) = enc z e
  | .op k aux args => by simp only [core, enc, encL_core z args]
  | .int v => by simp [core, byRepr, enc, encLeaf, encTerm, CExpr.toExpr]
  | .real n d => by simp [core, byRepr, enc, encLeaf, encTerm, CExpr.toExpr]
  | .cplx a b c d => by simp [core]
  | .zero sh f => by
    by_cases hz : (z && !f.isEmpty) = true
    · simp only [core, hz, if_true]
    · simp [core, hz, byRepr, enc, encLeaf, encTerm]
  | .mi is => by simp [core]
  | .term t => by simp only [core, enc, encLeaf, encTerm_core]
theorem encL_core (z : Bool) : ∀ l : List CExpr, encL z (coreL z l) = encL z l
  | [] => rfl
  | a :: as => by simp only [coreL, encL, enc_core z a, encL_core z as]
end

/-! ## integrals and forms -/

theorem sigSub_inj {a b : SubId} (h : sigSub a = sigSub b) : a = b := by
  cases a <;> cases b <;> simp only [sigSub, SigData.int.injEq, SigData.str.injEq, SigData.tup.injEq, reduceCtorEq] at h
  · rw [h]
  · rw [h]
  · rename_i xs ys
    congr 1
    induction xs generalizing ys with
    | nil => cases ys <;> simp_all
    | cons x xs ih =>
      cases ys with
      | nil => simp at h
      | cons y ys =>
        simp only [List.map_cons, List.cons.injEq, SigData.int.injEq] at h
        rw [h.1, ih ys h.2]

mutual
theorem sigCanon_inj : ∀ (a b : FormModel.Canon), sigCanon a = sigCanon b → a = b
  | .s x, .s y, h => by simp only [sigCanon, SigData.str.injEq] at h; rw [h]
  | .t xs, .t ys, h => by simp only [sigCanon, SigData.tup.injEq] at h; rw [sigCanonL_inj xs ys h]
  | .s _, .t _, h => by simp [sigCanon] at h
  | .t _, .s _, h => by simp [sigCanon] at h
theorem sigCanonL_inj : ∀ (as bs : List FormModel.Canon), sigCanonL as = sigCanonL bs → as = bs
  | [], [], _ => rfl
  | [], _ :: _, h => by simp [sigCanonL] at h
  | _ :: _, [], h => by simp [sigCanonL] at h
  | a :: as, b :: bs, h => by
    simp only [sigCanonL, List.cons.injEq] at h
    rw [sigCanon_inj a b h.1, sigCanonL_inj as bs h.2]
end

theorem encIntegral_inj (z : Bool) {i j : CIntegral} (wi : wfE i.integrand = true) (wj : wfE j.integrand = true)
    (ni : noBFO i.integrand = true) (nj : noBFO j.integrand = true) (h : encIntegral z i = encIntegral z j) :
    coreIntegral z i = coreIntegral z j := by
  simp only [encIntegral, SigData.tup.injEq, List.cons.injEq, SigData.str.injEq, and_true, true_and, sigMeta] at h
  obtain ⟨he, hm, ht, hs, hmd⟩ := h
  cases i; cases j
  simp only [coreIntegral, CIntegral.mk.injEq]
  exact ⟨enc_inj z _ _ wi wj ni nj he, ht, encMesh_inj hm, sigSub_inj hs, sigCanon_inj _ _ hmd⟩

theorem encIntegral_core (z : Bool) (i : CIntegral) : encIntegral z (coreIntegral z i) = encIntegral z i := by
  simp only [encIntegral, coreIntegral, enc_core, encMesh, coreMesh]

theorem encForm_inj (z : Bool) : ∀ (f g : CForm), wfForm f = true → wfForm g = true → noBFOForm f = true → noBFOForm g = true →
    encForm z f = encForm z g → coreForm z f = coreForm z g
  | [], [], _, _, _, _, _ => rfl
  | [], _ :: _, _, _, _, _, h => by simp [encForm] at h
  | _ :: _, [], _, _, _, _, h => by simp [encForm] at h
  | i :: f, j :: g, wf, wg, nf, ng, h => by
    simp only [encForm, List.map_cons, SigData.lst.injEq, List.cons.injEq] at h
    simp only [wfForm, noBFOForm, List.all_cons, Bool.and_eq_true] at wf wg nf ng
    have ih := encForm_inj z f g wf.2 wg.2 nf.2 ng.2 (by simp only [encForm, h.2])
    simp only [coreForm, List.map_cons, List.cons.injEq] at ih ⊢
    exact ⟨encIntegral_inj z wf.1 wg.1 nf.1 ng.1 h.1, ih⟩

theorem encForm_core (z : Bool) (f : CForm) : encForm z (coreForm z f) = encForm z f := by
  simp only [encForm, coreForm, List.map_map, SigData.lst.injEq]
  apply List.map_congr_left
  intro i _
  exact encIntegral_core z i

end UflVerif.C11
