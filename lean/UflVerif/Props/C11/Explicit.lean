/-
C11 lemmas: the equivalence `Inj.Equiv` unfolded.  Two equivalent forms (whose counts identify their objects) are related by ONE renaming
of counts: the canonically ordered second form is, up to derived data, the canonically ordered first form with its index /
coefficient / constant / label counts and mesh ids renamed.
-/
import UflVerif.Props.C11.Meaning

namespace UflVerif.C11
open UflVerif CExpr L Sig Inj UflVerif.C12

def compRen (τ ρ : Ren) : Ren :=
  ⟨fun c => τ.idx (ρ.idx c), fun c => τ.coeff (ρ.coeff c), fun c => τ.const (ρ.const c), fun c => τ.label (ρ.label c),
   fun c => τ.mesh (ρ.mesh c)⟩

/-! ## renaming twice -/

theorem mesh_rename_rename (τ ρ : Ren) (m : MeshD) : (m.rename ρ).rename τ = m.rename (compRen τ ρ) := rfl

theorem space_rename_rename (τ ρ : Ren) (s : SpaceD) : (s.rename ρ).rename τ = s.rename (compRen τ ρ) := rfl

theorem term_rename_rename (τ ρ : Ren) (t : CTerm) : (t.rename ρ).rename τ = t.rename (compRen τ ρ) := by
  cases t <;> rfl

theorem renFI_renFI (τ ρ : Ren) (f : List (Nat × Nat)) : renFI τ (renFI ρ f) = renFI (compRen τ ρ) f := by
  simp [renFI, List.map_map, Function.comp_def, compRen]

mutual
theorem rename_rename (τ ρ : Ren) : ∀ e : CExpr, (e.rename ρ).rename τ = e.rename (compRen τ ρ)
  | .op k aux args => by simp only [CExpr.rename, renameL_renameL τ ρ args]
  | .int _ | .real .. | .cplx .. => rfl
  | .zero sh f => by simp only [CExpr.rename, renFI_renFI]
  | .mi is => by
    simp only [CExpr.rename, List.map_map, CExpr.mi.injEq]
    apply List.map_congr_left
    intro i _
    cases i <;> rfl
  | .term t => by simp only [CExpr.rename, term_rename_rename]
theorem renameL_renameL (τ ρ : Ren) : ∀ l : List CExpr, renameL τ (renameL ρ l) = renameL (compRen τ ρ) l
  | [] => rfl
  | a :: as => by simp only [renameL, rename_rename τ ρ a, renameL_renameL τ ρ as]
end

theorem form_rename_rename (τ ρ : Ren) (f : CForm) : (f.rename ρ).rename τ = f.rename (compRen τ ρ) := by
  simp only [CForm.rename, List.map_map]
  apply List.map_congr_left
  intro i _
  simp only [Function.comp_def, CIntegral.rename, rename_rename, mesh_rename_rename]

/-! ## `core` commutes with renaming -/

theorem coreTerm_rename (τ : Ren) (t : CTerm) : coreTerm (t.rename τ) = (coreTerm t).rename τ := by
  cases t <;> rfl

theorem renFI_isEmpty (τ : Ren) (f : List (Nat × Nat)) : (renFI τ f).isEmpty = f.isEmpty := by
  cases f <;> rfl

mutual
theorem core_rename (z : Bool) (τ : Ren) : ∀ e : CExpr, (z = true ∨ NoFreeZero e = true) → core z (e.rename τ) = (core z e).rename τ
  | .op k aux args, hz => by
    simp only [CExpr.rename, core]
    rw [coreL_rename z τ args (by simpa [NoFreeZero] using hz)]
  | .int _, _ | .real .., _ | .cplx .., _ => rfl
  | .mi is, _ => rfl
  | .term t, _ => by simp only [CExpr.rename, core, coreTerm_rename]
  | .zero sh f, hz => by
    simp only [CExpr.rename, core, renFI_isEmpty]
    by_cases hc : (z && !f.isEmpty) = true
    · simp only [hc, if_true, CExpr.rename]
    · have hf : f = [] := by
        rcases hz with hz | hz
        · subst hz
          cases f <;> simp_all
        · cases f with
          | nil => rfl
          | cons p f => simp [NoFreeZero, noFreeZero] at hz
      subst hf
      simp [renFI, byRepr, CExpr.rename, CTerm.rename]
theorem coreL_rename (z : Bool) (τ : Ren) : ∀ l : List CExpr, (z = true ∨ NoFreeZeroL l = true) →
    coreL z (renameL τ l) = renameL τ (coreL z l)
  | [], _ => rfl
  | a :: as, hz => by
    have h1 : z = true ∨ NoFreeZero a = true := by
      rcases hz with hz | hz
      · exact Or.inl hz
      · simp only [NoFreeZeroL, Bool.and_eq_true] at hz; exact Or.inr hz.1
    have h2 : z = true ∨ NoFreeZeroL as = true := by
      rcases hz with hz | hz
      · exact Or.inl hz
      · simp only [NoFreeZeroL, Bool.and_eq_true] at hz; exact Or.inr hz.2
    simp only [renameL, coreL, core_rename z τ a h1, coreL_rename z τ as h2]
end

theorem coreForm_rename (z : Bool) (τ : Ren) (f : CForm) (hz : z = true ∨ FormNoFreeZero f = true) :
    coreForm z (f.rename τ) = (coreForm z f).rename τ := by
  simp only [coreForm, CForm.rename, List.map_map]
  apply List.map_congr_left
  intro i hi
  have hzi : z = true ∨ NoFreeZero i.integrand = true := by
    rcases hz with hz | hz
    · exact Or.inl hz
    · simp only [FormNoFreeZero, List.all_eq_true] at hz; exact Or.inr (hz i hi)
  simp only [Function.comp_def, coreIntegral, CIntegral.rename, core_rename z τ _ hzi]
  rfl

mutual
theorem noFreeZero_rename (τ : Ren) : ∀ e : CExpr, NoFreeZero (e.rename τ) = NoFreeZero e
  | .op k aux args => by simp only [CExpr.rename, NoFreeZero, noFreeZeroL_rename τ args]
  | .int _ | .real .. | .cplx .. | .mi _ | .term _ => rfl
  | .zero sh f => by cases f <;> rfl
theorem noFreeZeroL_rename (τ : Ren) : ∀ l : List CExpr, NoFreeZeroL (renameL τ l) = NoFreeZeroL l
  | [] => rfl
  | a :: as => by simp only [renameL, NoFreeZeroL, noFreeZero_rename τ a, noFreeZeroL_rename τ as]
end

/-! ## renamings that agree on the counts of a form -/

structure AgreeOn (env : Env) (σ σ' : Ren) : Prop where
  idx : ∀ c ∈ env.idx, σ.idx c = σ'.idx c
  coeff : ∀ t ∈ env.coeff, σ.coeff (CTermCount t) = σ'.coeff (CTermCount t)
  const : ∀ t ∈ env.const, σ.const (CTermCount t) = σ'.const (CTermCount t)
  label : ∀ t ∈ env.label, σ.label (CTermCount t) = σ'.label (CTermCount t)
  mesh : ∀ m ∈ env.mesh, σ.mesh m.id = σ'.mesh m.id

theorem mesh_rename_congr {env : Env} {σ σ' : Ren} (ha : AgreeOn env σ σ') (m : MeshD) (h : foundMesh env m = true) :
    m.rename σ = m.rename σ' := by
  have hm : m ∈ env.mesh := mem_of_posOf_isSome m _ (by simpa [foundMesh, eqMesh_fun] using h)
  simp only [MeshD.rename, ha.mesh m hm]

theorem term_rename_congr {env : Env} {σ σ' : Ren} (ha : AgreeOn env σ σ') (t : CTerm) (h : foundTerm env t = true) :
    t.rename σ = t.rename σ' := by
  cases t <;> simp only [foundTerm, Bool.and_eq_true] at h
  · have hm := mem_of_posOf_isSome _ _ (by simpa [eqTerm_fun] using h.1)
    have := ha.coeff _ hm
    simp only [CTermCount] at this
    simp only [CTerm.rename, SpaceD.rename, mesh_rename_congr ha _ h.2, this]
  · simp only [CTerm.rename, SpaceD.rename, mesh_rename_congr ha _ h]
  · have hm := mem_of_posOf_isSome _ _ (by simpa [eqTerm_fun] using h.1)
    have := ha.const _ hm
    simp only [CTermCount] at this
    simp only [CTerm.rename, mesh_rename_congr ha _ h.2, this]
  · simp only [CTerm.rename, mesh_rename_congr ha _ h]
  · have hm := mem_of_posOf_isSome _ _ (by simpa [eqTerm_fun] using h)
    have := ha.label _ hm
    simp only [CTermCount] at this
    simp only [CTerm.rename, this]
  · rfl

theorem idxC_congr {env : Env} {σ σ' : Ren} (ha : AgreeOn env σ σ') (c : Nat) (h : foundIdxC env c = true) : σ.idx c = σ'.idx c :=
  ha.idx c (mem_of_posOf_isSome c _ (by simpa [foundIdxC] using h))

mutual
theorem rename_congr {env : Env} {σ σ' : Ren} (ha : AgreeOn env σ σ') : ∀ e : CExpr, foundE env e = true →
    (env.zfix = true ∨ NoFreeZero e = true) → e.rename σ = e.rename σ'
  | .op k aux args, h, hz => by
    simp only [foundE] at h
    simp only [CExpr.rename, renameL_congr ha args h (by simpa [NoFreeZero] using hz)]
  | .int _, _, _ | .real .., _, _ | .cplx .., _, _ => rfl
  | .term t, h, _ => by
    simp only [foundE] at h
    simp only [CExpr.rename, term_rename_congr ha t h]
  | .mi is, h, _ => by
    simp only [foundE, List.all_eq_true] at h
    simp only [CExpr.rename, CExpr.mi.injEq]
    apply List.map_congr_left
    intro i hi
    cases i with
    | fixed v => rfl
    | free c => simp only [Idx.rename, idxC_congr ha c (h _ hi)]
  | .zero sh f, h, hz => by
    simp only [foundE, Bool.or_eq_true, Bool.not_eq_true', List.all_eq_true] at h
    simp only [CExpr.rename, CExpr.zero.injEq, true_and, renFI]
    apply List.map_congr_left
    intro p hp
    rcases h with h | h
    · rcases hz with hz | hz
      · rw [h] at hz; exact absurd hz (by simp)
      · cases f with
        | nil => cases hp
        | cons q f => simp [NoFreeZero, noFreeZero] at hz
    · rw [idxC_congr ha p.1 (h p hp)]
theorem renameL_congr {env : Env} {σ σ' : Ren} (ha : AgreeOn env σ σ') : ∀ l : List CExpr, foundL env l = true →
    (env.zfix = true ∨ NoFreeZeroL l = true) → renameL σ l = renameL σ' l
  | [], _, _ => rfl
  | a :: as, h, hz => by
    simp only [foundL, Bool.and_eq_true] at h
    have h1 : env.zfix = true ∨ NoFreeZero a = true := by
      rcases hz with hz | hz
      · exact Or.inl hz
      · simp only [NoFreeZeroL, Bool.and_eq_true] at hz; exact Or.inr hz.1
    have h2 : env.zfix = true ∨ NoFreeZeroL as = true := by
      rcases hz with hz | hz
      · exact Or.inl hz
      · simp only [NoFreeZeroL, Bool.and_eq_true] at hz; exact Or.inr hz.2
    simp only [renameL, rename_congr ha a h.1 h1, renameL_congr ha as h.2 h2]
end

mutual
theorem rename_ident : ∀ e : CExpr, e.rename Ren.ident = e
  | .op k aux args => by simp only [CExpr.rename, renameL_ident args]
  | .int _ | .real .. | .cplx .. => rfl
  | .zero sh f => by simp [CExpr.rename, renFI, Ren.ident]
  | .mi is => by
    simp only [CExpr.rename, CExpr.mi.injEq]
    conv => rhs; rw [← List.map_id is]
    apply List.map_congr_left
    intro i _
    cases i <;> rfl
  | .term t => by cases t <;> rfl
theorem renameL_ident : ∀ l : List CExpr, renameL Ren.ident l = l
  | [] => rfl
  | a :: as => by simp only [renameL, rename_ident a, renameL_ident as]
end

/-! ## the inverse of the numbering -/

def invOf (env : Env) : Ren where
  idx := fun k => env.idx.getD k 0
  coeff := fun k => (env.coeff.map CTermCount).getD k 0
  const := fun k => (env.const.map CTermCount).getD k 0
  label := fun k => (env.label.map CTermCount).getD k 0
  mesh := fun k => (env.mesh.map (·.id)).getD k 0

theorem getD_posNat (c : Nat) : ∀ (l : List Nat), c ∈ l → l.getD (posNat c l) 0 = c
  | [], h => by cases h
  | y :: ys, h => by
    simp only [posNat, posOf, numOr]
    by_cases hc : c = y
    · simp [hc]
    · have hm : c ∈ ys := by
        rcases List.mem_cons.mp h with h' | h'
        · exact absurd h' hc
        · exact h'
      have ih := getD_posNat c ys hm
      have s := posOf_isSome (fun a b : Nat => a == b) (fun x => by simp) c ys hm
      simp only [posNat, numOr] at ih
      cases e : posOf (fun a b : Nat => a == b) c ys with
      | none => rw [e] at s; simp at s
      | some k =>
        rw [e] at ih
        simp only [beq_iff_eq, hc, if_false, Option.map_some, Option.getD_some, List.getD_cons_succ]
        simpa using ih

theorem inv_agree (env : Env) : AgreeOn env (compRen (invOf env) (renOf env)) Ren.ident where
  idx := fun c hc => getD_posNat c _ hc
  coeff := fun t ht => getD_posNat _ _ (List.mem_map.mpr ⟨t, ht, rfl⟩)
  const := fun t ht => getD_posNat _ _ (List.mem_map.mpr ⟨t, ht, rfl⟩)
  label := fun t ht => getD_posNat _ _ (List.mem_map.mpr ⟨t, ht, rfl⟩)
  mesh := fun m hm => getD_posNat _ _ (List.mem_map.mpr ⟨m, hm, rfl⟩)

/-- undoing the numbering of a form gives the (canonically ordered) form back -/
theorem unrename_sorted (z : Bool) (g : CForm) (hz : z = true ∨ FormNoFreeZero g = true) :
    (sortIntegrals g).rename (compRen (invOf (envOf z g)) (renOf (envOf z g))) = sortIntegrals g := by
  simp only [CForm.rename]
  conv => rhs; rw [← List.map_id (sortIntegrals g)]
  apply List.map_congr_left
  intro i hi
  have him : i ∈ g := (mem_sortS _ _ _).mp hi
  have hfound := found_envOf z g i him
  simp only [foundIntegral, Bool.and_eq_true] at hfound
  have hzi : (envOf z g).zfix = true ∨ NoFreeZero i.integrand = true := by
    rcases hz with hz | hz
    · left; simp [envOf, hz]
    · right
      simp only [FormNoFreeZero, List.all_eq_true] at hz
      exact hz i him
  have h1 := rename_congr (inv_agree (envOf z g)) i.integrand hfound.1 hzi
  have h2 := mesh_rename_congr (inv_agree (envOf z g)) i.mesh hfound.2
  rw [rename_ident] at h1
  have h3 : i.mesh.rename Ren.ident = i.mesh := rfl
  rw [h3] at h2
  simp only [CIntegral.rename, h1, h2, id]

theorem formNoFreeZero_sorted_rename (σ : Ren) (f : CForm) (h : FormNoFreeZero f = true) :
    FormNoFreeZero ((sortIntegrals f).rename σ) = true := by
  simp only [FormNoFreeZero, CForm.rename, List.all_map, List.all_eq_true] at h ⊢
  intro i hi
  simp only [Function.comp_def, CIntegral.rename, noFreeZero_rename]
  exact h i ((mem_sortS _ _ _).mp hi)

/-- **the equivalence is one renaming of counts**: if two forms (whose counts identify their objects) have the same normal form, the
    canonically ordered second form is the canonically ordered first form with its counts renamed — up to derived data (`coreForm`) -/
theorem equiv_is_renaming (z : Bool) (f g : CForm) (haf : Admissible (envOf z f) = true) (hag : Admissible (envOf z g) = true)
    (hzf : z = true ∨ FormNoFreeZero f = true) (hzg : z = true ∨ FormNoFreeZero g = true) (h : Equiv z f g) :
    ∃ σ : Ren, coreForm z ((sortIntegrals f).rename σ) = coreForm z (sortIntegrals g) := by
  unfold Equiv at h
  rw [normalize_is_renaming z f haf hzf, normalize_is_renaming z g hag hzg] at h
  refine ⟨compRen (invOf (envOf z g)) (renOf (envOf z f)), ?_⟩
  have h' := congrArg (CForm.rename (invOf (envOf z g))) h
  have hz1 : z = true ∨ FormNoFreeZero ((sortIntegrals f).rename (renOf (envOf z f))) = true := by
    rcases hzf with hz | hz
    · exact Or.inl hz
    · exact Or.inr (formNoFreeZero_sorted_rename _ f hz)
  have hz2 : z = true ∨ FormNoFreeZero ((sortIntegrals g).rename (renOf (envOf z g))) = true := by
    rcases hzg with hz | hz
    · exact Or.inl hz
    · exact Or.inr (formNoFreeZero_sorted_rename _ g hz)
  rw [← coreForm_rename z _ _ hz1, ← coreForm_rename z _ _ hz2, form_rename_rename, form_rename_rename, unrename_sorted z g hzg] at h'
  exact h'

end UflVerif.C11
