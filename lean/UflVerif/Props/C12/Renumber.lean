/-
C12 lemmas, part D: `renumber_indices` (ufl/algorithms/renumbering.py, model `Expr.renumber` of Model/IndexPasses.lean,
tied to the implementation by C10's correspondence) does not depend on the index counts of its input.
(lemmas only; the property theorem is in Props/C12.lean)
-/
import UflVerif.Model.IndexPasses
import UflVerif.Props.C12.Cmp

namespace UflVerif.C12
open UflVerif Expr

/- the expression with every index count `c` replaced by `f c` (multi-indices and the free indices of `Zero`) -/
mutual
def reIdx (f : Nat → Nat) : Expr → Expr
  | .mi is => .mi (is.map (renameIdxI f))
  | .zero sh fi => .zero sh (fi.map fun p => (f p.1, p.2))
  | .op k aux args => .op k aux (reIdxL f args)
  | .int v => .int v
  | .real n d => .real n d
  | .cplx a b c d => .cplx a b c d
  | .term d => .term d
def reIdxL (f : Nat → Nat) : List Expr → List Expr
  | [] => []
  | a :: as => reIdx f a :: reIdxL f as
end

theorem renameIdxI_comp (τ f : Nat → Nat) (i : Idx) : renameIdxI τ (renameIdxI f i) = renameIdxI (τ ∘ f) i := by
  cases i <;> rfl

/-! ### renaming after renaming -/
mutual
theorem renameRebuild_reIdx (τ f : Nat → Nat) : ∀ x : Expr, renameRebuild τ (reIdx f x) = renameRebuild (τ ∘ f) x
  | .mi is => by
    simp only [reIdx, renameRebuild, List.map_map]
    have : (renameIdxI τ ∘ renameIdxI f) = renameIdxI (τ ∘ f) := funext (renameIdxI_comp τ f)
    rw [this]
  | .zero sh fi => by
    simp only [reIdx, renameRebuild, renameFI, List.map_map]
    rfl
  | .op k aux args => by
    simp only [reIdx, renameRebuild, renameRebuildL_reIdx τ f args]
  | .int _ | .real _ _ | .cplx _ _ _ _ | .term _ => rfl
theorem renameRebuildL_reIdx (τ f : Nat → Nat) : ∀ l : List Expr, renameRebuildL τ (reIdxL f l) = renameRebuildL (τ ∘ f) l
  | [] => rfl
  | a :: as => by simp only [reIdxL, renameRebuildL, renameRebuild_reIdx τ f a, renameRebuildL_reIdx τ f as]
end

/-! ### the index counts of an expression -/
mutual
def counts : Expr → List Nat
  | .mi is => freeCounts is
  | .zero _ fi => fi.map (·.1)
  | .op _ _ args => countsL args
  | _ => []
def countsL : List Expr → List Nat
  | [] => []
  | a :: as => counts a ++ countsL as
end

theorem mem_freeCounts (c : Nat) (is : List Idx) : c ∈ freeCounts is ↔ Idx.free c ∈ is := by
  induction is with
  | nil => simp [freeCounts]
  | cons i is ih =>
    cases i <;> simp_all [freeCounts, List.filterMap_cons]

/- two renamings that agree on the counts of `x` rebuild it alike -/
mutual
theorem renameRebuild_congr (τ₁ τ₂ : Nat → Nat) : ∀ x : Expr, (∀ c ∈ counts x, τ₁ c = τ₂ c) → renameRebuild τ₁ x = renameRebuild τ₂ x
  | .mi is, h => by
    simp only [renameRebuild]
    congr 2
    apply List.map_congr_left
    intro i hi
    cases i with
    | fixed v => rfl
    | free c => simp only [renameIdxI]; rw [h c (by simp [counts, mem_freeCounts, hi])]
  | .zero sh fi, h => by
    simp only [renameRebuild, renameFI]
    congr 3
    apply List.map_congr_left
    intro p hp
    rw [h p.1 (by simp only [counts, List.mem_map]; exact ⟨p, hp, rfl⟩)]
  | .op k aux args, h => by
    simp only [renameRebuild, renameRebuildL_congr τ₁ τ₂ args (by simpa [counts] using h)]
  | .int _, _ | .real _ _, _ | .cplx _ _ _ _, _ | .term _, _ => rfl
theorem renameRebuildL_congr (τ₁ τ₂ : Nat → Nat) : ∀ l : List Expr, (∀ c ∈ countsL l, τ₁ c = τ₂ c) → renameRebuildL τ₁ l = renameRebuildL τ₂ l
  | [], _ => rfl
  | a :: as, h => by
    simp only [renameRebuildL]
    rw [renameRebuild_congr τ₁ τ₂ a (fun c hc => h c (by simp [countsL, hc])),
        renameRebuildL_congr τ₁ τ₂ as (fun c hc => h c (by simp [countsL, hc]))]
end

/-! ### the order in which the relabeller first meets the counts -/

theorem contains_map_of_inj {f : Nat → Nat} (hf : StrictMonoN f) (c : Nat) : ∀ acc : List Nat, (acc.map f).contains (f c) = acc.contains c
  | [] => rfl
  | a :: as => by
    simp only [List.map, List.contains_cons]
    rw [contains_map_of_inj hf c as]
    have : (f c == f a) = (c == a) := by
      by_cases h : c = a
      · subst h; simp
      · have hne : ¬ f c = f a := fun e => h ((hf.inj c a).mp e)
        rw [beq_eq_false_iff_ne.mpr hne, beq_eq_false_iff_ne.mpr h]
    rw [this]

theorem addNew_map' {f : Nat → Nat} (hf : StrictMonoN f) (acc : List Nat) (c : Nat) : Expr.addNew (acc.map f) (f c) = (Expr.addNew acc c).map f := by
  simp only [Expr.addNew, contains_map_of_inj hf]
  split <;> simp

theorem firstSeen_mi_map {f : Nat → Nat} (hf : StrictMonoN f) : ∀ (is : List Idx) (acc : List Nat),
    firstSeen (.mi (is.map (renameIdxI f))) (acc.map f) = (firstSeen (.mi is) acc).map f
  | [], _ => rfl
  | .fixed v :: is, acc => by
    have e1 : firstSeen (.mi ((Idx.fixed v :: is).map (renameIdxI f))) (acc.map f) = firstSeen (.mi (is.map (renameIdxI f))) (acc.map f) := rfl
    have e2 : firstSeen (.mi (Idx.fixed v :: is)) acc = firstSeen (.mi is) acc := rfl
    rw [e1, e2, firstSeen_mi_map hf is acc]
  | .free c :: is, acc => by
    have e1 : firstSeen (.mi ((Idx.free c :: is).map (renameIdxI f))) (acc.map f)
        = firstSeen (.mi (is.map (renameIdxI f))) (Expr.addNew (acc.map f) (f c)) := rfl
    have e2 : firstSeen (.mi (Idx.free c :: is)) acc = firstSeen (.mi is) (Expr.addNew acc c) := rfl
    rw [e1, e2, addNew_map' hf, firstSeen_mi_map hf is _]

theorem firstSeen_zero_map {f : Nat → Nat} (hf : StrictMonoN f) (sh : List Nat) : ∀ (fi : List (Nat × Nat)) (acc : List Nat),
    firstSeen (.zero sh (fi.map fun p => (f p.1, p.2))) (acc.map f) = (firstSeen (.zero sh fi) acc).map f
  | [], _ => rfl
  | p :: ps, acc => by
    have e1 : firstSeen (.zero sh ((p :: ps).map fun p => (f p.1, p.2))) (acc.map f)
        = firstSeen (.zero sh (ps.map fun p => (f p.1, p.2))) (Expr.addNew (acc.map f) (f p.1)) := rfl
    have e2 : firstSeen (.zero sh (p :: ps)) acc = firstSeen (.zero sh ps) (Expr.addNew acc p.1) := rfl
    rw [e1, e2, addNew_map' hf, firstSeen_zero_map hf sh ps _]

mutual
theorem firstSeen_reIdx {f : Nat → Nat} (hf : StrictMonoN f) : ∀ (x : Expr) (acc : List Nat),
    firstSeen (reIdx f x) (acc.map f) = (firstSeen x acc).map f
  | .mi is, acc => by simp only [reIdx]; exact firstSeen_mi_map hf is acc
  | .zero sh fi, acc => by simp only [reIdx]; exact firstSeen_zero_map hf sh fi acc
  | .op k aux args, acc => by simp only [reIdx, firstSeen]; exact firstSeenL_reIdx hf args acc
  | .int _, _ | .real _ _, _ | .cplx _ _ _ _, _ | .term _, _ => rfl
theorem firstSeenL_reIdx {f : Nat → Nat} (hf : StrictMonoN f) : ∀ (l : List Expr) (acc : List Nat),
    firstSeenL (reIdxL f l) (acc.map f) = (firstSeenL l acc).map f
  | [], _ => rfl
  | a :: as, acc => by
    simp only [reIdxL, firstSeenL]
    rw [firstSeenL_reIdx hf as acc, firstSeen_reIdx hf a]
end

/-! ### every count is met -/

theorem mem_addNew (acc : List Nat) (c d : Nat) : d ∈ Expr.addNew acc c ↔ d ∈ acc ∨ d = c := by
  simp only [Expr.addNew]
  split
  · rename_i h
    constructor
    · exact Or.inl
    · rintro (h1 | h1)
      · exact h1
      · subst h1; simpa using h
  · simp

theorem mem_firstSeen_mi (d : Nat) : ∀ (is : List Idx) (acc : List Nat), d ∈ firstSeen (.mi is) acc ↔ d ∈ acc ∨ Idx.free d ∈ is
  | [], acc => by simp [firstSeen]
  | .fixed v :: is, acc => by
    have e : firstSeen (.mi (Idx.fixed v :: is)) acc = firstSeen (.mi is) acc := rfl
    rw [e, mem_firstSeen_mi d is acc]
    simp
  | .free c :: is, acc => by
    have e : firstSeen (.mi (Idx.free c :: is)) acc = firstSeen (.mi is) (Expr.addNew acc c) := rfl
    rw [e, mem_firstSeen_mi d is _, mem_addNew]
    simp only [List.mem_cons, Idx.free.injEq]
    constructor
    · rintro ((h | h) | h) <;> simp [h]
    · rintro (h | h | h) <;> simp [h]

theorem mem_firstSeen_zero (d : Nat) (sh : List Nat) : ∀ (fi : List (Nat × Nat)) (acc : List Nat),
    d ∈ firstSeen (.zero sh fi) acc ↔ d ∈ acc ∨ d ∈ fi.map (·.1)
  | [], acc => by simp [firstSeen]
  | p :: ps, acc => by
    have e : firstSeen (.zero sh (p :: ps)) acc = firstSeen (.zero sh ps) (Expr.addNew acc p.1) := rfl
    rw [e, mem_firstSeen_zero d sh ps _, mem_addNew]
    simp only [List.map, List.mem_cons]
    constructor
    · rintro ((h | h) | h) <;> simp [h]
    · rintro (h | h | h) <;> simp [h]

mutual
theorem mem_firstSeen (d : Nat) : ∀ (x : Expr) (acc : List Nat), d ∈ firstSeen x acc ↔ d ∈ acc ∨ d ∈ counts x
  | .mi is, acc => by simp only [counts, mem_firstSeen_mi, mem_freeCounts]
  | .zero sh fi, acc => by simp only [counts, mem_firstSeen_zero]
  | .op k aux args, acc => by simp only [firstSeen, counts, mem_firstSeenL d args acc]
  | .int _, _ | .real _ _, _ | .cplx _ _ _ _, _ | .term _, _ => by simp [firstSeen, counts]
theorem mem_firstSeenL (d : Nat) : ∀ (l : List Expr) (acc : List Nat), d ∈ firstSeenL l acc ↔ d ∈ acc ∨ d ∈ countsL l
  | [], acc => by simp [firstSeenL, countsL]
  | a :: as, acc => by
    simp only [firstSeenL, countsL, mem_firstSeen d a, mem_firstSeenL d as acc, List.mem_append]
    constructor
    · rintro ((h | h) | h) <;> simp [h]
    · rintro (h | h | h) <;> simp [h]
end

/-! ### the new numbers -/

theorem idxOf?_map_inj {f : Nat → Nat} (hf : StrictMonoN f) (c : Nat) : ∀ l : List Nat, (l.map f).idxOf? (f c) = l.idxOf? c
  | [] => rfl
  | a :: as => by
    simp only [List.map, List.idxOf?_cons]
    rw [idxOf?_map_inj hf c as]
    by_cases h : a = c
    · subst h; simp
    · have : ¬ f a = f c := fun e => h ((hf.inj a c).mp e)
      simp [h, this]

theorem newNumber_map {f : Nat → Nat} (hf : StrictMonoN f) (order : List Nat) (c : Nat) (hc : c ∈ order) :
    newNumber (order.map f) (f c) = newNumber order c := by
  simp only [newNumber, idxOf?_map_inj hf]
  cases h : order.idxOf? c with
  | some k => rfl
  | none =>
    exfalso
    have := List.idxOf?_eq_none_iff.mp h
    exact this hc

/-- **`renumber_indices` forgets the index counts**: renaming all index counts of the input by a strictly monotone map
    does not change the output -/
theorem renumber_reIdx {f : Nat → Nat} (hf : StrictMonoN f) (x : Expr) : renumber (reIdx f x) = renumber x := by
  unfold renumber
  rw [renameRebuild_reIdx]
  apply renameRebuild_congr
  intro c hc
  have h0 := firstSeen_reIdx hf x []
  simp only [List.map_nil] at h0
  simp only [Function.comp, h0]
  exact newNumber_map hf _ c ((mem_firstSeen c x []).mpr (Or.inr hc))

end UflVerif.C12
