/-
C12 lemmas, part A: the canonical ordering under a renaming of the counters.
(lemmas only; the property theorems are in Props/C12.lean)
-/
import Std
import UflVerif.Model.Renaming
import UflVerif.Props.C29

namespace UflVerif.C12
open UflVerif CExpr Std

/-! ## strictly monotone maps of counts -/

def StrictMonoN (f : Nat → Nat) : Prop := ∀ a b, a < b → f a < f b

theorem StrictMonoN.lt_iff {f : Nat → Nat} (h : StrictMonoN f) (a b : Nat) : f a < f b ↔ a < b := by
  constructor
  · intro hl
    rcases Nat.lt_trichotomy a b with h1 | h1 | h1
    · exact h1
    · subst h1; exact absurd hl (Nat.lt_irrefl _)
    · exact absurd (h _ _ h1) (Nat.lt_asymm hl)
  · exact h a b

theorem StrictMonoN.inj {f : Nat → Nat} (h : StrictMonoN f) (a b : Nat) : f a = f b ↔ a = b := by
  constructor
  · intro he
    rcases Nat.lt_trichotomy a b with h1 | h1 | h1
    · exact absurd he (Nat.ne_of_lt (h _ _ h1))
    · exact h1
    · exact absurd he.symm (Nat.ne_of_lt (h _ _ h1))
  · intro he; rw [he]

theorem StrictMonoN.compare {f : Nat → Nat} (h : StrictMonoN f) (a b : Nat) : compare (f a) (f b) = compare a b := by
  rcases Nat.lt_trichotomy a b with h1 | h1 | h1
  · rw [Nat.compare_eq_lt.mpr h1, Nat.compare_eq_lt.mpr (h _ _ h1)]
  · subst h1; simp
  · rw [Nat.compare_eq_gt.mpr h1, Nat.compare_eq_gt.mpr (h _ _ h1)]

theorem StrictMonoN.id : StrictMonoN (fun n => n) := fun _ _ h => h

/-- the renaming induced by running the same creations under another state of the counters -/
structure Mono (σ : Ren) : Prop where
  idx : StrictMonoN σ.idx
  coeff : StrictMonoN σ.coeff
  const : StrictMonoN σ.const
  label : StrictMonoN σ.label
  mesh : StrictMonoN σ.mesh

theorem Mono.ident : Mono Ren.ident := ⟨StrictMonoN.id, StrictMonoN.id, StrictMonoN.id, StrictMonoN.id, StrictMonoN.id⟩

/-! ## class names and typecodes do not change -/

theorem cls_rename (σ : Ren) (t : CTerm) : (t.rename σ).cls = t.cls := by
  cases t <;> rfl

theorem className_rename (σ : Ren) (e : CExpr) : (e.rename σ).className = e.className := by
  cases e <;> simp [CExpr.rename, CExpr.className, cls_rename]

theorem typecode_rename (σ : Ren) (e : CExpr) : (e.rename σ).typecode = e.typecode := by
  simp [CExpr.typecode, className_rename]

theorem renameL_length (σ : Ren) : ∀ l : List CExpr, (renameL σ l).length = l.length
  | [] => rfl
  | _ :: as => by simp [renameL, renameL_length σ as]

/-! ## the shape of `cmpT` -/

def thn (x y : Ordering) : Ordering := match x with | .eq => y | r => r

def innerT (tc : CExpr → CExpr → Ordering) (a b : CExpr) : Ordering :=
  match a, b with
  | .op _ _ as, .op _ _ bs => thn (compare as.length bs.length) (cmpTL tc as bs)
  | _, _ => tc a b

theorem cmpT_unfold (tc : CExpr → CExpr → Ordering) (a b : CExpr) :
    cmpT tc a b = thn (compare (typecode a) (typecode b)) (innerT tc a b) := by
  unfold cmpT innerT thn
  cases h : compare (typecode a) (typecode b) <;> simp only
  cases a <;> cases b <;> simp only
  rename_i k aux as k' aux' bs
  cases compare as.length bs.length <;> rfl

theorem cmpTL_cons (tc : CExpr → CExpr → Ordering) (a b : CExpr) (as bs : List CExpr) :
    cmpTL tc (a :: as) (b :: bs) = thn (cmpTL tc as bs) (cmpT tc a b) := by
  rw [cmpTL]
  unfold thn
  cases cmpTL tc as bs <;> rfl

/-! ## the pairs of nodes the terminal comparison can be asked about -/

/- all nodes of an expression -/
mutual
def nodes : CExpr → List CExpr
  | .op k aux args => .op k aux args :: nodesL args
  | e => [e]
def nodesL : List CExpr → List CExpr
  | [] => []
  | a :: as => nodes a ++ nodesL as
end

def bothOp : CExpr → CExpr → Bool
  | .op .., .op .. => true
  | _, _ => false

/-- the terminal comparison is only ever asked about two nodes of one typecode that are not both operators (for
    expressions with sane class names: two terminals of one class): if it gives the same answer after renaming on
    all such pairs, so does the whole comparison -/
def LeafStable (tc : CExpr → CExpr → Ordering) (σ : Ren) (xs ys : List CExpr) : Prop :=
  ∀ x ∈ xs, ∀ y ∈ ys, typecode x = typecode y → bothOp x y = false → tc (x.rename σ) (y.rename σ) = tc x y

theorem LeafStable.mono {tc σ} {xs ys xs' ys' : List CExpr} (h : LeafStable tc σ xs ys)
    (hx : ∀ x ∈ xs', x ∈ xs) (hy : ∀ y ∈ ys', y ∈ ys) : LeafStable tc σ xs' ys' :=
  fun x mx y my ht hb => h x (hx x mx) y (hy y my) ht hb

theorem self_mem_nodes (e : CExpr) : e ∈ nodes e := by
  cases e <;> simp [nodes]

mutual
theorem cmpT_rename (tc : CExpr → CExpr → Ordering) (σ : Ren) :
    ∀ (a b : CExpr), LeafStable tc σ (nodes a) (nodes b) → cmpT tc (a.rename σ) (b.rename σ) = cmpT tc a b
  | .op k aux as, b, h => by
    rw [cmpT_unfold, cmpT_unfold, typecode_rename, typecode_rename]
    cases hc : compare (typecode (.op k aux as)) (typecode b) <;> simp only [thn]
    cases b with
    | op k' aux' bs =>
      simp only [CExpr.rename, innerT, renameL_length]
      cases compare as.length bs.length <;> simp only [thn]
      exact cmpTL_rename tc σ as bs (h.mono (fun x hx => by simp [nodes, hx]) (fun x hx => by simp [nodes, hx]))
    | _ =>
      simp only [CExpr.rename, innerT]
      exact h _ (self_mem_nodes _) _ (self_mem_nodes _) (compare_eq_iff_eq.mp hc) rfl
  | .int v, b, h | .real v w, b, h | .cplx v w x y, b, h | .zero v w, b, h | .mi v, b, h | .term v, b, h => by
    rw [cmpT_unfold, cmpT_unfold, typecode_rename, typecode_rename]
    generalize hc : compare (typecode _) (typecode b) = c
    cases c <;> simp only [thn]
    have := h _ (self_mem_nodes _) _ (self_mem_nodes b) (compare_eq_iff_eq.mp hc) (by cases b <;> rfl)
    cases b <;> simpa only [CExpr.rename, innerT] using this
theorem cmpTL_rename (tc : CExpr → CExpr → Ordering) (σ : Ren) :
    ∀ (as bs : List CExpr), LeafStable tc σ (nodesL as) (nodesL bs) → cmpTL tc (renameL σ as) (renameL σ bs) = cmpTL tc as bs
  | [], _, _ => by simp [renameL, cmpTL]
  | _ :: _, [], _ => by simp [renameL, cmpTL]
  | a :: as, b :: bs, h => by
    simp only [renameL]
    rw [cmpTL_cons, cmpTL_cons]
    rw [cmpTL_rename tc σ as bs (h.mono (fun x hx => by simp [nodesL, hx]) (fun x hx => by simp [nodesL, hx])),
        cmpT_rename tc σ a b (h.mono (fun x hx => by simp [nodesL, hx]) (fun x hx => by simp [nodesL, hx]))]
end

/-! ## `cmpR` is the ordering of Model/Order.lean on the rendered expressions -/

theorem className_toExpr (e : CExpr) : Expr.className e.toExpr = e.className := by
  cases e with
  | term t => cases t <;> rfl
  | _ => rfl

theorem typecode_toExpr (e : CExpr) : Expr.typecode e.toExpr = e.typecode := by
  simp [Expr.typecode, CExpr.typecode, className_toExpr]

theorem toExprL_length : ∀ l : List CExpr, (toExprL l).length = l.length
  | [] => rfl
  | _ :: as => by simp [toExprL, toExprL_length as]

mutual
theorem cmpR_toExpr : ∀ (a b : CExpr), cmpR a b = Expr.cmpC .byRepr a.toExpr b.toExpr
  | .op k aux as, b => by
    unfold cmpR Expr.cmpC
    rw [cmpT_unfold, C29.cmp_unfold, typecode_toExpr, typecode_toExpr]
    cases b with
    | op k' aux' bs =>
      simp only [innerT, C29.inner, toExpr, toExprL_length]
      have := cmpRL_toExpr as bs
      unfold cmpR at this
      rw [this]; rfl
    | _ => rfl
  | .int v, b | .real v w, b | .cplx v w x y, b | .zero v w, b | .mi v, b | .term v, b => by
    unfold cmpR Expr.cmpC
    rw [cmpT_unfold, C29.cmp_unfold, typecode_toExpr, typecode_toExpr]
    cases b <;> rfl
theorem cmpRL_toExpr : ∀ (as bs : List CExpr), cmpTL termCmpR as bs = Expr.cmpLWith .byRepr Expr.cmpMI (toExprL as) (toExprL bs)
  | [], _ => by simp [cmpTL, toExprL, Expr.cmpLWith]
  | _ :: _, [] => by simp [cmpTL, toExprL, Expr.cmpLWith]
  | a :: as, b :: bs => by
    simp only [toExprL]
    rw [cmpTL_cons, C29.cmpL_cons, cmpRL_toExpr as bs]
    have := cmpR_toExpr a b
    unfold cmpR Expr.cmpC at this
    rw [this]; rfl
end

/-! ## terminal comparisons under a monotone renaming -/

theorem cmpIdx_rename (σ : Ren) (i j : Idx) : Expr.cmpIdx (i.rename σ) (j.rename σ) = Expr.cmpIdx i j := by
  cases i <;> cases j <;> rfl

theorem cmpMI_rename (σ : Ren) : ∀ (is js : List Idx), Expr.cmpMI (is.map (Idx.rename σ)) (js.map (Idx.rename σ)) = Expr.cmpMI is js
  | [], [] => rfl
  | [], _ :: _ => rfl
  | _ :: _, [] => rfl
  | i :: is, j :: js => by
    simp only [List.map]
    rw [C29.cmpMI_cons, C29.cmpMI_cons, cmpIdx_rename, cmpMI_rename σ is js]

theorem cmpMesh_rename {σ : Ren} (h : Mono σ) (m m' : MeshD) : Sig.cmpMesh (m.rename σ) (m'.rename σ) = Sig.cmpMesh m m' := by
  simp [Sig.cmpMesh, MeshD.rename, h.mesh.compare]

theorem map_snd_renFI (σ : Ren) (f : List (Nat × Nat)) : (renFI σ f).map (·.2) = f.map (·.2) := by
  simp [renFI, List.map_map, Function.comp_def]

/-- with numeric comparators every terminal comparison survives a monotone renaming -/
theorem termCmpN_rename {σ : Ren} (h : Mono σ) : ∀ (x y : CExpr), termCmpN (x.rename σ) (y.rename σ) = termCmpN x y
  | .zero _ _, .zero _ _ => by simp [CExpr.rename, termCmpN, map_snd_renFI]
  | .mi _, .mi _ => by simp [CExpr.rename, termCmpN, cmpMI_rename]
  | .term t, .term u => by
    cases t <;> cases u <;> simp [CExpr.rename, CTerm.rename, termCmpN, kindIx, h.coeff.compare, h.const.compare, cmpMesh_rename h]
  | .term t, .int _ | .term t, .real _ _ | .term t, .cplx _ _ _ _ | .term t, .zero _ _ | .term t, .mi _ | .term t, .op _ _ _ => by
    cases t <;> rfl
  | .int _, .term t | .real _ _, .term t | .cplx _ _ _ _, .term t | .zero _ _, .term t | .mi _, .term t | .op _ _ _, .term t => by
    cases t <;> rfl
  | .int _, .int _ | .int _, .real _ _ | .int _, .cplx _ _ _ _ | .int _, .zero _ _ | .int _, .mi _ | .int _, .op _ _ _ => rfl
  | .real _ _, .int _ | .real _ _, .real _ _ | .real _ _, .cplx _ _ _ _ | .real _ _, .zero _ _ | .real _ _, .mi _ | .real _ _, .op _ _ _ => rfl
  | .cplx _ _ _ _, .int _ | .cplx _ _ _ _, .real _ _ | .cplx _ _ _ _, .cplx _ _ _ _ | .cplx _ _ _ _, .zero _ _ | .cplx _ _ _ _, .mi _ | .cplx _ _ _ _, .op _ _ _ => rfl
  | .zero _ _, .int _ | .zero _ _, .real _ _ | .zero _ _, .cplx _ _ _ _ | .zero _ _, .mi _ | .zero _ _, .op _ _ _ => rfl
  | .mi _, .int _ | .mi _, .real _ _ | .mi _, .cplx _ _ _ _ | .mi _, .zero _ _ | .mi _, .op _ _ _ => rfl
  | .op _ _ _, .int _ | .op _ _ _, .real _ _ | .op _ _ _, .cplx _ _ _ _ | .op _ _ _, .zero _ _ | .op _ _ _, .mi _ | .op _ _ _, .op _ _ _ => rfl

theorem compare_natCast (a b : Nat) : compare (a : Int) (b : Int) = compare a b := by
  rcases Nat.lt_trichotomy a b with h1 | h1 | h1
  · rw [Nat.compare_eq_lt.mpr h1, Int.compare_eq_lt.mpr (by omega)]
  · subst h1; simp
  · rw [Nat.compare_eq_gt.mpr h1, Int.compare_eq_gt.mpr (by omega)]

/-- pairs whose comparison on the current tree does not read a decimal numeral that the renaming changes:
    two multi-indices, two coefficients, two arguments, two labels, or two nodes the renaming leaves alone -/
def unchanged : CExpr → Bool
  | .int _ | .real _ _ | .cplx _ _ _ _ | .zero _ [] | .term (.plain ..) => true
  | _ => false

def stableKind : CExpr → CExpr → Bool
  | .mi _, .mi _ => true
  | .term (.coeff ..), .term (.coeff ..) => true
  | .term (.arg ..), .term (.arg ..) => true
  | .term (.label _), .term (.label _) => true
  | a, b => unchanged a && unchanged b

theorem rename_unchanged (σ : Ren) (e : CExpr) (h : unchanged e = true) : e.rename σ = e := by
  cases e with
  | zero sh f => cases f <;> simp_all [unchanged, CExpr.rename, renFI]
  | term t => cases t <;> simp_all [unchanged, CExpr.rename, CTerm.rename]
  | _ => simp_all [unchanged, CExpr.rename]

theorem termCmpR_rename_stable {σ : Ren} (h : Mono σ) (x y : CExpr) (hs : stableKind x y = true) :
    termCmpR (x.rename σ) (y.rename σ) = termCmpR x y := by
  by_cases hu : unchanged x = true ∧ unchanged y = true
  · rw [rename_unchanged σ x hu.1, rename_unchanged σ y hu.2]
  · cases x <;> cases y <;> simp_all [stableKind, unchanged]
    case mi.mi => simp [termCmpR, CExpr.rename, toExpr, Expr.cmpTerm, cmpMI_rename]
    case term.term t u =>
      cases t <;> cases u <;> simp_all [stableKind, unchanged] <;>
        simp [termCmpR, CExpr.rename, CTerm.rename, toExpr, CTerm.toTermData, Expr.cmpTerm, compare_natCast, h.coeff.compare]

end UflVerif.C12
