/-
C12 lemmas, part B2: the numberings and the pre-hash data of Model/Signature.lean under a monotone renaming.
(lemmas only; the property theorems are in Props/C12.lean)
-/
import UflVerif.Props.C12.Cmp
import UflVerif.Props.C12.Lists

namespace UflVerif.C12
open UflVerif CExpr L Sig

/-! ## a monotone renaming is injective on meshes, terminals and expressions -/

theorem mesh_rename_inj {σ : Ren} (h : Mono σ) (m m' : MeshD) : m.rename σ = m'.rename σ ↔ m = m' := by
  cases m; cases m'
  simp [MeshD.rename, h.mesh.inj]

theorem space_rename_inj {σ : Ren} (h : Mono σ) (s s' : SpaceD) : s.rename σ = s'.rename σ ↔ s = s' := by
  cases s; cases s'
  simp [SpaceD.rename, mesh_rename_inj h]

theorem term_rename_inj {σ : Ren} (h : Mono σ) (t u : CTerm) : t.rename σ = u.rename σ ↔ t = u := by
  cases t <;> cases u <;> simp [CTerm.rename, h.coeff.inj, h.const.inj, h.label.inj, mesh_rename_inj h, space_rename_inj h]

theorem eqMesh_rename {σ : Ren} (h : Mono σ) (m m' : MeshD) : eqMesh (m.rename σ) (m'.rename σ) = eqMesh m m' := by
  exact beq_congr_iff _ _ _ _ (mesh_rename_inj h m m')

theorem eqTerm_rename {σ : Ren} (h : Mono σ) (t u : CTerm) : eqTerm (t.rename σ) (u.rename σ) = eqTerm t u := by
  exact beq_congr_iff _ _ _ _ (term_rename_inj h t u)

theorem idx_rename_inj {σ : Ren} (h : Mono σ) (i j : Idx) : i.rename σ = j.rename σ ↔ i = j := by
  cases i <;> cases j <;> simp [Idx.rename, h.idx.inj]

theorem idxs_rename_inj {σ : Ren} (h : Mono σ) : ∀ (is js : List Idx), is.map (Idx.rename σ) = js.map (Idx.rename σ) ↔ is = js
  | [], [] => by simp
  | [], _ :: _ => by simp
  | _ :: _, [] => by simp
  | i :: is, j :: js => by simp [idx_rename_inj h, idxs_rename_inj h is js]

theorem renFI_inj {σ : Ren} (h : Mono σ) : ∀ (f g : List (Nat × Nat)), renFI σ f = renFI σ g ↔ f = g
  | [], [] => by simp [renFI]
  | [], _ :: _ => by simp [renFI]
  | _ :: _, [] => by simp [renFI]
  | p :: ps, q :: qs => by
    have := renFI_inj h ps qs
    simp only [renFI] at this
    cases p; cases q
    simp [renFI, this, h.idx.inj]

mutual
theorem beq_rename {σ : Ren} (h : Mono σ) : ∀ (a b : CExpr), CExpr.beq (a.rename σ) (b.rename σ) = CExpr.beq a b
  | .op k aux as, .op k' aux' bs => by simp [CExpr.rename, CExpr.beq, beqL_rename h as bs]
  | .zero sh f, .zero sh' f' => by
    simp only [CExpr.rename, CExpr.beq]; rw [beq_congr_iff _ _ _ _ (renFI_inj h f f')]
  | .mi is, .mi js => by
    simp only [CExpr.rename, CExpr.beq]; rw [beq_congr_iff _ _ _ _ (idxs_rename_inj h is js)]
  | .term t, .term u => by
    simp only [CExpr.rename, CExpr.beq]; rw [beq_congr_iff _ _ _ _ (term_rename_inj h t u)]
  | .int _, .int _ | .real _ _, .real _ _ | .cplx _ _ _ _, .cplx _ _ _ _ => rfl
  | .int _, .real _ _ | .int _, .cplx _ _ _ _ | .int _, .zero _ _ | .int _, .mi _ | .int _, .term _ | .int _, .op _ _ _ => rfl
  | .real _ _, .int _ | .real _ _, .cplx _ _ _ _ | .real _ _, .zero _ _ | .real _ _, .mi _ | .real _ _, .term _ | .real _ _, .op _ _ _ => rfl
  | .cplx _ _ _ _, .int _ | .cplx _ _ _ _, .real _ _ | .cplx _ _ _ _, .zero _ _ | .cplx _ _ _ _, .mi _ | .cplx _ _ _ _, .term _ | .cplx _ _ _ _, .op _ _ _ => rfl
  | .zero _ _, .int _ | .zero _ _, .real _ _ | .zero _ _, .cplx _ _ _ _ | .zero _ _, .mi _ | .zero _ _, .term _ | .zero _ _, .op _ _ _ => rfl
  | .mi _, .int _ | .mi _, .real _ _ | .mi _, .cplx _ _ _ _ | .mi _, .zero _ _ | .mi _, .term _ | .mi _, .op _ _ _ => rfl
  | .term _, .int _ | .term _, .real _ _ | .term _, .cplx _ _ _ _ | .term _, .zero _ _ | .term _, .mi _ | .term _, .op _ _ _ => rfl
  | .op _ _ _, .int _ | .op _ _ _, .real _ _ | .op _ _ _, .cplx _ _ _ _ | .op _ _ _, .zero _ _ | .op _ _ _, .mi _ | .op _ _ _, .term _ => rfl
theorem beqL_rename {σ : Ren} (h : Mono σ) : ∀ (as bs : List CExpr), CExpr.beqL (renameL σ as) (renameL σ bs) = CExpr.beqL as bs
  | [], [] => rfl
  | [], _ :: _ => rfl
  | _ :: _, [] => rfl
  | a :: as, b :: bs => by simp [renameL, CExpr.beqL, beq_rename h a b, beqL_rename h as bs]
end

theorem eqE_rename {σ : Ren} (h : Mono σ) (a b : CExpr) : eqE (a.rename σ) (b.rename σ) = eqE a b := beq_rename h a b

theorem renameL_eq_map (σ : Ren) : ∀ l : List CExpr, renameL σ l = l.map (CExpr.rename σ)
  | [] => rfl
  | a :: as => by simp [renameL, renameL_eq_map σ as]

/-! ## terminals of a form -/

mutual
theorem terms_rename (σ : Ren) : ∀ e : CExpr, (e.rename σ).terms = e.terms.map (CTerm.rename σ)
  | .op _ _ args => by simp [CExpr.rename, CExpr.terms, termsL_rename σ args]
  | .term _ => rfl
  | .int _ | .real _ _ | .cplx _ _ _ _ | .zero _ _ | .mi _ => rfl
theorem termsL_rename (σ : Ren) : ∀ l : List CExpr, CExpr.termsL (renameL σ l) = (CExpr.termsL l).map (CTerm.rename σ)
  | [] => rfl
  | a :: as => by simp [renameL, CExpr.termsL, terms_rename σ a, termsL_rename σ as]
end

theorem formTerms_rename (σ : Ren) (f : CForm) : formTerms (f.rename σ) = (formTerms f).map (CTerm.rename σ) := by
  induction f with
  | nil => rfl
  | cons i is ih =>
    simp only [formTerms, CForm.rename, List.map, List.flatMap_cons] at ih ⊢
    rw [ih]
    simp [CIntegral.rename, terms_rename]

theorem mesh?_rename (σ : Ren) (t : CTerm) : (t.rename σ).mesh? = t.mesh?.map (MeshD.rename σ) := by
  cases t <;> rfl

/-! ## `_sorted_integrals` -/

theorem ltIntegral_rename {σ : Ren} (h : Mono σ) (a b : CIntegral) :
    ltIntegral (a.rename σ) (b.rename σ) = ltIntegral a b := by
  simp [ltIntegral, CIntegral.rename, cmpMesh_rename h]

theorem sortIntegrals_rename {σ : Ren} (h : Mono σ) (f : CForm) :
    sortIntegrals (f.rename σ) = (sortIntegrals f).rename σ := by
  unfold sortIntegrals CForm.rename
  exact sortS_map _ _ _ f (fun a _ b _ => ltIntegral_rename h a b)

/-! ## `domain_numbering` -/

theorem ltMesh_rename {σ : Ren} (h : Mono σ) (a b : MeshD) : ltMesh (a.rename σ) (b.rename σ) = ltMesh a b := by
  simp [ltMesh, cmpMesh_rename h]

theorem sortDedupMesh_rename {σ : Ren} (h : Mono σ) (l : List MeshD) :
    sortS ltMesh (dedupS eqMesh (l.map (MeshD.rename σ))) = (sortS ltMesh (dedupS eqMesh l)).map (MeshD.rename σ) := by
  rw [dedupS_map _ eqMesh eqMesh l (fun a _ b _ => eqMesh_rename h a b)]
  exact sortS_map _ _ _ _ (fun a _ b _ => ltMesh_rename h a b)

theorem filterMap_mesh?_rename (σ : Ren) (l : List CTerm) :
    (l.map (CTerm.rename σ)).filterMap CTerm.mesh? = (l.filterMap CTerm.mesh?).map (MeshD.rename σ) := by
  induction l with
  | nil => rfl
  | cons t ts ih =>
    simp only [List.map, List.filterMap_cons, mesh?_rename]
    cases t.mesh? <;> simp [ih]

theorem domainNumbering_rename {σ : Ren} (h : Mono σ) (f : CForm) :
    domainNumbering (f.rename σ) = (domainNumbering f).map (MeshD.rename σ) := by
  have h1 : (f.rename σ).map (·.mesh) = (f.map (·.mesh)).map (MeshD.rename σ) := by
    simp [CForm.rename, CIntegral.rename, List.map_map, Function.comp_def]
  have hf : ∀ (ints : List MeshD) (l : List MeshD),
      (l.map (MeshD.rename σ)).filter (fun m => !memB eqMesh m (ints.map (MeshD.rename σ)))
        = (l.filter (fun m => !memB eqMesh m ints)).map (MeshD.rename σ) := by
    intro ints l
    rw [List.filter_map]
    congr 1
    apply List.filter_congr
    intro m _
    simp only [Function.comp]
    rw [memB_map _ eqMesh eqMesh m _ (fun y _ => eqMesh_rename h m y)]
  unfold domainNumbering
  simp only [h1, sortDedupMesh_rename h, formTerms_rename, filterMap_mesh?_rename, hf, List.map_append]

/-! ## `terminal_numbering` -/

theorem isCoeff_rename (σ : Ren) (t : CTerm) : isCoeff (t.rename σ) = isCoeff t := by cases t <;> rfl
theorem isConst_rename (σ : Ren) (t : CTerm) : isConst (t.rename σ) = isConst t := by cases t <;> rfl
theorem isLabel_rename (σ : Ren) (t : CTerm) : isLabel (t.rename σ) = isLabel t := by cases t <;> rfl
theorem isArg_rename (σ : Ren) (t : CTerm) : isArg (t.rename σ) = isArg t := by cases t <;> rfl

/-- the counted classes: within one class the counts are renamed by one monotone map -/
def SameClass (p : CTerm → Bool) : Prop :=
  ∀ {σ : Ren}, Mono σ → ∀ a b, p a = true → p b = true →
    ltCount (a.rename σ) (b.rename σ) = ltCount a b ∧ sameCount (a.rename σ) (b.rename σ) = sameCount a b

theorem sameClass_coeff : SameClass isCoeff := by
  intro σ h a b ha hb
  cases a <;> cases b <;> simp [isCoeff] at ha hb
  refine ⟨?_, ?_⟩
  · simp only [ltCount, CTermCount, CTerm.rename]; exact decide_eq_decide.mpr (h.coeff.lt_iff _ _)
  · simp only [sameCount, CTermCount, CTerm.rename]; exact beq_congr_iff _ _ _ _ (h.coeff.inj _ _)

theorem sameClass_const : SameClass isConst := by
  intro σ h a b ha hb
  cases a <;> cases b <;> simp [isConst] at ha hb
  refine ⟨?_, ?_⟩
  · simp only [ltCount, CTermCount, CTerm.rename]; exact decide_eq_decide.mpr (h.const.lt_iff _ _)
  · simp only [sameCount, CTermCount, CTerm.rename]; exact beq_congr_iff _ _ _ _ (h.const.inj _ _)

theorem sameClass_label : SameClass isLabel := by
  intro σ h a b ha hb
  cases a <;> cases b <;> simp [isLabel] at ha hb
  refine ⟨?_, ?_⟩
  · simp only [ltCount, CTermCount, CTerm.rename]; exact decide_eq_decide.mpr (h.label.lt_iff _ _)
  · simp only [sameCount, CTermCount, CTerm.rename]; exact beq_congr_iff _ _ _ _ (h.label.inj _ _)

theorem filter_rename (σ : Ren) (p : CTerm → Bool) (hp : ∀ t, p (t.rename σ) = p t) (l : List CTerm) :
    (l.map (CTerm.rename σ)).filter p = (l.filter p).map (CTerm.rename σ) := by
  rw [List.filter_map]
  congr 1
  apply List.filter_congr
  intro t _
  exact hp t

theorem classNumbering_rename {σ : Ren} (h : Mono σ) (p : CTerm → Bool) (hp : ∀ t, p (t.rename σ) = p t)
    (hc : SameClass p) (f : CForm) :
    classNumbering p (f.rename σ) = (classNumbering p f).map (CTerm.rename σ) := by
  unfold classNumbering
  rw [formTerms_rename, filter_rename σ p hp, dedupS_map _ eqTerm eqTerm _ (fun a _ b _ => eqTerm_rename h a b)]
  apply sortS_map
  intro a ha b hb
  have pa : p a = true := by
    have := mem_dedupS eqTerm a _ ha
    simp only [List.mem_filter] at this
    exact this.2
  have pb : p b = true := by
    have := mem_dedupS eqTerm b _ hb
    simp only [List.mem_filter] at this
    exact this.2
  exact (hc h a b pa pb).1

/-! ## the uniqueness checks -/

theorem clash_rename {σ : Ren} (h : Mono σ) (key : CTerm → CTerm → Bool) :
    ∀ l : List CTerm, (∀ a ∈ l, ∀ b ∈ l, key (a.rename σ) (b.rename σ) = key a b) →
      clash key (l.map (CTerm.rename σ)) = clash key l
  | [], _ => rfl
  | t :: ts, hk => by
    simp only [List.map, clash]
    rw [clash_rename h key ts (fun a ha b hb => hk a (by simp [ha]) b (by simp [hb]))]
    rw [any_map_congr (CTerm.rename σ) _ (fun u => key t u && !eqTerm t u) ts
      (fun u hu => by rw [hk t (by simp) u (by simp [hu]), eqTerm_rename h])]

theorem sameNumberPart_rename (σ : Ren) (a b : CTerm) : sameNumberPart (a.rename σ) (b.rename σ) = sameNumberPart a b := by
  cases a <;> cases b <;> rfl

theorem raises_rename {σ : Ren} (h : Mono σ) (f : CForm) : raises (f.rename σ) = raises f := by
  unfold raises
  rw [formTerms_rename, filter_rename σ isCoeff (isCoeff_rename σ), filter_rename σ isArg (isArg_rename σ)]
  have e1 := clash_rename h sameCount ((formTerms f).filter isCoeff) (by
    intro a ha b hb
    simp only [List.mem_filter] at ha hb
    exact (sameClass_coeff h a b ha.2 hb.2).2)
  have e2 := clash_rename h sameNumberPart ((formTerms f).filter isArg) (fun a _ b _ => sameNumberPart_rename σ a b)
  rw [e1, e2]

end UflVerif.C12
