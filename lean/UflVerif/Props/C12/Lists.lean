/-
C12 lemmas, part B1: the list utilities of Model/Signature.lean (`sortS`, `dedupS`, `posOf`, `memB`) commute with a map
that preserves the comparison / equality test they are given.  Core Lean only.
-/
import UflVerif.Model.Signature

namespace UflVerif.L

variable {α β : Type}

theorem mem_insertS (lt : α → α → Bool) (x y : α) : ∀ l : List α, y ∈ insertS lt x l ↔ y = x ∨ y ∈ l
  | [] => by simp [insertS]
  | z :: zs => by
    simp only [insertS]
    split
    · simp only [List.mem_cons, mem_insertS lt x y zs]
      constructor
      · rintro (h | h | h) <;> simp [h]
      · rintro (h | h | h) <;> simp [h]
    · simp [List.mem_cons]

theorem mem_sortS (lt : α → α → Bool) (y : α) : ∀ l : List α, y ∈ sortS lt l ↔ y ∈ l
  | [] => by simp [sortS]
  | x :: xs => by simp [sortS, mem_insertS, mem_sortS lt y xs]

theorem insertS_map (f : α → β) (lt : α → α → Bool) (lt' : β → β → Bool) (x : α) :
    ∀ l : List α, (∀ y ∈ l, lt' (f y) (f x) = lt y x) → insertS lt' (f x) (l.map f) = (insertS lt x l).map f
  | [], _ => rfl
  | y :: ys, h => by
    simp only [List.map, insertS]
    rw [h y (by simp)]
    split
    · simp only [List.map]
      rw [insertS_map f lt lt' x ys (fun z hz => h z (by simp [hz]))]
    · rfl

theorem sortS_map (f : α → β) (lt : α → α → Bool) (lt' : β → β → Bool) :
    ∀ l : List α, (∀ x ∈ l, ∀ y ∈ l, lt' (f x) (f y) = lt x y) → sortS lt' (l.map f) = (sortS lt l).map f
  | [], _ => rfl
  | x :: xs, h => by
    simp only [List.map, sortS]
    rw [sortS_map f lt lt' xs (fun a ha b hb => h a (by simp [ha]) b (by simp [hb]))]
    exact insertS_map f lt lt' x _ (fun y hy => h y (by simp [(mem_sortS lt y xs).mp hy]) x (by simp))

theorem mem_dedupS (eq : α → α → Bool) (y : α) : ∀ l : List α, y ∈ dedupS eq l → y ∈ l
  | [], h => by simp [dedupS] at h
  | x :: xs, h => by
    simp only [dedupS, List.mem_cons, List.mem_filter] at h
    rcases h with h | h
    · simp [h]
    · simp [mem_dedupS eq y xs h.1]

theorem dedupS_map (f : α → β) (eq : α → α → Bool) (eq' : β → β → Bool) :
    ∀ l : List α, (∀ x ∈ l, ∀ y ∈ l, eq' (f x) (f y) = eq x y) → dedupS eq' (l.map f) = (dedupS eq l).map f
  | [], _ => rfl
  | x :: xs, h => by
    simp only [List.map, dedupS]
    rw [dedupS_map f eq eq' xs (fun a ha b hb => h a (by simp [ha]) b (by simp [hb]))]
    congr 1
    rw [List.filter_map]
    congr 1
    apply List.filter_congr
    intro y hy
    simp only [Function.comp]
    rw [h x (by simp) y (by simp [mem_dedupS eq y xs hy])]

theorem memB_map (f : α → β) (eq : α → α → Bool) (eq' : β → β → Bool) (x : α) :
    ∀ l : List α, (∀ y ∈ l, eq' (f x) (f y) = eq x y) → memB eq' (f x) (l.map f) = memB eq x l
  | [], _ => rfl
  | y :: ys, h => by
    simp only [memB, List.map, List.any_cons]
    rw [h y (by simp)]
    have := memB_map f eq eq' x ys (fun z hz => h z (by simp [hz]))
    simp only [memB] at this
    rw [this]

theorem posOf_map (f : α → β) (eq : α → α → Bool) (eq' : β → β → Bool) (x : α) :
    ∀ l : List α, (∀ y ∈ l, eq' (f x) (f y) = eq x y) → posOf eq' (f x) (l.map f) = posOf eq x l
  | [], _ => rfl
  | y :: ys, h => by
    simp only [posOf, List.map]
    rw [h y (by simp), posOf_map f eq eq' x ys (fun z hz => h z (by simp [hz]))]

theorem any_map_congr (f : α → β) (p : β → Bool) (q : α → Bool) :
    ∀ l : List α, (∀ x ∈ l, p (f x) = q x) → (l.map f).any p = l.any q
  | [], _ => rfl
  | x :: xs, h => by
    simp only [List.map, List.any_cons]
    rw [h x (by simp), any_map_congr f p q xs (fun y hy => h y (by simp [hy]))]

theorem beq_congr_iff {α β : Type} [BEq α] [LawfulBEq α] [BEq β] [LawfulBEq β] (a a' : α) (b b' : β)
    (h : a = a' ↔ b = b') : (a == a') = (b == b') := by
  by_cases hb : b = b'
  · have ha := h.mpr hb
    subst ha; subst hb; simp
  · have ha : ¬ a = a' := fun x => hb (h.mp x)
    rw [beq_eq_false_iff_ne.mpr ha, beq_eq_false_iff_ne.mpr hb]

end UflVerif.L
