/-
C12 lemmas, part A': the structured numeric ordering `cmpN` (Model/Renaming.lean) is `cmp_expr` with the numeric
terminal comparators of Model/Order.lean (`Expr.cmpC OrdCfg.numeric`) on the rendered expressions — the ordering
the C29 correspondence compares with `ufl.sorting.cmp_expr` when the tree under test has fix_C12_1.diff.
(lemmas only; the property theorems are in Props/C12.lean)
-/
import UflVerif.Props.C12.Cmp

namespace UflVerif.C12
open UflVerif CExpr Std

/-! ## sort keys against the structured comparisons -/

theorem cmpAtoms_nats : ∀ (xs ys : List Nat), Expr.cmpAtoms (Expr.natAtoms xs) (Expr.natAtoms ys) = Sig.cmpNats xs ys
  | [], [] => rfl
  | [], _ :: _ => rfl
  | _ :: _, [] => rfl
  | x :: xs, y :: ys => by
    have ih := cmpAtoms_nats xs ys
    simp only [Expr.cmpAtoms, Expr.natAtoms, List.map] at ih ⊢
    rw [Expr.lexCmp, Sig.cmpNats]
    simp only [Expr.cmpAtom]
    rw [show compare (Int.ofNat x) (Int.ofNat y) = compare x y from compare_natCast x y, ih]
    cases compare x y <;> rfl

theorem cmpAtoms_sortKey (m m' : MeshD) : Expr.cmpAtoms m.sortKey m'.sortKey = Sig.cmpMesh m m' := by
  simp only [Expr.cmpAtoms, MeshD.sortKey, Expr.lexCmp, Expr.cmpAtom, Sig.cmpMesh, Sig.thn, compare_natCast, C29.cmpStr_refl]
  cases compare m.gdim m'.gdim <;> cases compare m.tdim m'.tdim <;> cases compare m.id m'.id <;>
    cases compare m.celem m'.celem <;> rfl

theorem cmpAtoms_single (x y : Int) : Expr.cmpAtoms [.n x] [.n y] = compare x y := by
  simp only [Expr.cmpAtoms, Expr.lexCmp, Expr.cmpAtom]
  cases compare x y <;> rfl

/-! ## class names as the serializer produces them -/

def counted : List String := ["Coefficient", "Argument", "Label", "Constant"]

/-- the regenerated list of geometric quantity classes does not contain a counted class -/
theorem geo_not_counted : Gen.OrderVariant.geoNames.all (fun n => !counted.contains n) = true := by decide +kernel

theorem isGeo_not_counted (c : String) (h : Expr.isGeo c = true) : counted.contains c = false := by
  have := geo_not_counted
  simp only [List.all_eq_true] at this
  have hm : c ∈ Gen.OrderVariant.geoNames := by simpa [Expr.isGeo] using h
  simpa using this c hm

/-- a geometric quantity carries the name of a geometric quantity class, any other counter-free terminal does not, and
    neither carries the name of a class with its own comparator -/
def saneT : CTerm → Bool
  | .geo c _ _ => Expr.isGeo c
  | .plain c _ _ => !counted.contains c && !Expr.isGeo c
  | _ => true

mutual
def saneC : CExpr → Bool
  | .term t => saneT t
  | .op _ _ args => saneCL args
  | _ => true
def saneCL : List CExpr → Bool
  | [] => true
  | a :: as => saneC a && saneCL as
end

/-- the hypothesis of the bridge: class names are the real ones (C29's `Sane` on the rendered expression) and the
    structured terminals are of the kind their class name says -/
def SaneN (e : CExpr) : Bool := C29.Sane e.toExpr && saneC e

theorem saneT_rename (σ : Ren) (t : CTerm) : saneT (t.rename σ) = saneT t := by
  cases t <;> rfl

mutual
theorem saneC_rename (σ : Ren) : ∀ e : CExpr, saneC (e.rename σ) = saneC e
  | .term t => by simp [CExpr.rename, saneC, saneT_rename]
  | .op k aux args => by simp [CExpr.rename, saneC, saneCL_rename σ args]
  | .int _ | .real _ _ | .cplx _ _ _ _ | .zero _ _ | .mi _ => rfl
theorem saneCL_rename (σ : Ren) : ∀ l : List CExpr, saneCL (renameL σ l) = saneCL l
  | [] => rfl
  | a :: as => by simp [renameL, saneCL, saneC_rename σ a, saneCL_rename σ as]
end

mutual
theorem sane_toExpr_rename (σ : Ren) : ∀ e : CExpr, C29.Sane (e.rename σ).toExpr = C29.Sane e.toExpr
  | .term t => by
    simp only [CExpr.rename, toExpr, C29.Sane]
    have : (t.rename σ).toTermData.cls = t.toTermData.cls := by cases t <;> rfl
    rw [this]
  | .op k aux args => by
    cases k <;> simp only [CExpr.rename, toExpr, C29.Sane, saneL_toExpr_rename σ args]
  | .int _ | .real _ _ | .cplx _ _ _ _ | .zero _ _ | .mi _ => rfl
theorem saneL_toExpr_rename (σ : Ren) : ∀ l : List CExpr, C29.SaneL (toExprL (renameL σ l)) = C29.SaneL (toExprL l)
  | [] => rfl
  | a :: as => by simp only [renameL, toExprL, C29.SaneL, sane_toExpr_rename σ a, saneL_toExpr_rename σ as]
end

theorem SaneN_rename (σ : Ren) (e : CExpr) : SaneN (e.rename σ) = SaneN e := by
  simp [SaneN, saneC_rename, sane_toExpr_rename]

/-! ## terminals -/

theorem cls_toTermData (t : CTerm) : t.toTermData.cls = t.cls := by cases t <;> rfl

/-- two structured terminals of one class, of the kind their class says: the structured numeric comparison is the
    comparison of the sort keys `Expr.cmpTerm OrdCfg.numeric` makes on the rendered terminals -/
theorem termCmpN_term (t u : CTerm) (ht : saneT t = true) (hu : saneT u = true) (hc : t.cls = u.cls) :
    termCmpN (.term t) (.term u) = Expr.cmpTerm .numeric Expr.cmpMI (.term t.toTermData) (.term u.toTermData) := by
  cases t <;> cases u <;> simp only [CTerm.cls] at hc <;> simp only [saneT, Bool.and_eq_true, Bool.not_eq_true'] at ht hu
  -- same kind
  case coeff.coeff => simp [termCmpN, Expr.cmpTerm, CTerm.toTermData, compare_natCast]
  case arg.arg =>
    rename_i n p _ _ n' p' _ _
    simp only [termCmpN, Expr.cmpTerm, CTerm.toTermData, Sig.thn, compare_natCast]
    simp only [show ("Argument" = "Coefficient") = False from by decide, ↓reduceIte]
    cases compare n n' <;> rfl
  case label.label => simp [termCmpN, Expr.cmpTerm, CTerm.toTermData]
  case const.const c m sh c' m' sh' =>
    simp only [termCmpN, Expr.cmpTerm, CTerm.toTermData, Expr.OrdCfg.numeric, Expr.cmpKey, Expr.keyOf, cmpAtoms_sortKey,
      cmpAtoms_nats, cmpAtoms_single, compare_natCast, Sig.thn]
    simp only [show ("Constant" = "Coefficient") = False from by decide, show ("Constant" = "Argument") = False from by decide,
      show ("Constant" = "Label") = False from by decide, ↓reduceIte]
    cases Sig.cmpMesh m m' <;> cases Sig.cmpNats sh sh' <;> cases compare c c' <;> rfl
  case geo.geo c m sh c' m' sh' =>
    subst hc
    have hn := isGeo_not_counted _ ht
    simp only [counted, List.contains_cons, List.contains_nil, Bool.or_false, Bool.or_eq_false_iff, beq_eq_false_iff_ne, ne_eq] at hn
    simp only [termCmpN, Expr.cmpTerm, CTerm.toTermData, Expr.OrdCfg.numeric, Expr.cmpKey, Expr.keyOf, cmpAtoms_sortKey, hn, ht, ↓reduceIte]
    cases Sig.cmpMesh m m' <;> rfl
  case plain.plain c k sh c' k' sh' =>
    have hn := ht.1
    simp only [counted, List.contains_cons, List.contains_nil, Bool.or_false, Bool.or_eq_false_iff, beq_eq_false_iff_ne, ne_eq] at hn
    simp [termCmpN, Expr.cmpTerm, CTerm.toTermData, hn, ht.2]
  -- different kinds never carry one class name
  all_goals first
    | (exact absurd hc (by decide))
    | (exfalso; subst hc; have hn := isGeo_not_counted _ (by first | exact ht | exact hu); revert hn; decide)
    | (exfalso; subst hc; first | (have hn := ht.1; revert hn; decide) | (have hn := hu.1; revert hn; decide))
    | (exfalso; subst hc; first | (rw [ht] at hu; exact absurd hu.2 (by simp)) | (rw [hu] at ht; exact absurd ht.2 (by simp)))

/-! ## expressions -/

theorem kind_toExpr (e : CExpr) : C29.kind e.toExpr = ctorIx e := by cases e <;> rfl

theorem saneCL_cons (a : CExpr) (as : List CExpr) (h : saneCL (a :: as) = true) : saneC a = true ∧ saneCL as = true := by
  simpa [saneCL] using h

mutual
theorem cmpN_toExpr : ∀ (a b : CExpr), C29.Sane a.toExpr = true → C29.Sane b.toExpr = true → saneC a = true → saneC b = true →
    cmpN a b = Expr.cmpC .numeric a.toExpr b.toExpr
  | a, b, sa, sb, ca, cb => by
    unfold cmpN Expr.cmpC
    rw [cmpT_unfold, C29.cmp_unfold, typecode_toExpr, typecode_toExpr]
    cases hc : compare (typecode a) (typecode b) <;> simp only [thn, C29.thn]
    have hc' : compare (Expr.typecode a.toExpr) (Expr.typecode b.toExpr) = .eq := by rw [typecode_toExpr, typecode_toExpr]; exact hc
    obtain ⟨hcls, hkind⟩ := C29.same_class _ _ sa sb hc'
    rw [kind_toExpr, kind_toExpr] at hkind
    cases a <;> cases b <;> simp only [ctorIx] at hkind <;> try (exact absurd hkind (by decide))
    case int.int => rfl
    case real.real => rfl
    case cplx.cplx => rfl
    case mi.mi => rfl
    case zero.zero sh f sh' f' =>
      simp only [innerT, C29.inner, toExpr, termCmpN, Expr.cmpTerm, Expr.OrdCfg.numeric, Expr.cmpKey, Expr.keyOf, cmpAtoms_nats, Sig.thn]
      cases Sig.cmpNats sh sh' <;> cases Sig.cmpNats (f.map (·.2)) (f'.map (·.2)) <;> rfl
    case term.term t u =>
      simp only [innerT, C29.inner, toExpr]
      have : t.cls = u.cls := by simpa [toExpr, Expr.className, cls_toTermData] using hcls
      exact termCmpN_term t u (by simpa [saneC] using ca) (by simpa [saneC] using cb) this
    case op.op k aux as k' aux' bs =>
      simp only [innerT, C29.inner, toExpr, toExprL_length]
      have := cmpNL_toExpr as bs (C29.sane_op_args _ _ _ (by simpa [toExpr] using sa)) (C29.sane_op_args _ _ _ (by simpa [toExpr] using sb))
        (by simpa [saneC] using ca) (by simpa [saneC] using cb)
      unfold cmpN at this
      rw [this]; rfl
theorem cmpNL_toExpr : ∀ (as bs : List CExpr), C29.SaneL (toExprL as) = true → C29.SaneL (toExprL bs) = true →
    saneCL as = true → saneCL bs = true →
    cmpTL termCmpN as bs = Expr.cmpLWith .numeric Expr.cmpMI (toExprL as) (toExprL bs)
  | [], _, _, _, _, _ => by simp [cmpTL, toExprL, Expr.cmpLWith]
  | _ :: _, [], _, _, _, _ => by simp [cmpTL, toExprL, Expr.cmpLWith]
  | a :: as, b :: bs, sa, sb, ca, cb => by
    simp only [toExprL] at sa sb ⊢
    have sa' := C29.saneL_cons _ _ sa; have sb' := C29.saneL_cons _ _ sb
    have ca' := saneCL_cons _ _ ca; have cb' := saneCL_cons _ _ cb
    rw [cmpTL_cons, C29.cmpL_cons, cmpNL_toExpr as bs sa'.2 sb'.2 ca'.2 cb'.2]
    have := cmpN_toExpr a b sa'.1 sb'.1 ca'.1 cb'.1
    unfold cmpN Expr.cmpC at this
    rw [this]; rfl
end

end UflVerif.C12
