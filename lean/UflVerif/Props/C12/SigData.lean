/-
C12 lemmas, part B3: `unique_pre_traversal`, the index numbering and the pre-hash data under a monotone renaming.
(lemmas only; the property theorems are in Props/C12.lean)
-/
import UflVerif.Props.C12.Sig

namespace UflVerif.C12
open UflVerif CExpr L Sig

/-! ## `unique_pre_traversal` -/

mutual
theorem size_rename (σ : Ren) : ∀ e : CExpr, (e.rename σ).size = e.size
  | .op _ _ args => by simp [CExpr.rename, CExpr.size, sizeL_rename σ args]
  | .int _ | .real _ _ | .cplx _ _ _ _ | .zero _ _ | .mi _ | .term _ => rfl
theorem sizeL_rename (σ : Ren) : ∀ l : List CExpr, CExpr.sizeL (renameL σ l) = CExpr.sizeL l
  | [] => rfl
  | a :: as => by simp [renameL, CExpr.sizeL, size_rename σ a, sizeL_rename σ as]
end

theorem operands_rename (σ : Ren) (e : CExpr) : (e.rename σ).operands = e.operands.map (CExpr.rename σ) := by
  cases e <;> simp [CExpr.rename, CExpr.operands, renameL_eq_map]

theorem memE_rename {σ : Ren} (h : Mono σ) (c : CExpr) (vis : List CExpr) :
    memB eqE (c.rename σ) (vis.map (CExpr.rename σ)) = memB eqE c vis :=
  memB_map _ eqE eqE c vis (fun y _ => eqE_rename h c y)

theorem pushNew_rename {σ : Ren} (h : Mono σ) : ∀ (cs stack vis : List CExpr),
    pushNew (cs.map (CExpr.rename σ)) (stack.map (CExpr.rename σ)) (vis.map (CExpr.rename σ))
      = ((pushNew cs stack vis).1.map (CExpr.rename σ), (pushNew cs stack vis).2.map (CExpr.rename σ))
  | [], _, _ => rfl
  | c :: cs, stack, vis => by
    simp only [List.map, pushNew, memE_rename h]
    split
    · exact pushNew_rename h cs stack vis
    · exact pushNew_rename h cs (c :: stack) (c :: vis)

theorem preLoop_rename {σ : Ren} (h : Mono σ) : ∀ (fuel : Nat) (stack vis : List CExpr),
    preLoop fuel (stack.map (CExpr.rename σ)) (vis.map (CExpr.rename σ)) = (preLoop fuel stack vis).map (CExpr.rename σ)
  | 0, _, _ => rfl
  | _ + 1, [], _ => rfl
  | fuel + 1, t :: stack, vis => by
    simp only [List.map, preLoop, operands_rename, pushNew_rename h]
    rw [preLoop_rename h fuel]

theorem uniquePre_rename {σ : Ren} (h : Mono σ) (e : CExpr) : uniquePre (e.rename σ) = (uniquePre e).map (CExpr.rename σ) := by
  unfold uniquePre
  rw [size_rename]
  exact preLoop_rename h e.size [e] [e]

/-! ## index numbering -/

theorem contains_map_inj {f : Nat → Nat} (hf : StrictMonoN f) (c : Nat) : ∀ acc : List Nat, (acc.map f).contains (f c) = acc.contains c
  | [] => rfl
  | a :: as => by
    simp only [List.map, List.contains_cons]
    rw [contains_map_inj hf c as, beq_congr_iff (f c) (f a) c a (hf.inj c a)]

theorem addNew_map {f : Nat → Nat} (hf : StrictMonoN f) (acc : List Nat) (c : Nat) : addNew (acc.map f) (f c) = (addNew acc c).map f := by
  simp only [addNew, contains_map_inj hf]
  split <;> simp

theorem seeIdx_rename {σ : Ren} (h : Mono σ) (acc : List Nat) (i : Idx) :
    seeIdx (acc.map σ.idx) (i.rename σ) = (seeIdx acc i).map σ.idx := by
  cases i
  · rfl
  · exact addNew_map h.idx acc _

theorem foldl_seeIdx_rename {σ : Ren} (h : Mono σ) : ∀ (is : List Idx) (acc : List Nat),
    (is.map (Idx.rename σ)).foldl seeIdx (acc.map σ.idx) = (is.foldl seeIdx acc).map σ.idx
  | [], _ => rfl
  | i :: is, acc => by
    simp only [List.map, List.foldl_cons, seeIdx_rename h]
    exact foldl_seeIdx_rename h is _

theorem foldl_addFI_rename {σ : Ren} (h : Mono σ) : ∀ (f : List (Nat × Nat)) (acc : List Nat),
    (renFI σ f).foldl (fun a p => addNew a p.1) (acc.map σ.idx) = (f.foldl (fun a p => addNew a p.1) acc).map σ.idx
  | [], _ => rfl
  | p :: ps, acc => by
    simp only [renFI, List.map, List.foldl_cons, addNew_map h.idx]
    exact foldl_addFI_rename h ps _

theorem seeNode_rename {σ : Ren} (h : Mono σ) (z : Bool) (acc : List Nat) (e : CExpr) :
    seeNode z (acc.map σ.idx) (e.rename σ) = (seeNode z acc e).map σ.idx := by
  cases e <;> try rfl
  case zero sh f =>
    simp only [CExpr.rename, seeNode]
    split
    · exact foldl_addFI_rename h f acc
    · rfl
  case mi is => exact foldl_seeIdx_rename h is acc

theorem foldl_seeNode_rename {σ : Ren} (h : Mono σ) (z : Bool) : ∀ (l : List CExpr) (acc : List Nat),
    (l.map (CExpr.rename σ)).foldl (seeNode z) (acc.map σ.idx) = (l.foldl (seeNode z) acc).map σ.idx
  | [], _ => rfl
  | e :: es, acc => by
    simp only [List.map, List.foldl_cons, seeNode_rename h]
    exact foldl_seeNode_rename h z es _

theorem idxNumbering_rename {σ : Ren} (h : Mono σ) (z : Bool) (f : CForm) :
    idxNumbering z (f.rename σ) = (idxNumbering z f).map σ.idx := by
  unfold idxNumbering
  rw [sortIntegrals_rename h]
  generalize sortIntegrals f = g
  have : ∀ (g : CForm) (acc : List Nat),
      (g.rename σ).foldl (fun acc i => (uniquePre i.integrand).foldl (seeNode z) acc) (acc.map σ.idx)
        = (g.foldl (fun acc i => (uniquePre i.integrand).foldl (seeNode z) acc) acc).map σ.idx := by
    intro g
    induction g with
    | nil => intro acc; rfl
    | cons i is ih =>
      intro acc
      simp only [CForm.rename, List.map, List.foldl_cons, CIntegral.rename, uniquePre_rename h, foldl_seeNode_rename h]
      exact ih _
  exact this g []

/-! ## the pre-hash data -/

def _root_.UflVerif.Sig.Env.rename (σ : Ren) (env : Env) : Env :=
  { mesh := env.mesh.map (MeshD.rename σ), coeff := env.coeff.map (CTerm.rename σ), const := env.const.map (CTerm.rename σ),
    label := env.label.map (CTerm.rename σ), idx := env.idx.map σ.idx, zfix := env.zfix }

theorem envOf_rename {σ : Ren} (h : Mono σ) (z : Bool) (f : CForm) : envOf z (f.rename σ) = (envOf z f).rename σ := by
  simp only [envOf, Env.rename, domainNumbering_rename h, idxNumbering_rename h,
    classNumbering_rename h isCoeff (isCoeff_rename σ) sameClass_coeff,
    classNumbering_rename h isConst (isConst_rename σ) sameClass_const,
    classNumbering_rename h isLabel (isLabel_rename σ) sameClass_label]

theorem posMesh_rename {σ : Ren} (h : Mono σ) (m : MeshD) (l : List MeshD) :
    posOf eqMesh (m.rename σ) (l.map (MeshD.rename σ)) = posOf eqMesh m l :=
  posOf_map _ eqMesh eqMesh m l (fun y _ => eqMesh_rename h m y)

theorem posTerm_rename {σ : Ren} (h : Mono σ) (t : CTerm) (l : List CTerm) :
    posOf eqTerm (t.rename σ) (l.map (CTerm.rename σ)) = posOf eqTerm t l :=
  posOf_map _ eqTerm eqTerm t l (fun y _ => eqTerm_rename h t y)

theorem posIdx_rename {σ : Ren} (h : Mono σ) (c : Nat) (l : List Nat) :
    posOf (· == ·) (σ.idx c) (l.map σ.idx) = posOf (· == ·) c l :=
  posOf_map σ.idx (· == ·) (· == ·) c l (fun y _ => beq_congr_iff _ _ _ _ (h.idx.inj c y))

theorem sigMesh_rename {σ : Ren} (h : Mono σ) (env : Env) (m : MeshD) : sigMesh (env.rename σ) (m.rename σ) = sigMesh env m := by
  simp only [sigMesh, Env.rename, posMesh_rename h]
  rfl

theorem sigSpace_rename {σ : Ren} (h : Mono σ) (env : Env) (s : SpaceD) : sigSpace (env.rename σ) (s.rename σ) = sigSpace env s := by
  simp only [sigSpace, SpaceD.rename, sigMesh_rename h]

theorem sigIdx_rename {σ : Ren} (h : Mono σ) (env : Env) (i : Idx) : sigIdx (env.rename σ) (i.rename σ) = sigIdx env i := by
  cases i
  · rfl
  · simp only [sigIdx, Idx.rename, Env.rename, posIdx_rename h]

theorem sigTerm_rename {σ : Ren} (h : Mono σ) (env : Env) (t : CTerm) : sigTerm (env.rename σ) (t.rename σ) = sigTerm env t := by
  cases t with
  | coeff c sp sh =>
    have := posTerm_rename h (.coeff c sp sh) env.coeff
    simp only [CTerm.rename] at this
    simp only [sigTerm, CTerm.rename, sigSpace_rename h]
    simp only [Env.rename, this]
  | arg n p sp sh => simp only [sigTerm, CTerm.rename, sigSpace_rename h]
  | const c m sh =>
    have := posTerm_rename h (.const c m sh) env.const
    simp only [CTerm.rename] at this
    simp only [sigTerm, CTerm.rename, sigMesh_rename h]
    simp only [Env.rename, this]
  | geo c m sh =>
    have := posMesh_rename h m env.mesh
    simp only [sigTerm, CTerm.rename]
    simp only [Env.rename, this]
    rfl
  | label c =>
    have := posTerm_rename h (.label c) env.label
    simp only [CTerm.rename] at this
    simp only [sigTerm, CTerm.rename]
    simp only [Env.rename, this]
  | plain c k sh => rfl

/-- no `Zero` that carries free indices -/
def noFreeZero : CExpr → Bool
  | .zero _ (_ :: _) => false
  | _ => true

mutual
def NoFreeZero : CExpr → Bool
  | .op _ _ args => NoFreeZeroL args
  | e => noFreeZero e
def NoFreeZeroL : List CExpr → Bool
  | [] => true
  | a :: as => NoFreeZero a && NoFreeZeroL as
end

theorem map_sigIdx_rename {σ : Ren} (h : Mono σ) (env : Env) (is : List Idx) :
    (is.map (Idx.rename σ)).map (sigIdx (env.rename σ)) = is.map (sigIdx env) := by
  rw [List.map_map]
  apply List.map_congr_left
  intro i _
  exact sigIdx_rename h env i

theorem zeroFi_rename {σ : Ren} (h : Mono σ) (env : Env) (f : List (Nat × Nat)) :
    (renFI σ f).map (fun p => SigData.tup [sigIdx (env.rename σ) (.free p.1), .int p.2])
      = f.map (fun p => SigData.tup [sigIdx env (.free p.1), .int p.2]) := by
  induction f with
  | nil => rfl
  | cons p ps ih =>
    simp only [renFI, List.map] at ih ⊢
    rw [ih]
    have := sigIdx_rename h env (.free p.1)
    simp only [Idx.rename] at this
    rw [this]

/-- hash data of a terminal node: invariant when the `Zero` data numbers its free indices, or when there are none -/
theorem sigLeaf_rename {σ : Ren} (h : Mono σ) (env : Env) (e : CExpr) (hz : env.zfix = true ∨ noFreeZero e = true) :
    sigLeaf (env.rename σ) (e.rename σ) = sigLeaf env e := by
  cases e with
  | mi is => simp only [sigLeaf, CExpr.rename, map_sigIdx_rename h]
  | term t => simp only [sigLeaf, CExpr.rename, sigTerm_rename h]
  | zero sh f =>
    cases f with
    | nil => rfl
    | cons p ps =>
      simp only [sigLeaf, CExpr.rename]
      have hzf : (env.rename σ).zfix = env.zfix := rfl
      have hz' : env.zfix = true := by
        rcases hz with hz | hz
        · exact hz
        · simp [noFreeZero] at hz
      have e1 : (env.zfix && !(renFI σ (p :: ps)).isEmpty) = true := by simp [hz', renFI]
      have e2 : (env.zfix && !(p :: ps).isEmpty) = true := by simp [hz']
      rw [hzf, if_pos e1, if_pos e2, zeroFi_rename h env (p :: ps)]
  | int _ | real _ _ | cplx _ _ _ _ | op _ _ _ => rfl

mutual
theorem sigE_rename {σ : Ren} (h : Mono σ) (env : Env) : ∀ (e : CExpr), (env.zfix = true ∨ NoFreeZero e = true) →
    sigE (env.rename σ) (e.rename σ) = sigE env e
  | .op k aux args, hz => by
    simp only [CExpr.rename, sigE]
    rw [sigL_rename h env args (by simpa [NoFreeZero] using hz)]
  | .int v, hz | .real v w, hz | .cplx v w x y, hz | .zero v w, hz | .mi v, hz | .term v, hz => by
    have := sigLeaf_rename h env _ (by simpa [NoFreeZero] using hz)
    simp only [CExpr.rename] at this
    simp only [CExpr.rename, sigE, this]
theorem sigL_rename {σ : Ren} (h : Mono σ) (env : Env) : ∀ (l : List CExpr), (env.zfix = true ∨ NoFreeZeroL l = true) →
    sigL (env.rename σ) (renameL σ l) = sigL env l
  | [], _ => rfl
  | a :: as, hz => by
    simp only [renameL, sigL]
    rw [sigE_rename h env a (by rcases hz with hz | hz <;> simp_all [NoFreeZeroL]),
        sigL_rename h env as (by rcases hz with hz | hz <;> simp_all [NoFreeZeroL])]
end

theorem sigIntegral_rename {σ : Ren} (h : Mono σ) (env : Env) (i : CIntegral)
    (hz : env.zfix = true ∨ NoFreeZero i.integrand = true) :
    sigIntegral (env.rename σ) (i.rename σ) = sigIntegral env i := by
  simp only [sigIntegral, CIntegral.rename, sigE_rename h env i.integrand hz, sigMesh_rename h]

def FormNoFreeZero (f : CForm) : Bool := f.all fun i => NoFreeZero i.integrand

theorem formData_rename {σ : Ren} (h : Mono σ) (z : Bool) (f : CForm) (hz : z = true ∨ FormNoFreeZero f = true) :
    formData z (f.rename σ) = formData z f := by
  unfold formData
  rw [raises_rename h, envOf_rename h, sortIntegrals_rename h]
  split
  · rfl
  · congr 2
    have hs : ∀ i ∈ sortIntegrals f, (envOf z f).zfix = true ∨ NoFreeZero i.integrand = true := by
      intro i hi
      rcases hz with hz | hz
      · left; simp [envOf, hz]
      · right
        have hm : i ∈ f := (mem_sortS ltIntegral i f).mp hi
        simp only [FormNoFreeZero, List.all_eq_true] at hz
        exact hz i hm
    generalize sortIntegrals f = g at hs
    induction g with
    | nil => rfl
    | cons i is ih =>
      simp only [CForm.rename, List.map] at ih ⊢
      rw [sigIntegral_rename h _ i (hs i (by simp)), ih (fun j hj => hs j (by simp [hj]))]

end UflVerif.C12
