/-
C12 lemmas, part C: a construction history run under another state of the counters builds the renamed objects.
(lemmas only; the property theorems are in Props/C12.lean)
-/
import UflVerif.Props.C12.SigData

namespace UflVerif.C12
open UflVerif CExpr L Sig BState

/-- the ordering answers alike before and after the renaming on every pair of expressions of `S` -/
def Stable (c : CExpr → CExpr → Ordering) (σ : Ren) (S : List CExpr) : Prop :=
  ∀ x ∈ S, ∀ y ∈ S, c (x.rename σ) (y.rename σ) = c x y

theorem Stable.mono {c σ} {S S' : List CExpr} (h : Stable c σ S) (hs : ∀ x ∈ S', x ∈ S) : Stable c σ S' :=
  fun x hx y hy => h x (hs x hx) y (hs y hy)

theorem isScalarValue_rename (σ : Ren) (e : CExpr) : (e.rename σ).isScalarValue = e.isScalarValue := by
  cases e <;> rfl

theorem mkSorted_rename (c : CExpr → CExpr → Ordering) (σ : Ren) (k : Op) (a b : CExpr)
    (h : c (b.rename σ) (a.rename σ) = c b a) :
    mkSorted c k (a.rename σ) (b.rename σ) = (mkSorted c k a b).rename σ := by
  simp only [mkSorted, isScalarValue_rename, sort2With, h]
  split
  · simp [CExpr.rename, renameL]
  · split
    · simp [CExpr.rename, renameL]
    · split <;> simp [CExpr.rename, renameL]

/-! ## accessors of a renamed state -/

theorem rename_meshes_get (σ : Ren) (st : BState) (m : Nat) : (st.rename σ).meshes[m]? = (st.meshes[m]?).map (MeshD.rename σ) := by
  simp [BState.rename]

theorem rename_idxs_get (σ : Ren) (st : BState) (r : Nat) : (st.rename σ).idxs[r]? = (st.idxs[r]?).map σ.idx := by
  simp [BState.rename]

theorem rename_exprs_get (σ : Ren) (st : BState) (r : Nat) : (st.rename σ).exprs[r]? = (st.exprs[r]?).map (CExpr.rename σ) := by
  simp [BState.rename, renameL_eq_map]

theorem rename_push (σ : Ren) (st : BState) (e : CExpr) : (st.push e).rename σ = (st.rename σ).push (e.rename σ) := by
  simp [BState.rename, BState.push, renameL_eq_map]

theorem mapM_option_map {α β γ : Type} (f : α → Option β) (g : β → γ) :
    ∀ l : List α, l.mapM (fun a => (f a).map g) = (l.mapM f).map (List.map g)
  | [] => by simp
  | a :: as => by
    simp only [List.mapM_cons, mapM_option_map f g as]
    cases f a <;> simp
    cases as.mapM f <;> simp

theorem slotIdx_rename (σ : Ren) (st : BState) (s : Slot) : (st.rename σ).slotIdx s = (st.slotIdx s).map (Idx.rename σ) := by
  cases s with
  | fixed v => rfl
  | reg r =>
    simp only [slotIdx, rename_idxs_get]
    cases st.idxs[r]? <;> rfl

theorem ltFst_rename {σ : Ren} (h : Mono σ) (p q : Nat × Nat) : ltFst (σ.idx p.1, p.2) (σ.idx q.1, q.2) = ltFst p q := by
  simp only [ltFst]
  exact decide_eq_decide.mpr (h.idx.lt_iff _ _)

theorem sortFst_rename {σ : Ren} (h : Mono σ) (ps : List (Nat × Nat)) : sortS ltFst (renFI σ ps) = renFI σ (sortS ltFst ps) := by
  unfold renFI
  exact sortS_map _ ltFst ltFst ps (fun a _ b _ => ltFst_rename h a b)

/-! ## one statement -/

/-- running a statement on the renamed state under the supply `ν` gives the renaming of what the statement gives on
    the original state under the identity supply (the k-th object of a class has count k) -/
theorem step_rename (c : CExpr → CExpr → Ordering) {ν : Ren} (h : Mono ν) (st : BState) (hc : Stable c ν st.exprs) (i : Instr) :
    step c ν (st.rename ν) i = (step c Ren.ident st i).map (BState.rename ν) := by
  cases i with
  | mesh ce g t => simp [step, BState.rename, MeshD.rename, Ren.ident]
  | index => simp [step, BState.rename, Ren.ident]
  | coeff m el sh =>
    simp only [step, rename_meshes_get]
    cases st.meshes[m]? with
    | none => rfl
    | some md =>
      simp only [Option.map_some, Option.bind_eq_bind, Option.bind_some, Option.pure_def]
      simp [BState.rename, BState.push, renameL_eq_map, CExpr.rename, CTerm.rename, SpaceD.rename, Ren.ident]
  | const m sh =>
    simp only [step, rename_meshes_get]
    cases st.meshes[m]? with
    | none => rfl
    | some md =>
      simp only [Option.map_some, Option.bind_eq_bind, Option.bind_some, Option.pure_def]
      simp [BState.rename, BState.push, renameL_eq_map, CExpr.rename, CTerm.rename, Ren.ident]
  | geo cl m sh =>
    simp only [step, rename_meshes_get]
    cases st.meshes[m]? with
    | none => rfl
    | some md =>
      simp only [Option.map_some, Option.bind_eq_bind, Option.bind_some, Option.pure_def]
      simp [BState.rename, BState.push, renameL_eq_map, CExpr.rename, CTerm.rename]
  | arg n p m el sh =>
    simp only [step, rename_meshes_get]
    cases st.meshes[m]? with
    | none => rfl
    | some md =>
      simp only [Option.map_some, Option.bind_eq_bind, Option.bind_some, Option.pure_def]
      simp [BState.rename, BState.push, renameL_eq_map, CExpr.rename, CTerm.rename, SpaceD.rename]
  | lit v => simp [step, rename_push, CExpr.rename]
  | flt n d => simp [step, rename_push, CExpr.rename]
  | plain cl k sh => simp [step, rename_push, CExpr.rename, CTerm.rename]
  | multiIndex slots =>
    simp only [step]
    have : slots.mapM (st.rename ν).slotIdx = (slots.mapM st.slotIdx).map (List.map (Idx.rename ν)) := by
      rw [← mapM_option_map]
      congr 1
      funext s
      exact slotIdx_rename ν st s
    rw [this]
    cases slots.mapM st.slotIdx with
    | none => rfl
    | some is => simp [rename_push, CExpr.rename]
  | zero sh f =>
    simp only [step]
    have : f.mapM (fun p => ((st.rename ν).idxs[p.1]?).map (fun c => (c, p.2)))
        = (f.mapM (fun p => (st.idxs[p.1]?).map (fun c => (c, p.2)))).map (renFI ν) := by
      unfold renFI
      rw [← mapM_option_map]
      congr 1
      funext p
      rw [rename_idxs_get]
      cases st.idxs[p.1]? <;> rfl
    rw [this]
    cases f.mapM (fun p => (st.idxs[p.1]?).map (fun c => (c, p.2))) with
    | none => rfl
    | some ps => simp [rename_push, CExpr.rename, sortFst_rename h]
  | «variable» r =>
    simp only [step, rename_exprs_get]
    cases st.exprs[r]? with
    | none => rfl
    | some e =>
      simp only [Option.map_some, Option.bind_eq_bind, Option.bind_some, Option.pure_def]
      simp [BState.rename, BState.push, renameL_eq_map, CExpr.rename, CTerm.rename, renameL, Ren.ident]
  | sum a b =>
    simp only [step, rename_exprs_get]
    cases ha : st.exprs[a]? with
    | none => rfl
    | some x =>
      cases hb : st.exprs[b]? with
      | none => rfl
      | some y =>
        simp only [Option.map_some, Option.bind_eq_bind, Option.bind_some, Option.pure_def]
        rw [mkSorted_rename c ν .sum x y (hc y (List.mem_of_getElem? hb) x (List.mem_of_getElem? ha)), rename_push]
  | product a b =>
    simp only [step, rename_exprs_get]
    cases ha : st.exprs[a]? with
    | none => rfl
    | some x =>
      cases hb : st.exprs[b]? with
      | none => rfl
      | some y =>
        simp only [Option.map_some, Option.bind_eq_bind, Option.bind_some, Option.pure_def]
        rw [mkSorted_rename c ν .product x y (hc y (List.mem_of_getElem? hb) x (List.mem_of_getElem? ha)), rename_push]
  | node k aux rs =>
    simp only [step]
    have : rs.mapM (fun r => (st.rename ν).exprs[r]?) = (rs.mapM (fun r => st.exprs[r]?)).map (List.map (CExpr.rename ν)) := by
      rw [← mapM_option_map]
      congr 1
      funext r
      exact rename_exprs_get ν st r
    rw [this]
    cases rs.mapM (fun r => st.exprs[r]?) with
    | none => rfl
    | some xs => simp [rename_push, CExpr.rename, renameL_eq_map]

/-! ## registers are only ever added -/

theorem step_exprs_mono (c : CExpr → CExpr → Ordering) (ν : Ren) (st st' : BState) (i : Instr) (h : step c ν st i = some st') :
    ∀ x ∈ st.exprs, x ∈ st'.exprs := by
  intro x hx
  cases i <;> simp only [step, Option.bind_eq_bind, Option.pure_def, Option.bind_eq_some_iff, Option.some.injEq] at h
  all_goals first
    | (subst h; simp_all [BState.push])
    | (obtain ⟨_, _, h⟩ := h; subst h; simp_all [BState.push])
    | (obtain ⟨_, _, _, _, h⟩ := h; subst h; simp_all [BState.push])

theorem run_exprs_mono (c : CExpr → CExpr → Ordering) (ν : Ren) : ∀ (p : List Instr) (st st' : BState),
    run c ν p st = some st' → ∀ x ∈ st.exprs, x ∈ st'.exprs
  | [], st, st', h => by simp only [run, Option.some.injEq] at h; subst h; exact fun _ hx => hx
  | i :: is, st, st', h => by
    simp only [run] at h
    cases hs : step c ν st i with
    | none => simp [hs] at h
    | some st1 =>
      simp only [hs] at h
      intro x hx
      exact run_exprs_mono c ν is st1 st' h x (step_exprs_mono c ν st st1 i hs x hx)

/-- **the history theorem**: if the history runs under the identity supply and the ordering is stable on the registers
    it produces, then under the supply `ν` it produces exactly the renamed registers -/
theorem run_rename (c : CExpr → CExpr → Ordering) {ν : Ren} (h : Mono ν) : ∀ (p : List Instr) (st st' : BState),
    run c Ren.ident p st = some st' → Stable c ν st'.exprs → run c ν p (st.rename ν) = some (st'.rename ν)
  | [], st, st', hr, _ => by simp only [run, Option.some.injEq] at hr ⊢; rw [hr]
  | i :: is, st, st', hr, hs => by
    simp only [run] at hr ⊢
    cases h1 : step c Ren.ident st i with
    | none => simp [h1] at hr
    | some st1 =>
      simp only [h1] at hr
      have hst : Stable c ν st.exprs :=
        hs.mono (fun x hx => run_exprs_mono c _ is st1 st' hr x (step_exprs_mono c _ st st1 i h1 x hx))
      rw [step_rename c h st hst i, h1]
      exact run_rename c h is st1 st' hr hs

theorem form_rename (σ : Ren) (st : BState) (spec : List IntegralSpec) :
    (st.rename σ).form spec = (st.form spec).map (CForm.rename σ) := by
  unfold BState.form CForm.rename
  rw [← mapM_option_map]
  congr 1
  funext s
  rw [rename_exprs_get, rename_meshes_get]
  cases st.exprs[s.expr]? <;> cases st.meshes[s.mesh]? <;> rfl

end UflVerif.C12
