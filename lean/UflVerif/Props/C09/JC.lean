/-
C09 — soundness of `JacobianCanceller.match` (`_delta_cancellation`): under `GeomOK` a contraction of the inverse
Jacobian with the Jacobian over k is the Kronecker delta the code puts in its place.
-/
import UflVerif.Props.C09.Cancel

namespace UflVerif.C09
open UflVerif Expr C05 FIlemmas Finset

variable {K : Type} [Field K] [CharZero K]

theorem free_beq (c i : Nat) : (Idx.free c == Idx.free i) = (c == i) := by
  by_cases h : c = i <;> simp [h]

theorem fixed_beq_free (a i : Nat) : (Idx.fixed a == Idx.free i) = false := by simp

/-- free indices of a rank-2 tensor without free indices indexed by two indices -/
theorem idx2_facts (x : List Nat) (A : Expr) (s0 s1 : Nat) (hA : shape A = [s0, s1]) (hfi : fi A = []) (i0 i1 : Idx) :
    (∀ i, FI.has i (fi (.op .indexed x [A, .mi [i0, i1]])) = (i0 == .free i || i1 == .free i)) ∧
    (∀ i, i0 = .free i → FI.dimOf i (fi (.op .indexed x [A, .mi [i0, i1]])) = s0) ∧
    (∀ i, i0 ≠ .free i → i1 = .free i → FI.dimOf i (fi (.op .indexed x [A, .mi [i0, i1]])) = s1) := by
  have e : fi (.op .indexed x [A, .mi [i0, i1]]) = (idxPairs [s0, s1] [(i0, 0), (i1, 1)]).foldl (fun acc p => FI.insert p acc) [] := by
    simp [fi, hA, hfi, List.zipIdx]
  rw [e]
  cases i0 with
  | fixed a =>
    cases i1 with
    | fixed b => simp [idxPairs, FI.has, FI.dimOf]
    | free c =>
      refine ⟨fun i => ?_, fun i h => (by cases h), fun i _ h => ?_⟩
      · rw [fixed_beq_free, free_beq]; simp [idxPairs, FI.insert, FI.has]
      · cases h; simp [idxPairs, FI.insert, FI.dimOf]
  | free c =>
    cases i1 with
    | fixed b =>
      refine ⟨fun i => ?_, fun i h => ?_, fun i _ h => (by cases h)⟩
      · rw [fixed_beq_free, free_beq]; simp [idxPairs, FI.insert, FI.has]
      · cases h; simp [idxPairs, FI.insert, FI.dimOf]
    | free c' =>
      simp only [idxPairs, List.getD_cons_zero, List.getD_cons_succ, List.foldl_cons, List.foldl_nil, FI.insert]
      refine ⟨fun i => ?_, fun i h => ?_, fun i h1 h2 => ?_⟩
      · rw [free_beq, free_beq]
        by_cases h1 : c' < c
        · simp [h1, FI.has, Bool.or_comm]
        · by_cases h2 : c' = c
          · simp [h2, FI.has]
          · simp [h1, h2, FI.has]
      · cases h
        by_cases h1 : c' < c
        · have : ¬ c' = c := by omega
          simp [h1, FI.dimOf, this]
        · by_cases h2 : c' = c
          · simp [h2, FI.dimOf]
          · simp [h1, h2, FI.dimOf]
      · cases h2
        have hne : ¬ c = c' := fun e => h1 (by rw [e])
        by_cases h3 : c' < c
        · simp [h3, FI.dimOf]
        · have : ¬ c' = c := fun e => hne e.symm
          simp [h3, this, FI.dimOf, hne]


/-- what the tables of the theorems assume of a terminal: a Jacobian of a domain with geometric dimension g and
    topological dimension t has shape (g, t), the inverse Jacobian (t, g); `dims` maps the domain to (g, t) -/
def geoTerm (dims : String → Nat × Nat) (d : TermData) : Prop :=
  (d.cls = "Jacobian" → d.shape = [(dims (domKey d)).1, (dims (domKey d)).2]) ∧
  (d.cls = "JacobianInverse" → d.shape = [(dims (domKey d)).2, (dims (domKey d)).1])

/-- **the geometry hypothesis**: on every domain (and every side of a facet) the inverse Jacobian is a left
    inverse of the Jacobian, and a right inverse when the Jacobian is square -/
structure GeomOK (ρ : Env K) (dims : String → Nat × Nat) : Prop where
  left : ∀ dK dJ : TermData, dK.cls = "JacobianInverse" → dJ.cls = "Jacobian" → domKey dK = domKey dJ →
    ∀ s a b, a < (dims (domKey dK)).2 → b < (dims (domKey dK)).2 →
      ∑ v ∈ range (dims (domKey dK)).1, ρ.term s dK.key [a, v] * ρ.term s dJ.key [v, b] = if a = b then 1 else 0
  right : ∀ dK dJ : TermData, dK.cls = "JacobianInverse" → dJ.cls = "Jacobian" → domKey dK = domKey dJ →
    (dims (domKey dK)).1 = (dims (domKey dK)).2 →
    ∀ s a b, a < (dims (domKey dK)).1 → b < (dims (domKey dK)).1 →
      ∑ v ∈ range (dims (domKey dK)).2, ρ.term s dJ.key [a, v] * ρ.term s dK.key [v, b] = if a = b then 1 else 0

/-- the node predicate knows the shapes of the Jacobians and admits the Kronecker deltas the pass introduces -/
structure GeoPred (P : NodePred) (dims : String → Nat × Nat) : Prop where
  geo : ∀ d, P.term d → geoTerm dims d
  ident : ∀ n : Nat, P.term { cls := "Identity", key := "Identity(" ++ toString n ++ ")", shape := [n, n] }
  sq : ∀ d, P.term d → d.cls = "Identity" → ∃ n : Nat, d.shape = [n, n]

theorem resolve_set_ne (ι : IdxEnv) (k v : Nat) (a : Idx) (h : a ≠ .free k) : Idx.resolve (ι.set k v) a = Idx.resolve ι a := by
  cases a with
  | fixed n => rfl
  | free c =>
    have : c ≠ k := fun e => h (by rw [e])
    simp [Idx.resolve, IdxEnv.set, this]

theorem eval_indexed_term (ρ : Env K) (s : Side) (ι : IdxEnv) (x : List Nat) (d : TermData) (a b : Idx)
    (h1 : d.cls ≠ "Identity") (h2 : d.cls ≠ "Label") :
    eval ρ s ι (.op .indexed x [.term d, .mi [a, b]]) [] = ρ.term s d.key [Idx.resolve ι a, Idx.resolve ι b] := by
  simp [eval, h1, h2]

theorem eval_indexed_identity (ρ : Env K) (s : Side) (ι : IdxEnv) (x : List Nat) (n : Nat) (a b : Idx) :
    eval ρ s ι (.op .indexed x [identityTerm n, .mi [a, b]]) [] = if Idx.resolve ι a = Idx.resolve ι b then 1 else 0 := by
  simp [eval, identityTerm]

theorem wf_indexed_term (x : List Nat) (d : TermData) (s0 s1 : Nat) (hs : d.shape = [s0, s1]) (a b : Idx)
    (hw : WF (.op .indexed x [.term d, .mi [a, b]]) = true) :
    (∀ v, a = .fixed v → v < s0) ∧ (∀ v, b = .fixed v → v < s1) := by
  simp only [WF, shape, hs, Bool.and_eq_true] at hw
  have hr := hw.1.2
  simp only [fixedInRange, List.zipIdx, List.all_eq_true] at hr
  constructor
  · intro v e
    have := hr (a, 0) (by simp [List.zipIdx])
    subst e; simpa using this
  · intro v e
    have := hr (b, 1) (by simp [List.zipIdx])
    subst e; simpa using this

/-- **the contraction lemma**: `sum_k X[a,k] Y[k,b] = Identity(n)[a,b]` for two terminals whose values are
    inverse to each other in this order -/
theorem contraction_spec (ρ : Env K) (xa xb : List Nat) (dX dY : TermData) (n q : Nat) (a b : Idx) (k : Nat)
    (hX : dX.shape = [n, q]) (hY : dY.shape = [q, n])
    (hcX : dX.cls ≠ "Identity" ∧ dX.cls ≠ "Label") (hcY : dY.cls ≠ "Identity" ∧ dY.cls ≠ "Label")
    (ha : a ≠ .free k) (hb : b ≠ .free k)
    (hwX : WF (.op .indexed xa [.term dX, .mi [a, .free k]]) = true)
    (hwY : WF (.op .indexed xb [.term dY, .mi [.free k, b]]) = true)
    (hsum : ∀ s a' b', a' < n → b' < n →
      ∑ v ∈ range q, ρ.term s dX.key [a', v] * ρ.term s dY.key [v, b'] = if a' = b' then 1 else 0)
    (delta : Expr) (hd : plainIndexed (identityTerm n) [a, b] = some delta) :
    SumSpec ρ [.op .indexed xa [.term dX, .mi [a, .free k]], .op .indexed xb [.term dY, .mi [.free k, b]]] k delta := by
  obtain ⟨hXh, hXd0, hXd1⟩ := idx2_facts xa (.term dX) n q (by simp [shape, hX]) (by simp [fi]) a (.free k)
  obtain ⟨hYh, hYd0, hYd1⟩ := idx2_facts xb (.term dY) q n (by simp [shape, hY]) (by simp [fi]) (.free k) b
  have hdelta : delta = .op .indexed [] [identityTerm n, .mi [a, b]] := by
    unfold plainIndexed at hd
    simp only at hd
    split at hd
    · cases hd
    · split at hd
      · cases hd
      · split at hd
        · simp only [Option.some.injEq] at hd; exact hd.symm
        · cases hd
  obtain ⟨wd, sd, _, _, _⟩ := plainIndexed_spec ρ Side.none (identityTerm n) [a, b] delta (by simp [identityTerm, WF]) hd
  subst hdelta
  obtain ⟨hDh, hDd0, hDd1⟩ := idx2_facts [] (identityTerm n) n n (by simp [shape, identityTerm]) (by simp [fi, identityTerm]) a b
  have hkX : FI.has k (fi (.op .indexed xa [.term dX, .mi [a, .free k]])) = true := by rw [hXh]; simp
  have hkY : FI.has k (fi (.op .indexed xb [.term dY, .mi [.free k, b]])) = true := by rw [hYh]; simp
  have hak : ∀ i, a = .free i → i ≠ k := fun i e hik => ha (by rw [e, hik])
  have hbk : ∀ i, b = .free i → i ≠ k := fun i e hik => hb (by rw [e, hik])
  have hF : Factors [.op .indexed xa [.term dX, .mi [a, .free k]], .op .indexed xb [.term dY, .mi [.free k, b]]] := by
    have key : DimsAgree (fi (.op .indexed xa [.term dX, .mi [a, .free k]])) (fi (.op .indexed xb [.term dY, .mi [.free k, b]])) := by
      intro i h1 h2
      by_cases hik : i = k
      · subst hik
        rw [hXd1 i (fun e => ha e) rfl, hYd0 i rfl]
      · have hne : ¬ k = i := fun e => hik e.symm
        rw [hXh, free_beq] at h1
        rw [hYh, free_beq] at h2
        simp [hne] at h1 h2
        rw [hXd0 i h1, hYd1 i (fun e => hne (by cases e; rfl)) h2]
    refine ⟨?_, ?_, ?_⟩
    · intro f m
      simp only [List.mem_cons, List.mem_singleton, List.not_mem_nil, or_false] at m
      rcases m with e | e <;> (rw [e]; assumption)
    · intro f m
      simp only [List.mem_cons, List.mem_singleton, List.not_mem_nil, or_false] at m
      rcases m with e | e <;> (rw [e]; simp [shape])
    · intro f m f' m'
      simp only [List.mem_cons, List.mem_singleton, List.not_mem_nil, or_false] at m m'
      rcases m with e | e <;> rcases m' with e' | e' <;> rw [e, e']
      · exact fun i _ _ => rfl
      · exact key
      · exact key.symm
      · exact fun i _ _ => rfl
  have hLh : ∀ i, hasL i [.op .indexed xa [.term dX, .mi [a, .free k]], .op .indexed xb [.term dY, .mi [.free k, b]]] =
      ((a == .free i || b == .free i) || i == k) := by
    intro i
    have : hasL i [.op .indexed xa [.term dX, .mi [a, .free k]], .op .indexed xb [.term dY, .mi [.free k, b]]] =
        (FI.has i (fi (.op .indexed xa [.term dX, .mi [a, .free k]])) || FI.has i (fi (.op .indexed xb [.term dY, .mi [.free k, b]]))) := by
      simp [hasL]
    rw [this, hXh, hYh, free_beq]
    by_cases hik : i = k
    · subst hik; simp
    · have hne : ¬ k = i := fun e => hik e.symm
      have e1 : (k == i) = false := beq_eq_false_iff_ne.mpr hne
      have e2 : (i == k) = false := beq_eq_false_iff_ne.mpr hik
      rw [e1, e2]; simp
  have hdk : dimL k [.op .indexed xa [.term dX, .mi [a, .free k]], .op .indexed xb [.term dY, .mi [.free k, b]]] = q := by
    rw [dimL_eq _ hF k _ (by simp) hkX, hXd1 k (fun e => ha e) rfl]
  refine ⟨wd, sd, ?_, ?_, ?_⟩
  · intro i
    rw [hDh, hLh]
    by_cases hik : i = k
    · subst hik
      have h1 : (a == Idx.free i) = false := by simpa using ha
      have h2 : (b == Idx.free i) = false := by simpa using hb
      simp [h1, h2]
    · simp [hik]
  · intro i hik hi
    rw [hLh] at hi
    simp [hik] at hi
    by_cases h0 : a = .free i
    · rw [hDd0 i h0]
      have : FI.has i (fi (.op .indexed xa [.term dX, .mi [a, .free k]])) = true := by rw [hXh]; simp [h0]
      rw [dimL_eq _ hF i _ (by simp) this, hXd0 i h0]
    · have h1 : b = .free i := by
        cases hi with
        | inl h => exact absurd h h0
        | inr h => exact h
      rw [hDd1 i h0 h1]
      have : FI.has i (fi (.op .indexed xb [.term dY, .mi [.free k, b]])) = true := by rw [hYh]; simp [h1]
      rw [dimL_eq _ hF i _ (by simp) this, hYd1 i (fun e => hik (by cases e; rfl)) h1]
  · intro s ι hr
    rw [eval_indexed_identity, hdk]
    have hra : Idx.resolve ι a < n := by
      cases ha' : a with
      | fixed v => exact (wf_indexed_term xa dX n q hX a (.free k) hwX).1 v ha'
      | free i =>
        have hik := hak i ha'
        have hi : hasL i [.op .indexed xa [.term dX, .mi [a, .free k]], .op .indexed xb [.term dY, .mi [.free k, b]]] = true := by
          rw [hLh]; simp [ha']
        have := hr i hik hi
        have h2 : FI.has i (fi (.op .indexed xa [.term dX, .mi [a, .free k]])) = true := by rw [hXh]; simp [ha']
        rw [dimL_eq _ hF i _ (by simp) h2, hXd0 i ha'] at this
        exact this
    have hrb : Idx.resolve ι b < n := by
      cases hb' : b with
      | fixed v => exact (wf_indexed_term xb dY q n hY (.free k) b hwY).2 v hb'
      | free i =>
        have hik := hbk i hb'
        have hi : hasL i [.op .indexed xa [.term dX, .mi [a, .free k]], .op .indexed xb [.term dY, .mi [.free k, b]]] = true := by
          rw [hLh]; simp [hb']
        have := hr i hik hi
        have h2 : FI.has i (fi (.op .indexed xb [.term dY, .mi [.free k, b]])) = true := by rw [hYh]; simp [hb']
        rw [dimL_eq _ hF i _ (by simp) h2, hYd1 i (fun e => hik (by cases e; rfl)) hb'] at this
        exact this
    rw [← hsum s _ _ hra hrb]
    apply Finset.sum_congr rfl
    intro v _
    simp only [prodVal, List.map_cons, List.map_nil, List.prod_cons, List.prod_nil, mul_one]
    rw [eval_indexed_term ρ s _ xa dX a (.free k) hcX.1 hcX.2, eval_indexed_term ρ s _ xb dY (.free k) b hcY.1 hcY.2,
      resolve_set_ne ι k v a ha, resolve_set_ne ι k v b hb]
    simp [Idx.resolve, IdxEnv.set]


theorem mkIndexed_identity (n : Nat) (a b : Idx) : mkIndexed (identityTerm n) [a, b] = plainIndexed (identityTerm n) [a, b] := rfl

theorem good_identity_indexed (P : NodePred) (dims : String → Nat × Nat) (hP : GeoPred P dims) (x : List Nat) (n : Nat) (a b : Idx) :
    Good P (.op .indexed x [identityTerm n, .mi [a, b]]) := by
  simp only [Good, identityTerm, atomTerm]
  exact hP.ident n

theorem good_indexed_term (P : NodePred) (x : List Nat) (d : TermData) (is : List Idx)
    (h : Good P (.op .indexed x [.term d, .mi is])) : P.term d := by
  simpa [Good, atomTerm] using h

/-- one ordered pair of `_delta_cancellation` -/
theorem deltaPair_sound (ρ : Env K) (dims : String → Nat × Nat) (P : NodePred) (hgeo : GeomOK ρ dims) (hP : GeoPred P dims)
    (fa fb : Expr) (k : Nat) (delta : Expr) (h : deltaPair fa fb k = some (some delta))
    (wa : WF fa = true) (wb : WF fb = true) (hga : Good P fa) (hgb : Good P fb) :
    (SumSpec ρ [fa, fb] k delta ∨ SumSpec ρ [fb, fa] k delta) ∧ Good P delta ∧ isUnsupported delta = false := by
  unfold deltaPair at h
  split at h
  · rename_i xa dA a0 a1 xb dB b0 b1
    split at h
    · rename_i hc
      simp only [Bool.and_eq_true, beq_iff_eq] at hc
      obtain ⟨⟨cA, cB⟩, cD⟩ := hc
      have sA := (hP.geo dA (good_indexed_term P xa dA _ hga)).2 cA
      have sB := (hP.geo dB (good_indexed_term P xb dB _ hgb)).1 cB
      rw [← cD] at sB
      have hcA : dA.cls ≠ "Identity" ∧ dA.cls ≠ "Label" := by rw [cA]; decide
      have hcB : dB.cls ≠ "Identity" ∧ dB.cls ≠ "Label" := by rw [cB]; decide
      have gd : ∀ n a b d, plainIndexed (identityTerm n) [a, b] = some d → Good P d ∧ isUnsupported d = false := by
        intro n a b d hd
        unfold plainIndexed at hd
        simp only at hd
        split at hd
        · cases hd
        · split at hd
          · cases hd
          · split at hd
            · simp only [Option.some.injEq] at hd; subst hd
              exact ⟨good_identity_indexed P dims hP [] n a b, by simp [isUnsupported]⟩
            · cases hd
      dsimp only at h
      split at h
      · -- sum_k K[a0, k] J[k, b1]
        rename_i h1
        simp only [Bool.and_eq_true, beq_iff_eq, bne_iff_ne, ne_eq] at h1
        obtain ⟨⟨⟨e1, e2⟩, n1⟩, n2⟩ := h1
        subst e1; subst e2
        rw [mkIndexed_identity] at h
        cases hd : plainIndexed (identityTerm (dA.shape.getD 0 0)) [a0, b1] with
        | none => rw [hd] at h; cases h
        | some d =>
          rw [hd] at h
          simp only [Option.map_some, Option.some.injEq] at h; subst h
          have hd' : plainIndexed (identityTerm (dims (domKey dA)).2) [a0, b1] = some d := by
            rw [sA] at hd; simpa using hd
          refine ⟨Or.inl ?_, gd _ _ _ _ hd'⟩
          exact contraction_spec ρ xa xb dA dB _ _ a0 b1 k sA sB hcA hcB n1 n2 wa wb
            (fun s a' b' ha' hb' => hgeo.left dA dB cA cB cD s a' b' ha' hb') d hd'
      · split at h
        · -- sum_k J[b0, k] K[k, a1]
          rename_i h2
          simp only [Bool.and_eq_true, beq_iff_eq, bne_iff_ne, ne_eq] at h2
          obtain ⟨⟨⟨⟨e1, e2⟩, n1⟩, n2⟩, sq⟩ := h2
          subst e1; subst e2
          rw [sA] at sq
          simp only [List.getD_cons_succ, List.getD_cons_zero] at sq
          rw [mkIndexed_identity] at h
          cases hd : plainIndexed (identityTerm (dA.shape.getD 1 0)) [b0, a1] with
          | none => rw [hd] at h; cases h
          | some d =>
            rw [hd] at h
            simp only [Option.map_some, Option.some.injEq] at h; subst h
            have hd' : plainIndexed (identityTerm (dims (domKey dA)).1) [b0, a1] = some d := by
              rw [sA] at hd; simpa using hd
            refine ⟨Or.inr ?_, gd _ _ _ _ hd'⟩
            exact contraction_spec ρ xb xa dB dA _ _ b0 a1 k sB sA hcB hcA n1 n2 wb wa
              (fun s a' b' ha' hb' => hgeo.right dA dB cA cB cD sq s a' b' ha' hb') d hd'
        · cases h
    · cases h
  · cases h

/-- **`JacobianCanceller.match` is sound** -/
theorem jcMatch_sound (ρ : Env K) (dims : String → Nat × Nat) (P : NodePred) (hgeo : GeomOK ρ dims) (hP : GeoPred P dims) :
    MatchSound ρ P jcMatch := by
  intro withK rest k r h hu hF hwk hrk hgd
  unfold jcMatch at h
  split at h
  · rename_i w0 w1
    have w0wf := hF.wf w0 (by simp)
    have w1wf := hF.wf w1 (by simp)
    have g0 := hgd w0 (by simp)
    have g1 := hgd w1 (by simp)
    have hsw : ([w1, w0] ++ rest).Perm ([w0, w1] ++ rest) := by
      simp only [List.cons_append, List.nil_append]; exact List.Perm.swap w0 w1 rest
    split at h
    · cases h
    · cases h
    · rename_i delta hdc
      cases hmp : makeProduct (rest ++ [delta]) with
      | none => rw [hmp] at h; cases h
      | some r' =>
        rw [hmp] at h
        simp only [Option.map_some, Option.some.injEq] at h; subst h
        -- the delta
        have key : (SumSpec ρ [w0, w1] k delta ∨ SumSpec ρ [w1, w0] k delta) ∧ Good P delta ∧ isUnsupported delta = false := by
          unfold deltaCancel at hdc
          split at hdc
          · cases hdc
          · rename_i d' hd1
            simp only [Option.some.injEq] at hdc; subst hdc
            exact deltaPair_sound ρ dims P hgeo hP w0 w1 k d' hd1 w0wf w1wf g0 g1
          · have := deltaPair_sound ρ dims P hgeo hP w1 w0 k delta hdc w1wf w0wf g1 g0
            exact ⟨this.1.symm, this.2⟩
        have hFW : Factors [w0, w1] := hF.sub (fun g mg => by simp at mg ⊢; tauto)
        have sp : SumSpec ρ [w0, w1] k delta := by
          cases key.1 with
          | inl h => exact h
          | inr h => exact h.perm (List.Perm.swap w0 w1 []) (hFW.perm (List.Perm.swap w1 w0 []))
        refine ⟨with_rest ρ [w0, w1] rest k delta r' hF hrk sp hmp hu, ?_⟩
        apply good_makeProduct P _ _ _ hmp hu
        intro f mf
        cases List.mem_append.mp mf with
        | inl m => exact hgd f (by simp [m])
        | inr m => rw [List.mem_singleton] at m; rw [m]; exact key.2.1
  · cases h

end UflVerif.C09
