/-
C09 — ReciprocalCanceller: the exponent bookkeeping (`_as_base_exponent`, `_make_power`, the mixed-sign rule) is sound
under the power laws on the domain where the expression is defined.
-/
import UflVerif.Props.C09.Nodes

namespace UflVerif.C09
open UflVerif Expr C05 FIlemmas Finset

variable {K : Type} [Field K] [CharZero K]

/-- the power laws on a set `Pos` of "positive" values (for the reals: `Pos x := 0 < x`, `Power := Real.rpow`) -/
structure PowLaws (ρ : Env K) (Pos : K → Prop) : Prop where
  pos_ne : ∀ x, Pos x → x ≠ 0
  pos_pow : ∀ x y, Pos x → Pos (ρ.fn2 "Power" x y)
  add : ∀ x a b, Pos x → ρ.fn2 "Power" x a * ρ.fn2 "Power" x b = ρ.fn2 "Power" x (a + b)
  mul : ∀ x a b, Pos x → ρ.fn2 "Power" (ρ.fn2 "Power" x a) b = ρ.fn2 "Power" x (a * b)

/-- a power `x ** y` is defined: positive base, or integer exponent (non-negative if the base vanishes) -/
def okPow (Pos : K → Prop) (x y : K) : Prop := Pos x ∨ ∃ n : ℤ, y = (n : K) ∧ (x ≠ 0 ∨ 0 ≤ n)

/-- `v` is `x ** q` in a way that can be merged with other powers of `x` -/
def Chain (ρ : Env K) (Pos : K → Prop) (x : K) (q : ℚ) (v : K) : Prop :=
  v = ρ.fn2 "Power" x (q : K) ∧ (Pos x ∨ (q.den = 1 ∧ (x ≠ 0 ∨ 0 ≤ q)))

theorem rat_int (q : ℚ) (h : q.den = 1) : (q : K) = ((q.num : ℤ) : K) := by
  conv_lhs => rw [Rat.cast_def, h]
  simp

theorem num_add (a b : ℚ) (ha : a.den = 1) (hb : b.den = 1) : (a + b).den = 1 ∧ (a + b).num = a.num + b.num := by
  have e1 : a = (a.num : ℚ) := by conv_lhs => rw [← Rat.num_div_den a, ha]; simp
  have e2 : b = (b.num : ℚ) := by conv_lhs => rw [← Rat.num_div_den b, hb]; simp
  have : a + b = ((a.num + b.num : ℤ) : ℚ) := by rw [Int.cast_add, ← e1, ← e2]
  rw [this]; exact ⟨Rat.den_intCast _, Rat.num_intCast _⟩

theorem num_mul (a b : ℚ) (ha : a.den = 1) (hb : b.den = 1) : (a * b).den = 1 ∧ (a * b).num = a.num * b.num := by
  have e1 : a = (a.num : ℚ) := by conv_lhs => rw [← Rat.num_div_den a, ha]; simp
  have e2 : b = (b.num : ℚ) := by conv_lhs => rw [← Rat.num_div_den b, hb]; simp
  have : a * b = ((a.num * b.num : ℤ) : ℚ) := by rw [Int.cast_mul, ← e1, ← e2]
  rw [this]; exact ⟨Rat.den_intCast _, Rat.num_intCast _⟩

section
variable (ρ : Env K) (Pos : K → Prop) (hfold : FoldOK ρ) (hlaws : PowLaws ρ Pos)
include hfold hlaws

/-- integer powers, also at a vanishing base with a non-negative exponent -/
theorem pow_int' (x : K) (n : ℤ) (h : x ≠ 0 ∨ 0 ≤ n) : ρ.fn2 "Power" x (n : K) = x ^ n := by
  by_cases hx : x = 0
  · subst hx
    have hn : 0 ≤ n := by cases h with | inl h => exact absurd rfl h | inr h => exact h
    by_cases h0 : n = 0
    · subst h0; simp [hfold.pow_zero]
    · have hpos : 0 < n := lt_of_le_of_ne hn (Ne.symm h0)
      have : ((n : ℤ) : K) = ((n : ℚ) : K) := by simp
      rw [this, hfold.zero_pow (n : ℚ) (by exact_mod_cast hpos), zero_zpow n h0]
  · exact hfold.pow_int x n hx

theorem chain_int (x : K) (q : ℚ) (v : K) (h : Chain ρ Pos x q v) (hd : q.den = 1) (hx : x ≠ 0 ∨ 0 ≤ q) : v = x ^ q.num := by
  rw [h.1, rat_int q hd]
  exact pow_int' ρ Pos hfold hlaws x q.num (by
    cases hx with
    | inl h => exact Or.inl h
    | inr h => exact Or.inr (Rat.num_nonneg.mpr h))

theorem chain_self (x : K) : Chain ρ Pos x 1 x :=
  ⟨by rw [Rat.cast_one, hfold.pow_one], Or.inr ⟨rfl, Or.inr (by norm_num)⟩⟩

theorem chain_unit (x : K) : Chain ρ Pos x 0 1 :=
  ⟨by rw [Rat.cast_zero, hfold.pow_zero], Or.inr ⟨rfl, Or.inr (le_refl 0)⟩⟩

/-- merging two powers of the same base -/
theorem chain_mul (x : K) (q1 q2 : ℚ) (v1 v2 : K) (h1 : Chain ρ Pos x q1 v1) (h2 : Chain ρ Pos x q2 v2) :
    Chain ρ Pos x (q1 + q2) (v1 * v2) := by
  by_cases hp : Pos x
  · exact ⟨by rw [h1.1, h2.1, hlaws.add x _ _ hp, Rat.cast_add], Or.inl hp⟩
  · have i1 := h1.2.resolve_left hp
    have i2 := h2.2.resolve_left hp
    obtain ⟨d12, n12⟩ := num_add q1 q2 i1.1 i2.1
    have hx : x ≠ 0 ∨ 0 ≤ q1 + q2 := by
      cases i1.2 with
      | inl h => exact Or.inl h
      | inr h1' =>
        cases i2.2 with
        | inl h => exact Or.inl h
        | inr h2' => exact Or.inr (add_nonneg h1' h2')
    refine ⟨?_, Or.inr ⟨d12, hx⟩⟩
    rw [chain_int ρ Pos hfold hlaws x q1 v1 h1 i1.1 i1.2, chain_int ρ Pos hfold hlaws x q2 v2 h2 i2.1 i2.2, rat_int _ d12, n12,
      pow_int' ρ Pos hfold hlaws x _ (by
        cases hx with
        | inl h => exact Or.inl h
        | inr h => right; rw [← n12]; exact Rat.num_nonneg.mpr h)]
    by_cases hx0 : x = 0
    · subst hx0
      have a1 : 0 ≤ q1.num := Rat.num_nonneg.mpr (i1.2.resolve_left (by simp))
      have a2 : 0 ≤ q2.num := Rat.num_nonneg.mpr (i2.2.resolve_left (by simp))
      by_cases z1 : q1.num = 0
      · rw [z1]; simp
      · by_cases z2 : q2.num = 0
        · rw [z2]; simp
        · rw [zero_zpow _ z1, zero_zpow _ z2, zero_zpow _ (by omega)]; simp
    · rw [zpow_add₀ hx0]


/-- a power node taken as it is: base value `x`, literal exponent `q` -/
theorem chain_direct (x : K) (q : ℚ) (h : okPow Pos x (q : K)) : Chain ρ Pos x q (ρ.fn2 "Power" x (q : K)) := by
  refine ⟨rfl, ?_⟩
  cases h with
  | inl h => exact Or.inl h
  | inr h =>
    obtain ⟨n, hn, hx⟩ := h
    have : q = (n : ℚ) := by
      apply Rat.cast_injective (α := K)
      rw [hn]; simp
    subst this
    exact Or.inr ⟨Rat.den_intCast n, by
      cases hx with
      | inl h => exact Or.inl h
      | inr h => exact Or.inr (by exact_mod_cast h)⟩

theorem okPow_int (y : K) (q : ℚ) (hd : q.den = 1) (h : okPow Pos y (q : K)) : y ≠ 0 ∨ 0 ≤ q.num := by
  cases h with
  | inl h => exact Or.inl (hlaws.pos_ne y h)
  | inr h =>
    obtain ⟨n, hn, hx⟩ := h
    have : q = (n : ℚ) := by
      apply Rat.cast_injective (α := K)
      rw [hn]; simp
    subst this
    simpa using hx

/-- `(x ** a) ** n = x ** (a n)` for an integer n -/
theorem chain_pow (x : K) (inner qx : ℚ) (y : K) (h : Chain ρ Pos x inner y) (hd : qx.den = 1) (hok : okPow Pos y (qx : K)) :
    Chain ρ Pos x (inner * qx) (ρ.fn2 "Power" y (qx : K)) := by
  by_cases hp : Pos x
  · exact ⟨by rw [h.1, hlaws.mul x _ _ hp, Rat.cast_mul], Or.inl hp⟩
  · have i1 := h.2.resolve_left hp
    obtain ⟨dm, nm⟩ := num_mul inner qx i1.1 hd
    have hy := chain_int ρ Pos hfold hlaws x inner y h i1.1 i1.2
    have hyn := okPow_int ρ Pos hfold hlaws y qx hd hok
    have hx : x ≠ 0 ∨ 0 ≤ inner * qx := by
      by_cases hx0 : x = 0
      · right
        have hm : 0 ≤ inner := i1.2.resolve_left (by simp [hx0])
        by_cases hm0 : inner = 0
        · rw [hm0]; simp
        · have hmn : inner.num ≠ 0 := by simpa using hm0
          have : y = 0 := by rw [hy, hx0, zero_zpow _ hmn]
          have hn : 0 ≤ qx.num := hyn.resolve_left (by simp [this])
          exact mul_nonneg hm (Rat.num_nonneg.mp hn)
      · exact Or.inl hx0
    refine ⟨?_, Or.inr ⟨dm, hx⟩⟩
    rw [rat_int qx hd, pow_int' ρ Pos hfold hlaws y qx.num hyn, hy, ← zpow_mul, rat_int _ dm, nm,
      pow_int' ρ Pos hfold hlaws x _ (by
        cases hx with
        | inl h => exact Or.inl h
        | inr h => right; rw [← nm]; exact Rat.num_nonneg.mpr h)]

/-- `1 / x ** a = x ** (-a)` -/
theorem chain_div (x : K) (inner : ℚ) (y : K) (h : Chain ρ Pos x inner y) (hy0 : y ≠ 0) : Chain ρ Pos x (-inner) (1 / y) := by
  by_cases hp : Pos x
  · refine ⟨?_, Or.inl hp⟩
    have := hlaws.add x (inner : K) ((-inner : ℚ) : K) hp
    rw [← h.1] at this
    have e : (inner : K) + ((-inner : ℚ) : K) = 0 := by simp
    rw [e, hfold.pow_zero] at this
    exact (eq_div_of_mul_eq hy0 (by rw [mul_comm]; exact this)).symm
  · have i1 := h.2.resolve_left hp
    have hy := chain_int ρ Pos hfold hlaws x inner y h i1.1 i1.2
    have hx : x ≠ 0 ∨ 0 ≤ -inner := by
      by_cases hx0 : x = 0
      · right
        by_cases hm0 : inner = 0
        · rw [hm0]; simp
        · exfalso
          have hmn : inner.num ≠ 0 := by simpa using hm0
          apply hy0
          rw [hy, hx0, zero_zpow _ hmn]
      · exact Or.inl hx0
    have dn : (-inner).den = 1 := by rw [Rat.neg_den]; exact i1.1
    refine ⟨?_, Or.inr ⟨dn, hx⟩⟩
    rw [hy, rat_int _ dn, Rat.neg_num, pow_int' ρ Pos hfold hlaws x _ (by
        cases hx with
        | inl h => exact Or.inl h
        | inr h => right; rw [← Rat.neg_num]; exact Rat.num_nonneg.mpr h), zpow_neg, one_div]

/-- a merged power of a non-vanishing base does not vanish -/
theorem chain_ne (x : K) (q : ℚ) (v : K) (h : Chain ρ Pos x q v) (hx : x ≠ 0) : v ≠ 0 := by
  by_cases hp : Pos x
  · rw [h.1]; exact hlaws.pos_ne _ (hlaws.pos_pow x _ hp)
  · have i1 := h.2.resolve_left hp
    rw [chain_int ρ Pos hfold hlaws x q v h i1.1 (Or.inl hx)]
    exact zpow_ne_zero _ hx

end


/-- node conditions of the reciprocal canceller: quotients and powers are defined -/
def defPred (ρ : Env K) (Pos : K → Prop) (T : TermData → Prop) : NodePred where
  term := T
  div := fun _ b => trueScalar b = true → ∀ s ι, eval ρ s ι b [] ≠ 0
  pow := fun a b => trueScalar a = true → trueScalar b = true → ∀ s ι, okPow Pos (eval ρ s ι a []) (eval ρ s ι b [])

theorem trueScalar_equiv (ρ : Env K) (a a' : Expr) (e : Equiv ρ a a') : trueScalar a' = trueScalar a := by
  simp [trueScalar, e.shape, e.fi]

theorem equiv_scalar_val (ρ : Env K) (a a' : Expr) (e : Equiv ρ a a') (h : trueScalar a = true) (s : Side) (ι : IdxEnv) :
    eval ρ s ι a' [] = eval ρ s ι a [] := by
  obtain ⟨sa, fa⟩ := (trueScalar_iff a).mp h
  exact e.val s ι [] (by rw [fa]; exact inRange_nil ι) (by rw [sa])

theorem defPred_ok (ρ : Env K) (Pos : K → Prop) (T : TermData → Prop) : PredOK ρ (defPred ρ Pos T) := by
  refine ⟨?_, ?_⟩
  · intro a b a' b' h _ eb tb' s ι
    have tb : trueScalar b = true := by rw [← trueScalar_equiv ρ b b' eb]; exact tb'
    rw [equiv_scalar_val ρ b b' eb tb]
    exact h tb s ι
  · intro a b a' b' h ea eb ta' tb' s ι
    have ta : trueScalar a = true := by rw [← trueScalar_equiv ρ a a' ea]; exact ta'
    have tb : trueScalar b = true := by rw [← trueScalar_equiv ρ b b' eb]; exact tb'
    rw [equiv_scalar_val ρ a a' ea ta, equiv_scalar_val ρ b b' eb tb]
    exact h ta tb s ι

section
variable (ρ : Env K) (Pos : K → Prop) (T : TermData → Prop) (hfold : FoldOK ρ) (hlaws : PowLaws ρ Pos)
include hfold hlaws

/-- **`_as_base_exponent` (with the integer guard) is sound**: the factor is the base to the exponent, mergeably -/
theorem asBaseExp_spec (g : Guards) (hg : g.pow = true) : ∀ (f b : Expr) (q : ℚ), asBaseExp g f = some (b, q) → WF f = true →
    Good (defPred ρ Pos T) f →
    WF b = true ∧ Good (defPred ρ Pos T) b ∧ ((f = b ∧ q = 1) ∨ (trueScalar f = true ∧ trueScalar b = true)) ∧
    ∀ s ι, Chain ρ Pos (eval ρ s ι b []) q (eval ρ s ι f []) := by
  intro f
  fun_induction asBaseExp g f with
  | case1 aux base ex i q hlit b inner hbase hguard ih =>
    intro b' q' h hw hgd
    simp only [asBaseExp, hlit, hbase, hguard, ↓reduceIte, Option.some.injEq, Prod.mk.injEq] at h
    obtain ⟨rfl, rfl⟩ := h
    have hw' := hw
    simp only [WF, Bool.and_eq_true] at hw'
    obtain ⟨⟨⟨wb, we⟩, tb⟩, te⟩ := hw'
    have hg' := (good_power _ _ _ _).mp hgd
    refine ⟨wb, hg'.1, Or.inr ⟨?_, tb⟩, ?_⟩
    · obtain ⟨sb, fb⟩ := (trueScalar_iff base).mp tb
      exact (trueScalar_iff _).mpr ⟨by simp [shape], by simp [fi, fb]⟩
    · intro s ι
      have hok := hg'.2.2 tb te s ι
      rw [litVal_eval ρ s ι ex i q hlit] at hok
      have := chain_direct ρ Pos hfold hlaws (eval ρ s ι base []) q hok
      simpa [eval, litVal_eval ρ s ι ex i q hlit] using this
  | case2 aux base ex i q hlit b inner hbase hguard ih =>
    intro b' q' h hw hgd
    simp only [asBaseExp, hlit, hbase, hguard, Bool.false_eq_true, ↓reduceIte, Option.some.injEq, Prod.mk.injEq] at h
    obtain ⟨rfl, rfl⟩ := h
    have hqd : q.den = 1 := by
      simp only [hg, Bool.true_and, bne_iff_ne, ne_eq, Decidable.not_not] at hguard; exact hguard
    have hw' := hw
    simp only [WF, Bool.and_eq_true] at hw'
    obtain ⟨⟨⟨wb, we⟩, tb⟩, te⟩ := hw'
    have hg' := (good_power _ _ _ _).mp hgd
    obtain ⟨wb', gb', hor, hch⟩ := ih b inner hbase wb hg'.1
    obtain ⟨sb, fb⟩ := (trueScalar_iff base).mp tb
    refine ⟨wb', gb', Or.inr ⟨(trueScalar_iff _).mpr ⟨by simp [shape], by simp [fi, fb]⟩, ?_⟩, ?_⟩
    · cases hor with
      | inl h => rw [← h.1]; exact tb
      | inr h => exact h.2
    · intro s ι
      have hok := hg'.2.2 tb te s ι
      rw [litVal_eval ρ s ι ex i q hlit] at hok
      have := chain_pow ρ Pos hfold hlaws (eval ρ s ι b []) inner q (eval ρ s ι base []) (hch s ι) hqd hok
      simpa [eval, litVal_eval ρ s ι ex i q hlit] using this
  | case3 aux base ex i q hlit hbase ih =>
    intro b' q' h; simp [asBaseExp, hlit, hbase] at h
  | case4 aux base ex hlit =>
    intro b' q' h; simp [asBaseExp, hlit] at h
  | case5 aux num den i b inner hden hnum ih =>
    intro b' q' h hw hgd
    simp only [asBaseExp, hnum, hden, ↓reduceIte, Option.some.injEq, Prod.mk.injEq] at h
    obtain ⟨rfl, rfl⟩ := h
    have hw' := hw
    simp only [WF, Bool.and_eq_true, List.isEmpty_iff] at hw'
    obtain ⟨⟨⟨wn, wd⟩, sn⟩, td⟩ := hw'
    have hg' := (good_division _ _ _ _).mp hgd
    obtain ⟨wb', gb', hor, hch⟩ := ih b inner hden wd hg'.2.1
    refine ⟨wb', gb', Or.inr ⟨(trueScalar_iff _).mpr ⟨by simp [shape], by simp [fi, (lit_shape num i 1 hnum).2]⟩, ?_⟩, ?_⟩
    · cases hor with
      | inl h => rw [← h.1]; exact td
      | inr h => exact h.2
    · intro s ι
      have hne := hg'.2.2 td s ι
      have := chain_div ρ Pos hfold hlaws (eval ρ s ι b []) inner (eval ρ s ι den []) (hch s ι) hne
      simpa [eval, litVal_eval ρ s ι num i 1 hnum] using this
  | case6 aux num den i hden hnum ih =>
    intro b' q' h; simp [asBaseExp, hnum, hden] at h
  | case7 aux num den i q hnum hq =>
    intro b' q' h; simp [asBaseExp, hnum, hq] at h
  | case8 aux num den hnum =>
    intro b' q' h; simp [asBaseExp, hnum] at h
  | case9 f hp hd =>
    intro b' q' h hw hgd
    simp only [Option.some.injEq, Prod.mk.injEq] at h
    obtain ⟨rfl, rfl⟩ := h
    exact ⟨hw, hgd, Or.inl ⟨rfl, rfl⟩, fun s ι => chain_self ρ Pos hfold hlaws _⟩


theorem chain_unique (x : K) (q : ℚ) (v1 v2 : K) (h1 : Chain ρ Pos x q v1) (h2 : Chain ρ Pos x q v2) : v1 = v2 := by
  rw [h1.1, h2.1]

theorem chain_okPow (x : K) (q : ℚ) (v : K) (h : Chain ρ Pos x q v) : okPow Pos x (q : K) := by
  cases h.2 with
  | inl h => exact Or.inl h
  | inr h =>
    refine Or.inr ⟨q.num, rat_int q h.1, ?_⟩
    cases h.2 with
    | inl h => exact Or.inl h
    | inr h => exact Or.inr (Rat.num_nonneg.mpr h)

theorem expLit_facts (q : ℚ) (hq : q ≠ 0) :
    WF (expLit q) = true ∧ trueScalar (expLit q) = true ∧ Good (defPred ρ Pos T) (expLit q) ∧
    ∀ s ι, eval ρ s ι (expLit q) [] = (q : K) := by
  refine ⟨mkLit_wf _ _, (trueScalar_iff _).mpr (mkLit_shape _ _), good_mkLit _ _ _, fun s ι => ?_⟩
  apply mkLit_eval
  intro h; simpa using h

/-- `base ** q` through the constructor: the plain node is well formed, so `power_node` applies -/
theorem mkPower_lit (b : Expr) (q : ℚ) (r : Expr) (hq : q ≠ 0) (wb : WF b = true) (gb : Good (defPred ρ Pos T) b)
    (tb : trueScalar b = true) (hok : ∀ s ι, okPow Pos (eval ρ s ι b []) (q : K))
    (h : mkPower b (expLit q) = some r) (hu : isUnsupported r = false) :
    WF r = true ∧ trueScalar r = true ∧ Good (defPred ρ Pos T) r ∧
    ∀ s ι, eval ρ s ι r [] = ρ.fn2 "Power" (eval ρ s ι b []) (q : K) := by
  obtain ⟨wl, tl, gl, vl⟩ := expLit_facts ρ Pos T hfold hlaws q hq
  have hw : WF (.op .power [] [b, expLit q]) = true := by simp [WF, wb, wl, tb, tl]
  have hgd : Good (defPred ρ Pos T) (.op .power [] [b, expLit q]) :=
    (good_power _ _ _ _).mpr ⟨gb, gl, fun _ _ s ι => by rw [vl]; exact hok s ι⟩
  obtain ⟨e, g'⟩ := power_node ρ _ (defPred_ok ρ Pos T) hfold [] b (expLit q) b (expLit q) r hw hgd
    (Equiv.refl ρ b wb) (Equiv.refl ρ _ wl) gb gl h hu
  have tn : trueScalar (.op .power [] [b, expLit q]) = true := by
    obtain ⟨sb, fb⟩ := (trueScalar_iff b).mp tb
    exact (trueScalar_iff _).mpr ⟨by simp [shape], by simp [fi, fb]⟩
  refine ⟨e.wf, by rw [trueScalar_equiv ρ _ r e]; exact tn, g', fun s ι => ?_⟩
  rw [equiv_scalar_val ρ _ r e tn]
  simp [eval, vl]

/-- `1 / p` through the constructor -/
theorem mkDivision_one (p : Expr) (r : Expr) (wp : WF p = true) (gp : Good (defPred ρ Pos T) p)
    (tp : trueScalar p = true) (hne : ∀ s ι, eval ρ s ι p [] ≠ 0)
    (h : mkDivision (.int 1) p = some r) (hu : isUnsupported r = false) :
    WF r = true ∧ trueScalar r = true ∧ Good (defPred ρ Pos T) r ∧
    ∀ s ι, eval ρ s ι r [] = 1 / eval ρ s ι p [] := by
  have hw : WF (.op .division [] [.int 1, p]) = true := by simp [WF, wp, tp, shape]
  have hgd : Good (defPred ρ Pos T) (.op .division [] [.int 1, p]) :=
    (good_division _ _ _ _).mpr ⟨by simp [Good], gp, fun _ s ι => hne s ι⟩
  obtain ⟨e, g'⟩ := division_node ρ _ (defPred_ok ρ Pos T) [] (.int 1) p (.int 1) p r hw hgd
    (Equiv.refl ρ _ (by simp [WF])) (Equiv.refl ρ p wp) (by simp [Good]) gp h hu
  have tn : trueScalar (.op .division [] [.int 1, p]) = true := (trueScalar_iff _).mpr ⟨by simp [shape], by simp [fi]⟩
  refine ⟨e.wf, by rw [trueScalar_equiv ρ _ r e]; exact tn, g', fun s ι => ?_⟩
  rw [equiv_scalar_val ρ _ r e tn]
  simp [eval]

/-- **`_make_power` is sound**: the node built for a merged exponent has the merged value -/
theorem makePower_spec (b : Expr) (q : ℚ) (r : Expr) (hq : q ≠ 0) (wb : WF b = true) (gb : Good (defPred ρ Pos T) b)
    (tb : trueScalar b = true) (hx : ∀ s ι, eval ρ s ι b [] ≠ 0)
    (hch : ∀ s ι, ∃ v, Chain ρ Pos (eval ρ s ι b []) q v)
    (h : makePower b q = some r) (hu : isUnsupported r = false) :
    WF r = true ∧ trueScalar r = true ∧ Good (defPred ρ Pos T) r ∧
    ∀ s ι v, Chain ρ Pos (eval ρ s ι b []) q v → eval ρ s ι r [] = v := by
  unfold makePower at h
  split at h
  · rename_i h1
    simp only [Option.some.injEq] at h; subst h; subst h1
    exact ⟨wb, tb, gb, fun s ι v hv => chain_unique ρ Pos hfold hlaws _ 1 _ _ (chain_self ρ Pos hfold hlaws _) hv⟩
  · split at h
    · rename_i h1
      subst h1
      obtain ⟨w, t, g', v'⟩ := mkDivision_one ρ Pos T hfold hlaws b r wb gb tb hx h hu
      refine ⟨w, t, g', fun s ι v hv => ?_⟩
      rw [v']
      have := chain_div ρ Pos hfold hlaws _ 1 _ (chain_self ρ Pos hfold hlaws (eval ρ s ι b [])) (hx s ι)
      exact chain_unique ρ Pos hfold hlaws _ _ _ _ this hv
    · split at h
      · rename_i hneg
        obtain ⟨p, hp, up, hd⟩ := bindU_some _ _ r h hu
        have hq' : -q ≠ 0 := by simpa using hq
        have hok : ∀ s ι, okPow Pos (eval ρ s ι b []) ((-q : ℚ) : K) := by
          intro s ι
          obtain ⟨v, hv⟩ := hch s ι
          cases hv.2 with
          | inl h => exact Or.inl h
          | inr h =>
            have dn : (-q).den = 1 := by rw [Rat.neg_den]; exact h.1
            exact Or.inr ⟨(-q).num, rat_int _ dn, Or.inl (hx s ι)⟩
        obtain ⟨wp, tp, gp, vp⟩ := mkPower_lit ρ Pos T hfold hlaws b (-q) p hq' wb gb tb hok hp up
        have hcp : ∀ s ι, Chain ρ Pos (eval ρ s ι b []) (-q) (eval ρ s ι p []) := by
          intro s ι; rw [vp]; exact chain_direct ρ Pos hfold hlaws _ _ (hok s ι)
        have hpne : ∀ s ι, eval ρ s ι p [] ≠ 0 := fun s ι => chain_ne ρ Pos hfold hlaws _ _ _ (hcp s ι) (hx s ι)
        obtain ⟨w, t, g', v'⟩ := mkDivision_one ρ Pos T hfold hlaws p r wp gp tp hpne hd hu
        refine ⟨w, t, g', fun s ι v hv => ?_⟩
        rw [v']
        have := chain_div ρ Pos hfold hlaws _ _ _ (hcp s ι) (hpne s ι)
        rw [neg_neg] at this
        exact chain_unique ρ Pos hfold hlaws _ _ _ _ this hv
      · have hok : ∀ s ι, okPow Pos (eval ρ s ι b []) (q : K) := by
          intro s ι
          obtain ⟨v, hv⟩ := hch s ι
          exact chain_okPow ρ Pos hfold hlaws _ _ _ hv
        obtain ⟨w, t, g', v'⟩ := mkPower_lit ρ Pos T hfold hlaws b q r hq wb gb tb hok h hu
        refine ⟨w, t, g', fun s ι v hv => ?_⟩
        rw [v']
        exact chain_unique ρ Pos hfold hlaws _ _ _ _ (chain_direct ρ Pos hfold hlaws _ _ (hok s ι)) hv


end

/-! ### the mixed-sign rule -/

abbrev Pair := Expr × Option (Expr × Rat)

/-- sum of the exponents collected for the base `b` -/
def sumExp (b : Expr) : List Pair → Rat
  | [] => 0
  | (_, some (b', q)) :: S => (if b' == b then q else 0) + sumExp b S
  | (_, none) :: S => sumExp b S

/-- product of the factors whose base is one of `E` -/
def groupVal (ρ : Env K) (s : Side) (ι : IdxEnv) (E : List Expr) : List Pair → K
  | [] => 1
  | (f, some (b', _)) :: S => (if E.any (· == b') then eval ρ s ι f [] else 1) * groupVal ρ s ι E S
  | (_, none) :: S => groupVal ρ s ι E S

theorem foldl_add_sum (l : List Rat) (a : Rat) : l.foldl (· + ·) a = a + l.sum := by
  induction l generalizing a with
  | nil => simp
  | cons x xs ih => simp only [List.foldl_cons, List.sum_cons, ih]; ring

theorem sumExp_zip (b : Expr) : ∀ (fs : List Expr) (ps : List (Option (Expr × Rat))), fs.length = ps.length →
    sumExp b (fs.zip ps) = (expsOf ps b).sum
  | [], [], _ => by simp [sumExp, expsOf]
  | f :: fs, p :: ps, h => by
    have ih := sumExp_zip b fs ps (by simpa using h)
    cases p with
    | none => simp only [List.zip_cons_cons, sumExp, ih, expsOf, List.filterMap_cons]
    | some bq =>
      obtain ⟨b', q⟩ := bq
      simp only [List.zip_cons_cons, sumExp, ih, expsOf, List.filterMap_cons]
      by_cases hb : (b' == b) = true
      · simp [hb]
      · simp [hb]
  | [], _ :: _, h => by simp at h
  | _ :: _, [], h => by simp at h

theorem netExp_eq (b : Expr) (fs : List Expr) (ps : List (Option (Expr × Rat))) (h : fs.length = ps.length) :
    netExp ps b = sumExp b (fs.zip ps) := by
  rw [sumExp_zip b fs ps h, netExp, foldl_add_sum]; simp

theorem groupVal_cons_E (ρ : Env K) (s : Side) (ι : IdxEnv) (b : Expr) (E : List Expr) (hb : E.any (· == b) = false) :
    ∀ S : List Pair, groupVal ρ s ι (b :: E) S = groupVal ρ s ι E S * groupVal ρ s ι [b] S
  | [] => by simp [groupVal]
  | (f, none) :: S => by simp only [groupVal]; exact groupVal_cons_E ρ s ι b E hb S
  | (f, some (b', q)) :: S => by
    simp only [groupVal, groupVal_cons_E ρ s ι b E hb S, List.any_cons, List.any_nil, Bool.or_false]
    by_cases h1 : (b == b') = true
    · have : b = b' := (beq_iff b b').mp h1
      subst this
      simp [h1, hb]; ring
    · have e1 : (b == b') = false := by simpa using h1
      simp only [e1, Bool.false_or, Bool.false_eq_true, ↓reduceIte]
      ring


theorem any_false_of_mixed (pairs : List (Option (Expr × Rat))) (E : List Expr) (hE : ∀ b ∈ E, isMixed pairs b = true)
    (b : Expr) (hb : isMixed pairs b = false) : E.any (· == b) = false := by
  rw [Bool.eq_false_iff]
  intro h
  obtain ⟨b', m, e⟩ := List.any_eq_true.mp h
  have : b' = b := (beq_iff b' b).mp e
  subst this
  rw [hE b' m] at hb; cases hb

theorem beq_symm (a b : Expr) : (a == b) = (b == a) := by
  by_cases h : a = b
  · subst h; rfl
  · have h1 : (a == b) = false := by rw [Bool.eq_false_iff]; intro e; exact h ((beq_iff a b).mp e)
    have h2 : (b == a) = false := by rw [Bool.eq_false_iff]; intro e; exact h ((beq_iff b a).mp e).symm
    rw [h1, h2]

section
variable (ρ : Env K) (Pos : K → Prop) (T : TermData → Prop) (hfold : FoldOK ρ) (hlaws : PowLaws ρ Pos)
include hfold hlaws

/-- a factor with the decomposition the canceller computed for it -/
def PairOK (g : Guards) (x : Pair) : Prop :=
  x.2 = asBaseExp g x.1 ∧ WF x.1 = true ∧ Good (defPred ρ Pos T) x.1 ∧ shape x.1 = []

/-- the factors with base `b` multiply to `b` to the sum of their exponents -/
theorem group_chain (g : Guards) (hg : g.pow = true) (b : Expr) (s : Side) (ι : IdxEnv) : ∀ S : List Pair, (∀ x ∈ S, PairOK ρ Pos T g x) →
    Chain ρ Pos (eval ρ s ι b []) (sumExp b S) (groupVal ρ s ι [b] S)
  | [], _ => by simp only [sumExp, groupVal]; exact chain_unit ρ Pos hfold hlaws _
  | (f, none) :: S, h => by
    simp only [sumExp, groupVal]
    exact group_chain g hg b s ι S (fun x m => h x (by simp [m]))
  | (f, some (b', q)) :: S, h => by
    have ih := group_chain g hg b s ι S (fun x m => h x (by simp [m]))
    simp only [sumExp, groupVal, List.any_cons, List.any_nil, Bool.or_false]
    by_cases hb : (b == b') = true
    · have e : b = b' := (beq_iff b b').mp hb
      subst e
      have hx := h (f, some (b, q)) (by simp)
      obtain ⟨_, _, _, hch⟩ := asBaseExp_spec ρ Pos T hfold hlaws g hg f b q hx.1.symm hx.2.1 hx.2.2.1
      have hbb : (b == b) = true := beq_refl b
      simp only [hbb, ↓reduceIte]
      exact chain_mul ρ Pos hfold hlaws _ _ _ _ _ (hch s ι) ih
    · have e1 : (b == b') = false := by simpa using hb
      have e2 : (b' == b) = false := by rw [beq_symm]; exact e1
      simp only [e1, e2, Bool.false_eq_true, ↓reduceIte, zero_add, one_mul]
      exact ih


/-- **the loop building `parts`** keeps the product: the factors of every mixed base are replaced, once, by the
    base to the net exponent -/
theorem rcParts_spec (g : Guards) (hg : g.pow = true) (pairs : List (Option (Expr × Rat)))
    (hmixed : ∀ b, isMixed pairs b = true →
      WF b = true ∧ Good (defPred ρ Pos T) b ∧ trueScalar b = true ∧ ∀ s ι, eval ρ s ι b [] ≠ 0) :
    ∀ (S : List Pair) (E : List Expr) (parts : List Expr), rcParts pairs S E = some parts →
      (∀ x ∈ S, PairOK ρ Pos T g x) → (∀ b ∈ E, isMixed pairs b = true) →
      (∀ b, isMixed pairs b = true → E.any (· == b) = false → sumExp b S = netExp pairs b) →
      (∀ p ∈ parts, isUnsupported p = false) →
      (∀ s ι, prodVal ρ s ι parts * groupVal ρ s ι E S = prodVal ρ s ι (S.map (·.1))) ∧
      (∀ p ∈ parts, p ∈ S.map (·.1) ∨ (WF p = true ∧ Good (defPred ρ Pos T) p ∧ trueScalar p = true)) ∧
      (∀ x ∈ S, x.1 ∈ parts ∨ fi x.1 = [])
  | [], E, parts, h, _, _, _, _ => by
    simp only [rcParts, Option.some.injEq] at h; subst h
    simp [prodVal, groupVal]
  | (f, none) :: S, E, parts, h, hS, hE, inv, hu => by
    simp only [rcParts] at h
    cases hr : rcParts pairs S E with
    | none => rw [hr] at h; simp at h
    | some parts' =>
      rw [hr] at h
      simp only [Option.map_some, Option.some.injEq] at h; subst h
      obtain ⟨v, po, co⟩ := rcParts_spec g hg pairs hmixed S E parts' hr (fun x m => hS x (by simp [m])) hE
        (fun b hb he => by have := inv b hb he; simpa [sumExp] using this) (fun p m => hu p (by simp [m]))
      refine ⟨fun s ι => ?_, ?_, ?_⟩
      · simp only [groupVal, List.map_cons, prodVal_cons, ← v s ι]; ring
      · intro p m
        cases List.mem_cons.mp m with
        | inl e => left; rw [e]; simp
        | inr m' =>
          cases po p m' with
          | inl h => left; simp [h]
          | inr h => exact Or.inr h
      · intro x m
        cases List.mem_cons.mp m with
        | inl e => left; rw [e]; simp
        | inr m' =>
          cases co x m' with
          | inl h => left; simp [h]
          | inr h => exact Or.inr h
  | (f, some (b, q)) :: S, E, parts, h, hS, hE, inv, hu => by
    have hx := hS (f, some (b, q)) (by simp)
    obtain ⟨wb, gb, hor, hch⟩ := asBaseExp_spec ρ Pos T hfold hlaws g hg f b q hx.1.symm hx.2.1 hx.2.2.1
    have hS' : ∀ x ∈ S, PairOK ρ Pos T g x := fun x m => hS x (by simp [m])
    simp only [rcParts] at h
    by_cases hm : isMixed pairs b = true
    · rw [if_pos hm] at h
      obtain ⟨_, _, tb, hb0⟩ := hmixed b hm
      have hff : fi f = [] := by
        cases hor with
        | inl e => rw [e.1]; exact ((trueScalar_iff b).mp tb).2
        | inr e => exact ((trueScalar_iff f).mp e.1).2
      by_cases hem : E.any (· == b) = true
      · -- already emitted
        rw [if_pos hem] at h
        obtain ⟨v, po, co⟩ := rcParts_spec g hg pairs hmixed S E parts h hS' hE
          (fun b0 hb0' he => by
            have := inv b0 hb0' he
            have hne : (b == b0) = false := by
              rw [Bool.eq_false_iff]; intro e
              have : b = b0 := (beq_iff b b0).mp e
              subst this; rw [hem] at he; cases he
            simpa [sumExp, hne] using this) hu
        refine ⟨fun s ι => ?_, ?_, ?_⟩
        · simp only [groupVal, hem, ↓reduceIte, List.map_cons, prodVal_cons, ← v s ι]; ring
        · intro p m
          cases po p m with
          | inl h => left; simp [h]
          | inr h => exact Or.inr h
        · intro x m
          cases List.mem_cons.mp m with
          | inl e => right; rw [e]; exact hff
          | inr m' => exact co x m'
      · have hem' : E.any (· == b) = false := by simpa using hem
        rw [if_neg hem] at h
        have hnet : sumExp b ((f, some (b, q)) :: S) = netExp pairs b := inv b hm hem'
        have hE2 : ∀ b' ∈ b :: E, isMixed pairs b' = true := by
          intro b' m
          cases List.mem_cons.mp m with
          | inl e => rw [e]; exact hm
          | inr m' => exact hE b' m'
        have inv2 : ∀ b0, isMixed pairs b0 = true → (b :: E).any (· == b0) = false → sumExp b0 S = netExp pairs b0 := by
          intro b0 hb0' he
          simp only [List.any_cons, Bool.or_eq_false_iff] at he
          have := inv b0 hb0' he.2
          simpa [sumExp, he.1] using this
        -- the factors with base b in the rest of the list
        have hgc : ∀ s ι, Chain ρ Pos (eval ρ s ι b []) (netExp pairs b)
            (eval ρ s ι f [] * groupVal ρ s ι [b] S) := by
          intro s ι
          have := group_chain ρ Pos T hfold hlaws g hg b s ι ((f, some (b, q)) :: S) hS
          rw [hnet] at this
          have hbb : (b == b) = true := beq_refl b
          simpa [groupVal, hbb] using this
        by_cases hz : netExp pairs b = 0
        · rw [if_pos hz] at h
          obtain ⟨v, po, co⟩ := rcParts_spec g hg pairs hmixed S (b :: E) parts h hS' hE2 inv2 hu
          refine ⟨fun s ι => ?_, ?_, ?_⟩
          · have h1 : eval ρ s ι f [] * groupVal ρ s ι [b] S = 1 := by
              have := hgc s ι
              rw [hz] at this
              exact chain_unique ρ Pos hfold hlaws _ _ _ _ this (chain_unit ρ Pos hfold hlaws _)
            have hv := v s ι
            rw [groupVal_cons_E ρ s ι b E hem' S] at hv
            simp only [groupVal, hem', Bool.false_eq_true, ↓reduceIte, one_mul, List.map_cons, prodVal_cons, ← hv]
            calc prodVal ρ s ι parts * groupVal ρ s ι E S
                = prodVal ρ s ι parts * groupVal ρ s ι E S * (eval ρ s ι f [] * groupVal ρ s ι [b] S) := by rw [h1, mul_one]
              _ = _ := by ring
          · intro p m
            cases po p m with
            | inl h => left; simp [h]
            | inr h => exact Or.inr h
          · intro x m
            cases List.mem_cons.mp m with
            | inl e => right; rw [e]; exact hff
            | inr m' => exact co x m'
        · rw [if_neg hz] at h
          cases hmp : makePower b (netExp pairs b) with
          | none => rw [hmp] at h; simp at h
          | some pw =>
            cases hr : rcParts pairs S (b :: E) with
            | none => rw [hmp, hr] at h; simp at h
            | some parts' =>
              rw [hmp, hr] at h
              simp only [Option.some.injEq] at h; subst h
              obtain ⟨v, po, co⟩ := rcParts_spec g hg pairs hmixed S (b :: E) parts' hr hS' hE2 inv2 (fun p m => hu p (by simp [m]))
              obtain ⟨wpw, tpw, gpw, vpw⟩ := makePower_spec ρ Pos T hfold hlaws b (netExp pairs b) pw hz wb gb tb hb0
                (fun s ι => ⟨_, hgc s ι⟩) hmp (hu pw (by simp))
              refine ⟨fun s ι => ?_, ?_, ?_⟩
              · have hv := v s ι
                rw [groupVal_cons_E ρ s ι b E hem' S] at hv
                simp only [groupVal, hem', Bool.false_eq_true, ↓reduceIte, one_mul, List.map_cons, prodVal_cons, ← hv,
                  vpw s ι _ (hgc s ι)]
                ring
              · intro p m
                cases List.mem_cons.mp m with
                | inl e => right; rw [e]; exact ⟨wpw, gpw, tpw⟩
                | inr m' =>
                  cases po p m' with
                  | inl h => left; simp [h]
                  | inr h => exact Or.inr h
              · intro x m
                cases List.mem_cons.mp m with
                | inl e => right; rw [e]; exact hff
                | inr m' =>
                  cases co x m' with
                  | inl h => left; simp [h]
                  | inr h => exact Or.inr h
    · have hm' : isMixed pairs b = false := by simpa using hm
      rw [if_neg hm] at h
      cases hr : rcParts pairs S E with
      | none => rw [hr] at h; simp at h
      | some parts' =>
        rw [hr] at h
        simp only [Option.map_some, Option.some.injEq] at h; subst h
        have hem : E.any (· == b) = false := any_false_of_mixed pairs E hE b hm'
        obtain ⟨v, po, co⟩ := rcParts_spec g hg pairs hmixed S E parts' hr hS' hE
          (fun b0 hb0' he => by
            have := inv b0 hb0' he
            have hne : (b == b0) = false := by
              rw [Bool.eq_false_iff]; intro e
              have : b = b0 := (beq_iff b b0).mp e
              subst this; rw [hm'] at hb0'; cases hb0'
            simpa [sumExp, hne] using this) (fun p m => hu p (by simp [m]))
        refine ⟨fun s ι => ?_, ?_, ?_⟩
        · simp only [groupVal, hem, Bool.false_eq_true, ↓reduceIte, one_mul, List.map_cons, prodVal_cons, ← v s ι]; ring
        · intro p m
          cases List.mem_cons.mp m with
          | inl e => left; rw [e]; simp
          | inr m' =>
            cases po p m' with
            | inl h => left; simp [h]
            | inr h => exact Or.inr h
        · intro x m
          cases List.mem_cons.mp m with
          | inl e => left; rw [e]; simp
          | inr m' =>
            cases co x m' with
            | inl h => left; simp [h]
            | inr h => exact Or.inr h


end

/-- a product node over equivalent operands (no constructor involved) -/
theorem product_congr (ρ : Env K) (x y : List Nat) (a b a' b' : Expr) (hw : WF (.op .product x [a, b]) = true)
    (ea : Equiv ρ a a') (eb : Equiv ρ b b') : Equiv ρ (.op .product x [a, b]) (.op .product y [a', b']) := by
  have hw0 := hw
  simp only [WF, Bool.and_eq_true, List.isEmpty_iff] at hw
  obtain ⟨⟨⟨⟨wa, wb⟩, sa⟩, sb⟩, hd⟩ := hw
  have hd' := (dimsAgree_iff _ _ (fi_sorted a wa)).mp hd
  have hfi : fi (.op .product x [a, b]) = FI.merge (fi a) (fi b) := by simp [fi]
  have hdim : ∀ i, FI.dimOf i (FI.merge (fi a) (fi b)) = if FI.has i (fi a) = true then FI.dimOf i (fi a) else FI.dimOf i (fi b) :=
    fun i => merge_dim _ _ (fi_sorted a wa) i
  refine ⟨?_, by simp [shape], by simp [fi, ea.fi, eb.fi], ?_⟩
  · simp only [WF, Bool.and_eq_true, List.isEmpty_iff]
    refine ⟨⟨⟨⟨ea.wf, eb.wf⟩, by rw [ea.shape, sa]⟩, by rw [eb.shape, sb]⟩, ?_⟩
    rw [ea.fi, eb.fi]; exact hd
  · intro s ι c hr hc
    have hc0 : c = [] := by
      have : shape (.op .product x [a, b]) = [] := by simp [shape]
      rw [this] at hc; simpa using hc
    subst hc0
    rw [hfi] at hr
    have ra : InRange ι (fi a) := by
      intro i hi
      have := hr i (by rw [has_merge, hi]; rfl)
      rw [hdim, if_pos hi] at this; exact this
    have rb : InRange ι (fi b) := by
      intro i hi
      have := hr i (by rw [has_merge, hi]; simp)
      rw [hdim] at this
      by_cases hia : FI.has i (fi a) = true
      · rw [if_pos hia, hd' i hia hi] at this; exact this
      · rw [if_neg hia] at this; exact this
    simp only [eval]
    rw [ea.val s ι [] ra (by rw [sa]), eb.val s ι [] rb (by rw [sb])]

theorem groupVal_nil (ρ : Env K) (s : Side) (ι : IdxEnv) : ∀ S : List Pair, groupVal ρ s ι [] S = 1
  | [] => rfl
  | (f, none) :: S => by simp only [groupVal]; exact groupVal_nil ρ s ι S
  | (f, some (b', q)) :: S => by simp [groupVal, groupVal_nil ρ s ι S]

theorem zip_map_fst (fs : List Expr) (h : Expr → Option (Expr × Rat)) : (fs.zip (fs.map h)).map (·.1) = fs := by
  induction fs with
  | nil => rfl
  | cons f fs ih => simp [ih]

theorem mem_zip_map (fs : List Expr) (h : Expr → Option (Expr × Rat)) (x : Pair) (m : x ∈ fs.zip (fs.map h)) :
    x.1 ∈ fs ∧ x.2 = h x.1 := by
  induction fs with
  | nil => simp at m
  | cons f fs ih =>
    simp only [List.map_cons, List.zip_cons_cons, List.mem_cons] at m
    cases m with
    | inl e => subst e; simp
    | inr m' => have := ih m'; exact ⟨by simp [this.1], this.2⟩

theorem mem_zip_map_of_mem (fs : List Expr) (h : Expr → Option (Expr × Rat)) (f : Expr) (m : f ∈ fs) :
    (f, h f) ∈ fs.zip (fs.map h) := by
  induction fs with
  | nil => simp at m
  | cons g gs ih =>
    simp only [List.map_cons, List.zip_cons_cons, List.mem_cons]
    cases List.mem_cons.mp m with
    | inl e => left; rw [e]
    | inr m' => right; exact ih m'

section
variable (ρ : Env K) (Pos : K → Prop) (T : TermData → Prop) (hfold : FoldOK ρ) (hlaws : PowLaws ρ Pos)
include hfold hlaws

/-- a base with exponents of both signs is a non-vanishing true scalar -/
theorem mixed_base (g : Guards) (hg : g.pow = true) (fs : List Expr)
    (hfs : ∀ f ∈ fs, WF f = true ∧ Good (defPred ρ Pos T) f) (b : Expr)
    (hm : isMixed (fs.map (asBaseExp g)) b = true) :
    WF b = true ∧ Good (defPred ρ Pos T) b ∧ trueScalar b = true ∧ ∀ s ι, eval ρ s ι b [] ≠ 0 := by
  simp only [isMixed, Bool.and_eq_true, List.any_eq_true, decide_eq_true_eq] at hm
  obtain ⟨_, q, mq, hq⟩ := hm
  simp only [expsOf, List.mem_filterMap] at mq
  obtain ⟨p, mp, hp⟩ := mq
  obtain ⟨f, mf, rfl⟩ := List.mem_map.mp mp
  cases hf : asBaseExp g f with
  | none => rw [hf] at hp; cases hp
  | some bq =>
    obtain ⟨b', q'⟩ := bq
    rw [hf] at hp
    simp only at hp
    split at hp
    · rename_i hbb
      simp only [Option.some.injEq] at hp; subst hp
      have : b' = b := (beq_iff b' b).mp hbb
      subst this
      obtain ⟨wb, gb, hor, hch⟩ := asBaseExp_spec ρ Pos T hfold hlaws g hg f b' q' hf (hfs f mf).1 (hfs f mf).2
      have tb : trueScalar b' = true := by
        cases hor with
        | inl e => rw [e.2] at hq; exact absurd hq (by norm_num)
        | inr e => exact e.2
      refine ⟨wb, gb, tb, fun s ι => ?_⟩
      cases (hch s ι).2 with
      | inl h => exact hlaws.pos_ne _ h
      | inr h =>
        cases h.2 with
        | inl h => exact h
        | inr h => exact absurd h (not_le.mpr hq)
    · cases hp


/-- **the `Product` handler of `ReciprocalCanceller` is sound** (with the integer guard on nested powers) -/
theorem rcProduct_spec (g : Guards) (hg : g.pow = true) (x : List Nat) (a0 b0 a b r : Expr)
    (hw : WF (.op .product x [a0, b0]) = true) (hgo : Good (defPred ρ Pos T) (.op .product x [a0, b0]))
    (ea : Equiv ρ a0 a) (eb : Equiv ρ b0 b) (ga : Good (defPred ρ Pos T) a) (gb : Good (defPred ρ Pos T) b)
    (h : rcProduct g (.op .product x [a0, b0]) [a0, b0] a b = some r) (hu : isUnsupported r = false) :
    Equiv ρ (.op .product x [a0, b0]) r ∧ Good (defPred ρ Pos T) r := by
  have en : Equiv ρ (.op .product x [a0, b0]) (.op .product [] [a, b]) := product_congr ρ x [] a0 b0 a b hw ea eb
  have hkeep : ∀ r, (if beqL [a, b] [a0, b0] = true then some (.op .product x [a0, b0]) else mkProduct a b) = some r →
      isUnsupported r = false → Equiv ρ (.op .product x [a0, b0]) r ∧ Good (defPred ρ Pos T) r := by
    intro r h hu
    split at h
    · simp only [Option.some.injEq] at h; subst h; exact ⟨Equiv.refl ρ _ hw, hgo⟩
    · exact product_node ρ _ x a0 b0 a b r hw ea eb ga gb h hu
  unfold rcProduct at h
  simp only at h
  split at h
  · exact hkeep r h hu
  · cases hp : rcParts (List.map (asBaseExp g) (leaves a ++ leaves b))
        ((leaves a ++ leaves b).zip (List.map (asBaseExp g) (leaves a ++ leaves b))) [] with
    | none => rw [hp] at h; simp at h
    | some parts =>
      rw [hp] at h
      simp only at h
      -- the factor list
      have hwn := en.wf
      have hsn : shape (.op .product [] [a, b]) = [] := by simp [shape]
      obtain ⟨fl, hl, dl, vl⟩ := leaves_spec (K := K) (.op .product [] [a, b]) hwn hsn
      have hlv : leaves (.op .product [] [a, b]) = leaves a ++ leaves b := by simp [leaves]
      rw [hlv] at fl hl dl vl
      have gF : ∀ f ∈ leaves a ++ leaves b, Good (defPred ρ Pos T) f := by
        intro f m
        cases List.mem_append.mp m with
        | inl m => exact good_leaves _ a ga f m
        | inr m => exact good_leaves _ b gb f m
      have hfs : ∀ f ∈ leaves a ++ leaves b, WF f = true ∧ Good (defPred ρ Pos T) f := fun f m => ⟨fl.wf f m, gF f m⟩
      have hS : ∀ x ∈ (leaves a ++ leaves b).zip (List.map (asBaseExp g) (leaves a ++ leaves b)), PairOK ρ Pos T g x := by
        intro x m
        obtain ⟨m1, e⟩ := mem_zip_map _ _ x m
        exact ⟨e, fl.wf _ m1, gF _ m1, fl.sc _ m1⟩
      -- the result
      have main : ∀ r, (if parts.isEmpty = true then some (Expr.int 1) else makeProduct parts) = some r → isUnsupported r = false →
          Equiv ρ (.op .product x [a0, b0]) r ∧ Good (defPred ρ Pos T) r := by
        intro r hres hur
        have hup : ∀ p ∈ parts, isUnsupported p = false := by
          intro p m
          split at hres
          · rename_i he; simp only [List.isEmpty_iff] at he; subst he; simp at m
          · exact makeProduct_no_marker parts r hres hur p m
        obtain ⟨v, po, co⟩ := rcParts_spec ρ Pos T hfold hlaws g hg _
          (fun b hm => mixed_base ρ Pos T hfold hlaws g hg _ hfs b hm) _ [] parts hp hS (fun b m => by simp at m)
          (fun b _ _ => (netExp_eq b _ _ (by simp)).symm) hup
        rw [zip_map_fst] at po v
        have hFP : Factors parts := by
          refine ⟨?_, ?_, ?_⟩
          · intro p m
            cases po p m with
            | inl h => exact fl.wf p h
            | inr h => exact h.1
          · intro p m
            cases po p m with
            | inl h => exact fl.sc p h
            | inr h => exact ((trueScalar_iff p).mp h.2.2).1
          · intro p m p' m' i hi hi'
            cases po p m with
            | inl h =>
              cases po p' m' with
              | inl h' => exact fl.ag p h p' h' i hi hi'
              | inr h' => rw [((trueScalar_iff p').mp h'.2.2).2] at hi'; simp [FI.has] at hi'
            | inr h => rw [((trueScalar_iff p).mp h.2.2).2] at hi; simp [FI.has] at hi
        have hGP : ∀ p ∈ parts, Good (defPred ρ Pos T) p := by
          intro p m
          cases po p m with
          | inl h => exact gF p h
          | inr h => exact h.2.1
        have hhas : ∀ i, hasL i parts = hasL i (leaves a ++ leaves b) := by
          intro i
          rw [Bool.eq_iff_iff, hasL_iff, hasL_iff]
          constructor
          · rintro ⟨p, m, hi⟩
            cases po p m with
            | inl h => exact ⟨p, h, hi⟩
            | inr h => rw [((trueScalar_iff p).mp h.2.2).2] at hi; simp [FI.has] at hi
          · rintro ⟨f, m, hi⟩
            have mz := mem_zip_map_of_mem (leaves a ++ leaves b) (asBaseExp g) f m
            cases co _ mz with
            | inl h => exact ⟨f, h, hi⟩
            | inr h => simp only at h; rw [h] at hi; simp [FI.has] at hi
        have hdim : ∀ i, hasL i parts = true → dimL i parts = dimL i (leaves a ++ leaves b) := by
          intro i hi
          obtain ⟨p, m, hpi⟩ := (hasL_iff _ _).mp hi
          cases po p m with
          | inl h => rw [dimL_eq parts hFP i p m hpi, dimL_eq _ fl i p h hpi]
          | inr h => rw [((trueScalar_iff p).mp h.2.2).2] at hpi; simp [FI.has] at hpi
        have hvals : ∀ s ι, prodVal ρ s ι parts = eval ρ s ι (.op .product [] [a, b]) [] := by
          intro s ι
          have := v s ι
          rw [groupVal_nil, mul_one] at this
          rw [this, vl]
        suffices hsuf : Equiv ρ (.op .product [] [a, b]) r ∧ Good (defPred ρ Pos T) r from ⟨en.trans hsuf.1, hsuf.2⟩
        split at hres
        · rename_i he
          simp only [List.isEmpty_iff] at he; subst he
          simp only [Option.some.injEq] at hres; subst hres
          have hno : ∀ i, FI.has i (fi (.op .product [] [a, b])) = false := by
            intro i; rw [← hl, ← hhas]; simp [hasL]
          refine ⟨⟨by simp [WF], by simp [shape], ?_, ?_⟩, by simp [Good]⟩
          · apply fi_eq_of _ _ hwn (by simp [WF])
            · intro i; rw [hno]; simp [fi, FI.has]
            · intro i; rw [dim_nothas _ _ (hno i)]; simp [fi, FI.dimOf]
          · intro s ι c _ hc
            have hc0 : c = [] := by rw [hsn] at hc; simpa using hc
            subst hc0
            rw [← hvals]; simp [eval, prodVal]
        · obtain ⟨_, w1, s1, h1, d1, v1⟩ := makeProduct_spec ρ parts r hFP hres hur
          refine ⟨⟨w1, by rw [s1, hsn], ?_, ?_⟩, good_makeProduct _ parts r hGP hres hur⟩
          · apply fi_eq_of _ _ hwn w1
            · intro i; rw [h1, hhas, hl]
            · intro i
              by_cases hi : hasL i parts = true
              · rw [d1 i hi, hdim i hi]
                have hi' : hasL i (leaves a ++ leaves b) = true := by rw [← hhas]; exact hi
                obtain ⟨f, m, hfi⟩ := (hasL_iff _ _).mp hi'
                rw [dimL_eq _ fl i f m hfi, dl i f m hfi]
              · have hi' : hasL i parts = false := by simpa using hi
                rw [dim_nothas _ _ (by rw [h1]; exact hi'), dim_nothas _ _ (by rw [← hl, ← hhas]; exact hi')]
          · intro s ι c _ hc
            have hc0 : c = [] := by rw [hsn] at hc; simpa using hc
            subst hc0
            rw [v1, hvals]
      cases hres : (if parts.isEmpty = true then some (Expr.int 1) else makeProduct parts) with
      | none => rw [hres] at h; simp at h
      | some r' =>
        rw [hres] at h
        simp only at h
        split at h
        · simp only [Option.some.injEq] at h; subst h; simp [isUnsupported, unsupported] at hu
        · rename_i hur
          split at h
          · exact hkeep r h hu
          · simp only [Option.some.injEq] at h; subst h
            exact main r' hres (by simpa using hur)

end

end UflVerif.C09
