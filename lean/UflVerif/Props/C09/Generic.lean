/-
C09 — `reuse_if_untouched` on a node of the fragment whose operands were replaced by equivalent ones: shared by the
traversals of ReciprocalCanceller and IndexReplacer.
-/
import UflVerif.Props.C09.Traverse

namespace UflVerif.C09
open UflVerif Expr C05 FIlemmas Finset

variable {K : Type} [Field K] [CharZero K]

/-- an operand and what a traversal returned for it: equivalent; multi-indices and the terminal under an `Indexed`
    are returned as they are -/
def ArgOK (ρ : Env K) (P : NodePred) (a a' : Expr) : Prop :=
  (isUnsupported a' = false → WF a = true → Good P a → Equiv ρ a a' ∧ Good P a') ∧
  (∀ is, a = .mi is → a' = a) ∧ (∀ d, atomTerm a = some d → isUnsupported a' = false → a' = a)

theorem generic_node (ρ : Env K) (P : NodePred) (hP : PredOK ρ P) (hfold : FoldOK ρ) (k : Op) (aux : List Nat)
    (args args' : List Expr) (r : Expr) (hw : WF (.op k aux args) = true) (hgd : Good P (.op k aux args))
    (rel : List.Forall₂ (ArgOK ρ P) args args') (hnu : ∀ a' ∈ args', isUnsupported a' = false)
    (h : (if beqL args' args = true then some (.op k aux args) else rebuildC k aux args') = some r)
    (hu : isUnsupported r = false) : Equiv ρ (.op k aux args) r ∧ Good P r := by
  have hgd0 := hgd
  unfold Good at hgd
  split at hgd
  · -- Indexed: nothing can have changed
    rename_i A is
    cases hat : atomTerm A with
    | none => rw [hat] at hgd; cases hgd
    | some d =>
      cases rel with
      | cons r1 rel2 =>
        cases rel2 with
        | cons r2 rel3 =>
          cases rel3
          rename_i A' M'
          have eA : A' = A := r1.2.2 d hat (hnu A' (by simp))
          have eM : M' = .mi is := r2.2.1 is rfl
          subst eA; subst eM
          have : beqL [A', .mi is] [A', .mi is] = true := beqL_refl _
          rw [if_pos this] at h
          simp only [Option.some.injEq] at h; subst h
          exact ⟨Equiv.refl ρ _ hw, hgd0⟩
  · -- Sum
    rename_i a b
    cases rel with
    | cons r1 rel2 =>
      cases rel2 with
      | cons r2 rel3 =>
        cases rel3
        rename_i a' b'
        have hw' := hw
        simp only [WF, Bool.and_eq_true, beq_iff_eq] at hw'
        obtain ⟨ea, ga⟩ := r1.1 (hnu a' (by simp)) hw'.1.1.1 hgd.1
        obtain ⟨eb, gb⟩ := r2.1 (hnu b' (by simp)) hw'.1.1.2 hgd.2
        rcases generic_split _ _ _ _ _ h with ⟨e1, e2⟩ | hr
        · subst e2; exact ⟨Equiv.refl ρ _ hw, hgd0⟩
        · simp only [rebuildC, rebuild] at hr
          exact sum_node ρ P aux a b a' b' r hw ea eb ga gb hr hu
  · -- Product
    rename_i a b
    cases rel with
    | cons r1 rel2 =>
      cases rel2 with
      | cons r2 rel3 =>
        cases rel3
        rename_i a' b'
        have hw' := hw
        simp only [WF, Bool.and_eq_true] at hw'
        obtain ⟨ea, ga⟩ := r1.1 (hnu a' (by simp)) hw'.1.1.1.1 hgd.1
        obtain ⟨eb, gb⟩ := r2.1 (hnu b' (by simp)) hw'.1.1.1.2 hgd.2
        rcases generic_split _ _ _ _ _ h with ⟨e1, e2⟩ | hr
        · subst e2; exact ⟨Equiv.refl ρ _ hw, hgd0⟩
        · simp only [rebuildC, rebuild] at hr
          exact product_node ρ P aux a b a' b' r hw ea eb ga gb hr hu
  · -- Division
    rename_i a b
    cases rel with
    | cons r1 rel2 =>
      cases rel2 with
      | cons r2 rel3 =>
        cases rel3
        rename_i a' b'
        have hw' := hw
        simp only [WF, Bool.and_eq_true] at hw'
        obtain ⟨ea, ga⟩ := r1.1 (hnu a' (by simp)) hw'.1.1.1 hgd.1
        obtain ⟨eb, gb⟩ := r2.1 (hnu b' (by simp)) hw'.1.1.2 hgd.2.1
        rcases generic_split _ _ _ _ _ h with ⟨e1, e2⟩ | hr
        · subst e2; exact ⟨Equiv.refl ρ _ hw, hgd0⟩
        · simp only [rebuildC, rebuild] at hr
          exact division_node ρ P hP aux a b a' b' r hw hgd0 ea eb ga gb hr hu
  · -- Power
    rename_i a b
    cases rel with
    | cons r1 rel2 =>
      cases rel2 with
      | cons r2 rel3 =>
        cases rel3
        rename_i a' b'
        have hw' := hw
        simp only [WF, Bool.and_eq_true] at hw'
        obtain ⟨ea, ga⟩ := r1.1 (hnu a' (by simp)) hw'.1.1.1 hgd.1
        obtain ⟨eb, gb⟩ := r2.1 (hnu b' (by simp)) hw'.1.1.2 hgd.2.1
        rcases generic_split _ _ _ _ _ h with ⟨e1, e2⟩ | hr
        · subst e2; exact ⟨Equiv.refl ρ _ hw, hgd0⟩
        · simp only [rebuildC, rebuild] at hr
          exact power_node ρ P hP hfold aux a b a' b' r hw hgd0 ea eb ga gb hr hu
  · -- Abs
    rename_i a
    cases rel with
    | cons r1 rel2 =>
      cases rel2
      rename_i a'
      have hw' := hw
      simp only [WF] at hw'
      obtain ⟨ea, ga⟩ := r1.1 (hnu a' (by simp)) hw' hgd
      rcases generic_split _ _ _ _ _ h with ⟨e1, e2⟩ | hr
      · subst e2; exact ⟨Equiv.refl ρ _ hw, hgd0⟩
      · simp only [rebuildC, rebuild] at hr
        exact abs_node ρ P hfold aux a a' r hw ea ga hr hu
  · -- PositiveRestricted
    rename_i a
    cases rel with
    | cons r1 rel2 =>
      cases rel2
      rename_i a'
      have hw' := hw
      simp only [WF] at hw'
      obtain ⟨ea, ga⟩ := r1.1 (hnu a' (by simp)) hw' hgd
      rcases generic_split _ _ _ _ _ h with ⟨e1, e2⟩ | hr
      · subst e2; exact ⟨Equiv.refl ρ _ hw, hgd0⟩
      · exact restrictedC_node ρ P .positiveRestricted (Or.inl rfl) aux a a' r hw ea ga hr
  · -- NegativeRestricted
    rename_i a
    cases rel with
    | cons r1 rel2 =>
      cases rel2
      rename_i a'
      have hw' := hw
      simp only [WF] at hw'
      obtain ⟨ea, ga⟩ := r1.1 (hnu a' (by simp)) hw' hgd
      rcases generic_split _ _ _ _ _ h with ⟨e1, e2⟩ | hr
      · subst e2; exact ⟨Equiv.refl ρ _ hw, hgd0⟩
      · exact restrictedC_node ρ P .negativeRestricted (Or.inr rfl) aux a a' r hw ea ga hr
  · -- IndexSum through its constructor
    rename_i a j
    cases rel with
    | cons r1 rel2 =>
      cases rel2 with
      | cons r2 rel3 =>
        cases rel3
        rename_i a' M'
        have eM : M' = .mi [.free j] := r2.2.1 _ rfl
        subst eM
        obtain ⟨wa, hj, hfi, hsh⟩ := indexSum_facts aux a j hw
        obtain ⟨ea, ga⟩ := r1.1 (hnu a' (by simp)) wa hgd.1
        rcases generic_split _ _ _ _ _ h with ⟨e1, e2⟩ | hr
        · subst e2; exact ⟨Equiv.refl ρ _ hw, hgd0⟩
        · simp only [rebuildC, rebuild] at hr
          exact indexSum_node ρ P aux a a' r j hw hgd.2 ea ga hr hu
  · -- mathematical functions
    rename_i a hne1 hne2 hne3
    cases rel with
    | cons r1 rel2 =>
      cases rel2
      rename_i a'
      obtain ⟨n, hn⟩ := Option.isSome_iff_exists.mp hgd.1
      have hwa : WF a = true := math_wf k aux a n hn hw
      obtain ⟨ea, ga⟩ := r1.1 (hnu a' (by simp)) hwa hgd.2
      rcases generic_split _ _ _ _ _ h with ⟨e1, e2⟩ | hr
      · subst e2; exact ⟨Equiv.refl ρ _ hw, hgd0⟩
      · have := math_rebuildC k aux a' n hn r hr hu
        subst this
        exact math_node ρ P k aux a a' n hn hw ea ga
  · exact hgd.elim

end UflVerif.C09
