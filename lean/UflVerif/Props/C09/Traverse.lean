/-
C09 — the traversal of an `IndexSumSimplifier` (`simpWith`): if the `match` rule is sound, the whole pass returns an
expression equivalent to its input (same shape, free indices, value) inside the fragment.
-/
import UflVerif.Props.C09.Nodes

namespace UflVerif.C09
open UflVerif Expr C05 FIlemmas Finset

variable {K : Type} [Field K] [CharZero K]

/-- `reuse_if_untouched`: either nothing changed or the node is rebuilt -/
theorem generic_split {rb : Op → List Nat → List Expr → Option Expr} (k : Op) (aux : List Nat) (args args' : List Expr) (r : Expr)
    (h : (if beqL args' args = true then some (.op k aux args) else rb k aux args') = some r) :
    (args' = args ∧ r = .op k aux args) ∨ rb k aux args' = some r := by
  split at h
  · rename_i hb
    simp only [Option.some.injEq] at h
    exact Or.inl ⟨beqL_eq _ _ hb, h.symm⟩
  · exact Or.inr h

/-- a sum over j of the factors of a' is the IndexSum node over the equivalent a -/
theorem sumSpec_equiv (ρ : Env K) (x : List Nat) (a a' r : Expr) (j : Nat)
    (hw : WF (.op .indexSum x [a, .mi [.free j]]) = true) (hsa : shape a = []) (ea : Equiv ρ a a')
    (sp : SumSpec ρ (leaves a') j r) : Equiv ρ (.op .indexSum x [a, .mi [.free j]]) r := by
  obtain ⟨wa, hj, hfi, hsh⟩ := indexSum_facts x a j hw
  obtain ⟨fl, hl, dl, vl⟩ := leaves_spec (K := K) a' ea.wf (by rw [ea.shape, hsa])
  have dG : ∀ i, FI.has i (fi a) = true → dimL i (leaves a') = FI.dimOf i (fi a) := by
    intro i hi
    have : hasL i (leaves a') = true := by rw [hl, ea.fi]; exact hi
    obtain ⟨f, m, hf⟩ := (hasL_iff _ _).mp this
    rw [dimL_eq _ fl i f m hf, dl i f m hf, ea.fi]
  refine ⟨sp.wf, by rw [sp.sc, hsh, hsa], ?_, ?_⟩
  · apply fi_eq_of _ _ hw sp.wf
    · intro i; rw [sp.has, hl, ea.fi, hfi, has_remove]
    · intro i
      by_cases hi : FI.has i (fi a) = true ∧ i ≠ j
      · rw [sp.dim i hi.2 (by rw [hl, ea.fi]; exact hi.1), dG i hi.1, hfi, dimOf_remove i j hi.2]
      · have h1 : FI.has i (fi r) = false := by
          rw [sp.has, hl, ea.fi]
          by_cases h1 : FI.has i (fi a) = true
          · have : i = j := by by_contra hne; exact hi ⟨h1, hne⟩
            simp [this]
          · simp [h1]
        have h2 : FI.has i (FI.remove j (fi a)) = false := by
          rw [has_remove]
          by_cases h1 : FI.has i (fi a) = true
          · have : i = j := by by_contra hne; exact hi ⟨h1, hne⟩
            simp [this]
          · simp [h1]
        rw [dim_nothas _ _ h1, hfi, dim_nothas _ _ h2]
  · intro s ι c hr hc
    have hc0 : c = [] := by rw [hsh, hsa] at hc; simpa using hc
    subst hc0
    rw [hfi] at hr
    rw [sp.val s ι (by
      intro i hij hi
      rw [hl, ea.fi] at hi
      rw [dG i hi]
      have := hr i (by rw [has_remove]; simp [hi, hij])
      rwa [dimOf_remove i j hij] at this), indexSum_eval, dG j hj]
    apply Finset.sum_congr rfl
    intro v hv
    rw [vl]
    exact ea.val s (ι.set j v) [] (inRange_set ι (fi a) j v hr (Finset.mem_range.mp hv)) (by rw [hsa])


/-- an operand and its processed counterpart -/
def ArgRel (ρ : Env K) (P : NodePred) (f : Expr → Option Expr) (a a' : Expr) : Prop :=
  f a = some a' ∧ (isUnsupported a' = false → WF a = true → Good P a → Equiv ρ a a' ∧ Good P a')

theorem simp_atom (m : MatchFn) (g : Guards) (fo : Bool) (A A' : Expr) (d : TermData) (ha : atomTerm A = some d)
    (h : simpWith m g fo A = some A') (hu : isUnsupported A' = false) : A' = A := by
  unfold atomTerm at ha
  split at ha
  · simp only [simpWith, Option.some.injEq] at h; exact h.symm
  · simp only [simpWith, simpWithL] at h
    split at h
    · simp only [Option.some.injEq] at h; subst h; simp [isUnsupported, unsupported] at hu
    · simp only [beqL, beq_refl, Bool.and_self, ↓reduceIte, Option.some.injEq] at h; exact h.symm
  · simp only [simpWith, simpWithL] at h
    split at h
    · simp only [Option.some.injEq] at h; subst h; simp [isUnsupported, unsupported] at hu
    · simp only [beqL, beq_refl, Bool.and_self, ↓reduceIte, Option.some.injEq] at h; exact h.symm
  · cases ha

theorem math_wf (k : Op) (x : List Nat) (a : Expr) (n : String) (hn : mathName k = some n) (hw : WF (.op k x [a]) = true) :
    WF a = true := by
  cases k <;> simp [mathName] at hn <;> simp [WF, mathName] at hw <;> exact hw.1

theorem math_good (P : NodePred) (k : Op) (x : List Nat) (a : Expr) (n : String) (hn : mathName k = some n) :
    Good P (.op k x [a]) ↔ Good P a := by
  cases k <;> simp [mathName] at hn <;> simp [Good, mathName]

theorem math_rebuild (k : Op) (x : List Nat) (a : Expr) (n : String) (hn : mathName k = some n) :
    rebuild k x [a] = some (.op k x [a]) := by
  cases k <;> simp [mathName] at hn <;> simp [rebuild]

theorem math_rebuildC (k : Op) (x : List Nat) (a : Expr) (n : String) (hn : mathName k = some n) (r : Expr)
    (h : rebuildC k x [a] = some r) (hu : isUnsupported r = false) : r = .op k x [a] := by
  cases k <;> simp [mathName] at hn <;>
  · simp only [rebuildC, mathName, Option.isSome_some, Bool.true_and] at h
    split at h
    · simp only [Option.some.injEq] at h; subst h; simp [isUnsupported, unsupported] at hu
    · simp only [rebuild, Option.some.injEq] at h; exact h.symm

section
variable (ρ : Env K) (P : NodePred) (m : MatchFn) (hm : MatchSound ρ P m) (g : Guards) (hg : g.push = true)
  (fo : Bool) (hP : PredOK ρ P) (hfold : FoldOK ρ)
include hm hg hP hfold

mutual
theorem simp_sound : ∀ (e r : Expr), simpWith m g fo e = some r → isUnsupported r = false → WF e = true → Good P e →
    Equiv ρ e r ∧ Good P r
  | .int v, r, h, _, hw, hgd => by simp only [simpWith, Option.some.injEq] at h; subst h; exact ⟨Equiv.refl ρ _ hw, hgd⟩
  | .real n d, r, h, _, hw, hgd => by simp only [simpWith, Option.some.injEq] at h; subst h; exact ⟨Equiv.refl ρ _ hw, hgd⟩
  | .cplx _ _ _ _, r, h, _, hw, hgd => by simp only [simpWith, Option.some.injEq] at h; subst h; exact ⟨Equiv.refl ρ _ hw, hgd⟩
  | .zero _ _, r, h, _, hw, hgd => by simp only [simpWith, Option.some.injEq] at h; subst h; exact ⟨Equiv.refl ρ _ hw, hgd⟩
  | .mi _, r, h, _, hw, hgd => by simp only [simpWith, Option.some.injEq] at h; subst h; exact ⟨Equiv.refl ρ _ hw, hgd⟩
  | .term _, r, h, _, hw, hgd => by simp only [simpWith, Option.some.injEq] at h; subst h; exact ⟨Equiv.refl ρ _ hw, hgd⟩
  | .op k aux args, r, h, hu, hw, hgd => by
    simp only [simpWith] at h
    cases hl : simpWithL m g fo args with
    | none => simp [hl] at h
    | some args' =>
      rw [hl] at h
      simp only at h
      have rel := simpL_sound args args' hl
      split at h
      · simp only [Option.some.injEq] at h; subst h; simp [isUnsupported, unsupported] at hu
      · rename_i hany
        have hnu : ∀ a' ∈ args', isUnsupported a' = false := by
          intro a' ma
          simp only [List.any_eq_true, not_exists, not_and, Bool.not_eq_true] at hany
          exact hany a' ma
        unfold Good at hgd
        split at hgd
        · -- Indexed: the operands are a (restricted) terminal and a multi-index, both returned as they are
          rename_i A is
          cases hat : atomTerm A with
          | none => rw [hat] at hgd; cases hgd
          | some d =>
            cases rel with
            | cons r1 rel2 =>
              cases rel2 with
              | cons r2 rel3 =>
                cases rel3
                rename_i A' M'
                have eA : A' = A := simp_atom m g fo A A' d hat r1.1 (hnu A' (by simp))
                have eM : M' = .mi is := by
                  have := r2.1; simp only [simpWith, Option.some.injEq] at this; exact this.symm
                subst eA; subst eM
                split at h
                · rename_i heq1 heq2; cases heq1
                · rename_i d' a b heq1 heq2
                  simp only [List.cons.injEq, and_true] at heq2
                  obtain ⟨e1, e2⟩ := heq2
                  subst e1
                  simp only [Expr.mi.injEq] at e2
                  subst e2
                  split at h
                  · rename_i hfo
                    simp only [Bool.and_eq_true, beq_iff_eq] at hfo
                    simp only [Option.some.injEq] at h; subst h
                    -- Identity[a, b] at fixed indices
                    have hfi : fi (.op .indexed aux [.term d', .mi [.fixed a, .fixed b]]) = [] := by
                      simp [fi, idxPairs, List.zipIdx]
                    have hev : ∀ s ι, eval ρ s ι (.op .indexed aux [.term d', .mi [.fixed a, .fixed b]]) [] = if a = b then 1 else 0 := by
                      intro s ι; simp [eval, hfo.2, Idx.resolve]
                    by_cases hab : a = b
                    · subst hab
                      simp only [beq_self_eq_true, ↓reduceIte]
                      refine ⟨⟨by simp [WF], by simp [shape], by rw [hfi]; simp [fi], ?_⟩, by simp [Good]⟩
                      intro s ι c _ hc
                      have hc0 : c = [] := by simpa [shape] using hc
                      subst hc0
                      rw [hev, if_pos rfl]; simp [eval]
                    · have : (a == b) = false := beq_eq_false_iff_ne.mpr hab
                      simp only [this, Bool.false_eq_true, ↓reduceIte]
                      refine ⟨⟨by simp [WF, sortedFI], by simp [shape], by rw [hfi]; simp [fi], ?_⟩, by simp [Good]⟩
                      intro s ι c _ hc
                      have hc0 : c = [] := by simpa [shape] using hc
                      subst hc0
                      rw [hev, if_neg hab]; simp [eval]
                  · simp only [beqL, beq_refl, Bool.and_self, ↓reduceIte, Option.some.injEq] at h; subst h
                    exact ⟨Equiv.refl ρ _ hw, by simp only [Good, atomTerm]; exact hgd⟩
                · simp only [beqL, beq_refl, Bool.and_self, ↓reduceIte, Option.some.injEq] at h; subst h
                  rw [hat] at hgd
                  exact ⟨Equiv.refl ρ _ hw, by simp only [Good, hat]; exact hgd⟩
        · -- Sum
          rename_i a b
          cases rel with
          | cons r1 rel2 =>
            cases rel2 with
            | cons r2 rel3 =>
              cases rel3
              rename_i a' b'
              have hw' := hw
              simp only [WF, Bool.and_eq_true, beq_iff_eq] at hw'
              obtain ⟨ea, ga⟩ := r1.2 (hnu a' (by simp)) hw'.1.1.1 hgd.1
              obtain ⟨eb, gb⟩ := r2.2 (hnu b' (by simp)) hw'.1.1.2 hgd.2
              simp only at h
              rcases generic_split _ _ _ _ _ h with ⟨e1, e2⟩ | hr
              · subst e2; exact ⟨Equiv.refl ρ _ hw, (good_sum P _ _ _).mpr hgd⟩
              · simp only [rebuildC, rebuild] at hr
                exact sum_node ρ P aux a b a' b' r hw ea eb ga gb hr hu
        · -- Product
          rename_i a b
          cases rel with
          | cons r1 rel2 =>
            cases rel2 with
            | cons r2 rel3 =>
              cases rel3
              rename_i a' b'
              have hw' := hw
              simp only [WF, Bool.and_eq_true] at hw'
              obtain ⟨ea, ga⟩ := r1.2 (hnu a' (by simp)) hw'.1.1.1.1 hgd.1
              obtain ⟨eb, gb⟩ := r2.2 (hnu b' (by simp)) hw'.1.1.1.2 hgd.2
              simp only at h
              rcases generic_split _ _ _ _ _ h with ⟨e1, e2⟩ | hr
              · subst e2; exact ⟨Equiv.refl ρ _ hw, (good_product P _ _ _).mpr hgd⟩
              · simp only [rebuildC, rebuild] at hr
                exact product_node ρ P aux a b a' b' r hw ea eb ga gb hr hu
        · -- Division
          rename_i a b
          cases rel with
          | cons r1 rel2 =>
            cases rel2 with
            | cons r2 rel3 =>
              cases rel3
              rename_i a' b'
              have hw' := hw
              simp only [WF, Bool.and_eq_true] at hw'
              obtain ⟨ea, ga⟩ := r1.2 (hnu a' (by simp)) hw'.1.1.1 hgd.1
              obtain ⟨eb, gb⟩ := r2.2 (hnu b' (by simp)) hw'.1.1.2 hgd.2.1
              simp only at h
              rcases generic_split _ _ _ _ _ h with ⟨e1, e2⟩ | hr
              · subst e2; exact ⟨Equiv.refl ρ _ hw, (good_division P _ _ _).mpr hgd⟩
              · simp only [rebuildC, rebuild] at hr
                exact division_node ρ P hP aux a b a' b' r hw ((good_division P _ _ _).mpr hgd) ea eb ga gb hr hu
        · -- Power
          rename_i a b
          cases rel with
          | cons r1 rel2 =>
            cases rel2 with
            | cons r2 rel3 =>
              cases rel3
              rename_i a' b'
              have hw' := hw
              simp only [WF, Bool.and_eq_true] at hw'
              obtain ⟨ea, ga⟩ := r1.2 (hnu a' (by simp)) hw'.1.1.1 hgd.1
              obtain ⟨eb, gb⟩ := r2.2 (hnu b' (by simp)) hw'.1.1.2 hgd.2.1
              simp only at h
              rcases generic_split _ _ _ _ _ h with ⟨e1, e2⟩ | hr
              · subst e2; exact ⟨Equiv.refl ρ _ hw, (good_power P _ _ _).mpr hgd⟩
              · simp only [rebuildC, rebuild] at hr
                exact power_node ρ P hP hfold aux a b a' b' r hw ((good_power P _ _ _).mpr hgd) ea eb ga gb hr hu
        · -- Abs
          rename_i a
          cases rel with
          | cons r1 rel2 =>
            cases rel2
            rename_i a'
            have hw' := hw
            simp only [WF] at hw'
            obtain ⟨ea, ga⟩ := r1.2 (hnu a' (by simp)) hw' hgd
            simp only at h
            rcases generic_split _ _ _ _ _ h with ⟨e1, e2⟩ | hr
            · subst e2; exact ⟨Equiv.refl ρ _ hw, (good_abs P _ _).mpr hgd⟩
            · simp only [rebuildC, rebuild] at hr
              exact abs_node ρ P hfold aux a a' r hw ea ga hr hu
        · -- PositiveRestricted
          rename_i a
          cases rel with
          | cons r1 rel2 =>
            cases rel2
            rename_i a'
            have hw' := hw
            simp only [WF] at hw'
            obtain ⟨ea, ga⟩ := r1.2 (hnu a' (by simp)) hw' hgd
            simp only at h
            rcases generic_split _ _ _ _ _ h with ⟨e1, e2⟩ | hr
            · subst e2; exact ⟨Equiv.refl ρ _ hw, by simpa [Good] using hgd⟩
            · exact restrictedC_node ρ P .positiveRestricted (Or.inl rfl) aux a a' r hw ea ga hr
        · -- NegativeRestricted
          rename_i a
          cases rel with
          | cons r1 rel2 =>
            cases rel2
            rename_i a'
            have hw' := hw
            simp only [WF] at hw'
            obtain ⟨ea, ga⟩ := r1.2 (hnu a' (by simp)) hw' hgd
            simp only at h
            rcases generic_split _ _ _ _ _ h with ⟨e1, e2⟩ | hr
            · subst e2; exact ⟨Equiv.refl ρ _ hw, by simpa [Good] using hgd⟩
            · exact restrictedC_node ρ P .negativeRestricted (Or.inr rfl) aux a a' r hw ea ga hr
        · -- IndexSum: the handler of the simplifier
          rename_i a j
          cases rel with
          | cons r1 rel2 =>
            cases rel2 with
            | cons r2 rel3 =>
              cases rel3
              rename_i a' M'
              have eM : M' = .mi [.free j] := by
                have := r2.1; simp only [simpWith, Option.some.injEq] at this; exact this.symm
              subst eM
              obtain ⟨wa, hj, hfi, hsh⟩ := indexSum_facts aux a j hw
              obtain ⟨ea, ga⟩ := r1.2 (hnu a' (by simp)) wa hgd.1
              simp only at h
              split at h
              · cases h
              · rename_i r' hc
                simp only [Option.some.injEq] at h; subst h
                have fl := (leaves_spec (K := K) a' ea.wf (by rw [ea.shape, hgd.2])).1
                obtain ⟨sp, gd⟩ := (cancel_sound ρ P m hm g hg (fuelFor a')).1 (leaves a') j r' hc hu fl (good_leaves P a' ga)
                exact ⟨sumSpec_equiv ρ aux a a' r' j hw hgd.2 ea sp, gd⟩
              · rcases generic_split (rb := fun _ _ _ => mkIndexSum a' j) _ _ _ _ _ h with ⟨e1, e2⟩ | hr
                · subst e2; exact ⟨Equiv.refl ρ _ hw, (good_indexSum P _ _ _).mpr hgd⟩
                · exact indexSum_node ρ P aux a a' r j hw hgd.2 ea ga hr hu
        · -- mathematical functions
          rename_i a hne1 hne2 hne3
          cases rel with
          | cons r1 rel2 =>
            cases rel2
            rename_i a'
            obtain ⟨n, hn⟩ := Option.isSome_iff_exists.mp hgd.1
            have hwa : WF a = true := math_wf k aux a n hn hw
            obtain ⟨ea, ga⟩ := r1.2 (hnu a' (by simp)) hwa hgd.2
            have hk1 : k ≠ .indexSum := by intro e; subst e; simp [mathName] at hn
            have hk2 : k ≠ .indexed := by intro e; subst e; simp [mathName] at hn
            split at h
            · exact absurd rfl hk1
            · exact absurd rfl hk2
            · rcases generic_split _ _ _ _ _ h with ⟨e1, e2⟩ | hr
              · subst e2
                exact ⟨Equiv.refl ρ _ hw, (math_good P _ aux a n hn).mpr hgd.2⟩
              · have := math_rebuildC _ aux a' n hn r hr hu
                subst this
                exact math_node ρ P _ aux a a' n hn hw ea ga
        · exact hgd.elim
theorem simpL_sound : ∀ (args args' : List Expr), simpWithL m g fo args = some args' →
    List.Forall₂ (ArgRel ρ P (simpWith m g fo)) args args'
  | [], args', h => by simp only [simpWithL, Option.some.injEq] at h; subst h; exact List.Forall₂.nil
  | a :: as, args', h => by
    simp only [simpWithL] at h
    cases ha : simpWith m g fo a with
    | none => simp [ha] at h
    | some a' =>
      cases hs : simpWithL m g fo as with
      | none => simp [ha, hs] at h
      | some as' =>
        simp only [ha, hs, Option.some.injEq] at h; subst h
        exact List.Forall₂.cons ⟨ha, fun hu hw hgd => simp_sound a a' ha hu hw hgd⟩ (simpL_sound as as' hs)
end

end

end UflVerif.C09
