/-
C09 — shared definitions and lemmas: index environments inside their extents, semantic equivalence of
expressions, scalar factor lists (`leaves`, `makeProduct`) and their product value.
-/
import Mathlib.Algebra.BigOperators.Group.List.Basic
import UflVerif.Props.C05
import UflVerif.Model.CancelJacobian

namespace UflVerif.C09
open UflVerif Expr C05 FIlemmas Finset

variable {K : Type} [Field K] [CharZero K]

/-- every free index of the list has a value inside its extent -/
def InRange (ι : IdxEnv) (f : FI) : Prop := ∀ i, FI.has i f = true → ι i < FI.dimOf i f

/-- `r` can stand wherever `e` stood: well formed, same shape and free indices (with extents), same value
    for every side, every index environment inside the extents and every component -/
structure Equiv (ρ : Env K) (e r : Expr) : Prop where
  wf : WF r = true
  shape : shape r = shape e
  fi : fi r = fi e
  val : ∀ s ι c, InRange ι (Expr.fi e) → c.length = (Expr.shape e).length → eval ρ s ι r c = eval ρ s ι e c

theorem Equiv.refl (ρ : Env K) (e : Expr) (h : WF e = true) : Equiv ρ e e :=
  ⟨h, rfl, rfl, fun _ _ _ _ _ => rfl⟩

theorem Equiv.trans {ρ : Env K} {a b c : Expr} (h1 : Equiv ρ a b) (h2 : Equiv ρ b c) : Equiv ρ a c :=
  ⟨h2.wf, h2.shape.trans h1.shape, h2.fi.trans h1.fi, fun s ι cc hr hc => by
    rw [h2.val s ι cc (by rw [h1.fi]; exact hr) (by rw [h1.shape]; exact hc), h1.val s ι cc hr hc]⟩

/-- two sorted free-index lists with the same indices and extents are equal -/
theorem fi_ext : ∀ (f g : FI), Sorted f → Sorted g → (∀ i, FI.has i f = FI.has i g) →
    (∀ i, FI.dimOf i f = FI.dimOf i g) → f = g
  | [], [], _, _, _, _ => rfl
  | [], q :: g, _, _, hh, _ => by
    have := hh q.1
    simp [FI.has] at this
  | p :: f, [], _, _, hh, _ => by
    have := hh p.1
    simp [FI.has] at this
  | p :: f, q :: g, sf, sg, hh, hd => by
    have sf' := List.pairwise_cons.mp sf
    have sg' := List.pairwise_cons.mp sg
    have e1 : p.1 = q.1 := by
      have h1 : FI.has p.1 (q :: g) = true := by rw [← hh]; simp [FI.has]
      have h2 : FI.has q.1 (p :: f) = true := by rw [hh]; simp [FI.has]
      obtain ⟨x, hx, ex⟩ := (has_iff _ _).mp h1
      obtain ⟨y, hy, ey⟩ := (has_iff _ _).mp h2
      cases List.mem_cons.mp hx with
      | inl e => rw [← ex, e]
      | inr e =>
        cases List.mem_cons.mp hy with
        | inl e' => rw [← ey, e']
        | inr e' =>
          have a1 := sg'.1 x e
          have a2 := sf'.1 y e'
          omega
    have e2 : p.2 = q.2 := by
      have := hd p.1
      rw [dimOf_cons, dimOf_cons] at this
      simpa [e1] using this
    have ep : p = q := Prod.ext e1 e2
    subst ep
    congr 1
    apply fi_ext f g sf'.2 sg'.2
    · intro i
      by_cases hi : i = p.1
      · subst hi
        rw [not_has_of_lt _ f sf'.1, not_has_of_lt _ g sg'.1]
      · have := hh i
        simp only [FI.has, List.any_cons] at this ⊢
        have hne : (p.1 == i) = false := by simp; exact fun e => hi e.symm
        simpa [hne] using this
    · intro i
      by_cases hi : i = p.1
      · subst hi
        rw [dim_nothas _ _ (not_has_of_lt _ f sf'.1), dim_nothas _ _ (not_has_of_lt _ g sg'.1)]
      · have := hd i
        rw [dimOf_cons, dimOf_cons] at this
        have hne : ¬ p.1 = i := fun e => hi e.symm
        simpa [hne] using this

theorem fi_eq_of (e r : Expr) (he : WF e = true) (hr : WF r = true) (hh : ∀ i, FI.has i (fi r) = FI.has i (fi e))
    (hd : ∀ i, FI.dimOf i (fi r) = FI.dimOf i (fi e)) : fi r = fi e :=
  fi_ext _ _ (fi_sorted r hr) (fi_sorted e he) hh hd

mutual
theorem beq_refl : ∀ a : Expr, beq a a = true
  | .int _ | .real _ _ | .cplx _ _ _ _ | .zero _ _ | .mi _ | .term _ => by simp [beq]
  | .op k x as => by simp [beq, beqL_refl as]
theorem beqL_refl : ∀ as : List Expr, beqL as as = true
  | [] => rfl
  | a :: as => by simp [beqL, beq_refl a, beqL_refl as]
end

theorem beq_iff (a b : Expr) : (a == b) = true ↔ a = b :=
  ⟨eq_of_beq_inst a b, fun h => by subst h; exact beq_refl a⟩

/-! ## scalar factor lists -/

/-- some factor has the index free -/
def hasL (i : Nat) (fs : List Expr) : Bool := fs.any (fun f => FI.has i (fi f))

/-- the extent of the index in the first factor that has it -/
def dimL (i : Nat) (fs : List Expr) : Nat :=
  match fs.find? (fun f => FI.has i (fi f)) with
  | some f => FI.dimOf i (fi f)
  | none => 0

/-- product of the values of the factors -/
def prodVal (ρ : Env K) (s : Side) (ι : IdxEnv) (fs : List Expr) : K := (fs.map (fun f => eval ρ s ι f [])).prod

/-- well-formed scalar factors whose common free indices have the same extents -/
structure Factors (fs : List Expr) : Prop where
  wf : ∀ f ∈ fs, WF f = true
  sc : ∀ f ∈ fs, shape f = []
  ag : ∀ f ∈ fs, ∀ f' ∈ fs, DimsAgree (fi f) (fi f')

theorem dimL_eq (fs : List Expr) (hf : Factors fs) (i : Nat) (f : Expr) (hm : f ∈ fs) (hi : FI.has i (fi f) = true) :
    dimL i fs = FI.dimOf i (fi f) := by
  unfold dimL
  cases h : fs.find? (fun f => FI.has i (fi f)) with
  | none =>
    have := List.find?_eq_none.mp h f hm
    simp [hi] at this
  | some f' =>
    have hm' := List.mem_of_find?_eq_some h
    have hi' : FI.has i (fi f') = true := by simpa using List.find?_some h
    exact hf.ag f' hm' f hm i hi' hi

theorem hasL_iff (i : Nat) (fs : List Expr) : hasL i fs = true ↔ ∃ f ∈ fs, FI.has i (fi f) = true := by
  simp [hasL]

theorem dimL_nothas (fs : List Expr) (i : Nat) (h : hasL i fs = false) : dimL i fs = 0 := by
  unfold dimL
  cases h' : fs.find? (fun f => FI.has i (fi f)) with
  | none => rfl
  | some f' =>
    have hm' := List.mem_of_find?_eq_some h'
    have hi' : FI.has i (fi f') = true := by simpa using List.find?_some h'
    have : hasL i fs = true := (hasL_iff i fs).mpr ⟨f', hm', hi'⟩
    rw [h] at this; cases this

theorem Factors.perm {fs gs : List Expr} (h : fs.Perm gs) (hf : Factors fs) : Factors gs :=
  ⟨fun f m => hf.wf f (h.mem_iff.mpr m), fun f m => hf.sc f (h.mem_iff.mpr m),
   fun f m f' m' => hf.ag f (h.mem_iff.mpr m) f' (h.mem_iff.mpr m')⟩

theorem Factors.sub {fs gs : List Expr} (h : ∀ f ∈ gs, f ∈ fs) (hf : Factors fs) : Factors gs :=
  ⟨fun f m => hf.wf f (h f m), fun f m => hf.sc f (h f m), fun f m f' m' => hf.ag f (h f m) f' (h f' m')⟩

theorem hasL_perm {fs gs : List Expr} (h : fs.Perm gs) (i : Nat) : hasL i fs = hasL i gs := by
  rw [Bool.eq_iff_iff, hasL_iff, hasL_iff]
  exact ⟨fun ⟨f, m, x⟩ => ⟨f, h.mem_iff.mp m, x⟩, fun ⟨f, m, x⟩ => ⟨f, h.mem_iff.mpr m, x⟩⟩

theorem dimL_perm {fs gs : List Expr} (h : fs.Perm gs) (hf : Factors fs) (i : Nat) : dimL i fs = dimL i gs := by
  by_cases hi : hasL i fs = true
  · obtain ⟨f, m, x⟩ := (hasL_iff i fs).mp hi
    rw [dimL_eq fs hf i f m x, dimL_eq gs (hf.perm h) i f (h.mem_iff.mp m) x]
  · have hi' : hasL i fs = false := by simpa using hi
    rw [dimL_nothas fs i hi', dimL_nothas gs i (by rw [← hasL_perm h]; exact hi')]

theorem prodVal_perm (ρ : Env K) (s : Side) (ι : IdxEnv) {fs gs : List Expr} (h : fs.Perm gs) :
    prodVal ρ s ι fs = prodVal ρ s ι gs := by
  unfold prodVal
  exact (h.map _).prod_eq

theorem prodVal_append (ρ : Env K) (s : Side) (ι : IdxEnv) (fs gs : List Expr) :
    prodVal ρ s ι (fs ++ gs) = prodVal ρ s ι fs * prodVal ρ s ι gs := by
  simp [prodVal]

theorem prodVal_cons (ρ : Env K) (s : Side) (ι : IdxEnv) (f : Expr) (fs : List Expr) :
    prodVal ρ s ι (f :: fs) = eval ρ s ι f [] * prodVal ρ s ι fs := by
  simp [prodVal]


/-! ### `leaves` -/

theorem leaves_spec : ∀ (e : Expr), WF e = true → shape e = [] →
    Factors (leaves e) ∧ (∀ i, hasL i (leaves e) = FI.has i (fi e)) ∧
    (∀ i f, f ∈ leaves e → FI.has i (fi f) = true → FI.dimOf i (fi f) = FI.dimOf i (fi e)) ∧
    ∀ (ρ : Env K) s ι, prodVal ρ s ι (leaves e) = eval ρ s ι e [] := by
  intro e
  fun_induction leaves e with
  | case1 x a b iha ihb =>
    intro hw hs
    simp only [WF, Bool.and_eq_true, List.isEmpty_iff] at hw
    obtain ⟨⟨⟨⟨wa, wb⟩, sa⟩, sb⟩, hd⟩ := hw
    have hd' := (dimsAgree_iff _ _ (fi_sorted a wa)).mp hd
    obtain ⟨fa, ha, da, va⟩ := iha wa sa
    obtain ⟨fb, hb, db, vb⟩ := ihb wb sb
    have hfi : fi (.op .product x [a, b]) = FI.merge (fi a) (fi b) := by simp [fi]
    have hdim : ∀ i, FI.dimOf i (fi (.op .product x [a, b])) = if FI.has i (fi a) = true then FI.dimOf i (fi a) else FI.dimOf i (fi b) := by
      intro i; rw [hfi]; exact merge_dim _ _ (fi_sorted a wa) i
    refine ⟨⟨?_, ?_, ?_⟩, ?_, ?_, ?_⟩
    · intro f m
      cases List.mem_append.mp m with
      | inl m => exact fa.wf f m
      | inr m => exact fb.wf f m
    · intro f m
      cases List.mem_append.mp m with
      | inl m => exact fa.sc f m
      | inr m => exact fb.sc f m
    · intro f m f' m' i hi hi'
      cases List.mem_append.mp m with
      | inl m =>
        cases List.mem_append.mp m' with
        | inl m' => exact fa.ag f m f' m' i hi hi'
        | inr m' =>
          rw [da i f m hi, db i f' m' hi']
          exact hd' i (by rw [← ha]; exact (hasL_iff _ _).mpr ⟨f, m, hi⟩) (by rw [← hb]; exact (hasL_iff _ _).mpr ⟨f', m', hi'⟩)
      | inr m =>
        cases List.mem_append.mp m' with
        | inl m' =>
          rw [db i f m hi, da i f' m' hi']
          exact (hd' i (by rw [← ha]; exact (hasL_iff _ _).mpr ⟨f', m', hi'⟩) (by rw [← hb]; exact (hasL_iff _ _).mpr ⟨f, m, hi⟩)).symm
        | inr m' => exact fb.ag f m f' m' i hi hi'
    · intro i
      rw [hfi, has_merge, ← ha, ← hb]
      simp [hasL]
    · intro i f m hi
      rw [hdim]
      cases List.mem_append.mp m with
      | inl m =>
        have : FI.has i (fi a) = true := by rw [← ha]; exact (hasL_iff _ _).mpr ⟨f, m, hi⟩
        simp [this, da i f m hi]
      | inr m =>
        have hb' : FI.has i (fi b) = true := by rw [← hb]; exact (hasL_iff _ _).mpr ⟨f, m, hi⟩
        by_cases h : FI.has i (fi a) = true
        · simp [h, db i f m hi, hd' i h hb']
        · simp [h, db i f m hi]
    · intro ρ s ι
      rw [prodVal_append, va, vb]
      simp [eval]
  | case2 e hne =>
    intro hw hs
    refine ⟨⟨by simpa using hw, by simpa using hs, ?_⟩, ?_, ?_, ?_⟩
    · intro f m f' m'
      simp only [List.mem_singleton] at m m'
      subst m; subst m'
      exact fun i _ _ => rfl
    · intro i; simp [hasL]
    · intro i f m _
      simp only [List.mem_singleton] at m
      subst m; rfl
    · intro ρ s ι; simp [prodVal]

/-! ### `makeProduct` -/

/-- what `_make_product(fs)` must be -/
structure ProdSpec (ρ : Env K) (fs : List Expr) (r : Expr) : Prop where
  ok : isUnsupported r = false
  wf : WF r = true
  sc : shape r = []
  has : ∀ i, FI.has i (fi r) = hasL i fs
  dim : ∀ i, hasL i fs = true → FI.dimOf i (fi r) = dimL i fs
  val : ∀ s ι, eval ρ s ι r [] = prodVal ρ s ι fs

theorem mpStep_none : ∀ xs : List Expr, xs.foldl mpStep none = none
  | [] => rfl
  | x :: xs => by simp [List.foldl_cons, mpStep, bindU, mpStep_none xs]

theorem mpStep_unsupported : ∀ xs : List Expr, xs.foldl mpStep (some unsupported) = some unsupported
  | [] => rfl
  | x :: xs => by
    have : mpStep (some unsupported) x = some unsupported := by simp [mpStep, bindU, isUnsupported, unsupported]
    simp [List.foldl_cons, this, mpStep_unsupported xs]

/-- once the accumulator is the marker the fold ends in the marker -/
theorem mpStep_marker (a : Expr) (ha : isUnsupported a = true) : ∀ xs : List Expr,
    ∃ a', xs.foldl mpStep (some a) = some a' ∧ isUnsupported a' = true
  | [] => ⟨a, rfl, ha⟩
  | x :: xs => by
    have : mpStep (some a) x = some unsupported := by simp [mpStep, bindU, ha]
    exact ⟨unsupported, by simp [List.foldl_cons, this, mpStep_unsupported xs], by simp [isUnsupported, unsupported]⟩

theorem makeProduct_fold (ρ : Env K) : ∀ (fs done : List Expr) (acc r : Expr), Factors (done ++ fs) → ProdSpec ρ done acc →
    fs.foldl mpStep (some acc) = some r → isUnsupported r = false → ProdSpec ρ (done ++ fs) r
  | [], done, acc, r, _, hs, h, _ => by
    simp only [List.foldl_nil, Option.some.injEq] at h
    subst h; simpa using hs
  | x :: xs, done, acc, r, hf, hs, h, hu => by
    simp only [List.foldl_cons] at h
    have hstep : mpStep (some acc) x = mkProduct acc x := by simp [mpStep, bindU, hs.ok]
    rw [hstep] at h
    cases hm : mkProduct acc x with
    | none => rw [hm, mpStep_none] at h; cases h
    | some acc1 =>
      rw [hm] at h
      by_cases hu1 : isUnsupported acc1 = true
      · obtain ⟨a', e', u'⟩ := mpStep_marker acc1 hu1 xs
        rw [e'] at h
        simp only [Option.some.injEq] at h; subst h
        rw [u'] at hu; cases hu
      · have hu1' : isUnsupported acc1 = false := by simpa using hu1
        have hxm : x ∈ done ++ x :: xs := by simp
        have wx := hf.wf x hxm
        have hag : DimsAgree (fi acc) (fi x) := by
          intro i hi hx
          rw [hs.has] at hi
          obtain ⟨f, m, hfi⟩ := (hasL_iff _ _).mp hi
          rw [hs.dim i hi, dimL_eq done (hf.sub (fun g mg => by simp [mg])) i f m hfi]
          exact hf.ag f (by simp [m]) x hxm i hfi hx
        obtain ⟨w1, s1, h1, d1⟩ := mkProduct_wf acc x acc1 hs.wf wx hag hm hu1'
        have fd : Factors (done ++ [x]) := hf.sub (fun g mg => by
          cases List.mem_append.mp mg with
          | inl m => simp [m]
          | inr m => simp only [List.mem_singleton] at m; subst m; simp)
        have spec1 : ProdSpec ρ (done ++ [x]) acc1 := by
          refine ⟨hu1', w1, s1, ?_, ?_, ?_⟩
          · intro i; rw [h1, hs.has]; simp [hasL]
          · intro i hi
            rw [d1]
            by_cases ha : FI.has i (fi acc) = true
            · simp only [ha, ↓reduceIte]
              rw [hs.has] at ha
              obtain ⟨f, m, hfi⟩ := (hasL_iff _ _).mp ha
              rw [hs.dim i ha, dimL_eq done (hf.sub (fun g mg => by simp [mg])) i f m hfi,
                dimL_eq (done ++ [x]) fd i f (by simp [m]) hfi]
            · simp only [ha, ↓reduceIte]
              have hx : FI.has i (fi x) = true := by
                obtain ⟨f, m, hfi⟩ := (hasL_iff _ _).mp hi
                cases List.mem_append.mp m with
                | inl m => exfalso; apply ha; rw [hs.has]; exact (hasL_iff _ _).mpr ⟨f, m, hfi⟩
                | inr m => simp only [List.mem_singleton] at m; subst m; exact hfi
              rw [dimL_eq (done ++ [x]) fd i x (by simp) hx]
              simp
          · intro s ι
            rw [(C05_mkProduct ρ s ι acc x acc1 hm hu1').1, hs.val, prodVal_append]
            simp [prodVal]
        have := makeProduct_fold ρ xs (done ++ [x]) acc1 r (by simpa using hf) spec1 h hu
        simpa using this

theorem makeProduct_spec (ρ : Env K) (fs : List Expr) (r : Expr) (hf : Factors fs) (h : makeProduct fs = some r)
    (hu : isUnsupported r = false) : ProdSpec ρ fs r := by
  cases fs with
  | nil => simp [makeProduct] at h
  | cons f fs =>
    simp only [makeProduct] at h
    by_cases hany : (f :: fs).any isUnsupported = true
    · rw [if_pos hany] at h
      simp only [Option.some.injEq] at h; subst h; simp [isUnsupported, unsupported] at hu
    · rw [if_neg hany] at h
      have hf0 : isUnsupported f = false := by
        simp only [List.any_cons, Bool.or_eq_true, not_or, Bool.not_eq_true] at hany
        exact hany.1
      have s0 : ProdSpec ρ [f] f := by
        refine ⟨hf0, hf.wf f (by simp), hf.sc f (by simp), fun i => by simp [hasL], fun i hi => ?_, fun s ι => by simp [prodVal]⟩
        have : FI.has i (fi f) = true := by simpa [hasL] using hi
        simp [dimL, this]
      have := makeProduct_fold ρ fs [f] f r (by simpa using hf) s0 h hu
      simpa using this

end UflVerif.C09
