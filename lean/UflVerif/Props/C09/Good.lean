/-
C09 — the fragment the whole-pass theorems speak about (`Good`): expressions as they are after derivative
expansion and removal of component tensors — literals, zeros, terminals, indexed terminals (possibly restricted),
sums, products, quotients, powers, absolute values, index sums, mathematical functions, restrictions — together
with a predicate on the nodes (admissible terminals, defined quotients and powers).  Every constructor the passes
call keeps an expression inside the fragment.
-/
import UflVerif.Props.C09.Basic

namespace UflVerif.C09
open UflVerif Expr C05 FIlemmas

/-- conditions on single nodes -/
structure NodePred where
  term : TermData → Prop
  div : Expr → Expr → Prop
  pow : Expr → Expr → Prop

/-- the terminal under an `Indexed` node: a terminal or a restricted terminal -/
def atomTerm : Expr → Option TermData
  | .term d => some d
  | .op .positiveRestricted _ [.term d] => some d
  | .op .negativeRestricted _ [.term d] => some d
  | _ => none

def Good (P : NodePred) : Expr → Prop
  | .int v => v ≠ 0
  | .real n d => n ≠ 0 ∧ d ≠ 0
  | .zero _ _ => True
  | .term d => P.term d
  | .op k _ args =>
    match k, args with
    | .indexed, [A, .mi _] => (match atomTerm A with | some d => P.term d | none => False)
    | .sum, [a, b] | .product, [a, b] => Good P a ∧ Good P b
    | .division, [a, b] => Good P a ∧ Good P b ∧ P.div a b
    | .power, [a, b] => Good P a ∧ Good P b ∧ P.pow a b
    | .abs, [a] | .positiveRestricted, [a] | .negativeRestricted, [a] => Good P a
    | .indexSum, [a, .mi [.free _]] => Good P a ∧ shape a = []
    | fnk, [a] => (mathName fnk).isSome = true ∧ Good P a
    | _, _ => False
  | _ => False

theorem good_mkLit (P : NodePred) (i : Bool) (q : ℚ) : Good P (mkLit i q) := by
  unfold mkLit; split
  · simp [Good]
  · rename_i hq
    split
    · simp only [Good, ne_eq, Rat.num_eq_zero]; exact hq
    · simp only [Good, ne_eq, Rat.num_eq_zero]; exact ⟨hq, q.den_ne_zero⟩

theorem good_product (P : NodePred) (x : List Nat) (a b : Expr) : Good P (.op .product x [a, b]) ↔ Good P a ∧ Good P b := by
  simp [Good]

theorem good_mkProduct (P : NodePred) (a b r : Expr) (ha : Good P a) (hb : Good P b) (h : mkProduct a b = some r)
    (hu : isUnsupported r = false) : Good P r := by
  unfold mkProduct at h
  split at h
  · cases h
  · split at h
    · simp only [Option.some.injEq] at h; subst h; simp [Good]
    · split at h
      · simp only [Option.some.injEq] at h; subst h; exact good_mkLit P _ _
      · split at h
        · simp only [Option.some.injEq] at h; subst h; simp [isUnsupported, unsupported] at hu
        · split at h
          · simp only [Option.some.injEq] at h; subst h; exact hb
          · simp only [Option.some.injEq] at h; subst h; exact (good_product P _ _ _).mpr ⟨ha, hb⟩
      · split at h
        · simp only [Option.some.injEq] at h; subst h; simp [isUnsupported, unsupported] at hu
        · split at h
          · simp only [Option.some.injEq] at h; subst h; exact ha
          · simp only [Option.some.injEq] at h; subst h; exact (good_product P _ _ _).mpr ⟨hb, ha⟩
      · split at h
        · simp only [Option.some.injEq] at h; subst h; simp [isUnsupported, unsupported] at hu
        · simp only [Option.some.injEq] at h; subst h
          cases sort2_perm a b with
          | inl e => rw [e]; exact (good_product P _ _ _).mpr ⟨ha, hb⟩
          | inr e => rw [e]; exact (good_product P _ _ _).mpr ⟨hb, ha⟩

theorem good_leaves (P : NodePred) : ∀ e : Expr, Good P e → ∀ f ∈ leaves e, Good P f := by
  intro e
  fun_induction leaves e with
  | case1 x a b iha ihb =>
    intro h f m
    have := (good_product P x a b).mp h
    cases List.mem_append.mp m with
    | inl m => exact iha this.1 f m
    | inr m => exact ihb this.2 f m
  | case2 e _ =>
    intro h f m
    simp only [List.mem_singleton] at m
    subst m; exact h

theorem good_fold (P : NodePred) : ∀ (fs : List Expr) (acc r : Expr), Good P acc → (∀ f ∈ fs, Good P f) →
    fs.foldl mpStep (some acc) = some r → isUnsupported r = false → Good P r
  | [], acc, r, ha, _, h, _ => by
    simp only [List.foldl_nil, Option.some.injEq] at h; subst h; exact ha
  | x :: xs, acc, r, ha, hf, h, hu => by
    simp only [List.foldl_cons] at h
    by_cases hua : isUnsupported acc = true
    · obtain ⟨a', e', u'⟩ := mpStep_marker acc hua (x :: xs)
      simp only [List.foldl_cons] at e'
      rw [e'] at h
      simp only [Option.some.injEq] at h; subst h
      rw [u'] at hu; cases hu
    · have hstep : mpStep (some acc) x = mkProduct acc x := by simp [mpStep, bindU, hua]
      rw [hstep] at h
      cases hm : mkProduct acc x with
      | none => rw [hm, mpStep_none] at h; cases h
      | some acc1 =>
        rw [hm] at h
        by_cases hu1 : isUnsupported acc1 = true
        · obtain ⟨a', e', u'⟩ := mpStep_marker acc1 hu1 xs
          rw [e'] at h
          simp only [Option.some.injEq] at h; subst h
          rw [u'] at hu; cases hu
        · exact good_fold P xs acc1 r (good_mkProduct P acc x acc1 ha (hf x (by simp)) hm (by simpa using hu1))
            (fun f m => hf f (by simp [m])) h hu

theorem good_makeProduct (P : NodePred) (fs : List Expr) (r : Expr) (hf : ∀ f ∈ fs, Good P f)
    (h : makeProduct fs = some r) (hu : isUnsupported r = false) : Good P r := by
  cases fs with
  | nil => simp [makeProduct] at h
  | cons f fs =>
    simp only [makeProduct] at h
    by_cases hany : (f :: fs).any isUnsupported = true
    · rw [if_pos hany] at h
      simp only [Option.some.injEq] at h; subst h; simp [isUnsupported, unsupported] at hu
    · rw [if_neg hany] at h
      exact good_fold P fs f r (hf f (by simp)) (fun g m => hf g (by simp [m])) h hu

theorem good_mkIndexSum (P : NodePred) : ∀ (a : Expr) (j : Nat) (r : Expr), Good P a → WF a = true → shape a = [] →
    mkIndexSum a j = some r → isUnsupported r = false → Good P r := by
  intro a j
  fun_induction mkIndexSum a j with
  | case1 sh f j hj => intro r _ _ _ h _; simp only [Option.some.injEq] at h; subst h; simp [Good]
  | case2 sh f j hj => intro r _ _ _ h; cases h
  | case3 x p q j hp ih =>
    intro r hg hw _ h hu
    have hpq := (good_product P x p q).mp hg
    simp only [WF, Bool.and_eq_true, List.isEmpty_iff] at hw
    obtain ⟨sb, hsb, usb, hm⟩ := bindU_some _ _ r h hu
    exact good_mkProduct P p sb r hpq.1 (ih sb hpq.2 hw.1.1.1.2 hw.1.2 hsb usb) hm hu
  | case4 x p q j hp hq ih =>
    intro r hg hw _ h hu
    have hpq := (good_product P x p q).mp hg
    simp only [WF, Bool.and_eq_true, List.isEmpty_iff] at hw
    obtain ⟨sa, hsa, usa, hm⟩ := bindU_some _ _ r h hu
    exact good_mkProduct P q sa r hpq.2 (ih sa hpq.1 hw.1.1.1.1 hw.1.1.2 hsa usa) hm hu
  | case5 x p q j hp hq =>
    intro r hg _ hs h _
    simp only [Option.some.injEq] at h; subst h
    simp only [Good]
    exact ⟨by simpa [Good] using hg, hs⟩
  | case6 e j hne1 hne2 hj =>
    intro r hg _ hs h _
    simp only [Option.some.injEq] at h; subst h
    simp only [Good]
    exact ⟨hg, hs⟩
  | case7 e j hne1 hne2 hj => intro r _ _ _ h; cases h

end UflVerif.C09
