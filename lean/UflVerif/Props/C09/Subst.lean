/-
C09 — `IndexReplacer` (`replIdx`, the model of C10) on the fragment: replacing the index k by a (an index or a fixed
index) yields an expression whose value is the value of the original with k set to the value of a, provided the
expression binds neither k nor a.  Used by `IdentityEliminator.match`.
-/
import UflVerif.Props.C09.Generic
import UflVerif.Props.C09.RC
import UflVerif.Props.C09.JC

namespace UflVerif.C09
open UflVerif Expr C05 FIlemmas Finset

variable {K : Type} [Field K] [CharZero K]

/-! ### sorting and de-duplicating (id, extent) pairs: `unique_sorted_indices(sorted(fi))` -/

def LexLE (p q : Nat × Nat) : Prop := p.1 < q.1 ∨ (p.1 = q.1 ∧ p.2 ≤ q.2)

theorem ins_mem (p : Nat × Nat) : ∀ (l : List (Nat × Nat)) (x : Nat × Nat), x ∈ sortPairs.ins p l ↔ x = p ∨ x ∈ l
  | [], x => by simp [sortPairs.ins]
  | q :: qs, x => by
    unfold sortPairs.ins
    split
    · simp
    · simp only [List.mem_cons, ins_mem p qs x]
      constructor
      · rintro (h | h | h)
        · exact Or.inr (Or.inl h)
        · exact Or.inl h
        · exact Or.inr (Or.inr h)
      · rintro (h | h | h)
        · exact Or.inr (Or.inl h)
        · exact Or.inl h
        · exact Or.inr (Or.inr h)

theorem ins_sorted (p : Nat × Nat) : ∀ (l : List (Nat × Nat)), l.Pairwise LexLE → (sortPairs.ins p l).Pairwise LexLE
  | [], _ => by simp [sortPairs.ins]
  | q :: qs, h => by
    have hh := List.pairwise_cons.mp h
    unfold sortPairs.ins
    split
    · rename_i hc
      have hpq : LexLE p q := by
        simp only [Bool.or_eq_true, decide_eq_true_eq, Bool.and_eq_true, beq_iff_eq] at hc
        exact hc
      refine List.pairwise_cons.mpr ⟨?_, h⟩
      intro x hx
      cases List.mem_cons.mp hx with
      | inl e => rw [e]; exact hpq
      | inr e =>
        have hqx := hh.1 x e
        unfold LexLE at hpq hqx ⊢
        rcases hpq with h1 | ⟨h1, h2⟩ <;> rcases hqx with h3 | ⟨h3, h4⟩
        · left; omega
        · left; omega
        · left; omega
        · right; exact ⟨by omega, by omega⟩
    · rename_i hc
      have hqp : LexLE q p := by
        simp only [Bool.or_eq_true, decide_eq_true_eq, Bool.and_eq_true, beq_iff_eq, not_or, not_and, not_lt, not_le] at hc
        unfold LexLE
        by_cases h1 : q.1 < p.1
        · exact Or.inl h1
        · have : p.1 = q.1 := by omega
          exact Or.inr ⟨this.symm, by have := hc.2 this; omega⟩
      refine List.pairwise_cons.mpr ⟨?_, ins_sorted p qs hh.2⟩
      intro x hx
      rcases (ins_mem p qs x).mp hx with e | e
      · rw [e]; exact hqp
      · exact hh.1 x e

theorem sortPairs_foldl_mem (x : Nat × Nat) : ∀ (l acc : List (Nat × Nat)),
    x ∈ l.foldl (fun acc p => sortPairs.ins p acc) acc ↔ x ∈ l ∨ x ∈ acc
  | [], acc => by simp
  | p :: ps, acc => by
    simp only [List.foldl_cons, sortPairs_foldl_mem x ps, ins_mem, List.mem_cons]
    tauto

theorem sortPairs_mem (l : List (Nat × Nat)) (x : Nat × Nat) : x ∈ sortPairs l ↔ x ∈ l := by
  unfold sortPairs; rw [sortPairs_foldl_mem]; simp

theorem sortPairs_foldl_sorted : ∀ (l acc : List (Nat × Nat)), acc.Pairwise LexLE →
    (l.foldl (fun acc p => sortPairs.ins p acc) acc).Pairwise LexLE
  | [], acc, h => h
  | p :: ps, acc, h => by simp only [List.foldl_cons]; exact sortPairs_foldl_sorted ps _ (ins_sorted p acc h)

theorem sortPairs_sorted (l : List (Nat × Nat)) : (sortPairs l).Pairwise LexLE := by
  unfold sortPairs; exact sortPairs_foldl_sorted l [] List.Pairwise.nil

/-- de-duplication of a lexicographically sorted list: same members, strictly sorted by id -/
theorem uniqueSorted_spec : ∀ (l l' : List (Nat × Nat)), l.Pairwise LexLE → uniqueSorted l = some l' →
    Sorted l' ∧ (∀ x, x ∈ l' ↔ x ∈ l) := by
  intro l
  induction l using uniqueSorted.induct with
  | case1 => intro l' _ h; simp only [uniqueSorted, Option.some.injEq] at h; subst h; exact ⟨List.Pairwise.nil, fun _ => Iff.rfl⟩
  | case2 p => intro l' _ h; simp only [uniqueSorted, Option.some.injEq] at h; subst h; exact ⟨by simp [Sorted], fun _ => Iff.rfl⟩
  | case3 p q rest h1 h2 ih =>
    intro l' hs h
    rw [uniqueSorted, if_pos h1, if_pos h2] at h
    have e1 : p.1 = q.1 := by simpa using h1
    have e2 : p.2 = q.2 := by simpa using h2
    have epq : p = q := Prod.ext e1 e2
    have hs' : (p :: rest).Pairwise LexLE := by
      have hh := List.pairwise_cons.mp hs
      exact List.pairwise_cons.mpr ⟨fun x hx => hh.1 x (by simp [hx]), (List.pairwise_cons.mp hh.2).2⟩
    obtain ⟨s1, m1⟩ := ih l' hs' h
    refine ⟨s1, fun x => ?_⟩
    rw [m1, ← epq]; simp
  | case4 p q rest h1 h2 =>
    intro l' _ h
    rw [uniqueSorted, if_pos h1, if_neg h2] at h; cases h
  | case5 p q rest h1 ih =>
    intro l' hs h
    rw [uniqueSorted, if_neg h1] at h
    have hh := List.pairwise_cons.mp hs
    cases hr : uniqueSorted (q :: rest) with
    | none => rw [hr] at h; simp at h
    | some r' =>
      rw [hr] at h
      simp only [Option.map_some, Option.some.injEq] at h; subst h
      obtain ⟨s1, m1⟩ := ih r' hh.2 hr
      have hne : p.1 ≠ q.1 := by simpa using h1
      refine ⟨List.pairwise_cons.mpr ⟨?_, s1⟩, fun x => by simp [m1]⟩
      intro x hx
      have hx' := (m1 x).mp hx
      have hpq := hh.1 q (by simp)
      have hpx := hh.1 x hx'
      -- p < q strictly in id, and q ≤ x
      have hqx : q.1 ≤ x.1 := by
        cases List.mem_cons.mp hx' with
        | inl e => rw [e]
        | inr e =>
          have := (List.pairwise_cons.mp hh.2).1 x e
          unfold LexLE at this; omega
      unfold LexLE at hpq
      omega


/-! ### the free indices after replacing k by a -/

/-- `f'` is `f` with k renamed to a (dropped when a is a fixed index) -/
structure SubFI (k : Nat) (a : Idx) (f f' : FI) : Prop where
  has : ∀ i, FI.has i f' = ((FI.has i f && decide (i ≠ k)) || (FI.has k f && (a == .free i)))
  dim : ∀ i, FI.has i f = true → i ≠ k → FI.dimOf i f' = FI.dimOf i f
  dimk : ∀ i, FI.has k f = true → a = .free i → FI.dimOf i f' = FI.dimOf k f

/-- the extents of k and of the replacement index are both n -/
def Dn (k : Nat) (a : Idx) (n : Nat) (f : FI) : Prop :=
  (FI.has k f = true → FI.dimOf k f = n) ∧ (∀ c, a = .free c → FI.has c f = true → FI.dimOf c f = n)

theorem fimap_get (k : Nat) (a : Idx) (c : Nat) : FiMap.get [(k, a)] c = if k = c then some a else none := by
  unfold FiMap.get
  by_cases h : k = c
  · subst h; simp
  · have : (k == c) = false := by simpa using h
    simp [List.find?, this, h]

theorem replZero_spec (k : Nat) (a : Idx) (sh : List Nat) (f : FI) (z : Expr) (hs : Sorted f)
    (h : replZero [(k, a)] sh f = some z) : ∃ f', z = .zero sh f' ∧ Sorted f' ∧ SubFI k a f f' := by
  unfold replZero at h
  have htouch : FiMap.touches [(k, a)] (f.map (·.1)) = FI.has k f := by
    unfold FiMap.touches FI.has
    rw [List.any_map]
    congr 1
    funext p
    simp only [Function.comp, fimap_get]
    by_cases hp : k = p.1
    · simp [hp]
    · have : ¬ p.1 = k := fun e => hp e.symm
      simp [hp, this]
  rw [htouch] at h
  by_cases hk : FI.has k f = true
  · simp only [hk, Bool.not_true, Bool.false_eq_true, ↓reduceIte] at h
    -- members of the renamed list
    have hmem : ∀ x : Nat × Nat, x ∈ (f.filterMap fun p => match ((FiMap.get [(k, a)] p.1).getD (.free p.1)) with
        | .free c => some (c, p.2)
        | .fixed _ => none) ↔
        ∃ p ∈ f, (p.1 ≠ k ∧ x = p) ∨ (p.1 = k ∧ a = .free x.1 ∧ x.2 = p.2) := by
      intro x
      simp only [List.mem_filterMap, fimap_get]
      constructor
      · rintro ⟨p, mp, hp⟩
        refine ⟨p, mp, ?_⟩
        by_cases hpk : k = p.1
        · simp only [hpk, ↓reduceIte, Option.getD_some] at hp
          cases ha : a with
          | fixed v => rw [ha] at hp; simp at hp
          | free c =>
            rw [ha] at hp
            simp only [Option.some.injEq] at hp
            right; exact ⟨hpk.symm, by rw [← hp], by rw [← hp]⟩
        · simp only [hpk, ↓reduceIte, Option.getD_none, Option.some.injEq] at hp
          left; exact ⟨fun e => hpk e.symm, hp.symm⟩
      · rintro ⟨p, mp, hp⟩
        refine ⟨p, mp, ?_⟩
        rcases hp with ⟨h1, h2⟩ | ⟨h1, h2, h3⟩
        · have : ¬ k = p.1 := fun e => h1 e.symm
          simp [this, h2]
        · simp only [h1, ↓reduceIte, Option.getD_some, h2]
          exact congrArg some (Prod.ext rfl h3.symm)
    generalize hfi : (f.filterMap fun p => match ((FiMap.get [(k, a)] p.1).getD (.free p.1)) with
        | .free c => some (c, p.2)
        | .fixed _ => none) = fil at h hmem
    cases hu : uniqueSorted (sortPairs fil) with
    | none => rw [hu] at h; simp at h
    | some l' =>
      rw [hu] at h
      obtain ⟨sl, ml⟩ := uniqueSorted_spec _ l' (sortPairs_sorted fil) hu
      have hz : z = .zero sh l' := by
        cases l' with
        | nil => simp only [Option.some.injEq] at h; exact h.symm
        | cons x xs => simp only [Option.some.injEq] at h; exact h.symm
      have hm : ∀ x, x ∈ l' ↔ ∃ p ∈ f, (p.1 ≠ k ∧ x = p) ∨ (p.1 = k ∧ a = .free x.1 ∧ x.2 = p.2) := by
        intro x; rw [ml, sortPairs_mem, hmem]
      obtain ⟨pk, mpk, epk⟩ := (has_iff k f).mp hk
      refine ⟨l', hz, sl, ⟨?_, ?_, ?_⟩⟩
      · intro i
        rw [Bool.eq_iff_iff, has_iff]
        simp only [Bool.or_eq_true, Bool.and_eq_true, decide_eq_true_eq, beq_iff_eq, hk, true_and]
        constructor
        · rintro ⟨x, mx, ex⟩
          obtain ⟨p, mp, hp⟩ := (hm x).mp mx
          rcases hp with ⟨h1, h2⟩ | ⟨h1, h2, h3⟩
          · left; subst h2; exact ⟨(has_iff i f).mpr ⟨x, mp, ex⟩, by rw [← ex]; exact h1⟩
          · right; rw [h2, ex]
        · rintro (⟨h1, h2⟩ | h1)
          · obtain ⟨p, mp, ep⟩ := (has_iff i f).mp h1
            exact ⟨p, (hm p).mpr ⟨p, mp, Or.inl ⟨by rw [ep]; exact h2, rfl⟩⟩, ep⟩
          · exact ⟨(i, pk.2), (hm (i, pk.2)).mpr ⟨pk, mpk, Or.inr ⟨epk, h1, rfl⟩⟩, rfl⟩
      · intro i hi hik
        obtain ⟨p, mp, ep⟩ := (has_iff i f).mp hi
        have : p ∈ l' := (hm p).mpr ⟨p, mp, Or.inl ⟨by rw [ep]; exact hik, rfl⟩⟩
        rw [← ep, dimOf_mem l' sl p this, dimOf_mem f hs p mp]
      · intro i _ hai
        have : (i, pk.2) ∈ l' := (hm (i, pk.2)).mpr ⟨pk, mpk, Or.inr ⟨epk, hai, rfl⟩⟩
        have e1 := dimOf_mem l' sl (i, pk.2) this
        simp only at e1
        rw [e1, ← epk, dimOf_mem f hs pk mpk]
  · have hk' : FI.has k f = false := by simpa using hk
    simp only [hk', Bool.not_false, ↓reduceIte, Option.some.injEq] at h
    refine ⟨f, h.symm, hs, ⟨fun i => ?_, fun _ _ _ => rfl, fun i hh => by rw [hk'] at hh; cases hh⟩⟩
    rw [hk']
    by_cases hik : i = k
    · subst hik; simp [hk']
    · simp [hik]


/-! ### extents of the indices of an `Indexed` node -/

theorem insertChecked_has_dim (c d : Nat) : ∀ (f f' : FI), FI'.insertChecked (c, d) f = some f' → Sorted f →
    FI.has c f = true → FI.dimOf c f = d
  | [], f', _, _, hh => by simp [FI.has] at hh
  | q :: qs, f', h, hs, hh => by
    have hs' := List.pairwise_cons.mp hs
    unfold FI'.insertChecked at h
    split at h
    · rename_i hlt
      exfalso
      have : FI.has c (q :: qs) = false := by
        apply not_has_of_lt
        intro x hx
        cases List.mem_cons.mp hx with
        | inl e => rw [e]; exact hlt
        | inr e => exact Nat.lt_trans hlt (hs'.1 x e)
      rw [this] at hh; cases hh
    · split at h
      · rename_i heq
        split at h
        · rename_i h2
          rw [dimOf_cons]
          simp only at heq h2
          simp [heq.symm, h2.symm]
        · cases h
      · rename_i hlt hne
        simp only [Option.map_eq_some_iff] at h
        obtain ⟨g, hg, _⟩ := h
        simp only at hne
        have hne' : ¬ q.1 = c := fun e => hne e.symm
        rw [dimOf_cons, if_neg hne']
        apply insertChecked_has_dim c d qs g hg hs'.2
        simpa [FI.has, hne'] using hh

theorem insertChecked_dim (c d : Nat) (f f' : FI) (h : FI'.insertChecked (c, d) f = some f') (hs : Sorted f) :
    FI.dimOf c f' = d := by
  rw [insertChecked_eq _ _ _ h, dimOf_insert _ _ _ hs]
  by_cases hh : FI.has c f = true
  · simp only [hh, Bool.true_eq_false, and_false, ↓reduceIte]
    exact insertChecked_has_dim c d f f' h hs hh
  · simp [hh]

theorem indexedFI_fold_dims (sh : List Nat) : ∀ (ps : List (Idx × Nat)) (f f' : FI), Sorted f → (∀ p ∈ ps, p.2 < sh.length) →
    ps.foldl (fun acc p => match acc, p.1 with
      | none, _ => none
      | some f, .free c => (match sh[p.2]? with
          | some d => FI'.insertChecked (c, d) f
          | none => none)
      | some f, .fixed _ => some f) (some f) = some f' →
    Sorted f' ∧ (∀ c, FI.has c f = true → FI.has c f' = true ∧ FI.dimOf c f' = FI.dimOf c f) ∧
    (∀ q ∈ ps, ∀ c, q.1 = .free c → FI.dimOf c f' = sh.getD q.2 0)
  | [], f, f', hs, _, h => by
    simp only [List.foldl_nil, Option.some.injEq] at h; subst h
    exact ⟨hs, fun c hc => ⟨hc, rfl⟩, fun q mq => by simp at mq⟩
  | (.fixed v, kk) :: ps, f, f', hs, hr, h => by
    simp only [List.foldl_cons] at h
    obtain ⟨s1, h1, h2⟩ := indexedFI_fold_dims sh ps f f' hs (fun p hp => hr p (by simp [hp])) h
    refine ⟨s1, h1, fun q mq c hq => ?_⟩
    cases List.mem_cons.mp mq with
    | inl e => subst e; cases hq
    | inr e => exact h2 q e c hq
  | (.free c0, kk) :: ps, f, f', hs, hr, h => by
    simp only [List.foldl_cons] at h
    have hk : kk < sh.length := hr (.free c0, kk) (by simp)
    have hget : sh[kk]? = some (sh.getD kk 0) := by simp [List.getD, hk]
    simp only [hget] at h
    cases hi : FI'.insertChecked (c0, sh.getD kk 0) f with
    | none =>
      rw [hi] at h
      have : ∀ (qs : List (Idx × Nat)), qs.foldl (fun acc p => match acc, p.1 with
          | none, _ => none
          | some f, .free c => (match sh[p.2]? with
              | some d => FI'.insertChecked (c, d) f
              | none => none)
          | some f, .fixed _ => some f) (none : Option FI) = none := by
        intro qs; induction qs with
        | nil => rfl
        | cons q qs ih => simp only [List.foldl_cons]; exact ih
      rw [this] at h; cases h
    | some g =>
      rw [hi] at h
      have eg := insertChecked_eq _ _ _ hi
      have sg : Sorted g := by rw [eg]; exact insert_sorted _ f hs
      obtain ⟨s1, h1, h2⟩ := indexedFI_fold_dims sh ps g f' sg (fun p hp => hr p (by simp [hp])) h
      have hgc : FI.has c0 g = true := by rw [eg, has_insert]; simp
      refine ⟨s1, fun c hc => ?_, fun q mq c hq => ?_⟩
      · have hcg : FI.has c g = true := by rw [eg, has_insert, hc]; simp
        obtain ⟨a1, a2⟩ := h1 c hcg
        refine ⟨a1, ?_⟩
        rw [a2, eg, dimOf_insert _ _ _ hs]
        simp [hc]
      · cases List.mem_cons.mp mq with
        | inl e =>
          subst e
          simp only [Idx.free.injEq] at hq; subst hq
          rw [(h1 c0 hgc).2, insertChecked_dim c0 _ f g hi hs]
        | inr e => exact h2 q e c hq

/-- in a well-formed `A[is]` with A free of indices, the index at position p has the extent of the p-th axis -/
theorem indexed_pos_dim (x : List Nat) (A : Expr) (is : List Idx) (hw : WF (.op .indexed x [A, .mi is]) = true)
    (hfA : fi A = []) (p c : Nat) (hp : is[p]? = some (.free c)) :
    FI.dimOf c (fi (.op .indexed x [A, .mi is])) = (shape A).getD p 0 := by
  simp only [WF, Bool.and_eq_true, beq_iff_eq] at hw
  obtain ⟨⟨⟨wa, hl⟩, _⟩, hsome⟩ := hw
  obtain ⟨f', hf'⟩ := Option.isSome_iff_exists.mp hsome
  have e1 : f' = fi (.op .indexed [] [A, .mi is]) := indexedFI_spec A is f' hl hf'
  have e2 : fi (.op .indexed x [A, .mi is]) = f' := by rw [e1]; simp [fi]
  rw [e2]
  unfold indexedFI at hf'
  rw [hfA] at hf'
  obtain ⟨_, _, h2⟩ := indexedFI_fold_dims (shape A) is.zipIdx [] f' List.Pairwise.nil
    (fun q hq => by have := zipIdx_lt is q hq; omega) hf'
  have hmem : (Idx.free c, p) ∈ is.zipIdx := by
    rw [List.mem_zipIdx_iff_getElem?]; simpa using hp
  exact h2 (.free c, p) hmem c rfl


/-! ### `SubFI` through merge and remove -/

theorem subFI_unique (k : Nat) (a : Idx) (n : Nat) (f f1 f2 : FI) (h1 : SubFI k a f f1) (h2 : SubFI k a f f2)
    (s1 : Sorted f1) (s2 : Sorted f2) : f1 = f2 := by
  apply fi_ext f1 f2 s1 s2
  · intro i; rw [h1.has, h2.has]
  · intro i
    by_cases hi : FI.has i f1 = true
    · have hi' := hi
      rw [h1.has] at hi'
      simp only [Bool.or_eq_true, Bool.and_eq_true, decide_eq_true_eq, beq_iff_eq] at hi'
      rcases hi' with ⟨a1, a2⟩ | ⟨a1, a2⟩
      · rw [h1.dim i a1 a2, h2.dim i a1 a2]
      · rw [h1.dimk i a1 a2, h2.dimk i a1 a2]
    · have hi1 : FI.has i f1 = false := by simpa using hi
      have hi2 : FI.has i f2 = false := by rw [h2.has, ← h1.has]; exact hi1
      rw [dim_nothas _ _ hi1, dim_nothas _ _ hi2]

theorem dn_merge (k : Nat) (a : Idx) (n : Nat) (fa fb : FI) (sa : Sorted fa) (hd : DimsAgree fa fb)
    (h : Dn k a n (FI.merge fa fb)) : Dn k a n fa ∧ Dn k a n fb := by
  have key : ∀ i, FI.has i (FI.merge fa fb) = true → FI.dimOf i (FI.merge fa fb) = n →
      (FI.has i fa = true → FI.dimOf i fa = n) ∧ (FI.has i fb = true → FI.dimOf i fb = n) := by
    intro i _ hn
    rw [merge_dim fa fb sa i] at hn
    constructor
    · intro ha; simpa [ha] using hn
    · intro hb
      by_cases ha : FI.has i fa = true
      · rw [if_pos ha] at hn; rw [← hd i ha hb]; exact hn
      · rw [if_neg ha] at hn; exact hn
  constructor
  · refine ⟨fun hk => ?_, fun c hc hh => ?_⟩
    · have hm : FI.has k (FI.merge fa fb) = true := by rw [has_merge, hk]; rfl
      exact (key k hm (h.1 hm)).1 hk
    · have hm : FI.has c (FI.merge fa fb) = true := by rw [has_merge, hh]; rfl
      exact (key c hm (h.2 c hc hm)).1 hh
  · refine ⟨fun hk => ?_, fun c hc hh => ?_⟩
    · have hm : FI.has k (FI.merge fa fb) = true := by rw [has_merge, hk]; simp
      exact (key k hm (h.1 hm)).2 hk
    · have hm : FI.has c (FI.merge fa fb) = true := by rw [has_merge, hh]; simp
      exact (key c hm (h.2 c hc hm)).2 hh

/-- the extent, after the replacement, of an index of the renamed list -/
theorem subFI_dim_n (k : Nat) (a : Idx) (n : Nat) (f f' : FI) (h : SubFI k a f f') (hn : Dn k a n f) (i : Nat)
    (hai : a = .free i) (hi : FI.has i f' = true) : FI.dimOf i f' = n := by
  have hi' := hi
  rw [h.has] at hi'
  simp only [Bool.or_eq_true, Bool.and_eq_true, decide_eq_true_eq, beq_iff_eq] at hi'
  rcases hi' with ⟨a1, a2⟩ | ⟨a1, _⟩
  · rw [h.dim i a1 a2]; exact hn.2 i hai a1
  · rw [h.dimk i a1 hai]; exact hn.1 a1

theorem subFI_merge (k : Nat) (a : Idx) (n : Nat) (hak : a ≠ .free k) (fa fb fa' fb' : FI) (sa : Sorted fa) (sa' : Sorted fa')
    (hd : DimsAgree fa fb) (na : Dn k a n fa) (nb : Dn k a n fb) (ha : SubFI k a fa fa') (hb : SubFI k a fb fb') :
    SubFI k a (FI.merge fa fb) (FI.merge fa' fb') ∧ DimsAgree fa' fb' := by
  have agree : DimsAgree fa' fb' := by
    intro i h1 h2
    have h1' := h1; have h2' := h2
    rw [ha.has] at h1'; rw [hb.has] at h2'
    simp only [Bool.or_eq_true, Bool.and_eq_true, decide_eq_true_eq, beq_iff_eq] at h1' h2'
    rcases h1' with ⟨a1, a2⟩ | ⟨a1, a2⟩ <;> rcases h2' with ⟨b1, b2⟩ | ⟨b1, b2⟩
    · rw [ha.dim i a1 a2, hb.dim i b1 b2]; exact hd i a1 b1
    · rw [ha.dim i a1 a2, hb.dimk i b1 b2, na.2 i b2 a1, nb.1 b1]
    · rw [ha.dimk i a1 a2, hb.dim i b1 b2, na.1 a1, nb.2 i a2 b1]
    · rw [ha.dimk i a1 a2, hb.dimk i b1 b2, na.1 a1, nb.1 b1]
  refine ⟨⟨?_, ?_, ?_⟩, agree⟩
  · intro i
    rw [has_merge, has_merge, has_merge, ha.has, hb.has, Bool.eq_iff_iff]
    simp only [Bool.or_eq_true, Bool.and_eq_true, decide_eq_true_eq, beq_iff_eq]
    tauto
  · intro i hi hik
    rw [merge_dim fa' fb' sa' i, merge_dim fa fb sa i]
    rw [has_merge] at hi
    by_cases x1 : FI.has i fa = true
    · have : FI.has i fa' = true := by rw [ha.has]; simp [x1, hik]
      rw [if_pos this, if_pos x1, ha.dim i x1 hik]
    · have x2 : FI.has i fb = true := by simpa [x1] using hi
      rw [if_neg x1]
      by_cases y : FI.has i fa' = true
      · rw [if_pos y]
        have y' := y
        rw [ha.has] at y'
        simp only [Bool.or_eq_true, Bool.and_eq_true, decide_eq_true_eq, beq_iff_eq] at y'
        rcases y' with ⟨a1, _⟩ | ⟨a1, a2⟩
        · exact absurd a1 x1
        · rw [ha.dimk i a1 a2, na.1 a1, nb.2 i a2 x2]
      · rw [if_neg y, hb.dim i x2 hik]
  · intro i hk hai
    have hm : FI.has i (FI.merge fa' fb') = true := by
      rw [has_merge, ha.has, hb.has]
      rw [has_merge] at hk
      by_cases x3 : FI.has k fa = true
      · simp [x3, hai]
      · have x4 : FI.has k fb = true := by simpa [x3] using hk
        simp [x4, hai]
    have hnm : FI.dimOf k (FI.merge fa fb) = n := by
      rw [merge_dim fa fb sa k]
      rw [has_merge] at hk
      by_cases x3 : FI.has k fa = true
      · rw [if_pos x3]; exact na.1 x3
      · rw [if_neg x3]; exact nb.1 (by simpa [x3] using hk)
    rw [hnm, merge_dim fa' fb' sa' i]
    by_cases y : FI.has i fa' = true
    · rw [if_pos y]; exact subFI_dim_n k a n fa fa' ha na i hai y
    · rw [if_neg y]
      have y2 : FI.has i fb' = true := by rw [has_merge] at hm; simpa [y] using hm
      exact subFI_dim_n k a n fb fb' hb nb i hai y2

theorem subFI_remove (k : Nat) (a : Idx) (j : Nat) (hjk : j ≠ k) (haj : a ≠ .free j) (f f' : FI) (h : SubFI k a f f') :
    SubFI k a (FI.remove j f) (FI.remove j f') := by
  refine ⟨?_, ?_, ?_⟩
  · intro i
    rw [has_remove, has_remove, has_remove, h.has]
    by_cases hij : i = j
    · subst hij
      have : (a == Idx.free i) = false := by simpa using haj
      simp [this]
    · have hkj : k ≠ j := fun e => hjk e.symm
      simp [hij, hkj]
  · intro i hi hik
    rw [has_remove] at hi
    simp only [Bool.and_eq_true, decide_eq_true_eq] at hi
    rw [dimOf_remove i j hi.2, dimOf_remove i j hi.2, h.dim i hi.1 hik]
  · intro i hk hai
    rw [has_remove] at hk
    simp only [Bool.and_eq_true, decide_eq_true_eq] at hk
    have hij : i ≠ j := fun e => haj (by rw [hai, e])
    rw [dimOf_remove i j hij, dimOf_remove k j hk.2, h.dimk i hk.1 hai]

theorem dn_remove (k : Nat) (a : Idx) (n j : Nat) (hjk : j ≠ k) (haj : a ≠ .free j) (f : FI) (h : Dn k a n (FI.remove j f)) :
    Dn k a n f := by
  refine ⟨fun hk => ?_, fun c hc hh => ?_⟩
  · have := h.1 (by rw [has_remove]; simp [hk]; exact fun e => hjk e.symm)
    rwa [dimOf_remove k j (fun e => hjk e.symm)] at this
  · have hcj : c ≠ j := fun e => haj (by rw [hc, e])
    have := h.2 c hc (by rw [has_remove]; simp [hh, hcj])
    rwa [dimOf_remove c j hcj] at this


/-! ### plain nodes over equivalent operands -/

theorem sum_congr (ρ : Env K) (x y : List Nat) (a b a' b' : Expr) (hw : WF (.op .sum x [a, b]) = true)
    (ea : Equiv ρ a a') (eb : Equiv ρ b b') : Equiv ρ (.op .sum x [a, b]) (.op .sum y [a', b']) := by
  simp only [WF, Bool.and_eq_true, beq_iff_eq] at hw
  obtain ⟨⟨⟨wa, wb⟩, hs⟩, hf⟩ := hw
  refine ⟨by simp [WF, ea.wf, eb.wf, ea.shape, eb.shape, ea.fi, eb.fi, hs, hf], by simp [shape, ea.shape], by simp [fi, ea.fi], ?_⟩
  intro s ι c hr hc
  have hfi : fi (.op .sum x [a, b]) = fi a := by simp [fi]
  have hsh : shape (.op .sum x [a, b]) = shape a := by simp [shape]
  rw [hfi] at hr; rw [hsh] at hc
  simp only [eval]
  rw [ea.val s ι c hr hc, eb.val s ι c (hf ▸ hr) (hs ▸ hc)]

theorem division_congr (ρ : Env K) (x y : List Nat) (a b a' b' : Expr) (hw : WF (.op .division x [a, b]) = true)
    (ea : Equiv ρ a a') (eb : Equiv ρ b b') : Equiv ρ (.op .division x [a, b]) (.op .division y [a', b']) := by
  simp only [WF, Bool.and_eq_true, List.isEmpty_iff] at hw
  obtain ⟨⟨⟨wa, wb⟩, sa⟩, tb⟩ := hw
  obtain ⟨sb, fb⟩ := (trueScalar_iff b).mp tb
  have tb' : trueScalar b' = true := by rw [trueScalar_equiv ρ b b' eb]; exact tb
  refine ⟨by simp [WF, ea.wf, eb.wf, ea.shape, sa, tb'], by simp [shape], by simp [fi, ea.fi], ?_⟩
  intro s ι c hr hc
  have hc0 : c = [] := by
    have : shape (.op .division x [a, b]) = [] := by simp [shape]
    rw [this] at hc; simpa using hc
  subst hc0
  have hfi : fi (.op .division x [a, b]) = fi a := by simp [fi]
  rw [hfi] at hr
  simp only [eval]
  rw [ea.val s ι [] hr (by rw [sa]), equiv_scalar_val ρ b b' eb tb]

theorem power_congr (ρ : Env K) (x y : List Nat) (a b a' b' : Expr) (hw : WF (.op .power x [a, b]) = true)
    (ea : Equiv ρ a a') (eb : Equiv ρ b b') : Equiv ρ (.op .power x [a, b]) (.op .power y [a', b']) := by
  simp only [WF, Bool.and_eq_true] at hw
  obtain ⟨⟨⟨wa, wb⟩, ta⟩, tb⟩ := hw
  have ta' : trueScalar a' = true := by rw [trueScalar_equiv ρ a a' ea]; exact ta
  have tb' : trueScalar b' = true := by rw [trueScalar_equiv ρ b b' eb]; exact tb
  refine ⟨by simp [WF, ea.wf, eb.wf, ta', tb'], by simp [shape], by simp [fi, ea.fi], ?_⟩
  intro s ι c _ hc
  have hc0 : c = [] := by
    have : shape (.op .power x [a, b]) = [] := by simp [shape]
    rw [this] at hc; simpa using hc
  subst hc0
  simp only [eval]
  rw [equiv_scalar_val ρ a a' ea ta, equiv_scalar_val ρ b b' eb tb]

theorem abs_congr (ρ : Env K) (x y : List Nat) (a a' : Expr) (hw : WF (.op .abs x [a]) = true)
    (ea : Equiv ρ a a') : Equiv ρ (.op .abs x [a]) (.op .abs y [a']) := by
  refine ⟨by simp [WF, ea.wf], by simp [shape, ea.shape], by simp [fi, ea.fi], ?_⟩
  intro s ι c hr hc
  have hfi : fi (.op .abs x [a]) = fi a := by simp [fi]
  have hsh : shape (.op .abs x [a]) = shape a := by simp [shape]
  rw [hfi] at hr; rw [hsh] at hc
  simp only [eval]
  rw [ea.val s ι c hr hc]

theorem indexSum_congr (ρ : Env K) (x y : List Nat) (a a' : Expr) (j : Nat) (hw : WF (.op .indexSum x [a, .mi [.free j]]) = true)
    (ea : Equiv ρ a a') : Equiv ρ (.op .indexSum x [a, .mi [.free j]]) (.op .indexSum y [a', .mi [.free j]]) := by
  obtain ⟨wa, hj, hfi, hsh⟩ := indexSum_facts x a j hw
  refine ⟨by simp [WF, ea.wf, ea.fi, hj], by simp [shape, ea.shape], by simp [fi, ea.fi], ?_⟩
  intro s ι c hr hc
  rw [hfi] at hr; rw [hsh] at hc
  rw [indexSum_eval, indexSum_eval, ea.fi]
  apply Finset.sum_congr rfl
  intro v hv
  exact ea.val s (ι.set j v) c (inRange_set ι (fi a) j v hr (Finset.mem_range.mp hv)) hc


/-! ### the plainly substituted expression -/

/-- the node conditions carry over to an expression whose (scalar) values are values of the original -/
structure PredSubOK (ρ : Env K) (P : NodePred) : Prop where
  div : ∀ a b a' b' (θ : IdxEnv → IdxEnv), P.div a b → trueScalar b' = trueScalar b →
    (∀ s ι, eval ρ s ι b' [] = eval ρ s (θ ι) b []) → P.div a' b'
  pow : ∀ a b a' b' (θ : IdxEnv → IdxEnv), P.pow a b → trueScalar a' = trueScalar a → trueScalar b' = trueScalar b →
    (∀ s ι, eval ρ s ι a' [] = eval ρ s (θ ι) a []) → (∀ s ι, eval ρ s ι b' [] = eval ρ s (θ ι) b []) → P.pow a' b'

theorem defPred_subok (ρ : Env K) (Pos : K → Prop) (T : TermData → Prop) : PredSubOK ρ (defPred ρ Pos T) := by
  refine ⟨?_, ?_⟩
  · intro a b a' b' θ h tb hv tb' s ι
    rw [hv]; exact h (by rw [← tb]; exact tb') s (θ ι)
  · intro a b a' b' θ h ta tb hva hvb ta' tb' s ι
    rw [hva, hvb]; exact h (by rw [← ta]; exact ta') (by rw [← tb]; exact tb') s (θ ι)

/-- `E` is `e` with k replaced by a: well formed, in the fragment, and its value is the value of `e` with k set to
    the value of a -/
structure Sub (ρ : Env K) (P : NodePred) (k : Nat) (a : Idx) (e E : Expr) : Prop where
  wf : WF E = true
  good : Good P E
  shape : shape E = shape e
  fi : SubFI k a (fi e) (fi E)
  val : ∀ s ι c, eval ρ s ι E c = eval ρ s (ι.set k (Idx.resolve ι a)) e c

theorem theta_set (ι : IdxEnv) (k j v : Nat) (a : Idx) (hjk : j ≠ k) (haj : a ≠ .free j) :
    (ι.set j v).set k (Idx.resolve (ι.set j v) a) = (ι.set k (Idx.resolve ι a)).set j v := by
  rw [resolve_set_ne ι j v a haj, set_comm ι j k v _ hjk]

theorem fi_nil_of_has (f : FI) (h : ∀ i, FI.has i f = false) : f = [] := by
  cases f with
  | nil => rfl
  | cons p ps => have := h p.1; simp [FI.has] at this

theorem subFI_nil (k : Nat) (a : Idx) (f' : FI) (h : SubFI k a [] f') : f' = [] :=
  fi_nil_of_has f' (fun i => by rw [h.has]; simp [FI.has])

theorem subFI_refl_nil (k : Nat) (a : Idx) : SubFI k a [] [] :=
  ⟨fun i => by simp [FI.has], fun i h => by simp [FI.has] at h, fun i h => by simp [FI.has] at h⟩

theorem sub_trueScalar (ρ : Env K) (P : NodePred) (k : Nat) (a : Idx) (e E : Expr) (h : Sub ρ P k a e E)
    (t : trueScalar e = true) : trueScalar E = true := by
  obtain ⟨se, fe⟩ := (trueScalar_iff e).mp t
  have := h.fi; rw [fe] at this
  exact (trueScalar_iff E).mpr ⟨by rw [h.shape, se], subFI_nil k a _ this⟩

section
variable (ρ : Env K) (P : NodePred) (hPs : PredSubOK ρ P) (k : Nat) (a : Idx) (n : Nat) (hak : a ≠ .free k)
include hak

theorem sub_sum (x : List Nat) (e1 e2 E1 E2 : Expr) (hw : WF (.op .sum x [e1, e2]) = true)
    (s1 : Sub ρ P k a e1 E1) (s2 : Sub ρ P k a e2 E2) : Sub ρ P k a (.op .sum x [e1, e2]) (.op .sum [] [E1, E2]) := by
  simp only [WF, Bool.and_eq_true, beq_iff_eq] at hw
  obtain ⟨⟨⟨w1, w2⟩, hs⟩, hf⟩ := hw
  have hfE : fi E1 = fi E2 := subFI_unique k a 0 (fi e1) _ _ s1.fi (hf ▸ s2.fi) (fi_sorted E1 s1.wf) (fi_sorted E2 s2.wf)
  refine ⟨by simp [WF, s1.wf, s2.wf, s1.shape, s2.shape, hs, hfE], (good_sum P _ _ _).mpr ⟨s1.good, s2.good⟩,
    by simp [shape, s1.shape], by simpa [fi] using s1.fi, fun s ι c => ?_⟩
  simp only [eval]; rw [s1.val, s2.val]

theorem sub_product (x : List Nat) (e1 e2 E1 E2 : Expr) (hw : WF (.op .product x [e1, e2]) = true)
    (hn : Dn k a n (fi (.op .product x [e1, e2])))
    (s1 : Sub ρ P k a e1 E1) (s2 : Sub ρ P k a e2 E2) : Sub ρ P k a (.op .product x [e1, e2]) (.op .product [] [E1, E2]) := by
  simp only [WF, Bool.and_eq_true, List.isEmpty_iff] at hw
  obtain ⟨⟨⟨⟨w1, w2⟩, sh1⟩, sh2⟩, hd⟩ := hw
  have hd' := (dimsAgree_iff _ _ (fi_sorted e1 w1)).mp hd
  have hfi : fi (.op .product x [e1, e2]) = FI.merge (fi e1) (fi e2) := by simp [fi]
  rw [hfi] at hn
  obtain ⟨n1, n2⟩ := dn_merge k a n _ _ (fi_sorted e1 w1) hd' hn
  obtain ⟨sm, ag⟩ := subFI_merge k a n hak _ _ _ _ (fi_sorted e1 w1) (fi_sorted E1 s1.wf) hd' n1 n2 s1.fi s2.fi
  refine ⟨?_, (good_product P _ _ _).mpr ⟨s1.good, s2.good⟩, by simp [shape], by simpa [fi] using sm, fun s ι c => ?_⟩
  · simp only [WF, Bool.and_eq_true, List.isEmpty_iff]
    exact ⟨⟨⟨⟨s1.wf, s2.wf⟩, by rw [s1.shape, sh1]⟩, by rw [s2.shape, sh2]⟩, (dimsAgree_iff _ _ (fi_sorted E1 s1.wf)).mpr ag⟩
  · simp only [eval]; rw [s1.val, s2.val]


include hPs in
theorem sub_division (x : List Nat) (e1 e2 E1 E2 : Expr) (hw : WF (.op .division x [e1, e2]) = true)
    (hg : Good P (.op .division x [e1, e2]))
    (s1 : Sub ρ P k a e1 E1) (s2 : Sub ρ P k a e2 E2) : Sub ρ P k a (.op .division x [e1, e2]) (.op .division [] [E1, E2]) := by
  simp only [WF, Bool.and_eq_true, List.isEmpty_iff] at hw
  obtain ⟨⟨⟨w1, w2⟩, sh1⟩, t2⟩ := hw
  have t2' := sub_trueScalar ρ P k a e2 E2 s2 t2
  have hdv : P.div E1 E2 := hPs.div e1 e2 E1 E2 (fun ι => ι.set k (Idx.resolve ι a)) ((good_division P _ _ _).mp hg).2.2
    (by rw [t2, t2']) (fun s ι => s2.val s ι [])
  refine ⟨by simp [WF, s1.wf, s2.wf, s1.shape, sh1, t2'], (good_division P _ _ _).mpr ⟨s1.good, s2.good, hdv⟩,
    by simp [shape], by simpa [fi] using s1.fi, fun s ι c => ?_⟩
  simp only [eval]; rw [s1.val, s2.val]

include hPs in
theorem sub_power (x : List Nat) (e1 e2 E1 E2 : Expr) (hw : WF (.op .power x [e1, e2]) = true)
    (hg : Good P (.op .power x [e1, e2]))
    (s1 : Sub ρ P k a e1 E1) (s2 : Sub ρ P k a e2 E2) : Sub ρ P k a (.op .power x [e1, e2]) (.op .power [] [E1, E2]) := by
  simp only [WF, Bool.and_eq_true] at hw
  obtain ⟨⟨⟨w1, w2⟩, t1⟩, t2⟩ := hw
  have t1' := sub_trueScalar ρ P k a e1 E1 s1 t1
  have t2' := sub_trueScalar ρ P k a e2 E2 s2 t2
  have hpw : P.pow E1 E2 := hPs.pow e1 e2 E1 E2 (fun ι => ι.set k (Idx.resolve ι a)) ((good_power P _ _ _).mp hg).2.2
    (by rw [t1, t1']) (by rw [t2, t2']) (fun s ι => s1.val s ι []) (fun s ι => s2.val s ι [])
  refine ⟨by simp [WF, s1.wf, s2.wf, t1', t2'], (good_power P _ _ _).mpr ⟨s1.good, s2.good, hpw⟩,
    by simp [shape], by simpa [fi] using s1.fi, fun s ι c => ?_⟩
  simp only [eval]; rw [s1.val, s2.val]

theorem sub_abs (x : List Nat) (e1 E1 : Expr) (s1 : Sub ρ P k a e1 E1) : Sub ρ P k a (.op .abs x [e1]) (.op .abs [] [E1]) := by
  refine ⟨by simp [WF, s1.wf], (good_abs P _ _).mpr s1.good, by simp [shape, s1.shape], by simpa [fi] using s1.fi, fun s ι c => ?_⟩
  simp only [eval]; rw [s1.val]

theorem sub_restricted (op : Op) (hop : op = .positiveRestricted ∨ op = .negativeRestricted) (x : List Nat) (e1 E1 : Expr)
    (s1 : Sub ρ P k a e1 E1) : Sub ρ P k a (.op op x [e1]) (.op op x [E1]) := by
  rcases hop with rfl | rfl
  · refine ⟨by simp [WF, s1.wf], by simpa [Good] using s1.good, by simp [shape, s1.shape], by simpa [fi] using s1.fi, fun s ι c => ?_⟩
    simp only [eval]; rw [s1.val]
  · refine ⟨by simp [WF, s1.wf], by simpa [Good] using s1.good, by simp [shape, s1.shape], by simpa [fi] using s1.fi, fun s ι c => ?_⟩
    simp only [eval]; rw [s1.val]

theorem sub_math (op : Op) (x : List Nat) (e1 E1 : Expr) (nm : String) (hn : mathName op = some nm)
    (hw : WF (.op op x [e1]) = true) (s1 : Sub ρ P k a e1 E1) : Sub ρ P k a (.op op x [e1]) (.op op x [E1]) := by
  have hwf : ∀ z, WF (.op op x [z]) = ((mathName op).isSome && WF z && trueScalar z) := by
    intro z; cases op <;> simp [mathName] at hn <;> simp [WF, mathName]
  have hsh : ∀ z, shape (.op op x [z]) = [] := by
    intro z; cases op <;> simp [mathName] at hn <;> simp [shape]
  have hfi : ∀ z, fi (.op op x [z]) = fi z := by
    intro z; cases op <;> simp [mathName] at hn <;> simp [fi]
  have hev : ∀ s ι z c, eval ρ s ι (.op op x [z]) c = ρ.fn nm (eval ρ s ι z c) := by
    intro s ι z c; cases op <;> simp [mathName] at hn <;> subst hn <;> simp [eval, mathName]
  rw [hwf] at hw
  simp only [Bool.and_eq_true] at hw
  have t1' := sub_trueScalar ρ P k a e1 E1 s1 hw.2
  refine ⟨by rw [hwf]; simp [hw.1.1, s1.wf, t1'], (math_good P op x E1 nm hn).mpr s1.good, by rw [hsh, hsh],
    by rw [hfi, hfi]; exact s1.fi, fun s ι c => ?_⟩
  rw [hev, hev, s1.val]

theorem sub_indexSum (x : List Nat) (e1 E1 : Expr) (j : Nat) (hjk : j ≠ k) (haj : a ≠ .free j)
    (hw : WF (.op .indexSum x [e1, .mi [.free j]]) = true) (hsh : shape e1 = [])
    (s1 : Sub ρ P k a e1 E1) : Sub ρ P k a (.op .indexSum x [e1, .mi [.free j]]) (.op .indexSum [] [E1, .mi [.free j]]) := by
  obtain ⟨w1, hj, hfi, _⟩ := indexSum_facts x e1 j hw
  have hjE : FI.has j (fi E1) = true := by rw [s1.fi.has]; simp [hj, hjk]
  refine ⟨by simp [WF, s1.wf, hjE], (good_indexSum P _ _ _).mpr ⟨s1.good, by rw [s1.shape, hsh]⟩, by simp [shape, s1.shape], ?_,
    fun s ι c => ?_⟩
  · have := subFI_remove k a j hjk haj _ _ s1.fi
    simpa [fi] using this
  · rw [indexSum_eval, indexSum_eval, s1.fi.dim j hj hjk]
    apply Finset.sum_congr rfl
    intro v _
    rw [s1.val, theta_set ι k j v a hjk haj]


end

/-! ### leaves: multi-indices, indexed terminals, zeros -/

/-- replacement of one index -/
def rep (k : Nat) (a : Idx) (i : Idx) : Idx := if i = .free k then a else i

theorem replMI_eq (k : Nat) (a : Idx) (is : List Idx) : replMI [(k, a)] is = is.map (rep k a) := by
  unfold replMI
  apply List.map_congr_left
  intro i _
  cases i with
  | fixed v => simp [rep]
  | free c =>
    simp only [fimap_get, rep]
    by_cases h : k = c
    · subst h; simp
    · have : ¬ Idx.free c = Idx.free k := fun e => h (by cases e; rfl)
      simp [h, this]

theorem resolve_rep (ι : IdxEnv) (k : Nat) (a : Idx) (i : Idx) :
    Idx.resolve ι (rep k a i) = Idx.resolve (ι.set k (Idx.resolve ι a)) i := by
  unfold rep
  by_cases h : i = .free k
  · subst h; simp [Idx.resolve, IdxEnv.set]
  · rw [if_neg h]
    cases i with
    | fixed v => rfl
    | free c =>
      have : c ≠ k := fun e => h (by rw [e])
      simp [Idx.resolve, IdxEnv.set, this]

theorem contains_rep (k : Nat) (a : Idx) (hak : a ≠ .free k) (i : Nat) : ∀ is : List Idx,
    (is.map (rep k a)).contains (.free i) = ((is.contains (.free i) && decide (i ≠ k)) || (is.contains (.free k) && (a == .free i)))
  | [] => by simp
  | x :: xs => by
    simp only [List.map_cons, List.contains_cons, contains_rep k a hak i xs]
    rw [Bool.eq_iff_iff]
    simp only [Bool.or_eq_true, Bool.and_eq_true, beq_iff_eq, decide_eq_true_eq, rep]
    by_cases hx : x = .free k
    · subst hx
      simp only [↓reduceIte, Idx.free.injEq]
      constructor
      · rintro (h | h)
        · right; exact ⟨Or.inl trivial, h.symm⟩
        · rcases h with ⟨h1, h2⟩ | ⟨h1, h2⟩
          · left; exact ⟨Or.inr h1, h2⟩
          · right; exact ⟨Or.inr h1, h2⟩
      · rintro (⟨h1 | h1, h2⟩ | ⟨h1 | h1, h2⟩)
        · exact absurd h1 h2
        · right; left; exact ⟨h1, h2⟩
        · left; exact h2.symm
        · left; exact h2.symm
    · simp only [hx, ↓reduceIte]
      constructor
      · rintro (h | h)
        · left
          refine ⟨Or.inl h, ?_⟩
          intro e; subst e; exact hx h.symm
        · rcases h with ⟨h1, h2⟩ | ⟨h1, h2⟩
          · left; exact ⟨Or.inr h1, h2⟩
          · right; exact ⟨Or.inr h1, h2⟩
      · rintro (⟨h1 | h1, h2⟩ | ⟨h1 | h1, h2⟩)
        · left; exact h1
        · right; left; exact ⟨h1, h2⟩
        · exact absurd h1.symm hx
        · right; right; exact ⟨h1, h2⟩

theorem eval_atom_indep (ρ : Env K) (A : Expr) (d : TermData) (h : atomTerm A = some d) (s : Side) (ι ι' : IdxEnv) (c : List Nat) :
    eval ρ s ι A c = eval ρ s ι' A c := by
  unfold atomTerm at h
  split at h
  · simp [eval]
  · simp [eval]
  · simp [eval]
  · cases h

theorem atom_facts (A : Expr) (d : TermData) (h : atomTerm A = some d) : WF A = true ∧ fi A = [] := by
  unfold atomTerm at h
  split at h
  · simp [WF, fi]
  · simp [WF, fi]
  · simp [WF, fi]
  · cases h

theorem contains_getElem (is : List Idx) (i : Idx) (h : is.contains i = true) : ∃ p : Nat, is[p]? = some i := by
  have : i ∈ is := by simpa using h
  obtain ⟨p, hp, e⟩ := List.getElem_of_mem this
  exact ⟨p, by rw [List.getElem?_eq_getElem hp, e]⟩

/-- an `Indexed` terminal with the multi-index replaced -/
theorem sub_indexed (ρ : Env K) (P : NodePred) (k : Nat) (a : Idx) (hak : a ≠ .free k) (x : List Nat) (A : Expr) (d : TermData)
    (is : List Idx) (hat : atomTerm A = some d) (hpd : P.term d) (hw : WF (.op .indexed x [A, .mi is]) = true)
    (r : Expr) (h : plainIndexed A (replMI [(k, a)] is) = some r) : Sub ρ P k a (.op .indexed x [A, .mi is]) r := by
  obtain ⟨wA, fA⟩ := atom_facts A d hat
  rw [replMI_eq] at h
  have hr : r = .op .indexed [] [A, .mi (is.map (rep k a))] := by
    unfold plainIndexed at h
    simp only at h
    split at h
    · cases h
    · split at h
      · cases h
      · split at h
        · simp only [Option.some.injEq] at h; exact h.symm
        · cases h
  obtain ⟨wr, sr, hh, _, _⟩ := plainIndexed_spec ρ Side.none A (is.map (rep k a)) r wA h
  subst hr
  have he : ∀ i, FI.has i (fi (.op .indexed x [A, .mi is])) = is.contains (.free i) := by
    intro i; rw [has_indexed_fi, fA]; simp [FI.has]
  refine ⟨wr, by simp only [Good, hat]; exact hpd, by simp [shape], ⟨?_, ?_, ?_⟩, fun s ι c => ?_⟩
  · intro i
    rw [hh, fA, he, he, contains_rep k a hak i is]; simp [FI.has]
  · intro i hi hik
    rw [he] at hi
    obtain ⟨p, hp⟩ := contains_getElem is _ hi
    have hp' : (is.map (rep k a))[p]? = some (.free i) := by
      rw [List.getElem?_map, hp]
      have : ¬ Idx.free i = Idx.free k := fun e => hik (by cases e; rfl)
      simp [rep, this]
    rw [indexed_pos_dim [] A _ wr fA p i hp', indexed_pos_dim x A is hw fA p i hp]
  · intro i hk hai
    rw [he] at hk
    obtain ⟨p, hp⟩ := contains_getElem is _ hk
    have hp' : (is.map (rep k a))[p]? = some (.free i) := by
      rw [List.getElem?_map, hp]; simp [rep, hai]
    rw [indexed_pos_dim [] A _ wr fA p i hp', indexed_pos_dim x A is hw fA p k hp]
  · simp only [eval, List.map_map]
    rw [eval_atom_indep ρ A d hat s ι (ι.set k (Idx.resolve ι a))]
    congr 1
    apply List.map_congr_left
    intro i _
    exact resolve_rep ι k a i


theorem mkIndexed_atom (A : Expr) (d : TermData) (h : atomTerm A = some d) (i : Idx) (is : List Idx) :
    mkIndexed A (i :: is) = plainIndexed A (i :: is) := by
  unfold atomTerm at h
  split at h
  · rfl
  · simp [mkIndexed, mkIndexedF, Expr.size, Expr.sizeL]
  · simp [mkIndexed, mkIndexedF, Expr.size, Expr.sizeL]
  · cases h

theorem plainIndexed_of_wf (x : List Nat) (A : Expr) (is : List Idx) (hw : WF (.op .indexed x [A, .mi is]) = true) :
    plainIndexed A is = some (.op .indexed [] [A, .mi is]) := by
  simp only [WF, Bool.and_eq_true, beq_iff_eq] at hw
  obtain ⟨⟨⟨_, hl⟩, hr⟩, hsome⟩ := hw
  obtain ⟨f', hf'⟩ := Option.isSome_iff_exists.mp hsome
  unfold plainIndexed
  simp only
  split
  · rename_i hne; exact absurd hl.symm hne
  · split
    · rename_i hany
      exfalso
      obtain ⟨p, hp, hpv⟩ := List.any_eq_true.mp hany
      unfold fixedInRange at hr
      have := (List.all_eq_true.mp hr) p hp
      cases hp1 : p.1 with
      | fixed v =>
        rw [hp1] at this hpv
        simp only [decide_eq_true_eq] at this hpv
        omega
      | free c => rw [hp1] at hpv; cases hpv
    · rw [hf']

theorem indexed_aux_equiv (ρ : Env K) (x y : List Nat) (A : Expr) (is : List Idx) (hw : WF (.op .indexed x [A, .mi is]) = true) :
    Equiv ρ (.op .indexed x [A, .mi is]) (.op .indexed y [A, .mi is]) :=
  ⟨by simpa [WF] using hw, by simp [shape], by simp [fi], fun s ι c _ _ => by simp [eval]⟩

theorem repl_atom (fm : FiMap) (A A' : Expr) (d : TermData) (ha : atomTerm A = some d)
    (h : replIdx fm A = some A') (hu : isUnsupported A' = false) : A' = A := by
  unfold atomTerm at ha
  split at ha
  · simp only [replIdx, Option.some.injEq] at h; exact h.symm
  · simp only [replIdx, replIdxL] at h
    split at h
    · simp only [Option.some.injEq] at h; subst h; simp [isUnsupported, unsupported] at hu
    · simp only [beqL, beq_refl, Bool.and_self, ↓reduceIte, Option.some.injEq] at h; exact h.symm
  · simp only [replIdx, replIdxL] at h
    split at h
    · simp only [Option.some.injEq] at h; subst h; simp [isUnsupported, unsupported] at hu
    · simp only [beqL, beq_refl, Bool.and_self, ↓reduceIte, Option.some.injEq] at h; exact h.symm
  · cases ha

/-- the expression binds neither k nor the replacement index -/
def NB (k : Nat) (a : Idx) (e : Expr) : Prop := ∀ c ∈ boundCounts e, c ≠ k ∧ a ≠ .free c

theorem dn_nil (k : Nat) (a : Idx) (n : Nat) : Dn k a n [] :=
  ⟨fun h => by simp [FI.has] at h, fun c _ h => by simp [FI.has] at h⟩


theorem boundCountsL_mem (c : Nat) (x : Expr) : ∀ args : List Expr, x ∈ args → c ∈ boundCounts x → c ∈ boundCountsL args
  | [], mx, _ => by simp at mx
  | y :: ys, mx, mc => by
    simp only [boundCountsL, List.mem_append]
    cases List.mem_cons.mp mx with
    | inl e => left; rw [← e]; exact mc
    | inr e => right; exact boundCountsL_mem c x ys e mc

theorem nb_child (k : Nat) (a : Idx) (kk : Op) (aux : List Nat) (args : List Expr) (h : NB k a (.op kk aux args)) :
    ∀ x ∈ args, NB k a x := by
  intro x mx c mc
  apply h c
  simp only [boundCounts, List.mem_append]
  right
  exact boundCountsL_mem c x args mx mc

section
variable (ρ : Env K) (P : NodePred) (hP : PredOK ρ P) (hPs : PredSubOK ρ P) (hfold : FoldOK ρ)
  (k : Nat) (a : Idx) (n : Nat) (hak : a ≠ .free k)
include hP hPs hfold hak

/-- what the traversal establishes for an operand -/
def ReplRel (x x' : Expr) : Prop :=
  replIdx [(k, a)] x = some x' ∧
  (isUnsupported x' = false → WF x = true → Good P x → NB k a x → Dn k a n (fi x) →
    ∃ E, Sub ρ P k a x E ∧ Equiv ρ E x' ∧ Good P x')

mutual
theorem repl_sound : ∀ (e r : Expr), replIdx [(k, a)] e = some r → isUnsupported r = false → WF e = true → Good P e →
    NB k a e → Dn k a n (fi e) → ∃ E, Sub ρ P k a e E ∧ Equiv ρ E r ∧ Good P r
  | .int v, r, h, _, hw, hgd, _, _ => by
    simp only [replIdx, Option.some.injEq] at h; subst h
    exact ⟨_, ⟨hw, hgd, rfl, by simpa [fi] using subFI_refl_nil k a, fun s ι c => by simp [eval]⟩, Equiv.refl ρ _ hw, hgd⟩
  | .real p q, r, h, _, hw, hgd, _, _ => by
    simp only [replIdx, Option.some.injEq] at h; subst h
    exact ⟨_, ⟨hw, hgd, rfl, by simpa [fi] using subFI_refl_nil k a, fun s ι c => by simp [eval]⟩, Equiv.refl ρ _ hw, hgd⟩
  | .cplx _ _ _ _, r, _, _, _, hgd, _, _ => by simp [Good] at hgd
  | .mi _, r, _, _, _, hgd, _, _ => by simp [Good] at hgd
  | .term d, r, h, _, hw, hgd, _, _ => by
    simp only [replIdx, Option.some.injEq] at h; subst h
    exact ⟨_, ⟨hw, hgd, rfl, by simpa [fi] using subFI_refl_nil k a, fun s ι c => by simp [eval]⟩, Equiv.refl ρ _ hw, hgd⟩
  | .zero sh f, r, h, _, hw, hgd, _, _ => by
    simp only [replIdx] at h
    simp only [WF] at hw
    obtain ⟨f', hz, sf', hsub⟩ := replZero_spec k a sh f r ((sortedFI_iff f).mp hw) h
    subst hz
    have wz : WF (.zero sh f') = true := by simp only [WF]; exact (sortedFI_iff f').mpr sf'
    exact ⟨_, ⟨wz, by simp [Good], by simp [shape], by simpa [fi] using hsub, fun s ι c => by simp [eval]⟩,
      Equiv.refl ρ _ wz, by simp [Good]⟩
  | .op kk aux args, r, h, hu, hw, hgd, hnb, hdn => by
    simp only [replIdx] at h
    cases hl : replIdxL [(k, a)] args with
    | none => simp [hl] at h
    | some args' =>
      rw [hl] at h
      simp only at h
      have rel := replL_sound args args' hl
      have nbc := nb_child k a kk aux args hnb
      split at h
      · simp only [Option.some.injEq] at h; subst h; simp [isUnsupported, unsupported] at hu
      · rename_i hany
        have hnu : ∀ a' ∈ args', isUnsupported a' = false := by
          intro a' ma
          simp only [List.any_eq_true, not_exists, not_and, Bool.not_eq_true] at hany
          exact hany a' ma
        have hgd0 := hgd
        unfold Good at hgd
        split at hgd
        · -- Indexed
          rename_i A is
          cases hat : atomTerm A with
          | none => rw [hat] at hgd; cases hgd
          | some d =>
            rw [hat] at hgd
            cases rel with
            | cons r1 rel2 =>
              cases rel2 with
              | cons r2 rel3 =>
                cases rel3
                rename_i A' M'
                have eA : A' = A := repl_atom _ A A' d hat r1.1 (hnu A' (by simp))
                have eM : M' = .mi (replMI [(k, a)] is) := by
                  have := r2.1; simp only [replIdx, Option.some.injEq] at this; exact this.symm
                subst eA; subst eM
                by_cases hb : beqL [A', Expr.mi (replMI [(k, a)] is)] [A', Expr.mi is] = true
                · -- the multi-index is unchanged
                  rw [if_pos hb] at h
                  simp only [Option.some.injEq] at h; subst h
                  have e1 := beqL_eq _ _ hb
                  have eis : replMI [(k, a)] is = is := by
                    simp only [List.cons.injEq, Expr.mi.injEq, and_true, true_and] at e1; exact e1
                  have hpl := plainIndexed_of_wf aux A' is hw
                  have hs := sub_indexed ρ P k a hak aux A' d is hat hgd hw _ (by rw [eis]; exact hpl)
                  exact ⟨_, hs, indexed_aux_equiv ρ [] aux A' is hs.wf, hgd0⟩
                · rw [if_neg hb] at h
                  simp only [rebuild] at h
                  cases his : replMI [(k, a)] is with
                  | nil =>
                    exfalso
                    have : is = [] := by
                      rw [replMI_eq] at his
                      cases is with
                      | nil => rfl
                      | cons _ _ => simp at his
                    subst this
                    apply hb
                    simp [replMI, beqL_refl]
                  | cons i0 is0 =>
                    rw [his, mkIndexed_atom A' d hat] at h
                    rw [← his] at h
                    have hs := sub_indexed ρ P k a hak aux A' d is hat hgd hw r h
                    exact ⟨r, hs, Equiv.refl ρ r hs.wf, hs.good⟩
        · -- Sum
          rename_i e1 e2
          cases rel with
          | cons r1 rel2 =>
            cases rel2 with
            | cons r2 rel3 =>
              cases rel3
              rename_i a' b'
              have hw' := hw
              simp only [WF, Bool.and_eq_true, beq_iff_eq] at hw'
              have hfn : fi (.op .sum aux [e1, e2]) = fi e1 := by simp [fi]
              have dn1 : Dn k a n (fi e1) := by rw [← hfn]; exact hdn
              have dn2 : Dn k a n (fi e2) := by rw [← hw'.2]; exact dn1
              obtain ⟨E1, s1, q1, g1⟩ := r1.2 (hnu a' (by simp)) hw'.1.1.1 hgd.1 (nbc e1 (by simp)) dn1
              obtain ⟨E2, s2, q2, g2⟩ := r2.2 (hnu b' (by simp)) hw'.1.1.2 hgd.2 (nbc e2 (by simp)) dn2
              have hs := sub_sum ρ P k a hak aux e1 e2 E1 E2 hw s1 s2
              refine ⟨_, hs, ?_⟩
              rcases generic_split _ _ _ _ _ h with ⟨x1, x2⟩ | hr
              · subst x2
                have x3 : a' = e1 ∧ b' = e2 := by simpa using x1
                exact ⟨sum_congr ρ [] aux E1 E2 e1 e2 hs.wf (x3.1 ▸ q1) (x3.2 ▸ q2), hgd0⟩
              · simp only [rebuild] at hr
                exact sum_node ρ P [] E1 E2 a' b' r hs.wf q1 q2 g1 g2 hr hu
        · -- Product
          rename_i e1 e2
          cases rel with
          | cons r1 rel2 =>
            cases rel2 with
            | cons r2 rel3 =>
              cases rel3
              rename_i a' b'
              have hw' := hw
              simp only [WF, Bool.and_eq_true] at hw'
              have hd' := (dimsAgree_iff _ _ (fi_sorted e1 hw'.1.1.1.1)).mp hw'.2
              have hfn : fi (.op .product aux [e1, e2]) = FI.merge (fi e1) (fi e2) := by simp [fi]
              obtain ⟨dn1, dn2⟩ := dn_merge k a n _ _ (fi_sorted e1 hw'.1.1.1.1) hd' (hfn ▸ hdn)
              obtain ⟨E1, s1, q1, g1⟩ := r1.2 (hnu a' (by simp)) hw'.1.1.1.1 hgd.1 (nbc e1 (by simp)) dn1
              obtain ⟨E2, s2, q2, g2⟩ := r2.2 (hnu b' (by simp)) hw'.1.1.1.2 hgd.2 (nbc e2 (by simp)) dn2
              have hs := sub_product ρ P k a n hak aux e1 e2 E1 E2 hw hdn s1 s2
              refine ⟨_, hs, ?_⟩
              rcases generic_split _ _ _ _ _ h with ⟨x1, x2⟩ | hr
              · subst x2
                have x3 : a' = e1 ∧ b' = e2 := by simpa using x1
                exact ⟨product_congr ρ [] aux E1 E2 e1 e2 hs.wf (x3.1 ▸ q1) (x3.2 ▸ q2), hgd0⟩
              · simp only [rebuild] at hr
                exact product_node ρ P [] E1 E2 a' b' r hs.wf q1 q2 g1 g2 hr hu
        · -- Division
          rename_i e1 e2
          cases rel with
          | cons r1 rel2 =>
            cases rel2 with
            | cons r2 rel3 =>
              cases rel3
              rename_i a' b'
              have hw' := hw
              simp only [WF, Bool.and_eq_true] at hw'
              have hfn : fi (.op .division aux [e1, e2]) = fi e1 := by simp [fi]
              have dn1 : Dn k a n (fi e1) := by rw [← hfn]; exact hdn
              have dn2 : Dn k a n (fi e2) := by rw [((trueScalar_iff e2).mp hw'.2).2]; exact dn_nil k a n
              obtain ⟨E1, s1, q1, g1⟩ := r1.2 (hnu a' (by simp)) hw'.1.1.1 hgd.1 (nbc e1 (by simp)) dn1
              obtain ⟨E2, s2, q2, g2⟩ := r2.2 (hnu b' (by simp)) hw'.1.1.2 hgd.2.1 (nbc e2 (by simp)) dn2
              have hs := sub_division ρ P hPs k a hak aux e1 e2 E1 E2 hw hgd0 s1 s2
              refine ⟨_, hs, ?_⟩
              rcases generic_split _ _ _ _ _ h with ⟨x1, x2⟩ | hr
              · subst x2
                have x3 : a' = e1 ∧ b' = e2 := by simpa using x1
                exact ⟨division_congr ρ [] aux E1 E2 e1 e2 hs.wf (x3.1 ▸ q1) (x3.2 ▸ q2), hgd0⟩
              · simp only [rebuild] at hr
                exact division_node ρ P hP [] E1 E2 a' b' r hs.wf hs.good q1 q2 g1 g2 hr hu
        · -- Power
          rename_i e1 e2
          cases rel with
          | cons r1 rel2 =>
            cases rel2 with
            | cons r2 rel3 =>
              cases rel3
              rename_i a' b'
              have hw' := hw
              simp only [WF, Bool.and_eq_true] at hw'
              have dn1 : Dn k a n (fi e1) := by rw [((trueScalar_iff e1).mp hw'.1.2).2]; exact dn_nil k a n
              have dn2 : Dn k a n (fi e2) := by rw [((trueScalar_iff e2).mp hw'.2).2]; exact dn_nil k a n
              obtain ⟨E1, s1, q1, g1⟩ := r1.2 (hnu a' (by simp)) hw'.1.1.1 hgd.1 (nbc e1 (by simp)) dn1
              obtain ⟨E2, s2, q2, g2⟩ := r2.2 (hnu b' (by simp)) hw'.1.1.2 hgd.2.1 (nbc e2 (by simp)) dn2
              have hs := sub_power ρ P hPs k a hak aux e1 e2 E1 E2 hw hgd0 s1 s2
              refine ⟨_, hs, ?_⟩
              rcases generic_split _ _ _ _ _ h with ⟨x1, x2⟩ | hr
              · subst x2
                have x3 : a' = e1 ∧ b' = e2 := by simpa using x1
                exact ⟨power_congr ρ [] aux E1 E2 e1 e2 hs.wf (x3.1 ▸ q1) (x3.2 ▸ q2), hgd0⟩
              · simp only [rebuild] at hr
                exact power_node ρ P hP hfold [] E1 E2 a' b' r hs.wf hs.good q1 q2 g1 g2 hr hu
        · -- Abs
          rename_i e1
          cases rel with
          | cons r1 rel2 =>
            cases rel2
            rename_i a'
            have hw' := hw
            simp only [WF] at hw'
            have hfn : fi (.op .abs aux [e1]) = fi e1 := by simp [fi]
            obtain ⟨E1, s1, q1, g1⟩ := r1.2 (hnu a' (by simp)) hw' hgd (nbc e1 (by simp)) (hfn ▸ hdn)
            have hs := sub_abs ρ P k a hak aux e1 E1 s1
            refine ⟨_, hs, ?_⟩
            rcases generic_split _ _ _ _ _ h with ⟨x1, x2⟩ | hr
            · subst x2
              have x3 : a' = e1 := by simpa using x1
              exact ⟨abs_congr ρ [] aux E1 e1 hs.wf (x3 ▸ q1), hgd0⟩
            · simp only [rebuild] at hr
              exact abs_node ρ P hfold [] E1 a' r hs.wf q1 g1 hr hu
        · -- PositiveRestricted
          rename_i e1
          cases rel with
          | cons r1 rel2 =>
            cases rel2
            rename_i a'
            have hw' := hw
            simp only [WF] at hw'
            have hfn : fi (.op .positiveRestricted aux [e1]) = fi e1 := by simp [fi]
            obtain ⟨E1, s1, q1, g1⟩ := r1.2 (hnu a' (by simp)) hw' hgd (nbc e1 (by simp)) (hfn ▸ hdn)
            have hs := sub_restricted ρ P k a hak .positiveRestricted (Or.inl rfl) aux e1 E1 s1
            refine ⟨_, hs, ?_⟩
            rcases generic_split _ _ _ _ _ h with ⟨x1, x2⟩ | hr
            · subst x2
              have x3 : a' = e1 := by simpa using x1
              exact restricted_node ρ P .positiveRestricted (Or.inl rfl) aux E1 e1 hs.wf (x3 ▸ q1) (by simpa [Good] using hgd0)
            · simp only [rebuild, Option.some.injEq] at hr; subst hr
              exact restricted_node ρ P .positiveRestricted (Or.inl rfl) aux E1 a' hs.wf q1 g1
        · -- NegativeRestricted
          rename_i e1
          cases rel with
          | cons r1 rel2 =>
            cases rel2
            rename_i a'
            have hw' := hw
            simp only [WF] at hw'
            have hfn : fi (.op .negativeRestricted aux [e1]) = fi e1 := by simp [fi]
            obtain ⟨E1, s1, q1, g1⟩ := r1.2 (hnu a' (by simp)) hw' hgd (nbc e1 (by simp)) (hfn ▸ hdn)
            have hs := sub_restricted ρ P k a hak .negativeRestricted (Or.inr rfl) aux e1 E1 s1
            refine ⟨_, hs, ?_⟩
            rcases generic_split _ _ _ _ _ h with ⟨x1, x2⟩ | hr
            · subst x2
              have x3 : a' = e1 := by simpa using x1
              exact restricted_node ρ P .negativeRestricted (Or.inr rfl) aux E1 e1 hs.wf (x3 ▸ q1) (by simpa [Good] using hgd0)
            · simp only [rebuild, Option.some.injEq] at hr; subst hr
              exact restricted_node ρ P .negativeRestricted (Or.inr rfl) aux E1 a' hs.wf q1 g1
        · -- IndexSum
          rename_i e1 j
          cases rel with
          | cons r1 rel2 =>
            cases rel2 with
            | cons r2 rel3 =>
              cases rel3
              rename_i a' M'
              have hjb : j ≠ k ∧ a ≠ .free j := hnb j (by simp [boundCounts, freeCounts])
              have eM : M' = .mi [.free j] := by
                have := r2.1
                simp only [replIdx, replMI_eq, List.map_cons, List.map_nil, Option.some.injEq] at this
                rw [← this]
                have : ¬ Idx.free j = Idx.free k := fun e => hjb.1 (by cases e; rfl)
                simp [rep, this]
              subst eM
              obtain ⟨wa, hj, hfi, hsh⟩ := indexSum_facts aux e1 j hw
              have dn1 : Dn k a n (fi e1) := dn_remove k a n j hjb.1 hjb.2 (fi e1) (hfi ▸ hdn)
              obtain ⟨E1, s1, q1, g1⟩ := r1.2 (hnu a' (by simp)) wa hgd.1 (nbc e1 (by simp)) dn1
              have hs := sub_indexSum ρ P k a hak aux e1 E1 j hjb.1 hjb.2 hw hgd.2 s1
              refine ⟨_, hs, ?_⟩
              rcases generic_split _ _ _ _ _ h with ⟨x1, x2⟩ | hr
              · subst x2
                have x3 : a' = e1 := by simpa using x1
                exact ⟨indexSum_congr ρ [] aux E1 e1 j hs.wf (x3 ▸ q1), hgd0⟩
              · simp only [rebuild] at hr
                exact indexSum_node ρ P [] E1 a' r j hs.wf (by rw [s1.shape, hgd.2]) q1 g1 hr hu
        · -- mathematical functions
          rename_i e1 hne1 hne2 hne3
          cases rel with
          | cons r1 rel2 =>
            cases rel2
            rename_i a'
            obtain ⟨nm, hn⟩ := Option.isSome_iff_exists.mp hgd.1
            have hwa : WF e1 = true := math_wf kk aux e1 nm hn hw
            have hfn : fi (.op kk aux [e1]) = fi e1 := by
              cases kk <;> simp [mathName] at hn <;> simp [fi]
            obtain ⟨E1, s1, q1, g1⟩ := r1.2 (hnu a' (by simp)) hwa hgd.2 (nbc e1 (by simp)) (hfn ▸ hdn)
            have hs := sub_math ρ P k a hak kk aux e1 E1 nm hn hw s1
            refine ⟨_, hs, ?_⟩
            rcases generic_split _ _ _ _ _ h with ⟨x1, x2⟩ | hr
            · subst x2
              have x3 : a' = e1 := by simpa using x1
              exact math_node ρ P kk aux E1 e1 nm hn hs.wf (x3 ▸ q1) hgd.2
            · rw [math_rebuild kk aux a' nm hn] at hr
              simp only [Option.some.injEq] at hr; subst hr
              exact math_node ρ P kk aux E1 a' nm hn hs.wf q1 g1
        · exact hgd.elim
theorem replL_sound : ∀ (args args' : List Expr), replIdxL [(k, a)] args = some args' →
    List.Forall₂ (ReplRel ρ P k a n) args args'
  | [], args', h => by simp only [replIdxL, Option.some.injEq] at h; subst h; exact List.Forall₂.nil
  | x :: xs, args', h => by
    simp only [replIdxL] at h
    cases hx : replIdx [(k, a)] x with
    | none => simp [hx] at h
    | some x' =>
      cases hs : replIdxL [(k, a)] xs with
      | none => simp [hx, hs] at h
      | some xs' =>
        simp only [hx, hs, Option.some.injEq] at h; subst h
        exact List.Forall₂.cons ⟨hx, fun hu hw hgd hnb hdn => repl_sound x x' hx hu hw hgd hnb hdn⟩ (replL_sound xs xs' hs)
end

end

end UflVerif.C09
