/-
C09 — soundness of `IndexSumSimplifier._cancel` / `_index_sum` (model: `cancelF`, `pushF`, `indexSumF`) relative
to the soundness of the `match` rule, for every recursion depth: what `_cancel(factors, k)` returns is the sum
over k of the product of the factors.
-/
import UflVerif.Props.C09.Good

namespace UflVerif.C09
open UflVerif Expr C05 FIlemmas Finset

variable {K : Type} [Field K] [CharZero K]

/-- `r` is the sum over `k` of the product of the factors `fs` -/
structure SumSpec (ρ : Env K) (fs : List Expr) (k : Nat) (r : Expr) : Prop where
  wf : WF r = true
  sc : shape r = []
  has : ∀ i, FI.has i (fi r) = (hasL i fs && decide (i ≠ k))
  dim : ∀ i, i ≠ k → hasL i fs = true → FI.dimOf i (fi r) = dimL i fs
  val : ∀ s ι, (∀ i, i ≠ k → hasL i fs = true → ι i < dimL i fs) →
    eval ρ s ι r [] = ∑ v ∈ range (dimL k fs), prodVal ρ s (ι.set k v) fs

/-- soundness of a `match` rule -/
def MatchSound (ρ : Env K) (P : NodePred) (m : MatchFn) : Prop :=
  ∀ withK rest k r, m withK rest k = some (some r) → isUnsupported r = false →
    Factors (withK ++ rest) → (∀ f ∈ withK, FI.has k (fi f) = true) → (∀ f ∈ rest, FI.has k (fi f) = false) →
    (∀ f ∈ withK ++ rest, Good P f) →
    SumSpec ρ (withK ++ rest) k r ∧ Good P r

theorem SumSpec.of_eq {ρ : Env K} {fs gs : List Expr} {k : Nat} {r : Expr}
    (hh : ∀ i, hasL i fs = hasL i gs) (hd : ∀ i, hasL i gs = true → dimL i fs = dimL i gs)
    (hv : ∀ s ι, prodVal ρ s ι fs = prodVal ρ s ι gs) (h : SumSpec ρ fs k r) : SumSpec ρ gs k r := by
  have hdk : dimL k fs = dimL k gs := by
    by_cases hk : hasL k gs = true
    · exact hd k hk
    · have hk' : hasL k gs = false := by simpa using hk
      rw [dimL_nothas gs k hk', dimL_nothas fs k (by rw [hh]; exact hk')]
  refine ⟨h.wf, h.sc, fun i => by rw [h.has, hh], fun i hi hg => by rw [h.dim i hi (by rw [hh]; exact hg), hd i hg], ?_⟩
  intro s ι hr
  rw [h.val s ι (fun i hi hf => by rw [hd i (by rw [← hh]; exact hf)]; exact hr i hi (by rw [← hh]; exact hf)), hdk]
  exact Finset.sum_congr rfl (fun v _ => hv s _)

theorem SumSpec.perm {ρ : Env K} {fs gs : List Expr} {k : Nat} {r : Expr} (hp : fs.Perm gs) (hf : Factors fs)
    (h : SumSpec ρ fs k r) : SumSpec ρ gs k r :=
  h.of_eq (hasL_perm hp) (fun i _ => dimL_perm hp hf i) (fun s ι => prodVal_perm ρ s ι hp)

theorem set_comm (ι : IdxEnv) (j k u v : Nat) (h : j ≠ k) : (ι.set j u).set k v = (ι.set k v).set j u := by
  funext x
  simp only [IdxEnv.set]
  by_cases hk : x = k <;> by_cases hj : x = j <;> simp [hk, hj]
  · intro e; exact absurd (hj.symm.trans hk) h
  · intro e; exact absurd e.symm h
  · intro e; exact absurd e h

theorem prodVal_set_irrelevant (ρ : Env K) (s : Side) (ι : IdxEnv) (k v : Nat) (fs : List Expr) (hf : Factors fs)
    (hk : ∀ f ∈ fs, FI.has k (fi f) = false) : prodVal ρ s (ι.set k v) fs = prodVal ρ s ι fs := by
  unfold prodVal
  congr 1
  apply List.map_congr_left
  intro f m
  exact eval_set_irrelevant ρ s f (hf.wf f m) [] (by rw [hf.sc f m]) ι k v (hk f m)

theorem hasL_append (i : Nat) (fs gs : List Expr) : hasL i (fs ++ gs) = (hasL i fs || hasL i gs) := by
  simp [hasL]

theorem dimL_append_left (fs gs : List Expr) (hf : Factors (fs ++ gs)) (i : Nat) (hi : hasL i fs = true) :
    dimL i (fs ++ gs) = dimL i fs := by
  obtain ⟨f, m, x⟩ := (hasL_iff i fs).mp hi
  rw [dimL_eq (fs ++ gs) hf i f (by simp [m]) x, dimL_eq fs (hf.sub (fun g mg => by simp [mg])) i f m x]

theorem dimL_append_right (fs gs : List Expr) (hf : Factors (fs ++ gs)) (i : Nat) (hi : hasL i gs = true) :
    dimL i (fs ++ gs) = dimL i gs := by
  obtain ⟨f, m, x⟩ := (hasL_iff i gs).mp hi
  rw [dimL_eq (fs ++ gs) hf i f (by simp [m]) x, dimL_eq gs (hf.sub (fun g mg => by simp [mg])) i f m x]

theorem hasL_single (i : Nat) (e : Expr) : hasL i [e] = FI.has i (fi e) := by simp [hasL]

theorem dimL_single (i : Nat) (e : Expr) (h : FI.has i (fi e) = true) : dimL i [e] = FI.dimOf i (fi e) := by
  simp [dimL, h]

theorem prodVal_single (ρ : Env K) (s : Side) (ι : IdxEnv) (e : Expr) : prodVal ρ s ι [e] = eval ρ s ι e [] := by
  simp [prodVal]

/-- the common end of the interchange and the push branch of `_cancel`: the factors `W` with k are the sum
    over `j` of the factors `Gs`; `inner` is the sum over k of `Gs`, `S` the sum over j of `inner`, and the
    result the product of `S` with the factors without k -/
theorem finish (ρ : Env K) (W Gs rest : List Expr) (k j : Nat) (inner S r : Expr) (hjk : j ≠ k)
    (hF : Factors (W ++ rest)) (hG : Factors Gs) (hrest : ∀ f ∈ rest, FI.has k (fi f) = false)
    (hhas : ∀ i, hasL i W = (hasL i Gs && decide (i ≠ j)))
    (hdim : ∀ i, i ≠ j → hasL i Gs = true → dimL i W = dimL i Gs)
    (hj : hasL j Gs = true)
    (hval : ∀ s ι, prodVal ρ s ι W = ∑ u ∈ range (dimL j Gs), prodVal ρ s (ι.set j u) Gs)
    (h1 : SumSpec ρ Gs k inner) (h2 : SumSpec ρ [inner] j S)
    (h3 : makeProduct (rest ++ [S]) = some r) (hu : isUnsupported r = false) : SumSpec ρ (W ++ rest) k r := by
  have hFW : Factors W := hF.sub (fun g mg => by simp [mg])
  have hFr : Factors rest := hF.sub (fun g mg => by simp [mg])
  -- free indices of S
  have hSh : ∀ i, FI.has i (fi S) = (hasL i W && decide (i ≠ k)) := by
    intro i
    rw [h2.has, hasL_single, h1.has, hhas]
    by_cases a : i = j <;> by_cases b : i = k <;> simp [a, b]
  have hSd : ∀ i, FI.has i (fi S) = true → FI.dimOf i (fi S) = dimL i W := by
    intro i hi
    have hi' := hi
    rw [h2.has, hasL_single, h1.has] at hi'
    simp only [Bool.and_eq_true, decide_eq_true_eq] at hi'
    obtain ⟨⟨hg, hik⟩, hij⟩ := hi'
    have hin : FI.has i (fi inner) = true := by rw [h1.has]; simp [hg, hik]
    rw [h2.dim i hij (by rw [hasL_single]; exact hin), dimL_single i inner hin, h1.dim i hik hg, hdim i hij hg]
  have hFS : Factors (rest ++ [S]) := by
    refine ⟨?_, ?_, ?_⟩
    · intro f m
      cases List.mem_append.mp m with
      | inl m => exact hFr.wf f m
      | inr m => simp only [List.mem_singleton] at m; subst m; exact h2.wf
    · intro f m
      cases List.mem_append.mp m with
      | inl m => exact hFr.sc f m
      | inr m => simp only [List.mem_singleton] at m; subst m; exact h2.sc
    · have key : ∀ f ∈ rest, DimsAgree (fi S) (fi f) := by
        intro f m i hi hf
        rw [hSd i hi]
        have hiW : hasL i W = true := by rw [hSh] at hi; simp only [Bool.and_eq_true] at hi; exact hi.1
        obtain ⟨g, mg, hg⟩ := (hasL_iff i W).mp hiW
        rw [dimL_eq W hFW i g mg hg]
        exact hF.ag g (by simp [mg]) f (by simp [m]) i hg hf
      intro f m f' m'
      cases List.mem_append.mp m with
      | inl m =>
        cases List.mem_append.mp m' with
        | inl m' => exact hFr.ag f m f' m'
        | inr m' => rw [List.mem_singleton] at m'; rw [m']; exact (key f m).symm
      | inr m =>
        rw [List.mem_singleton] at m; rw [m]
        cases List.mem_append.mp m' with
        | inl m' => exact key f' m'
        | inr m' => rw [List.mem_singleton] at m'; rw [m']; exact fun i _ _ => rfl
  have hP := makeProduct_spec ρ (rest ++ [S]) r hFS h3 hu
  have hrk : hasL k rest = false := by
    rw [Bool.eq_false_iff]; intro h
    obtain ⟨f, m, x⟩ := (hasL_iff k rest).mp h
    rw [hrest f m] at x; cases x
  refine ⟨hP.wf, hP.sc, ?_, ?_, ?_⟩
  · intro i
    rw [hP.has, hasL_append, hasL_append, hasL_single, hSh]
    by_cases b : i = k
    · subst b; simp [hrk]
    · simp [b, Bool.or_comm]
  · intro i hik hi
    have hi2 : hasL i (rest ++ [S]) = true := by
      rw [hasL_append, hasL_single, hSh]
      rw [hasL_append] at hi
      simp only [Bool.or_eq_true] at hi ⊢
      cases hi with
      | inl h => right; simp [h, hik]
      | inr h => left; exact h
    rw [hP.dim i hi2]
    rw [hasL_append] at hi
    by_cases hr : hasL i rest = true
    · rw [dimL_append_left rest [S] hFS i hr, dimL_append_right W rest hF i hr]
    · have hw : hasL i W = true := by simpa [hr] using hi
      have hs : FI.has i (fi S) = true := by rw [hSh]; simp [hw, hik]
      rw [dimL_append_right rest [S] hFS i (by rw [hasL_single]; exact hs), dimL_single i S hs, hSd i hs,
        dimL_append_left W rest hF i hw]
  · intro s ι hr
    rw [hP.val, prodVal_append, prodVal_single]
    have hdk : dimL k (W ++ rest) = dimL k Gs := by
      by_cases hk : hasL k Gs = true
      · have hkW : hasL k W = true := by rw [hhas]; simp [hk]; exact fun e => hjk e.symm
        rw [dimL_append_left W rest hF k hkW, hdim k (fun e => hjk e.symm) hk]
      · have hk' : hasL k Gs = false := by simpa using hk
        rw [dimL_nothas Gs k hk', dimL_nothas (W ++ rest) k (by rw [hasL_append, hhas, hk', hrk]; simp)]
    have hjd : dimL j [inner] = dimL j Gs := by
      have hin : FI.has j (fi inner) = true := by rw [h1.has]; simp [hj, hjk]
      rw [dimL_single j inner hin, h1.dim j hjk hj]
    -- the environment is inside the extents of the free indices of Gs (other than j, k)
    have hrG : ∀ i, i ≠ k → i ≠ j → hasL i Gs = true → ι i < dimL i Gs := by
      intro i hik hij hg
      have hw : hasL i W = true := by rw [hhas]; simp [hg, hij]
      have := hr i hik (by rw [hasL_append, hw]; rfl)
      rwa [dimL_append_left W rest hF i hw, hdim i hij hg] at this
    rw [h2.val s ι (by
      intro i hij hi
      rw [hasL_single] at hi
      have hi' := hi
      rw [h1.has] at hi'
      simp only [Bool.and_eq_true, decide_eq_true_eq] at hi'
      rw [dimL_single i inner hi, h1.dim i hi'.2 hi'.1]
      exact hrG i hi'.2 hij hi'.1)]
    rw [hjd, hdk]
    have e1 : ∀ u ∈ range (dimL j Gs), prodVal ρ s (ι.set j u) [inner] = ∑ v ∈ range (dimL k Gs), prodVal ρ s ((ι.set j u).set k v) Gs := by
      intro u hu'
      rw [prodVal_single]
      apply h1.val s (ι.set j u)
      intro i hik hg
      by_cases hij : i = j
      · subst hij; simp only [IdxEnv.set, ↓reduceIte]; exact Finset.mem_range.mp hu'
      · simp only [IdxEnv.set, hij, ↓reduceIte]; exact hrG i hik hij hg
    rw [Finset.sum_congr rfl e1]
    have e2 : ∀ v ∈ range (dimL k Gs), prodVal ρ s (ι.set k v) (W ++ rest) =
        (∑ u ∈ range (dimL j Gs), prodVal ρ s ((ι.set j u).set k v) Gs) * prodVal ρ s ι rest := by
      intro v _
      rw [prodVal_append, hval, prodVal_set_irrelevant ρ s ι k v rest hFr hrest]
      congr 1
      exact Finset.sum_congr rfl (fun u _ => by rw [set_comm ι j k u v hjk])
    rw [Finset.sum_congr rfl e2, ← Finset.sum_mul, Finset.sum_comm, mul_comm]


/-- a sum over k of the factors `W`, multiplied by factors without k -/
theorem with_rest (ρ : Env K) (W rest : List Expr) (k : Nat) (d r : Expr)
    (hF : Factors (W ++ rest)) (hrest : ∀ f ∈ rest, FI.has k (fi f) = false)
    (h1 : SumSpec ρ W k d) (h3 : makeProduct (rest ++ [d]) = some r) (hu : isUnsupported r = false) :
    SumSpec ρ (W ++ rest) k r := by
  have hFW : Factors W := hF.sub (fun g mg => by simp [mg])
  have hFr : Factors rest := hF.sub (fun g mg => by simp [mg])
  have hFS : Factors (rest ++ [d]) := by
    refine ⟨?_, ?_, ?_⟩
    · intro f m
      cases List.mem_append.mp m with
      | inl m => exact hFr.wf f m
      | inr m => rw [List.mem_singleton] at m; rw [m]; exact h1.wf
    · intro f m
      cases List.mem_append.mp m with
      | inl m => exact hFr.sc f m
      | inr m => rw [List.mem_singleton] at m; rw [m]; exact h1.sc
    · have key : ∀ f ∈ rest, DimsAgree (fi d) (fi f) := by
        intro f m i hi hf
        rw [h1.has] at hi
        simp only [Bool.and_eq_true, decide_eq_true_eq] at hi
        rw [h1.dim i hi.2 hi.1]
        obtain ⟨g, mg, hg⟩ := (hasL_iff i W).mp hi.1
        rw [dimL_eq W hFW i g mg hg]
        exact hF.ag g (by simp [mg]) f (by simp [m]) i hg hf
      intro f m f' m'
      cases List.mem_append.mp m with
      | inl m =>
        cases List.mem_append.mp m' with
        | inl m' => exact hFr.ag f m f' m'
        | inr m' => rw [List.mem_singleton] at m'; rw [m']; exact (key f m).symm
      | inr m =>
        rw [List.mem_singleton] at m; rw [m]
        cases List.mem_append.mp m' with
        | inl m' => exact key f' m'
        | inr m' => rw [List.mem_singleton] at m'; rw [m']; exact fun i _ _ => rfl
  have hP := makeProduct_spec ρ (rest ++ [d]) r hFS h3 hu
  have hrk : hasL k rest = false := by
    rw [Bool.eq_false_iff]; intro h
    obtain ⟨f, m, x⟩ := (hasL_iff k rest).mp h
    rw [hrest f m] at x; cases x
  refine ⟨hP.wf, hP.sc, ?_, ?_, ?_⟩
  · intro i
    rw [hP.has, hasL_append, hasL_append, hasL_single, h1.has]
    by_cases b : i = k
    · subst b; simp [hrk]
    · simp [b, Bool.or_comm]
  · intro i hik hi
    have hi2 : hasL i (rest ++ [d]) = true := by
      rw [hasL_append, hasL_single, h1.has]
      rw [hasL_append] at hi
      simp only [Bool.or_eq_true] at hi ⊢
      cases hi with
      | inl h => right; simp [h, hik]
      | inr h => left; exact h
    rw [hP.dim i hi2]
    rw [hasL_append] at hi
    by_cases hr : hasL i rest = true
    · rw [dimL_append_left rest [d] hFS i hr, dimL_append_right W rest hF i hr]
    · have hw : hasL i W = true := by simpa [hr] using hi
      have hs : FI.has i (fi d) = true := by rw [h1.has]; simp [hw, hik]
      rw [dimL_append_right rest [d] hFS i (by rw [hasL_single]; exact hs), dimL_single i d hs, h1.dim i hik hw,
        dimL_append_left W rest hF i hw]
  · intro s ι hr
    rw [hP.val, prodVal_append, prodVal_single]
    have hdk : dimL k (W ++ rest) = dimL k W := by
      by_cases hk : hasL k W = true
      · exact dimL_append_left W rest hF k hk
      · have hk' : hasL k W = false := by simpa using hk
        rw [dimL_nothas W k hk', dimL_nothas (W ++ rest) k (by rw [hasL_append, hk', hrk]; rfl)]
    rw [h1.val s ι (fun i hik hw => by
      have := hr i hik (by rw [hasL_append, hw]; rfl)
      rwa [dimL_append_left W rest hF i hw] at this), hdk, Finset.mul_sum]
    apply Finset.sum_congr rfl
    intro v _
    rw [prodVal_append, prodVal_set_irrelevant ρ s ι k v rest hFr hrest, mul_comm]

theorem makeProduct_no_marker (fs : List Expr) (r : Expr) (h : makeProduct fs = some r) (hu : isUnsupported r = false) :
    ∀ f ∈ fs, isUnsupported f = false := by
  cases fs with
  | nil => simp [makeProduct] at h
  | cons f fs =>
    simp only [makeProduct] at h
    by_cases hany : (f :: fs).any isUnsupported = true
    · rw [if_pos hany] at h
      simp only [Option.some.injEq] at h; subst h; simp [isUnsupported, unsupported] at hu
    · intro g mg
      simp only [List.any_eq_true, not_exists, not_and, Bool.not_eq_true] at hany
      exact hany g mg

/-- facts about an `IndexSum` node -/
theorem indexSum_facts (x : List Nat) (a : Expr) (j : Nat) (hw : WF (.op .indexSum x [a, .mi [.free j]]) = true) :
    WF a = true ∧ FI.has j (fi a) = true ∧ fi (.op .indexSum x [a, .mi [.free j]]) = FI.remove j (fi a) ∧
    shape (.op .indexSum x [a, .mi [.free j]]) = shape a := by
  simp only [WF, Bool.and_eq_true] at hw
  exact ⟨hw.1, hw.2, by simp [fi], by simp [shape]⟩

theorem indexSum_eval (ρ : Env K) (s : Side) (ι : IdxEnv) (x : List Nat) (a : Expr) (j : Nat) (c : List Nat) :
    eval ρ s ι (.op .indexSum x [a, .mi [.free j]]) c = ∑ v ∈ range (FI.dimOf j (fi a)), eval ρ s (ι.set j v) a c := by
  simp only [eval]
  exact sumRange_eq_sum _ _

/-- `sum_k rest * (sum_j summand)  =  rest * sum_j (sum_k summand)` -/
theorem interchange_case (ρ : Env K) (rest : List Expr) (x : List Nat) (summand : Expr) (j k : Nat) (inner S r : Expr)
    (hF : Factors ([.op .indexSum x [summand, .mi [.free j]]] ++ rest))
    (hk : FI.has k (fi (.op .indexSum x [summand, .mi [.free j]])) = true)
    (hrest : ∀ f ∈ rest, FI.has k (fi f) = false)
    (h1 : SumSpec ρ (leaves summand) k inner)
    (h2 : WF inner = true → shape inner = [] → FI.has j (fi inner) = true → SumSpec ρ [inner] j S)
    (h3 : makeProduct (rest ++ [S]) = some r) (hu : isUnsupported r = false) :
    SumSpec ρ ([.op .indexSum x [summand, .mi [.free j]]] ++ rest) k r := by
  have hw := hF.wf (.op .indexSum x [summand, .mi [.free j]]) (by simp)
  have hs := hF.sc (.op .indexSum x [summand, .mi [.free j]]) (by simp)
  obtain ⟨wa, hj, hfi, hsh⟩ := indexSum_facts x summand j hw
  rw [hsh] at hs
  obtain ⟨fl, hl, dl, vl⟩ := leaves_spec (K := K) summand wa hs
  rw [hfi, has_remove] at hk
  simp only [Bool.and_eq_true, decide_eq_true_eq] at hk
  have hjk : j ≠ k := fun e => hk.2 e.symm
  have hjG : hasL j (leaves summand) = true := by rw [hl]; exact hj
  have dG : ∀ i, FI.has i (fi summand) = true → dimL i (leaves summand) = FI.dimOf i (fi summand) := by
    intro i hi
    have : hasL i (leaves summand) = true := by rw [hl]; exact hi
    obtain ⟨f, m, hf⟩ := (hasL_iff _ _).mp this
    rw [dimL_eq _ fl i f m hf, dl i f m hf]
  apply finish ρ _ (leaves summand) rest k j inner S r hjk hF fl hrest
  · intro i; rw [hasL_single, hfi, has_remove, hl]
  · intro i hij hi
    rw [hl] at hi
    have : FI.has i (fi (.op .indexSum x [summand, .mi [.free j]])) = true := by rw [hfi, has_remove]; simp [hi, hij]
    rw [dimL_single i _ this, hfi, dimOf_remove i j hij, dG i hi]
  · exact hjG
  · intro s ι
    rw [prodVal_single, indexSum_eval, dG j hj]
    exact Finset.sum_congr rfl (fun u _ => (vl ρ s _).symm)
  · exact h1
  · exact h2 h1.wf h1.sc (by rw [h1.has]; simp [hjG, hjk])
  · exact h3
  · exact hu


/-- the factor list handed to the inner `_cancel` by the push branch is well formed -/
theorem push_factors (rest : List Expr) (f1 : Expr) (x : List Nat) (summand : Expr) (j : Nat)
    (hF : Factors ([f1, .op .indexSum x [summand, .mi [.free j]]] ++ rest))
    (hj1 : FI.has j (fi f1) = false) : Factors (f1 :: leaves summand) := by
  have hw := hF.wf (.op .indexSum x [summand, .mi [.free j]]) (by simp)
  have hs := hF.sc (.op .indexSum x [summand, .mi [.free j]]) (by simp)
  have w1 := hF.wf f1 (by simp)
  have s1 := hF.sc f1 (by simp)
  have ag12 := hF.ag f1 (by simp) (.op .indexSum x [summand, .mi [.free j]]) (by simp)
  obtain ⟨wa, hj, hfi, hsh⟩ := indexSum_facts x summand j hw
  rw [hsh] at hs
  obtain ⟨fl, hl, dl, vl⟩ := leaves_spec (K := ℚ) summand wa hs
  have key : ∀ f ∈ leaves summand, DimsAgree (fi f1) (fi f) := by
    intro f m i h1i hfi'
    have hij : i ≠ j := by intro e; subst e; rw [hj1] at h1i; cases h1i
    have hsi : FI.has i (fi summand) = true := by rw [← hl]; exact (hasL_iff _ _).mpr ⟨f, m, hfi'⟩
    rw [dl i f m hfi', ag12 i h1i (by rw [hfi, has_remove]; simp [hsi, hij]), hfi, dimOf_remove i j hij]
  refine ⟨?_, ?_, ?_⟩
  · intro f m
    cases List.mem_cons.mp m with
    | inl e => rw [e]; exact w1
    | inr m => exact fl.wf f m
  · intro f m
    cases List.mem_cons.mp m with
    | inl e => rw [e]; exact s1
    | inr m => exact fl.sc f m
  · intro f m f' m'
    cases List.mem_cons.mp m with
    | inl e =>
      rw [e]
      cases List.mem_cons.mp m' with
      | inl e' => rw [e']; exact fun i _ _ => rfl
      | inr m' => exact key f' m'
    | inr m =>
      cases List.mem_cons.mp m' with
      | inl e' => rw [e']; exact (key f m).symm
      | inr m' => exact fl.ag f m f' m'

/-- `sum_k rest * f1 * (sum_j summand)  =  rest * sum_j (sum_k f1 * summand)` when j is not free in f1 -/
theorem push_case (ρ : Env K) (rest : List Expr) (f1 : Expr) (x : List Nat) (summand : Expr) (j k : Nat) (inner S r : Expr)
    (hF : Factors ([f1, .op .indexSum x [summand, .mi [.free j]]] ++ rest))
    (hk : FI.has k (fi (.op .indexSum x [summand, .mi [.free j]])) = true)
    (hj1 : FI.has j (fi f1) = false)
    (hrest : ∀ f ∈ rest, FI.has k (fi f) = false)
    (h1 : Factors (f1 :: leaves summand) → SumSpec ρ (f1 :: leaves summand) k inner)
    (h2 : WF inner = true → shape inner = [] → FI.has j (fi inner) = true → SumSpec ρ [inner] j S)
    (h3 : makeProduct (rest ++ [S]) = some r) (hu : isUnsupported r = false) :
    SumSpec ρ ([f1, .op .indexSum x [summand, .mi [.free j]]] ++ rest) k r := by
  have hw := hF.wf (.op .indexSum x [summand, .mi [.free j]]) (by simp)
  have hs := hF.sc (.op .indexSum x [summand, .mi [.free j]]) (by simp)
  have w1 := hF.wf f1 (by simp)
  have s1 := hF.sc f1 (by simp)
  have ag12 := hF.ag f1 (by simp) (.op .indexSum x [summand, .mi [.free j]]) (by simp)
  obtain ⟨wa, hj, hfi, hsh⟩ := indexSum_facts x summand j hw
  rw [hsh] at hs
  obtain ⟨fl, hl, dl, vl⟩ := leaves_spec (K := K) summand wa hs
  rw [hfi, has_remove] at hk
  simp only [Bool.and_eq_true, decide_eq_true_eq] at hk
  have hjk : j ≠ k := fun e => hk.2 e.symm
  have hG : Factors (f1 :: leaves summand) := push_factors rest f1 x summand j hF hj1
  have hhG : ∀ i, hasL i (f1 :: leaves summand) = (FI.has i (fi f1) || FI.has i (fi summand)) := by
    intro i
    have : hasL i (f1 :: leaves summand) = (FI.has i (fi f1) || hasL i (leaves summand)) := by simp [hasL]
    rw [this, hl]
  have hjG : hasL j (f1 :: leaves summand) = true := by rw [hhG]; simp [hj]
  have dG1 : ∀ i, FI.has i (fi f1) = true → dimL i (f1 :: leaves summand) = FI.dimOf i (fi f1) :=
    fun i hi => dimL_eq _ hG i f1 (by simp) hi
  have dG2 : ∀ i, FI.has i (fi summand) = true → dimL i (f1 :: leaves summand) = FI.dimOf i (fi summand) := by
    intro i hi
    have : hasL i (leaves summand) = true := by rw [hl]; exact hi
    obtain ⟨f, m, hf⟩ := (hasL_iff _ _).mp this
    rw [dimL_eq _ hG i f (by simp [m]) hf, dl i f m hf]
  have hFW : Factors [f1, .op .indexSum x [summand, .mi [.free j]]] := hF.sub (fun g mg => by simp at mg ⊢; tauto)
  have h1' := h1 hG
  apply finish ρ _ (f1 :: leaves summand) rest k j inner S r hjk hF hG hrest
  · intro i
    have : hasL i [f1, .op .indexSum x [summand, .mi [.free j]]] =
        (FI.has i (fi f1) || FI.has i (fi (.op .indexSum x [summand, .mi [.free j]]))) := by simp [hasL]
    rw [this, hfi, has_remove, hhG]
    by_cases hij : i = j
    · subst hij; simp [hj1]
    · simp [hij]
  · intro i hij hi
    rw [hhG] at hi
    by_cases h1i : FI.has i (fi f1) = true
    · rw [dimL_eq _ hFW i f1 (by simp) h1i, dG1 i h1i]
    · have hsi : FI.has i (fi summand) = true := by simpa [h1i] using hi
      have : FI.has i (fi (.op .indexSum x [summand, .mi [.free j]])) = true := by rw [hfi, has_remove]; simp [hsi, hij]
      rw [dimL_eq _ hFW i _ (by simp) this, hfi, dimOf_remove i j hij, dG2 i hsi]
  · exact hjG
  · intro s ι
    have : prodVal ρ s ι [f1, .op .indexSum x [summand, .mi [.free j]]] =
        eval ρ s ι f1 [] * eval ρ s ι (.op .indexSum x [summand, .mi [.free j]]) [] := by simp [prodVal]
    rw [this, indexSum_eval, dG2 j hj, Finset.mul_sum]
    apply Finset.sum_congr rfl
    intro u _
    rw [prodVal_cons, vl, eval_set_irrelevant ρ s f1 w1 [] (by rw [s1]) ι j u hj1]
  · exact h1'
  · exact h2 h1'.wf h1'.sc (by rw [h1'.has]; simp [hjG, hjk])
  · exact h3
  · exact hu


/-- `IndexSum(e, k)` through the constructor is the sum over k -/
theorem mkIndexSum_sumSpec (ρ : Env K) (e : Expr) (k : Nat) (r : Expr) (hw : WF e = true) (hs : shape e = [])
    (h : mkIndexSum e k = some r) (hu : isUnsupported r = false) : SumSpec ρ [e] k r := by
  obtain ⟨w, sh, hh, hd⟩ := mkIndexSum_wf e k r hw h hu
  refine ⟨w, by rw [sh, hs], fun i => by rw [hh, hasL_single], fun i hik hi => ?_, fun s ι _ => ?_⟩
  · rw [hasL_single] at hi
    rw [hd i hik, dimL_single i e hi]
  · rw [C05_mkIndexSum ρ s e k ι r hw h hu [] (by rw [hs])]
    by_cases hk : FI.has k (fi e) = true
    · rw [dimL_single k e hk]
      exact Finset.sum_congr rfl (fun v _ => (prodVal_single ρ s _ e).symm)
    · have hk' : FI.has k (fi e) = false := by simpa using hk
      rw [dim_nothas _ _ hk', dimL_nothas [e] k (by rw [hasL_single]; exact hk')]
      simp

theorem good_indexSum (P : NodePred) (x : List Nat) (a : Expr) (j : Nat) :
    Good P (.op .indexSum x [a, .mi [.free j]]) ↔ Good P a ∧ shape a = [] := by simp [Good]

/-- **Soundness of `_cancel` / `_index_sum`** for a sound `match` rule, with the guard on the push branch,
    for every recursion depth. -/
theorem cancel_sound (ρ : Env K) (P : NodePred) (m : MatchFn) (hm : MatchSound ρ P m) (g : Guards) (hg : g.push = true) : ∀ fuel : Nat,
    (∀ fs k r, cancelF m g fuel fs k = some (some r) → isUnsupported r = false → Factors fs → (∀ f ∈ fs, Good P f) →
        SumSpec ρ fs k r ∧ Good P r) ∧
    (∀ rest f1 f2 k r, pushF m g fuel rest f1 f2 k = some (some r) → isUnsupported r = false →
        Factors ([f1, f2] ++ rest) → FI.has k (fi f2) = true → (∀ f ∈ rest, FI.has k (fi f) = false) →
        (∀ f ∈ [f1, f2] ++ rest, Good P f) →
        SumSpec ρ ([f1, f2] ++ rest) k r ∧ Good P r) ∧
    (∀ e k r, indexSumF m g fuel e k = some r → isUnsupported r = false → WF e = true → shape e = [] → Good P e →
        SumSpec ρ [e] k r ∧ Good P r) := by
  intro fuel
  induction fuel with
  | zero => exact ⟨fun _ _ _ h => by simp [cancelF] at h, fun _ _ _ _ _ h => by simp [pushF] at h, fun _ _ _ h => by simp [indexSumF] at h⟩
  | succ fuel ih =>
    obtain ⟨ih1, ih2, ih3⟩ := ih
    refine ⟨?_, ?_, ?_⟩
    · intro fs k r h hu hf hgd
      have hp : (fs.filter (hasK k) ++ fs.filter (fun f => !hasK k f)).Perm fs := List.filter_append_perm _ fs
      have hFp : Factors (fs.filter (hasK k) ++ fs.filter (fun f => !hasK k f)) := hf.perm hp.symm
      have hGp : ∀ f ∈ fs.filter (hasK k) ++ fs.filter (fun f => !hasK k f), Good P f := fun f mf => hgd f (hp.mem_iff.mp mf)
      have hwk : ∀ f ∈ fs.filter (hasK k), FI.has k (fi f) = true := fun f mf => by
        have := (List.mem_filter.mp mf).2; simpa [hasK] using this
      have hrk : ∀ f ∈ fs.filter (fun f => !hasK k f), FI.has k (fi f) = false := fun f mf => by
        have := (List.mem_filter.mp mf).2; simpa [hasK] using this
      simp only [cancelF] at h
      generalize hW : fs.filter (hasK k) = withK at h hp hFp hwk hGp
      generalize hR : fs.filter (fun f => !hasK k f) = rest at h hp hFp hrk hGp
      split at h
      · cases h
      · rename_i r' hm'
        simp only [Option.some.injEq] at h; subst h
        obtain ⟨sp, gd⟩ := hm withK rest k r' hm' hu hFp hwk hrk hGp
        exact ⟨sp.perm hp hFp, gd⟩
      · split at h
        · -- interchange
          rename_i x summand j _hm0
          split at h
          · cases h
          · cases h
          · rename_i inner hin
            split at h
            · simp only [Option.some.injEq] at h; subst h; simp [isUnsupported, unsupported] at hu
            · rename_i hui
              split at h
              · cases h
              · rename_i S hS
                cases hmp : makeProduct (rest ++ [S]) with
                | none => rw [hmp] at h; cases h
                | some r' =>
                  rw [hmp] at h
                  simp only [Option.map_some, Option.some.injEq] at h; subst h
                  have hSu := makeProduct_no_marker _ _ hmp hu S (by simp)
                  have hw := hFp.wf (.op .indexSum x [summand, .mi [.free j]]) (by simp)
                  have hs := hFp.sc (.op .indexSum x [summand, .mi [.free j]]) (by simp)
                  obtain ⟨wa, _, _, hsh⟩ := indexSum_facts x summand j hw
                  rw [hsh] at hs
                  have fl := (leaves_spec (K := K) summand wa hs).1
                  have gs : Good P summand := ((good_indexSum P x summand j).mp (hGp _ (by simp))).1
                  obtain ⟨h1, g1⟩ := ih1 (leaves summand) k inner hin (by simpa using hui) fl (good_leaves P summand gs)
                  have g2 : Good P S := (ih3 inner j S hS hSu h1.wf h1.sc g1).2
                  refine ⟨(interchange_case ρ rest x summand j k inner S r' hFp (hwk _ (by simp)) hrk h1
                    (fun w s _ => (ih3 inner j S hS hSu w s g1).1) hmp hu).perm hp hFp, ?_⟩
                  apply good_makeProduct P _ _ _ hmp hu
                  intro f mf
                  cases List.mem_append.mp mf with
                  | inl m => exact hGp f (by simp [m])
                  | inr m => rw [List.mem_singleton] at m; rw [m]; exact g2
        · -- push
          rename_i w0 w1 _hm0
          split at h
          · cases h
          · rename_i r' hp1
            simp only [Option.some.injEq] at h; subst h
            obtain ⟨sp, gd⟩ := ih2 rest w0 w1 k r' hp1 hu hFp (hwk w1 (by simp)) hrk hGp
            exact ⟨sp.perm hp hFp, gd⟩
          · rename_i hp1
            have hp2 : ([w1, w0] ++ rest).Perm ([w0, w1] ++ rest) := by
              simp only [List.cons_append, List.nil_append]
              exact List.Perm.swap w0 w1 rest
            have hFp2 : Factors ([w1, w0] ++ rest) := hFp.perm hp2.symm
            obtain ⟨sp, gd⟩ := ih2 rest w1 w0 k r h hu hFp2 (hwk w0 (by simp)) hrk (fun f mf => hGp f (hp2.mem_iff.mp mf))
            exact ⟨(sp.perm hp2 hFp2).perm hp hFp, gd⟩
        · cases h
    · intro rest f1 f2 k r h hu hf hk2 hrk hgd
      simp only [pushF] at h
      split at h
      · rename_i x1 as1 x summand j
        split at h
        · cases h
        · rename_i hgd'
          have hj1 : FI.has j (fi (.op .indexed x1 as1)) = false := by
            simp only [hg, Bool.true_and, Bool.not_eq_true, hasK] at hgd'; exact hgd'
          split at h
          · cases h
          · cases h
          · rename_i inner hin
            split at h
            · simp only [Option.some.injEq] at h; subst h; simp [isUnsupported, unsupported] at hu
            · rename_i hui
              split at h
              · cases h
              · rename_i S hS
                cases hmp : makeProduct (rest ++ [S]) with
                | none => rw [hmp] at h; cases h
                | some r' =>
                  rw [hmp] at h
                  simp only [Option.map_some, Option.some.injEq] at h; subst h
                  have hSu := makeProduct_no_marker _ _ hmp hu S (by simp)
                  have gs : Good P summand := ((good_indexSum P x summand j).mp (hgd _ (by simp))).1
                  have gG : ∀ f ∈ (.op .indexed x1 as1) :: leaves summand, Good P f := by
                    intro f mf
                    cases List.mem_cons.mp mf with
                    | inl e => rw [e]; exact hgd _ (by simp)
                    | inr m => exact good_leaves P summand gs f m
                  -- the inner results are good whenever the inner factor list is well formed
                  have hw := hf.wf (.op .indexSum x [summand, .mi [.free j]]) (by simp)
                  have key := push_case ρ rest (.op .indexed x1 as1) x summand j k inner S r' hf hk2 hj1 hrk
                  have hFG := push_factors rest (.op .indexed x1 as1) x summand j hf hj1
                  obtain ⟨h1, g1⟩ := ih1 _ k inner hin (by simpa using hui) hFG gG
                  have g2 : Good P S := (ih3 inner j S hS hSu h1.wf h1.sc g1).2
                  refine ⟨key (fun _ => h1) (fun w s _ => (ih3 inner j S hS hSu w s g1).1) hmp hu, ?_⟩
                  apply good_makeProduct P _ _ _ hmp hu
                  intro f mf
                  cases List.mem_append.mp mf with
                  | inl m => exact hgd f (by simp [m])
                  | inr m => rw [List.mem_singleton] at m; rw [m]; exact g2
      · cases h
    · intro e k r h hu hw hs hgd
      simp only [indexSumF] at h
      obtain ⟨fl, hl, dl, vl⟩ := leaves_spec (K := K) e hw hs
      split at h
      · cases h
      · rename_i r' hc
        simp only [Option.some.injEq] at h; subst h
        obtain ⟨sp, gd⟩ := ih1 (leaves e) k r' hc hu fl (good_leaves P e hgd)
        refine ⟨sp.of_eq (fun i => by rw [hl, hasL_single]) (fun i hi => ?_) (fun s ι => by rw [vl, prodVal_single]), gd⟩
        rw [hasL_single] at hi
        have : hasL i (leaves e) = true := by rw [hl]; exact hi
        obtain ⟨f, mf, hf⟩ := (hasL_iff _ _).mp this
        rw [dimL_eq _ fl i f mf hf, dl i f mf hf, dimL_single i e hi]
      · exact ⟨mkIndexSum_sumSpec ρ e k r hw hs h hu, good_mkIndexSum P e k r hgd hw hs h hu⟩

end UflVerif.C09
