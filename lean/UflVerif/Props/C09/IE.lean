/-
C09 — soundness of `IdentityEliminator.match` (with the substitution guard and the keep-the-free-index guard):
`sum_k Identity[a,k] * others = others[k := a]`.
-/
import UflVerif.Props.C09.Subst

namespace UflVerif.C09
open UflVerif Expr C05 FIlemmas Finset

variable {K : Type} [Field K] [CharZero K]

theorem perm_take_drop {α : Type} : ∀ (l : List α) (p : Nat) (f : α), l[p]? = some f →
    (f :: (l.take p ++ l.drop (p + 1))).Perm l
  | [], p, f, h => by simp at h
  | x :: xs, 0, f, h => by
    simp only [List.getElem?_cons_zero, Option.some.injEq] at h; subst h; simp
  | x :: xs, p + 1, f, h => by
    simp only [List.getElem?_cons_succ] at h
    have ih := perm_take_drop xs p f h
    simp only [List.take_succ_cons, List.drop_succ_cons, List.cons_append]
    exact (List.Perm.swap x f _).trans (List.Perm.cons x ih)

theorem findIdentity_spec (k : Nat) : ∀ (l : List Expr) (j0 i : Nat) (a : Idx), findIdentity k l j0 = some (i, a) →
    ∃ p, i = j0 + p ∧ ∃ f, l[p]? = some f ∧ identityIndex f k = some a
  | [], j0, i, a, h => by simp [findIdentity] at h
  | f :: fs, j0, i, a, h => by
    simp only [findIdentity] at h
    split at h
    · rename_i a' ha'
      simp only [Option.some.injEq, Prod.mk.injEq] at h
      obtain ⟨rfl, rfl⟩ := h
      exact ⟨0, rfl, f, by simp, ha'⟩
    · obtain ⟨p, e, f', hp, hf'⟩ := findIdentity_spec k fs (j0 + 1) i a h
      exact ⟨p + 1, by omega, f', by simpa using hp, hf'⟩

/-- the shape of a factor recognised by `_identity_index` -/
theorem identityIndex_spec (f : Expr) (k : Nat) (a : Idx) (h : identityIndex f k = some a) :
    ∃ x d a' b', f = .op .indexed x [.term d, .mi [a', b']] ∧ d.cls = "Identity" ∧ a ≠ .free k ∧
      ((a' = .free k ∧ b' = a) ∨ (b' = .free k ∧ a' = a)) := by
  unfold identityIndex at h
  split at h
  · rename_i x d a' b'
    split at h
    · rename_i hc
      split at h
      · rename_i h1
        simp only [Bool.and_eq_true, beq_iff_eq, bne_iff_ne, ne_eq] at h1
        simp only [Option.some.injEq] at h; subst h
        exact ⟨x, d, a', b', rfl, by simpa using hc, h1.2, Or.inl ⟨h1.1, rfl⟩⟩
      · split at h
        · rename_i h2
          simp only [Bool.and_eq_true, beq_iff_eq, bne_iff_ne, ne_eq] at h2
          simp only [Option.some.injEq] at h; subst h
          exact ⟨x, d, a', b', rfl, by simpa using hc, h2.2, Or.inr ⟨h2.1, rfl⟩⟩
        · cases h
    · cases h
  · cases h


theorem eval_identity_like (ρ : Env K) (s : Side) (ι : IdxEnv) (x : List Nat) (d : TermData) (a' b' : Idx)
    (hcls : d.cls = "Identity") :
    eval ρ s ι (.op .indexed x [.term d, .mi [a', b']]) [] = if Idx.resolve ι a' = Idx.resolve ι b' then 1 else 0 := by
  simp [eval, hcls]

/-- **the Kronecker delta lemma**: `sum_k Identity(n)[a,k] * others = others[k := a]` -/
theorem ie_core (ρ : Env K) (P : NodePred) (k : Nat) (a : Idx) (n : Nat) (x : List Nat) (d : TermData) (a' b' : Idx)
    (hcls : d.cls = "Identity") (hshape : d.shape = [n, n]) (hak : a ≠ .free k)
    (hpos : (a' = .free k ∧ b' = a) ∨ (b' = .free k ∧ a' = a)) (others : List Expr) (p E r : Expr)
    (hF : Factors (.op .indexed x [.term d, .mi [a', b']] :: others))
    (hP' : ProdSpec ρ others p)
    (hkeep : ∀ c, a = .free c → FI.has k (fi p) = true ∨ FI.has c (fi p) = true)
    (hs : Sub ρ P k a p E) (he : Equiv ρ E r) :
    SumSpec ρ (.op .indexed x [.term d, .mi [a', b']] :: others) k r := by
  obtain ⟨hh, hd0, hd1⟩ := idx2_facts x (.term d) n n (by simp [shape, hshape]) (by simp [fi]) a' b'
  have hwδ := hF.wf (.op .indexed x [.term d, .mi [a', b']]) (by simp)
  have hFo : Factors others := hF.sub (fun g mg => by simp [mg])
  -- the delta: its free indices are k and (if free) a, both of extent n
  have hδh : ∀ i, FI.has i (fi (.op .indexed x [.term d, .mi [a', b']])) = (decide (i = k) || (a == .free i)) := by
    intro i
    rw [hh]
    rcases hpos with ⟨e1, e2⟩ | ⟨e1, e2⟩
    · subst e1; subst e2; rw [free_beq]
      by_cases hik : i = k
      · subst hik; simp
      · have : (k == i) = false := beq_eq_false_iff_ne.mpr (fun e => hik e.symm)
        simp [hik, this]
    · subst e1; subst e2; rw [free_beq, Bool.or_comm]
      by_cases hik : i = k
      · subst hik; simp
      · have : (k == i) = false := beq_eq_false_iff_ne.mpr (fun e => hik e.symm)
        simp [hik, this]
  have hδd : ∀ i, FI.has i (fi (.op .indexed x [.term d, .mi [a', b']])) = true →
      FI.dimOf i (fi (.op .indexed x [.term d, .mi [a', b']])) = n := by
    intro i hi
    by_cases h0 : a' = .free i
    · exact hd0 i h0
    · have h1 : b' = .free i := by
        rw [hh] at hi
        simp only [Bool.or_eq_true, beq_iff_eq] at hi
        exact hi.resolve_left h0
      exact hd1 i h0 h1
  have hδv : ∀ s ι v, eval ρ s (ι.set k v) (.op .indexed x [.term d, .mi [a', b']]) [] =
      if v = Idx.resolve ι a then 1 else 0 := by
    intro s ι v
    have hk' : Idx.resolve (ι.set k v) (.free k) = v := by simp [Idx.resolve, IdxEnv.set]
    rw [eval_identity_like ρ s _ x d a' b' hcls]
    rcases hpos with ⟨e1, e2⟩ | ⟨e1, e2⟩
    · subst e1; subst e2
      rw [hk', resolve_set_ne ι k v b' hak]
    · subst e1; subst e2
      rw [hk', resolve_set_ne ι k v a' hak]
      by_cases h : v = Idx.resolve ι a'
      · simp [h]
      · have h' : ¬ Idx.resolve ι a' = v := fun e => h e.symm
        simp [h, h']
  have hkδ : FI.has k (fi (.op .indexed x [.term d, .mi [a', b']])) = true := by rw [hδh]; simp
  have hdimk : dimL k (.op .indexed x [.term d, .mi [a', b']] :: others) = n := by
    rw [dimL_eq _ hF k _ (by simp) hkδ, hδd k hkδ]
  have hLh : ∀ i, hasL i (.op .indexed x [.term d, .mi [a', b']] :: others) =
      ((decide (i = k) || (a == .free i)) || FI.has i (fi p)) := by
    intro i
    have : hasL i (.op .indexed x [.term d, .mi [a', b']] :: others) =
        (FI.has i (fi (.op .indexed x [.term d, .mi [a', b']])) || hasL i others) := by simp [hasL]
    rw [this, hδh, hP'.has]
  have hdimp : ∀ i, FI.has i (fi p) = true → dimL i (.op .indexed x [.term d, .mi [a', b']] :: others) = FI.dimOf i (fi p) := by
    intro i hi
    have hio : hasL i others = true := by rw [← hP'.has]; exact hi
    obtain ⟨g, mg, hg⟩ := (hasL_iff _ _).mp hio
    rw [dimL_eq _ hF i g (by simp [mg]) hg, hP'.dim i hio, dimL_eq _ hFo i g mg hg]
  have hdimδ : ∀ i, FI.has i (fi (.op .indexed x [.term d, .mi [a', b']])) = true →
      dimL i (.op .indexed x [.term d, .mi [a', b']] :: others) = n := by
    intro i hi; rw [dimL_eq _ hF i _ (by simp) hi, hδd i hi]
  -- extents in p of k and a agree with the delta's
  have hpk : FI.has k (fi p) = true → FI.dimOf k (fi p) = n := fun h => by rw [← hdimp k h, hdimk]
  have hpa : ∀ c, a = .free c → FI.has c (fi p) = true → FI.dimOf c (fi p) = n := by
    intro c hc h
    rw [← hdimp c h, hdimδ c (by rw [hδh]; simp [hc])]
  -- free indices of E
  have hEh : ∀ i, FI.has i (fi E) = ((decide (i = k) || (a == .free i) || FI.has i (fi p)) && decide (i ≠ k)) := by
    intro i
    rw [hs.fi.has, Bool.eq_iff_iff]
    simp only [Bool.or_eq_true, Bool.and_eq_true, decide_eq_true_eq, beq_iff_eq]
    constructor
    · rintro (⟨h1, h2⟩ | ⟨h1, h2⟩)
      · exact ⟨Or.inr h1, h2⟩
      · exact ⟨Or.inl (Or.inr h2), fun e => hak (by rw [h2, e])⟩
    · rintro ⟨(h1 | h1) | h1, h2⟩
      · exact absurd h1 h2
      · cases hkeep i h1 with
        | inl h => right; exact ⟨h, h1⟩
        | inr h => left; exact ⟨h, h2⟩
      · left; exact ⟨h1, h2⟩
  have hEd : ∀ i, FI.has i (fi E) = true → FI.dimOf i (fi E) = dimL i (.op .indexed x [.term d, .mi [a', b']] :: others) := by
    intro i hi
    have hi' := hi
    rw [hs.fi.has] at hi'
    simp only [Bool.or_eq_true, Bool.and_eq_true, decide_eq_true_eq, beq_iff_eq] at hi'
    rcases hi' with ⟨h1, h2⟩ | ⟨h1, h2⟩
    · rw [hs.fi.dim i h1 h2, hdimp i h1]
    · rw [hs.fi.dimk i h1 h2, hpk h1, hdimδ i (by rw [hδh]; simp [h2])]
  refine ⟨he.wf, by rw [he.shape, hs.shape, hP'.sc], fun i => by rw [he.fi, hEh, hLh], ?_, ?_⟩
  · intro i hik hi
    have : FI.has i (fi E) = true := by rw [hEh, ← hLh, hi]; simp [hik]
    rw [he.fi, hEd i this]
  · intro s ι hr
    have hrE : InRange ι (fi E) := by
      intro i hi
      have hi2 := hi
      rw [hEh, ← hLh] at hi2
      simp only [Bool.and_eq_true, decide_eq_true_eq] at hi2
      rw [hEd i hi]
      exact hr i hi2.2 hi2.1
    rw [he.val s ι [] hrE (by rw [hs.shape, hP'.sc]), hs.val, hP'.val, hdimk]
    -- the value of a is inside the range of the sum
    have hra : Idx.resolve ι a < n := by
      cases ha' : a with
      | fixed v =>
        have hwf := wf_indexed_term x d n n hshape a' b' hwδ
        rcases hpos with ⟨_, e2⟩ | ⟨_, e2⟩
        · exact hwf.2 v (by rw [e2, ha'])
        · exact hwf.1 v (by rw [e2, ha'])
      | free c =>
        have hck : c ≠ k := fun e => hak (by rw [ha', e])
        have hcδ : FI.has c (fi (.op .indexed x [.term d, .mi [a', b']])) = true := by rw [hδh]; simp [ha']
        have := hr c hck (by rw [hLh]; simp [ha'])
        rw [hdimδ c hcδ] at this
        exact this
    have e1 : ∀ v ∈ range n, prodVal ρ s (ι.set k v) (.op .indexed x [.term d, .mi [a', b']] :: others) =
        if v = Idx.resolve ι a then prodVal ρ s (ι.set k (Idx.resolve ι a)) others else 0 := by
      intro v _
      rw [prodVal_cons, hδv]
      by_cases h : v = Idx.resolve ι a
      · simp [h]
      · simp [h]
    rw [Finset.sum_congr rfl e1, Finset.sum_ite_eq' (range n) (Idx.resolve ι a)]
    simp [hra]


/-- free indices of a Kronecker delta in k -/
theorem delta_fi (x : List Nat) (d : TermData) (n k : Nat) (a a' b' : Idx) (hshape : d.shape = [n, n])
    (hpos : (a' = .free k ∧ b' = a) ∨ (b' = .free k ∧ a' = a)) :
    (∀ i, FI.has i (fi (.op .indexed x [.term d, .mi [a', b']])) = (decide (i = k) || (a == .free i))) ∧
    (∀ i, FI.has i (fi (.op .indexed x [.term d, .mi [a', b']])) = true →
      FI.dimOf i (fi (.op .indexed x [.term d, .mi [a', b']])) = n) := by
  obtain ⟨hh, hd0, hd1⟩ := idx2_facts x (.term d) n n (by simp [shape, hshape]) (by simp [fi]) a' b'
  refine ⟨fun i => ?_, fun i hi => ?_⟩
  · rw [hh]
    rcases hpos with ⟨e1, e2⟩ | ⟨e1, e2⟩
    · subst e1; subst e2; rw [free_beq]
      by_cases hik : i = k
      · subst hik; simp
      · have : (k == i) = false := beq_eq_false_iff_ne.mpr (fun e => hik e.symm)
        simp [hik, this]
    · subst e1; subst e2; rw [free_beq, Bool.or_comm]
      by_cases hik : i = k
      · subst hik; simp
      · have : (k == i) = false := beq_eq_false_iff_ne.mpr (fun e => hik e.symm)
        simp [hik, this]
  · by_cases h0 : a' = .free i
    · exact hd0 i h0
    · have h1 : b' = .free i := by
        rw [hh] at hi
        simp only [Bool.or_eq_true, beq_iff_eq] at hi
        exact hi.resolve_left h0
      exact hd1 i h0 h1

/-- **`IdentityEliminator.match` is sound** (with the guards of fix_C09_2 and fix_C09_4) -/
theorem ieMatch_sound (ρ : Env K) (dims : String → Nat × Nat) (P : NodePred) (hGP : GeoPred P dims) (hP : PredOK ρ P)
    (hPs : PredSubOK ρ P) (hfold : FoldOK ρ) (g : Guards) (hg1 : g.subst = true) (hg2 : g.keep = true) :
    MatchSound ρ P (ieMatch g) := by
  intro withK rest k r h hu hF hwk hrk hgd
  unfold ieMatch at h
  simp only at h
  split at h
  · cases h
  · rename_i i a hfind
    obtain ⟨p0, e0, f, hp0, hid⟩ := findIdentity_spec k withK 0 i a hfind
    have ei : i = p0 := by omega
    subst ei
    obtain ⟨x, d, a', b', rfl, hcls, hak, hpos⟩ := identityIndex_spec f k a hid
    split at h
    · cases h
    · cases hmp : makeProduct (withK.take i ++ withK.drop (i + 1) ++ rest) with
      | none => rw [hmp] at h; cases h
      | some p =>
        rw [hmp] at h
        simp only at h
        split at h
        · simp only [Option.some.injEq] at h; subst h; simp [isUnsupported, unsupported] at hu
        · rename_i hup
          split_ifs at h with hguard1 hguard2 hguard3
          · cases h
          · cases h
          · cases hrp : replIdx [(k, a)] p with
                | none => rw [hrp] at h; cases h
                | some r' =>
                  rw [hrp] at h
                  simp only [Option.map_some, Option.some.injEq] at h; subst h
                  -- the factor list with the delta in front
                  have hperm : ((Expr.op .indexed x [.term d, .mi [a', b']]) ::
                      (withK.take i ++ withK.drop (i + 1) ++ rest)).Perm (withK ++ rest) := by
                    have := perm_take_drop withK i _ hp0
                    have h2 := List.Perm.append_right rest this
                    simpa using h2
                  have hF' := hF.perm hperm.symm
                  have hgd' : ∀ f ∈ (Expr.op .indexed x [.term d, .mi [a', b']]) ::
                      (withK.take i ++ withK.drop (i + 1) ++ rest), Good P f := fun f mf => hgd f (hperm.mem_iff.mp mf)
                  have hFo : Factors (withK.take i ++ withK.drop (i + 1) ++ rest) := hF'.sub (fun g mg => List.mem_cons_of_mem _ mg)
                  have hup' : isUnsupported p = false := by simpa using hup
                  have hP' := makeProduct_spec ρ _ p hFo hmp hup'
                  have gp : Good P p := good_makeProduct P _ p (fun f mf => hgd' f (List.mem_cons_of_mem _ mf)) hmp hup'
                  have hpd : P.term d := good_indexed_term P x d [a', b'] (hgd' (.op .indexed x [.term d, .mi [a', b']]) (by simp))
                  obtain ⟨n, hshape⟩ := hGP.sq d hpd hcls
                  obtain ⟨hδh, hδd⟩ := delta_fi x d n k a a' b' hshape hpos
                  -- the guards
                  have hnb : NB k a p := by
                    intro c mc
                    simp only [hg1, Bool.true_and, List.any_eq_true, not_exists, not_and, Bool.or_eq_true, beq_iff_eq,
                      not_or] at hguard1
                    exact hguard1 c mc
                  have hkeep : ∀ c, a = .free c → FI.has k (fi p) = true ∨ FI.has c (fi p) = true := by
                    intro c hc
                    subst hc
                    simp only [hg2, Bool.true_and, Bool.and_eq_true, Bool.not_eq_true', not_and, Bool.not_eq_false] at hguard2
                    by_cases hk : FI.has k (fi p) = true
                    · exact Or.inl hk
                    · exact Or.inr (hguard2 (by simpa using hk))
                  -- extents
                  have hdimp : ∀ j, FI.has j (fi p) = true →
                      FI.has j (fi (Expr.op .indexed x [.term d, .mi [a', b']])) = true → FI.dimOf j (fi p) = n := by
                    intro j hj hjδ
                    have hio : hasL j (withK.take i ++ withK.drop (i + 1) ++ rest) = true := by rw [← hP'.has]; exact hj
                    obtain ⟨g', mg, hg'⟩ := (hasL_iff _ _).mp hio
                    rw [hP'.dim j hio, dimL_eq _ hFo j g' mg hg', ← hδd j hjδ]
                    exact (hF'.ag _ (by simp) g' (List.mem_cons_of_mem _ mg) j hjδ hg').symm
                  have hdn : Dn k a n (fi p) :=
                    ⟨fun hk => hdimp k hk (by rw [hδh]; simp), fun c hc hh => hdimp c hh (by rw [hδh]; simp [hc])⟩
                  obtain ⟨E, hs, he, gr⟩ := repl_sound ρ P hP hPs hfold k a n hak p r' hrp hu hP'.wf gp hnb hdn
                  exact ⟨(ie_core ρ P k a n x d a' b' hcls hshape hak hpos _ p E r' hF' hP' hkeep hs he).perm hperm hF', gr⟩

end UflVerif.C09
