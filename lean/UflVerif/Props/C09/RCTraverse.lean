/-
C09 — the traversal of `ReciprocalCanceller` (`rcWith`): the whole pass returns an equivalent expression.
-/
import UflVerif.Props.C09.Generic
import UflVerif.Props.C09.RC

namespace UflVerif.C09
open UflVerif Expr C05 FIlemmas Finset

variable {K : Type} [Field K] [CharZero K]

theorem rc_atom (g : Guards) (A A' : Expr) (d : TermData) (ha : atomTerm A = some d)
    (h : rcWith g A = some A') (hu : isUnsupported A' = false) : A' = A := by
  unfold atomTerm at ha
  split at ha
  · simp only [rcWith, Option.some.injEq] at h; exact h.symm
  · simp only [rcWith, rcWithL] at h
    split at h
    · simp only [Option.some.injEq] at h; subst h; simp [isUnsupported, unsupported] at hu
    · simp only [beqL, beq_refl, Bool.and_self, ↓reduceIte, Option.some.injEq] at h; exact h.symm
  · simp only [rcWith, rcWithL] at h
    split at h
    · simp only [Option.some.injEq] at h; subst h; simp [isUnsupported, unsupported] at hu
    · simp only [beqL, beq_refl, Bool.and_self, ↓reduceIte, Option.some.injEq] at h; exact h.symm
  · cases ha

section
variable (ρ : Env K) (Pos : K → Prop) (T : TermData → Prop) (hfold : FoldOK ρ) (hlaws : PowLaws ρ Pos)
  (g : Guards) (hg : g.pow = true)
include hfold hlaws hg

mutual
theorem rc_sound : ∀ (e r : Expr), rcWith g e = some r → isUnsupported r = false → WF e = true →
    Good (defPred ρ Pos T) e → Equiv ρ e r ∧ Good (defPred ρ Pos T) r
  | .int v, r, h, _, hw, hgd => by simp only [rcWith, Option.some.injEq] at h; subst h; exact ⟨Equiv.refl ρ _ hw, hgd⟩
  | .real n d, r, h, _, hw, hgd => by simp only [rcWith, Option.some.injEq] at h; subst h; exact ⟨Equiv.refl ρ _ hw, hgd⟩
  | .cplx _ _ _ _, r, h, _, hw, hgd => by simp only [rcWith, Option.some.injEq] at h; subst h; exact ⟨Equiv.refl ρ _ hw, hgd⟩
  | .zero _ _, r, h, _, hw, hgd => by simp only [rcWith, Option.some.injEq] at h; subst h; exact ⟨Equiv.refl ρ _ hw, hgd⟩
  | .mi _, r, h, _, hw, hgd => by simp only [rcWith, Option.some.injEq] at h; subst h; exact ⟨Equiv.refl ρ _ hw, hgd⟩
  | .term _, r, h, _, hw, hgd => by simp only [rcWith, Option.some.injEq] at h; subst h; exact ⟨Equiv.refl ρ _ hw, hgd⟩
  | .op k aux args, r, h, hu, hw, hgd => by
    simp only [rcWith] at h
    cases hl : rcWithL g args with
    | none => simp [hl] at h
    | some args' =>
      rw [hl] at h
      simp only at h
      have rel := rcL_sound args args' hl
      split at h
      · simp only [Option.some.injEq] at h; subst h; simp [isUnsupported, unsupported] at hu
      · rename_i hany
        have hnu : ∀ a' ∈ args', isUnsupported a' = false := by
          intro a' ma
          simp only [List.any_eq_true, not_exists, not_and, Bool.not_eq_true] at hany
          exact hany a' ma
        by_cases hk : k = .product
        · subst hk
          cases args with
          | nil => simp [Good] at hgd
          | cons a0 t =>
            cases t with
            | nil => simp [Good, mathName] at hgd
            | cons b0 t2 =>
              cases t2 with
              | cons _ _ => simp [Good] at hgd
              | nil =>
                have hgd' := (good_product _ aux a0 b0).mp hgd
                cases rel with
                | cons r1 rel2 =>
                  cases rel2 with
                  | cons r2 rel3 =>
                    cases rel3
                    rename_i a' b'
                    have hw' := hw
                    simp only [WF, Bool.and_eq_true] at hw'
                    obtain ⟨ea, ga⟩ := r1.1 (hnu a' (by simp)) hw'.1.1.1.1 hgd'.1
                    obtain ⟨eb, gb⟩ := r2.1 (hnu b' (by simp)) hw'.1.1.1.2 hgd'.2
                    simp only at h
                    exact rcProduct_spec ρ Pos T hfold hlaws g hg aux a0 b0 a' b' r hw hgd ea eb ga gb h hu
        · have h' : (if beqL args' args = true then some (.op k aux args) else rebuildC k aux args') = some r := by
            split at h
            · exact absurd rfl hk
            · exact h
          exact generic_node ρ _ (defPred_ok ρ Pos T) hfold k aux args args' r hw hgd rel hnu h' hu
theorem rcL_sound : ∀ (args args' : List Expr), rcWithL g args = some args' →
    List.Forall₂ (ArgOK ρ (defPred ρ Pos T)) args args'
  | [], args', h => by simp only [rcWithL, Option.some.injEq] at h; subst h; exact List.Forall₂.nil
  | a :: as, args', h => by
    simp only [rcWithL] at h
    cases ha : rcWith g a with
    | none => simp [ha] at h
    | some a' =>
      cases hs : rcWithL g as with
      | none => simp [ha, hs] at h
      | some as' =>
        simp only [ha, hs, Option.some.injEq] at h; subst h
        refine List.Forall₂.cons ⟨fun hu hw hgd => rc_sound a a' ha hu hw hgd, ?_, fun d hd hu => rc_atom g a a' d hd ha hu⟩
          (rcL_sound as as' hs)
        intro is e; subst e
        simp only [rcWith, Option.some.injEq] at ha; exact ha.symm
end

end

end UflVerif.C09
