/-
C09 — rebuilding a node from equivalent operands (`reuse_if_untouched` → `_ufl_expr_reconstruct_`): for every
operator of the fragment, the expression the constructor returns is equivalent to the original node and stays in
the fragment.  Shared by the three traversals.
-/
import Mathlib.Data.Rat.Cast.Lemmas
import Mathlib.Algebra.Order.Field.Basic
import Mathlib.Algebra.Order.Field.Rat
import UflVerif.Props.C09.Cancel

namespace UflVerif.C09
open UflVerif Expr C05 FIlemmas Finset

variable {K : Type} [Field K] [CharZero K]

/-- the node conditions are about values: they carry over to equivalent operands -/
structure PredOK (ρ : Env K) (P : NodePred) : Prop where
  div : ∀ a b a' b', P.div a b → Equiv ρ a a' → Equiv ρ b b' → P.div a' b'
  pow : ∀ a b a' b', P.pow a b → Equiv ρ a a' → Equiv ρ b b' → P.pow a' b'

/-- what the theorems assume of the interpretation of `Power` and `Abs` on the arguments the constructors fold -/
structure FoldOK (ρ : Env K) : Prop where
  pow_zero : ∀ x : K, ρ.fn2 "Power" x 0 = 1
  pow_one : ∀ x : K, ρ.fn2 "Power" x 1 = x
  zero_pow : ∀ q : ℚ, 0 < q → ρ.fn2 "Power" 0 (q : K) = 0
  pow_int : ∀ (x : K) (n : ℤ), x ≠ 0 → ρ.fn2 "Power" x (n : K) = x ^ n
  abs_zero : ρ.abs 0 = 0
  abs_abs : ∀ x : K, ρ.abs (ρ.abs x) = ρ.abs x
  abs_lit : ∀ q : ℚ, ρ.abs (q : K) = ((if q < 0 then -q else q : ℚ) : K)

theorem inRange_of_eq {ι : IdxEnv} {f g : FI} (h : f = g) (hr : InRange ι f) : InRange ι g := h ▸ hr

theorem good_sum (P : NodePred) (x : List Nat) (a b : Expr) : Good P (.op .sum x [a, b]) ↔ Good P a ∧ Good P b := by
  simp [Good]

theorem good_mkSum (P : NodePred) (a b r : Expr) (ha : Good P a) (hb : Good P b) (h : mkSum a b = some r)
    (hu : isUnsupported r = false) : Good P r := by
  unfold mkSum at h
  split at h
  · cases h
  · split at h
    · simp only [Option.some.injEq] at h; subst h; exact hb
    · split at h
      · simp only [Option.some.injEq] at h; subst h; exact ha
      · split at h
        · simp only [Option.some.injEq] at h; subst h; exact good_mkLit P _ _
        · split at h
          · simp only [Option.some.injEq] at h; subst h; simp [isUnsupported, unsupported] at hu
          · split at h
            · simp only [Option.some.injEq] at h; subst h; exact (good_sum P _ _ _).mpr ⟨ha, hb⟩
            · split at h
              · simp only [Option.some.injEq] at h; subst h; exact (good_sum P _ _ _).mpr ⟨hb, ha⟩
              · simp only [Option.some.injEq] at h; subst h
                cases sort2_perm a b with
                | inl e => rw [e]; exact (good_sum P _ _ _).mpr ⟨ha, hb⟩
                | inr e => rw [e]; exact (good_sum P _ _ _).mpr ⟨hb, ha⟩

theorem sum_node (ρ : Env K) (P : NodePred) (x : List Nat) (a b a' b' r : Expr) (hw : WF (.op .sum x [a, b]) = true)
    (ea : Equiv ρ a a') (eb : Equiv ρ b b') (ga : Good P a') (gb : Good P b')
    (h : mkSum a' b' = some r) (hu : isUnsupported r = false) : Equiv ρ (.op .sum x [a, b]) r ∧ Good P r := by
  simp only [WF, Bool.and_eq_true, beq_iff_eq] at hw
  obtain ⟨⟨⟨wa, wb⟩, hs⟩, hf⟩ := hw
  refine ⟨⟨mkSum_wf a' b' r ea.wf eb.wf h hu, ?_, ?_, ?_⟩, good_mkSum P a' b' r ga gb h hu⟩
  · rw [(C05_mkSum ρ Side.none (fun _ => 0) a' b' r h hu).2.1, ea.shape]; simp [shape]
  · rw [(C05_mkSum ρ Side.none (fun _ => 0) a' b' r h hu).2.2, ea.fi]; simp [fi]
  · intro s ι c hr hc
    have hfi : fi (.op .sum x [a, b]) = fi a := by simp [fi]
    have hsh : shape (.op .sum x [a, b]) = shape a := by simp [shape]
    rw [hfi] at hr; rw [hsh] at hc
    rw [(C05_mkSum ρ s ι a' b' r h hu).1 c, ea.val s ι c hr hc, eb.val s ι c (hf ▸ hr) (hs ▸ hc)]
    simp [eval]

theorem product_node (ρ : Env K) (P : NodePred) (x : List Nat) (a b a' b' r : Expr) (hw : WF (.op .product x [a, b]) = true)
    (ea : Equiv ρ a a') (eb : Equiv ρ b b') (ga : Good P a') (gb : Good P b')
    (h : mkProduct a' b' = some r) (hu : isUnsupported r = false) : Equiv ρ (.op .product x [a, b]) r ∧ Good P r := by
  have hw0 := hw
  simp only [WF, Bool.and_eq_true, List.isEmpty_iff] at hw
  obtain ⟨⟨⟨⟨wa, wb⟩, sa⟩, sb⟩, hd⟩ := hw
  have hd' := (dimsAgree_iff _ _ (fi_sorted a wa)).mp hd
  have hd2 : DimsAgree (fi a') (fi b') := by rw [ea.fi, eb.fi]; exact hd'
  obtain ⟨w1, s1, h1, d1⟩ := mkProduct_wf a' b' r ea.wf eb.wf hd2 h hu
  have hfi : fi (.op .product x [a, b]) = FI.merge (fi a) (fi b) := by simp [fi]
  have hdim : ∀ i, FI.dimOf i (FI.merge (fi a) (fi b)) = if FI.has i (fi a) = true then FI.dimOf i (fi a) else FI.dimOf i (fi b) :=
    fun i => merge_dim _ _ (fi_sorted a wa) i
  refine ⟨⟨w1, by rw [s1]; simp [shape], ?_, ?_⟩, good_mkProduct P a' b' r ga gb h hu⟩
  · apply fi_eq_of _ _ hw0 w1
    · intro i; rw [h1, hfi, has_merge, ea.fi, eb.fi]
    · intro i; rw [d1, hfi, hdim, ea.fi, eb.fi]
  · intro s ι c hr hc
    have hc0 : c = [] := by
      have : shape (.op .product x [a, b]) = [] := by simp [shape]
      rw [this] at hc; simpa using hc
    subst hc0
    rw [hfi] at hr
    have ra : InRange ι (fi a) := by
      intro i hi
      have := hr i (by rw [has_merge, hi]; rfl)
      rw [hdim, if_pos hi] at this; exact this
    have rb : InRange ι (fi b) := by
      intro i hi
      have := hr i (by rw [has_merge, hi]; simp)
      rw [hdim] at this
      by_cases hia : FI.has i (fi a) = true
      · rw [if_pos hia, hd' i hia hi] at this; exact this
      · rw [if_neg hia] at this; exact this
    rw [(C05_mkProduct ρ s ι a' b' r h hu).1, ea.val s ι [] ra (by rw [sa]), eb.val s ι [] rb (by rw [sb])]
    simp [eval]


theorem trueScalar_iff (e : Expr) : trueScalar e = true ↔ shape e = [] ∧ fi e = [] := by
  simp [trueScalar, List.isEmpty_iff]

theorem inRange_nil (ι : IdxEnv) : InRange ι [] := fun i h => by simp [FI.has] at h

/-! ### Division -/

theorem good_division (P : NodePred) (x : List Nat) (a b : Expr) :
    Good P (.op .division x [a, b]) ↔ Good P a ∧ Good P b ∧ P.div a b := by simp [Good]

theorem mkDivision_facts (P : NodePred) (a b r : Expr) (wa : WF a = true) (wb : WF b = true) (ga : Good P a) (gb : Good P b)
    (hdv : P.div a b) (h : mkDivision a b = some r) (hu : isUnsupported r = false) :
    WF r = true ∧ shape r = [] ∧ fi r = fi a ∧ Good P r ∧ shape a = [] ∧ trueScalar b = true := by
  unfold mkDivision at h
  split at h
  · cases h
  · rename_i hsa
    have sa : shape a = [] := by simpa [List.isEmpty_iff] using hsa
    split at h
    · cases h
    · rename_i htb
      have tb : trueScalar b = true := by simpa using htb
      split at h
      · cases h
      · split at h
        · simp only [Option.some.injEq] at h; subst h; exact ⟨wa, sa, rfl, ga, sa, tb⟩
        · split at h
          · split at h
            · simp only [Option.some.injEq] at h; subst h; exact ⟨wa, sa, rfl, ga, sa, tb⟩
            · split at h
              · rename_i ia va hla
                simp only [Option.some.injEq] at h; subst h
                exact ⟨mkLit_wf _ _, (mkLit_shape _ _).1, by rw [(mkLit_shape _ _).2, (lit_shape a ia va hla).2], good_mkLit P _ _, sa, tb⟩
              · split at h
                · simp only [Option.some.injEq] at h; subst h; simp [isUnsupported, unsupported] at hu
                · simp only [Option.some.injEq] at h; subst h
                  exact ⟨by simp [WF, wa, wb, sa, tb], by simp [shape], by simp [fi], (good_division P _ _ _).mpr ⟨ga, gb, hdv⟩, sa, tb⟩
          · split at h
            · simp only [Option.some.injEq] at h; subst h; simp [isUnsupported, unsupported] at hu
            · simp only [Option.some.injEq] at h; subst h
              exact ⟨by simp [WF, wa, wb, sa, tb], by simp [shape], by simp [fi], (good_division P _ _ _).mpr ⟨ga, gb, hdv⟩, sa, tb⟩

theorem division_node (ρ : Env K) (P : NodePred) (hP : PredOK ρ P) (x : List Nat) (a b a' b' r : Expr)
    (hw : WF (.op .division x [a, b]) = true) (hg : Good P (.op .division x [a, b]))
    (ea : Equiv ρ a a') (eb : Equiv ρ b b') (ga : Good P a') (gb : Good P b')
    (h : mkDivision a' b' = some r) (hu : isUnsupported r = false) : Equiv ρ (.op .division x [a, b]) r ∧ Good P r := by
  simp only [WF, Bool.and_eq_true, List.isEmpty_iff] at hw
  obtain ⟨⟨⟨wa, wb⟩, sa⟩, tb⟩ := hw
  obtain ⟨sb, fb⟩ := (trueScalar_iff b).mp tb
  have hdv := hP.div a b a' b' ((good_division P x a b).mp hg).2.2 ea eb
  obtain ⟨w1, s1, f1, g1, _, _⟩ := mkDivision_facts P a' b' r ea.wf eb.wf ga gb hdv h hu
  refine ⟨⟨w1, by rw [s1]; simp [shape], by rw [f1, ea.fi]; simp [fi], ?_⟩, g1⟩
  intro s ι c hr hc
  have hc0 : c = [] := by
    have : shape (.op .division x [a, b]) = [] := by simp [shape]
    rw [this] at hc; simpa using hc
  subst hc0
  have hfi : fi (.op .division x [a, b]) = fi a := by simp [fi]
  rw [hfi] at hr
  rw [C05_mkDivision ρ s ι a' b' r h hu, ea.val s ι [] hr (by rw [sa]), eb.val s ι [] (by rw [fb]; exact inRange_nil ι) (by rw [sb])]
  simp [eval]

/-! ### Power -/

theorem good_power (P : NodePred) (x : List Nat) (a b : Expr) :
    Good P (.op .power x [a, b]) ↔ Good P a ∧ Good P b ∧ P.pow a b := by simp [Good]

theorem litVal_good_ne (P : NodePred) (a : Expr) (i : Bool) (q : ℚ) (h : litVal a = some (i, q)) (hg : Good P a) : q ≠ 0 := by
  cases a with
  | int v =>
    simp only [litVal, Option.some.injEq, Prod.mk.injEq] at h
    obtain ⟨_, rfl⟩ := h
    simp only [Good] at hg
    exact_mod_cast hg
  | real n d =>
    simp only [litVal, Option.some.injEq, Prod.mk.injEq] at h
    obtain ⟨_, rfl⟩ := h
    simp only [Good] at hg
    have h1 : (n : ℚ) ≠ 0 := by exact_mod_cast hg.1
    have h2 : (d : ℚ) ≠ 0 := by exact_mod_cast hg.2
    exact div_ne_zero h1 h2
  | _ => simp [litVal] at h

theorem ratPowInt_cast (q : ℚ) (n : ℤ) : ((ratPowInt q n : ℚ) : K) = (q : K) ^ n := by
  unfold ratPowInt
  split
  · rename_i hn
    rw [Rat.cast_pow]
    conv_rhs => rw [← Int.toNat_of_nonneg hn]
    rw [zpow_natCast]
  · rename_i hn
    have hn' : 0 ≤ -n := by omega
    rw [Rat.cast_pow, Rat.cast_div, Rat.cast_one, one_div, inv_pow]
    conv_rhs => rw [← neg_neg n, zpow_neg, ← Int.toNat_of_nonneg hn', zpow_natCast]

theorem int_pow_den (q : ℚ) (h : q.den = 1) : ∀ k : ℕ, (q ^ k).den = 1
  | 0 => by simp
  | k + 1 => by rw [pow_succ]; exact int_mul_den _ _ (int_pow_den q h k) h

theorem power_node (ρ : Env K) (P : NodePred) (hP : PredOK ρ P) (hfold : FoldOK ρ) (x : List Nat) (a b a' b' r : Expr)
    (hw : WF (.op .power x [a, b]) = true) (hg : Good P (.op .power x [a, b]))
    (ea : Equiv ρ a a') (eb : Equiv ρ b b') (ga : Good P a') (gb : Good P b')
    (h : mkPower a' b' = some r) (hu : isUnsupported r = false) : Equiv ρ (.op .power x [a, b]) r ∧ Good P r := by
  simp only [WF, Bool.and_eq_true] at hw
  obtain ⟨⟨⟨wa, wb0⟩, ta⟩, tb0⟩ := hw
  obtain ⟨sa, fa⟩ := (trueScalar_iff a).mp ta
  obtain ⟨sb0, fb0⟩ := (trueScalar_iff b).mp tb0
  have wb := eb.wf
  have tb : trueScalar b' = true := (trueScalar_iff b').mpr ⟨by rw [eb.shape, sb0], by rw [eb.fi, fb0]⟩
  obtain ⟨sb, fb⟩ := (trueScalar_iff b').mp tb
  have hpw := hP.pow a b a' b' ((good_power P x a b).mp hg).2.2 ea eb
  have ta' : trueScalar a' = true := (trueScalar_iff a').mpr ⟨by rw [ea.shape, sa], by rw [ea.fi, fa]⟩
  have hsh : shape (.op .power x [a, b]) = [] := by simp [shape]
  have hfi : fi (.op .power x [a, b]) = [] := by simp [fi, fa]
  -- the value of the original node at a valid request
  have hval : ∀ s ι, eval ρ s ι (.op .power x [a, b]) [] = ρ.fn2 "Power" (eval ρ s ι a' []) (eval ρ s ι b' []) := by
    intro s ι
    rw [ea.val s ι [] (by rw [fa]; exact inRange_nil ι) (by rw [sa]), eb.val s ι [] (by rw [fb0]; exact inRange_nil ι) (by rw [sb0])]
    simp [eval]
  have fin : ∀ r, WF r = true → shape r = [] → fi r = [] → Good P r →
      (∀ s ι, eval ρ s ι r [] = ρ.fn2 "Power" (eval ρ s ι a' []) (eval ρ s ι b' [])) →
      Equiv ρ (.op .power x [a, b]) r ∧ Good P r := by
    intro r w1 s1 f1 g1 v1
    refine ⟨⟨w1, by rw [s1, hsh], by rw [f1, hfi], ?_⟩, g1⟩
    intro s ι c _ hc
    have hc0 : c = [] := by rw [hsh] at hc; simpa using hc
    subst hc0
    rw [v1, hval]
  unfold mkPower at h
  split at h
  · cases h
  · split at h
    · rename_i ia va ib vb hla hlb
      split at h
      · rename_i hden
        simp only [Option.some.injEq] at h; subst h
        apply fin _ (mkLit_wf _ _) (mkLit_shape _ _).1 (mkLit_shape _ _).2 (good_mkLit P _ _)
        intro s ι
        have hva : va ≠ 0 := litVal_good_ne P a' ia va hla ga
        have hvb : (vb : K) = ((vb.num : ℤ) : K) := by
          conv_lhs => rw [Rat.cast_def, hden]
          simp
        rw [litVal_eval ρ s ι a' ia va hla, litVal_eval ρ s ι b' ib vb hlb, hvb,
          hfold.pow_int _ _ (by exact_mod_cast hva), ← ratPowInt_cast]
        apply mkLit_eval
        intro hi
        simp only [Bool.and_eq_true, decide_eq_true_eq] at hi
        have d1 := litVal_int a' va (by rw [hla, hi.1.1])
        have hn : 0 ≤ vb.num := by
          have := hi.2
          exact Rat.num_nonneg.mpr this
        unfold ratPowInt
        rw [if_pos hn]
        exact int_pow_den va d1 _
      · simp only [Option.some.injEq] at h; subst h; simp [isUnsupported, unsupported] at hu
    · split at h
      · simp only [Option.some.injEq] at h; subst h; simp [isUnsupported, unsupported] at hu
      · split at h
        · rename_i hzb
          simp only [Option.some.injEq] at h; subst h
          apply fin _ (by simp [WF]) (by simp [shape]) (by simp [fi]) (by simp [Good])
          intro s ι
          rw [eval_zero ρ s ι b' hzb, hfold.pow_zero]; simp [eval]
        · split at h
          · rename_i hza
            split at h
            · rename_i ib vb hlb
              split at h
              · cases h
              · rename_i hnn
                simp only [Option.some.injEq] at h; subst h
                apply fin _ (by simp [WF, sortedFI]) (by simp [shape]) (by simp [fi]) (by simp [Good])
                intro s ι
                have hvb : vb ≠ 0 := litVal_good_ne P b' ib vb hlb gb
                have hpos : 0 < vb := lt_of_le_of_ne (not_lt.mp hnn) (Ne.symm hvb)
                rw [eval_zero ρ s ι a' hza, litVal_eval ρ s ι b' ib vb hlb, hfold.zero_pow vb hpos]; simp [eval]
            · split at h
              · simp only [Option.some.injEq] at h; subst h; simp [isUnsupported, unsupported] at hu
              · simp only [Option.some.injEq] at h; subst h
                apply fin _ (by simp [WF, ea.wf, wb, ta', tb]) (by simp [shape]) (by simp [fi, ea.fi, fa])
                  ((good_power P _ _ _).mpr ⟨ga, gb, hpw⟩)
                intro s ι; simp [eval]
          · split at h
            · rename_i ib vb hlb
              split at h
              · rename_i h1
                simp only [Option.some.injEq] at h; subst h
                apply fin _ ea.wf (by rw [ea.shape, sa]) (by rw [ea.fi, fa]) ga
                intro s ι
                rw [litVal_eval ρ s ι b' ib vb hlb, h1, Rat.cast_one, hfold.pow_one]
              · simp only [Option.some.injEq] at h; subst h
                apply fin _ (by simp [WF, ea.wf, wb, ta', tb]) (by simp [shape]) (by simp [fi, ea.fi, fa])
                  ((good_power P _ _ _).mpr ⟨ga, gb, hpw⟩)
                intro s ι; simp [eval]
            · simp only [Option.some.injEq] at h; subst h
              apply fin _ (by simp [WF, ea.wf, wb, ta', tb]) (by simp [shape]) (by simp [fi, ea.fi, fa])
                ((good_power P _ _ _).mpr ⟨ga, gb, hpw⟩)
              intro s ι; simp [eval]


/-! ### Abs -/

theorem good_abs (P : NodePred) (x : List Nat) (a : Expr) : Good P (.op .abs x [a]) ↔ Good P a := by simp [Good]

theorem abs_node (ρ : Env K) (P : NodePred) (hfold : FoldOK ρ) (x : List Nat) (a a' r : Expr)
    (hw : WF (.op .abs x [a]) = true) (ea : Equiv ρ a a') (ga : Good P a')
    (h : mkAbs a' = some r) (hu : isUnsupported r = false) : Equiv ρ (.op .abs x [a]) r ∧ Good P r := by
  have hsh : shape (.op .abs x [a]) = shape a := by simp [shape]
  have hfi : fi (.op .abs x [a]) = fi a := by simp [fi]
  have hval : ∀ s ι c, InRange ι (fi a) → c.length = (shape a).length →
      eval ρ s ι (.op .abs x [a]) c = ρ.abs (eval ρ s ι a' c) := by
    intro s ι c hr hc
    rw [ea.val s ι c hr hc]; simp [eval]
  have fin : ∀ r, WF r = true → shape r = shape a' → fi r = fi a' → Good P r →
      (∀ s ι c, eval ρ s ι r c = ρ.abs (eval ρ s ι a' c)) → Equiv ρ (.op .abs x [a]) r ∧ Good P r := by
    intro r w1 s1 f1 g1 v1
    refine ⟨⟨w1, by rw [s1, ea.shape, hsh], by rw [f1, ea.fi, hfi], ?_⟩, g1⟩
    intro s ι c hr hc
    rw [hfi] at hr; rw [hsh] at hc
    rw [v1, hval s ι c hr hc]
  have plain : ∀ y, Equiv ρ (.op .abs x [a]) (.op .abs y [a']) ∧ Good P (.op .abs y [a']) := fun y =>
    fin _ (by simp [WF, ea.wf]) (by simp [shape]) (by simp [fi]) ((good_abs P _ _).mpr ga) (fun s ι c => by simp [eval])
  have lit : ∀ (q : ℚ) (i : Bool), (i = true → q.den = 1) → (∀ s ι c, eval ρ s ι a' c = (q : K)) → shape a' = [] → fi a' = [] →
      Equiv ρ (.op .abs x [a]) (mkLit i (if q < 0 then -q else q)) ∧ Good P (mkLit i (if q < 0 then -q else q)) := by
    intro q i hi hv sh' fi'
    apply fin _ (mkLit_wf _ _) (by rw [(mkLit_shape _ _).1, sh']) (by rw [(mkLit_shape _ _).2, fi']) (good_mkLit P _ _)
    intro s ι c
    rw [hv, hfold.abs_lit]
    apply mkLit_eval
    intro h
    have := hi h
    split
    · rw [Rat.neg_den]; exact this
    · exact this
  cases a' with
  | zero sh f =>
    simp only [mkAbs, Option.some.injEq] at h; subst h
    exact fin _ ea.wf rfl rfl ga (fun s ι c => by simp [eval, hfold.abs_zero])
  | int v =>
    simp only [mkAbs, Option.some.injEq] at h; subst h
    have := lit (v : ℚ) true (fun _ => by simp) (fun s ι c => by simp [eval]) (by simp [shape]) (by simp [fi])
    have e : (if (v : ℚ) < 0 then -(v : ℚ) else (v : ℚ)) = (if v < 0 then -(v : ℚ) else (v : ℚ)) := by
      by_cases hv : v < 0
      · have : (v : ℚ) < 0 := by exact_mod_cast hv
        simp [hv, this]
      · have : ¬ (v : ℚ) < 0 := by exact_mod_cast hv
        simp [hv, this]
    rw [e] at this; exact this
  | real n d =>
    simp only [mkAbs, Option.some.injEq] at h; subst h
    have := lit ((n : ℚ) / (d : ℚ)) false (fun hh => by cases hh) (fun s ι c => by simp [eval]) (by simp [shape]) (by simp [fi])
    have e : (if (n : ℚ) / (d : ℚ) < 0 then -((n : ℚ) / (d : ℚ)) else (n : ℚ) / (d : ℚ)) =
        (if n < 0 then -((n : ℚ) / (d : ℚ)) else (n : ℚ) / (d : ℚ)) := by
      simp only [Good] at ga
      have hd : (0 : ℚ) < (d : ℚ) := by
        have : 0 < d := Nat.pos_of_ne_zero ga.2
        exact_mod_cast this
      by_cases hn : n < 0
      · have : (n : ℚ) / (d : ℚ) < 0 := div_neg_of_neg_of_pos (by exact_mod_cast hn) hd
        simp [hn, this]
      · have : ¬ (n : ℚ) / (d : ℚ) < 0 := by
          rw [not_lt]
          exact div_nonneg (by exact_mod_cast (not_lt.mp hn)) hd.le
        simp [hn, this]
    rw [e] at this; exact this
  | cplx _ _ _ _ => simp [Good] at ga
  | mi _ => simp [Good] at ga
  | term d =>
    simp only [mkAbs, Option.some.injEq] at h; subst h
    exact plain []
  | op k y as =>
    by_cases hk : k = .abs
    · subst hk
      simp only [mkAbs, Option.some.injEq] at h; subst h
      refine fin _ ea.wf rfl rfl ga (fun s ι c => ?_)
      -- abs (abs z) = abs z
      have hg := ga
      match as, hg with
      | [z], _ => simp only [eval]; rw [hfold.abs_abs]
      | [], hg => simp [Good] at hg
      | _ :: _ :: _, hg => simp [Good] at hg
    · by_cases hc : k = .conj
      · subst hc
        exfalso
        match as, ga with
        | [z], hg => simp [Good, mathName] at hg
        | [], hg => simp [Good] at hg
        | _ :: _ :: _, hg => simp [Good] at hg
      · have : mkAbs (.op k y as) = some (.op .abs [] [.op k y as]) := by
          unfold mkAbs
          split <;> simp_all
        rw [this] at h
        simp only [Option.some.injEq] at h; subst h
        exact plain []

/-! ### operators rebuilt as plain nodes: mathematical functions and restrictions -/

theorem math_node (ρ : Env K) (P : NodePred) (k : Op) (x : List Nat) (a a' : Expr) (n : String) (hn : mathName k = some n)
    (hw : WF (.op k x [a]) = true) (ea : Equiv ρ a a') (ga : Good P a') :
    Equiv ρ (.op k x [a]) (.op k x [a']) ∧ Good P (.op k x [a']) := by
  have hwf : ∀ z, WF (.op k x [z]) = ((mathName k).isSome && WF z && trueScalar z) := by
    intro z; cases k <;> simp [mathName] at hn <;> simp [WF, mathName]
  have hsh : ∀ z, shape (.op k x [z]) = [] := by
    intro z; cases k <;> simp [mathName] at hn <;> simp [shape]
  have hfi : ∀ z, fi (.op k x [z]) = fi z := by
    intro z; cases k <;> simp [mathName] at hn <;> simp [fi]
  have hev : ∀ s ι z c, eval ρ s ι (.op k x [z]) c = ρ.fn n (eval ρ s ι z c) := by
    intro s ι z c; cases k <;> simp [mathName] at hn <;> subst hn <;> simp [eval, mathName]
  have hgd : ∀ z, Good P (.op k x [z]) ↔ Good P z := by
    intro z; cases k <;> simp [mathName] at hn <;> simp [Good, mathName]
  rw [hwf] at hw
  simp only [Bool.and_eq_true] at hw
  obtain ⟨sa, fa⟩ := (trueScalar_iff a).mp hw.2
  refine ⟨⟨?_, by rw [hsh, hsh], by rw [hfi, hfi, ea.fi], ?_⟩, (hgd a').mpr ga⟩
  · rw [hwf]; simp only [Bool.and_eq_true]
    exact ⟨⟨hw.1.1, ea.wf⟩, (trueScalar_iff a').mpr ⟨by rw [ea.shape, sa], by rw [ea.fi, fa]⟩⟩
  · intro s ι c hr hc
    have hc0 : c = [] := by rw [hsh] at hc; simpa using hc
    subst hc0
    rw [hev, hev, ea.val s ι [] (by rw [fa]; exact inRange_nil ι) (by rw [sa])]

theorem restricted_node (ρ : Env K) (P : NodePred) (k : Op) (hk : k = .positiveRestricted ∨ k = .negativeRestricted)
    (x : List Nat) (a a' : Expr) (hw : WF (.op k x [a]) = true) (ea : Equiv ρ a a') (ga : Good P a') :
    Equiv ρ (.op k x [a]) (.op k x [a']) ∧ Good P (.op k x [a']) := by
  rcases hk with rfl | rfl
  · simp only [WF] at hw
    refine ⟨⟨by simp [WF, ea.wf], by simp [shape, ea.shape], by simp [fi, ea.fi], ?_⟩, by simpa [Good] using ga⟩
    intro s ι c hr hc
    have h1 : fi (.op .positiveRestricted x [a]) = fi a := by simp [fi]
    have h2 : shape (.op .positiveRestricted x [a]) = shape a := by simp [shape]
    rw [h1] at hr; rw [h2] at hc
    simp only [eval]; exact ea.val .plus ι c hr hc
  · simp only [WF] at hw
    refine ⟨⟨by simp [WF, ea.wf], by simp [shape, ea.shape], by simp [fi, ea.fi], ?_⟩, by simpa [Good] using ga⟩
    intro s ι c hr hc
    have h1 : fi (.op .negativeRestricted x [a]) = fi a := by simp [fi]
    have h2 : shape (.op .negativeRestricted x [a]) = shape a := by simp [shape]
    rw [h1] at hr; rw [h2] at hc
    simp only [eval]; exact ea.val .minus ι c hr hc

theorem const_side_indep (ρ : Env K) (a : Expr) (h : isConstantValueC a = true) (s s' : Side) (ι : IdxEnv) (c : List Nat) :
    eval ρ s ι a c = eval ρ s' ι a c := by
  cases a with
  | term d =>
    have : d.cls = "Identity" := by simpa [isConstantValueC] using h
    simp [eval, this]
  | op k x as => simp [isConstantValueC] at h
  | mi is => simp [isConstantValueC] at h
  | _ => simp [eval]

/-- `Restricted(a')` through the class: a ConstantValue operand is returned as it is -/
theorem restrictedC_node (ρ : Env K) (P : NodePred) (k : Op) (hk : k = .positiveRestricted ∨ k = .negativeRestricted)
    (x : List Nat) (a a' r : Expr) (hw : WF (.op k x [a]) = true) (ea : Equiv ρ a a') (ga : Good P a')
    (h : rebuildC k x [a'] = some r) : Equiv ρ (.op k x [a]) r ∧ Good P r := by
  have hconst : isConstantValueC a' = true → Equiv ρ (.op k x [a]) a' ∧ Good P a' := by
    intro hc
    have hfi : fi (.op k x [a]) = fi a := by rcases hk with rfl | rfl <;> simp [fi]
    have hsh : shape (.op k x [a]) = shape a := by rcases hk with rfl | rfl <;> simp [shape]
    refine ⟨⟨ea.wf, by rw [ea.shape, hsh], by rw [ea.fi, hfi], ?_⟩, ga⟩
    intro s ι c hr hc'
    rw [hfi] at hr; rw [hsh] at hc'
    rcases hk with rfl | rfl
    · simp only [eval]; rw [← ea.val .plus ι c hr hc']; exact const_side_indep ρ a' hc _ _ ι c
    · simp only [eval]; rw [← ea.val .minus ι c hr hc']; exact const_side_indep ρ a' hc _ _ ι c
  rcases hk with rfl | rfl
  · simp only [rebuildC] at h
    split at h
    · rename_i hc; simp only [Option.some.injEq] at h; subst h; exact hconst hc
    · simp only [Option.some.injEq] at h; subst h
      exact restricted_node ρ P .positiveRestricted (Or.inl rfl) x a a' hw ea ga
  · simp only [rebuildC] at h
    split at h
    · rename_i hc; simp only [Option.some.injEq] at h; subst h; exact hconst hc
    · simp only [Option.some.injEq] at h; subst h
      exact restricted_node ρ P .negativeRestricted (Or.inr rfl) x a a' hw ea ga

/-! ### IndexSum rebuilt through its constructor -/

theorem inRange_set (ι : IdxEnv) (f : FI) (j v : Nat) (hr : InRange ι (FI.remove j f)) (hv : v < FI.dimOf j f) :
    InRange (ι.set j v) f := by
  intro i hi
  by_cases hij : i = j
  · subst hij; simp [IdxEnv.set, hv]
  · simp only [IdxEnv.set, hij, ↓reduceIte]
    have := hr i (by rw [has_remove]; simp [hi, hij])
    rwa [dimOf_remove i j hij] at this

theorem indexSum_node (ρ : Env K) (P : NodePred) (x : List Nat) (a a' r : Expr) (j : Nat)
    (hw : WF (.op .indexSum x [a, .mi [.free j]]) = true) (hsa : shape a = []) (ea : Equiv ρ a a') (ga : Good P a')
    (h : mkIndexSum a' j = some r) (hu : isUnsupported r = false) :
    Equiv ρ (.op .indexSum x [a, .mi [.free j]]) r ∧ Good P r := by
  obtain ⟨wa, hj, hfi, hsh⟩ := indexSum_facts x a j hw
  obtain ⟨w1, s1, h1, d1⟩ := mkIndexSum_wf a' j r ea.wf h hu
  refine ⟨⟨w1, by rw [s1, ea.shape, hsh], ?_, ?_⟩, good_mkIndexSum P a' j r ga ea.wf (by rw [ea.shape, hsa]) h hu⟩
  · apply fi_eq_of _ _ hw w1
    · intro i; rw [h1, hfi, has_remove, ea.fi]
    · intro i
      by_cases hij : i = j
      · subst hij
        rw [dim_nothas _ _ (by rw [h1]; simp), hfi, dim_nothas _ _ (by rw [has_remove]; simp)]
      · rw [d1 i hij, hfi, dimOf_remove i j hij, ea.fi]
  · intro s ι c hr hc
    rw [hfi] at hr; rw [hsh] at hc
    rw [C05_mkIndexSum ρ s a' j ι r ea.wf h hu c (by rw [ea.shape]; exact hc), indexSum_eval, ea.fi]
    apply Finset.sum_congr rfl
    intro v hv
    exact ea.val s (ι.set j v) c (inRange_set ι (fi a) j v hr (Finset.mem_range.mp hv)) hc

end UflVerif.C09
