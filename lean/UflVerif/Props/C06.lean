/-
C06  Lowering compound tensor algebra preserves values — index of the theorems.

The trees are regenerated from /repo on every run (harness/translate/compound.py calls the real
`apply_algebra_lowering` / `determinant_expr` / `inverse_expr` on coefficient operands `A`, `B` of every
shape of the instance family); the theorems are re-checked by the kernel against that data.

  Props/C06/Basic.lean   C06_trace C06_transposed C06_sym C06_skew C06_dev C06_perp C06_cross C06_inner C06_outer
  Props/C06/Dot.lean     C06_dot
  Props/C06/Det.lean     C06_det (Mathlib `Matrix.det`, n ≤ 4)   C06_pdet (sqrt det(AᵀA))
  Props/C06/Inv.lean     C06_inv (A·inv A = 1 when det ≠ 0)        C06_pinv (pinv A · A = 1 when det(AᵀA) ≠ 0)
  Props/C06/Cofac.lean   C06_cofac (A · cofac(A)ᵀ = det A · 1)
  Props/C06/Diff.lean    C06_div C06_nabla_div C06_nabla_grad C06_curl
  Props/C06/Shapes.lean  C06_shapes_and_free_indices C06_family_complete
-/
import UflVerif.Props.C06.Basic
import UflVerif.Props.C06.Dot
import UflVerif.Props.C06.Det
import UflVerif.Props.C06.Inv
import UflVerif.Props.C06.Cofac
import UflVerif.Props.C06.Diff
import UflVerif.Props.C06.Shapes
