/-
C10e  expand_indices preserves values and leaves no free index.

`expandI e iv c` (Model/IndexPasses.lean) is the model of `IndexExpander`: `iv` holds the values
of the indices bound so far (latest first), `c` is the component being expanded.  Terminals become
`x[c]` with fixed indices, `Zero` becomes the scalar zero, an `IndexSum` is unrolled into a chain of
`Sum`s, a `ComponentTensor` binds its indices to the component, a `ListTensor` selects a row, a
`Variable` is visited through, every other operator is rebuilt through its class constructor
(`rebuild`).  This file proves that whatever it returns is a well-formed scalar without any free
index whose value is the value of component `c` of `e` with the indices read from `iv`.
-/
import UflVerif.Props.C05Rebuild
import UflVerif.Props.C10Rename

namespace UflVerif.C10e
open UflVerif Expr FIlemmas UflVerif.C05

variable {K : Type} [Field K] [CharZero K]

/-- the index environment described by the index values (indices without a value are read from `ι`) -/
def envOf (iv : IdxVals) (ι : IdxEnv) : IdxEnv := fun i => (iv.get i).getD (ι i)

/- no `.free` index anywhere in the tree -/
mutual
def noFreeIdx : Expr → Bool
  | .mi is => is.all (fun i => match i with | .fixed _ => true | .free _ => false)
  | .zero _ f => f.isEmpty
  | .op _ _ args => noFreeIdxL args
  | _ => true
def noFreeIdxL : List Expr → Bool
  | [] => true
  | a :: as => noFreeIdx a && noFreeIdxL as
end

/- Side conditions of the run of `expandI` on `(e, iv, c)`, collected along the same recursion:
   * a `Label` terminal that is visited is shapeless (labels are only the second operand of a
     `Variable`, which is not visited);
   * no summand of an unrolled `IndexSum` is the `unsupported` marker (`sumOps` propagates the marker
     only from the accumulated sum, see `C10_expand_marker_leak`);
   * where a `Power` is rebuilt, `powSC` of the expanded operands (`Power(Zero, <literal 0>)`, not a
     UFL object; the side condition of `C05_mkPower`). -/
/-- `powSC` of the expanded operands where a `Power` is rebuilt -/
def powOK : Op → Option (List Expr) → Bool
  | .power, some [a', b'] => powSC a' b'
  | _, _ => true

mutual
def expandSC : Expr → IdxVals → List Nat → Bool
  | .term d, _, _ => !(d.cls == "Label") || d.shape.isEmpty
  | .op k _ args, iv, c =>
    match k, args with
    | .indexed, [A, .mi ii] =>
      (match miValues iv ii with
       | some comp => expandSC A iv comp
       | none => true)
    | .indexSum, [a, .mi [.free j]] =>
      (List.range (FI.dimOf j (fi a))).all (fun v => expandSC a ((j, v) :: iv) c &&
        (match expandI a ((j, v) :: iv) c with
         | some x => !isUnsupported x
         | none => true))
    | .componentTensor, [a, .mi is] => expandSC a (bindVals iv is c) []
    | .listTensor, xs =>
      (match c with
       | c0 :: c1 => expandSCNth xs c0 iv c1
       | [] => true)
    | .conditional, [p, t, f] => expandSC p iv [] && expandSC t iv c && expandSC f iv c
    | .division, [a, b] => expandSC a iv c && expandSC b iv c
    | .grad, [_] => true
    | .variable, [a, _] => expandSC a iv c
    | k0, as => expandSCL as iv c && powOK k0 (expandL as iv c)
  | _, _, _ => true
def expandSCNth : List Expr → Nat → IdxVals → List Nat → Bool
  | [], _, _, _ => true
  | x :: _, 0, iv, c => expandSC x iv c
  | _ :: xs, n + 1, iv, c => expandSCNth xs n iv c
def expandSCL : List Expr → IdxVals → List Nat → Bool
  | [], _, _ => true
  | a :: as, iv, c => expandSC a iv c && expandSCL as iv c
end

/-- what the expansion `r` of component `c` of a tensor-valued `e` satisfies -/
def G1 (ρ : Env K) (e : Expr) (iv : IdxVals) (c : List Nat) (r : Expr) : Prop :=
  (∀ side ι, eval ρ side ι r [] = eval ρ side (envOf iv ι) e c) ∧ shape r = [] ∧ fi r = [] ∧ WF r = true ∧
  noFreeIdx r = true

/-- the same for a condition -/
def G2 (ρ : Env K) (p : Expr) (iv : IdxVals) (r : Expr) : Prop :=
  (∀ side ι, evalB ρ side ι r = evalB ρ side (envOf iv ι) p) ∧ WFC r = true ∧ noFreeIdx r = true

/-- an operand and its expansion -/
def P (ρ : Env K) (iv : IdxVals) (c : List Nat) (a a' : Expr) : Prop :=
  (WF a = true → c.length = (shape a).length → G1 ρ a iv c a') ∧ (WFC a = true → c = [] → G2 ρ a iv a')

/-! ### index values -/

theorem ivget_cons (j v : Nat) (iv : IdxVals) (i : Nat) :
    IdxVals.get ((j, v) :: iv) i = if j = i then some v else IdxVals.get iv i := by
  unfold IdxVals.get
  simp only [List.find?_cons]
  by_cases h : j = i
  · simp [h]
  · have hb : (j == i) = false := by simp [h]
    simp only [hb, h, ↓reduceIte]

theorem envOf_cons (j v : Nat) (iv : IdxVals) (ι : IdxEnv) : envOf ((j, v) :: iv) ι = (envOf iv ι).set j v := by
  funext i
  simp only [envOf, ivget_cons, IdxEnv.set]
  by_cases h : j = i
  · subst h; simp
  · have h' : ¬ i = j := fun e => h e.symm
    simp [h, h']

theorem envOf_bindVals : ∀ (is : List Idx) (c : List Nat) (iv : IdxVals) (ι : IdxEnv),
    envOf (bindVals iv is c) ι = (envOf iv ι).bind is c
  | [], _, _, _ => by simp [bindVals, IdxEnv.bind]
  | .fixed _ :: _, [], _, _ => by simp [bindVals, IdxEnv.bind]
  | .free _ :: _, [], _, _ => by simp [bindVals, IdxEnv.bind]
  | .fixed _ :: is, _ :: c, iv, ι => by
    simp only [bindVals, IdxEnv.bind]; exact envOf_bindVals is c iv ι
  | .free j :: is, v :: c, iv, ι => by
    simp only [bindVals, IdxEnv.bind]
    rw [envOf_bindVals is c _ ι, envOf_cons]

theorem miValues_spec (iv : IdxVals) (ι : IdxEnv) : ∀ (is : List Idx) (comp : List Nat), miValues iv is = some comp →
    is.map (Idx.resolve (envOf iv ι)) = comp
  | [], comp, h => by simp only [miValues, Option.some.injEq] at h; subst h; rfl
  | .fixed v :: is, comp, h => by
    simp only [miValues, Option.map_eq_some_iff] at h
    obtain ⟨vs, hv, rfl⟩ := h
    simp only [List.map_cons, Idx.resolve, miValues_spec iv ι is vs hv]
  | .free c :: is, comp, h => by
    simp only [miValues] at h
    cases hg : iv.get c with
    | none => simp [hg] at h
    | some v =>
      cases hm : miValues iv is with
      | none => simp [hg, hm] at h
      | some vs =>
        simp only [hg, hm, Option.some.injEq] at h
        subst h
        simp only [List.map_cons, Idx.resolve, miValues_spec iv ι is vs hm, envOf, hg, Option.getD_some]

/-! ### no free index: the constructors -/

theorem noFree_unsupported : noFreeIdx unsupported = true := rfl

theorem noFree_mkLit (i : Bool) (q : ℚ) : noFreeIdx (mkLit i q) = true := by
  unfold mkLit; split
  · rfl
  · split <;> rfl

theorem noFree_op (k : Op) (aux : List Nat) (args : List Expr) : noFreeIdx (.op k aux args) = noFreeIdxL args := by
  simp only [noFreeIdx]

theorem noFreeL_iff : ∀ xs : List Expr, noFreeIdxL xs = true ↔ ∀ x ∈ xs, noFreeIdx x = true
  | [] => by simp [noFreeIdxL]
  | x :: xs => by simp [noFreeIdxL, noFreeL_iff xs]

theorem noFree_zero_of_fi (a : Expr) (h : fi a = []) : noFreeIdx (.zero (shape a) (fi a)) = true := by
  rw [h]; rfl

macro "nofree_close" : tactic => `(tactic|
  first
    | assumption
    | exact noFree_mkLit _ _
    | rfl
    | (simp_all [noFreeIdx, noFreeIdxL, noFree_mkLit, unsupported, FI.merge]; done))

set_option hygiene false in
macro "nofree_mk" : tactic => `(tactic|
  (repeat' split at h
   all_goals (try cases h)
   all_goals (try nofree_close)))

theorem noFree_mkSum (a b r : Expr) (h : mkSum a b = some r) (ha : noFreeIdx a = true) (hb : noFreeIdx b = true) :
    noFreeIdx r = true := by
  unfold mkSum at h
  nofree_mk
  rcases sort2_perm a b with e | e <;> simp [e, noFreeIdx, noFreeIdxL, ha, hb]

theorem noFree_mkProduct (a b r : Expr) (h : mkProduct a b = some r) (ha : noFreeIdx a = true) (hb : noFreeIdx b = true)
    (fa : fi a = []) (fb : fi b = []) : noFreeIdx r = true := by
  unfold mkProduct at h
  nofree_mk
  rcases sort2_perm a b with e | e <;> simp [e, noFreeIdx, noFreeIdxL, ha, hb]

theorem noFree_mkDivision (a b r : Expr) (h : mkDivision a b = some r) (ha : noFreeIdx a = true) (hb : noFreeIdx b = true) :
    noFreeIdx r = true := by
  unfold mkDivision at h
  nofree_mk

theorem noFree_mkPower (a b r : Expr) (h : mkPower a b = some r) (ha : noFreeIdx a = true) (hb : noFreeIdx b = true) :
    noFreeIdx r = true := by
  unfold mkPower at h
  nofree_mk

theorem noFree_mkAbs (a r : Expr) (h : mkAbs a = some r) (ha : noFreeIdx a = true) : noFreeIdx r = true := by
  unfold mkAbs at h
  nofree_mk

theorem noFree_mkConj (a r : Expr) (h : mkConj a = some r) (ha : noFreeIdx a = true) : noFreeIdx r = true := by
  unfold mkConj at h
  nofree_mk

theorem noFree_mkReal (a r : Expr) (h : mkReal a = some r) (ha : noFreeIdx a = true) : noFreeIdx r = true := by
  unfold mkReal at h
  simp only at h
  split at h
  all_goals (try cases h)
  all_goals (try nofree_close)
  rename_i heq
  rw [← heq]
  split <;> simp_all [noFreeIdx, noFreeIdxL]

theorem noFree_mkImag (a r : Expr) (h : mkImag a = some r) (ha : noFreeIdx a = true) (fa : fi a = []) : noFreeIdx r = true := by
  unfold mkImag at h
  repeat' split at h
  all_goals (try cases h)
  all_goals (try (rw [fa]; rfl))
  all_goals (try nofree_close)

theorem noFree_mkConditional (c t f r : Expr) (h : mkConditional c t f = some r) (hc : noFreeIdx c = true)
    (ht : noFreeIdx t = true) (hf : noFreeIdx f = true) : noFreeIdx r = true := by
  unfold mkConditional at h
  nofree_mk

theorem noFree_mkMinMax (k : Op) (a b r : Expr) (h : mkMinMax k a b = some r) (ha : noFreeIdx a = true) (hb : noFreeIdx b = true) :
    noFreeIdx r = true := by
  unfold mkMinMax at h
  nofree_mk

theorem noFree_mkCondition (k : Op) (a b r : Expr) (h : mkCondition k a b = some r) (ha : noFreeIdx a = true) (hb : noFreeIdx b = true) :
    noFreeIdx r = true := by
  unfold mkCondition at h
  nofree_mk

theorem noFree_mkNot (a r : Expr) (h : mkNot a = some r) (ha : noFreeIdx a = true) : noFreeIdx r = true := by
  unfold mkNot at h
  nofree_mk


/-! ### operators applied componentwise -/

/-- the value part of an operand relation -/
def P1 (ρ : Env K) (iv : IdxVals) (c : List Nat) (a a' : Expr) : Prop :=
  WF a = true → c.length = (shape a).length → G1 ρ a iv c a'

theorem f2_one {R : Expr → Expr → Prop} {a : Expr} {l : List Expr} (h : List.Forall₂ R [a] l) : ∃ a', l = [a'] ∧ R a a' := by
  cases h with
  | cons h1 h2 => cases h2; exact ⟨_, rfl, h1⟩

theorem f2_two {R : Expr → Expr → Prop} {a b : Expr} {l : List Expr} (h : List.Forall₂ R [a, b] l) :
    ∃ a' b', l = [a', b'] ∧ R a a' ∧ R b b' := by
  cases h with
  | cons h1 h2 => obtain ⟨b', rfl, hb⟩ := f2_one h2; exact ⟨_, b', rfl, h1, hb⟩

theorem f2_three {R : Expr → Expr → Prop} {a b c : Expr} {l : List Expr} (h : List.Forall₂ R [a, b, c] l) :
    ∃ a' b' c', l = [a', b', c'] ∧ R a a' ∧ R b b' ∧ R c c' := by
  cases h with
  | cons h1 h2 => obtain ⟨b', c', rfl, hb, hc⟩ := f2_two h2; exact ⟨_, b', c', rfl, h1, hb, hc⟩

theorem fi_of_wfc (p : Expr) (h : WFC p = true) : fi p = [] := by
  unfold WFC at h
  split at h
  · split at h <;> simp_all [fi]
  · cases h

/-- **operators that act componentwise**: if every operand `a` of a well-formed node has been replaced
    by a closed scalar standing for its component `c`, the node on the new operands is a well-formed closed
    scalar with the value of component `c` of the original node -/
theorem scalarize (ρ : Env K) (iv : IdxVals) (c : List Nat) (k : Op) (aux : List Nat) (args args' : List Expr)
    (hrel : List.Forall₂ (P1 ρ iv c) args args')
    (h1 : ∀ A ii, k = .indexed → args = [A, .mi ii] → False)
    (h2 : ∀ a j, k = .indexSum → args = [a, .mi [.free j]] → False)
    (h3 : ∀ a is, k = .componentTensor → args = [a, .mi is] → False)
    (h4 : k = .listTensor → False)
    (h5 : ∀ p t f, k = .conditional → args = [p, t, f] → False)
    (h7 : ∀ f, k = .grad → args = [f] → False)
    (h8 : ∀ a head, k = .variable → args = [a, head] → False)
    (hw : WF (.op k aux args) = true) (hc : c.length = (shape (.op k aux args)).length) :
    WF (.op k aux args') = true ∧ shape (.op k aux args') = [] ∧ fi (.op k aux args') = [] ∧ noFreeIdxL args' = true ∧
    (∀ x ∈ args', fi x = []) ∧
    ∀ side ι, eval ρ side ι (.op k aux args') [] = eval ρ side (envOf iv ι) (.op k aux args) c := by
  unfold WF at hw
  split at hw
  · -- sum
    rename_i a b
    obtain ⟨a', b', rfl, pa, pb⟩ := f2_two hrel
    simp only [Bool.and_eq_true, beq_iff_eq] at hw
    obtain ⟨⟨⟨wa, wb⟩, hs⟩, _⟩ := hw
    simp only [shape] at hc
    obtain ⟨v1, s1, f1, w1, n1⟩ := pa wa hc
    obtain ⟨v2, s2, f2, w2, n2⟩ := pb wb (by rw [← hs]; exact hc)
    refine ⟨by simp [WF, w1, w2, s1, s2, f1, f2], by simp only [shape, s1], by simp only [fi, f1],
      by simp [noFreeIdxL, n1, n2], by simp [f1, f2], fun side ι => ?_⟩
    simp only [eval]
    rw [v1 side ι, v2 side ι]
  · -- product
    rename_i a b
    obtain ⟨a', b', rfl, pa, pb⟩ := f2_two hrel
    simp only [Bool.and_eq_true, List.isEmpty_iff] at hw
    obtain ⟨⟨⟨⟨wa, wb⟩, sa⟩, sb⟩, _⟩ := hw
    simp only [shape, List.length_nil] at hc
    obtain ⟨v1, s1, f1, w1, n1⟩ := pa wa (by rw [sa]; exact hc)
    obtain ⟨v2, s2, f2, w2, n2⟩ := pb wb (by rw [sb]; exact hc)
    refine ⟨by simp [WF, w1, w2, s1, s2, f1, f2, dimsAgree], by simp only [shape], by simp [fi, f1, f2, FI.merge],
      by simp [noFreeIdxL, n1, n2], by simp [f1, f2], fun side ι => ?_⟩
    have hc' : c = [] := List.length_eq_zero_iff.mp hc
    subst hc'
    simp only [eval]
    rw [v1 side ι, v2 side ι]
  · -- division
    rename_i a b
    obtain ⟨a', b', rfl, pa, pb⟩ := f2_two hrel
    simp only [Bool.and_eq_true, trueScalar, List.isEmpty_iff] at hw
    obtain ⟨⟨⟨wa, wb⟩, sa⟩, sb, _⟩ := hw
    simp only [shape, List.length_nil] at hc
    obtain ⟨v1, s1, f1, w1, n1⟩ := pa wa (by rw [sa]; exact hc)
    obtain ⟨v2, s2, f2, w2, n2⟩ := pb wb (by rw [sb]; exact hc)
    refine ⟨by simp [WF, w1, w2, trueScalar, s1, s2, f2], by simp only [shape], by simp only [fi, f1],
      by simp [noFreeIdxL, n1, n2], by simp [f1, f2], fun side ι => ?_⟩
    have hc' : c = [] := List.length_eq_zero_iff.mp hc
    subst hc'
    simp only [eval]
    rw [v1 side ι, v2 side ι]
  · -- power
    rename_i a b
    obtain ⟨a', b', rfl, pa, pb⟩ := f2_two hrel
    simp only [Bool.and_eq_true, trueScalar, List.isEmpty_iff] at hw
    obtain ⟨⟨⟨wa, wb⟩, sa, _⟩, sb, _⟩ := hw
    simp only [shape, List.length_nil] at hc
    obtain ⟨v1, s1, f1, w1, n1⟩ := pa wa (by rw [sa]; exact hc)
    obtain ⟨v2, s2, f2, w2, n2⟩ := pb wb (by rw [sb]; exact hc)
    refine ⟨by simp [WF, w1, w2, trueScalar, s1, s2, f1, f2], by simp only [shape], by simp only [fi, f1],
      by simp [noFreeIdxL, n1, n2], by simp [f1, f2], fun side ι => ?_⟩
    have hc' : c = [] := List.length_eq_zero_iff.mp hc
    subst hc'
    simp only [eval]
    rw [v1 side ι, v2 side ι]
  · -- abs
    rename_i a
    obtain ⟨a', rfl, pa⟩ := f2_one hrel
    simp only [shape] at hc
    obtain ⟨v1, s1, f1, w1, n1⟩ := pa hw hc
    refine ⟨by simp [WF, w1], by simp only [shape, s1], by simp only [fi, f1], by simp [noFreeIdxL, n1], by simp [f1],
      fun side ι => ?_⟩
    simp only [eval]
    rw [v1 _ ι]
  · -- conj
    rename_i a
    obtain ⟨a', rfl, pa⟩ := f2_one hrel
    simp only [shape] at hc
    obtain ⟨v1, s1, f1, w1, n1⟩ := pa hw hc
    refine ⟨by simp [WF, w1], by simp only [shape, s1], by simp only [fi, f1], by simp [noFreeIdxL, n1], by simp [f1],
      fun side ι => ?_⟩
    simp only [eval]
    rw [v1 _ ι]
  · -- real
    rename_i a
    obtain ⟨a', rfl, pa⟩ := f2_one hrel
    simp only [shape] at hc
    obtain ⟨v1, s1, f1, w1, n1⟩ := pa hw hc
    refine ⟨by simp [WF, w1], by simp only [shape, s1], by simp only [fi, f1], by simp [noFreeIdxL, n1], by simp [f1],
      fun side ι => ?_⟩
    simp only [eval]
    rw [v1 _ ι]
  · -- imag
    rename_i a
    obtain ⟨a', rfl, pa⟩ := f2_one hrel
    simp only [shape] at hc
    obtain ⟨v1, s1, f1, w1, n1⟩ := pa hw hc
    refine ⟨by simp [WF, w1], by simp only [shape, s1], by simp only [fi, f1], by simp [noFreeIdxL, n1], by simp [f1],
      fun side ι => ?_⟩
    simp only [eval]
    rw [v1 _ ι]
  · exact (h1 _ _ rfl rfl).elim
  · exact (h2 _ _ rfl rfl).elim
  · exact (h3 _ _ rfl rfl).elim
  · exact (h4 rfl).elim
  · exact (h5 _ _ _ rfl rfl).elim
  · -- min
    rename_i a b
    obtain ⟨a', b', rfl, pa, pb⟩ := f2_two hrel
    simp only [Bool.and_eq_true, trueScalar, List.isEmpty_iff] at hw
    obtain ⟨⟨⟨wa, wb⟩, sa, _⟩, sb, _⟩ := hw
    simp only [shape, List.length_nil] at hc
    obtain ⟨v1, s1, f1, w1, n1⟩ := pa wa (by rw [sa]; exact hc)
    obtain ⟨v2, s2, f2, w2, n2⟩ := pb wb (by rw [sb]; exact hc)
    refine ⟨by simp [WF, w1, w2, trueScalar, s1, s2, f1, f2], by simp only [shape], by simp only [fi, f1],
      by simp [noFreeIdxL, n1, n2], by simp [f1, f2], fun side ι => ?_⟩
    have hc' : c = [] := List.length_eq_zero_iff.mp hc
    subst hc'
    simp only [eval]
    rw [v1 side ι, v2 side ι]
  · -- max
    rename_i a b
    obtain ⟨a', b', rfl, pa, pb⟩ := f2_two hrel
    simp only [Bool.and_eq_true, trueScalar, List.isEmpty_iff] at hw
    obtain ⟨⟨⟨wa, wb⟩, sa, _⟩, sb, _⟩ := hw
    simp only [shape, List.length_nil] at hc
    obtain ⟨v1, s1, f1, w1, n1⟩ := pa wa (by rw [sa]; exact hc)
    obtain ⟨v2, s2, f2, w2, n2⟩ := pb wb (by rw [sb]; exact hc)
    refine ⟨by simp [WF, w1, w2, trueScalar, s1, s2, f1, f2], by simp only [shape], by simp only [fi, f1],
      by simp [noFreeIdxL, n1, n2], by simp [f1, f2], fun side ι => ?_⟩
    have hc' : c = [] := List.length_eq_zero_iff.mp hc
    subst hc'
    simp only [eval]
    rw [v1 side ι, v2 side ι]
  · -- atan2
    rename_i a b
    obtain ⟨a', b', rfl, pa, pb⟩ := f2_two hrel
    simp only [Bool.and_eq_true, trueScalar, List.isEmpty_iff] at hw
    obtain ⟨⟨⟨wa, wb⟩, sa, _⟩, sb, _⟩ := hw
    simp only [shape, List.length_nil] at hc
    obtain ⟨v1, s1, f1, w1, n1⟩ := pa wa (by rw [sa]; exact hc)
    obtain ⟨v2, s2, f2, w2, n2⟩ := pb wb (by rw [sb]; exact hc)
    refine ⟨by simp [WF, w1, w2, trueScalar, s1, s2, f1, f2], by simp only [shape], by simp only [fi, f1],
      by simp [noFreeIdxL, n1, n2], by simp [f1, f2], fun side ι => ?_⟩
    have hc' : c = [] := List.length_eq_zero_iff.mp hc
    subst hc'
    simp only [eval]
    rw [v1 side ι, v2 side ι]
  · exact (h8 _ _ rfl rfl).elim
  · -- positive restriction
    rename_i a
    obtain ⟨a', rfl, pa⟩ := f2_one hrel
    simp only [shape] at hc
    obtain ⟨v1, s1, f1, w1, n1⟩ := pa hw hc
    refine ⟨by simp [WF, w1], by simp only [shape, s1], by simp only [fi, f1], by simp [noFreeIdxL, n1], by simp [f1],
      fun side ι => ?_⟩
    simp only [eval]
    rw [v1 _ ι]
  · -- negative restriction
    rename_i a
    obtain ⟨a', rfl, pa⟩ := f2_one hrel
    simp only [shape] at hc
    obtain ⟨v1, s1, f1, w1, n1⟩ := pa hw hc
    refine ⟨by simp [WF, w1], by simp only [shape, s1], by simp only [fi, f1], by simp [noFreeIdxL, n1], by simp [f1],
      fun side ι => ?_⟩
    simp only [eval]
    rw [v1 _ ι]
  · exact (h7 _ rfl rfl).elim
  · -- math functions
    rename_i a _ _ _ _ _ _ _ _
    obtain ⟨a', rfl, pa⟩ := f2_one hrel
    simp only [Bool.and_eq_true, Option.isSome_iff_exists] at hw
    obtain ⟨⟨⟨n, hn⟩, wa⟩, ta⟩ := hw
    obtain ⟨m1, m2, m3, m4⟩ := C21.math_facts (K := K) k n hn aux a
    obtain ⟨m1', m2', m3', m4'⟩ := C21.math_facts (K := K) k n hn aux a'
    rw [m2] at hc
    simp only [trueScalar, Bool.and_eq_true, List.isEmpty_iff] at ta
    obtain ⟨v1, s1, f1, w1, n1⟩ := pa wa (by rw [ta.1]; exact hc)
    have hc' : c = [] := List.length_eq_zero_iff.mp hc
    subst hc'
    refine ⟨by rw [m1', w1]; simp [trueScalar, s1, f1], m2', by rw [m3', f1], by simp [noFreeIdxL, n1], by simp [f1],
      fun side ι => ?_⟩
    rw [m4, m4', v1 side ι]
  · cases hw

/-- the same for `Conditional` (its first operand is a condition, expanded at the empty component) -/
theorem scalarize_conditional (ρ : Env K) (iv : IdxVals) (c : List Nat) (aux : List Nat) (p t f p' t' f' : Expr)
    (hp : WFC p = true → G2 ρ p iv p') (ht : P1 ρ iv c t t') (hf : P1 ρ iv c f f')
    (hw : WF (.op .conditional aux [p, t, f]) = true) (hc : c.length = (shape (.op .conditional aux [p, t, f])).length) :
    WF (.op .conditional aux [p', t', f']) = true ∧ shape (.op .conditional aux [p', t', f']) = [] ∧
    fi (.op .conditional aux [p', t', f']) = [] ∧ noFreeIdxL [p', t', f'] = true ∧ (∀ x ∈ [p', t', f'], fi x = []) ∧
    ∀ side ι, eval ρ side ι (.op .conditional aux [p', t', f']) [] =
      eval ρ side (envOf iv ι) (.op .conditional aux [p, t, f]) c := by
  simp only [WF, Bool.and_eq_true, beq_iff_eq] at hw
  obtain ⟨⟨⟨⟨wp, wt⟩, wf⟩, hs⟩, _⟩ := hw
  simp only [shape] at hc
  obtain ⟨vp, wp', np⟩ := hp wp
  obtain ⟨v1, s1, f1, w1, n1⟩ := ht wt hc
  obtain ⟨v2, s2, f2, w2, n2⟩ := hf wf (by rw [← hs]; exact hc)
  refine ⟨by simp [WF, wp', w1, w2, s1, s2, f1, f2], by simp only [shape, s1], by simp only [fi, f1],
    by simp [noFreeIdxL, np, n1, n2], by simp [f1, f2, fi_of_wfc p' wp'], fun side ι => ?_⟩
  simp only [eval]
  rw [vp side ι, v1 side ι, v2 side ι]

/-- the condition classes -/
theorem scalarizeC (ρ : Env K) (iv : IdxVals) (k : Op) (aux : List Nat) (args args' : List Expr)
    (hrel : List.Forall₂ (P ρ iv []) args args') (hw : WFC (.op k aux args) = true) :
    WFC (.op k aux args') = true ∧ noFreeIdxL args' = true ∧ (∀ x ∈ args', fi x = []) ∧
    ∀ side ι, evalB ρ side ι (.op k aux args') = evalB ρ side (envOf iv ι) (.op k aux args) := by
  have cmp : ∀ a b, args = [a, b] → WF a = true → WF b = true → trueScalar a = true → trueScalar b = true →
      ∃ a' b', args' = [a', b'] ∧ G1 ρ a iv [] a' ∧ G1 ρ b iv [] b' := by
    intro a b e wa wb ta tb
    subst e
    obtain ⟨a', b', rfl, pa, pb⟩ := f2_two hrel
    simp only [trueScalar, Bool.and_eq_true, List.isEmpty_iff] at ta tb
    exact ⟨a', b', rfl, pa.1 wa (by rw [ta.1]), pb.1 wb (by rw [tb.1])⟩
  unfold WFC at hw
  split at hw
  -- six comparisons
  iterate 6
    · rename_i a b
      simp only [Bool.and_eq_true] at hw
      obtain ⟨⟨⟨wa, wb⟩, ta⟩, tb⟩ := hw
      obtain ⟨a', b', rfl, ⟨v1, s1, f1, w1, n1⟩, ⟨v2, s2, f2, w2, n2⟩⟩ := cmp a b rfl wa wb ta tb
      refine ⟨by simp [WFC, w1, w2, trueScalar, s1, s2, f1, f2], by simp [noFreeIdxL, n1, n2], by simp [f1, f2], fun side ι => ?_⟩
      simp only [evalB]
      rw [v1 side ι, v2 side ι]
  -- and / or
  iterate 2
    · rename_i a b
      simp only [Bool.and_eq_true] at hw
      obtain ⟨a', b', rfl, pa, pb⟩ := f2_two hrel
      obtain ⟨v1, w1, n1⟩ := pa.2 hw.1 rfl
      obtain ⟨v2, w2, n2⟩ := pb.2 hw.2 rfl
      refine ⟨by simp [WFC, w1, w2], by simp [noFreeIdxL, n1, n2], by simp [fi_of_wfc _ w1, fi_of_wfc _ w2], fun side ι => ?_⟩
      simp only [evalB]
      rw [v1 side ι, v2 side ι]
  · rename_i a
    obtain ⟨a', rfl, pa⟩ := f2_one hrel
    obtain ⟨v1, w1, n1⟩ := pa.2 hw rfl
    refine ⟨by simp [WFC, w1], by simp [noFreeIdxL, n1], by simp [fi_of_wfc _ w1], fun side ι => ?_⟩
    simp only [evalB]
    rw [v1 side ι]
  · cases hw


/-! ### rebuilt nodes carry no free index -/

theorem noFree_rebuild (k : Op) (aux : List Nat) (args : List Expr) (r : Expr) (h : rebuild k aux args = some r)
    (hn : noFreeIdxL args = true) (hf : ∀ x ∈ args, fi x = [])
    (hk : k ≠ .indexed ∧ k ≠ .indexSum ∧ k ≠ .componentTensor ∧ k ≠ .listTensor) : noFreeIdx r = true := by
  unfold rebuild at h
  split at h
  all_goals (try (exfalso; simp_all; done))
  all_goals (try (simp only [noFreeIdxL, Bool.and_eq_true, Bool.and_true] at hn))
  · exact noFree_mkSum _ _ r h hn.1 hn.2
  · exact noFree_mkProduct _ _ r h hn.1 hn.2 (hf _ (by simp)) (hf _ (by simp))
  · exact noFree_mkDivision _ _ r h hn.1 hn.2
  · exact noFree_mkPower _ _ r h hn.1 hn.2
  · exact noFree_mkAbs _ r h hn
  · exact noFree_mkConj _ r h hn
  · exact noFree_mkReal _ r h hn
  · exact noFree_mkImag _ r h hn (hf _ (by simp))
  · exact noFree_mkConditional _ _ _ r h hn.1 hn.2.1 hn.2.2
  · exact noFree_mkMinMax _ _ _ r h hn.1 hn.2
  · exact noFree_mkMinMax _ _ _ r h hn.1 hn.2
  iterate 8
    · exact noFree_mkCondition _ _ _ r h hn.1 hn.2
  · exact noFree_mkNot _ r h hn
  · simp only [Option.some.injEq] at h; subst h; simpa [noFreeIdx] using hn

/-! ### unrolled index sums -/

/-- a closed, well-formed scalar without free index that is not the marker -/
def Good (x : Expr) : Prop :=
  shape x = [] ∧ fi x = [] ∧ WF x = true ∧ noFreeIdx x = true ∧ isUnsupported x = false

theorem fold_none (ops : List Expr) :
    ops.foldl (fun acc x => bindU acc (fun a => mkSum a x)) none = none := by
  induction ops with
  | nil => rfl
  | cons x xs ih => simpa [bindU] using ih

theorem fold_marker (ops : List Expr) (m : Expr) (hm : isUnsupported m = true) :
    ops.foldl (fun acc x => bindU acc (fun a => mkSum a x)) (some m) = some unsupported ∨ ops = [] := by
  induction ops generalizing m with
  | nil => exact Or.inr rfl
  | cons x xs ih =>
    left
    simp only [List.foldl_cons, bindU, hm, ↓reduceIte]
    rcases ih unsupported rfl with h | h
    · exact h
    · subst h; rfl

theorem bindU_ok (e : Expr) (f : Expr → Option Expr) (h : isUnsupported e = false) : bindU (some e) f = f e := by
  simp [bindU, h]

theorem sumOps_fold (ρ : Env K) : ∀ (ops : List Expr) (acc r : Expr),
    ops.foldl (fun acc x => bindU acc (fun a => mkSum a x)) (some acc) = some r → isUnsupported r = false →
    Good acc → (∀ x ∈ ops, Good x) →
    Good r ∧ ∀ side ι, eval ρ side ι r [] = ops.foldl (fun s x => s + eval ρ side ι x []) (eval ρ side ι acc [])
  | [], acc, r, h, _, ga, _ => by
    simp only [List.foldl_nil, Option.some.injEq] at h; subst h
    exact ⟨ga, fun _ _ => rfl⟩
  | x :: xs, acc, r, h, hu, ga, gx => by
    obtain ⟨sa, fa, wa, na, ua⟩ := ga
    obtain ⟨sx, fx, wx, nx, ux⟩ := gx x (by simp)
    rw [List.foldl_cons, bindU_ok _ _ ua] at h
    cases hm : mkSum acc x with
    | none => rw [hm, fold_none] at h; cases h
    | some acc' =>
      rw [hm] at h
      cases hua : isUnsupported acc' with
      | true =>
        rcases fold_marker xs acc' hua with h' | h'
        · rw [h'] at h; simp only [Option.some.injEq] at h; subst h; simp [isUnsupported, unsupported] at hu
        · subst h'; simp only [List.foldl_nil, Option.some.injEq] at h; subst h; rw [hua] at hu; cases hu
      | false =>
        obtain ⟨ev, sr, fr⟩ := C05_mkSum ρ .none (fun _ => 0) acc x acc' hm hua
        have ga' : Good acc' := ⟨by rw [sr, sa], by rw [fr, fa], mkSum_wf acc x acc' wa wx hm hua,
          noFree_mkSum acc x acc' hm na nx, hua⟩
        obtain ⟨gr, vr⟩ := sumOps_fold ρ xs acc' r h hu ga' (fun y hy => gx y (by simp [hy]))
        refine ⟨gr, fun side ι => ?_⟩
        rw [vr side ι]
        simp only [List.foldl_cons]
        rw [(C05_mkSum ρ side ι acc x acc' hm hua).1 []]

theorem allSome_map_forall2 {α : Type} (f : α → Option Expr) : ∀ (l : List α) (ops : List Expr),
    allSome (l.map f) = some ops → List.Forall₂ (fun v x => f v = some x) l ops
  | [], ops, h => by simp only [List.map_nil, allSome, Option.some.injEq] at h; subst h; exact List.Forall₂.nil
  | v :: l, ops, h => by
    simp only [List.map_cons] at h
    cases hv : f v with
    | none => rw [hv] at h; simp [allSome] at h
    | some x =>
      rw [hv] at h
      simp only [allSome, Option.map_eq_some_iff] at h
      obtain ⟨xs, hxs, rfl⟩ := h
      exact List.Forall₂.cons hv (allSome_map_forall2 f l xs hxs)

theorem fold_forall2 (g : Nat → K) (ev : Expr → K) : ∀ (l : List Nat) (ops : List Expr) (s : K),
    List.Forall₂ (fun v x => ev x = g v) l ops →
    ops.foldl (fun s x => s + ev x) s = l.foldl (fun s v => s + g v) s
  | [], _, s, h => by cases h; rfl
  | v :: l, _, s, h => by
    cases h with
    | cons h1 h2 =>
      simp only [List.foldl_cons, h1]
      exact fold_forall2 g ev l _ _ h2

/-! ### terminals and gradient chains indexed by fixed indices -/

theorem resolve_fixed (ι : IdxEnv) : ∀ c : List Nat, (c.map Idx.fixed).map (Idx.resolve ι) = c
  | [] => rfl
  | v :: c => by simp only [List.map_cons, Idx.resolve, resolve_fixed ι c]

theorem all_fixed : ∀ c : List Nat, (c.map Idx.fixed).all (fun i => match i with | .fixed _ => true | .free _ => false) = true
  | [] => rfl
  | v :: c => by simp only [List.map_cons, List.all_cons, all_fixed c, Bool.and_self]

theorem contains_free_fixed (i : Nat) : ∀ c : List Nat, (c.map Idx.fixed).contains (.free i) = false
  | [] => rfl
  | v :: c => by
    simp only [List.map_cons, List.contains_cons, contains_free_fixed i c, Bool.or_false]
    rfl

theorem nil_of_has_false : ∀ f : FI, (∀ i, FI.has i f = false) → f = []
  | [], _ => rfl
  | p :: ps, h => by have := h p.1; simp [FI.has] at this

/-- `A[c]` with fixed indices, for an index-free `A` that does not read the index environment -/
theorem plain_fixed_G1 (ρ : Env K) (A : Expr) (iv : IdxVals) (c : List Nat) (r : Expr) (hw : WF A = true) (hf : fi A = [])
    (hn : noFreeIdx A = true) (hv : ∀ side ι ι', eval ρ side ι A c = eval ρ side ι' A c)
    (h : plainIndexed A (c.map Idx.fixed) = some r) : G1 ρ A iv c r := by
  have e := plainIndexed_eq A _ r h
  refine ⟨fun side ι => ?_, ?_, ?_, ?_, ?_⟩
  · obtain ⟨_, _, _, _, ev⟩ := plainIndexed_spec ρ side A _ r hw h
    rw [ev ι, resolve_fixed]
    exact hv side _ _
  · exact (plainIndexed_spec ρ .none A _ r hw h).2.1
  · apply nil_of_has_false
    intro i
    rw [(plainIndexed_spec ρ .none A _ r hw h).2.2.1 i, hf, contains_free_fixed]
    rfl
  · exact (plainIndexed_spec ρ .none A _ r hw h).1
  · rw [e]; simp [noFreeIdx, noFreeIdxL, hn]

theorem mkIndexed_term (d : TermData) (k : Idx) (ks : List Idx) :
    mkIndexed (.term d) (k :: ks) = plainIndexed (.term d) (k :: ks) := by
  simp [mkIndexed, mkIndexedF]

theorem mkIndexed_grad (aux : List Nat) (f : Expr) (k : Idx) (ks : List Idx) :
    mkIndexed (.op .grad aux [f]) (k :: ks) = plainIndexed (.op .grad aux [f]) (k :: ks) := by
  simp [mkIndexed, mkIndexedF]

theorem mkIndexed_nil (A : Expr) : mkIndexed A [] = some A := by
  simp [mkIndexed, mkIndexedF]

theorem noFree_chain : ∀ (a : Expr) (p : TermData × Nat), gradChain a = some p → noFreeIdx a = true := by
  intro a
  fun_induction gradChain a with
  | case1 d => intro p _; rfl
  | case2 aux a d k hk ih => intro p _; simp [noFreeIdx, noFreeIdxL, ih _ hk]
  | case3 aux a hk ih => intro p h; simp at h
  | case4 e h1 h2 => intro p h; simp at h

theorem finish_rebuild (ρ : Env K) (hρ : LitSem ρ) (iv : IdxVals) (c : List Nat) (e : Expr) (k : Op) (aux : List Nat)
    (args' : List Expr) (r : Expr)
    (hw' : WF (.op k aux args') = true) (hs' : shape (.op k aux args') = []) (hf' : fi (.op k aux args') = [])
    (hn : noFreeIdxL args' = true) (hfx : ∀ x ∈ args', fi x = [])
    (hv : ∀ side ι, eval ρ side ι (.op k aux args') [] = eval ρ side (envOf iv ι) e c)
    (hsc : RebuildSC k args' = true)
    (hk : k ≠ .indexed ∧ k ≠ .indexSum ∧ k ≠ .componentTensor ∧ k ≠ .listTensor)
    (h : rebuild k aux args' = some r) (hu : isUnsupported r = false) : G1 ρ e iv c r := by
  have key := fun side ι => rebuild_sound_partial ρ hρ side ι k aux args' r hw' hsc h hu
  obtain ⟨_, sr, fr, wr⟩ := key .none (fun _ => 0)
  refine ⟨fun side ι => ?_, by rw [sr, hs'], ?_, wr, noFree_rebuild k aux args' r h hn hfx hk⟩
  · rw [(key side ι).1 [] (by rw [hs']), hv]
  · apply nil_of_has_false
    intro i
    rw [(fr i).1, hf']
    rfl

theorem node_G1 (ρ : Env K) (iv : IdxVals) (c : List Nat) (e : Expr) (k : Op) (aux : List Nat) (args' : List Expr)
    (hw' : WF (.op k aux args') = true) (hs' : shape (.op k aux args') = []) (hf' : fi (.op k aux args') = [])
    (hn : noFreeIdxL args' = true)
    (hv : ∀ side ι, eval ρ side ι (.op k aux args') [] = eval ρ side (envOf iv ι) e c) : G1 ρ e iv c (.op k aux args') :=
  ⟨hv, hs', hf', hw', by simpa [noFreeIdx] using hn⟩

theorem wf_special (k : Op) (aux : List Nat) (args : List Expr) (h : WF (.op k aux args) = true) :
    (k = .indexed → ∃ A ii, args = [A, .mi ii]) ∧ (k = .indexSum → ∃ a j, args = [a, .mi [.free j]]) ∧
    (k = .componentTensor → ∃ a is, args = [a, .mi is]) := by
  unfold WF at h
  split at h
  all_goals (try (simp_all; done))
  rename_i a _ _ _ _ _ _ _ _
  simp only [Bool.and_eq_true, Option.isSome_iff_exists] at h
  obtain ⟨⟨⟨n, hn⟩, _⟩, _⟩ := h
  cases k <;> simp_all [mathName]

theorem wfc_ops (k : Op) (aux : List Nat) (args : List Expr) (h : WFC (.op k aux args) = true) :
    k ≠ .indexed ∧ k ≠ .indexSum ∧ k ≠ .componentTensor ∧ k ≠ .listTensor := by
  unfold WFC at h
  split at h <;> simp_all

theorem forall2_imp_mem {α β : Type} {R S : α → β → Prop} : ∀ {l : List α} {m : List β}, List.Forall₂ R l m →
    (∀ a ∈ l, ∀ b, R a b → S a b) → List.Forall₂ S l m
  | _, _, .nil, _ => .nil
  | _, _, .cons h1 h2, hi => .cons (hi _ (by simp) _ h1) (forall2_imp_mem h2 (fun a ha b hb => hi a (by simp [ha]) b hb))

theorem forall2_right {α β : Type} {R : α → β → Prop} {Q : β → Prop} : ∀ {l : List α} {m : List β}, List.Forall₂ R l m →
    (∀ a b, R a b → Q b) → ∀ b ∈ m, Q b
  | _, _, .nil, _, b, hb => by cases hb
  | _, _, .cons h1 h2, hi, b, hb => by
    cases List.mem_cons.mp hb with
    | inl e => rw [e]; exact hi _ _ h1
    | inr e => exact forall2_right h2 hi b e

theorem good_zero : Good (.zero [] []) := ⟨rfl, rfl, rfl, rfl, rfl⟩


/-! ### the main induction (functional induction on `expandI` / `expandL` / `expandNth`) -/

def M1 (ρ : Env K) (e : Expr) (iv : IdxVals) (c : List Nat) : Prop :=
  ∀ r, expandI e iv c = some r → isUnsupported r = false → expandSC e iv c = true → P ρ iv c e r

def M2 (ρ : Env K) (as : List Expr) (iv : IdxVals) (c : List Nat) : Prop :=
  ∀ rs, expandL as iv c = some rs → rs.any isUnsupported = false → expandSCL as iv c = true →
    List.Forall₂ (P ρ iv c) as rs

def M3 (ρ : Env K) (xs : List Expr) (n : Nat) (iv : IdxVals) (c : List Nat) : Prop :=
  ∀ r, expandNth xs n iv c = some r → isUnsupported r = false → expandSCNth xs n iv c = true → WFL xs = true →
    (∀ x ∈ xs, c.length = (shape x).length) →
    (∀ side ι, eval ρ side ι r [] = evalNth ρ side (envOf iv ι) xs n c) ∧ shape r = [] ∧ fi r = [] ∧ WF r = true ∧
    noFreeIdx r = true

theorem notWFC_of (k : Op) (aux : List Nat) (args : List Expr)
    (hk : k ≠ .eQ ∧ k ≠ .nE ∧ k ≠ .lT ∧ k ≠ .gT ∧ k ≠ .lE ∧ k ≠ .gE ∧ k ≠ .andCondition ∧ k ≠ .orCondition ∧ k ≠ .notCondition) :
    WFC (.op k aux args) = true → False := by
  intro h
  unfold WFC at h
  split at h <;> simp_all

theorem expand_aux (ρ : Env K) (hρ : LitSem ρ) :
    (∀ e iv c, M1 ρ e iv c) ∧ (∀ as iv c, M2 ρ as iv c) ∧ (∀ xs n iv c, M3 ρ xs n iv c) := by
  apply expandI.mutual_induct (motive_1 := M1 ρ) (motive_2 := M2 ρ) (motive_3 := M3 ρ)
  -- 1 Label
  · intro d iv c hd r h hu hsc
    rw [expandI] at h
    simp only [hd, ↓reduceIte, Option.some.injEq] at h
    subst h
    simp only [expandSC, hd, Bool.not_true, Bool.false_or] at hsc
    refine ⟨fun _ _ => ⟨fun side ι => ?_, by simpa [shape] using hsc, rfl, rfl, rfl⟩, fun hwc _ => by simp [WFC] at hwc⟩
    have : d.cls = "Label" := by simpa using hd
    simp [eval, this]
  -- 2 scalar terminal
  · intro d iv c hd hs r h hu hsc
    rw [expandI] at h
    simp only [hd, hs, Bool.false_eq_true, ↓reduceIte, Option.some.injEq] at h
    subst h
    refine ⟨fun _ hc => ⟨fun side ι => ?_, by simpa [shape] using hs, rfl, rfl, rfl⟩, fun hwc _ => by simp [WFC] at hwc⟩
    simp only [shape] at hc
    have hs' : d.shape = [] := by simpa using hs
    rw [hs'] at hc
    have : c = [] := List.length_eq_zero_iff.mp hc
    subst this
    simp only [eval]
  -- 3 terminal, wrong rank
  · intro d iv c hd hs hl r h
    rw [expandI] at h
    simp [hd, hs, hl] at h
  -- 4 terminal with a shape
  · intro d iv c hd hs hl r h hu hsc
    rw [expandI] at h
    simp only [hd, hs, hl, Bool.false_eq_true, ↓reduceIte] at h
    refine ⟨fun _ hc => ?_, fun hwc _ => by simp [WFC] at hwc⟩
    simp only [shape] at hc
    cases c with
    | nil =>
      exfalso
      simp only [List.length_nil] at hc
      have : d.shape = [] := List.length_eq_zero_iff.mp hc.symm
      simp [this] at hs
    | cons v c' =>
      simp only [List.map_cons] at h
      rw [mkIndexed_term] at h
      exact plain_fixed_G1 ρ (.term d) iv (v :: c') r rfl rfl rfl (fun _ _ _ => by simp only [eval]) h
  -- 5-6 zero: refused
  · intro sh f iv c hl r h
    rw [expandI] at h
    simp [hl] at h
  · intro sh f iv c hl hany r h
    rw [expandI] at h
    simp [hl, hany] at h
  -- 7 zero
  · intro sh f iv c hl hany r h hu hsc
    rw [expandI] at h
    simp only [hl, hany, Bool.false_eq_true, ↓reduceIte, Option.some.injEq] at h
    subst h
    exact ⟨fun _ _ => ⟨fun side ι => by simp [eval], rfl, rfl, rfl, rfl⟩, fun hwc _ => by simp [WFC] at hwc⟩
  -- 8 multi-index
  · intro is iv c r h hu hsc
    exact ⟨fun hw _ => by simp [WF] at hw, fun hwc _ => by simp [WFC] at hwc⟩
  -- 9 indexed
  · intro aux iv c A ii comp hmi ih r h hu hsc
    rw [expandI] at h
    simp only [hmi] at h
    simp only [expandSC, hmi] at hsc
    have pa := ih r h hu hsc
    refine ⟨fun hw _ => ?_, fun hwc _ => by simp [WFC] at hwc⟩
    simp only [WF, Bool.and_eq_true, beq_iff_eq] at hw
    obtain ⟨⟨⟨wa, hl⟩, _⟩, _⟩ := hw
    have hcomp := fun ι => miValues_spec iv ι ii comp hmi
    have hlen : comp.length = (shape A).length := by rw [← hcomp (fun _ => 0)]; simpa using hl
    obtain ⟨v1, s1, f1, w1, n1⟩ := pa.1 wa hlen
    refine ⟨fun side ι => ?_, s1, f1, w1, n1⟩
    rw [v1 side ι]
    simp only [eval, hcomp]
  -- 10 indexed, an index without value
  · intro aux iv c A ii hmi r h
    rw [expandI] at h
    simp [hmi] at h
  -- 11 index sum
  · intro aux iv c a j ops hops ih r h hu hsc
    rw [expandI] at h
    simp only [hops] at h
    simp only [expandSC, List.all_eq_true, List.mem_range, Bool.and_eq_true] at hsc
    refine ⟨fun hw hc => ?_, fun hwc _ => by simp [WFC] at hwc⟩
    simp only [WF, Bool.and_eq_true] at hw
    simp only [shape] at hc
    have hf2 := allSome_map_forall2 (fun v => expandI a ((j, v) :: iv) c) _ ops hops
    have hgood : List.Forall₂ (fun v x => Good x ∧ ∀ side ι, eval ρ side ι x [] = eval ρ side ((envOf iv ι).set j v) a c)
        (List.range (FI.dimOf j (fi a))) ops := by
      apply forall2_imp_mem hf2
      intro v hv x hx
      have hsv := hsc v (List.mem_range.mp hv)
      have hux : isUnsupported x = false := by
        have := hsv.2
        rw [hx] at this
        simpa using this
      obtain ⟨v1, s1, f1, w1, n1⟩ := (ih v x hx hux hsv.1).1 hw.1 hc
      exact ⟨⟨s1, f1, w1, n1, hux⟩, fun side ι => by rw [v1 side ι, envOf_cons]⟩
    unfold sumOps at h
    obtain ⟨⟨sr, fr, wr, nr, _⟩, vr⟩ := sumOps_fold ρ ops (.zero [] []) r h hu good_zero
      (forall2_right hgood (fun _ _ hh => hh.1))
    refine ⟨fun side ι => ?_, sr, fr, wr, nr⟩
    rw [vr side ι, fold_forall2 (fun v => eval ρ side ((envOf iv ι).set j v) a c) (fun x => eval ρ side ι x []) _ ops _
      (forall2_imp_mem hgood (fun _ _ _ hh => hh.2 side ι))]
    simp [eval, sumRange]
  -- 12 index sum, a summand refused
  · intro aux iv c a j hops _ r h
    rw [expandI] at h
    simp [hops] at h
  -- 13-14 component tensor refused
  · intro aux iv c a is hs r h
    rw [expandI] at h
    simp [hs] at h
  · intro aux iv c a is hs hl r h
    rw [expandI] at h
    simp [hs, hl] at h
  -- 15 component tensor
  · intro aux iv c a is hs hl ih r h hu hsc
    rw [expandI] at h
    simp only [hs, hl, Bool.false_eq_true, ↓reduceIte] at h
    simp only [expandSC] at hsc
    have pa := ih r h hu hsc
    refine ⟨fun hw _ => ?_, fun hwc _ => by simp [WFC] at hwc⟩
    simp only [WF, Bool.and_eq_true, List.isEmpty_iff] at hw
    obtain ⟨⟨wa, ea⟩, _⟩ := hw
    obtain ⟨v1, s1, f1, w1, n1⟩ := pa.1 wa (by rw [ea])
    refine ⟨fun side ι => ?_, s1, f1, w1, n1⟩
    rw [v1 side ι, envOf_bindVals]
    simp only [eval]
  -- 16 list tensor
  · intro aux iv xs c0 c1 ih r h hu hsc
    rw [expandI] at h
    simp only [expandSC] at hsc
    refine ⟨fun hw hc => ?_, fun hwc _ => by simp [WFC] at hwc⟩
    cases xs with
    | nil => simp [WF] at hw
    | cons x0 rest =>
      simp only [WF, Bool.and_eq_true, List.all_eq_true, beq_iff_eq] at hw
      obtain ⟨⟨w0, wr⟩, hsame⟩ := hw
      simp only [shape, List.length_cons, Nat.add_right_cancel_iff] at hc
      obtain ⟨v1, s1, f1, w1, n1⟩ := ih r h hu hsc (by simp [WFL, w0, wr]) (by
        intro x hx
        cases List.mem_cons.mp hx with
        | inl e => rw [e]; exact hc
        | inr e => rw [(hsame x e).1]; exact hc)
      refine ⟨fun side ι => ?_, s1, f1, w1, n1⟩
      rw [v1 side ι]
      simp only [eval]
  -- 17 list tensor without component
  · intro aux iv xs r h
    rw [expandI] at h
    simp at h
  -- 18 conditional refused
  · intro aux iv c p t f hs r h
    rw [expandI] at h
    simp [hs] at h
  -- 19 conditional: marker
  · intro aux iv c p t f hs p' t' f' hf ht hp hun _ _ _ r h hu
    rw [expandI] at h
    simp only [hs, hp, ht, hf, hun, Bool.false_eq_true, ↓reduceIte, Option.some.injEq] at h
    subst h
    simp [isUnsupported, unsupported] at hu
  -- 20 conditional unchanged
  · intro aux iv c p t f hs p' t' f' hf ht hp hun hbeq ihp iht ihf r h hu hsc
    rw [expandI] at h
    simp only [hs, hp, ht, hf, hun, hbeq, Bool.false_eq_true, ↓reduceIte, Option.some.injEq] at h
    subst h
    simp only [Bool.or_eq_true, not_or, Bool.not_eq_true] at hun
    simp only [Bool.and_eq_true] at hbeq
    have e1 := beq_eq p' p hbeq.1.1
    have e2 := beq_eq t' t hbeq.1.2
    have e3 := beq_eq f' f hbeq.2
    subst e1 e2 e3
    simp only [expandSC, Bool.and_eq_true] at hsc
    have pp := ihp _ hp hun.1.1 hsc.1.1
    have pt := iht _ ht hun.1.2 hsc.1.2
    have pf := ihf _ hf hun.2 hsc.2
    refine ⟨fun hw hc => ?_, fun hwc _ => by simp [WFC] at hwc⟩
    obtain ⟨w', s', f'', n', _, v'⟩ := scalarize_conditional ρ iv c aux _ _ _ _ _ _ (fun hwc => pp.2 hwc rfl) pt.1 pf.1 hw hc
    exact node_G1 ρ iv c _ _ aux _ w' s' f'' n' v'
  -- 21 conditional rebuilt
  · intro aux iv c p t f hs p' t' f' hf ht hp hun hbeq ihp iht ihf r h hu hsc
    rw [expandI] at h
    simp only [hs, hp, ht, hf, hun, hbeq, Bool.false_eq_true, ↓reduceIte] at h
    simp only [Bool.or_eq_true, not_or, Bool.not_eq_true] at hun
    simp only [expandSC, Bool.and_eq_true] at hsc
    have pp := ihp _ hp hun.1.1 hsc.1.1
    have pt := iht _ ht hun.1.2 hsc.1.2
    have pf := ihf _ hf hun.2 hsc.2
    refine ⟨fun hw hc => ?_, fun hwc _ => by simp [WFC] at hwc⟩
    obtain ⟨w', s', f'', n', fx', v'⟩ := scalarize_conditional ρ iv c aux _ _ _ _ _ _ (fun hwc => pp.2 hwc rfl) pt.1 pf.1 hw hc
    exact finish_rebuild ρ hρ iv c _ .conditional aux [p', t', f'] r w' s' f'' n' fx' v' (by simp [RebuildSC])
      (by simp) (by simpa [rebuild] using h) hu
  -- 22 conditional, an operand refused
  · intro aux iv c p t f hs hnone _ _ _ r h
    rw [expandI] at h
    simp only [hs, Bool.false_eq_true, ↓reduceIte] at h
    cases h1 : expandI p iv [] <;> cases h2 : expandI t iv c <;> cases h3 : expandI f iv c <;> simp_all
  -- 23 division refused
  · intro aux iv c a b hg r h
    rw [expandI] at h
    simp [hg] at h
  -- 24 division: marker
  · intro aux iv c a b hg a' b' hb ha hun _ _ r h hu
    rw [expandI] at h
    simp only [hg, ha, hb, hun, Bool.false_eq_true, ↓reduceIte, Option.some.injEq] at h
    subst h
    simp [isUnsupported, unsupported] at hu
  -- 25 division unchanged
  · intro aux iv c a b hg a' b' hb ha hun hbeq iha ihb r h hu hsc
    rw [expandI] at h
    simp only [hg, ha, hb, hun, hbeq, Bool.false_eq_true, ↓reduceIte, Option.some.injEq] at h
    subst h
    simp only [Bool.or_eq_true, not_or, Bool.not_eq_true] at hun
    simp only [Bool.and_eq_true] at hbeq
    have e1 := beq_eq a' a hbeq.1
    have e2 := beq_eq b' b hbeq.2
    subst e1 e2
    simp only [expandSC, Bool.and_eq_true] at hsc
    have pa := iha _ ha hun.1 hsc.1
    have pb := ihb _ hb hun.2 hsc.2
    refine ⟨fun hw hc => ?_, fun hwc _ => by simp [WFC] at hwc⟩
    obtain ⟨w', s', f'', n', _, v'⟩ := scalarize ρ iv c .division aux _ _ (.cons pa.1 (.cons pb.1 .nil))
      (by intro _ _ e; cases e) (by intro _ _ e; cases e) (by intro _ _ e; cases e) (by intro e; cases e)
      (by intro _ _ _ e; cases e) (by intro _ e; cases e) (by intro _ _ e; cases e) hw hc
    exact node_G1 ρ iv c _ _ aux _ w' s' f'' n' v'
  -- 26 division rebuilt
  · intro aux iv c a b hg a' b' hb ha hun hbeq iha ihb r h hu hsc
    rw [expandI] at h
    simp only [hg, ha, hb, hun, hbeq, Bool.false_eq_true, ↓reduceIte] at h
    simp only [Bool.or_eq_true, not_or, Bool.not_eq_true] at hun
    simp only [expandSC, Bool.and_eq_true] at hsc
    have pa := iha _ ha hun.1 hsc.1
    have pb := ihb _ hb hun.2 hsc.2
    refine ⟨fun hw hc => ?_, fun hwc _ => by simp [WFC] at hwc⟩
    obtain ⟨w', s', f'', n', fx', v'⟩ := scalarize ρ iv c .division aux _ _ (.cons pa.1 (.cons pb.1 .nil))
      (by intro _ _ e; cases e) (by intro _ _ e; cases e) (by intro _ _ e; cases e) (by intro e; cases e)
      (by intro _ _ _ e; cases e) (by intro _ e; cases e) (by intro _ _ e; cases e) hw hc
    exact finish_rebuild ρ hρ iv c _ .division aux [a', b'] r w' s' f'' n' fx' v' (by simp [RebuildSC])
      (by simp) (by simpa [rebuild] using h) hu
  -- 27 division, an operand refused
  · intro aux iv c a b hg hnone _ _ r h
    rw [expandI] at h
    simp only [hg, Bool.false_eq_true, ↓reduceIte] at h
    cases h1 : expandI a iv c <;> cases h2 : expandI b iv c <;> simp_all
  -- 28 grad, wrong rank
  · intro aux iv c f val hk hl r h
    rw [expandI] at h
    simp [hk, hl] at h
  -- 29 grad of a terminal chain
  · intro aux iv c f val hk hl r h hu hsc
    rw [expandI] at h
    simp only [hk, hl, Bool.false_eq_true, ↓reduceIte] at h
    refine ⟨fun hw hc => ?_, fun hwc _ => by simp [WFC] at hwc⟩
    have hfi : fi (.op .grad aux [f]) = [] := by simp only [fi]; exact gradChain_fi f val hk
    have hnf : noFreeIdx (.op .grad aux [f]) = true := by simp [noFreeIdx, noFreeIdxL, noFree_chain f val hk]
    have hind : ∀ side ι ι' c', eval ρ side ι (.op .grad aux [f]) c' = eval ρ side ι' (.op .grad aux [f]) c' := by
      intro side ι ι' c'; simp [eval, hk]
    cases c with
    | nil =>
      simp only [List.map_nil, mkIndexed_nil, Option.some.injEq] at h
      subst h
      exact ⟨fun side ι => hind side _ _ [], (List.length_eq_zero_iff.mp hc.symm), hfi, hw, hnf⟩
    | cons v c' =>
      simp only [List.map_cons] at h
      rw [mkIndexed_grad] at h
      exact plain_fixed_G1 ρ _ iv (v :: c') r hw hfi hnf (fun side ι ι' => hind side ι ι' _) h
  -- 30 grad of something else
  · intro aux iv c f hk r h
    rw [expandI] at h
    simp [hk] at h
  -- 31 variable
  · intro aux iv c a head ih r h hu hsc
    rw [expandI] at h
    simp only [expandSC] at hsc
    have pa := ih r h hu hsc
    refine ⟨fun hw hc => ?_, fun hwc _ => by simp [WFC] at hwc⟩
    cases head <;> simp only [WF, Bool.false_eq_true] at hw
    simp only [shape] at hc
    obtain ⟨v1, s1, f1, w1, n1⟩ := pa.1 hw hc
    refine ⟨fun side ι => ?_, s1, f1, w1, n1⟩
    rw [v1 side ι]
    simp only [eval]
  -- 32 generic, an operand refused
  · intro aux iv c k0 as h1 h2 h3 h4 h5 h6 h7 h8 hnone _ r h
    rw [expandI] at h
    any_goals assumption
    simp [hnone] at h
  -- 33 generic: marker
  · intro aux iv c k0 as h1 h2 h3 h4 h5 h6 h7 h8 args' hexp hun _ r h hu
    rw [expandI] at h
    any_goals assumption
    simp only [hexp, hun, ↓reduceIte, Option.some.injEq] at h
    subst h
    simp [isUnsupported, unsupported] at hu
  -- 34 generic unchanged
  · intro aux iv c k0 as h1 h2 h3 h4 h5 h6 h7 h8 args' hexp hun hbeq ih r h hu hsc
    rw [expandI] at h
    any_goals assumption
    simp only [hexp, hun, hbeq, Bool.false_eq_true, ↓reduceIte, Option.some.injEq] at h
    subst h
    have e := beqL_eq args' as hbeq
    subst e
    rw [expandSC] at hsc
    any_goals assumption
    simp only [Bool.and_eq_true] at hsc
    have hrel := ih args' hexp (by simpa using hun) hsc.1
    refine ⟨fun hw hc => ?_, fun hwc hc0 => ?_⟩
    · obtain ⟨w', s', f'', n', _, v'⟩ := scalarize ρ iv c k0 aux args' args' (hrel.imp (fun _ _ hh => hh.1))
        h1 h2 h3 h4 h5 h7 h8 hw hc
      exact node_G1 ρ iv c _ _ aux _ w' s' f'' n' v'
    · subst hc0
      obtain ⟨w', n', _, v'⟩ := scalarizeC ρ iv k0 aux args' args' hrel hwc
      exact ⟨v', w', by simpa [noFreeIdx] using n'⟩
  -- 35 generic rebuilt
  · intro aux iv c k0 as h1 h2 h3 h4 h5 h6 h7 h8 args' hexp hun hbeq ih r h hu hsc
    rw [expandI] at h
    any_goals assumption
    simp only [hexp, hun, hbeq, Bool.false_eq_true, ↓reduceIte] at h
    rw [expandSC] at hsc
    any_goals assumption
    simp only [Bool.and_eq_true] at hsc
    have hrel := ih args' hexp (by simpa using hun) hsc.1
    refine ⟨fun hw hc => ?_, fun hwc hc0 => ?_⟩
    · obtain ⟨w', s', f'', n', fx', v'⟩ := scalarize ρ iv c k0 aux as args' (hrel.imp (fun _ _ hh => hh.1))
        h1 h2 h3 h4 h5 h7 h8 hw hc
      obtain ⟨q1, q2, q3⟩ := wf_special k0 aux as hw
      have hk : k0 ≠ .indexed ∧ k0 ≠ .indexSum ∧ k0 ≠ .componentTensor ∧ k0 ≠ .listTensor := by
        refine ⟨fun e => ?_, fun e => ?_, fun e => ?_, fun e => h4 e⟩
        · obtain ⟨A, ii, e'⟩ := q1 e; exact h1 A ii e e'
        · obtain ⟨a, j, e'⟩ := q2 e; exact h2 a j e e'
        · obtain ⟨a, is, e'⟩ := q3 e; exact h3 a is e e'
      have hrsc : RebuildSC k0 args' = true := by
        have hm := hsc.2
        rw [hexp] at hm
        unfold RebuildSC
        split
        · simpa [powOK] using hm
        · exact absurd rfl hk.1
        · exact absurd rfl hk.2.2.1
        · exact absurd rfl hk.2.2.2
        · rfl
      exact finish_rebuild ρ hρ iv c _ k0 aux args' r w' s' f'' n' fx' v' hrsc hk h hu
    · subst hc0
      obtain ⟨w', n', fx', v'⟩ := scalarizeC ρ iv k0 aux as args' hrel hwc
      have hk := wfc_ops k0 aux as hwc
      refine ⟨fun side ι => ?_, (rebuild_sound_cond ρ .none (fun _ => 0) k0 aux args' r w' h).2.1,
        noFree_rebuild k0 aux args' r h n' fx' hk⟩
      rw [(rebuild_sound_cond ρ side ι k0 aux args' r w' h).1, v' side ι]
  -- 36 literals
  · intro e iv c n1 n2 n3 n4 hc r h hu hsc
    have hc' : c = [] := by simpa using hc
    subst hc'
    cases e with
    | term d => exact (n1 d rfl).elim
    | zero sh f => exact (n2 sh f rfl).elim
    | mi is => exact (n3 is rfl).elim
    | op k aux args => exact (n4 k aux args rfl).elim
    | int v =>
      simp only [expandI, List.isEmpty_nil, ↓reduceIte, Option.some.injEq] at h
      subst h
      exact ⟨fun _ _ => ⟨fun side ι => by simp [eval], rfl, rfl, rfl, rfl⟩, fun hwc _ => by simp [WFC] at hwc⟩
    | real n d =>
      simp only [expandI, List.isEmpty_nil, ↓reduceIte, Option.some.injEq] at h
      subst h
      exact ⟨fun _ _ => ⟨fun side ι => by simp [eval], rfl, rfl, rfl, rfl⟩, fun hwc _ => by simp [WFC] at hwc⟩
    | cplx a b c d =>
      simp only [expandI, List.isEmpty_nil, ↓reduceIte, Option.some.injEq] at h
      subst h
      exact ⟨fun _ _ => ⟨fun side ι => by simp [eval], rfl, rfl, rfl, rfl⟩, fun hwc _ => by simp [WFC] at hwc⟩
  -- 37 literal with a component
  · intro e iv c n1 n2 n3 n4 hc r h
    cases e with
    | term d => exact (n1 d rfl).elim
    | zero sh f => exact (n2 sh f rfl).elim
    | mi is => exact (n3 is rfl).elim
    | op k aux args => exact (n4 k aux args rfl).elim
    | int v => simp [expandI, hc] at h
    | real n d => simp [expandI, hc] at h
    | cplx a b c d => simp [expandI, hc] at h
  -- 38-40 operand lists
  · intro iv c rs h _ _
    simp only [expandL, Option.some.injEq] at h
    subst h
    exact .nil
  · intro a as iv c x xs hxs hx iha ihas rs h hu hsc
    rw [expandL] at h
    simp only [hx, hxs, Option.some.injEq] at h
    subst h
    simp only [List.any_cons, Bool.or_eq_false_iff] at hu
    simp only [expandSCL, Bool.and_eq_true] at hsc
    exact .cons (iha x hx hu.1 hsc.1) (ihas xs hxs hu.2 hsc.2)
  · intro a as iv c hnone _ _ rs h
    rw [expandL] at h
    cases h1 : expandI a iv c <;> cases h2 : expandL as iv c <;> simp_all
  -- 41-43 row selection
  · intro n iv c r h
    simp [expandNth] at h
  · intro x tail iv c ih r h hu hsc hw hlen
    rw [expandNth] at h
    simp only [expandSCNth] at hsc
    simp only [WFL, Bool.and_eq_true] at hw
    obtain ⟨v1, s1, f1, w1, n1⟩ := (ih r h hu hsc).1 hw.1 (hlen x (by simp))
    exact ⟨fun side ι => by rw [v1 side ι]; simp only [evalNth], s1, f1, w1, n1⟩
  · intro head xs n iv c ih r h hu hsc hw hlen
    rw [expandNth] at h
    simp only [expandSCNth] at hsc
    simp only [WFL, Bool.and_eq_true] at hw
    obtain ⟨v1, s1, f1, w1, n1⟩ := ih r h hu hsc hw.2 (fun y hy => hlen y (by simp [hy]))
    exact ⟨fun side ι => by rw [v1 side ι]; simp only [evalNth], s1, f1, w1, n1⟩


/-! ## Property theorems -/

theorem envOf_nil (ι : IdxEnv) : envOf [] ι = ι := rfl

/-- **C10e (value).**  For every well-formed `e` (any size), index values `iv`, component `c` of the
    right rank and valuation satisfying `LitSem`: whatever `expandI e iv c` returns — if it is not the
    `unsupported` marker and the side conditions `expandSC` of the run hold — is a well-formed closed
    scalar whose value is the value of component `c` of `e` with the indices read from `iv`.
    No hypothesis on the coverage of `iv` or on ranges is needed: an index without value, a component
    or an index value out of range make `expandI` return `none`. -/
theorem C10_expand_value (ρ : Env K) (hρ : LitSem ρ) (e : Expr) (iv : IdxVals) (c : List Nat) (r : Expr)
    (hw : WF e = true) (hc : c.length = (shape e).length) (hsc : expandSC e iv c = true)
    (h : expandI e iv c = some r) (hu : isUnsupported r = false) :
    (∀ side ι, eval ρ side ι r [] = eval ρ side (fun i => (iv.get i).getD (ι i)) e c) ∧
    shape r = [] ∧ fi r = [] ∧ WF r = true := by
  obtain ⟨v, s, f, w, _⟩ := ((expand_aux ρ hρ).1 e iv c r h hu hsc).1 hw hc
  exact ⟨v, s, f, w⟩

/-- **C10e (no free index remains).**  The result contains no `.free` index at all: every multi-index
    holds fixed indices only and every `Zero` has an empty free-index list. -/
theorem C10_expand_noFreeIdx (ρ : Env K) (hρ : LitSem ρ) (e : Expr) (iv : IdxVals) (c : List Nat) (r : Expr)
    (hw : WF e = true) (hc : c.length = (shape e).length) (hsc : expandSC e iv c = true)
    (h : expandI e iv c = some r) (hu : isUnsupported r = false) : noFreeIdx r = true :=
  (((expand_aux ρ hρ).1 e iv c r h hu hsc).1 hw hc).2.2.2.2

/-- **C10e (conditions).**  A condition expanded at the empty component keeps its truth value. -/
theorem C10_expand_cond (ρ : Env K) (hρ : LitSem ρ) (p : Expr) (iv : IdxVals) (r : Expr)
    (hw : WFC p = true) (hsc : expandSC p iv [] = true) (h : expandI p iv [] = some r) (hu : isUnsupported r = false) :
    (∀ side ι, evalB ρ side ι r = evalB ρ side (fun i => (iv.get i).getD (ι i)) p) ∧ WFC r = true ∧ noFreeIdx r = true :=
  ((expand_aux ρ hρ).1 p iv [] r h hu hsc).2 hw rfl

/-- **C10e (`expand_indices` on a scalar expression).**  `expand e` has the value of `e`, for every index
    environment (free indices of `e`, if any, must have made the expansion fail: the result is closed). -/
theorem C10_expand_closed (ρ : Env K) (hρ : LitSem ρ) (e r : Expr) (hw : WF e = true) (hs : shape e = [])
    (hsc : expandSC e [] [] = true) (h : expand e = some r) (hu : isUnsupported r = false) (side : Side) (ι : IdxEnv) :
    eval ρ side ι r [] = eval ρ side ι e [] ∧ shape r = [] ∧ fi r = [] ∧ WF r = true ∧ noFreeIdx r = true := by
  obtain ⟨v, s, f, w, n⟩ := ((expand_aux ρ hρ).1 e [] [] r h hu hsc).1 hw (by rw [hs])
  exact ⟨v side ι, s, f, w, n⟩

/-! ## The marker leak of `sumOps`, non-vacuity -/

def tg : Expr := .term { cls := "Coefficient", key := "g", shape := [2] }
def tf : Expr := .term { cls := "Coefficient", key := "f", shape := [2] }
def tw : Expr := .term { cls := "Coefficient", key := "w", shape := [2] }
def lab : Expr := .term { cls := "Label", key := "L", shape := [] }

/-- `sum_j [w[j], w[j]*(1+2i)][j]`: the second summand needs complex literal folding (`unsupported`) -/
def leakE : Expr :=
  .op .indexSum [] [.op .indexed [] [.op .listTensor [] [.op .indexed [] [tw, .mi [.free 5]],
    .op .product [] [.op .indexed [] [tw, .mi [.free 5]], .cplx 1 1 2 1]], .mi [.free 5]], .mi [.free 5]]

/-- **`sumOps` does not propagate the marker from a summand**: on this well-formed closed scalar the model of
    `expand_indices` returns the tree `w[0] + <marker>`, which is not flagged as unsupported (the marker is
    tested on the accumulated sum only).  The run predicate `expandSC` excludes it. -/
theorem C10_expand_marker_leak :
    WF leakE = true ∧ shape leakE = [] ∧ fi leakE = [] ∧ expandSC leakE [] [] = false ∧
    (expand leakE).map (fun r => (isUnsupported r, beq r (.op .sum [] [.op .indexed [] [tw, .mi [.fixed 0]], unsupported])))
      = some (false, true) := by decide

/-- the leaked tree has another value than the expression whenever the valuation gives the (meaningless) marker
    terminal a value different from the summand it stands for -/
theorem C10_expand_marker_leak_value (ρ : Env K) (ι : IdxEnv)
    (hne : ρ.term .none "" [] ≠ ρ.term .none "w" [1] * (1 + 2 * ρ.i)) :
    eval ρ .none ι (.op .sum [] [.op .indexed [] [tw, .mi [.fixed 0]], unsupported]) [] ≠ eval ρ .none ι leakE [] := by
  have e1 : eval ρ .none ι (.op .sum [] [.op .indexed [] [tw, .mi [.fixed 0]], unsupported]) [] =
      ρ.term .none "w" [0] + ρ.term .none "" [] := by
    simp [eval, tw, unsupported, Idx.resolve]
  have e2 : eval ρ .none ι leakE [] = ρ.term .none "w" [0] + ρ.term .none "w" [1] * (1 + 2 * ρ.i) := by
    simp [eval, leakE, tw, sumRange, Idx.resolve, evalNth, FI.dimOf, fi, shape, FI.insert, idxPairs, IdxEnv.set,
      List.range, List.range.loop]
  rw [e1, e2]
  intro h
  exact hne (add_left_cancel h)

/-- `v = variable(g); v[0] + 2*v[1]` -/
def exV : Expr := .op .variable [] [tg, lab]
def ex1 : Expr := .op .sum [] [.op .indexed [] [exV, .mi [.fixed 0]], .op .product [] [.int 2, .op .indexed [] [exV, .mi [.fixed 1]]]]
/-- `sum_i as_vector(f_j*2, j)[i] * g_i` with i = 5, j = 4 -/
def ex2 : Expr := .op .indexSum [] [.op .product [] [
   .op .indexed [] [.op .componentTensor [] [.op .product [] [.op .indexed [] [tf, .mi [.free 4]], .int 2], .mi [.free 4]], .mi [.free 5]],
   .op .indexed [] [tg, .mi [.free 5]]], .mi [.free 5]]

example : WF ex1 = true ∧ shape ex1 = [] ∧ expandSC ex1 [] [] = true ∧
    (expand ex1).map (fun r => (isUnsupported r, beq r
      (.op .sum [] [.op .indexed [] [tg, .mi [.fixed 0]], .op .product [] [.int 2, .op .indexed [] [tg, .mi [.fixed 1]]]])))
      = some (false, true) := by decide

example : WF ex2 = true ∧ shape ex2 = [] ∧ fi ex2 = [] ∧ expandSC ex2 [] [] = true ∧
    (expand ex2).map (fun r => (isUnsupported r, noFreeIdx r, beq r
      (.op .sum [] [
        .op .product [] [.op .indexed [] [tg, .mi [.fixed 0]], .op .product [] [.int 2, .op .indexed [] [tf, .mi [.fixed 0]]]],
        .op .product [] [.op .indexed [] [tg, .mi [.fixed 1]], .op .product [] [.int 2, .op .indexed [] [tf, .mi [.fixed 1]]]]])))
      = some (false, true, true) := by decide

/-- the hypotheses of the theorems hold for both (any valuation satisfying `LitSem`, e.g. `litSem_rat`) -/
example (ρ : Env K) (hρ : LitSem ρ) (ι : IdxEnv) (r : Expr) (h : expand ex1 = some r) (hu : isUnsupported r = false) :
    eval ρ .none ι r [] = eval ρ .none ι ex1 [] :=
  (C10_expand_closed ρ hρ ex1 r (by decide) (by decide) (by decide) h hu .none ι).1
example (ρ : Env K) (hρ : LitSem ρ) (ι : IdxEnv) (r : Expr) (h : expand ex2 = some r) (hu : isUnsupported r = false) :
    eval ρ .none ι r [] = eval ρ .none ι ex2 [] ∧ noFreeIdx r = true :=
  have := C10_expand_closed ρ hρ ex2 r (by decide) (by decide) (by decide) h hu .none ι
  ⟨this.1, this.2.2.2.2⟩
/-- a component of a vector-valued expression with an index value supplied: `(2*g)[i]`-like `as_vector(g_j*2, j)` at c = [1] -/
example : (expandI (.op .componentTensor [] [.op .product [] [.op .indexed [] [tg, .mi [.free 4]], .int 2], .mi [.free 4]]) [] [1]).map
    (fun r => beq r (.op .product [] [.int 2, .op .indexed [] [tg, .mi [.fixed 1]]])) = some true := by decide
/-- out of range: refused -/
example : expandI (.op .componentTensor [] [.op .product [] [.op .indexed [] [tg, .mi [.free 4]], .int 2], .mi [.free 4]]) [] [2] = none := by
  decide
/-- a free index without value: refused -/
example : expand (.op .indexed [] [tg, .mi [.free 4]]) = none := by decide

end UflVerif.C10e
